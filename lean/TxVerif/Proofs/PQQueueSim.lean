/-
  The simulation invariant between the queue model `PQState` and the specification `ASpec`
  (Model/PQQueue.lean), and the simulation lemma for every operation.
-/
import TxVerif.Proofs.PQQueue
namespace TxVerif

/-- the cursor `c` is at the boundary in front of event `k`: at the end of event `k - 1`, or, if the header
    of event `k` does not fit there and the next page exists (`n` pages in the chain), at the start of that page -/
def AtB (S : Nat) (evs : List (List UInt8)) (n k : Nat) (c : Nat × Nat) : Prop :=
  c = qpos S evs k ∨ (qpad S evs k ∧ c = ((qW S evs k).length + 1, 28) ∧ (qW S evs k).length + 1 < n)

theorem AtB_mono (S : Nat) (evs ext : List (List UInt8)) (n n' k : Nat) (c : Nat × Nat)
    (h : AtB S evs n k c) (hk : k ≤ evs.length) (hn : n ≤ n') : AtB S (evs ++ ext) n' k c := by
  obtain ⟨e1, e2, e3⟩ := qpos_take S evs ext k hk
  rcases h with h | ⟨h1, h2, h3⟩
  · left; rw [e1]; exact h
  · right; exact ⟨e3.mpr h1, by rw [(qW_take S evs ext k hk).1]; exact h2,
      by rw [(qW_take S evs ext k hk).1]; omega⟩

/-- root header, positions, counters -/
structure HInv (S : Nat) (evs : List (List UInt8)) (F A : Nat) (q : PQState) : Prop where
  tail : q.hdr.tailId = F
  start : q.hdr.startId = A
  tailSet : q.hdr.tailSet = decide (0 < F)
  headSet : q.hdr.headSet = decide (0 < F)
  readSet : q.hdr.readSet = true → 0 < F
  /-- where a new reader starts: in front of the first event that is not ACKed -/
  startPos : 0 < F → AtB S evs q.w.persisted.length A (if q.hdr.readSet then q.readPos else q.headPos)
  /-- the head page holds an event header; its first event is ACKed or the first one that is not -/
  head : 0 < F → ∃ K, q.w.persisted[q.headPos.1]? = some K ∧ K.off = q.headPos.2 ∧ K.off ≠ 0 ∧
    K.first = q.hdr.headId ∧ q.hdr.headId ≤ A
  inuse : q.inuse + q.headPos.1 = q.w.persisted.length
  totF : q.totFlushed = F
  totA : q.totAcked = A
  le : A ≤ F
  /-- the head page starts with an acknowledged event (or nothing was acknowledged yet and it is the first page) -/
  headLt : q.hdr.headId < A ∨ (A = 0 ∧ q.hdr.headId = 0)
  /-- the head page is not in front of the page in which the header of the last acknowledged event starts -/
  headGe : A = 0 ∨ (qhdr S evs (A - 1)).1 ≤ q.headPos.1

/-- the reader -/
structure RInv (P S : Nat) (evs : List (List UInt8)) (F A n : Nat) (r : RState) (a : ASpec) : Prop where
  inTx : r.inTx = a.inRead
  bytes : r.eventBytes = a.left
  cons : a.consumed ≤ F
  endId : r.endId ≤ F
  cur : match r.cur with
    | none => a.left = 0 ∧ a.consumed = A
    | some c => r.id = a.consumed ∧ (a.left = 0 → AtB S evs n a.consumed c) ∧
        (0 < a.left → a.consumed < F ∧ a.left ≤ (evs.getD a.consumed []).length ∧
          c = qmid P S evs a.consumed ((evs.getD a.consumed []).length - a.left))

structure QInv (c : QCfg) (q : PQState) (a : ASpec) : Prop where
  w : BufInv c.S 0 q.w a.events a.cur
  fl : q.w.tailId = a.flushed
  cnt : q.w.activeEventCount + a.flushed = a.events.length
  sz : ∀ e ∈ a.events, 0 < e.length ∧ e.length < 2 ^ 32
  h : HInv c.S a.events a.flushed a.acked q
  r : RInv c.P c.S a.events a.flushed a.acked q.w.persisted.length q.r a

theorem QInv.fle {c : QCfg} {q : PQState} {a : ASpec} (h : QInv c q a) : a.flushed ≤ a.events.length := by
  have := h.w.tail_le; rw [h.fl] at this; omega

theorem QInv.crel {c : QCfg} {q : PQState} {a : ASpec} (h : QInv c q a) :
    CRel c.S a.events a.flushed q.w.persisted := by
  have := CRel_of_BufInv c.S q.w a.events a.cur h.w
  rwa [h.fl] at this

theorem CRel_take (S : Nat) (evs ext : List (List UInt8)) (F : Nat) (C : List QPage) (hF : F ≤ evs.length) :
    CRel S (evs ++ ext) F C ↔ CRel S evs F C := by
  simp only [CRel, (qW_take S evs ext F hF).1, (qW_take S evs ext F hF).2]

theorem RInv_grow (P S : Nat) (evs ext : List (List UInt8)) (F F' A n n' : Nat) (r : RState) (a : ASpec)
    (h : RInv P S evs F A n r a) (hF : F ≤ evs.length) (hFF : F ≤ F') (hn : n ≤ n') :
    RInv P S (evs ++ ext) F' A n' r a := by
  refine ⟨h.inTx, h.bytes, Nat.le_trans h.cons hFF, Nat.le_trans h.endId hFF, ?_⟩
  have hc := h.cur
  cases hr : r.cur with
  | none => rw [hr] at hc; exact hc
  | some c =>
    rw [hr] at hc
    simp only at hc ⊢
    obtain ⟨h1, h2, h3⟩ := hc
    refine ⟨h1, fun hl => AtB_mono S evs ext n n' _ c (h2 hl) (Nat.le_trans h.cons hF) hn, fun hl => ?_⟩
    obtain ⟨g1, g2, g3⟩ := h3 hl
    have hlt : a.consumed < evs.length := by omega
    have hg : (evs ++ ext).getD a.consumed [] = evs.getD a.consumed [] := by
      simp [List.getD, List.getElem?_append_left hlt]
    rw [hg, qmid_take P S evs ext _ _ (by omega)]
    exact ⟨by omega, g2, g3⟩

theorem QHdr_flush_zero (h : QHdr) (f : Nat) : h.flush f 0 = h := by simp [QHdr.flush]

theorem QHdr_flush_pos (h : QHdr) (f k : Nat) (hk : k ≠ 0) :
    h.flush f k = { h with headId := if h.headSet then h.headId else f, headSet := true,
                           tailId := h.tailId + k, tailSet := true } := by
  simp [QHdr.flush, hk]

/-- the root header after a writer call that flushed up to `F'` -/
theorem HInv_afterWriter (S : Nat) (h4 : 4 ≤ S) (evs ext : List (List UInt8)) (F A : Nat) (q : PQState) (w' : WState)
    (cb : Option Nat) (hH : HInv S evs F A q) (hqF : q.w.tailId = F)
    (hC : CRel S evs F q.w.persisted) (hC' : CRel S (evs ++ ext) w'.tailId w'.persisted)
    (hFl : F ≤ evs.length) (hF : F ≤ w'.tailId) (hF' : w'.tailId ≤ (evs ++ ext).length)
    (hcb : cb.getD 0 = w'.tailId - F) :
    HInv S (evs ++ ext) w'.tailId A (q.afterWriter w' cb) := by
  have hCe : CRel S (evs ++ ext) F q.w.persisted := (CRel_take S evs ext F _ hFl).mpr hC
  have hlen := CRel_length_mono S (evs ++ ext) F w'.tailId _ _ hCe hC' hF hF'
  have hAl : A ≤ evs.length := Nat.le_trans hH.le hFl
  by_cases hk : w'.tailId - q.w.tailId = 0
  · -- nothing new was flushed
    have hFF : w'.tailId = F := by omega
    have hl2 : w'.persisted.length = q.w.persisted.length := by
      rw [CRel_length S _ _ _ hCe, CRel_length S _ _ _ hC', hFF]
    have e1 : (q.afterWriter w' cb).hdr = q.hdr := by simp [PQState.afterWriter, hk, QHdr_flush_zero]
    have e2 : (q.afterWriter w' cb).headPos = q.headPos := by simp [PQState.afterWriter, hk]
    have e3 : (q.afterWriter w' cb).readPos = q.readPos := rfl
    have e4 : (q.afterWriter w' cb).w = w' := rfl
    refine ⟨by rw [e1, hFF]; exact hH.tail, by rw [e1]; exact hH.start, by rw [e1, hFF]; exact hH.tailSet,
      by rw [e1, hFF]; exact hH.headSet, by rw [e1, hFF]; exact hH.readSet, ?_, ?_, ?_, ?_, hH.totA,
      by have := hH.le; omega, by rw [e1]; exact hH.headLt, ?_⟩
    · intro h0
      rw [e1, e2, e3, e4, hl2]
      exact AtB_mono S evs ext _ _ A _ (hH.startPos (by omega)) hAl (Nat.le_refl _)
    · intro h0
      obtain ⟨K, k1, k2, k3, k4, k5⟩ := hH.head (by omega)
      obtain ⟨K', g1, g2, g3⟩ := chain_grow S (evs ++ ext) F w'.tailId _ _ hCe hC' hF hF' _ K k1 k3
      rw [e1, e2, e4]
      exact ⟨K', g1, by rw [g2]; exact k2, by rw [g2]; exact k3, by rw [g3]; exact k4, k5⟩
    · show q.inuse + (w'.persisted.length - q.w.persisted.length) + (q.afterWriter w' cb).headPos.1 = w'.persisted.length
      rw [e2, hl2]; have := hH.inuse; omega
    · show q.totFlushed + cb.getD 0 = w'.tailId
      rw [hcb, hH.totF]; omega
    · rw [e2]
      rcases hH.headGe with h | h
      · exact Or.inl h
      · right; rw [(qpos_take S evs ext (A - 1) (by omega)).2.1]; exact h
  · -- new events are durable
    have hF'0 : 0 < w'.tailId := by omega
    have hkk : w'.tailId - q.w.tailId ≠ 0 := hk
    obtain ⟨K0, f1, f2, f3⟩ := chain_first_page S h4 (evs ++ ext) w'.tailId _ hC' hF' hF'0
    have hfirst : w'.persisted.headD QPage.fresh = K0 := by
      cases hp : w'.persisted with
      | nil => rw [hp] at f1; simp at f1
      | cons x xs => rw [hp] at f1; simp at f1; simp [f1]
    have e0 : (q.afterWriter w' cb).hdr = q.hdr.flush 0 (w'.tailId - q.w.tailId) := by
      simp only [PQState.afterWriter, hfirst, f3]
    rw [QHdr_flush_pos _ _ _ hkk] at e0
    have e1a : (q.afterWriter w' cb).hdr.headId = if q.hdr.headSet then q.hdr.headId else 0 := by rw [e0]
    have e1b : (q.afterWriter w' cb).hdr.headSet = true := by rw [e0]
    have e1c : (q.afterWriter w' cb).hdr.tailId = q.hdr.tailId + (w'.tailId - q.w.tailId) := by rw [e0]
    have e1d : (q.afterWriter w' cb).hdr.tailSet = true := by rw [e0]
    have e1e : (q.afterWriter w' cb).hdr.readSet = q.hdr.readSet := by rw [e0]
    have e1f : (q.afterWriter w' cb).hdr.readId = q.hdr.readId := by rw [e0]
    have e2 : (q.afterWriter w' cb).headPos = if q.hdr.headSet then q.headPos else (0, 28) := by
      simp only [PQState.afterWriter, hfirst, f2, hkk, decide_false, Bool.or_false]
    have e3 : (q.afterWriter w' cb).readPos = q.readPos := rfl
    have e4 : (q.afterWriter w' cb).w = w' := rfl
    have hrs := e1e
    refine ⟨by rw [e1c, hH.tail]; omega, ?_, by rw [e1d]; simp [hF'0], by rw [e1b]; simp [hF'0],
      fun _ => hF'0, ?_, ?_, ?_, ?_, hH.totA, by have := hH.le; omega, ?_, ?_⟩
    · -- startId
      have hs := hH.start
      simp only [QHdr.startId] at hs ⊢
      rw [e1a, e1e, e1f]
      by_cases hr : q.hdr.readSet = true
      · simp only [hr, if_true] at hs ⊢; exact hs
      · simp only [hr] at hs ⊢
        by_cases hh : q.hdr.headSet = true
        · simp only [hh, if_true]; exact hs
        · simp only [hh]
          have : ¬ (0 < F) := by
            intro h0; have := hH.headSet; rw [decide_eq_true h0] at this; exact hh this
          have := hH.le; simp; omega
    · intro _
      rw [hrs, e2, e3, e4]
      by_cases hr : q.hdr.readSet = true
      · have h0 := hH.readSet hr
        have := hH.startPos h0
        simp only [hr, if_true] at this ⊢
        exact AtB_mono S evs ext _ _ A _ this hAl hlen
      · by_cases hh : q.hdr.headSet = true
        · have h0 : 0 < F := by
            have := hH.headSet; rw [hh] at this; exact of_decide_eq_true this.symm
          have := hH.startPos h0
          simp only [hr, hh, if_true] at this ⊢
          exact AtB_mono S evs ext _ _ A _ this hAl hlen
        · have hF0 : ¬ (0 < F) := by
            intro h0; have := hH.headSet; rw [decide_eq_true h0] at this; exact hh this
          have hA0 : A = 0 := by have := hH.le; omega
          simp only [hr, hh]
          left
          rw [hA0]
          rfl
    · intro _
      rw [e1a, e2, e4]
      by_cases hh : q.hdr.headSet = true
      · have h0 : 0 < F := by
          have := hH.headSet; rw [hh] at this; exact of_decide_eq_true this.symm
        obtain ⟨K, k1, k2, k3, k4, k5⟩ := hH.head h0
        obtain ⟨K', g1, g2, g3⟩ := chain_grow S (evs ++ ext) F w'.tailId _ _ hCe hC' hF hF' _ K k1 k3
        simp only [hh, if_true]
        exact ⟨K', g1, by rw [g2]; exact k2, by rw [g2]; exact k3, by rw [g3]; exact k4, k5⟩
      · simp only [hh]
        exact ⟨K0, f1, f2, by rw [f2]; decide, f3, Nat.zero_le _⟩
    · show q.inuse + (w'.persisted.length - q.w.persisted.length) + (q.afterWriter w' cb).headPos.1 = w'.persisted.length
      rw [e2]
      have hi := hH.inuse
      by_cases hh : q.hdr.headSet = true
      · simp only [hh, if_true]; omega
      · have hF0 : F = 0 := by
          have := hH.headSet
          cases hd : decide (0 < F) with
          | true => rw [hd] at this; exact absurd this hh
          | false => have := of_decide_eq_false hd; omega
        have hl0 : q.w.persisted.length = 0 := by rw [CRel_length S _ _ _ hCe, hF0]; rfl
        have hf : q.hdr.headSet = false := by cases h : q.hdr.headSet <;> simp_all
        simp only [hf, Bool.false_eq_true, if_false]
        omega
    · show q.totFlushed + cb.getD 0 = w'.tailId
      rw [hcb, hH.totF]; omega
    · rw [e1a]
      by_cases hh : q.hdr.headSet = true
      · simp only [hh, if_true]; exact hH.headLt
      · have hF0 : ¬ (0 < F) := by
          intro h0; have := hH.headSet; rw [decide_eq_true h0] at this; exact hh this
        have hA0 : A = 0 := by have := hH.le; omega
        simp only [hh]
        exact Or.inr ⟨hA0, rfl⟩
    · rw [e2]
      by_cases hh : q.hdr.headSet = true
      · simp only [hh, if_true]
        rcases hH.headGe with h | h
        · exact Or.inl h
        · right; rw [(qpos_take S evs ext (A - 1) (by omega)).2.1]; exact h
      · have hF0 : ¬ (0 < F) := by
          intro h0; have := hH.headSet; rw [decide_eq_true h0] at this; exact hh this
        left; have := hH.le; omega

theorem QCfg.S_add (c : QCfg) (hP : 64 ≤ c.P) : c.S + 28 = c.P ∧ 4 ≤ c.S := by
  simp only [QCfg.S]; omega

/-- a writer call that extended the finished events by `ext` and flushed up to `w'.tailId` -/
theorem afterWriter_inv (c : QCfg) (hP : 64 ≤ c.P) (q : PQState) (a : ASpec) (hI : QInv c q a)
    (w' : WState) (ext : List (List UInt8)) (cur' : List UInt8) (cb : Option Nat)
    (hw : BufInv c.S 0 w' (a.events ++ ext) cur')
    (hF : a.flushed ≤ w'.tailId)
    (hcnt : w'.activeEventCount + w'.tailId = (a.events ++ ext).length)
    (hsz : ∀ e ∈ ext, 0 < e.length ∧ e.length < 2 ^ 32)
    (hcb : cb.getD 0 = w'.tailId - a.flushed) :
    QInv c (q.afterWriter w' cb) { a with events := a.events ++ ext, cur := cur', flushed := w'.tailId } := by
  have hC := hI.crel
  have hC' : CRel c.S (a.events ++ ext) w'.tailId w'.persisted := CRel_of_BufInv c.S w' _ _ hw
  have hF' : w'.tailId ≤ (a.events ++ ext).length := by have := hw.tail_le; omega
  have hCe : CRel c.S (a.events ++ ext) a.flushed q.w.persisted := (CRel_take c.S _ ext _ _ hI.fle).mpr hC
  have hlen := CRel_length_mono c.S (a.events ++ ext) a.flushed w'.tailId _ _ hCe hC' hF hF'
  refine ⟨hw, rfl, hcnt, ?_, ?_, ?_⟩
  · intro e he
    rcases List.mem_append.mp he with h | h
    · exact hI.sz e h
    · exact hsz e h
  · exact HInv_afterWriter c.S (c.S_add hP).2 a.events ext a.flushed a.acked q w' cb hI.h hI.fl hC hC' hI.fle hF hF' hcb
  · have := RInv_grow c.P c.S a.events ext a.flushed w'.tailId a.acked _ w'.persisted.length q.r a hI.r hI.fle hF hlen
    exact ⟨this.inTx, this.bytes, this.cons, this.endId, this.cur⟩

theorem flushBuffer_count0 (S : Nat) (s : WState) : (flushBuffer S s).activeEventCount = 0 := by
  unfold flushBuffer
  cases s.ev with
  | nil => rfl
  | cons hp post =>
    simp only
    repeat (first | rfl | split)

theorem write_fields (S : Nat) (s : WState) (p : List UInt8) :
    (s.write S p).tailId = (if s.avail ≤ p.length then flushBuffer S s else s).tailId ∧
    (s.write S p).activeEventCount = (if s.avail ≤ p.length then flushBuffer S s else s).activeEventCount :=
  ⟨rfl, rfl⟩

theorem nextCore_fields (S : Nat) (s : WState) :
    (s.nextCore S).tailId = s.tailId ∧ (s.nextCore S).activeEventCount = s.activeEventCount + 1 := ⟨rfl, rfl⟩

/-! ## producer calls -/

theorem sim_write (c : QCfg) (hP : 64 ≤ c.P) (q : PQState) (a a' : ASpec) (o : QOut) (p : List UInt8)
    (hI : QInv c q a) (hs : a.step (.write p) (q.autoFlush c (.write p)) = some (a', o)) :
    (q.step c (.write p)).2 = o ∧ QInv c (q.step c (.write p)).1 a' := by
  have hw := BufInv_step c.S 0 (c.S_add hP).2 q.w (a.events, a.cur) (.write p) hI.w
  change BufInv c.S 0 (q.w.write c.S p) a.events (a.cur ++ p) at hw
  obtain ⟨t1, t2⟩ := write_fields c.S q.w p
  simp only [ASpec.step, PQState.autoFlush] at hs
  by_cases hr : a.inRead = true
  · simp [hr] at hs
  have hr' : a.inRead = false := by simpa using hr
  simp only [hr', Bool.false_eq_true, if_false] at hs
  by_cases hfl : q.w.avail ≤ p.length
  · simp only [hfl, decide_true, if_true, ASpec.doFlush, Option.some.injEq, Prod.mk.injEq] at hs
    obtain ⟨hs1, hs2⟩ := hs
    subst hs1 hs2
    simp only [hfl, if_true] at t1 t2
    have hf := BufInv_flush c.S 0 q.w a.events a.cur hI.w
    have htail : (q.w.write c.S p).tailId = a.events.length := by rw [t1, hf.2]; omega
    have hcount : (q.w.write c.S p).activeEventCount = 0 := by rw [t2, flushBuffer_count0]
    have hcb : q.w.activeEventCount = a.events.length - a.flushed := by have := hI.cnt; omega
    refine ⟨?_, ?_⟩
    · simp only [PQState.step, PQState.write, hfl, if_true, hcb]
    · have := afterWriter_inv c hP q a hI (q.w.write c.S p) [] (a.cur ++ p) (some q.w.activeEventCount)
        (by simpa using hw) (by rw [htail]; exact hI.fle) (by rw [htail, hcount]; simp) (by simp)
        (by rw [htail]; exact hcb)
      simp only [List.append_nil, htail, hr'] at this
      simpa [PQState.step, PQState.write, hfl, hr'] using this
  · simp only [hfl, decide_false, Bool.false_eq_true, if_false, Option.some.injEq, Prod.mk.injEq] at hs
    obtain ⟨hs1, hs2⟩ := hs
    subst hs1 hs2
    simp only [hfl, if_false] at t1 t2
    refine ⟨?_, ?_⟩
    · simp only [PQState.step, PQState.write, hfl, if_false]
    · have := afterWriter_inv c hP q a hI (q.w.write c.S p) [] (a.cur ++ p) none
        (by simpa using hw) (by rw [t1, hI.fl]; exact Nat.le_refl _) (by rw [t1, t2, hI.fl]; simpa using hI.cnt) (by simp)
        (by rw [t1, hI.fl]; simp)
      simp only [List.append_nil, t1, hI.fl, hr'] at this
      simpa [PQState.step, PQState.write, hfl, hr'] using this

theorem sim_next (c : QCfg) (hP : 64 ≤ c.P) (q : PQState) (a a' : ASpec) (o : QOut)
    (hI : QInv c q a) (hs : a.step .next (q.autoFlush c .next) = some (a', o)) :
    (q.step c .next).2 = o ∧ QInv c (q.step c .next).1 a' := by
  have hw := BufInv_step c.S 0 (c.S_add hP).2 q.w (a.events, a.cur) .next hI.w
  change BufInv c.S 0 (q.w.next c.S) (a.events ++ [a.cur]) [] at hw
  have h1 := BufInv_nextCore c.S 0 (c.S_add hP).2 q.w a.events a.cur hI.w
  obtain ⟨t1, t2⟩ := nextCore_fields c.S q.w
  simp only [ASpec.step, PQState.autoFlush] at hs
  by_cases hg : (a.inRead || a.cur.isEmpty || decide (2 ^ 32 ≤ a.cur.length)) = true
  · simp [hg] at hs
  simp only [hg, Bool.false_eq_true, if_false] at hs
  simp only [Bool.or_eq_true, not_or, Bool.not_eq_true, decide_eq_false_iff_not] at hg
  obtain ⟨⟨hr', hne⟩, hsz⟩ := hg
  have hext : ∀ e ∈ [a.cur], 0 < e.length ∧ e.length < 2 ^ 32 := by
    intro e he
    simp only [List.mem_singleton] at he
    subst he
    refine ⟨?_, by omega⟩
    cases hc : a.cur with
    | nil => rw [hc] at hne; simp at hne
    | cons x xs => simp
  by_cases hfl : (q.w.nextCore c.S).avail ≤ 4
  · simp only [hfl, decide_true, if_true, ASpec.doFlush, Option.some.injEq, Prod.mk.injEq] at hs
    obtain ⟨hs1, hs2⟩ := hs
    subst hs1 hs2
    have hf := BufInv_flush c.S 0 _ _ _ h1
    have hnx : q.w.next c.S = flushBuffer c.S (q.w.nextCore c.S) := by simp [WState.next, hfl]
    have htail : (q.w.next c.S).tailId = (a.events ++ [a.cur]).length := by rw [hnx, hf.2]; omega
    have hcount : (q.w.next c.S).activeEventCount = 0 := by rw [hnx, flushBuffer_count0]
    have hcb : (q.w.nextCore c.S).activeEventCount = (a.events ++ [a.cur]).length - a.flushed := by
      rw [t2]; have := hI.cnt; simp; omega
    refine ⟨?_, ?_⟩
    · simp only [PQState.step, PQState.next, hfl, if_true, hcb]
    · have := afterWriter_inv c hP q a hI (q.w.next c.S) [a.cur] [] (some (q.w.nextCore c.S).activeEventCount)
        hw (by rw [htail]; have := hI.fle; simp; omega) (by rw [htail, hcount]; simp) hext
        (by rw [htail]; exact hcb)
      simp only [htail, hr'] at this
      simpa [PQState.step, PQState.next, hfl, hr'] using this
  · simp only [hfl, decide_false, Bool.false_eq_true, if_false, Option.some.injEq, Prod.mk.injEq] at hs
    obtain ⟨hs1, hs2⟩ := hs
    subst hs1 hs2
    have hnx : q.w.next c.S = q.w.nextCore c.S := by simp [WState.next, hfl]
    have htail : (q.w.next c.S).tailId = a.flushed := by rw [hnx, t1, hI.fl]
    have hcount : (q.w.next c.S).activeEventCount = q.w.activeEventCount + 1 := by rw [hnx, t2]
    refine ⟨?_, ?_⟩
    · simp only [PQState.step, PQState.next, hfl, if_false]
    · have := afterWriter_inv c hP q a hI (q.w.next c.S) [a.cur] [] none
        hw (by rw [htail]; exact Nat.le_refl _) (by rw [htail, hcount]; have := hI.cnt; simp; omega) hext
        (by rw [htail]; simp)
      simp only [htail, hr'] at this
      simpa [PQState.step, PQState.next, hfl, hr'] using this

theorem sim_flush (c : QCfg) (hP : 64 ≤ c.P) (q : PQState) (a a' : ASpec) (o : QOut)
    (hI : QInv c q a) (hs : a.step .flush (q.autoFlush c .flush) = some (a', o)) :
    (q.step c .flush).2 = o ∧ QInv c (q.step c .flush).1 a' := by
  have hf := BufInv_flush c.S 0 q.w a.events a.cur hI.w
  simp only [ASpec.step] at hs
  by_cases hr : a.inRead = true
  · simp [hr] at hs
  have hr' : a.inRead = false := by simpa using hr
  simp only [hr', Bool.false_eq_true, if_false, ASpec.doFlush, Option.some.injEq, Prod.mk.injEq] at hs
  obtain ⟨hs1, hs2⟩ := hs
  subst hs1 hs2
  have htail : (q.w.flush c.S).tailId = a.events.length := by
    show (flushBuffer c.S q.w).tailId = _; rw [hf.2]; omega
  have hcount : (q.w.flush c.S).activeEventCount = 0 := flushBuffer_count0 c.S q.w
  have hcb : q.w.activeEventCount = a.events.length - a.flushed := by have := hI.cnt; omega
  refine ⟨?_, ?_⟩
  · simp only [PQState.step, PQState.flush, hcb]
  · have := afterWriter_inv c hP q a hI (q.w.flush c.S) [] a.cur (some q.w.activeEventCount)
      (by simpa [WState.flush] using hf.1) (by rw [htail]; exact hI.fle) (by rw [htail, hcount]; simp) (by simp)
      (by rw [htail]; exact hcb)
    simp only [List.append_nil, htail, hr'] at this
    simpa [PQState.step, PQState.flush, hr'] using this

/-! ## reader calls -/

theorem HInv_setR (S : Nat) (evs : List (List UInt8)) (F A : Nat) (q : PQState) (r' : RState)
    (h : HInv S evs F A q) : HInv S evs F A { q with r := r' } :=
  ⟨h.tail, h.start, h.tailSet, h.headSet, h.readSet, h.startPos, h.head, h.inuse, h.totF, h.totA, h.le, h.headLt, h.headGe⟩

/-- a call that only changes the reader -/
theorem QInv_setR (c : QCfg) (q : PQState) (a a' : ASpec) (r' : RState) (hI : QInv c q a)
    (e1 : a'.events = a.events) (e2 : a'.cur = a.cur) (e3 : a'.flushed = a.flushed) (e4 : a'.acked = a.acked)
    (hr : RInv c.P c.S a.events a.flushed a.acked q.w.persisted.length r' a') :
    QInv c { q with r := r' } a' := by
  refine ⟨by rw [e1, e2]; exact hI.w, by rw [e3]; exact hI.fl, by rw [e1, e3]; exact hI.cnt,
    by rw [e1]; exact hI.sz, ?_, ?_⟩
  · rw [e1, e3, e4]; exact HInv_setR _ _ _ _ q r' hI.h
  · rw [e1, e3, e4]; exact hr

theorem sim_rbegin (c : QCfg) (q : PQState) (a a' : ASpec) (o : QOut) (fl : Bool)
    (hI : QInv c q a) (hs : a.step .rbegin fl = some (a', o)) :
    (q.step c .rbegin).2 = o ∧ QInv c (q.step c .rbegin).1 a' := by
  simp only [ASpec.step] at hs
  have hin := hI.r.inTx
  by_cases hr : a.inRead = true
  · simp only [hr, if_true, Option.some.injEq, Prod.mk.injEq] at hs
    obtain ⟨hs1, hs2⟩ := hs
    subst hs1 hs2
    rw [hr] at hin
    simp only [PQState.step, PQState.rbegin, hin, if_true]
    exact ⟨trivial, hI⟩
  · have hr' : a.inRead = false := by simpa using hr
    simp only [hr', Bool.false_eq_true, if_false, Option.some.injEq, Prod.mk.injEq] at hs
    obtain ⟨hs1, hs2⟩ := hs
    subst hs1 hs2
    rw [hr'] at hin
    simp only [PQState.step, PQState.rbegin, hin, Bool.false_eq_true, if_false]
    refine ⟨trivial, QInv_setR c q a _ _ hI rfl rfl rfl rfl ⟨rfl, hI.r.bytes, hI.r.cons, hI.r.endId, hI.r.cur⟩⟩

theorem sim_rdone (c : QCfg) (q : PQState) (a a' : ASpec) (o : QOut) (fl : Bool)
    (hI : QInv c q a) (hs : a.step .rdone fl = some (a', o)) :
    (q.step c .rdone).2 = o ∧ QInv c (q.step c .rdone).1 a' := by
  simp only [ASpec.step, Option.some.injEq, Prod.mk.injEq] at hs
  obtain ⟨hs1, hs2⟩ := hs
  subst hs1 hs2
  simp only [PQState.step, PQState.rdone]
  refine ⟨trivial, QInv_setR c q a _ _ hI rfl rfl rfl rfl ⟨rfl, hI.r.bytes, hI.r.cons, hI.r.endId, hI.r.cur⟩⟩

/-- `updateQueueState`: `endID` is the number of flushed events; a nil cursor is positioned in front of the
    first event that is not ACKed (if the queue has pages) -/
theorem updateQueueState_inv (c : QCfg) (q : PQState) (a : ASpec) (r : RState)
    (hH : HInv c.S a.events a.flushed a.acked q)
    (hR : RInv c.P c.S a.events a.flushed a.acked q.w.persisted.length r a) :
    RInv c.P c.S a.events a.flushed a.acked q.w.persisted.length (q.updateQueueState r) a ∧
    (q.updateQueueState r).endId = a.flushed ∧
    ((q.updateQueueState r).cur = none → a.flushed = 0) ∧
    (∀ x, (q.updateQueueState r).cur = some x → (q.updateQueueState r).id = a.consumed) := by
  have hcur := hR.cur
  cases hc : r.cur with
  | some x =>
    rw [hc] at hcur
    have e : q.updateQueueState r = { r with endId := q.hdr.tailId } := by simp [PQState.updateQueueState, hc]
    rw [e]
    refine ⟨⟨hR.inTx, hR.bytes, hR.cons, by simp [hH.tail], by simp only [hc]; exact hcur⟩, hH.tail,
      by simp [hc], fun y _ => hcur.1⟩
  | none =>
    rw [hc] at hcur
    have e : q.updateQueueState r = { r with
        cur := if q.hdr.readSet then some q.readPos else if q.hdr.headSet then some q.headPos else none,
        id := q.hdr.startId, endId := q.hdr.tailId } := by simp [PQState.updateQueueState, hc]
    rw [e]
    by_cases hF : 0 < a.flushed
    · have hhs : q.hdr.headSet = true := by rw [hH.headSet]; exact decide_eq_true hF
      have hsp := hH.startPos hF
      have ecur : (if q.hdr.readSet then some q.readPos else if q.hdr.headSet then some q.headPos else none) =
          some (if q.hdr.readSet then q.readPos else q.headPos) := by
        cases q.hdr.readSet <;> simp [hhs]
      rw [ecur]
      refine ⟨⟨hR.inTx, hR.bytes, hR.cons, by simp [hH.tail], ?_⟩, hH.tail, by simp, fun y _ => by simp [hH.start, hcur.2]⟩
      simp only
      refine ⟨by rw [hH.start, hcur.2], fun _ => by rw [hcur.2]; exact hsp, fun h => by omega⟩
    · have hF0 : a.flushed = 0 := by omega
      have hhs : q.hdr.headSet = false := by rw [hH.headSet]; simp [hF0]
      have hrs : q.hdr.readSet = false := by
        cases h : q.hdr.readSet with
        | false => rfl
        | true => exact absurd (hH.readSet h) hF
      simp only [hhs, hrs, Bool.false_eq_true, if_false]
      refine ⟨⟨hR.inTx, hR.bytes, hR.cons, by simp [hH.tail], by simp only; exact hcur⟩, hH.tail, fun _ => hF0,
        fun y hy => by simp at hy⟩

theorem sim_available (c : QCfg) (q : PQState) (a a' : ASpec) (o : QOut) (fl : Bool)
    (hI : QInv c q a) (hs : a.step .available fl = some (a', o)) :
    (q.step c .available).2 = o ∧ QInv c (q.step c .available).1 a' := by
  simp only [ASpec.step] at hs
  have hin := hI.r.inTx
  by_cases hr : a.inRead = true
  · simp only [hr, Bool.not_true, Bool.false_eq_true, if_false, Option.some.injEq, Prod.mk.injEq] at hs
    obtain ⟨hs1, hs2⟩ := hs
    subst hs1 hs2
    rw [hr] at hin
    obtain ⟨u1, u2, u3, u4⟩ := updateQueueState_inv c q a q.r hI.h hI.r
    simp only [PQState.step, PQState.available, hin, Bool.not_true, Bool.false_eq_true, if_false]
    refine ⟨?_, QInv_setR c q a a _ hI rfl rfl rfl rfl u1⟩
    cases hc : (q.updateQueueState q.r).cur with
    | none =>
      have := u3 hc
      simp only [QOut.count.injEq]; omega
    | some x =>
      simp only [QOut.count.injEq]
      rw [u2, u4 x hc]
  · have hr' : a.inRead = false := by simpa using hr
    simp only [hr', Bool.not_false, if_true, Option.some.injEq, Prod.mk.injEq] at hs
    obtain ⟨hs1, hs2⟩ := hs
    subst hs1 hs2
    rw [hr'] at hin
    simp only [PQState.step, PQState.available, hin, Bool.not_false, if_true]
    exact ⟨trivial, hI⟩

theorem idxOf_drop (q : PQState) (i : Nat) (hi : i ≤ q.w.persisted.length) :
    q.idxOf (q.w.persisted.drop i) = i := by
  simp only [PQState.idxOf, List.length_drop]; omega

theorem readData_nil (P off n : Nat) : readData P [] off (n + 1) = none := by
  rw [readData]; by_cases h : P - off = 0 <;> simp [h]

theorem drop_ne_nil_lt {α : Type} (l : List α) (i : Nat) (h : l.drop i ≠ []) : i < l.length := by
  have := List.length_pos_iff.mpr h
  simp only [List.length_drop] at this
  omega

theorem qpos_lt (S : Nat) (evs : List (List UInt8)) (F : Nat) (C : List QPage) (hC : CRel S evs F C)
    (hF : F ≤ evs.length) (k : Nat) (hk : k ≤ F) (hF0 : 0 < F) : (qpos S evs k).1 < C.length := by
  obtain ⟨h, t, e, _⟩ := chain_from S evs F C hC hF k hk hF0
  rw [e]; simp [qpos]

theorem sim_rread (c : QCfg) (hP : 64 ≤ c.P) (q : PQState) (a a' : ASpec) (o : QOut) (fl : Bool) (n : Nat)
    (hI : QInv c q a) (hs : a.step (.rread n) fl = some (a', o)) :
    (q.step c (.rread n)).2 = o ∧ QInv c (q.step c (.rread n)).1 a' := by
  simp only [ASpec.step] at hs
  have hin := hI.r.inTx
  have hby := hI.r.bytes
  by_cases hr' : a.inRead = false
  · simp only [hr', Bool.not_false, if_true, Option.some.injEq, Prod.mk.injEq] at hs
    obtain ⟨hs1, hs2⟩ := hs
    subst hs1 hs2
    rw [hr'] at hin
    simp only [PQState.step, PQState.rread, hin, Bool.not_false, if_true]
    exact ⟨trivial, hI⟩
  have hr : a.inRead = true := by simpa using hr'
  simp only [hr, Bool.not_true, Bool.false_eq_true, if_false] at hs
  rw [hr] at hin
  by_cases hl : a.left = 0
  · simp only [hl, if_true, Option.some.injEq, Prod.mk.injEq] at hs
    obtain ⟨hs1, hs2⟩ := hs
    subst hs1 hs2
    rw [hl] at hby
    simp only [PQState.step, PQState.rread, hin, hby, Bool.not_true, Bool.false_eq_true, if_false, if_true]
    exact ⟨trivial, hI⟩
  simp only [hl, if_false] at hs
  have hlpos : 0 < a.left := by omega
  have hcur := hI.r.cur
  cases hc : q.r.cur with
  | none => rw [hc] at hcur; exact absurd hcur.1 hl
  | some x =>
    obtain ⟨i, oo⟩ := x
    rw [hc] at hcur
    obtain ⟨hid, _, hmid⟩ := hcur
    obtain ⟨hlt, hle, hx⟩ := hmid hlpos
    have hF := hI.fle
    have hkl : a.consumed < a.events.length := by omega
    have hget : a.events.getD a.consumed [] = a.events[a.consumed] := by
      simp [List.getD, List.getElem?_eq_getElem hkl]
    rw [hget] at hs hle hx
    obtain ⟨hS, h4⟩ := c.S_add hP
    have hsz : ∀ e ∈ a.events, e.length < 2 ^ 32 := fun e he => (hI.sz e he).2
    have hbn : (a.events[a.consumed].length - a.left) + min n a.left ≤ a.events[a.consumed].length := by omega
    obtain ⟨hrd, hend⟩ := chain_read_mid c.P c.S hS h4 a.events a.flushed q.w.persisted hI.crel hF a.consumed hlt hsz
      (a.events[a.consumed].length - a.left) (min n a.left) hbn
    rw [← hx] at hrd
    simp only at hrd
    have hstep : (q.step c (.rread n)) = (
        if a.left - min n a.left = 0 then
          let st := settle c.P (q.w.persisted.drop (qmid c.P c.S a.events a.consumed (a.events[a.consumed].length - a.left + min n a.left)).1)
            (qmid c.P c.S a.events a.consumed (a.events[a.consumed].length - a.left + min n a.left)).2
          ({ q with r := { q.r with cur := some (q.idxOf st.1, st.2), eventBytes := 0, id := q.r.id + 1 } },
            QOut.bytes ((a.events[a.consumed].drop (a.events[a.consumed].length - a.left)).take (min n a.left)))
        else
          ({ q with r := { q.r with cur := some (q.idxOf (q.w.persisted.drop (qmid c.P c.S a.events a.consumed (a.events[a.consumed].length - a.left + min n a.left)).1),
              (qmid c.P c.S a.events a.consumed (a.events[a.consumed].length - a.left + min n a.left)).2), eventBytes := a.left - min n a.left } },
            QOut.bytes ((a.events[a.consumed].drop (a.events[a.consumed].length - a.left)).take (min n a.left)))) := by
      simp only [PQState.step, PQState.rread, hin, hby, hl, hc, PQState.from, hrd, Bool.not_true, Bool.false_eq_true, if_false]
    rw [hstep]
    by_cases hfin : a.left - min n a.left = 0
    · -- the event is read to its end
      simp only [hfin, if_true, Option.some.injEq, Prod.mk.injEq] at hs ⊢
      obtain ⟨hs1, hs2⟩ := hs
      subst hs1 hs2
      refine ⟨rfl, ?_⟩
      have hk : min n a.left = a.left := by omega
      have hb : a.events[a.consumed].length - a.left + min n a.left = a.events[a.consumed].length := by omega
      rw [hb, hend]
      have hpl := qpos_lt c.S a.events a.flushed _ hI.crel hF (a.consumed + 1) (by omega) (by omega)
      refine QInv_setR c q a _ _ hI rfl rfl rfl rfl ⟨hin, rfl, by simp only; omega, hI.r.endId, ?_⟩
      simp only
      refine ⟨by rw [hid], fun _ => ?_, fun h => by omega⟩
      -- the cursor after `settle`
      by_cases hpd : c.P - (qpos c.S a.events (a.consumed + 1)).2 < 4
      · have hpad : qpad c.S a.events (a.consumed + 1) := by
          simp only [qpos] at hpd; simp only [qpad]; omega
        cases ht : (q.w.persisted.drop (qpos c.S a.events (a.consumed + 1)).1).tail with
        | nil =>
          left
          simp only [settle, hpd, if_true, ht]
          rw [idxOf_drop q _ (by omega)]
        | cons y ys =>
          right
          have hd : q.w.persisted.drop ((qpos c.S a.events (a.consumed + 1)).1 + 1) = y :: ys := by
            rw [← ht, List.tail_drop]
          have hlt2 := drop_ne_nil_lt _ _ (by rw [hd]; simp)
          refine ⟨hpad, ?_, hlt2⟩
          simp only [settle, hpd, if_true, ht]
          rw [← hd, idxOf_drop q _ (by omega)]
          rfl
      · left
        simp only [settle, hpd, if_false]
        rw [idxOf_drop q _ (by omega)]
    · simp only [hfin, if_false, Option.some.injEq, Prod.mk.injEq] at hs ⊢
      obtain ⟨hs1, hs2⟩ := hs
      subst hs1 hs2
      refine ⟨rfl, ?_⟩
      -- one more byte can be read at the new cursor: the page exists
      have hbn2 : (a.events[a.consumed].length - a.left + min n a.left) + 1 ≤ a.events[a.consumed].length := by omega
      obtain ⟨hrd2, _⟩ := chain_read_mid c.P c.S hS h4 a.events a.flushed q.w.persisted hI.crel hF a.consumed hlt hsz
        (a.events[a.consumed].length - a.left + min n a.left) 1 hbn2
      have hne : q.w.persisted.drop (qmid c.P c.S a.events a.consumed (a.events[a.consumed].length - a.left + min n a.left)).1 ≠ [] := by
        intro h0
        rw [h0, readData_nil] at hrd2
        cases hrd2
      have hlt2 := drop_ne_nil_lt _ _ hne
      rw [idxOf_drop q _ (by omega)]
      refine QInv_setR c q a _ _ hI rfl rfl rfl rfl ⟨hin, rfl, hI.r.cons, hI.r.endId, ?_⟩
      simp only
      refine ⟨hid, fun h => by omega, fun _ => ⟨hlt, by rw [hget]; omega, ?_⟩⟩
      rw [hget]
      have : a.events[a.consumed].length - (a.left - min n a.left) = a.events[a.consumed].length - a.left + min n a.left := by omega
      rw [this]

/-! ### `Reader.Next` in three steps -/

def rAtEnd (r : RState) : Bool := r.cur.isNone || !decide (r.id < r.endId)

/-- skip the unread rest of the current event -/
def PQState.rnextSkip (c : QCfg) (q : PQState) : Option RState :=
  if q.r.eventBytes = 0 then some q.r else
  match q.r.cur with
  | none => none
  | some (i, o) =>
    (readData c.P (q.from i) o q.r.eventBytes).map fun x =>
      { q.r with cur := some (q.idxOf x.2.1, x.2.2), eventBytes := 0, id := q.r.id + 1 }

/-- end-of-queue check, page advance, event header -/
def PQState.rnextHdr (c : QCfg) (q : PQState) (r2 : RState) : PQState × QOut :=
  if rAtEnd r2 then ({ q with r := r2 }, .size 0) else
  match r2.cur with
  | none => ({ q with r := r2 }, .size 0)
  | some (i, o) =>
    match nextHdrPosId c.P (q.from i) o r2.id with
    | none => ({ q with r := r2 }, .err .panic)
    | some (pgs, o') =>
      match readHdr pgs o' with
      | none => ({ q with r := r2 }, .err .readFail)
      | some L => ({ q with r := { r2 with cur := some (q.idxOf pgs, o' + 4), eventBytes := L } }, .size L)

theorem rnext_unfold (c : QCfg) (q : PQState) :
    q.rnext c = if !q.r.inTx then (q, .err .inactiveTx) else
      match q.rnextSkip c with
      | none => (q, .err .readFail)
      | some r1 => q.rnextHdr c (if rAtEnd r1 then q.updateQueueState r1 else r1) := rfl

/-- the spec state after the skip -/
def ASpec.skipped (a : ASpec) : ASpec :=
  { a with consumed := if a.left = 0 then a.consumed else a.consumed + 1, left := 0 }

theorem rnextSkip_inv (c : QCfg) (hP : 64 ≤ c.P) (q : PQState) (a : ASpec) (hI : QInv c q a) :
    ∃ r1, q.rnextSkip c = some r1 ∧
      RInv c.P c.S a.events a.flushed a.acked q.w.persisted.length r1 a.skipped := by
  have hby := hI.r.bytes
  by_cases hl : a.left = 0
  · refine ⟨q.r, by simp [PQState.rnextSkip, hby, hl], ?_⟩
    have := hI.r
    refine ⟨this.inTx, by rw [hby, hl]; rfl, by simp only [ASpec.skipped, hl, if_true]; exact this.cons, this.endId, ?_⟩
    have hc := this.cur
    simp only [ASpec.skipped, hl, if_true]
    cases hcc : q.r.cur with
    | none => rw [hcc] at hc; simp only; exact ⟨trivial, hc.2⟩
    | some x =>
      rw [hcc] at hc
      simp only
      exact ⟨hc.1, fun _ => hc.2.1 hl, fun h => by omega⟩
  · have hlpos : 0 < a.left := by omega
    have hcur := hI.r.cur
    cases hc : q.r.cur with
    | none => rw [hc] at hcur; exact absurd hcur.1 hl
    | some x =>
      obtain ⟨i, oo⟩ := x
      rw [hc] at hcur
      obtain ⟨hid, _, hmid⟩ := hcur
      obtain ⟨hlt, hle, hx⟩ := hmid hlpos
      have hF := hI.fle
      have hkl : a.consumed < a.events.length := by omega
      have hget : a.events.getD a.consumed [] = a.events[a.consumed] := by
        simp [List.getD, List.getElem?_eq_getElem hkl]
      rw [hget] at hle hx
      obtain ⟨hS, h4⟩ := c.S_add hP
      have hsz : ∀ e ∈ a.events, e.length < 2 ^ 32 := fun e he => (hI.sz e he).2
      obtain ⟨hrd, hend⟩ := chain_read_mid c.P c.S hS h4 a.events a.flushed q.w.persisted hI.crel hF a.consumed hlt hsz
        (a.events[a.consumed].length - a.left) a.left (by omega)
      rw [← hx] at hrd
      simp only at hrd
      have hb : a.events[a.consumed].length - a.left + a.left = a.events[a.consumed].length := by omega
      rw [hb, hend] at hrd
      have hpl := qpos_lt c.S a.events a.flushed _ hI.crel hF (a.consumed + 1) (by omega) (by omega)
      refine ⟨{ q.r with cur := some (qpos c.S a.events (a.consumed + 1)), eventBytes := 0, id := q.r.id + 1 }, ?_, ?_⟩
      · simp only [PQState.rnextSkip, hby, hl, if_false, hc, PQState.from, hrd, Option.map_some]
        rw [idxOf_drop q _ (by omega)]
      · refine ⟨hI.r.inTx, rfl, by simp only [ASpec.skipped, hl, if_false]; omega, hI.r.endId, ?_⟩
        simp only [ASpec.skipped, hl, if_false]
        exact ⟨by rw [hid], fun _ => Or.inl rfl, fun h => by omega⟩

theorem readHdr_nil (o : Nat) : readHdr [] o = none := rfl

theorem sim_rnext (c : QCfg) (hP : 64 ≤ c.P) (q : PQState) (a a' : ASpec) (o : QOut) (fl : Bool)
    (hI : QInv c q a) (hs : a.step .rnext fl = some (a', o)) :
    (q.step c .rnext).2 = o ∧ QInv c (q.step c .rnext).1 a' := by
  simp only [ASpec.step] at hs
  have hin := hI.r.inTx
  by_cases hr' : a.inRead = false
  · simp only [hr', Bool.not_false, if_true, Option.some.injEq, Prod.mk.injEq] at hs
    obtain ⟨hs1, hs2⟩ := hs
    subst hs1 hs2
    rw [hr'] at hin
    simp only [PQState.step, rnext_unfold, hin, Bool.not_false, if_true]
    exact ⟨trivial, hI⟩
  have hr : a.inRead = true := by simpa using hr'
  simp only [hr, Bool.not_true, Bool.false_eq_true, if_false] at hs
  rw [hr] at hin
  obtain ⟨r1, hsk, hR1⟩ := rnextSkip_inv c hP q a hI
  -- the consumed count after the skip
  have hcdef : a.skipped.consumed = if a.left = 0 then a.consumed else a.consumed + 1 := rfl
  have hl0 : a.skipped.left = 0 := rfl
  generalize hcc : (if a.left = 0 then a.consumed else a.consumed + 1) = cn at hs hcdef
  -- end of queue check
  have hupd : ∃ r2, (if rAtEnd r1 then q.updateQueueState r1 else r1) = r2 ∧
      RInv c.P c.S a.events a.flushed a.acked q.w.persisted.length r2 a.skipped ∧
      (rAtEnd r2 = false ↔ cn < a.flushed) := by
    by_cases he : rAtEnd r1 = true
    · obtain ⟨u1, u2, u3, u4⟩ := updateQueueState_inv c q a.skipped r1 hI.h hR1
      refine ⟨_, by simp only [he, if_true], u1, ?_⟩
      cases hc : (q.updateQueueState r1).cur with
      | none =>
        have := u3 hc
        simp only [rAtEnd, hc, Option.isNone_none, Bool.true_or, Bool.true_eq_false, false_iff]
        show ¬ cn < a.flushed
        change a.flushed = 0 at this
        omega
      | some x =>
        have hid := u4 x hc
        simp only [rAtEnd, hc, Option.isNone_some, Bool.false_or, Bool.not_eq_false', decide_eq_true_eq]
        rw [hid, u2, hcdef]
        exact Iff.rfl
    · have he' : rAtEnd r1 = false := by simpa using he
      refine ⟨r1, by simp only [he', Bool.false_eq_true, if_false], hR1, ?_⟩
      simp only [he', true_iff]
      simp only [rAtEnd, Bool.or_eq_false_iff, Bool.not_eq_false', decide_eq_true_eq] at he'
      have hc1 := hR1.cur
      cases hc : r1.cur with
      | none => rw [hc] at he'; simp at he'
      | some x =>
        rw [hc] at hc1
        have := hR1.endId
        rw [hc1.1, hcdef] at he'
        omega
  obtain ⟨r2, hr2, hR2, hend⟩ := hupd
  have hstep : q.step c .rnext = q.rnextHdr c r2 := by
    simp only [PQState.step, rnext_unfold, hin, Bool.not_true, Bool.false_eq_true, if_false, hsk, hr2]
  rw [hstep]
  by_cases hlt : cn < a.flushed
  · -- an event is available
    simp only [hlt, if_true, Option.some.injEq, Prod.mk.injEq] at hs
    obtain ⟨hs1, hs2⟩ := hs
    subst hs1 hs2
    have he := hend.mpr hlt
    have hF := hI.fle
    have hkl : cn < a.events.length := by omega
    have hget : a.events.getD cn [] = a.events[cn] := by
      simp [List.getD, List.getElem?_eq_getElem hkl]
    obtain ⟨hS, h4⟩ := c.S_add hP
    have hsz : ∀ e ∈ a.events, e.length < 2 ^ 32 := fun e he => (hI.sz e he).2
    obtain ⟨k1, k2, k3, k4⟩ := chain_read c.P c.S hS h4 a.events a.flushed q.w.persisted hI.crel hF cn hlt hsz
    have hc2 := hR2.cur
    cases hc : r2.cur with
    | none => simp [rAtEnd, hc] at he
    | some x =>
      obtain ⟨i, oo⟩ := x
      rw [hc] at hc2
      obtain ⟨hid, hat, _⟩ := hc2
      rw [hcdef] at hid
      have hat' := hat hl0
      rw [hcdef] at hat'
      have hnx : nextHdrPosId c.P (q.w.persisted.drop i) oo cn =
          some (q.w.persisted.drop (qhdr c.S a.events cn).1, (qhdr c.S a.events cn).2) := by
        rcases hat' with h | ⟨h1, h2, _⟩
        · have e1 : i = (qpos c.S a.events cn).1 := congrArg Prod.fst h
          have e2 : oo = (qpos c.S a.events cn).2 := congrArg Prod.snd h
          rw [e1, e2]; exact k1
        · have hq : qhdr c.S a.events cn = ((qW c.S a.events cn).length + 1, 28) := by simp [qhdr, h1]
          have e1 : i = (qhdr c.S a.events cn).1 := by rw [hq]; exact congrArg Prod.fst h2
          have e2 : oo = (qhdr c.S a.events cn).2 := by rw [hq]; exact congrArg Prod.snd h2
          rw [e1, e2]; exact k2
      have hne : q.w.persisted.drop (qhdr c.S a.events cn).1 ≠ [] := by
        intro h0; rw [h0, readHdr_nil] at k3; cases k3
      have hlt2 := drop_ne_nil_lt _ _ hne
      have hout : q.rnextHdr c r2 = ({ q with r := { r2 with cur := some ((qhdr c.S a.events cn).1, (qhdr c.S a.events cn).2 + 4), eventBytes := a.events[cn].length } }, .size a.events[cn].length) := by
        simp only [PQState.rnextHdr, he, Bool.false_eq_true, if_false, hc, PQState.from, hid, hnx, k3]
        rw [idxOf_drop q _ (by omega)]
      rw [hout, hget]
      refine ⟨rfl, QInv_setR c q a _ _ hI rfl rfl rfl rfl ⟨hR2.inTx.trans hr, rfl, by simp only; omega, hR2.endId, ?_⟩⟩
      simp only
      have hpos := (hI.sz _ (List.getElem_mem hkl)).1
      refine ⟨hid, fun h => by omega, fun _ => ⟨hlt, by rw [hget]; exact Nat.le_refl _, ?_⟩⟩
      rw [hget]
      simp [qmid, advPos]
  · simp only [hlt, if_false, Option.some.injEq, Prod.mk.injEq] at hs
    obtain ⟨hs1, hs2⟩ := hs
    subst hs1 hs2
    have he : rAtEnd r2 = true := by
      cases h : rAtEnd r2 with
      | true => rfl
      | false => exact absurd (hend.mp h) hlt
    have hout : q.rnextHdr c r2 = ({ q with r := r2 }, .size 0) := by
      simp only [PQState.rnextHdr, he, if_true]
    rw [hout]
    refine ⟨rfl, QInv_setR c q a _ _ hI rfl rfl rfl rfl ?_⟩
    have := hR2
    simp only [ASpec.skipped, hcc, hr] at this
    exact this

end TxVerif
