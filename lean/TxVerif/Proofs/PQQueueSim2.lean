/-
  Simulation lemmas for `counters`, `reopen` and `ack` (continuation of Proofs/PQQueueSim.lean).
-/
import TxVerif.Proofs.PQQueueSim
import TxVerif.Proofs.PQQueueReopen
import TxVerif.Proofs.PQQueueAck
import TxVerif.Proofs.PQQueueSpace
namespace TxVerif

theorem sim_counters (c : QCfg) (q : PQState) (a a' : ASpec) (o : QOut) (fl : Bool)
    (hI : QInv c q a) (hs : a.step .counters fl = some (a', o)) :
    (q.step c .counters).2 = o ∧ QInv c (q.step c .counters).1 a' := by
  simp only [ASpec.step, Option.some.injEq, Prod.mk.injEq] at hs
  obtain ⟨hs1, hs2⟩ := hs
  subst hs1 hs2
  refine ⟨?_, hI⟩
  have hH := hI.h
  simp only [PQState.step, PQState.counters, QHdr.pending, QHdr.active, hH.tail, hH.start, hH.totF, hH.totA,
    hH.tailSet, QOut.counters.injEq, true_and, and_true]
  by_cases h0 : 0 < a.flushed
  · simp [h0]
  · simp [h0]; omega

theorem HInv_setW (S : Nat) (evs : List (List UInt8)) (F A : Nat) (q : PQState) (w' : WState) (r' : RState)
    (hp : w'.persisted = q.w.persisted) (h : HInv S evs F A q) : HInv S evs F A { q with w := w', r := r' } := by
  refine ⟨h.tail, h.start, h.tailSet, h.headSet, h.readSet, ?_, ?_, ?_, h.totF, h.totA, h.le, h.headLt, h.headGe⟩
  · intro h0; have := h.startPos h0; simp only [hp]; exact this
  · intro h0; have := h.head h0; simp only [hp]; exact this
  · have := h.inuse; simp only [hp]; exact this

theorem sim_reopen (c : QCfg) (hP : 64 ≤ c.P) (q : PQState) (a a' : ASpec) (o : QOut) (fl : Bool)
    (hI : QInv c q a) (hs : a.step .reopen fl = some (a', o)) :
    (q.step c .reopen).2 = o ∧ QInv c (q.step c .reopen).1 a' := by
  simp only [ASpec.step] at hs
  by_cases hr : a.inRead = true
  · simp [hr] at hs
  have hr' : a.inRead = false := by simpa using hr
  simp only [hr', Bool.false_eq_true, if_false, Option.some.injEq, Prod.mk.injEq] at hs
  obtain ⟨hs1, hs2⟩ := hs
  subst hs1 hs2
  -- the flush of Close
  have hfs : a.step .flush (q.autoFlush c .flush) =
      some ({ a with flushed := a.events.length }, .wrote (some (a.events.length - a.flushed))) := by
    simp [ASpec.step, hr', ASpec.doFlush]
  obtain ⟨_, hI1⟩ := sim_flush c hP q a _ _ hI hfs
  change QInv c (q.flush c).1 { a with flushed := a.events.length } at hI1
  obtain ⟨p1, p2, p3, p4⟩ := reopen_fields c.S c.pages (q.flush c).1.w
  have hfl1 := hI1.fl
  simp only at hfl1
  have hw := BufInv_reopen c.S c.pages (c.S_add hP).2 _ _ _ hI1.w hfl1
  refine ⟨rfl, ?_⟩
  show QInv c { (q.flush c).1 with w := (q.flush c).1.w.reopen c.S c.pages, r := {} } _
  refine ⟨hw, by simp only; rw [p2]; exact hfl1, by simp only; rw [p4]; simp, hI1.sz, ?_, ?_⟩
  · exact HInv_setW c.S a.events a.events.length a.acked _ _ _ p1 hI1.h
  · refine ⟨hr'.symm ▸ rfl, rfl, hI1.h.le, Nat.zero_le _, ?_⟩
    simp only
    exact ⟨trivial, trivial⟩

theorem QHdr_ack_pos (h : QHdr) (n newHead : Nat) (hn : n ≠ 0) :
    h.ack n newHead false = { h with headId := newHead, readId := h.startId + n, headSet := true, readSet := true } := by
  simp [QHdr.ack, hn]

theorem sim_ack (c : QCfg) (hP : 64 ≤ c.P) (q : PQState) (a a' : ASpec) (o : QOut) (fl : Bool) (n : Nat)
    (hI : QInv c q a) (hs : a.step (.ack n) fl = some (a', o)) :
    (q.step c (.ack n)).2 = o ∧ QInv c (q.step c (.ack n)).1 a' := by
  simp only [ASpec.step] at hs
  have hH := hI.h
  by_cases hn : n = 0
  · simp only [hn, if_true, Option.some.injEq, Prod.mk.injEq] at hs
    obtain ⟨hs1, hs2⟩ := hs
    subst hs1 hs2
    simp only [PQState.step, PQState.ack, hn, if_true]
    exact ⟨trivial, hI⟩
  simp only [hn, if_false] at hs
  by_cases hF0 : a.flushed = 0
  · -- nothing was ever flushed: no head position
    simp only [hF0, if_true, Option.some.injEq, Prod.mk.injEq] at hs
    obtain ⟨hs1, hs2⟩ := hs
    subst hs1 hs2
    have hhs : q.hdr.headSet = false := by rw [hH.headSet]; simp [hF0]
    have hrs : q.hdr.readSet = false := by
      cases h : q.hdr.readSet with
      | false => rfl
      | true => have := hH.readSet h; omega
    simp only [PQState.step, PQState.ack, hn, if_false, hhs, hrs, Bool.not_false, Bool.and_self, if_true]
    exact ⟨trivial, hI⟩
  simp only [hF0, if_false] at hs
  have hFpos : 0 < a.flushed := by omega
  have hhs : q.hdr.headSet = true := by rw [hH.headSet]; exact decide_eq_true hFpos
  by_cases hmany : n > a.flushed - a.acked
  · simp only [hmany, if_true, Option.some.injEq, Prod.mk.injEq] at hs
    obtain ⟨hs1, hs2⟩ := hs
    subst hs1 hs2
    simp only [PQState.step, PQState.ack, hn, if_false, hhs, Bool.not_true, Bool.false_and, Bool.false_eq_true,
      hH.tail, hH.start, hmany, if_true]
    exact ⟨trivial, hI⟩
  simp only [hmany, if_false] at hs
  by_cases hr : a.inRead = true
  · simp [hr] at hs
  have hr' : a.inRead = false := by simpa using hr
  simp only [hr', Bool.false_eq_true, if_false] at hs
  by_cases hcon : a.acked + n > a.consumed + (if a.left = 0 then 0 else 1)
  · simp [hcon] at hs
  simp only [hcon, if_false, Option.some.injEq, Prod.mk.injEq] at hs
  obtain ⟨hs1, hs2⟩ := hs
  subst hs1 hs2
  -- the plan
  obtain ⟨hS, h4⟩ := c.S_add hP
  have hsz : ∀ e ∈ a.events, e.length < 2 ^ 32 := fun e he => (hI.sz e he).2
  obtain ⟨K, k1, k2, k3, k4, k5⟩ := hH.head hFpos
  obtain ⟨hnc, st, hst, hlt, K', g1, g2, g3, g4, g5, g7, g8, g6⟩ :=
    ack_plan_C c.P c.S hS h4 a.events a.flushed q.w.persisted hI.crel hI.fle hFpos hsz q.headPos.1 K k1 k3
      (a.acked + n) (by omega) (by omega)
  have hstep : q.step c (.ack n) =
      ({ q with hdr := q.hdr.ack n st.headId false, headPos := (q.headPos.1 + st.freed, st.headOff),
                readPos := (q.idxOf st.readPages, st.readOff), inuse := q.inuse - st.freed,
                totAcked := q.totAcked + n, totFreed := q.totFreed + st.freed }, .ok) := by
    simp only [PQState.step, PQState.ack, hn, if_false, hhs, Bool.not_true, Bool.false_and, Bool.false_eq_true,
      hH.tail, hH.start, hmany, PQState.from, hnc, hst]
  rw [hstep]
  refine ⟨rfl, ?_⟩
  have hack := QHdr_ack_pos q.hdr n st.headId hn
  refine ⟨hI.w, hI.fl, hI.cnt, hI.sz, ?_, ?_⟩
  · refine ⟨by simp only; rw [hack]; exact hH.tail, ?_, by simp only; rw [hack]; exact hH.tailSet,
      by simp only; rw [hack]; simp [hFpos], fun _ => hFpos, ?_, ?_, ?_, hH.totF, by simp only; rw [hH.totA],
      by simp only; omega, ?_, ?_⟩
    · have hs0 := hH.start
      simp only [QHdr.startId] at hs0
      simp only; rw [hack]; simp only [QHdr.startId, if_true]; rw [hs0]
    · intro _
      simp only
      rw [hack]
      simp only [if_true]
      exact g6
    · intro _
      simp only
      rw [hack]
      exact ⟨K', g1, g2, g3, g4, g5⟩
    · simp only
      have := hH.inuse
      omega
    · simp only
      rw [hack]
      left
      show st.headId < a.acked + n
      rw [← g4]
      exact g8 (by rw [k4]; omega)
    · right
      exact ack_head_ge c.P c.S hS h4 a.events a.flushed q.w.persisted hI.crel hI.fle hsz _ K' g1 g3 (a.acked + n)
        (by omega) (by omega) g7
  · have hR := hI.r
    refine ⟨hR.inTx.trans hr', hR.bytes, hR.cons, hR.endId, ?_⟩
    have hc := hR.cur
    cases hcc : q.r.cur with
    | none =>
      rw [hcc] at hc
      simp only at hc
      exfalso
      rw [hc.1, hc.2] at hcon
      simp at hcon
      omega
    | some x =>
      rw [hcc] at hc
      simp only at hc ⊢
      exact hc

theorem ackInit_freed (P : Nat) (l : List QPage) (e : Nat) (st : AckState) (h : ackInit P l e = some st) :
    st.freed = (ackPlan l e).1 := by
  simp only [ackInit] at h
  split at h
  · cases h
  · split at h
    · cases h
    · split at h
      · simp only [Option.some.injEq] at h; rw [← h]
      · simp only [Option.map_eq_some_iff] at h
        obtain ⟨r, _, hr⟩ := h
        rw [← hr]

/-- what an accepted `ack n` does, in terms of the plan on the pages the queue holds -/
theorem ack_step (c : QCfg) (hP : 64 ≤ c.P) (q : PQState) (a : ASpec) (n : Nat) (hI : QInv c q a)
    (hn : n ≠ 0) (hle : n ≤ a.flushed - a.acked) :
    ∃ st K', ackInit c.P q.livePages (a.acked + n) = some st ∧
      st.freed = (ackPlan q.livePages (a.acked + n)).1 ∧
      q.step c (.ack n) =
        ({ q with hdr := q.hdr.ack n st.headId false, headPos := (q.headPos.1 + st.freed, st.headOff),
                  readPos := (q.idxOf st.readPages, st.readOff), inuse := q.inuse - st.freed,
                  totAcked := q.totAcked + n, totFreed := q.totFreed + st.freed }, .ok) ∧
      q.headPos.1 + st.freed < q.w.persisted.length ∧
      q.w.persisted[q.headPos.1 + st.freed]? = some K' ∧ K'.off ≠ 0 ∧ K'.first ≤ a.acked + n ∧
      a.acked + n ≤ K'.last + 1 := by
  have hH := hI.h
  have hFpos : 0 < a.flushed := by omega
  have hhs : q.hdr.headSet = true := by rw [hH.headSet]; exact decide_eq_true hFpos
  have hmany : ¬ n > a.flushed - a.acked := by omega
  obtain ⟨hS, h4⟩ := c.S_add hP
  have hsz : ∀ e ∈ a.events, e.length < 2 ^ 32 := fun e he => (hI.sz e he).2
  obtain ⟨K, k1, k2, k3, k4, k5⟩ := hH.head hFpos
  obtain ⟨hnc, st, hst, hlt, K', g1, g2, g3, g4, g5, g7, _, g6⟩ :=
    ack_plan_C c.P c.S hS h4 a.events a.flushed q.w.persisted hI.crel hI.fle hFpos hsz q.headPos.1 K k1 k3
      (a.acked + n) (by omega) (by omega)
  refine ⟨st, K', hst, ackInit_freed _ _ _ _ hst, ?_, hlt, g1, g3, by rw [g4]; exact g5, g7⟩
  simp only [PQState.step, PQState.ack, hn, if_false, hhs, Bool.not_true, Bool.false_and, Bool.false_eq_true,
    hH.tail, hH.start, hmany, PQState.from, hnc, hst]

end TxVerif
