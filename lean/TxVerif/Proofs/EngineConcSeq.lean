/-
  The writer thread of the concurrent semantics (Model/EngineConc.lean) is the SEQUENTIAL engine: along every schedule
  the committed state is the state of the sequential history (`runTxnO`, Props/C03History.lean; a transaction ended with
  Rollback: `txAbort` of the run) of the write transactions finished so far, whatever the readers did.
-/
import TxVerif.Proofs.EngineConcLive
namespace TxVerif

/-- the sequential run of one write transaction of the writer's program: committed state and owned pages after it -/
def runWTxn (s : FileSt × List Nat) (w : WTxn) : FileSt × List Nat :=
  if w.rollback then (txAbort (w.t.run s).f (w.t.run s).tx, s.2) else runTxnO s w.t

/-- its outcome -/
def WTxn.outcome (s : FileSt × List Nat) (w : WTxn) : WOut :=
  if w.rollback then .rolledBack else if w.t.commitsB s then .committed else .failed

/-- a commit in progress belongs to a transaction that ends with Commit -/
def RbInv (s : EState) : Prop :=
  match s.wpc with
  | .pending _ => ∀ w rest, s.wprog = w :: rest → w.rollback = false
  | .waitExcl _ _ _ => ∀ w rest, s.wprog = w :: rest → w.rollback = false
  | _ => True

theorem rbInv_init (com : FileSt) (live : List Nat) (wprog : List WTxn) (rprogs : List (List ROp)) :
    RbInv (EState.init com live wprog rprogs) := trivial

theorem stepW_rbInv (s s' : EState) (hrb : RbInv s) (h : s.stepW = some s') : RbInv s' := by
  unfold EState.stepW at h
  cases hp : s.wprog with
  | nil => rw [hp] at h; cases h
  | cons w rest =>
    rw [hp] at h
    dsimp only at h
    cases hpc : s.wpc with
    | idle =>
      rw [hpc] at h
      dsimp only at h
      split at h
      · cases h
      · simp only [Option.some.injEq] at h
        subst h
        trivial
    | active r ops =>
      rw [hpc] at h
      cases ops with
      | cons op ops =>
        simp only [Option.some.injEq] at h
        subst h
        trivial
      | nil =>
        dsimp only at h
        split at h
        · simp only [Option.some.injEq] at h
          subst h
          trivial
        · rename_i hn
          simp only [Option.some.injEq] at h
          subst h
          intro w' rest' hw'
          cases hw'
          simpa using hn
    | pending r =>
      rw [hpc] at h
      have hnr : w.rollback = false := by
        have := hrb; unfold RbInv at this; rw [hpc] at this; exact this w rest hp
      dsimp only at h
      cases hfl : flushList r.f r.tx w.t.order with
      | error e =>
        rw [hfl] at h
        simp only [Option.some.injEq] at h
        subst h
        trivial
      | ok q =>
        obtain ⟨f2, tx2, ws⟩ := q
        rw [hfl] at h
        dsimp only at h
        split at h
        · split at h
          · simp only [Option.some.injEq] at h
            subst h
            intro w' rest' hw'
            cases hw'
            exact hnr
          · simp only [Option.some.injEq] at h
            subst h
            trivial
        · simp only [Option.some.injEq] at h
          subst h
          trivial
    | waitExcl F cur σ =>
      rw [hpc] at h
      dsimp only at h
      split at h
      · cases h
      · simp only [Option.some.injEq] at h
        subst h
        trivial

theorem step_rbInv (s s' : EState) (t : Nat) (hrb : RbInv s) (h : s.step t = some s') : RbInv s' := by
  cases t with
  | zero => exact stepW_rbInv s s' hrb h
  | succ i =>
    obtain ⟨-, -, -, -, f5, f6, -⟩ := stepR_frame s s' i h
    unfold RbInv at hrb ⊢
    rw [f5, f6]; exact hrb

/-- a writer step either leaves committed state, program and outcome log alone, or finishes the transaction at the head
    of the program exactly as the sequential run does -/
theorem stepW_seq (s s' : EState) (hi : ECInv s) (hrb : RbInv s) (h : s.stepW = some s') :
    (s'.wprog = s.wprog ∧ s'.com = s.com ∧ s'.live = s.live ∧ s'.wlog = s.wlog) ∨
    (∃ w rest, s.wprog = w :: rest ∧ s'.wprog = rest ∧ (s'.com, s'.live) = runWTxn (s.com, s.live) w ∧
      s'.wlog = s.wlog ++ [w.outcome (s.com, s.live)]) := by
  have hw := hi.w
  unfold EWInv at hw
  unfold EState.stepW at h
  cases hp : s.wprog with
  | nil => rw [hp] at h; cases h
  | cons w rest =>
    rw [hp] at h
    dsimp only at h
    cases hpc : s.wpc with
    | idle =>
      rw [hpc] at h
      dsimp only at h
      split at h
      · cases h
      · simp only [Option.some.injEq] at h
        subst h
        exact Or.inl ⟨rfl, rfl, rfl, rfl⟩
    | active r ops =>
      rw [hpc] at h hw
      obtain ⟨w', rest', done, hp', hdone, hr⟩ := hw
      rw [hp] at hp'
      cases hp'
      cases ops with
      | cons op ops =>
        simp only [Option.some.injEq] at h
        subst h
        exact Or.inl ⟨rfl, rfl, rfl, rfl⟩
      | nil =>
        rw [List.append_nil] at hdone
        subst hdone
        dsimp only at h
        split at h
        · rename_i hrb
          simp only [Option.some.injEq] at h
          subst h
          refine Or.inr ⟨w, rest, rfl, by simp [EState.endTx, hp], ?_, ?_⟩
          · simp only [runWTxn, hrb, if_true, EState.endTx, hr]; rfl
          · simp only [WTxn.outcome, hrb, if_true, EState.endTx]
        · simp only [Option.some.injEq] at h
          subst h
          exact Or.inl ⟨rfl, rfl, rfl, rfl⟩
    | pending r =>
      rw [hpc] at h hw
      obtain ⟨w', rest', hp', hr⟩ := hw
      rw [hp] at hp'
      cases hp'
      have hnr : w.rollback = false := by
        have := hrb; unfold RbInv at this; rw [hpc] at this; exact this w rest hp
      dsimp only at h
      subst hr
      cases hfl : flushList (w.t.run (s.com, s.live)).f (w.t.run (s.com, s.live)).tx w.t.order with
      | error e =>
        rw [hfl] at h
        simp only [Option.some.injEq] at h
        subst h
        refine Or.inr ⟨w, rest, rfl, by simp [EState.endTx, hp], ?_, ?_⟩
        · simp only [runWTxn, hnr, runTxnO, hfl, EState.endTx]; rfl
        · simp only [WTxn.outcome, hnr, TxnO.commitsB, hfl, EState.endTx]; rfl
      | ok q =>
        obtain ⟨f2, tx2, ws⟩ := q
        rw [hfl] at h
        dsimp only at h
        split at h
        · rename_i hall
          split at h
          · simp only [Option.some.injEq] at h
            subst h
            exact Or.inl ⟨rfl, rfl, rfl, rfl⟩
          · rename_i hfail
            simp only [Option.some.injEq] at h
            subst h
            refine Or.inr ⟨w, rest, rfl, by simp [EState.endTx, hp], ?_, ?_⟩
            · simp only [runWTxn, hnr, runTxnO, hfl, hall, hfail, EState.endTx]; rfl
            · simp only [WTxn.outcome, hnr, TxnO.commitsB, hfl, hall, hfail, EState.endTx]; rfl
        · rename_i hnall
          simp only [Option.some.injEq] at h
          subst h
          refine Or.inr ⟨w, rest, rfl, by simp [EState.endTx, hp], ?_, ?_⟩
          · simp only [runWTxn, hnr, runTxnO, hfl, hnall, EState.endTx]; rfl
          · simp only [WTxn.outcome, hnr, TxnO.commitsB, hfl, hnall, EState.endTx]; rfl
    | waitExcl F cur σ =>
      rw [hpc] at h hw
      obtain ⟨w', rest', f2, tx2, ws, hp', hfl, hall, hok, hF, hcur, hσ⟩ := hw
      rw [hp] at hp'
      cases hp'
      have hnr : w.rollback = false := by
        have := hrb; unfold RbInv at this; rw [hpc] at this; exact this w rest hp
      dsimp only at h
      split at h
      · cases h
      · simp only [Option.some.injEq] at h
        subst h
        refine Or.inr ⟨w, rest, rfl, by simp, ?_, ?_⟩
        · simp only [runWTxn, hnr, runTxnO, hfl, hall, hok, hF, hcur]; rfl
        · simp only [WTxn.outcome, hnr, TxnO.commitsB, hfl, hall, hok]; rfl

/-- the sequential history of write transactions -/
def runWHistory (s : FileSt × List Nat) (ws : List WTxn) : FileSt × List Nat := ws.foldl runWTxn s

/-- the outcomes of the sequential history -/
def wOutcomes : FileSt × List Nat → List WTxn → List WOut
  | _, [] => []
  | s, w :: ws => w.outcome s :: wOutcomes (runWTxn s w) ws

theorem wOutcomes_snoc (s : FileSt × List Nat) (done : List WTxn) (w : WTxn) :
    wOutcomes s (done ++ [w]) = wOutcomes s done ++ [w.outcome (runWHistory s done)] := by
  induction done generalizing s with
  | nil => rfl
  | cons d ds ih =>
    show d.outcome s :: wOutcomes (runWTxn s d) (ds ++ [w]) = _
    rw [ih]; rfl

theorem wOutcomes_length (s : FileSt × List Nat) (ws : List WTxn) : (wOutcomes s ws).length = ws.length := by
  induction ws generalizing s with
  | nil => rfl
  | cons d ds ih => simp [wOutcomes, ih]

/-- the writer has finished the transactions `done` of its program `w0` exactly as the sequential history does -/
def SeqInv (c0 : FileSt × List Nat) (w0 : List WTxn) (s : EState) : Prop :=
  ∃ done, w0 = done ++ s.wprog ∧ (s.com, s.live) = runWHistory c0 done ∧ s.wlog = wOutcomes c0 done

theorem step_seqInv (c0 : FileSt × List Nat) (w0 : List WTxn) (s s' : EState) (t : Nat) (hi : ECInv s) (hrb : RbInv s)
    (hq : SeqInv c0 w0 s) (h : s.step t = some s') : SeqInv c0 w0 s' := by
  obtain ⟨done, h1, h2, h3⟩ := hq
  cases t with
  | zero =>
    rcases stepW_seq s s' hi hrb h with ⟨e1, e2, e3, e4⟩ | ⟨w, rest, e1, e2, e3, e4⟩
    · exact ⟨done, by rw [e1]; exact h1, by rw [e2, e3]; exact h2, by rw [e4]; exact h3⟩
    · refine ⟨done ++ [w], ?_, ?_, ?_⟩
      · rw [e2, h1, e1, List.append_assoc]; rfl
      · rw [e3, h2]; unfold runWHistory; rw [List.foldl_append]; rfl
      · rw [e4, h3, wOutcomes_snoc, h2]
  | succ i =>
    obtain ⟨f1, f2, -, -, -, f6, f7, -⟩ := stepR_frame s s' i h
    exact ⟨done, by rw [f6]; exact h1, by rw [f1, f2]; exact h2, by rw [f7]; exact h3⟩

theorem run_seqInv (c0 : FileSt × List Nat) (w0 : List WTxn) (sched : List Nat) :
    ∀ s, ECInv s → RbInv s → SeqInv c0 w0 s → SeqInv c0 w0 (s.run sched) := by
  induction sched with
  | nil => intro s _ _ h; exact h
  | cons t ts ih =>
    intro s hi hrb hq
    unfold EState.run
    cases hs : s.step t with
    | none => exact ih s hi hrb hq
    | some s' => exact ih s' (step_cinv s s' t hi hs) (step_rbInv s s' t hrb hs) (step_seqInv c0 w0 s s' t hi hrb hq hs)

end TxVerif
