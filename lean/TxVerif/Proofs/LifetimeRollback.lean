/-
  Rolling back restores the allocator exactly — for transactions that begin in ANY committed state of a file
  lifetime: overflow area in use, end markers above the limit, and also after the limit was LOWERED below the
  data end marker, below free pages and below live pages (`shrinkFile`).

  Third run of Proofs/Rollback.lean (after Proofs/RollbackOv.lean), namespace `TxVerif.U`:
    `U.WF`  : no clause relates the data area to the page limit any more. `limit` now reads: every free data page
              lies below the META end marker (trivial while `data.endMarker ≤ mta.endMarker`; after a partial
              release of the overflow area the data end marker may lie above the meta end marker).
    `U.Inv` : `limit` now reads "no extension beyond the limit": inside a transaction the data end marker is
              within the limit or still the one at the begin of the transaction.
-/
import TxVerif.Proofs.RollbackOv
namespace TxVerif.U

/-- well-formedness of the allocator of a committed state at any point of a file lifetime -/
structure WF (a : Alloc) : Prop where
  ascData : Asc a.data.free
  ascMeta : Asc a.mta.free
  dataRange : ∀ x ∈ a.data.free, 2 ≤ x ∧ x < a.data.endMarker
  metaRange : ∀ x ∈ a.mta.free, x < a.mta.endMarker ∧
    (x < a.data.endMarker ∨ (0 < a.maxPages ∧ a.maxPages ≤ x))
  disj : ∀ x ∈ a.data.free, x ∉ a.mta.free
  dataEnd : 2 ≤ a.data.endMarker
  limit : ∀ x ∈ a.data.free, x < a.mta.endMarker
  total : a.mta.free.length ≤ a.metaTotal

/-! ### the invariant relating the state inside a transaction to the state at its begin -/

structure Inv (a0 a : Alloc) (st : TxAlloc) : Prop where
  cfgMax : a.maxPages = a0.maxPages
  cfgPage : a.pageSize = a0.pageSize
  cfgFl : a.freelistPages = a0.freelistPages
  dEnd0 : st.data.end0 = a0.data.endMarker
  mEnd0 : st.mta.end0 = a0.mta.endMarker
  dEndLe : a0.data.endMarker ≤ a.data.endMarker
  mEndLe : a0.mta.endMarker ≤ a.mta.endMarker
  ascD : Asc a.data.free
  ascM : Asc a.mta.free
  dFreeLt : ∀ x ∈ a.data.free, x < a.data.endMarker
  dIff : ∀ x, x < a0.data.endMarker →
    (x ∈ a0.data.free ↔ x ∈ a.data.free ∨ x ∈ st.data.allocated ∨ x ∈ st.moveToMeta)
  newGe : ∀ x ∈ st.data.new_, a0.data.endMarker ≤ x ∨ x ∈ st.moveToMeta
  mtm : ∀ x ∈ st.moveToMeta, x < a.data.endMarker ∧ x ∉ a.data.free
  fo : ∀ x ∈ st.fromOverflow, x < a.mta.endMarker ∧ (x ∈ a.data.free → x < a0.data.endMarker)
  J : a.data.endMarker ≤ a.mta.endMarker ∨
    (a.data.endMarker = a0.data.endMarker ∧ (∀ x ∈ a.data.free, x < a0.data.endMarker) ∧
      (∀ x ∈ st.data.new_, x < a0.data.endMarker))
  limit : a.maxPages = 0 ∨ a.data.endMarker ≤ a.maxPages ∨ a.data.endMarker = a0.data.endMarker
  mIff : ∀ x, (x ∈ a.mta.free ∨ x ∈ st.mta.allocated) ↔
    (x ∈ a0.mta.free ∨ x ∈ st.moveToMeta ∨ x ∈ st.fromOverflow)
  mDisj : ∀ x ∈ a0.mta.free, x ∉ st.moveToMeta ∧ x ∉ st.fromOverflow
  total : a.metaTotal = a0.metaTotal + st.moveToMeta.length + st.fromOverflow.length

theorem inv_init (a0 : Alloc) (hwf : WF a0) (ov : Bool) (pct : Nat) : Inv a0 a0 (a0.beginTx ov pct) := by
  refine ⟨rfl, rfl, rfl, rfl, rfl, Nat.le_refl _, Nat.le_refl _, hwf.ascData, hwf.ascMeta,
    fun x hx => (hwf.dataRange x hx).2, ?_, ?_, ?_, ?_, ?_, Or.inr (Or.inr rfl), ?_, ?_, ?_⟩
  case refine_5 =>
    by_cases hc : a0.data.endMarker ≤ a0.mta.endMarker
    · exact Or.inl hc
    · exact Or.inr ⟨rfl, fun x hx => (hwf.dataRange x hx).2, by simp [Alloc.beginTx]⟩
  all_goals simp [Alloc.beginTx]

theorem rollback_of_inv (a0 a : Alloc) (st : TxAlloc) (hwf : WF a0) (h : Inv a0 a st) :
    a.rollback st = a0 := by
  have hd : areaRollback a.data { st.data with allocated := unionIds st.moveToMeta st.data.allocated }
      = a0.data := by
    have hf : removeRange (unionIds ((unionIds st.moveToMeta st.data.allocated).filter (· < st.data.end0))
        a.data.free) st.data.end0 a.data.endMarker = a0.data.free := by
      apply asc_ext _ _ (asc_removeRange _ _ _ (asc_unionIds _ _ h.ascD)) hwf.ascData
      intro y
      rw [mem_removeRange, mem_unionIds, List.mem_filter, mem_unionIds, h.dEnd0]
      have h1 := h.dIff y
      have h2 := h.dFreeLt y
      have h3 := hwf.dataRange y
      simp only [decide_eq_true_eq]
      grind
    cases hd0 : a0.data with
    | mk e f =>
      rw [hd0] at hf
      simp only [areaRollback, Area.mk.injEq]
      exact ⟨by rw [h.dEnd0, hd0], hf⟩
  have hm : removeIds (removeIds (removeRange (unionIds (st.mta.allocated.filter (· < st.mta.end0))
      a.mta.free) st.mta.end0 a.mta.endMarker) st.moveToMeta) st.fromOverflow = a0.mta.free := by
    apply asc_ext _ _ (asc_removeIds _ _ (asc_removeIds _ _ (asc_removeRange _ _ _ (asc_unionIds _ _ h.ascM))))
      hwf.ascMeta
    intro y
    rw [mem_removeIds, mem_removeIds, mem_removeRange, mem_unionIds, List.mem_filter, h.mEnd0]
    have h1 := h.mIff y
    have h2 := h.mDisj y
    have h3 := hwf.metaRange y
    simp only [decide_eq_true_eq]
    grind
  have ht : a.metaTotal - st.moveToMeta.length - st.fromOverflow.length = a0.metaTotal := by
    have := h.total; omega
  unfold Alloc.rollback
  simp only [hd, ht]
  simp only [areaRollback]
  rw [hm, h.mEnd0]
  cases a0 with
  | mk mp ps d m mt fl =>
    cases m with
    | mk me mf =>
      simp only [Alloc.mk.injEq]
      exact ⟨h.cfgMax, h.cfgPage, trivial, trivial, trivial, h.cfgFl⟩

/-! ### `dataAllocRegions` -/

theorem inv_regions (a0 a : Alloc) (st : TxAlloc) (n : Nat) (a' : Alloc) (st' : TxAlloc) (ids : List Nat)
    (hwf : WF a0) (h : Inv a0 a st) (hr : dataAllocRegions a st n = some (a', st', ids)) :
    Inv a0 a' st' ∧ TP a0 a' st' ids := by
  obtain ⟨k, rest, hk, hn, hrest, hlim, -, hids, e1, e2, e3, e4, e5, e6, e7, e8, hst⟩ :=
    dataAllocRegions_spec a st n a' st' ids hr
  subst hst
  have htd := take_lt_drop a.data.free k h.ascD
  have hmem := mem_take_or_drop a.data.free k
  have hdrop0 : 0 < rest → a.data.free.drop k = [] := by
    intro hp; rw [hrest hp]; exact List.drop_length
  refine ⟨⟨?_, ?_, ?_, ?_, ?_, ?_, ?_, ?_, ?_, ?_, ?_, ?_, ?_, ?_, ?_, ?_, ?_, ?_, ?_⟩, ⟨?_, ?_, ?_, ?_, ?_, ?_⟩⟩
  all_goals (try simp only [e1, e2, e3, e4, e5, e6, e7, e8])
  all_goals clear e1 e2 e3 e4 e5 e6 e7 e8 hr
  · exact h.cfgMax
  · exact h.cfgPage
  · exact h.cfgFl
  · exact h.dEnd0
  · exact h.mEnd0
  · have := h.dEndLe; omega
  · have := h.mEndLe; split <;> omega
  · exact asc_drop _ _ h.ascD
  · exact h.ascM
  · intro x hx; have := h.dFreeLt x (List.mem_of_mem_drop hx); omega
  · intro x hx
    have h1 := h.dIff x hx
    have h2 := hmem x
    rw [mem_unionIds]
    grind
  · intro x hx
    rw [mem_unionIds, mem_idRange] at hx
    rcases hx with hx | hx
    · left; have := h.dEndLe; omega
    · exact h.newGe x hx
  · intro x hx
    have h1 := h.mtm x hx
    have h2 := hmem x
    exact ⟨by omega, by grind⟩
  · intro x hx
    have h1 := h.fo x hx
    have h2 := hmem x
    refine ⟨by split <;> omega, by grind⟩
  · by_cases hp : 0 < rest
    · left; simp only [hp, if_true]; omega
    · have hr0 : rest = 0 := by omega
      subst hr0
      rcases h.J with hj | ⟨hj1, hj2, hj3⟩
      · left; simp only [hp, if_false]; omega
      · right
        refine ⟨by omega, fun x hx => hj2 x (List.mem_of_mem_drop hx), ?_⟩
        intro x hx
        rw [mem_unionIds, mem_idRange] at hx
        rcases hx with hx | hx
        · omega
        · exact hj3 x hx
  · have := h.limit; have := h.dEndLe; omega
  · exact h.mIff
  · exact h.mDisj
  · exact h.total
  all_goals subst hids
  · rw [List.nodup_append]
    refine ⟨asc_nodup _ (asc_take _ _ h.ascD), asc_nodup _ (asc_idRange _ _), ?_⟩
    intro x hx y hy
    rw [mem_idRange] at hy
    have := h.dFreeLt x (List.mem_of_mem_take hx)
    omega
  · intro x hx
    rw [List.mem_append, mem_idRange] at hx
    rcases hx with hx | hx
    · have := h.dFreeLt x (List.mem_of_mem_take hx); omega
    · omega
  · intro x hx hx2
    rw [List.mem_append, mem_idRange] at hx
    rcases hx with hx | hx
    · have := htd x hx x hx2; omega
    · have := h.dFreeLt x (List.mem_of_mem_drop hx2); omega
  · intro x hx hx2
    have h1 := h.mtm x hx2
    rw [List.mem_append, mem_idRange] at hx
    rcases hx with hx | hx
    · exact h1.2 (List.mem_of_mem_take hx)
    · omega
  · intro x hx hx2
    have h1 := hwf.metaRange x hx2
    have h2 := h.cfgMax
    have h3 := h.dEndLe
    rw [List.mem_append, mem_idRange] at hx
    rcases hx with hx | hx
    · have h4 := h.dFreeLt x (List.mem_of_mem_take hx)
      have h5 := h.limit
      by_cases hlt : x < a0.data.endMarker
      · have h6 := (h.dIff x hlt).mpr (Or.inl (List.mem_of_mem_take hx))
        exact hwf.disj x h6 hx2
      · omega
    · omega
  · intro x hx hlt
    have h3 := h.dEndLe
    rw [List.mem_append, mem_idRange] at hx
    rcases hx with hx | hx
    · exact (h.dIff x hlt).mpr (Or.inl (List.mem_of_mem_take hx))
    · omega

/-! ### `transferToMeta` -/

theorem inv_transfer (a0 a : Alloc) (st : TxAlloc) (ids : List Nat)
    (h : Inv a0 a st) (tp : TP a0 a st ids) :
    Inv a0 (transferToMeta a st ids).1 (transferToMeta a st ids).2 := by
  unfold transferToMeta
  refine ⟨h.cfgMax, h.cfgPage, h.cfgFl, h.dEnd0, h.mEnd0, h.dEndLe, h.mEndLe, h.ascD,
    asc_unionIds _ _ h.ascM, h.dFreeLt, ?_, ?_, ?_, h.fo, h.J, h.limit, ?_, ?_, ?_⟩
  all_goals dsimp only
  · intro x hx
    have h1 := h.dIff x hx
    have h2 := tp.inData0 x
    rw [mem_unionIds]
    grind
  · intro x hx
    have h1 := h.newGe x hx
    rw [mem_unionIds]
    grind
  · intro x hx
    rw [mem_unionIds] at hx
    rcases hx with hx | hx
    · exact ⟨tp.lt x hx, tp.notFree x hx⟩
    · exact h.mtm x hx
  · intro x
    have h1 := h.mIff x
    rw [mem_unionIds, mem_unionIds]
    grind
  · intro x hx
    have h1 := h.mDisj x hx
    have h2 := tp.notMeta0 x
    rw [mem_unionIds]
    grind
  · rw [length_unionIds_of_disjoint ids st.moveToMeta tp.nodup tp.notMtm]
    have := h.total
    omega

/-! ### `dataAllocContinuous` followed by `transferToMeta` -/

theorem free_not_meta0 (a0 a : Alloc) (st : TxAlloc) (hwf : WF a0) (h : Inv a0 a st) (x : Nat)
    (hx : x ∈ a.data.free) : x ∉ a0.mta.free := by
  intro hx2
  have h1 := hwf.metaRange x hx2
  have h2 := h.cfgMax
  have h3 := h.dEndLe
  have h4 := h.dFreeLt x hx
  have h5 := h.limit
  by_cases hlt : x < a0.data.endMarker
  · exact hwf.disj x ((h.dIff x hlt).mpr (Or.inl hx)) hx2
  · omega

theorem inv_contFree (a0 a : Alloc) (st : TxAlloc) (n : Nat) (taken rest : List Nat)
    (hwf : WF a0) (h : Inv a0 a st) (hc : allocContinuous a.data.free n = some (taken, rest)) :
    Inv a0
      (transferToMeta { a with data := { a.data with free := rest } }
        { st with data := { st.data with new_ := unionIds taken st.data.new_ }, sAlloc := st.sAlloc + n } taken).1
      (transferToMeta { a with data := { a.data with free := rest } }
        { st with data := { st.data with new_ := unionIds taken st.data.new_ }, sAlloc := st.sAlloc + n } taken).2 := by
  obtain ⟨⟨s, hs⟩, hsub, hrest, hasc⟩ := allocContinuous_spec a.data.free n h.ascD taken rest hc
  have hnm := free_not_meta0 a0 a st hwf h
  unfold transferToMeta
  refine ⟨h.cfgMax, h.cfgPage, h.cfgFl, h.dEnd0, h.mEnd0, h.dEndLe, h.mEndLe, hasc,
    asc_unionIds _ _ h.ascM, ?_, ?_, ?_, ?_, ?_, ?_, h.limit, ?_, ?_, ?_⟩
  all_goals dsimp only
  · intro x hx; exact h.dFreeLt x ((hrest x).mp hx).1
  · intro x hx
    have h1 := h.dIff x hx
    have h2 := hrest x
    have h3 := hsub x
    rw [mem_unionIds]
    grind
  · intro x hx
    rw [mem_unionIds] at hx
    have h1 := h.newGe x
    rw [mem_unionIds]
    grind
  · intro x hx
    rw [mem_unionIds] at hx
    have h1 := h.mtm x
    have h2 := hrest x
    have h3 := hsub x
    have h4 := h.dFreeLt x
    grind
  · intro x hx
    have h1 := h.fo x hx
    have h2 := hrest x
    grind
  · rcases h.J with hj | ⟨hj1, hj2, hj3⟩
    · exact Or.inl hj
    · right
      refine ⟨hj1, fun x hx => hj2 x ((hrest x).mp hx).1, ?_⟩
      intro x hx
      rw [mem_unionIds] at hx
      rcases hx with hx | hx
      · exact hj2 x (hsub x hx)
      · exact hj3 x hx
  · intro x
    have h1 := h.mIff x
    rw [mem_unionIds, mem_unionIds]
    grind
  · intro x hx
    have h1 := h.mDisj x hx
    have h2 := hnm x
    have h3 := hsub x
    rw [mem_unionIds]
    grind
  · rw [length_unionIds_of_disjoint taken st.moveToMeta]
    · have := h.total; omega
    · rw [hs]; exact asc_nodup _ (asc_idRange _ _)
    · intro x hx hx2
      exact (h.mtm x hx2).2 (hsub x hx)

theorem inv_contEnd (a0 a : Alloc) (st : TxAlloc) (n : Nat)
    (hwf : WF a0) (h : Inv a0 a st)
    (hlim : a.maxPages = 0 ∨ n = 0 ∨ a.data.endMarker + n ≤ a.maxPages) :
    Inv a0 (bumpMetaEnd { a with data := { a.data with endMarker := a.data.endMarker + n } })
      { st with data := { st.data with new_ := unionIds (idRange a.data.endMarker n) st.data.new_ },
                sAlloc := st.sAlloc + n } ∧
    TP a0 (bumpMetaEnd { a with data := { a.data with endMarker := a.data.endMarker + n } })
      { st with data := { st.data with new_ := unionIds (idRange a.data.endMarker n) st.data.new_ },
                sAlloc := st.sAlloc + n } (idRange a.data.endMarker n) := by
  refine ⟨⟨?_, ?_, ?_, ?_, ?_, ?_, ?_, ?_, ?_, ?_, ?_, ?_, ?_, ?_, ?_, ?_, ?_, ?_, ?_⟩, ⟨?_, ?_, ?_, ?_, ?_, ?_⟩⟩
  all_goals (try simp only [bumpMetaEnd_data, bumpMetaEnd_mta_free, bumpMetaEnd_mta_end, bumpMetaEnd_maxPages,
      bumpMetaEnd_pageSize, bumpMetaEnd_freelistPages, bumpMetaEnd_metaTotal])
  · exact h.cfgMax
  · exact h.cfgPage
  · exact h.cfgFl
  · exact h.dEnd0
  · exact h.mEnd0
  · have := h.dEndLe; omega
  · have := h.mEndLe; omega
  · exact h.ascD
  · exact h.ascM
  · intro x hx; have := h.dFreeLt x hx; omega
  · exact h.dIff
  · intro x hx
    rw [mem_unionIds, mem_idRange] at hx
    rcases hx with hx | hx
    · left; have := h.dEndLe; omega
    · exact h.newGe x hx
  · intro x hx
    have h1 := h.mtm x hx
    exact ⟨by omega, h1.2⟩
  · intro x hx
    have h1 := h.fo x hx
    exact ⟨by omega, h1.2⟩
  · left; omega
  · have := h.limit; have := h.dEndLe; omega
  · exact h.mIff
  · exact h.mDisj
  · exact h.total
  · exact asc_nodup _ (asc_idRange _ _)
  · intro x hx; rw [mem_idRange] at hx; omega
  · intro x hx hx2
    rw [mem_idRange] at hx
    have := h.dFreeLt x hx2; omega
  · intro x hx hx2
    rw [mem_idRange] at hx
    have := h.mtm x hx2; omega
  · intro x hx hx2
    rw [mem_idRange] at hx
    have h1 := hwf.metaRange x hx2
    have h2 := h.cfgMax
    have h3 := h.dEndLe
    omega
  · intro x hx hlt
    rw [mem_idRange] at hx
    have h3 := h.dEndLe
    omega

theorem inv_continuous_transfer (a0 a : Alloc) (st : TxAlloc) (n : Nat) (a1 : Alloc) (st1 : TxAlloc)
    (ids : List Nat) (hwf : WF a0) (h : Inv a0 a st)
    (hr : dataAllocContinuous a st n = some (a1, st1, ids)) :
    Inv a0 (transferToMeta a1 st1 ids).1 (transferToMeta a1 st1 ids).2 := by
  unfold dataAllocContinuous at hr
  by_cases hav : a.dataAvail < n
  · rw [if_pos hav] at hr; cases hr
  · rw [if_neg hav] at hr
    cases hc : allocContinuous a.data.free n with
    | some p =>
      obtain ⟨taken, rest⟩ := p
      rw [hc] at hr
      simp only [Option.some.injEq, Prod.mk.injEq] at hr
      obtain ⟨ha, hst, hids⟩ := hr
      subst ha hst hids
      exact inv_contFree a0 a st n taken rest hwf h hc
    | none =>
      simp only [hc] at hr
      by_cases hroom : a.maxPages > 0 ∧ (if a.data.endMarker < a.maxPages then a.maxPages - a.data.endMarker else 0) < n
      · rw [if_pos hroom] at hr; cases hr
      · rw [if_neg hroom] at hr
        simp only [Option.some.injEq, Prod.mk.injEq] at hr
        obtain ⟨ha, hst, hids⟩ := hr
        subst ha hst hids
        have hlim : a.maxPages = 0 ∨ n = 0 ∨ a.data.endMarker + n ≤ a.maxPages := by
          by_cases hm : a.maxPages = 0
          · exact Or.inl hm
          · right
            have hm' : a.maxPages > 0 := by omega
            simp only [hm', true_and] at hroom
            split at hroom <;> omega
        obtain ⟨hi, htp⟩ := inv_contEnd a0 a st n hwf h hlim
        exact inv_transfer a0 _ _ _ hi htp

theorem inv_ovStep (a0 a : Alloc) (st : TxAlloc) (req : Nat) (hwf : WF a0) (h : Inv a0 a st) :
    Inv a0 (ovStep a st req).1 (ovStep a st req).2 := by
  have e1 : (ovStep a st req).1.maxPages = a.maxPages := by unfold ovStep; dsimp only; split <;> rfl
  have e2 : (ovStep a st req).1.pageSize = a.pageSize := by unfold ovStep; dsimp only; split <;> rfl
  have e3 : (ovStep a st req).1.freelistPages = a.freelistPages := by unfold ovStep; dsimp only; split <;> rfl
  have e4 : (ovStep a st req).1.metaTotal = a.metaTotal + req := by unfold ovStep; dsimp only; split <;> rfl
  have e5 : (ovStep a st req).1.data.free = a.data.free := by unfold ovStep; dsimp only; split <;> rfl
  have e6 : (ovStep a st req).1.mta.free = unionIds (idRange a.mta.endMarker req) a.mta.free := by
    unfold ovStep; dsimp only; split <;> rfl
  have e7 : (ovStep a st req).1.mta.endMarker = a.mta.endMarker + req := by
    unfold ovStep; dsimp only; split <;> rfl
  have e8 : (ovStep a st req).1.data.endMarker =
      if a.maxPages = 0 ∧ a.data.endMarker < a.mta.endMarker + req then a.mta.endMarker + req
      else a.data.endMarker := by
    unfold ovStep; dsimp only; split <;> rfl
  have e9 : (ovStep a st req).2 = { st with
      mta := { st.mta with new_ := unionIds (idRange a.mta.endMarker req) st.mta.new_ },
      fromOverflow := unionIds (idRange a.mta.endMarker req) st.fromOverflow, sToMeta := st.sToMeta + req } := rfl
  rw [e9]
  refine ⟨?_, ?_, ?_, ?_, ?_, ?_, ?_, ?_, ?_, ?_, ?_, ?_, ?_, ?_, ?_, ?_, ?_, ?_, ?_⟩
  all_goals (try simp only [e1, e2, e3, e4, e5, e6, e7, e8])
  · exact h.cfgMax
  · exact h.cfgPage
  · exact h.cfgFl
  · exact h.dEnd0
  · exact h.mEnd0
  · have := h.dEndLe; split <;> omega
  · have := h.mEndLe; omega
  · exact h.ascD
  · exact asc_unionIds _ _ h.ascM
  · intro x hx; have := h.dFreeLt x hx; split <;> omega
  · exact h.dIff
  · exact h.newGe
  · intro x hx
    have h1 := h.mtm x hx
    exact ⟨by split <;> omega, h1.2⟩
  · intro x hx
    rw [mem_unionIds, mem_idRange] at hx
    rcases hx with hx | hx
    · refine ⟨hx.2, ?_⟩
      intro hf
      have h1 := h.dFreeLt x hf
      rcases h.J with hj | ⟨_, hj2, _⟩
      · omega
      · exact hj2 x hf
    · have h1 := h.fo x hx
      exact ⟨by omega, h1.2⟩
  · rcases h.J with hj | ⟨hj1, hj2, hj3⟩
    · left; split <;> omega
    · by_cases hc : a.maxPages = 0 ∧ a.data.endMarker < a.mta.endMarker + req
      · left; rw [if_pos hc]; omega
      · right; rw [if_neg hc]; exact ⟨hj1, hj2, hj3⟩
  · have := h.limit; split <;> omega
  · intro x
    have h1 := h.mIff x
    rw [mem_unionIds, mem_unionIds]
    grind
  · intro x hx
    have h1 := h.mDisj x hx
    have h2 := hwf.metaRange x hx
    have h3 := h.mEndLe
    rw [mem_unionIds, mem_idRange]
    refine ⟨h1.1, ?_⟩
    intro hc
    rcases hc with hc | hc
    · omega
    · exact h1.2 hc
  · rw [length_unionIds_of_disjoint _ st.fromOverflow (asc_nodup _ (asc_idRange _ _)), length_idRange]
    · have := h.total; omega
    · intro x hx hx2
      rw [mem_idRange] at hx
      have := h.fo x hx2
      omega

/-! ### `tryGrow`, `ensureMeta` -/

theorem inv_tryGrow (a0 a : Alloc) (st : TxAlloc) (count : Nat) (wo : Bool) (a' : Alloc) (st' : TxAlloc)
    (hwf : WF a0) (h : Inv a0 a st) (hr : tryGrow a st count wo = some (a', st')) : Inv a0 a' st' := by
  unfold tryGrow at hr
  dsimp only at hr
  by_cases hc0 : count = 0
  · rw [if_pos hc0] at hr
    simp only [Option.some.injEq, Prod.mk.injEq] at hr
    obtain ⟨ha, hst⟩ := hr
    subst ha hst
    exact h
  · rw [if_neg hc0] at hr
    by_cases hav : a.dataAvail < count
    · rw [if_pos hav] at hr
      cases hwo : wo with
      | false => rw [hwo] at hr; simp at hr
      | true =>
        rw [hwo] at hr
        simp only [Bool.not_true, Bool.false_eq_true, if_false] at hr
        cases hreg : dataAllocRegions a st a.dataAvail with
        | none => rw [hreg] at hr; cases hr
        | some p =>
          obtain ⟨a1, st1, ids⟩ := p
          rw [hreg] at hr
          obtain ⟨hi1, htp⟩ := inv_regions a0 a st _ a1 st1 ids hwf h hreg
          have hi2 : Inv a0 (if ids.isEmpty then (a1, st1) else transferToMeta a1 st1 ids).1
              (if ids.isEmpty then (a1, st1) else transferToMeta a1 st1 ids).2 := by
            split
            · exact hi1
            · exact inv_transfer a0 a1 st1 ids hi1 htp
          have hi3 := inv_ovStep a0 _ _ (count - a.dataAvail) hwf hi2
          simp only [Option.some.injEq, Prod.mk.injEq] at hr
          obtain ⟨ha, hst⟩ := hr
          rw [← ha, ← hst]
          exact hi3
    · rw [if_neg hav] at hr
      cases hcont : dataAllocContinuous a st count with
      | some p =>
        obtain ⟨a1, st1, ids⟩ := p
        rw [hcont] at hr
        simp only [Option.some.injEq] at hr
        have hi := inv_continuous_transfer a0 a st count a1 st1 ids hwf h hcont
        rw [hr] at hi
        exact hi
      | none =>
        rw [hcont] at hr
        cases hreg : dataAllocRegions a st count with
        | none => rw [hreg] at hr; cases hr
        | some p =>
          obtain ⟨a1, st1, ids⟩ := p
          rw [hreg] at hr
          simp only [Option.some.injEq] at hr
          obtain ⟨hi1, htp⟩ := inv_regions a0 a st _ a1 st1 ids hwf h hreg
          have hi := inv_transfer a0 a1 st1 ids hi1 htp
          rw [hr] at hi
          exact hi

theorem inv_ensureMeta (a0 a : Alloc) (st : TxAlloc) (n : Nat) (a' : Alloc) (st' : TxAlloc)
    (hwf : WF a0) (h : Inv a0 a st) (hr : ensureMeta a st n = some (a', st')) : Inv a0 a' st' := by
  unfold ensureMeta at hr
  dsimp only at hr
  split at hr
  · simp only [Option.some.injEq, Prod.mk.injEq] at hr
    obtain ⟨ha, hst⟩ := hr
    subst ha hst
    exact h
  · split at hr
    · rename_i r hg
      simp only [Option.some.injEq] at hr
      subst hr
      exact inv_tryGrow a0 a st _ _ a' st' hwf h hg
    · exact inv_tryGrow a0 a st _ _ a' st' hwf h hr

/-! ### allocation from the meta area -/

theorem inv_metaTake (a0 a : Alloc) (st : TxAlloc) (ids rest : List Nat)
    (h : Inv a0 a st) (hasc : Asc rest) (hmem : ∀ x, x ∈ a.mta.free ↔ x ∈ ids ∨ x ∈ rest) :
    Inv a0 { a with mta := { a.mta with free := rest } }
      { st with mta := { st.mta with allocated := unionIds ids st.mta.allocated } } := by
  refine ⟨h.cfgMax, h.cfgPage, h.cfgFl, h.dEnd0, h.mEnd0, h.dEndLe, h.mEndLe, h.ascD,
    hasc, h.dFreeLt, h.dIff, h.newGe, h.mtm, h.fo, h.J, h.limit, ?_, h.mDisj, h.total⟩
  intro x
  have h1 := h.mIff x
  have h2 := hmem x
  dsimp only
  rw [mem_unionIds]
  grind

theorem inv_walAlloc (a0 a : Alloc) (st : TxAlloc) (a' : Alloc) (st' : TxAlloc) (id : Nat)
    (hwf : WF a0) (h : Inv a0 a st) (hr : walAlloc a st = some (a', st', id)) : Inv a0 a' st' := by
  unfold walAlloc at hr
  split at hr
  · cases hr
  · rename_i a1 st1 he
    have hi := inv_ensureMeta a0 a st 1 a1 st1 hwf h he
    split at hr
    · rename_i id' rest hc
      simp only [Option.some.injEq, Prod.mk.injEq] at hr
      obtain ⟨ha, hst, -⟩ := hr
      subst ha hst
      obtain ⟨-, hsub, hrest, hasc⟩ := allocContinuous_spec a1.mta.free 1 hi.ascM [id'] rest hc
      have := inv_metaTake a0 a1 st1 [id'] rest hi hasc (by
        intro x
        have h1 := hrest x
        have h2 := hsub x
        grind)
      exact this
    · cases hr

theorem inv_metaAllocRegions (a0 a : Alloc) (st : TxAlloc) (n : Nat) (a' : Alloc) (st' : TxAlloc)
    (ids : List Nat) (hwf : WF a0) (h : Inv a0 a st)
    (hr : metaAllocRegions a st n = some (a', st', ids)) : Inv a0 a' st' := by
  unfold metaAllocRegions at hr
  split at hr
  · cases hr
  · rename_i a1 st1 he
    have hi := inv_ensureMeta a0 a st n a1 st1 hwf h he
    dsimp only at hr
    split at hr
    · cases hr
    · simp only [Option.some.injEq, Prod.mk.injEq] at hr
      obtain ⟨ha, hst, -⟩ := hr
      subst ha hst
      apply inv_metaTake a0 a1 st1 _ _ hi (asc_take _ _ hi.ascM)
      intro x
      have := mem_take_or_drop a1.mta.free (a1.mta.free.length - min n a1.mta.free.length) x
      grind

theorem inv_metaFreeId (a0 a : Alloc) (st : TxAlloc) (id : Nat) (h : Inv a0 a st) :
    Inv a0 a (metaFreeId st id) :=
  ⟨h.cfgMax, h.cfgPage, h.cfgFl, h.dEnd0, h.mEnd0, h.dEndLe, h.mEndLe, h.ascD,
    h.ascM, h.dFreeLt, h.dIff, h.newGe, h.mtm, h.fo, h.J, h.limit, h.mIff, h.mDisj, h.total⟩

/-- `Inv` only looks at some of the fields of the transaction state -/
theorem inv_congr_st (a0 a : Alloc) (st st' : TxAlloc) (h : Inv a0 a st)
    (e1 : st'.data.end0 = st.data.end0) (e2 : st'.mta.end0 = st.mta.end0)
    (e3 : st'.data.allocated = st.data.allocated) (e4 : st'.data.new_ = st.data.new_)
    (e5 : st'.mta.allocated = st.mta.allocated) (e6 : st'.moveToMeta = st.moveToMeta)
    (e7 : st'.fromOverflow = st.fromOverflow) : Inv a0 a st' := by
  refine ⟨?_, ?_, ?_, ?_, ?_, ?_, ?_, ?_, ?_, ?_, ?_, ?_, ?_, ?_, ?_, ?_, ?_, ?_, ?_⟩
  all_goals (try rw [e1]); (try rw [e2]); (try rw [e3]); (try rw [e4]); (try rw [e5]); (try rw [e6]); (try rw [e7])
  · exact h.cfgMax
  · exact h.cfgPage
  · exact h.cfgFl
  · exact h.dEnd0
  · exact h.mEnd0
  · exact h.dEndLe
  · exact h.mEndLe
  · exact h.ascD
  · exact h.ascM
  · exact h.dFreeLt
  · exact h.dIff
  · exact h.newGe
  · exact h.mtm
  · exact h.fo
  · exact h.J
  · exact h.limit
  · exact h.mIff
  · exact h.mDisj
  · exact h.total

theorem inv_freeInsert (a0 a : Alloc) (st : TxAlloc) (id : Nat) (h : Inv a0 a st)
    (hnew : id ∈ st.data.new_) (hlt : id < a.data.endMarker) (hm : id ∉ st.moveToMeta)
    (hf : id ∉ st.fromOverflow) :
    Inv a0 { a with data := { a.data with free := insertId id a.data.free } } st := by
  have hge : a0.data.endMarker ≤ id := by
    rcases h.newGe id hnew with h1 | h1
    · exact h1
    · exact absurd h1 hm
  refine ⟨h.cfgMax, h.cfgPage, h.cfgFl, h.dEnd0, h.mEnd0, h.dEndLe, h.mEndLe, asc_insertId _ _ h.ascD,
    h.ascM, ?_, ?_, h.newGe, ?_, ?_, ?_, h.limit, h.mIff, h.mDisj, h.total⟩
  all_goals dsimp only
  · intro x hx
    rcases (mem_insertId id x _).mp hx with e | e
    · omega
    · exact h.dFreeLt x e
  · intro x hx
    have h1 := h.dIff x hx
    rw [mem_insertId]
    have : x ≠ id := by omega
    grind
  · intro x hx
    have h1 := h.mtm x hx
    rw [mem_insertId]
    have : x ≠ id := fun e => hm (e ▸ hx)
    grind
  · intro x hx
    have h1 := h.fo x hx
    rw [mem_insertId]
    have : x ≠ id := fun e => hf (e ▸ hx)
    grind
  · rcases h.J with hj | ⟨_, _, hj3⟩
    · exact Or.inl hj
    · have := hj3 id hnew; omega

theorem inv_shrink (a0 a : Alloc) (st : TxAlloc) (s c : Nat) (h : Inv a0 a st)
    (hl : lastRun a.data.free = some (s, c)) (he : ¬ s + c < a.data.endMarker) :
    Inv a0
      { a with
        data := { endMarker := if st.data.end0 > s then st.data.end0 else s,
                  free := removeRange a.data.free (if st.data.end0 > s then st.data.end0 else s) (s + c) },
        mta := { a.mta with
                 endMarker := if a.mta.endMarker = a.data.endMarker then max (if st.data.end0 > s then st.data.end0 else s) st.mta.end0 else a.mta.endMarker } }
      st := by
  obtain ⟨hc, hrun⟩ := lastRun_spec a.data.free h.ascD s c hl
  have hs : s ∈ a.data.free := hrun s (Nat.le_refl _) (by omega)
  have hslt := h.dFreeLt s hs
  have hd0 := h.dEndLe
  have hm0 := h.mEndLe
  rw [h.dEnd0, h.mEnd0]
  generalize hstart : (if a0.data.endMarker > s then a0.data.endMarker else s) = start
  have hst1 : a0.data.endMarker ≤ start := by rw [← hstart]; split <;> omega
  have hst2 : s ≤ start := by rw [← hstart]; split <;> omega
  have hst3 : start ≤ a.data.endMarker := by rw [← hstart]; split <;> omega
  have hst4 : start = a0.data.endMarker ∨ start = s := by rw [← hstart]; split <;> omega
  refine ⟨h.cfgMax, h.cfgPage, h.cfgFl, h.dEnd0, h.mEnd0, hst1, ?_, asc_removeRange _ _ _ h.ascD,
    h.ascM, ?_, ?_, h.newGe, ?_, ?_, ?_, ?_, h.mIff, h.mDisj, h.total⟩
  all_goals dsimp only
  · split <;> omega
  · intro x hx
    rw [mem_removeRange] at hx
    have := h.dFreeLt x hx.1
    omega
  · intro x hx
    have h1 := h.dIff x hx
    rw [mem_removeRange]
    have : ¬ (start ≤ x ∧ x < s + c) := by omega
    grind
  · intro x hx
    have h1 := h.mtm x hx
    have h2 := hrun x
    rw [mem_removeRange]
    refine ⟨?_, fun hh => h1.2 hh.1⟩
    by_cases hxs : start ≤ x
    · exact absurd (h2 (by omega) (by omega)) h1.2
    · omega
  · intro x hx
    have h1 := h.fo x hx
    have h2 := hrun x
    rw [mem_removeRange]
    refine ⟨?_, fun hh => h1.2 hh.1⟩
    split
    · by_cases hxs : start ≤ x
      · have := h1.2 (h2 (by omega) (by omega)); omega
      · omega
    · exact h1.1
  · split
    · left; omega
    · rcases h.J with hj | ⟨hj1, hj2, hj3⟩
      · left; omega
      · right
        have := hj2 s hs
        refine ⟨by omega, ?_, hj3⟩
        intro x hx
        rw [mem_removeRange] at hx
        exact hj2 x hx.1
  · have := h.limit; omega

theorem inv_dataFreeCore (a0 a : Alloc) (st : TxAlloc) (id : Nat) (h : Inv a0 a st)
    (hlt : id < a.data.endMarker) (hm : id ∉ st.moveToMeta) (hf : id ∉ st.fromOverflow) :
    Inv a0 (dataFreeCore a st id).1 (dataFreeCore a st id).2 := by
  unfold dataFreeCore
  by_cases hnew : id ∈ st.data.new_
  · have hc : (!st.data.new_.contains id) = false := by simp [hnew]
    rw [hc]
    simp only [Bool.false_eq_true, if_false]
    have hi := inv_freeInsert a0 a st id h hnew hlt hm hf
    by_cases h1 : st.data.end0 ≥ id
    · rw [if_pos h1]; exact hi
    · rw [if_neg h1]
      cases hl : lastRun (insertId id a.data.free) with
      | none => exact hi
      | some p =>
        obtain ⟨s, c⟩ := p
        dsimp only
        by_cases h2 : s + c < a.data.endMarker
        · rw [if_pos h2]; exact hi
        · rw [if_neg h2]
          exact inv_shrink a0 _ st s c hi hl h2
  · have hc : (!st.data.new_.contains id) = true := by simp [hnew]
    rw [hc]
    simp only [if_true]
    exact inv_congr_st a0 a st _ h rfl rfl rfl rfl rfl rfl rfl

theorem inv_dataFree (a0 a : Alloc) (st : TxAlloc) (id : Nat) (h : Inv a0 a st)
    (hlt : id < a.data.endMarker) (hm : id ∉ st.moveToMeta) (hf : id ∉ st.fromOverflow) :
    Inv a0 (dataFree a st id).1 (dataFree a st id).2 := by
  rw [dataFree_eq]
  exact inv_dataFreeCore a0 a _ id (inv_congr_st a0 a st _ h rfl rfl rfl rfl rfl rfl rfl) hlt hm hf

end TxVerif.U
