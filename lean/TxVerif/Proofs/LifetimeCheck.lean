/-
  An executable (Bool) version of `U.EngInv` and its soundness: `U.engInvB f live = true → U.EngInv f live`.
  Used to check the lifetime invariant on concrete states by `decide` (examples of Props/Lifetime.lean).
-/
import TxVerif.Proofs.LifetimeResize
import TxVerif.Proofs.RefineOvCheck
namespace TxVerif.U

def wfB (a : Alloc) : Bool :=
  ascB a.data.free && ascB a.mta.free &&
  a.data.free.all (fun x => decide (2 ≤ x) && decide (x < a.data.endMarker)) &&
  a.mta.free.all (fun x => decide (x < a.mta.endMarker) &&
    (decide (x < a.data.endMarker) || (decide (0 < a.maxPages) && decide (a.maxPages ≤ x)))) &&
  a.data.free.all (fun x => !a.mta.free.contains x) &&
  decide (2 ≤ a.data.endMarker) &&
  a.data.free.all (fun x => decide (x < a.mta.endMarker)) &&
  decide (a.mta.free.length ≤ a.metaTotal)

theorem wfB_spec (a : Alloc) (h : wfB a = true) : WF a := by
  simp only [wfB, Bool.and_eq_true, List.all_eq_true, decide_eq_true_eq, Bool.or_eq_true,
    Bool.not_eq_true', List.contains_eq_mem, decide_eq_false_iff_not] at h
  obtain ⟨⟨⟨⟨⟨⟨⟨h1, h2⟩, h3⟩, h4⟩, h5⟩, h6⟩, h7⟩, h8⟩ := h
  exact ⟨asc_of_ascB _ h1, asc_of_ascB _ h2, h3, h4, h5, h6, h7, h8⟩

/-- the executable lifetime invariant -/
def engInvB (f : FileSt) (live : List Nat) : Bool :=
  wfB f.alloc &&
  ascB (f.walMap.map (·.1)) &&
  live.all (fun id => decide (2 ≤ id) && decide (id < f.alloc.data.endMarker) && Ov.inUseB f.alloc id) &&
  f.walMap.all (fun e => live.contains e.1) &&
  f.internal.all (fun x => Ov.inUseB f.alloc x && !live.contains x) &&
  decide f.internal.Nodup &&
  decide (f.alloc.mta.free.length + f.internal.length ≤ f.alloc.metaTotal) &&
  (decide (f.alloc.maxPages = 0) || decide (2 ≤ f.alloc.maxPages))

theorem engInvB_spec (f : FileSt) (live : List Nat) (h : engInvB f live = true) : EngInv f live := by
  simp only [engInvB, Bool.and_eq_true, List.all_eq_true, decide_eq_true_eq, Bool.or_eq_true,
    Bool.not_eq_true', List.contains_eq_mem, decide_eq_false_iff_not] at h
  obtain ⟨⟨⟨⟨⟨⟨⟨h1, h3⟩, h4⟩, h5⟩, h6⟩, h7⟩, h8⟩, h11⟩ := h
  have hnd : (f.walMap.map (·.2)).Nodup := by
    have := h7
    unfold FileSt.internal at this
    rw [List.nodup_append, List.nodup_append] at this
    exact this.1.1
  refine ⟨wfB_spec _ h1, Ov.ascKeys_of_ascB _ h3, ?_, ?_, ?_, ?_, h7, h8, h11⟩
  · intro id hid
    have := h4 id hid
    exact ⟨this.1.1, this.1.2, Ov.inUseB_spec _ _ this.2⟩
  · intro k w hk
    exact h5 (k, w) (Assoc.mem_of_get? _ _ _ hk)
  · intro k1 k2 w hk1 hk2
    exact Ov.inj_of_values_nodup _ hnd k1 k2 w (Assoc.mem_of_get? _ _ _ hk1) (Assoc.mem_of_get? _ _ _ hk2)
  · intro x hx
    have := h6 x hx
    exact ⟨Ov.inUseB_spec _ _ this.1, this.2⟩

end TxVerif.U
