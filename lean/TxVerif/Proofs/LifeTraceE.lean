/-
  PORT of Proofs/EngineTraceE.lean to the lifetime invariant `EngInvU` (namespace `TxVerif.LT`; the lemmas of
  namespace `Ov` replaced by those of namespace `U`, Proofs/Lifetime*.lean). Original header:
-/
/-
  Lemmas for C01 over the engine model, part E: a transaction that commits, and the acceptance of the
  trace of one transaction by the acceptor of the crash model.
-/
import TxVerif.Proofs.LifeTraceD
namespace TxVerif.LT

/-- the writes of the internal pages at the end of a commit -/
def etWalW (fl : Bool × Bool) (F' : FileSt) : List TOp :=
  if fl.1 then F'.walPages.map (fun p => TOp.write p (mapHash F'.walMap)) else []
def etFlW (fl : Bool × Bool) (F' : FileSt) : List TOp :=
  if fl.2 then F'.alloc.freelistPages.map (fun p => TOp.write p F'.flHash) else []

theorem commitTailF_eq (slot : Nat) (fl : Bool × Bool) (F' : FileSt) :
    commitTailF slot fl F' = etWalW fl F' ++ etFlW fl F' ++ [TOp.sync, TOp.hdr (1 - slot) F'.txid F'.txid, TOp.sync] := rfl

theorem etAllFree_writes (f0 : FileSt) (live : List Nat) (ps : List Nat) (h : Hash)
    (hp : ∀ x ∈ ps, ¬ InUse f0.alloc x) : EtAllFree f0 live (ps.map (fun p => TOp.write p h)) := by
  intro op hop
  obtain ⟨x, hx, rfl⟩ := List.mem_map.mp hop
  exact ⟨x, h, rfl, Or.inl (hp x hx)⟩

/-- everything known about a committing transaction of a history -/
structure EtCommitFacts (e : EngCS) (t : TxnE) (W : List TOp) : Prop where
  inv' : EngInvU (runTxnO (e.f, e.live) t.t).1 (runTxnO (e.f, e.live) t.t).2
  tk : EtTxnOk (e.f, e.live) t.t
  free : EtAllFree e.f e.live
    (W ++ etWalW (txnFlags (e.f, e.live) t.t) (runTxnO (e.f, e.live) t.t).1 ++
      etFlW (txnFlags (e.f, e.live) t.t) (runTxnO (e.f, e.live) t.t).1)
  trace : engTrace e t =
    (W ++ etWalW (txnFlags (e.f, e.live) t.t) (runTxnO (e.f, e.live) t.t).1 ++
      etFlW (txnFlags (e.f, e.live) t.t) (runTxnO (e.f, e.live) t.t).1) ++
    [TOp.sync, TOp.hdr (1 - e.slot) (runTxnO (e.f, e.live) t.t).1.txid (runTxnO (e.f, e.live) t.t).1.txid, TOp.sync] ++
    truncT (runTxnO (e.f, e.live) t.t).1 t.trunc
  sync : EtSync e.pages e.f (tracePages W e.pages) (runTxnO (e.f, e.live) t.t).1
  insync : ∀ id ∈ (runTxnO (e.f, e.live) t.t).2, (id ∈ e.dfn ∨ TxnDirty (e.f, e.live) t.t id) →
    InSync (tracePages W e.pages) (runTxnO (e.f, e.live) t.t).1 ((runTxnO (e.f, e.live) t.t).1.physOf id)
  wal : ∀ p ∈ (runTxnO (e.f, e.live) t.t).1.walPages,
    tracePages (W ++ etWalW (txnFlags (e.f, e.live) t.t) (runTxnO (e.f, e.live) t.t).1 ++
      etFlW (txnFlags (e.f, e.live) t.t) (runTxnO (e.f, e.live) t.t).1) e.pages p =
      some (mapHash (runTxnO (e.f, e.live) t.t).1.walMap)
  fl : ∀ p ∈ (runTxnO (e.f, e.live) t.t).1.alloc.freelistPages,
    tracePages (W ++ etWalW (txnFlags (e.f, e.live) t.t) (runTxnO (e.f, e.live) t.t).1 ++
      etFlW (txnFlags (e.f, e.live) t.t) (runTxnO (e.f, e.live) t.t).1) e.pages p =
      some (if (txnFlags (e.f, e.live) t.t).2 then (runTxnO (e.f, e.live) t.t).1.flHash else e.flh)

theorem et_commit_pages_aux {e : EngCS} (ok : EngOk e) (F' : FileSt) (live' : List Nat) (fl : Bool × Bool)
    (W : List TOp) (hW : EtAllFree e.f e.live W) (inv' : EngInvU F' live')
    (walNew : fl.1 = true → ∀ x ∈ F'.walPages, ¬ InUse e.f.alloc x)
    (flNew : fl.2 = true → ∀ x ∈ F'.alloc.freelistPages, ¬ InUse e.f.alloc x)
    (walOld : fl.1 = false → F'.walPages = e.f.walPages ∧ F'.walMap = e.f.walMap)
    (flOld : fl.2 = false → F'.alloc.freelistPages = e.f.alloc.freelistPages) :
    EtAllFree e.f e.live (W ++ etWalW fl F' ++ etFlW fl F') ∧
    (∀ p ∈ F'.walPages, tracePages (W ++ etWalW fl F' ++ etFlW fl F') e.pages p = some (mapHash F'.walMap)) ∧
    (∀ p ∈ F'.alloc.freelistPages, tracePages (W ++ etWalW fl F' ++ etFlW fl F') e.pages p =
      some (if fl.2 then F'.flHash else e.flh)) := by
  have hwalW : EtAllFree e.f e.live (etWalW fl F') := by
    unfold etWalW
    cases h1 : fl.1 with
    | true => simp only [if_true]; exact etAllFree_writes _ _ _ _ (walNew h1)
    | false => exact etAllFree_nil _ _
  have hflW : EtAllFree e.f e.live (etFlW fl F') := by
    unfold etFlW
    cases h2 : fl.2 with
    | true => simp only [if_true]; exact etAllFree_writes _ _ _ _ (flNew h2)
    | false => exact etAllFree_nil _ _
  have hall := etAllFree_append (etAllFree_append hW hwalW) hflW
  refine ⟨hall, ?_, ?_⟩
  · intro p hp
    cases h1 : fl.1 with
    | true =>
      rw [tracePages_append, tracePages_append, tracePages_other]
      · unfold etWalW; simp only [h1, if_true]
        exact tracePages_writes_same _ _ _ p hp
      · intro op hop
        unfold etFlW at hop
        cases h2 : fl.2 with
        | false => rw [h2] at hop; simp at hop
        | true =>
          rw [h2] at hop
          simp only [if_true] at hop
          obtain ⟨x, hx, rfl⟩ := List.mem_map.mp hop
          simp only [opHits]
          intro e1; subst e1
          exact (U.eng_pages inv').2.2 p hp hx
    | false =>
      obtain ⟨w1, w2⟩ := walOld h1
      rw [w2]
      have hp' : p ∈ e.f.walPages := w1 ▸ hp
      rw [etAllFree_pages ok _ hall e.pages p ((engReach_pages_mem e p).mpr (Or.inr (Or.inl hp')))]
      exact ok.wal p hp'
  · intro p hp
    cases h2 : fl.2 with
    | true =>
      rw [tracePages_append]
      unfold etFlW; simp only [h2, if_true]
      exact tracePages_writes_same _ _ _ p hp
    | false =>
      simp only [Bool.false_eq_true, if_false]
      have hp' : p ∈ e.f.alloc.freelistPages := (flOld h2) ▸ hp
      rw [etAllFree_pages ok _ hall e.pages p ((engReach_pages_mem e p).mpr (Or.inr (Or.inr hp')))]
      exact ok.fl p hp'

theorem et_commit_facts {e : EngCS} (ok : EngOk e) (t : TxnE) (hc : t.t.commits (e.f, e.live)) :
    ∃ W, EtCommitFacts e t W := by
  obtain ⟨W, hW, ⟨hn, -⟩ | ⟨-, htr, hsync, tk, hins⟩⟩ := et_txn_shape (e.f, e.live) ok.inv e.slot t.t e.pages e.dfn
  · exact absurd hc hn
  · refine ⟨W, ?_⟩
    have inv' := runTxnO_invU (e.f, e.live) ok.inv t.t
    obtain ⟨a1, a2, a3⟩ := et_commit_pages_aux ok _ _ (txnFlags (e.f, e.live) t.t) W hW inv'
      tk.walNew tk.flNew tk.walOld tk.flOld
    refine ⟨inv', tk, a1, ?_, hsync, hins (fun id hid => ok.data id hid), a2, a3⟩
    unfold engTrace
    rw [htr, commitTailF_eq]
    simp only [List.append_assoc]

/-- the file content after the whole trace of a committing transaction: the content at header time,
    cut by the closing truncate -/
theorem et_commit_pages {e : EngCS} {t : TxnE} {W : List TOp} (cf : EtCommitFacts e t W) :
    tracePages (engTrace e t) e.pages =
      tracePages (truncT (runTxnO (e.f, e.live) t.t).1 t.trunc)
        (tracePages (W ++ etWalW (txnFlags (e.f, e.live) t.t) (runTxnO (e.f, e.live) t.t).1 ++
          etFlW (txnFlags (e.f, e.live) t.t) (runTxnO (e.f, e.live) t.t).1) e.pages) := by
  rw [cf.trace, tracePages_append, tracePages_append]
  rfl

theorem engOk_next_commit {e : EngCS} (ok : EngOk e) (t : TxnE) (hc : t.t.commits (e.f, e.live)) :
    EngOk (engNext e t) ∧ (engNext e t).f.txid = e.f.txid + 1 ∧ (engNext e t).slot = 1 - e.slot := by
  obtain ⟨W, cf⟩ := et_commit_facts ok t hc
  have hpg := et_commit_pages cf
  have hint : ∀ p, p ∈ (runTxnO (e.f, e.live) t.t).1.walPages ∨ p ∈ (runTxnO (e.f, e.live) t.t).1.alloc.freelistPages →
      p < (runTxnO (e.f, e.live) t.t).1.alloc.mta.endMarker := by
    intro p hp
    exact inUse_lt_mEnd (cf.inv'.intOk p ((mem_internal _ p).mpr (Or.inr hp))).1
  rw [engNext_of_commits e t hc]
  refine ⟨⟨cf.inv', by show 1 - e.slot ≤ 1; omega, ?_, ?_, ?_, ?_⟩, cf.tk.txid, rfl⟩
  · intro id hid
    exact (List.mem_filter.mp hid).1
  · intro id hid
    exact eq_of_beq (List.mem_filter.mp hid).2
  · intro p hp
    show tracePages (engTrace e t) e.pages p = _
    rw [hpg, truncT_pages _ _ _ _ (hint p (Or.inl hp))]
    exact cf.wal p hp
  · intro p hp
    show tracePages (engTrace e t) e.pages p = _
    rw [hpg, truncT_pages _ _ _ _ (hint p (Or.inr hp))]
    exact cf.fl p hp

/-- the physical page of an owned page is neither a mapping page nor a free-list page -/
theorem physOf_not_internal {f : FileSt} {live : List Nat} (he : EngInvU f live) (id : Nat) (hid : id ∈ live) :
    f.physOf id ∉ f.walPages ∧ f.physOf id ∉ f.alloc.freelistPages := by
  have hnd := he.intNodup
  unfold FileSt.internal at hnd
  rw [List.nodup_append, List.nodup_append] at hnd
  obtain ⟨⟨-, -, hvw⟩, -, hvf⟩ := hnd
  cases hg : Assoc.get? f.walMap id with
  | none =>
    rw [physOf_none f id hg]
    constructor
    · intro hc; exact (he.intOk id ((mem_internal f id).mpr (Or.inr (Or.inl hc)))).2 hid
    · intro hc; exact (he.intOk id ((mem_internal f id).mpr (Or.inr (Or.inr hc)))).2 hid
  | some w =>
    rw [physOf_some f id w hg]
    have hv : w ∈ f.walMap.map (·.2) := List.mem_map.mpr ⟨(id, w), Assoc.mem_of_get? _ _ _ hg, rfl⟩
    constructor
    · intro hc; exact hvw w hv w hc rfl
    · intro hc; exact hvf w (List.mem_append_left _ hv) w hc rfl

/-- **the defined pages are complete**: after a committing transaction, every owned page that was defined
    before, and every owned page the transaction wrote (it is dirty after the final flush), is a defined
    page of the new committed state - its physical page holds its content when the header is written -/
theorem engNext_dfn_complete {e : EngCS} (ok : EngOk e) (t : TxnE) (hc : t.t.commits (e.f, e.live)) (id : Nat)
    (hid : id ∈ (engNext e t).live) (hcase : id ∈ e.dfn ∨ TxnDirty (e.f, e.live) t.t id) :
    id ∈ (engNext e t).dfn := by
  obtain ⟨W, cf⟩ := et_commit_facts ok t hc
  have hpg := et_commit_pages cf
  rw [engNext_of_commits e t hc] at hid ⊢
  simp only at hid ⊢
  rw [List.mem_filter]
  refine ⟨hid, ?_⟩
  have h1 := cf.insync id hid hcase
  obtain ⟨n1, n2⟩ := physOf_not_internal cf.inv' id hid
  have hlt := inUse_lt_mEnd (U.eng_phys _ _ cf.inv' id hid).1
  rw [hpg, truncT_pages _ _ _ _ hlt, tracePages_append, tracePages_append, tracePages_other, tracePages_other]
  · unfold InSync at h1
    rw [h1]
    simp [FileSt.readPage]
  · intro op hop
    unfold etWalW at hop
    split at hop
    · obtain ⟨x, hx, rfl⟩ := List.mem_map.mp hop
      simp only [opHits]
      intro e1; exact n1 (e1 ▸ hx)
    · cases hop
  · intro op hop
    unfold etFlW at hop
    split at hop
    · obtain ⟨x, hx, rfl⟩ := List.mem_map.mp hop
      simp only [opHits]
      intro e1; exact n2 (e1 ▸ hx)
    · cases hop

/-- `EngOk` along one transaction, whatever its outcome -/
theorem engOk_next {e : EngCS} (ok : EngOk e) (t : TxnE) : EngOk (engNext e t) := by
  by_cases hc : t.t.commits (e.f, e.live)
  · exact (engOk_next_commit ok t hc).1
  · exact (engOk_next_abort ok t hc).1

/-! ### acceptance -/

theorem intactB_of (reachOf : Nat → List (Nat × Hash)) (pages : Nat → Option Hash) (st : Nat)
    (h : ∀ p hh, (p, hh) ∈ reachOf st → pages p = some hh) : intactB reachOf pages st = true := by
  unfold intactB
  rw [List.all_eq_true]
  rintro ⟨p, hh⟩ hm
  simp [h p hh hm]

/-- sync, header, sync from a configuration with nothing in flight: accepted if the header goes to the
    inactive slot with the next transaction id and names a state whose pages are all on file -/
theorem run_shs (reachOf : Nat → List (Nat × Hash)) (c : Cfg) (hi : c.inflight = none) (s T : Nat)
    (hs : s = 1 - c.aSlot) (hT : T = c.aTx + 1)
    (hint : ∀ p h, (p, h) ∈ reachOf T → c.flat.pages p = some h) :
    c.run reachOf [TOp.sync, TOp.hdr s T T, TOp.sync] =
      some { durable := applyOp c.flat (TOp.hdr s T T), pending := [], aSlot := 1 - c.aSlot, aTx := c.aTx + 1,
             aSt := T, inflight := none } := by
  have hib := intactB_of reachOf c.flat.pages T hint
  unfold Cfg.flat at hib
  subst hs hT
  simp [Cfg.run, Cfg.step, hi, hib, Cfg.flat]

/-- a whole commit: clear writes, sync, header, sync, clear operations (the closing truncate) -/
theorem run_commit (reachOf : Nat → List (Nat × Hash)) (c : Cfg) (hi : c.inflight = none) (Wall : List TOp)
    (hcl : ∀ op ∈ Wall, ClearOf (reachOf c.aSt) op) (s T : Nat) (hs : s = 1 - c.aSlot) (hT : T = c.aTx + 1)
    (hint : ∀ p h, (p, h) ∈ reachOf T → tracePages Wall c.flat.pages p = some h)
    (tr3 : List TOp) (hcl3 : ∀ op ∈ tr3, ClearOf (reachOf T) op) :
    ∃ c', c.run reachOf (Wall ++ [TOp.sync, TOp.hdr s T T, TOp.sync] ++ tr3) = some c' ∧
      c'.inflight = none ∧ c'.aSlot = 1 - c.aSlot ∧ c'.aTx = c.aTx + 1 ∧ c'.aSt = T ∧ c'.pending = tr3 := by
  have r1 := run_clear reachOf Wall c hi hcl
  have hflat : (Cfg.flat { c with pending := c.pending ++ Wall }).pages = tracePages Wall c.flat.pages := by
    rw [run_flat reachOf _ c _ r1, foldl_applyOp_pages_eq]
  have r2 := run_shs reachOf { c with pending := c.pending ++ Wall } hi s T hs hT (by
    intro p h hm; rw [hflat]; exact hint p h hm)
  have r3 := run_clear reachOf tr3
    { durable := applyOp (Cfg.flat { c with pending := c.pending ++ Wall }) (TOp.hdr s T T), pending := [],
      aSlot := 1 - c.aSlot, aTx := c.aTx + 1, aSt := T, inflight := none } rfl hcl3
  exact ⟨_, cfgRun_append_some reachOf _ _ _ _ _ (cfgRun_append_some reachOf _ _ _ _ _ r1 r2) r3, rfl, rfl, rfl, rfl,
    by simp⟩

/-- a configuration of the acceptor represents the committed state `e`: nothing in flight, the active
    header is that of `e`, and the file holds - once everything pending is applied - the pages of `e` -/
structure EngRep (e : EngCS) (c : Cfg) : Prop where
  infl : c.inflight = none
  slot : c.aSlot = e.slot
  tx : c.aTx = e.f.txid
  st : c.aSt = e.f.txid
  pages : ∀ p, c.flat.pages p = e.pages p
  /-- everything still pending (writes and truncates of transactions that did not commit, a closing truncate)
      is clear of the committed state -/
  quiet : ∀ op ∈ c.pending, ClearOf (engReach e) op

theorem engRep_cfg (e : EngCS) : EngRep e e.cfg := ⟨rfl, rfl, rfl, rfl, fun _ => rfl, fun _ h => nomatch h⟩

theorem engNext_pages (e : EngCS) (t : TxnE) : (engNext e t).pages = tracePages (engTrace e t) e.pages := by
  unfold engNext
  dsimp only
  split <;> rfl

/-- whatever configuration an accepted run of the transaction's trace ends in, its file content is that of
    the next committed state -/
theorem engRep_pages_step (reachOf : Nat → List (Nat × Hash)) {e : EngCS} {c c' : Cfg} (rep : EngRep e c)
    (t : TxnE) (hrun : c.run reachOf (engTrace e t) = some c') : ∀ p, c'.flat.pages p = (engNext e t).pages p := by
  intro p
  rw [run_flat reachOf _ c c' hrun, foldl_applyOp_pages_eq, engNext_pages]
  exact tracePages_congr _ _ _ rep.pages p

/-- **one transaction**: from a configuration that represents the committed state `e`, the trace of any
    transaction is accepted and ends in a configuration that represents the next committed state -/
theorem et_txn_accepted (reachOf : Nat → List (Nat × Hash)) {e : EngCS} (ok : EngOk e) (c : Cfg)
    (rep : EngRep e c) (t : TxnE) (h0 : reachOf e.f.txid = engReach e)
    (h1 : reachOf (engNext e t).f.txid = engReach (engNext e t)) :
    ∃ c', c.run reachOf (engTrace e t) = some c' ∧ EngRep (engNext e t) c' := by
  by_cases hc : t.t.commits (e.f, e.live)
  · -- the transaction commits
    obtain ⟨W, cf⟩ := et_commit_facts ok t hc
    obtain ⟨ok', htx, hsl⟩ := engOk_next_commit ok t hc
    have hFtx : (runTxnO (e.f, e.live) t.t).1.txid = (engNext e t).f.txid := by
      rw [engNext_of_commits e t hc]
    have hFal : (runTxnO (e.f, e.live) t.t).1 = (engNext e t).f := by
      rw [engNext_of_commits e t hc]
    have hpg := et_commit_pages cf
    obtain ⟨c', hrun, i1, i2, i3, i4, i5⟩ := run_commit reachOf c rep.infl
      (W ++ etWalW (txnFlags (e.f, e.live) t.t) (runTxnO (e.f, e.live) t.t).1 ++
        etFlW (txnFlags (e.f, e.live) t.t) (runTxnO (e.f, e.live) t.t).1)
      (by rw [rep.st, h0]; exact etAllFree_clear ok _ cf.free)
      (1 - e.slot) (runTxnO (e.f, e.live) t.t).1.txid (by rw [← rep.slot]) (by rw [rep.tx]; exact cf.tk.txid)
      (by
        intro p h hm
        rw [hFtx, h1] at hm
        rw [tracePages_congr _ _ _ rep.pages p]
        rcases (engReach_mem _ p h).mp hm with ⟨id, hid, rfl, rfl⟩ | ⟨hq, rfl⟩ | ⟨hq, rfl⟩
        · have := ok'.data id hid
          rw [engNext_pages, hpg] at this
          rw [← hFal] at this ⊢
          exact truncT_pages_some _ _ _ _ _ this
        · rw [← hFal] at hq ⊢; exact cf.wal p hq
        · rw [← hFal] at hq
          have := cf.fl p hq
          rw [this, engNext_of_commits e t hc])
      (truncT (runTxnO (e.f, e.live) t.t).1 t.trunc)
      (by
        rw [hFtx, h1]
        apply truncT_clear
        intro p hp
        rw [hFal]
        exact inUse_lt_mEnd (engReach_inUse ok' p hp).1)
    rw [← cf.trace] at hrun
    refine ⟨c', hrun, ⟨i1, ?_, ?_, ?_, engRep_pages_step reachOf rep t hrun, ?_⟩⟩
    · rw [i2, rep.slot, hsl]
    · rw [i3, rep.tx, htx]
    · rw [i4]; exact hFtx
    · rw [i5]
      apply truncT_clear
      intro p hp
      rw [hFal]
      exact inUse_lt_mEnd (engReach_inUse ok' p hp).1
  · -- rolled back / failed
    obtain ⟨hclear, -, -, -⟩ := et_abort_facts ok t hc
    obtain ⟨-, hreach, htx, hsl⟩ := engOk_next_abort ok t hc
    have hcl : ∀ op ∈ engTrace e t, ClearOf (reachOf c.aSt) op := by rw [rep.st, h0]; exact hclear
    have hrun := run_clear reachOf _ c rep.infl hcl
    refine ⟨_, hrun, ⟨rep.infl, ?_, ?_, ?_, engRep_pages_step reachOf rep t hrun, ?_⟩⟩
    · show c.aSlot = _; rw [rep.slot, hsl]
    · show c.aTx = _; rw [rep.tx, htx]
    · show c.aSt = _; rw [rep.st, htx]
    · intro op hop
      rw [hreach]
      rcases List.mem_append.mp hop with h | h
      · exact rep.quiet op h
      · exact hclear op h

end TxVerif.LT
