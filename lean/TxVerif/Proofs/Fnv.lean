import TxVerif.Model.Meta
namespace TxVerif

/-- multiplicative inverse of the FNV prime modulo 2^32 -/
def fnvPrimeInv : BitVec 32 := 899433627#32

theorem fnvPrime_inv : fnvPrime * fnvPrimeInv = 1#32 := by decide

theorem mul_fnvPrime_inj (a b : BitVec 32) (h : a * fnvPrime = b * fnvPrime) : a = b := by
  have h2 : a * fnvPrime * fnvPrimeInv = b * fnvPrime * fnvPrimeInv := by rw [h]
  simpa [BitVec.mul_assoc, fnvPrime_inv] using h2

theorem xor_left_cancel32 (a b c : BitVec 32) (h : a ^^^ c = b ^^^ c) : a = b := by
  have : (a ^^^ c) ^^^ c = (b ^^^ c) ^^^ c := by rw [h]
  simpa [BitVec.xor_assoc] using this

theorem xor_right_cancel32 (a b c : BitVec 32) (h : c ^^^ a = c ^^^ b) : a = b := by
  have : c ^^^ (c ^^^ a) = c ^^^ (c ^^^ b) := by rw [h]
  simpa [← BitVec.xor_assoc] using this

theorem fnvStep_inj_h (h1 h2 : BitVec 32) (b : UInt8) (h : fnvStep h1 b = fnvStep h2 b) : h1 = h2 := by
  unfold fnvStep at h
  exact xor_left_cancel32 _ _ _ (mul_fnvPrime_inj _ _ h)

theorem zeroExtend8_inj (a b : BitVec 8) (h : BitVec.zeroExtend 32 a = BitVec.zeroExtend 32 b) : a = b := by
  bv_omega

theorem fnvStep_inj_b (h : BitVec 32) (b1 b2 : UInt8) (e : fnvStep h b1 = fnvStep h b2) : b1 = b2 := by
  unfold fnvStep at e
  have := xor_right_cancel32 _ _ _ (mul_fnvPrime_inj _ _ e)
  have := zeroExtend8_inj _ _ this
  exact UInt8.toBitVec_inj.mp this

theorem fnv1aFrom_inj_h (bs : Bytes) : ∀ (h1 h2 : BitVec 32), fnv1aFrom h1 bs = fnv1aFrom h2 bs → h1 = h2 := by
  induction bs with
  | nil => intro h1 h2 h; simpa [fnv1aFrom] using h
  | cons b bs ih =>
    intro h1 h2 h
    simp only [fnv1aFrom, List.foldl_cons] at h
    exact fnvStep_inj_h _ _ _ (ih _ _ h)

theorem fnv1aFrom_append (h : BitVec 32) (a b : Bytes) :
    fnv1aFrom h (a ++ b) = fnv1aFrom (fnv1aFrom h a) b := by
  simp [fnv1aFrom, List.foldl_append]

/-- changing exactly one byte of the input changes the FNV-1a hash -/
theorem fnv1a_single_change (pre suf : Bytes) (x y : UInt8) (hxy : x ≠ y) :
    fnv1a (pre ++ x :: suf) ≠ fnv1a (pre ++ y :: suf) := by
  intro h
  unfold fnv1a at h
  rw [fnv1aFrom_append, fnv1aFrom_append] at h
  simp only [fnv1aFrom, List.foldl_cons] at h
  have := fnv1aFrom_inj_h suf _ _ h
  exact hxy (fnvStep_inj_b _ _ _ this)

end TxVerif
