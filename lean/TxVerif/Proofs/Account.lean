/-
  Helper lemmas for C11 (space accounting over whole transactions and histories)
  and C14 (releasing pages above a lowered limit).
-/
import TxVerif.Proofs.Rollback
import TxVerif.Proofs.AllocFresh
namespace TxVerif

/-! ### `topRunLen` / `releaseOverflow` -/

/-- the descending list `d` starts with exactly `e-1, e-2, …, e-k` (k = `topRunLen d lo e`), all of them
    `≥ lo`, and the next element (if any) does not continue the run -/
theorem topRunLen_decomp (d : List Nat) (lo e : Nat) :
    ∃ rest, d = (idRange (e - topRunLen d lo e) (topRunLen d lo e)).reverse ++ rest ∧
      topRunLen d lo e ≤ e ∧ (0 < topRunLen d lo e → lo ≤ e - topRunLen d lo e) ∧
      (∀ y ys, rest = y :: ys → ¬ (y + 1 = e - topRunLen d lo e ∧ lo ≤ y)) := by
  induction d generalizing e with
  | nil =>
    refine ⟨[], ?_, ?_, ?_, ?_⟩ <;> simp [topRunLen, idRange_zero]
  | cons x xs ih =>
    by_cases h : x + 1 = e ∧ lo ≤ x
    · have hk : topRunLen (x :: xs) lo e = topRunLen xs lo x + 1 := by
        simp only [topRunLen, h, and_self, if_true]; omega
      obtain ⟨rest, h1, h2, h3, h4⟩ := ih x
      rw [hk]
      have he : e - (topRunLen xs lo x + 1) = x - topRunLen xs lo x := by omega
      rw [he]
      refine ⟨rest, ?_, by omega, ?_, h4⟩
      · rw [idRange_succ, List.reverse_append, List.reverse_singleton, List.singleton_append,
          List.cons_append, ← h1]
        congr 1; omega
      · intro _
        by_cases hp : 0 < topRunLen xs lo x
        · exact h3 hp
        · have : topRunLen xs lo x = 0 := by omega
          rw [this]; omega
    · have hk : topRunLen (x :: xs) lo e = 0 := by
        simp only [topRunLen, h, if_false]
      rw [hk]
      refine ⟨x :: xs, by simp [idRange_zero], by omega, by omega, ?_⟩
      intro y ys hy
      injection hy with hy1 hy2
      subst hy1
      simpa using h

/-- the list splits into what `releaseOverflow` keeps and the released run `[e-k, e)` -/
theorem releaseOverflow_decomp (l : List Nat) (m e : Nat) :
    l = (releaseOverflow l m e).1 ++ idRange (e - (releaseOverflow l m e).2) (releaseOverflow l m e).2 ∧
    (releaseOverflow l m e).2 ≤ e ∧
    (0 < (releaseOverflow l m e).2 → 0 < m ∧ m ≤ e - (releaseOverflow l m e).2) ∧
    (¬ (m = 0 ∨ m ≥ e) → ∀ y ys, (releaseOverflow l m e).1 = ys ++ [y] →
      ¬ (y + 1 = e - (releaseOverflow l m e).2 ∧ m ≤ y)) := by
  unfold releaseOverflow
  by_cases h0 : m = 0 ∨ m ≥ e
  · rw [if_pos h0]
    exact ⟨by simp [idRange_zero], by omega, by omega, fun h => absurd h0 h⟩
  · rw [if_neg h0]
    dsimp only
    obtain ⟨rest, h1, h2, h3, h4⟩ := topRunLen_decomp l.reverse m e
    generalize topRunLen l.reverse m e = k at h1 h2 h3 h4 ⊢
    have hl : l = rest.reverse ++ idRange (e - k) k := by
      have := congrArg List.reverse h1
      rw [List.reverse_reverse, List.reverse_append, List.reverse_reverse] at this
      exact this
    have hlen : l.length - k = rest.reverse.length := by
      rw [hl, List.length_append, length_idRange]; omega
    have htake : l.take (l.length - k) = rest.reverse := by
      rw [hlen]; conv => lhs; rw [hl]
      exact List.take_left
    rw [htake]
    refine ⟨hl, h2, fun hp => ⟨by omega, h3 hp⟩, ?_⟩
    intro _ y ys hy
    apply h4 y ys.reverse
    have := congrArg List.reverse hy
    rw [List.reverse_reverse, List.reverse_append] at this
    exact this

theorem releaseOverflow_length (l : List Nat) (m e : Nat) :
    (releaseOverflow l m e).1.length + (releaseOverflow l m e).2 = l.length := by
  obtain ⟨h1, -, -, -⟩ := releaseOverflow_decomp l m e
  have := congrArg List.length h1
  rw [List.length_append, length_idRange] at this
  omega

theorem releaseOverflow_take (l : List Nat) (m e : Nat) :
    (releaseOverflow l m e).1 = l.take (l.length - (releaseOverflow l m e).2) := by
  obtain ⟨h1, -, -, -⟩ := releaseOverflow_decomp l m e
  generalize (releaseOverflow l m e).2 = k at *
  generalize (releaseOverflow l m e).1 = keep at *
  subst h1
  rw [List.length_append, length_idRange, Nat.add_sub_cancel]
  exact List.take_left.symm

theorem releaseOverflow_drop (l : List Nat) (m e : Nat) :
    l.drop (l.length - (releaseOverflow l m e).2) =
      idRange (e - (releaseOverflow l m e).2) (releaseOverflow l m e).2 := by
  obtain ⟨h1, -, -, -⟩ := releaseOverflow_decomp l m e
  generalize (releaseOverflow l m e).2 = k at *
  generalize (releaseOverflow l m e).1 = keep at *
  subst h1
  rw [List.length_append, length_idRange, Nat.add_sub_cancel]
  exact List.drop_left

/-- a page in use (below the end marker, not in the list) is never released -/
theorem releaseOverflow_keeps_used (l : List Nat) (m e : Nat) (id : Nat) (hid : id < e) (hn : id ∉ l) :
    id < e - (releaseOverflow l m e).2 := by
  obtain ⟨h1, h2, -, -⟩ := releaseOverflow_decomp l m e
  apply Nat.lt_of_not_le
  intro hge
  apply hn
  rw [h1, List.mem_append, mem_idRange]
  right; omega

/-- nothing more could be released -/
theorem releaseOverflow_max (l : List Nat) (m e : Nat) (hasc : Asc l) (hlt : ∀ x ∈ l, x < e)
    (hm : ¬ (m = 0 ∨ m ≥ e)) :
    e - (releaseOverflow l m e).2 - 1 ∉ l ∨ e - (releaseOverflow l m e).2 - 1 < m := by
  obtain ⟨h1, h2, h3, h4⟩ := releaseOverflow_decomp l m e
  have h4 := h4 hm
  generalize (releaseOverflow l m e).2 = k at *
  generalize (releaseOverflow l m e).1 = keep at *
  have hk1 : 1 ≤ e - k := by
    by_cases hp : 0 < k
    · have := h3 hp; omega
    · omega
  by_cases hz : e - k - 1 ∈ l
  · right
    rw [h1, List.mem_append, mem_idRange] at hz
    rcases hz with hz | hz
    · -- the last kept id is the largest kept id and lies below the released run
      rcases List.eq_nil_or_concat keep with hnil | ⟨ys, y, hy⟩
      · rw [hnil] at hz; cases hz
      · have hy' : keep = ys ++ [y] := by rw [hy]; simp
        have hmax := h4 y ys hy'
        rw [h1, hy'] at hasc
        unfold Asc at hasc
        rw [List.pairwise_append] at hasc
        obtain ⟨hk, -, hcross⟩ := hasc
        rw [List.pairwise_append] at hk
        obtain ⟨-, -, hys⟩ := hk
        have hyl : y < e - k := by
          by_cases hp : 0 < k
          · exact hcross y (by simp) (e - k) ((mem_idRange _ _ _).mpr ⟨Nat.le_refl _, by omega⟩)
          · have : y < e := hlt y (by rw [h1, hy']; simp)
            omega
        have hzy : e - k - 1 ≤ y := by
          rw [hy'] at hz
          rcases List.mem_append.mp hz with hz | hz
          · have := hys _ hz y (by simp); omega
          · simp at hz; omega
        have : y + 1 = e - k := by omega
        have : ¬ m ≤ y := fun hmy => hmax ⟨this, hmy⟩
        omega
    · omega
  · left; exact hz

/-! ### the allocator part of the commit -/

/-- the pure second half of `fileCommitAlloc`: new free lists and end markers, once the pages for the
    serialised free list have been allocated -/
def commitState (a1 : Alloc) (st1 : TxAlloc) (regs : List Nat) : AllocCommit :=
  let newData := unionIds st1.data.freed a1.data.free
  let newMeta := unionIds st1.mta.freed a1.mta.free
  let dataEnd := a1.data.endMarker
  let metaEnd := a1.mta.endMarker
  let (metaList, ovf) := releaseOverflow newMeta a1.maxPages metaEnd
  let (dataEnd1, metaEnd1) :=
    if ovf > 0 then ((if metaEnd > dataEnd then metaEnd - ovf else dataEnd), metaEnd - ovf) else (dataEnd, metaEnd)
  let (dataList, dfreed) := releaseOverflow newData a1.maxPages dataEnd1
  let dataEnd2 := dataEnd1 - dfreed
  let metaEnd2 := if dfreed > 0 ∧ metaEnd1 ≤ dataEnd1 ∧ metaEnd1 ≥ dataEnd2 then dataEnd2 else metaEnd1
  { updated := true, allocRegions := regs, dataEnd := dataEnd2, metaEnd := metaEnd2,
    metaList := metaList, dataList := dataList, overflowFreed := ovf }

theorem fileCommitAlloc_some (a : Alloc) (st : TxAlloc) (a1 : Alloc) (st1 : TxAlloc) (cs : AllocCommit)
    (h : fileCommitAlloc a st true = some (a1, st1, cs)) :
    cs = commitState a1 st1 cs.allocRegions ∧
    ((a1 = a ∧ st1 = st ∧ cs.allocRegions = []) ∨
     (∃ n, 0 < n ∧ metaAllocRegions a st n = some (a1, st1, cs.allocRegions))) := by
  unfold fileCommitAlloc at h
  simp only [Bool.not_true, Bool.false_eq_true, if_false] at h
  split at h
  · cases h
  · rename_i a1' st1' regs hr
    simp only [Option.some.injEq, Prod.mk.injEq] at h
    obtain ⟨ha, hst, hcs⟩ := h
    subst ha hst
    refine ⟨?_, ?_⟩
    · rw [← hcs]; rfl
    · split at hr
      · rename_i hn
        right
        refine ⟨_, hn, ?_⟩
        cases hm : metaAllocRegions a st
            (predictFreelistPages a.pageSize [st.data.freed, st.mta.freed, a.data.free, a.mta.free]) with
        | none => rw [hm] at hr; cases hr
        | some p =>
          rw [hm] at hr
          obtain ⟨x, y, z⟩ := p
          simp only [Option.map_some, Option.some.injEq, Prod.mk.injEq] at hr
          obtain ⟨rfl, rfl, rfl⟩ := hr
          rw [← hcs]
      · left
        simp only [Option.some.injEq, Prod.mk.injEq] at hr
        obtain ⟨rfl, rfl, rfl⟩ := hr
        rw [← hcs]
        exact ⟨rfl, rfl, rfl⟩

/-- what the commit releases from the meta free list -/
def ovfRel (a1 : Alloc) (st1 : TxAlloc) : List Nat × Nat :=
  releaseOverflow (unionIds st1.mta.freed a1.mta.free) a1.maxPages a1.mta.endMarker

/-- the data end marker after the overflow area was shrunk -/
def dataEnd1 (a1 : Alloc) (st1 : TxAlloc) : Nat :=
  if 0 < (ovfRel a1 st1).2 ∧ a1.data.endMarker < a1.mta.endMarker then a1.mta.endMarker - (ovfRel a1 st1).2
  else a1.data.endMarker

/-- what the commit releases from the data free list -/
def dataRel (a1 : Alloc) (st1 : TxAlloc) : List Nat × Nat :=
  releaseOverflow (unionIds st1.data.freed a1.data.free) a1.maxPages (dataEnd1 a1 st1)

theorem commitState_eq (a1 : Alloc) (st1 : TxAlloc) (regs : List Nat) :
    commitState a1 st1 regs =
      { updated := true, allocRegions := regs,
        dataEnd := dataEnd1 a1 st1 - (dataRel a1 st1).2,
        metaEnd := if 0 < (dataRel a1 st1).2 ∧ a1.mta.endMarker - (ovfRel a1 st1).2 ≤ dataEnd1 a1 st1 ∧
                        dataEnd1 a1 st1 - (dataRel a1 st1).2 ≤ a1.mta.endMarker - (ovfRel a1 st1).2
                   then dataEnd1 a1 st1 - (dataRel a1 st1).2 else a1.mta.endMarker - (ovfRel a1 st1).2,
        metaList := (ovfRel a1 st1).1, dataList := (dataRel a1 st1).1, overflowFreed := (ovfRel a1 st1).2 } := by
  unfold commitState dataRel dataEnd1 ovfRel
  dsimp only
  generalize releaseOverflow (unionIds st1.mta.freed a1.mta.free) a1.maxPages a1.mta.endMarker = rm
  obtain ⟨ml, ovf⟩ := rm
  dsimp only
  by_cases h0 : 0 < ovf
  · simp only [gt_iff_lt, h0, if_true, true_and, ge_iff_le]
  · have : ovf = 0 := by omega
    subst this
    simp only [gt_iff_lt, Nat.lt_irrefl, if_false, false_and, ge_iff_le, Nat.sub_zero]

theorem releaseOverflow_first (l : List Nat) (m e : Nat) (hp : 0 < (releaseOverflow l m e).2) :
    e - (releaseOverflow l m e).2 ∈ l ∧ m ≤ e - (releaseOverflow l m e).2 ∧ (releaseOverflow l m e).2 ≤ e := by
  obtain ⟨h1, h2, h3, -⟩ := releaseOverflow_decomp l m e
  refine ⟨?_, (h3 hp).2, h2⟩
  generalize (releaseOverflow l m e).2 = k at *
  generalize (releaseOverflow l m e).1 = keep at *
  subst h1
  rw [List.mem_append, mem_idRange]
  right; omega

/-- no page in use (in neither free list) is cut off by the new data end marker -/
theorem commitState_keeps_data (a1 : Alloc) (st1 : TxAlloc) (regs : List Nat) (id : Nat)
    (hid : id < a1.data.endMarker) (hnd : id ∉ unionIds st1.data.freed a1.data.free)
    (hnm : id ∉ unionIds st1.mta.freed a1.mta.free) : id < (commitState a1 st1 regs).dataEnd := by
  rw [commitState_eq]
  show id < dataEnd1 a1 st1 - (dataRel a1 st1).2
  have h1 : id < dataEnd1 a1 st1 := by
    unfold dataEnd1
    split
    · rename_i hc
      exact releaseOverflow_keeps_used _ _ _ id (by omega) hnm
    · exact hid
  exact releaseOverflow_keeps_used _ _ _ id h1 hnd

/-- the data end marker is not lowered by the release of overflow pages if the meta pages beyond
    the limit lie beyond the data area -/
theorem dataEnd1_ge (a1 : Alloc) (st1 : TxAlloc)
    (hsep : ∀ x ∈ unionIds st1.mta.freed a1.mta.free, a1.maxPages ≤ x → a1.data.endMarker ≤ x) :
    a1.data.endMarker ≤ dataEnd1 a1 st1 := by
  unfold dataEnd1
  split
  · rename_i hc
    obtain ⟨h1, h2, -⟩ := releaseOverflow_first _ _ _ hc.1
    exact hsep _ h1 h2
  · exact Nat.le_refl _

theorem commitState_keeps_data' (a1 : Alloc) (st1 : TxAlloc) (regs : List Nat) (id : Nat)
    (hsep : ∀ x ∈ unionIds st1.mta.freed a1.mta.free, a1.maxPages ≤ x → a1.data.endMarker ≤ x)
    (hid : id < a1.data.endMarker) (hnd : id ∉ unionIds st1.data.freed a1.data.free) :
    id < (commitState a1 st1 regs).dataEnd := by
  rw [commitState_eq]
  show id < dataEnd1 a1 st1 - (dataRel a1 st1).2
  have h1 : id < dataEnd1 a1 st1 := by have := dataEnd1_ge a1 st1 hsep; omega
  exact releaseOverflow_keeps_used _ _ _ id h1 hnd

/-- no page in use is cut off by the new meta end marker: the meta end marker follows the data end
    marker only if it does not lie beyond the old end of the data area -/
theorem commitState_keeps_meta (a1 : Alloc) (st1 : TxAlloc) (regs : List Nat) (id : Nat)
    (hid : id < a1.mta.endMarker) (hnd : id ∉ unionIds st1.data.freed a1.data.free)
    (hnm : id ∉ unionIds st1.mta.freed a1.mta.free) : id < (commitState a1 st1 regs).metaEnd := by
  rw [commitState_eq]
  dsimp only
  have h0 : id < a1.mta.endMarker - (ovfRel a1 st1).2 := releaseOverflow_keeps_used _ _ _ id hid hnm
  split
  · rename_i hc
    exact releaseOverflow_keeps_used _ _ _ id (by omega) hnd
  · exact h0

/-- the new end markers never grow beyond the larger of the old ones, and the new meta end marker is
    either the shrunk meta end marker or the new data end marker -/
theorem commitState_ends (a1 : Alloc) (st1 : TxAlloc) (regs : List Nat) :
    (commitState a1 st1 regs).metaEnd ≤ a1.mta.endMarker ∧
    (commitState a1 st1 regs).dataEnd ≤ max a1.data.endMarker a1.mta.endMarker := by
  rw [commitState_eq]
  dsimp only
  refine ⟨?_, ?_⟩
  · split <;> omega
  · have : dataEnd1 a1 st1 ≤ max a1.data.endMarker a1.mta.endMarker := by
      unfold dataEnd1; split <;> omega
    omega

/-! ### `absorbOverflow` -/

/-- if the data area may grow, after `absorbOverflow` its end marker lies behind every meta page -/
theorem absorb_meta_below (a : Alloc) (M : List Nat) (hm : ∀ x ∈ a.mta.free ++ M, x < a.mta.endMarker)
    (hg : a.maxPages = 0 ∨ a.data.endMarker < a.maxPages) :
    ∀ x ∈ a.mta.free ++ M, x < a.absorbOverflow.data.endMarker := by
  intro x hx
  have := hm x hx
  unfold Alloc.absorbOverflow
  split
  · exact this
  · rename_i hc
    have : ¬ a.data.endMarker < a.mta.endMarker := fun h => hc ⟨h, hg⟩
    omega

theorem absorb_growth (a : Alloc)
    (hg : a.absorbOverflow.maxPages = 0 ∨ a.absorbOverflow.data.endMarker < a.absorbOverflow.maxPages) :
    a.maxPages = 0 ∨ a.data.endMarker < a.maxPages := by
  unfold Alloc.absorbOverflow at hg
  split at hg
  · rename_i hc; exact hc.2
  · exact hg

theorem absorb_data (a : Alloc) :
    a.absorbOverflow.data.free = a.data.free ∧ a.absorbOverflow.mta = a.mta ∧
    a.absorbOverflow.maxPages = a.maxPages ∧ a.data.endMarker ≤ a.absorbOverflow.data.endMarker := by
  unfold Alloc.absorbOverflow
  split
  · rename_i h; exact ⟨rfl, rfl, rfl, by dsimp only; omega⟩
  · exact ⟨rfl, rfl, rfl, Nat.le_refl _⟩

/-- pages handed out after `absorbOverflow` come from the data free list or are fresh: beyond the
    end marker, in neither free list and not a meta page in use -/
theorem absorb_alloc (a : Alloc) (M : List Nat) (st : TxAlloc) (n : Nat) (a' : Alloc) (st' : TxAlloc) (ids : List Nat)
    (hm : ∀ x ∈ a.mta.free ++ M, x < a.mta.endMarker) (hd : ∀ x ∈ a.data.free, x < a.data.endMarker)
    (h : dataAllocRegions a.absorbOverflow st n = some (a', st', ids)) :
    ∀ x ∈ ids, x ∈ a.data.free ∨
      (a.absorbOverflow.data.endMarker ≤ x ∧ x ∉ a.data.free ∧ x ∉ a.mta.free ++ M) := by
  obtain ⟨k, rest, -, -, -, hlim, -, hids, -⟩ := dataAllocRegions_spec a.absorbOverflow st n a' st' ids h
  obtain ⟨e1, -, e3, e4⟩ := absorb_data a
  intro x hx
  rw [hids, List.mem_append, mem_idRange, e1] at hx
  rcases hx with hx | hx
  · exact Or.inl (List.mem_of_mem_take hx)
  · right
    have hg : a.absorbOverflow.maxPages = 0 ∨ a.absorbOverflow.data.endMarker < a.absorbOverflow.maxPages := by
      omega
    have hbelow := absorb_meta_below a M hm (absorb_growth a hg)
    refine ⟨hx.1, ?_, ?_⟩
    · intro hf; have := hd x hf; omega
    · intro hf; have := hbelow x hf; omega

/-! ### counting -/

theorem length_removeIds (l t : List Nat) (hl : l.Nodup) (ht : t.Nodup) (hsub : ∀ x ∈ t, x ∈ l) :
    (removeIds l t).length + t.length = l.length := by
  unfold removeIds
  induction t generalizing l with
  | nil => simp
  | cons x t ih =>
    rw [List.nodup_cons] at ht
    have hx : x ∈ l := hsub x List.mem_cons_self
    have h1 := ih (l.erase x) (hl.erase x) ht.2 (by
      intro y hy
      rw [hl.mem_erase_iff]
      exact ⟨fun e => ht.1 (e ▸ hy), hsub y (List.mem_cons_of_mem _ hy)⟩)
    rw [List.length_erase_of_mem hx, hl.erase_eq_filter, List.filter_filter] at h1
    have h2 : List.filter (fun a => (!t.contains a) && (a != x)) l = List.filter (fun y => !(x :: t).contains y) l := by
      apply List.filter_congr
      intro y _
      simp only [List.contains_eq_mem, List.mem_cons]
      by_cases hyx : y = x <;> by_cases hyt : y ∈ t <;> simp [hyx, hyt]
    rw [h2] at h1
    have : 0 < l.length := List.length_pos_of_mem hx
    simp only [List.length_cons]
    omega

theorem removeRange_eq_removeIds (l : List Nat) (lo hi : Nat) :
    removeRange l lo hi = removeIds l (idRange lo (hi - lo)) := by
  unfold removeRange removeIds
  apply List.filter_congr
  intro x _
  have := mem_idRange lo (hi - lo) x
  by_cases h : lo ≤ x ∧ x < hi
  · have h' : x ∈ idRange lo (hi - lo) := this.mpr ⟨h.1, by omega⟩
    simp [h.1, h.2, h']
  · have h' : x ∉ idRange lo (hi - lo) := fun hm => h ⟨(this.mp hm).1, by have := this.mp hm; omega⟩
    simp only [List.contains_eq_mem, h', decide_false, Bool.not_false, Bool.not_eq_true', Bool.and_eq_false_iff,
      decide_eq_false_iff_not]
    omega

theorem length_removeRange (l : List Nat) (lo hi : Nat) (hl : Asc l) (hle : lo ≤ hi)
    (hsub : ∀ x, lo ≤ x → x < hi → x ∈ l) : (removeRange l lo hi).length + (hi - lo) = l.length := by
  rw [removeRange_eq_removeIds]
  have := length_removeIds l (idRange lo (hi - lo)) (asc_nodup _ hl) (asc_nodup _ (asc_idRange _ _)) (by
    intro x hx
    rw [mem_idRange] at hx
    exact hsub x hx.1 (by omega))
  rw [length_idRange] at this
  exact this

theorem allocContinuous_length (free : List Nat) (n : Nat) (h : Asc free) (taken rest : List Nat)
    (hr : allocContinuous free n = some (taken, rest)) :
    rest.length + taken.length = free.length ∧ taken.Nodup ∧ taken.length = n := by
  obtain ⟨⟨s, hs⟩, hsub, hrest, hasc⟩ := allocContinuous_spec free n h taken rest hr
  have hnd : taken.Nodup := by rw [hs]; exact asc_nodup _ (asc_idRange _ _)
  have : rest = removeIds free taken := by
    apply asc_ext _ _ hasc (asc_removeIds _ _ h)
    intro y; rw [hrest, mem_removeIds]
  rw [this]
  exact ⟨length_removeIds free taken (asc_nodup _ h) hnd hsub, hnd, by rw [hs, length_idRange]⟩

theorem ascB_of_asc : ∀ l : List Nat, Asc l → ascB l = true
  | [], _ => rfl
  | [_], _ => rfl
  | x :: y :: r, h => by
    rw [asc_cons] at h
    simp only [ascB, Bool.and_eq_true, decide_eq_true_eq]
    exact ⟨h.1 y List.mem_cons_self, ascB_of_asc (y :: r) h.2⟩

/-! ### the accounting invariant inside a transaction -/

/-- the accounting invariant inside a transaction of a bounded file that does not use the overflow
    area. `L`: the data pages owned by the user (live pages of the committed state and pages
    allocated by the transaction, pages freed by the transaction stay in `L` until the commit unless
    they were allocated freshly by it); `M`: the pages of the meta area in use. -/
structure TInv (a : Alloc) (st : TxAlloc) (L M : List Nat) : Prop where
  acc : a.data.endMarker = 2 + a.data.free.length + L.length + a.metaTotal
  mtot : a.metaTotal = a.mta.free.length + M.length
  ascD : Asc a.data.free
  ascM : Asc a.mta.free
  ascF : Asc st.data.freed
  ascG : Asc st.mta.freed
  ndL : L.Nodup
  ndM : M.Nodup
  rD : ∀ x ∈ a.data.free, 2 ≤ x ∧ x < a.data.endMarker
  rL : ∀ x ∈ L, 2 ≤ x ∧ x < a.data.endMarker
  rMf : ∀ x ∈ a.mta.free, 2 ≤ x ∧ x < a.data.endMarker ∧ x < a.mta.endMarker
  rM : ∀ x ∈ M, 2 ≤ x ∧ x < a.data.endMarker ∧ x < a.mta.endMarker
  dD : ∀ x ∈ a.data.free, x ∉ L ∧ x ∉ a.mta.free ∧ x ∉ M
  dL : ∀ x ∈ L, x ∉ a.mta.free ∧ x ∉ M
  dM : ∀ x ∈ a.mta.free, x ∉ M
  fL : ∀ x ∈ st.data.freed, x ∈ L ∧ x ∉ st.data.new_
  gM : ∀ x ∈ st.mta.freed, x ∈ M
  mtmIn : ∀ x ∈ st.moveToMeta, x ∈ a.mta.free ∨ x ∈ M
  alIn : ∀ x ∈ st.mta.allocated, x ∈ M
  foNil : st.fromOverflow = []
  noOv : st.overflow = false
  maxPos : 0 < a.maxPages
  dLim : a.data.endMarker ≤ a.maxPages
  mLim : a.mta.endMarker ≤ a.maxPages
  m0Lim : st.mta.end0 ≤ a.maxPages
  e0 : st.data.end0 ≤ a.data.endMarker
  J : a.data.endMarker ≤ a.mta.endMarker ∨ (a.data.free = [] ∧ L = [])

/-- generic allocation step: `took` leaves the data free list, `r` pages are appended at the end -/
theorem tinv_alloc (a : Alloc) (st : TxAlloc) (L M : List Nat) (a' : Alloc) (st' : TxAlloc)
    (took ids : List Nat) (r : Nat) (h : TInv a st L M)
    (hfree : ∀ x, x ∈ a.data.free ↔ x ∈ took ∨ x ∈ a'.data.free)
    (hdisj : ∀ x ∈ took, x ∉ a'.data.free) (hasc : Asc a'.data.free)
    (hlen : a'.data.free.length + took.length = a.data.free.length)
    (hids : ∀ x, x ∈ ids ↔ x ∈ took ∨ (a.data.endMarker ≤ x ∧ x < a.data.endMarker + r))
    (hidsnd : ids.Nodup) (hidslen : ids.length = took.length + r)
    (hend : a'.data.endMarker = a.data.endMarker + r) (hlim : a.data.endMarker + r ≤ a.maxPages)
    (hmf : a'.mta.free = a.mta.free) (hme1 : a.mta.endMarker ≤ a'.mta.endMarker)
    (hme2 : a'.mta.endMarker ≤ a.maxPages)
    (hJ : a.data.endMarker ≤ a.mta.endMarker ∨ 0 < r → a'.data.endMarker ≤ a'.mta.endMarker)
    (hmax : a'.maxPages = a.maxPages) (hmt : a'.metaTotal = a.metaTotal)
    (s1 : st'.data.freed = st.data.freed) (s2 : st'.mta.freed = st.mta.freed)
    (s3 : st'.moveToMeta = st.moveToMeta) (s4 : st'.mta.allocated = st.mta.allocated)
    (s5 : st'.fromOverflow = st.fromOverflow) (s6 : st'.overflow = st.overflow)
    (s7 : st'.mta.end0 = st.mta.end0) (s8 : st'.data.end0 = st.data.end0)
    (s9 : ∀ x ∈ st'.data.new_, x ∈ ids ∨ x ∈ st.data.new_) :
    TInv a' st' (ids ++ L) M ∧ ∀ x ∈ ids, x ∉ st'.data.freed ∧ x < a'.mta.endMarker := by
  have hidsL : ∀ x ∈ ids, x ∉ L := by
    intro x hx hxl
    rcases (hids x).mp hx with h1 | h1
    · exact (h.dD x ((hfree x).mpr (Or.inl h1))).1 hxl
    · have := h.rL x hxl; omega
  have hidsR : ∀ x ∈ ids, 2 ≤ x ∧ x < a.data.endMarker + r := by
    intro x hx
    rcases (hids x).mp hx with h1 | h1
    · have := h.rD x ((hfree x).mpr (Or.inl h1)); omega
    · have := h.acc; omega
  have hidsM : ∀ x ∈ ids, x ∉ a.mta.free ∧ x ∉ M := by
    intro x hx
    rcases (hids x).mp hx with h1 | h1
    · have := h.dD x ((hfree x).mpr (Or.inl h1)); exact ⟨this.2.1, this.2.2⟩
    · exact ⟨fun hm => by have := h.rMf x hm; omega, fun hm => by have := h.rM x hm; omega⟩
  refine ⟨⟨?_, ?_, hasc, ?_, ?_, ?_, ?_, h.ndM, ?_, ?_, ?_, ?_, ?_, ?_, ?_, ?_, ?_, ?_, ?_, ?_, ?_, ?_, ?_, ?_, ?_, ?_, ?_⟩, ?_⟩
  · rw [hend, List.length_append, hidslen, hmt]; have := h.acc; omega
  · rw [hmt, hmf]; exact h.mtot
  · rw [hmf]; exact h.ascM
  · rw [s1]; exact h.ascF
  · rw [s2]; exact h.ascG
  · rw [List.nodup_append]; exact ⟨hidsnd, h.ndL, fun x hx y hy e => hidsL x hx (e ▸ hy)⟩
  · intro x hx; have := h.rD x ((hfree x).mpr (Or.inr hx)); omega
  · intro x hx
    rcases List.mem_append.mp hx with hx | hx
    · have := hidsR x hx; omega
    · have := h.rL x hx; omega
  · rw [hmf]; intro x hx; have := h.rMf x hx; omega
  · intro x hx; have := h.rM x hx; omega
  · intro x hx
    have h1 := h.dD x ((hfree x).mpr (Or.inr hx))
    have h2 := h.rD x ((hfree x).mpr (Or.inr hx))
    rw [hmf]
    refine ⟨?_, h1.2.1, h1.2.2⟩
    intro hm
    rcases List.mem_append.mp hm with hm | hm
    · rcases (hids x).mp hm with h3 | h3
      · exact hdisj x h3 hx
      · omega
    · exact h1.1 hm
  · intro x hx
    rw [hmf]
    rcases List.mem_append.mp hx with hx | hx
    · exact hidsM x hx
    · exact h.dL x hx
  · rw [hmf]; exact h.dM
  · rw [s1]; intro x hx
    have h1 := h.fL x hx
    refine ⟨List.mem_append_right _ h1.1, ?_⟩
    intro hn
    rcases s9 x hn with h2 | h2
    · exact hidsL x h2 h1.1
    · exact h1.2 h2
  · rw [s2]; exact h.gM
  · rw [s3, hmf]; exact h.mtmIn
  · rw [s4]; exact h.alIn
  · rw [s5]; exact h.foNil
  · rw [s6]; exact h.noOv
  · rw [hmax]; exact h.maxPos
  · rw [hmax, hend]; exact hlim
  · rw [hmax]; exact hme2
  · rw [hmax, s7]; exact h.m0Lim
  · rw [s8, hend]; have := h.e0; omega
  · by_cases hc : a'.data.endMarker ≤ a'.mta.endMarker
    · exact Or.inl hc
    · right
      have hr0 : r = 0 := by
        apply Nat.eq_zero_of_not_pos; intro hp; exact hc (hJ (Or.inr hp))
      rcases h.J with hj | ⟨hj1, hj2⟩
      · exact absurd (hJ (Or.inl hj)) hc
      · have htook : took = [] := by
          apply List.eq_nil_iff_forall_not_mem.mpr
          intro x hx
          have := (hfree x).mpr (Or.inl hx)
          rw [hj1] at this; cases this
        have hids0 : ids = [] := by
          apply List.eq_nil_iff_forall_not_mem.mpr
          intro x hx
          rcases (hids x).mp hx with h3 | h3
          · rw [htook] at h3; cases h3
          · omega
        refine ⟨?_, by rw [hids0, hj2]; rfl⟩
        apply List.eq_nil_iff_forall_not_mem.mpr
        intro x hx
        have := (hfree x).mpr (Or.inr hx)
        rw [hj1] at this; cases this
  · intro x hx
    rw [s1]
    refine ⟨fun hf => hidsL x hx (h.fL x hf).1, ?_⟩
    rcases (hids x).mp hx with h1 | h1
    · have hxf := (hfree x).mpr (Or.inl h1)
      rcases h.J with hj | ⟨hj1, _⟩
      · have := h.rD x hxf; omega
      · rw [hj1] at hxf; cases hxf
    · have := hJ (Or.inr (by omega)); omega

theorem tinv_regions (a : Alloc) (st : TxAlloc) (L M : List Nat) (n : Nat) (a' : Alloc) (st' : TxAlloc)
    (ids : List Nat) (h : TInv a st L M) (hr : dataAllocRegions a st n = some (a', st', ids)) :
    TInv a' st' (ids ++ L) M ∧ (∀ x ∈ ids, x ∉ st'.data.freed ∧ x < a'.mta.endMarker) ∧ ids.length = n := by
  obtain ⟨k, rest, hk, hn, hrest, hlim, -, hids, e1, e2, e3, e4, e5, -, -, e8, hst⟩ :=
    dataAllocRegions_spec a st n a' st' ids hr
  have hmp := h.maxPos
  have hlen : ids.length = n := by
    rw [hids, List.length_append, List.length_take, length_idRange]; omega
  have hnd : ids.Nodup := by
    rw [hids, List.nodup_append]
    refine ⟨asc_nodup _ (asc_take _ _ h.ascD), asc_nodup _ (asc_idRange _ _), ?_⟩
    intro x hx y hy
    rw [mem_idRange] at hy
    have := h.rD x (List.mem_of_mem_take hx)
    omega
  have := tinv_alloc a st L M a' st' (a.data.free.take k) ids rest h
    (by intro x; rw [e1]; exact mem_take_or_drop a.data.free k x)
    (by rw [e1]; exact take_drop_disjoint a.data.free k h.ascD)
    (by rw [e1]; exact asc_drop _ _ h.ascD)
    (by rw [e1, List.length_drop, List.length_take]; omega)
    (by intro x; rw [hids, List.mem_append, mem_idRange])
    hnd (by rw [hlen, List.length_take]; omega)
    e2 (by have := h.dLim; omega) e3
    (by rw [e4]; split <;> omega)
    (by rw [e4]; have := h.mLim; have := h.dLim; split <;> omega)
    (by rw [e4, e2]; intro hc; split <;> omega)
    e5 e8 (by rw [hst]) (by rw [hst]) (by rw [hst]) (by rw [hst]) (by rw [hst]) (by rw [hst]) (by rw [hst])
    (by rw [hst])
    (by
      intro x hx
      rw [hst] at hx
      dsimp only at hx
      rw [mem_unionIds] at hx
      rcases hx with hx | hx
      · left; rw [hids]; exact List.mem_append_right _ hx
      · exact Or.inr hx)
  exact ⟨this.1, this.2, hlen⟩

theorem tinv_continuous (a : Alloc) (st : TxAlloc) (L M : List Nat) (n : Nat) (a' : Alloc) (st' : TxAlloc)
    (ids : List Nat) (h : TInv a st L M) (hr : dataAllocContinuous a st n = some (a', st', ids)) :
    TInv a' st' (ids ++ L) M ∧ (∀ x ∈ ids, x ∉ st'.data.freed ∧ x < a'.mta.endMarker) := by
  unfold dataAllocContinuous at hr
  by_cases hav : a.dataAvail < n
  · rw [if_pos hav] at hr; cases hr
  · rw [if_neg hav] at hr
    cases hc : allocContinuous a.data.free n with
    | some p =>
      obtain ⟨taken, rest⟩ := p
      rw [hc] at hr
      simp only [Option.some.injEq, Prod.mk.injEq] at hr
      obtain ⟨ha, hst, hids⟩ := hr
      subst hids ha hst
      obtain ⟨-, hsub, hrest, hasc⟩ := allocContinuous_spec a.data.free n h.ascD taken rest hc
      obtain ⟨hlen, hnd, -⟩ := allocContinuous_length a.data.free n h.ascD taken rest hc
      exact tinv_alloc a st L M _ _ taken taken 0 h
        (by intro x; dsimp only; rw [hrest]
            constructor
            · intro hf
              by_cases hx : x ∈ taken
              · exact Or.inl hx
              · exact Or.inr ⟨hf, hx⟩
            · rintro (h1 | h1)
              · exact hsub x h1
              · exact h1.1)
        (by intro x hx; dsimp only; rw [hrest]; exact fun h1 => h1.2 hx)
        hasc hlen
        (by intro x; constructor
            · exact Or.inl
            · rintro (h1 | h1)
              · exact h1
              · omega)
        hnd rfl rfl (by have := h.dLim; omega) rfl (Nat.le_refl _) h.mLim
        (by intro hj; rcases hj with hj | hj
            · exact hj
            · omega)
        rfl rfl rfl rfl rfl rfl rfl rfl rfl rfl
        (by intro x hx; dsimp only at hx; rw [mem_unionIds] at hx; exact hx)
    | none =>
      simp only [hc] at hr
      by_cases hroom : a.maxPages > 0 ∧ (if a.data.endMarker < a.maxPages then a.maxPages - a.data.endMarker else 0) < n
      · rw [if_pos hroom] at hr; cases hr
      · rw [if_neg hroom] at hr
        simp only [Option.some.injEq, Prod.mk.injEq] at hr
        obtain ⟨ha, hst, hids⟩ := hr
        subst hids ha hst
        have hmp := h.maxPos
        have hdl := h.dLim
        have hml := h.mLim
        have hlim : a.data.endMarker + n ≤ a.maxPages := by
          simp only [hmp, true_and] at hroom
          split at hroom <;> omega
        exact tinv_alloc a st L M _ _ [] (idRange a.data.endMarker n) n h
          (by intro x; rw [bumpMetaEnd_data]; simp)
          (by intro x hx; cases hx)
          (by rw [bumpMetaEnd_data]; exact h.ascD)
          (by rw [bumpMetaEnd_data]; rfl)
          (by intro x; rw [mem_idRange]; simp)
          (asc_nodup _ (asc_idRange _ _)) (by rw [length_idRange]; simp)
          (by rw [bumpMetaEnd_data]) hlim
          (by rw [bumpMetaEnd_mta_free])
          (by rw [bumpMetaEnd_mta_end]; dsimp only; omega)
          (by rw [bumpMetaEnd_mta_end]; dsimp only; omega)
          (by rw [bumpMetaEnd_mta_end, bumpMetaEnd_data]; dsimp only; omega)
          (by rw [bumpMetaEnd_maxPages]) (by rw [bumpMetaEnd_metaTotal])
          rfl rfl rfl rfl rfl rfl rfl rfl
          (by intro x hx; dsimp only at hx; rw [mem_unionIds] at hx; exact hx)

/-- moving pages owned by nobody else (they were just allocated) into the meta area -/
theorem tinv_transfer (a : Alloc) (st : TxAlloc) (L M ids : List Nat) (h : TInv a st (ids ++ L) M)
    (hx : ∀ x ∈ ids, x ∉ st.data.freed ∧ x < a.mta.endMarker) :
    TInv (transferToMeta a st ids).1 (transferToMeta a st ids).2 L M := by
  have hnd := h.ndL
  rw [List.nodup_append] at hnd
  obtain ⟨hnd1, hnd2, hnd3⟩ := hnd
  have hidsMf : ∀ x ∈ ids, x ∉ a.mta.free := fun x hx => (h.dL x (List.mem_append_left _ hx)).1
  unfold transferToMeta
  refine ⟨?_, ?_, h.ascD, asc_unionIds _ _ h.ascM, h.ascF, h.ascG, hnd2, h.ndM, h.rD, ?_, ?_, h.rM, ?_, ?_, ?_, ?_,
    h.gM, ?_, h.alIn, h.foNil, h.noOv, h.maxPos, h.dLim, h.mLim, h.m0Lim, h.e0, ?_⟩
  all_goals dsimp only
  · have := h.acc; rw [List.length_append] at this; omega
  · rw [length_unionIds_of_disjoint ids a.mta.free hnd1 hidsMf]; have := h.mtot; omega
  · intro x hx; exact h.rL x (List.mem_append_right _ hx)
  · intro x hxm
    rcases (mem_unionIds _ _ _).mp hxm with h1 | h1
    · have := h.rL x (List.mem_append_left _ h1); have := (hx x h1).2; omega
    · exact h.rMf x h1
  · intro x hxf
    have h1 := h.dD x hxf
    refine ⟨fun hl => h1.1 (List.mem_append_right _ hl), ?_, h1.2.2⟩
    rw [mem_unionIds]
    rintro (h2 | h2)
    · exact h1.1 (List.mem_append_left _ h2)
    · exact h1.2.1 h2
  · intro x hxl
    have h1 := h.dL x (List.mem_append_right _ hxl)
    refine ⟨?_, h1.2⟩
    rw [mem_unionIds]
    rintro (h2 | h2)
    · exact hnd3 x h2 x hxl rfl
    · exact h1.1 h2
  · intro x hxm
    rcases (mem_unionIds _ _ _).mp hxm with h1 | h1
    · exact (h.dL x (List.mem_append_left _ h1)).2
    · exact h.dM x h1
  · intro x hxf
    have h1 := h.fL x hxf
    refine ⟨?_, h1.2⟩
    rcases List.mem_append.mp h1.1 with h2 | h2
    · exact absurd hxf (hx x h2).1
    · exact h2
  · intro x hxm
    rw [mem_unionIds]
    rcases (mem_unionIds _ _ _).mp hxm with h1 | h1
    · exact Or.inl (Or.inl h1)
    · rcases h.mtmIn x h1 with h2 | h2
      · exact Or.inl (Or.inr h2)
      · exact Or.inr h2
  · rcases h.J with hj | ⟨hj1, hj2⟩
    · exact Or.inl hj
    · right
      refine ⟨hj1, ?_⟩
      cases L with
      | nil => rfl
      | cons y ys => simp at hj2

theorem tinv_tryGrow (a : Alloc) (st : TxAlloc) (L M : List Nat) (count : Nat) (a' : Alloc) (st' : TxAlloc)
    (h : TInv a st L M) (hr : tryGrow a st count false = some (a', st')) : TInv a' st' L M := by
  unfold tryGrow at hr
  dsimp only at hr
  by_cases hc0 : count = 0
  · rw [if_pos hc0] at hr
    simp only [Option.some.injEq, Prod.mk.injEq] at hr
    obtain ⟨ha, hst⟩ := hr
    subst ha hst
    exact h
  · rw [if_neg hc0] at hr
    by_cases hav : a.dataAvail < count
    · rw [if_pos hav] at hr
      simp at hr
    · rw [if_neg hav] at hr
      cases hcont : dataAllocContinuous a st count with
      | some p =>
        obtain ⟨a1, st1, ids⟩ := p
        rw [hcont] at hr
        simp only [Option.some.injEq] at hr
        obtain ⟨h1, h2⟩ := tinv_continuous a st L M count a1 st1 ids h hcont
        have := tinv_transfer a1 st1 L M ids h1 h2
        rw [hr] at this
        exact this
      | none =>
        rw [hcont] at hr
        cases hreg : dataAllocRegions a st count with
        | none => rw [hreg] at hr; cases hr
        | some p =>
          obtain ⟨a1, st1, ids⟩ := p
          rw [hreg] at hr
          simp only [Option.some.injEq] at hr
          obtain ⟨h1, h2, -⟩ := tinv_regions a st L M count a1 st1 ids h hreg
          have := tinv_transfer a1 st1 L M ids h1 h2
          rw [hr] at this
          exact this

theorem tinv_ensureMeta (a : Alloc) (st : TxAlloc) (L M : List Nat) (n : Nat) (a' : Alloc) (st' : TxAlloc)
    (h : TInv a st L M) (hr : ensureMeta a st n = some (a', st')) : TInv a' st' L M := by
  unfold ensureMeta at hr
  dsimp only at hr
  rw [h.noOv] at hr
  split at hr
  · simp only [Option.some.injEq, Prod.mk.injEq] at hr
    obtain ⟨ha, hst⟩ := hr
    subst ha hst
    exact h
  · split at hr
    · rename_i r hg
      simp only [Option.some.injEq] at hr
      subst hr
      exact tinv_tryGrow a st L M _ a' st' h hg
    · exact tinv_tryGrow a st L M _ a' st' h hr

/-- pages leave the meta free list and are in use afterwards -/
theorem tinv_metaTake (a : Alloc) (st : TxAlloc) (L M ids rest : List Nat) (h : TInv a st L M)
    (hasc : Asc rest) (hmem : ∀ x, x ∈ a.mta.free ↔ x ∈ ids ∨ x ∈ rest) (hnd : ids.Nodup)
    (hdisj : ∀ x ∈ ids, x ∉ rest) (hlen : rest.length + ids.length = a.mta.free.length) :
    TInv { a with mta := { a.mta with free := rest } }
      { st with mta := { st.mta with allocated := unionIds ids st.mta.allocated } } L (ids ++ M) := by
  refine ⟨h.acc, ?_, h.ascD, hasc, h.ascF, h.ascG, h.ndL, ?_, h.rD, h.rL, ?_, ?_, ?_, ?_, ?_, h.fL, ?_, ?_, ?_,
    h.foNil, h.noOv, h.maxPos, h.dLim, h.mLim, h.m0Lim, h.e0, h.J⟩
  all_goals (try dsimp only)
  · rw [List.length_append]; have := h.mtot; omega
  · rw [List.nodup_append]
    exact ⟨hnd, h.ndM, fun x hx y hy e => h.dM x ((hmem x).mpr (Or.inl hx)) (e ▸ hy)⟩
  · intro x hx; exact h.rMf x ((hmem x).mpr (Or.inr hx))
  · intro x hx
    rcases List.mem_append.mp hx with hx | hx
    · exact h.rMf x ((hmem x).mpr (Or.inl hx))
    · exact h.rM x hx
  · intro x hx
    have h1 := h.dD x hx
    refine ⟨h1.1, fun hr => h1.2.1 ((hmem x).mpr (Or.inr hr)), ?_⟩
    intro hm
    rcases List.mem_append.mp hm with hm | hm
    · exact h1.2.1 ((hmem x).mpr (Or.inl hm))
    · exact h1.2.2 hm
  · intro x hx
    have h1 := h.dL x hx
    refine ⟨fun hr => h1.1 ((hmem x).mpr (Or.inr hr)), ?_⟩
    intro hm
    rcases List.mem_append.mp hm with hm | hm
    · exact h1.1 ((hmem x).mpr (Or.inl hm))
    · exact h1.2 hm
  · intro x hx hm
    rcases List.mem_append.mp hm with hm | hm
    · exact hdisj x hm hx
    · exact h.dM x ((hmem x).mpr (Or.inr hx)) hm
  · intro x hx; exact List.mem_append_right _ (h.gM x hx)
  · intro x hx
    rcases h.mtmIn x hx with h1 | h1
    · rcases (hmem x).mp h1 with h2 | h2
      · exact Or.inr (List.mem_append_left _ h2)
      · exact Or.inl h2
    · exact Or.inr (List.mem_append_right _ h1)
  · intro x hx
    rcases (mem_unionIds _ _ _).mp hx with h1 | h1
    · exact List.mem_append_left _ h1
    · exact List.mem_append_right _ (h.alIn x h1)

theorem tinv_walAlloc (a : Alloc) (st : TxAlloc) (L M : List Nat) (a' : Alloc) (st' : TxAlloc) (id : Nat)
    (h : TInv a st L M) (hr : walAlloc a st = some (a', st', id)) : TInv a' st' L (id :: M) := by
  unfold walAlloc at hr
  split at hr
  · cases hr
  · rename_i a1 st1 he
    have hi := tinv_ensureMeta a st L M 1 a1 st1 h he
    split at hr
    · rename_i id' rest hc
      simp only [Option.some.injEq, Prod.mk.injEq] at hr
      obtain ⟨ha, hst, hid⟩ := hr
      subst ha hst hid
      obtain ⟨-, hsub, hrest, hasc⟩ := allocContinuous_spec a1.mta.free 1 hi.ascM [id'] rest hc
      obtain ⟨hlen, hnd, -⟩ := allocContinuous_length a1.mta.free 1 hi.ascM [id'] rest hc
      exact tinv_metaTake a1 st1 L M [id'] rest hi hasc (by
        intro x
        have h1 := hrest x
        have h2 := hsub x
        grind) hnd (by intro x hx; rw [hrest]; exact fun h1 => h1.2 hx) hlen
    · cases hr

theorem tinv_metaAllocRegions (a : Alloc) (st : TxAlloc) (L M : List Nat) (n : Nat) (a' : Alloc) (st' : TxAlloc)
    (ids : List Nat) (h : TInv a st L M) (hr : metaAllocRegions a st n = some (a', st', ids)) :
    TInv a' st' L (ids ++ M) := by
  unfold metaAllocRegions at hr
  split at hr
  · cases hr
  · rename_i a1 st1 he
    have hi := tinv_ensureMeta a st L M n a1 st1 h he
    dsimp only at hr
    split at hr
    · cases hr
    · simp only [Option.some.injEq, Prod.mk.injEq] at hr
      obtain ⟨ha, hst, hids⟩ := hr
      subst ha hst hids
      apply tinv_metaTake a1 st1 L M _ _ hi (asc_take _ _ hi.ascM)
      · intro x
        have := mem_take_or_drop a1.mta.free (a1.mta.free.length - min n a1.mta.free.length) x
        grind
      · exact asc_nodup _ (asc_drop _ _ hi.ascM)
      · intro x hx hx2
        exact take_drop_disjoint _ _ hi.ascM x hx2 hx
      · rw [List.length_take, List.length_drop]; omega

theorem tinv_metaFreeId (a : Alloc) (st : TxAlloc) (L M : List Nat) (id : Nat) (h : TInv a st L M)
    (hid : id ∈ M) : TInv a (metaFreeId st id) L M := by
  refine ⟨h.acc, h.mtot, h.ascD, h.ascM, h.ascF, asc_insertId _ _ h.ascG, h.ndL, h.ndM, h.rD, h.rL, h.rMf, h.rM,
    h.dD, h.dL, h.dM, h.fL, ?_, h.mtmIn, h.alIn, h.foNil, h.noOv, h.maxPos, h.dLim, h.mLim, h.m0Lim, h.e0, h.J⟩
  intro x hx
  rcases (mem_insertId _ _ _).mp hx with h1 | h1
  · exact h1 ▸ hid
  · exact h.gM x h1

/-- `TInv` only looks at some of the fields of the transaction state -/
theorem tinv_congr_st (a : Alloc) (st st' : TxAlloc) (L M : List Nat) (h : TInv a st L M)
    (s1 : st'.data.freed = st.data.freed) (s2 : st'.mta.freed = st.mta.freed)
    (s3 : st'.moveToMeta = st.moveToMeta) (s4 : st'.mta.allocated = st.mta.allocated)
    (s5 : st'.fromOverflow = st.fromOverflow) (s6 : st'.overflow = st.overflow)
    (s7 : st'.mta.end0 = st.mta.end0) (s8 : st'.data.end0 = st.data.end0)
    (s9 : st'.data.new_ = st.data.new_) : TInv a st' L M := by
  refine ⟨h.acc, h.mtot, h.ascD, h.ascM, ?_, ?_, h.ndL, h.ndM, h.rD, h.rL, h.rMf, h.rM, h.dD, h.dL, h.dM, ?_, ?_,
    ?_, ?_, ?_, ?_, h.maxPos, h.dLim, h.mLim, ?_, ?_, h.J⟩
  · rw [s1]; exact h.ascF
  · rw [s2]; exact h.ascG
  · rw [s1, s9]; exact h.fL
  · rw [s2]; exact h.gM
  · rw [s3]; exact h.mtmIn
  · rw [s4]; exact h.alIn
  · rw [s5]; exact h.foNil
  · rw [s6]; exact h.noOv
  · rw [s7]; exact h.m0Lim
  · rw [s8]; exact h.e0

/-- a page allocated by this transaction goes back to the free list immediately -/
theorem tinv_freeInsert (a : Alloc) (st : TxAlloc) (L M : List Nat) (id : Nat) (h : TInv a st L M)
    (hid : id ∈ L) (hnew : id ∈ st.data.new_) :
    TInv { a with data := { a.data with free := insertId id a.data.free } } st (L.erase id) M := by
  have hnf : id ∉ a.data.free := fun hf => (h.dD id hf).1 hid
  have hlen : 0 < L.length := List.length_pos_of_mem hid
  refine ⟨?_, h.mtot, asc_insertId _ _ h.ascD, h.ascM, h.ascF, h.ascG, h.ndL.erase id, h.ndM, ?_, ?_, h.rMf, h.rM,
    ?_, ?_, h.dM, ?_, h.gM, h.mtmIn, h.alIn, h.foNil, h.noOv, h.maxPos, h.dLim, h.mLim, h.m0Lim, h.e0, ?_⟩
  all_goals (try dsimp only)
  · rw [length_insertId_of_not_mem id _ hnf, List.length_erase_of_mem hid]; have := h.acc; omega
  · intro x hx
    rcases (mem_insertId _ _ _).mp hx with h1 | h1
    · rw [h1]; exact h.rL id hid
    · exact h.rD x h1
  · intro x hx; exact h.rL x (List.mem_of_mem_erase hx)
  · intro x hx
    rcases (mem_insertId _ _ _).mp hx with h1 | h1
    · subst h1
      have := h.dL x hid
      refine ⟨?_, this.1, this.2⟩
      rw [h.ndL.mem_erase_iff]; exact fun hh => hh.1 rfl
    · have := h.dD x h1
      exact ⟨fun hh => this.1 (List.mem_of_mem_erase hh), this.2.1, this.2.2⟩
  · intro x hx; exact h.dL x (List.mem_of_mem_erase hx)
  · intro x hx
    have h1 := h.fL x hx
    refine ⟨?_, h1.2⟩
    rw [h.ndL.mem_erase_iff]
    exact ⟨fun e => h1.2 (e ▸ hnew), h1.1⟩
  · rcases h.J with hj | ⟨_, hj2⟩
    · exact Or.inl hj
    · rw [hj2] at hid; cases hid

/-- the free pages at the end of the file are given back: the end marker moves down -/
theorem tinv_shrink (a : Alloc) (st : TxAlloc) (L M : List Nat) (s c : Nat) (h : TInv a st L M)
    (hl : lastRun a.data.free = some (s, c)) (he : ¬ s + c < a.data.endMarker) :
    TInv
      { a with
        data := { endMarker := if st.data.end0 > s then st.data.end0 else s,
                  free := removeRange a.data.free (if st.data.end0 > s then st.data.end0 else s) (s + c) },
        mta := { a.mta with
                 endMarker := if a.mta.endMarker = a.data.endMarker then max (if st.data.end0 > s then st.data.end0 else s) st.mta.end0 else a.mta.endMarker } }
      st L M := by
  obtain ⟨hc, hrun⟩ := lastRun_spec a.data.free h.ascD s c hl
  have hlast : s + c - 1 ∈ a.data.free := hrun (s + c - 1) (by omega) (by omega)
  have hend : s + c = a.data.endMarker := by have := h.rD _ hlast; omega
  have he0 := h.e0
  generalize hstart : (if st.data.end0 > s then st.data.end0 else s) = start
  have hst1 : st.data.end0 ≤ start := by rw [← hstart]; split <;> omega
  have hst2 : s ≤ start := by rw [← hstart]; split <;> omega
  have hst3 : start ≤ s + c := by rw [← hstart]; split <;> omega
  have hin : ∀ x, start ≤ x → x < s + c → x ∈ a.data.free := fun x h1 h2 => hrun x (by omega) h2
  have hlow : ∀ x, x < a.data.endMarker → x ∉ a.data.free → x < start := by
    intro x h1 h2
    apply Nat.lt_of_not_le
    intro h3
    exact h2 (hin x h3 (by omega))
  have hm0 := h.m0Lim
  have hdl := h.dLim
  have hml := h.mLim
  refine ⟨?_, h.mtot, asc_removeRange _ _ _ h.ascD, h.ascM, h.ascF, h.ascG, h.ndL, h.ndM, ?_, ?_, ?_, ?_, ?_, h.dL,
    h.dM, h.fL, h.gM, h.mtmIn, h.alIn, h.foNil, h.noOv, h.maxPos, ?_, ?_, h.m0Lim, hst1, ?_⟩
  all_goals (try dsimp only)
  · have := length_removeRange a.data.free start (s + c) h.ascD hst3 hin
    have := h.acc
    omega
  · intro x hx
    rw [mem_removeRange] at hx
    have := h.rD x hx.1
    omega
  · intro x hx
    have h1 := h.rL x hx
    exact ⟨h1.1, hlow x h1.2 (fun hf => (h.dD x hf).1 hx)⟩
  · intro x hx
    have h1 := h.rMf x hx
    have h2 := hlow x h1.2.1 (fun hf => (h.dD x hf).2.1 hx)
    refine ⟨h1.1, h2, ?_⟩
    split <;> omega
  · intro x hx
    have h1 := h.rM x hx
    have h2 := hlow x h1.2.1 (fun hf => (h.dD x hf).2.2 hx)
    refine ⟨h1.1, h2, ?_⟩
    split <;> omega
  · intro x hx
    rw [mem_removeRange] at hx
    exact h.dD x hx.1
  · omega
  · split <;> omega
  · rcases h.J with hj | ⟨hj1, _⟩
    · left; split <;> omega
    · rw [hj1] at hlast; cases hlast

theorem tinv_dataFreeCore (a : Alloc) (st : TxAlloc) (L M : List Nat) (id : Nat) (h : TInv a st L M)
    (hid : id ∈ L) :
    TInv (dataFreeCore a st id).1 (dataFreeCore a st id).2 (if st.data.new_.contains id then L.erase id else L) M := by
  unfold dataFreeCore
  by_cases hnew : id ∈ st.data.new_
  · have hc : st.data.new_.contains id = true := by simp [hnew]
    rw [hc]
    simp only [Bool.not_true, Bool.false_eq_true, if_false, if_true]
    have hi := tinv_freeInsert a st L M id h hid hnew
    by_cases h1 : st.data.end0 ≥ id
    · rw [if_pos h1]; exact hi
    · rw [if_neg h1]
      cases hl : lastRun (insertId id a.data.free) with
      | none => exact hi
      | some p =>
        obtain ⟨s, c⟩ := p
        dsimp only
        by_cases h2 : s + c < a.data.endMarker
        · rw [if_pos h2]; exact hi
        · rw [if_neg h2]
          exact tinv_shrink _ st _ M s c hi hl h2
  · have hc : st.data.new_.contains id = false := by simp [hnew]
    rw [hc]
    simp only [Bool.not_false, if_true, Bool.false_eq_true, if_false]
    refine ⟨h.acc, h.mtot, h.ascD, h.ascM, asc_insertId _ _ h.ascF, h.ascG, h.ndL, h.ndM, h.rD, h.rL, h.rMf, h.rM,
      h.dD, h.dL, h.dM, ?_, h.gM, h.mtmIn, h.alIn, h.foNil, h.noOv, h.maxPos, h.dLim, h.mLim, h.m0Lim, h.e0, h.J⟩
    intro x hx
    rcases (mem_insertId _ _ _).mp hx with h1 | h1
    · subst h1; exact ⟨hid, hnew⟩
    · exact h.fL x h1

theorem tinv_dataFree (a : Alloc) (st : TxAlloc) (L M : List Nat) (id : Nat) (h : TInv a st L M)
    (hid : id ∈ L) :
    TInv (dataFree a st id).1 (dataFree a st id).2 (if st.data.new_.contains id then L.erase id else L) M := by
  rw [dataFree_eq]
  exact tinv_dataFreeCore a _ L M id (tinv_congr_st a st _ L M h rfl rfl rfl rfl rfl rfl rfl rfl rfl) hid

/-! ### the specification's ledger -/

/-- the discipline of the caller: a transaction only frees data pages it owns and meta pages in use -/
def AOp.owned (L M : List Nat) : AOp → Prop
  | .freeData id => id ∈ L
  | .metaFree id => id ∈ M
  | _ => True

instance (L M : List Nat) (op : AOp) : Decidable (op.owned L M) := by
  cases op <;> unfold AOp.owned <;> infer_instance

/-- the ledger `(L, M)` after an operation: allocated pages join `L`, a page allocated freshly by
    this transaction leaves `L` when it is freed (a committed page stays until the commit), pages
    handed out by the meta area join `M` -/
def AOp.ledger (s : Alloc × TxAlloc) (lg : List Nat × List Nat) : AOp → List Nat × List Nat
  | .allocData n => match dataAllocRegions s.1 s.2 n with | some (_, _, ids) => (ids ++ lg.1, lg.2) | none => lg
  | .freeData id => (if s.2.data.new_.contains id then lg.1.erase id else lg.1, lg.2)
  | .walAlloc => match TxVerif.walAlloc s.1 s.2 with | some (_, _, id) => (lg.1, id :: lg.2) | none => lg
  | .metaAlloc n => match metaAllocRegions s.1 s.2 n with | some (_, _, ids) => (lg.1, ids ++ lg.2) | none => lg
  | .metaFree _ => lg

theorem tinv_apply (s : Alloc × TxAlloc) (lg : List Nat × List Nat) (op : AOp) (h : TInv s.1 s.2 lg.1 lg.2)
    (ho : op.owned lg.1 lg.2) : TInv (op.apply s).1 (op.apply s).2 (op.ledger s lg).1 (op.ledger s lg).2 := by
  cases op with
  | allocData n =>
    simp only [AOp.apply, AOp.ledger]
    cases hr : dataAllocRegions s.1 s.2 n with
    | none => exact h
    | some p =>
      obtain ⟨a, st, ids⟩ := p
      exact (tinv_regions s.1 s.2 lg.1 lg.2 n a st ids h hr).1
  | freeData id =>
    have hid : id ∈ lg.1 := ho
    have hg : (2 ≤ id ∧ id < s.1.data.endMarker ∧ (!s.2.moveToMeta.contains id) = true ∧ (!s.1.mta.free.contains id) = true ∧
        (!s.2.mta.allocated.contains id) = true ∧ (!s.2.fromOverflow.contains id) = true) := by
      have h1 := h.rL id hid
      have h2 := h.dL id hid
      refine ⟨h1.1, h1.2, ?_, ?_, ?_, ?_⟩
      · simp only [List.contains_eq_mem, Bool.not_eq_true', decide_eq_false_iff_not]
        intro hm
        rcases h.mtmIn id hm with h3 | h3
        · exact h2.1 h3
        · exact h2.2 h3
      · simp only [List.contains_eq_mem, Bool.not_eq_true', decide_eq_false_iff_not]; exact h2.1
      · simp only [List.contains_eq_mem, Bool.not_eq_true', decide_eq_false_iff_not]
        exact fun hm => h2.2 (h.alIn id hm)
      · rw [h.foNil]; rfl
    simp only [AOp.apply, AOp.ledger]
    rw [if_pos hg]
    exact tinv_dataFree s.1 s.2 lg.1 lg.2 id h hid
  | walAlloc =>
    simp only [AOp.apply, AOp.ledger]
    cases hr : TxVerif.walAlloc s.1 s.2 with
    | none => exact h
    | some p =>
      obtain ⟨a, st, id⟩ := p
      exact tinv_walAlloc s.1 s.2 lg.1 lg.2 a st id h hr
  | metaAlloc n =>
    simp only [AOp.apply, AOp.ledger]
    cases hr : metaAllocRegions s.1 s.2 n with
    | none => exact h
    | some p =>
      obtain ⟨a, st, ids⟩ := p
      exact tinv_metaAllocRegions s.1 s.2 lg.1 lg.2 n a st ids h hr
  | metaFree id =>
    simp only [AOp.apply, AOp.ledger]
    exact tinv_metaFreeId s.1 s.2 lg.1 lg.2 id h ho


/-! ### quiescent states -/

/-- the accounting invariant between transactions of a bounded file without overflow area: the
    ledger `(L, M)` of owned data pages and meta pages in use, the two free lists are pairwise
    disjoint sets of pages of the data area, and the counts add up -/
structure Quiet (a : Alloc) (L M : List Nat) : Prop where
  acc : a.data.endMarker = 2 + a.data.free.length + L.length + a.metaTotal
  mtot : a.metaTotal = a.mta.free.length + M.length
  ascD : Asc a.data.free
  ascM : Asc a.mta.free
  ndL : L.Nodup
  ndM : M.Nodup
  rD : ∀ x ∈ a.data.free, 2 ≤ x ∧ x < a.data.endMarker
  rL : ∀ x ∈ L, 2 ≤ x ∧ x < a.data.endMarker
  rMf : ∀ x ∈ a.mta.free, 2 ≤ x ∧ x < a.data.endMarker ∧ x < a.mta.endMarker
  rM : ∀ x ∈ M, 2 ≤ x ∧ x < a.data.endMarker ∧ x < a.mta.endMarker
  dD : ∀ x ∈ a.data.free, x ∉ L ∧ x ∉ a.mta.free ∧ x ∉ M
  dL : ∀ x ∈ L, x ∉ a.mta.free ∧ x ∉ M
  dM : ∀ x ∈ a.mta.free, x ∉ M
  maxPos : 0 < a.maxPages
  dLim : a.data.endMarker ≤ a.maxPages
  mLim : a.mta.endMarker ≤ a.maxPages
  J : a.data.endMarker ≤ a.mta.endMarker ∨ (a.data.free = [] ∧ L = [])

theorem TInv.quiet {a : Alloc} {st : TxAlloc} {L M : List Nat} (h : TInv a st L M) : Quiet a L M :=
  ⟨h.acc, h.mtot, h.ascD, h.ascM, h.ndL, h.ndM, h.rD, h.rL, h.rMf, h.rM, h.dD, h.dL, h.dM, h.maxPos, h.dLim,
    h.mLim, h.J⟩

theorem Quiet.begin {a : Alloc} {L M : List Nat} (h : Quiet a L M) (pct : Nat) :
    TInv a (a.beginTx false pct) L M := by
  refine ⟨h.acc, h.mtot, h.ascD, h.ascM, asc_nil, asc_nil, h.ndL, h.ndM, h.rD, h.rL, h.rMf, h.rM, h.dD, h.dL, h.dM,
    ?_, ?_, ?_, ?_, rfl, rfl, h.maxPos, h.dLim, h.mLim, h.mLim, Nat.le_refl _, h.J⟩
  all_goals (intro x hx; cases hx)

theorem Quiet.allocWF {a : Alloc} {L M : List Nat} (h : Quiet a L M) : allocWF a = true := by
  have hmp := h.maxPos
  have hdl := h.dLim
  have hacc := h.acc
  have hmt := h.mtot
  simp only [TxVerif.allocWF, Bool.and_eq_true, List.all_eq_true, decide_eq_true_eq, Bool.or_eq_true,
    beq_iff_eq, Bool.not_eq_true', List.contains_eq_mem, decide_eq_false_iff_not]
  refine ⟨⟨⟨⟨⟨⟨⟨ascB_of_asc _ h.ascD, ascB_of_asc _ h.ascM⟩, h.rD⟩, ?_⟩, ?_⟩, by omega⟩, Or.inr hdl⟩, by omega⟩
  · intro x hx; have := h.rMf x hx; omega
  · intro x hx; exact (h.dD x hx).2.1

/-! ### the meta operations do not touch the pending data frees -/

theorem regions_freed (a : Alloc) (st : TxAlloc) (n : Nat) (a' : Alloc) (st' : TxAlloc) (ids : List Nat)
    (hr : dataAllocRegions a st n = some (a', st', ids)) : st'.data.freed = st.data.freed := by
  obtain ⟨k, rest, -, -, -, -, -, -, -, -, -, -, -, -, -, -, hst⟩ := dataAllocRegions_spec a st n a' st' ids hr
  rw [hst]

theorem continuous_freed (a : Alloc) (st : TxAlloc) (n : Nat) (a' : Alloc) (st' : TxAlloc) (ids : List Nat)
    (hr : dataAllocContinuous a st n = some (a', st', ids)) : st'.data.freed = st.data.freed := by
  unfold dataAllocContinuous at hr
  by_cases hav : a.dataAvail < n
  · rw [if_pos hav] at hr; cases hr
  · rw [if_neg hav] at hr
    cases hc : allocContinuous a.data.free n with
    | some p =>
      obtain ⟨taken, rest⟩ := p
      rw [hc] at hr
      simp only [Option.some.injEq, Prod.mk.injEq] at hr
      rw [← hr.2.1]
    | none =>
      simp only [hc] at hr
      by_cases hroom : a.maxPages > 0 ∧ (if a.data.endMarker < a.maxPages then a.maxPages - a.data.endMarker else 0) < n
      · rw [if_pos hroom] at hr; cases hr
      · rw [if_neg hroom] at hr
        simp only [Option.some.injEq, Prod.mk.injEq] at hr
        rw [← hr.2.1]

theorem tryGrow_freed (a : Alloc) (st : TxAlloc) (count : Nat) (a' : Alloc) (st' : TxAlloc)
    (hr : tryGrow a st count false = some (a', st')) : st'.data.freed = st.data.freed := by
  unfold tryGrow at hr
  dsimp only at hr
  by_cases hc0 : count = 0
  · rw [if_pos hc0] at hr
    simp only [Option.some.injEq, Prod.mk.injEq] at hr
    rw [← hr.2]
  · rw [if_neg hc0] at hr
    by_cases hav : a.dataAvail < count
    · rw [if_pos hav] at hr
      simp at hr
    · rw [if_neg hav] at hr
      cases hcont : dataAllocContinuous a st count with
      | some p =>
        obtain ⟨a1, st1, ids⟩ := p
        rw [hcont] at hr
        simp only [Option.some.injEq] at hr
        have : st' = (transferToMeta a1 st1 ids).2 := by rw [hr]
        rw [this]
        exact continuous_freed a st count a1 st1 ids hcont
      | none =>
        rw [hcont] at hr
        cases hreg : dataAllocRegions a st count with
        | none => rw [hreg] at hr; cases hr
        | some p =>
          obtain ⟨a1, st1, ids⟩ := p
          rw [hreg] at hr
          simp only [Option.some.injEq] at hr
          have : st' = (transferToMeta a1 st1 ids).2 := by rw [hr]
          rw [this]
          exact regions_freed a st count a1 st1 ids hreg

theorem ensureMeta_freed (a : Alloc) (st : TxAlloc) (n : Nat) (a' : Alloc) (st' : TxAlloc)
    (hov : st.overflow = false) (hr : ensureMeta a st n = some (a', st')) : st'.data.freed = st.data.freed := by
  unfold ensureMeta at hr
  dsimp only at hr
  rw [hov] at hr
  split at hr
  · simp only [Option.some.injEq, Prod.mk.injEq] at hr; rw [← hr.2]
  · split at hr
    · rename_i r hg
      simp only [Option.some.injEq] at hr
      subst hr
      exact tryGrow_freed a st _ a' st' hg
    · exact tryGrow_freed a st _ a' st' hr

theorem metaAllocRegions_freed (a : Alloc) (st : TxAlloc) (n : Nat) (a' : Alloc) (st' : TxAlloc) (ids : List Nat)
    (hov : st.overflow = false) (hr : metaAllocRegions a st n = some (a', st', ids)) :
    st'.data.freed = st.data.freed := by
  unfold metaAllocRegions at hr
  split at hr
  · cases hr
  · rename_i a1 st1 he
    dsimp only at hr
    split at hr
    · cases hr
    · simp only [Option.some.injEq, Prod.mk.injEq] at hr
      rw [← hr.2.1]
      exact ensureMeta_freed a st n a1 st1 hov he

/-! ### the commit of a bounded file without overflow area -/

theorem commitState_bounded (a1 : Alloc) (st1 : TxAlloc) (regs : List Nat)
    (hd : a1.data.endMarker ≤ a1.maxPages) (hm : a1.mta.endMarker ≤ a1.maxPages) :
    commitState a1 st1 regs =
      { updated := true, allocRegions := regs, dataEnd := a1.data.endMarker, metaEnd := a1.mta.endMarker,
        metaList := unionIds st1.mta.freed a1.mta.free, dataList := unionIds st1.data.freed a1.data.free,
        overflowFreed := 0 } := by
  have h1 : ovfRel a1 st1 = (unionIds st1.mta.freed a1.mta.free, 0) := by
    unfold ovfRel releaseOverflow; rw [if_pos (Or.inr hm)]
  have h2 : dataEnd1 a1 st1 = a1.data.endMarker := by
    unfold dataEnd1; rw [h1]; simp
  have h3 : dataRel a1 st1 = (unionIds st1.data.freed a1.data.free, 0) := by
    unfold dataRel releaseOverflow; rw [h2, if_pos (Or.inr hd)]
  rw [commitState_eq, h1, h2, h3]
  simp

/-- the pending frees become allocatable: they leave the ledger and join the free lists -/
theorem quiet_commit (a : Alloc) (st : TxAlloc) (L M regs : List Nat) (h : TInv a st L M) :
    Quiet { a with freelistPages := regs,
                   data := { endMarker := a.data.endMarker, free := unionIds st.data.freed a.data.free },
                   mta := { endMarker := a.mta.endMarker, free := unionIds st.mta.freed a.mta.free },
                   metaTotal := a.metaTotal - 0 }
      (removeIds L st.data.freed) (removeIds M st.mta.freed) := by
  have hfL : ∀ x ∈ st.data.freed, x ∈ L := fun x hx => (h.fL x hx).1
  have hfD : ∀ x ∈ st.data.freed, x ∉ a.data.free := fun x hx hf => (h.dD x hf).1 (hfL x hx)
  have hgD : ∀ x ∈ st.mta.freed, x ∉ a.mta.free := fun x hx hf => h.dM x hf (h.gM x hx)
  refine ⟨?_, ?_, asc_unionIds _ _ h.ascD, asc_unionIds _ _ h.ascM, ?_, ?_, ?_, ?_, ?_, ?_, ?_, ?_, ?_, h.maxPos,
    h.dLim, h.mLim, ?_⟩
  all_goals (try dsimp only)
  · rw [length_unionIds_of_disjoint _ _ (asc_nodup _ h.ascF) hfD]
    have := length_removeIds L st.data.freed h.ndL (asc_nodup _ h.ascF) hfL
    have := h.acc
    omega
  · rw [length_unionIds_of_disjoint _ _ (asc_nodup _ h.ascG) hgD]
    have := length_removeIds M st.mta.freed h.ndM (asc_nodup _ h.ascG) h.gM
    have := h.mtot
    omega
  · exact List.Nodup.sublist List.filter_sublist h.ndL
  · exact List.Nodup.sublist List.filter_sublist h.ndM
  · intro x hx
    rcases (mem_unionIds _ _ _).mp hx with h1 | h1
    · exact h.rL x (hfL x h1)
    · exact h.rD x h1
  · intro x hx; exact h.rL x ((mem_removeIds _ _ _).mp hx).1
  · intro x hx
    rcases (mem_unionIds _ _ _).mp hx with h1 | h1
    · exact h.rM x (h.gM x h1)
    · exact h.rMf x h1
  · intro x hx; exact h.rM x ((mem_removeIds _ _ _).mp hx).1
  · intro x hx
    rw [mem_removeIds, mem_removeIds, mem_unionIds]
    rcases (mem_unionIds _ _ _).mp hx with h1 | h1
    · have h2 := h.dL x (hfL x h1)
      refine ⟨fun hh => hh.2 h1, ?_, fun hh => h2.2 hh.1⟩
      rintro (h3 | h3)
      · exact h2.2 (h.gM x h3)
      · exact h2.1 h3
    · have h2 := h.dD x h1
      refine ⟨fun hh => h2.1 hh.1, ?_, fun hh => h2.2.2 hh.1⟩
      rintro (h3 | h3)
      · exact h2.2.2 (h.gM x h3)
      · exact h2.2.1 h3
  · intro x hx
    rw [mem_removeIds] at hx
    have h2 := h.dL x hx.1
    rw [mem_removeIds, mem_unionIds]
    refine ⟨?_, fun hh => h2.2 hh.1⟩
    rintro (h3 | h3)
    · exact h2.2 (h.gM x h3)
    · exact h2.1 h3
  · intro x hx
    rw [mem_removeIds]
    rcases (mem_unionIds _ _ _).mp hx with h1 | h1
    · exact fun hh => hh.2 h1
    · exact fun hh => h.dM x h1 hh.1
  · rcases h.J with hj | ⟨hj1, hj2⟩
    · exact Or.inl hj
    · right
      have hf0 : st.data.freed = [] := by
        apply List.eq_nil_iff_forall_not_mem.mpr
        intro x hx
        have := hfL x hx
        rw [hj2] at this; cases this
      rw [hf0, hj1, hj2]
      exact ⟨rfl, rfl⟩

theorem updated_false (st : TxAlloc) (h : st.updated = false) : st.data.freed = [] ∧ st.mta.freed = [] := by
  simp only [TxAlloc.updated, TxArea.updated, Bool.or_eq_false_iff, Bool.not_eq_false', List.isEmpty_iff] at h
  exact ⟨h.2.2, h.1.2⟩

theorem removeIds_nil (l : List Nat) : removeIds l [] = l := by
  unfold removeIds; simp

/-- the commit of a transaction: the allocator state it installs satisfies the quiescent invariant
    for the ledger without the pages freed by the transaction -/
theorem tinv_commit (a : Alloc) (st : TxAlloc) (L M : List Nat) (upd : Bool) (a1 : Alloc) (st1 : TxAlloc)
    (cs : AllocCommit) (h : TInv a st L M) (hupd : st.updated = true → upd = true)
    (hc : fileCommitAlloc a st upd = some (a1, st1, cs)) :
    Quiet (a1.commit cs) (removeIds L st1.data.freed) (removeIds (cs.allocRegions ++ M) st1.mta.freed) ∧
    st1.data.freed = st.data.freed := by
  cases hu : upd with
  | false =>
    rw [hu] at hc
    have hst : st.updated = false := by
      cases hs : st.updated with
      | false => rfl
      | true => rw [hu] at hupd; exact absurd (hupd hs) (by simp)
    obtain ⟨hf1, hf2⟩ := updated_false st hst
    simp only [fileCommitAlloc, Bool.not_false, if_true, Option.some.injEq, Prod.mk.injEq] at hc
    obtain ⟨ha, hs, hcs⟩ := hc
    subst ha hs hcs
    rw [hf1, hf2, removeIds_nil, removeIds_nil]
    exact ⟨h.quiet, rfl⟩
  | true =>
    rw [hu] at hc
    obtain ⟨hcs, hstep⟩ := fileCommitAlloc_some a st a1 st1 cs hc
    have h1 : TInv a1 st1 L (cs.allocRegions ++ M) ∧ st1.data.freed = st.data.freed := by
      rcases hstep with ⟨ha, hs, hr⟩ | ⟨n, -, hr⟩
      · subst ha hs; rw [hr]; exact ⟨h, rfl⟩
      · refine ⟨tinv_metaAllocRegions a st L M n a1 st1 _ h hr, ?_⟩
        exact metaAllocRegions_freed a st n a1 st1 _ h.noOv hr
    refine ⟨?_, h1.2⟩
    rw [hcs, commitState_bounded a1 st1 _ h1.1.dLim h1.1.mLim]
    simp only [Alloc.commit, Bool.not_true, Bool.false_eq_true, if_false]
    exact quiet_commit a1 st1 L _ _ h1.1

/-! ### operation lists, transactions, histories -/

/-- run the operations of a transaction together with the ledger -/
def runLedger (s : Alloc × TxAlloc) (lg : List Nat × List Nat) :
    List AOp → (Alloc × TxAlloc) × (List Nat × List Nat)
  | [] => (s, lg)
  | op :: ops => runLedger (op.apply s) (op.ledger s lg) ops

/-- every operation of the list respects the caller's discipline at the time it is issued -/
def Disciplined (s : Alloc × TxAlloc) (lg : List Nat × List Nat) : List AOp → Prop
  | [] => True
  | op :: ops => op.owned lg.1 lg.2 ∧ Disciplined (op.apply s) (op.ledger s lg) ops

instance Disciplined.dec : ∀ (s : Alloc × TxAlloc) (lg : List Nat × List Nat) (ops : List AOp),
    Decidable (Disciplined s lg ops)
  | _, _, [] => isTrue trivial
  | s, lg, op :: ops => @instDecidableAnd _ _ _ (Disciplined.dec (op.apply s) (op.ledger s lg) ops)

theorem runLedger_fst (s : Alloc × TxAlloc) (lg : List Nat × List Nat) (ops : List AOp) :
    (runLedger s lg ops).1 = runAOps s ops := by
  induction ops generalizing s lg with
  | nil => rfl
  | cons op ops ih =>
    unfold runLedger runAOps
    rw [List.foldl_cons]
    exact ih _ _

theorem tinv_run (ops : List AOp) (s : Alloc × TxAlloc) (lg : List Nat × List Nat)
    (h : TInv s.1 s.2 lg.1 lg.2) (hd : Disciplined s lg ops) :
    TInv (runLedger s lg ops).1.1 (runLedger s lg ops).1.2 (runLedger s lg ops).2.1 (runLedger s lg ops).2.2 := by
  induction ops generalizing s lg with
  | nil => exact h
  | cons op ops ih =>
    unfold runLedger
    exact ih _ _ (tinv_apply s lg op h hd.1) hd.2

/-- how a transaction ends; `force`: the engine commits the allocator state although the
    transaction itself did not change it -/
inductive TxEnd
  | commit (force : Bool)
  | rollback
  deriving Repr, DecidableEq, Inhabited

structure Tx where
  growPct : Nat := 80
  ops : List AOp := []
  fin : TxEnd := .commit false
  deriving Repr, DecidableEq, Inhabited

/-- a quiescent point: allocator state and ledger -/
abbrev QState := Alloc × List Nat × List Nat

/-- one whole transaction on a file that does not use the overflow area: begin, operations,
    commit (a commit that runs out of space ends in a rollback) or rollback -/
def runTx (q : QState) (t : Tx) : QState :=
  let r := runLedger (q.1, q.1.beginTx false t.growPct) (q.2.1, q.2.2) t.ops
  match t.fin with
  | .rollback => (r.1.1.rollback r.1.2, q.2.1, q.2.2)
  | .commit force =>
    match fileCommitAlloc r.1.1 r.1.2 (r.1.2.updated || force) with
    | none => (r.1.1.rollback r.1.2, q.2.1, q.2.2)
    | some (a1, st1, cs) =>
      (a1.commit cs, removeIds r.2.1 st1.data.freed, removeIds (cs.allocRegions ++ r.2.2) st1.mta.freed)

def runHist (q : QState) (h : List Tx) : QState := h.foldl runTx q

def HistDisciplined (q : QState) : List Tx → Prop
  | [] => True
  | t :: ts => Disciplined (q.1, q.1.beginTx false t.growPct) (q.2.1, q.2.2) t.ops ∧ HistDisciplined (runTx q t) ts

instance HistDisciplined.dec : ∀ (q : QState) (h : List Tx), Decidable (HistDisciplined q h)
  | _, [] => isTrue trivial
  | q, t :: ts => @instDecidableAnd _ _ _ (HistDisciplined.dec (runTx q t) ts)

theorem quiet_runTx (q : QState) (t : Tx) (hq : Quiet q.1 q.2.1 q.2.2)
    (hd : Disciplined (q.1, q.1.beginTx false t.growPct) (q.2.1, q.2.2) t.ops) :
    Quiet (runTx q t).1 (runTx q t).2.1 (runTx q t).2.2 := by
  have hrun := tinv_run t.ops (q.1, q.1.beginTx false t.growPct) (q.2.1, q.2.2) (hq.begin t.growPct) hd
  have hrb : (runLedger (q.1, q.1.beginTx false t.growPct) (q.2.1, q.2.2) t.ops).1.1.rollback
      (runLedger (q.1, q.1.beginTx false t.growPct) (q.2.1, q.2.2) t.ops).1.2 = q.1 := by
    rw [runLedger_fst]
    exact rollback_restores q.1 hq.allocWF false t.growPct t.ops
  unfold runTx
  dsimp only
  cases hf : t.fin with
  | rollback =>
    dsimp only
    rw [hrb]; exact hq
  | commit force =>
    dsimp only
    cases hc : fileCommitAlloc (runLedger (q.1, q.1.beginTx false t.growPct) (q.2.1, q.2.2) t.ops).1.1
        (runLedger (q.1, q.1.beginTx false t.growPct) (q.2.1, q.2.2) t.ops).1.2
        ((runLedger (q.1, q.1.beginTx false t.growPct) (q.2.1, q.2.2) t.ops).1.2.updated || force) with
    | none =>
      dsimp only
      rw [hrb]; exact hq
    | some p =>
      obtain ⟨a1, st1, cs⟩ := p
      dsimp only
      exact (tinv_commit _ _ _ _ _ a1 st1 cs hrun (by intro hu; rw [hu]; rfl) hc).1

theorem quiet_runHist (h : List Tx) (q : QState) (hq : Quiet q.1 q.2.1 q.2.2) (hd : HistDisciplined q h) :
    Quiet (runHist q h).1 (runHist q h).2.1 (runHist q h).2.2 := by
  induction h generalizing q with
  | nil => exact hq
  | cons t ts ih =>
    unfold runHist
    rw [List.foldl_cons]
    exact ih _ (quiet_runTx q t hq hd.1) hd.2

theorem histDisciplined_take (h : List Tx) (q : QState) (k : Nat) (hd : HistDisciplined q h) :
    HistDisciplined q (h.take k) := by
  induction h generalizing q k with
  | nil => simp only [List.take_nil]; exact hd
  | cons t ts ih =>
    cases k with
    | zero => exact trivial
    | succ k => exact ⟨hd.1, ih _ k hd.2⟩

/-! ### counts -/

/-- the live count moves in the obvious way -/
theorem ledger_length (s : Alloc × TxAlloc) (lg : List Nat × List Nat) (op : AOp)
    (h : TInv s.1 s.2 lg.1 lg.2) (ho : op.owned lg.1 lg.2) :
    (op.ledger s lg).1.length =
      match op with
      | .allocData n => if (dataAllocRegions s.1 s.2 n).isSome then lg.1.length + n else lg.1.length
      | .freeData id => if s.2.data.new_.contains id then lg.1.length - 1 else lg.1.length
      | _ => lg.1.length := by
  cases op with
  | allocData n =>
    simp only [AOp.ledger]
    cases hr : dataAllocRegions s.1 s.2 n with
    | none => rfl
    | some p =>
      obtain ⟨a, st, ids⟩ := p
      have := (tinv_regions s.1 s.2 lg.1 lg.2 n a st ids h hr).2.2
      simp only [Option.isSome_some, if_true, List.length_append]
      omega
  | freeData id =>
    simp only [AOp.ledger]
    split
    · exact List.length_erase_of_mem ho
    · rfl
  | walAlloc => simp only [AOp.ledger]; split <;> rfl
  | metaAlloc n => simp only [AOp.ledger]; split <;> rfl
  | metaFree id => rfl

/-- the commit in numbers: the live count drops by the number of pages freed by the transaction -/
theorem tinv_commit_count (a : Alloc) (st : TxAlloc) (L M : List Nat) (upd : Bool) (a1 : Alloc) (st1 : TxAlloc)
    (cs : AllocCommit) (h : TInv a st L M) (hupd : st.updated = true → upd = true)
    (hc : fileCommitAlloc a st upd = some (a1, st1, cs)) :
    (a1.commit cs).data.endMarker =
      2 + (a1.commit cs).data.free.length + (L.length - st.data.freed.length) + (a1.commit cs).metaTotal ∧
    st.data.freed.length ≤ L.length ∧
    Quiet (a1.commit cs) (removeIds L st.data.freed) (removeIds (cs.allocRegions ++ M) st1.mta.freed) := by
  obtain ⟨hq, hf⟩ := tinv_commit a st L M upd a1 st1 cs h hupd hc
  rw [hf] at hq
  have hlen := length_removeIds L st.data.freed h.ndL (asc_nodup _ h.ascF) (fun x hx => (h.fL x hx).1)
  refine ⟨?_, by omega, hq⟩
  have := hq.acc
  omega

/-- the commit in numbers, with the minimal hypotheses, on the state after the pages for the free
    list were allocated -/
theorem commit_count_min (a : Alloc) (st : TxAlloc) (a1 : Alloc) (st1 : TxAlloc) (cs : AllocCommit) (live : Nat)
    (hc : fileCommitAlloc a st true = some (a1, st1, cs))
    (hacc : a1.data.endMarker = 2 + a1.data.free.length + live + a1.metaTotal)
    (hd : a1.data.endMarker ≤ a1.maxPages) (hm : a1.mta.endMarker ≤ a1.maxPages)
    (hnd : st1.data.freed.Nodup) (hdisj : ∀ x ∈ st1.data.freed, x ∉ a1.data.free)
    (hle : st1.data.freed.length ≤ live) :
    (a1.commit cs).data.endMarker =
      2 + (a1.commit cs).data.free.length + (live - st1.data.freed.length) + (a1.commit cs).metaTotal := by
  rw [(fileCommitAlloc_some a st a1 st1 cs hc).1, commitState_bounded a1 st1 _ hd hm]
  simp only [Alloc.commit, Bool.not_true, Bool.false_eq_true, if_false, Nat.sub_zero]
  rw [length_unionIds_of_disjoint _ _ hnd hdisj]
  omega

/-! ### decidability (for concrete examples) -/

instance (l : List Nat) : Decidable (Asc l) := by unfold Asc; infer_instance

instance (a : Alloc) (L M : List Nat) : Decidable (Quiet a L M) :=
  decidable_of_iff
    ((a.data.endMarker = 2 + a.data.free.length + L.length + a.metaTotal) ∧
     (a.metaTotal = a.mta.free.length + M.length) ∧ Asc a.data.free ∧ Asc a.mta.free ∧ L.Nodup ∧ M.Nodup ∧
     (∀ x ∈ a.data.free, 2 ≤ x ∧ x < a.data.endMarker) ∧ (∀ x ∈ L, 2 ≤ x ∧ x < a.data.endMarker) ∧
     (∀ x ∈ a.mta.free, 2 ≤ x ∧ x < a.data.endMarker ∧ x < a.mta.endMarker) ∧
     (∀ x ∈ M, 2 ≤ x ∧ x < a.data.endMarker ∧ x < a.mta.endMarker) ∧
     (∀ x ∈ a.data.free, x ∉ L ∧ x ∉ a.mta.free ∧ x ∉ M) ∧ (∀ x ∈ L, x ∉ a.mta.free ∧ x ∉ M) ∧
     (∀ x ∈ a.mta.free, x ∉ M) ∧ 0 < a.maxPages ∧ a.data.endMarker ≤ a.maxPages ∧ a.mta.endMarker ≤ a.maxPages ∧
     (a.data.endMarker ≤ a.mta.endMarker ∨ (a.data.free = [] ∧ L = [])))
    ⟨fun ⟨h1, h2, h3, h4, h5, h6, h7, h8, h9, h10, h11, h12, h13, h14, h15, h16, h17⟩ =>
      ⟨h1, h2, h3, h4, h5, h6, h7, h8, h9, h10, h11, h12, h13, h14, h15, h16, h17⟩,
     fun h => ⟨h.acc, h.mtot, h.ascD, h.ascM, h.ndL, h.ndM, h.rD, h.rL, h.rMf, h.rM, h.dD, h.dL, h.dM, h.maxPos,
       h.dLim, h.mLim, h.J⟩⟩

example : Quiet { maxPages := 40, pageSize := 1024, data := { endMarker := 30, free := [3, 4, 5, 9, 10, 20, 29] },
                  mta := { endMarker := 30, free := [6, 7, 15] }, metaTotal := 5, freelistPages := [8] }
    [2, 11, 12, 13, 14, 16, 17, 18, 19, 21, 22, 23, 24, 25, 26, 27] [8, 28] := by decide

end TxVerif

