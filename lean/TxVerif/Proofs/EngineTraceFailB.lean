/-
  C08 for the engine model, lemmas part B: `FCore`, the relation between a configuration of the fault-aware
  acceptor (normal phase, nothing in flight) and the data of the committed state it represents, and how the
  pieces of the engine's traces move it.
-/
import TxVerif.Proofs.EngineTraceFailA
namespace TxVerif

/-- `c` represents a committed state with active slot `slot`, transaction id `tx`, state id `sid`, whose
    inactive slot durably holds `prev` and whose file content - once everything pending is applied - is `pg`;
    header writes still pending only rewrite the inactive slot with what it holds (P1) -/
structure FCore (slot tx sid : Nat) (prev : Nat × Nat) (pg : Nat → Option Hash) (c : OCfg) : Prop where
  ph : c.phase = .normal
  infl : c.base.inflight = none
  hslot : c.base.aSlot = slot
  htx : c.base.aTx = tx
  hst : c.base.aSt = sid
  pages : ∀ p, c.base.flat.pages p = pg p
  act : c.base.durable.slots slot = some (tx, sid)
  other : c.base.durable.slots (1 - slot) = some prev
  pend : ∀ op ∈ c.base.pending, ∀ s t st, op = TOp.hdr s t st → s = 1 - slot ∧ t = prev.1 ∧ st = prev.2
  sle : slot ≤ 1

theorem flatMap_tops_map_op (ws : List TOp) : (ws.map FOp.op).flatMap FOp.tops = ws := by
  induction ws with
  | nil => rfl
  | cons w ws ih => simp only [List.map_cons, List.flatMap_cons, FOp.tops, List.singleton_append, ih]

theorem ftracePages_append (a b : List FOp) (pg : Nat → Option Hash) :
    ftracePages (a ++ b) pg = ftracePages b (ftracePages a pg) := by
  unfold ftracePages; rw [List.flatMap_append, tracePages_append]

theorem ftracePages_ops (ws : List TOp) (pg : Nat → Option Hash) : ftracePages (ws.map .op) pg = tracePages ws pg := by
  unfold ftracePages; rw [flatMap_tops_map_op]

/-- with only idempotent header writes pending, the slots of the file are the durable ones -/
theorem fcore_flat_slots {slot tx sid : Nat} {prev : Nat × Nat} {pg : Nat → Option Hash} {c : OCfg}
    (h : FCore slot tx sid prev pg c) (k : Nat) : c.base.flat.slots k = c.base.durable.slots k := by
  unfold Cfg.flat
  apply foldl_idem_slots
  intro op hop
  cases op with
  | hdr s t st =>
    obtain ⟨e1, e2, e3⟩ := h.pend _ hop s t st rfl
    by_cases hk : s = k
    · right
      refine ⟨t, st, by rw [hk], ?_⟩
      rw [← hk, e1, h.other, e2, e3]
    · left; simpa [isHdrOn] using hk
  | write p hh => left; simp [isHdrOn]
  | trunc n => left; simp [isHdrOn]
  | sync => left; simp [isHdrOn]

/-- a run of writes / truncates clear of the committed state -/
theorem fcore_clear (reachOf : Nat → List (Nat × Hash)) {slot tx sid : Nat} {prev : Nat × Nat}
    {pg : Nat → Option Hash} {c : OCfg} (h : FCore slot tx sid prev pg c) (ws : List TOp)
    (hcl : ∀ op ∈ ws, ClearOf (reachOf sid) op) :
    ∃ c', c.run reachOf (ws.map .op) = some c' ∧ FCore slot tx sid prev (tracePages ws pg) c' := by
  have r1 := run_clear reachOf ws c.base h.infl (by rw [h.hst]; exact hcl)
  have r2 := orun_ops reachOf c h.ph ws _ r1
  refine ⟨_, r2, ⟨rfl, h.infl, h.hslot, h.htx, h.hst, ?_, h.act, h.other, ?_, h.sle⟩⟩
  · intro p
    have := orun_pages reachOf _ c _ r2 pg h.pages p
    rw [ftracePages_ops] at this
    exact this
  · intro op hop s t st e
    rcases List.mem_append.mp hop with hop | hop
    · exact h.pend op hop s t st e
    · have := hcl op hop
      rw [e] at this
      simp [ClearOf] at this

theorem fcore_sync (reachOf : Nat → List (Nat × Hash)) {slot tx sid : Nat} {prev : Nat × Nat}
    {pg : Nat → Option Hash} {c : OCfg} (h : FCore slot tx sid prev pg c) :
    ∃ c', c.step reachOf (.op .sync) = some c' ∧ FCore slot tx sid prev pg c' ∧ c'.base.pending = [] := by
  rcases c with ⟨b, ph⟩
  have hp := h.ph
  simp only at hp; subst hp
  have hi : b.inflight = none := h.infl
  refine ⟨⟨{ b with durable := b.pending.foldl applyOp b.durable, pending := [] }, .normal⟩, ?_, ?_, rfl⟩
  · simp [OCfg.step, Cfg.step, hi]
  · have hs := fcore_flat_slots h
    refine ⟨rfl, hi, h.hslot, h.htx, h.hst, ?_, ?_, ?_, ?_, h.sle⟩
    · intro p; exact h.pages p
    · have := hs slot; unfold Cfg.flat at this; simp only at this ⊢; rw [this]; exact h.act
    · have := hs (1 - slot); unfold Cfg.flat at this; simp only at this ⊢; rw [this]; exact h.other
    · intro op hop; cases hop

theorem fcore_syncFail (reachOf : Nat → List (Nat × Hash)) {slot tx sid : Nat} {prev : Nat × Nat}
    {pg : Nat → Option Hash} {c : OCfg} (h : FCore slot tx sid prev pg c) :
    c.step reachOf .syncFail = some c := by
  rcases c with ⟨b, ph⟩
  have hp := h.ph
  simp only at hp; subst hp
  have hi : b.inflight = none := h.infl
  simp [OCfg.step, hi]

/-- any sequence of failing and succeeding syncs in the normal phase -/
theorem fcore_syncs (reachOf : Nat → List (Nat × Hash)) {slot tx sid : Nat} {prev : Nat × Nat}
    {pg : Nat → Option Hash} (l : List Bool) : ∀ {c : OCfg}, FCore slot tx sid prev pg c →
    ∃ c', c.run reachOf (l.map syncOf) = some c' ∧ FCore slot tx sid prev pg c' := by
  induction l with
  | nil => intro c h; exact ⟨c, rfl, h⟩
  | cons b l ih =>
    intro c h
    cases b with
    | true =>
      obtain ⟨c1, s1, h1, -⟩ := fcore_sync reachOf h
      obtain ⟨c2, s2, h2⟩ := ih h1
      exact ⟨c2, by simp only [List.map_cons, syncOf, if_true, OCfg.run, s1]; exact s2, h2⟩
    | false =>
      obtain ⟨c2, s2, h2⟩ := ih h
      exact ⟨c2, by simp only [List.map_cons, syncOf, Bool.false_eq_true, if_false, OCfg.run,
        fcore_syncFail reachOf h]; exact s2, h2⟩

theorem fcore_syncFails (reachOf : Nat → List (Nat × Hash)) {slot tx sid : Nat} {prev : Nat × Nat}
    {pg : Nat → Option Hash} {c : OCfg} (h : FCore slot tx sid prev pg c) (n : Nat) :
    c.run reachOf (List.replicate n FOp.syncFail) = some c := by
  induction n with
  | zero => rfl
  | succ n ih => simp only [List.replicate_succ, OCfg.run, fcore_syncFail reachOf h]; exact ih

/-- P1: `restoreMeta` after a commit that failed before its header was written -/
theorem fcore_idem (reachOf : Nat → List (Nat × Hash)) {slot tx sid : Nat} {prev : Nat × Nat}
    {pg : Nat → Option Hash} {c : OCfg} (h : FCore slot tx sid prev pg c) :
    ∃ c', c.step reachOf (.restore (1 - slot) prev.1 prev.2) = some c' ∧ FCore slot tx sid prev pg c' := by
  rcases c with ⟨b, ph⟩
  have hp := h.ph
  simp only at hp; subst hp
  have hi : b.inflight = none := h.infl
  have hsl : b.aSlot = slot := h.hslot
  have ho : b.durable.slots (1 - b.aSlot) = some (prev.1, prev.2) := by rw [hsl]; exact h.other
  refine ⟨⟨{ b with pending := b.pending ++ [.hdr (1 - slot) prev.1 prev.2] }, .normal⟩, ?_, ?_⟩
  · simp [OCfg.step, OCfg.idemRestore, hi, hsl]
    rw [← hsl]; exact ho
  · refine ⟨rfl, hi, hsl, h.htx, h.hst, ?_, h.act, h.other, ?_, h.sle⟩
    · intro p
      have : (Cfg.flat { b with pending := b.pending ++ [.hdr (1 - slot) prev.1 prev.2] }).pages p = b.flat.pages p := by
        simp [Cfg.flat, List.foldl_append, applyOp]
      rw [this]; exact h.pages p
    · intro op hop s t st e
      rcases List.mem_append.mp hop with hop | hop
      · exact h.pend op hop s t st e
      · simp only [List.mem_singleton] at hop
        rw [hop] at e
        simp only [TOp.hdr.injEq] at e
        exact ⟨e.1.symm, e.2.1.symm, e.2.2.symm⟩

/-! ### commits -/

/-- clear writes, sync, header naming the state `st`: the header is in flight afterwards -/
theorem run_shG (reachOf : Nat → List (Nat × Hash)) (c : Cfg) (hi : c.inflight = none) (Wall : List TOp)
    (hcl : ∀ op ∈ Wall, ClearOf (reachOf c.aSt) op) (s T st : Nat) (hs : s = 1 - c.aSlot) (hT : T = c.aTx + 1)
    (hint : ∀ p h, (p, h) ∈ reachOf st → (Wall.foldl applyOp c.flat).pages p = some h) :
    c.run reachOf (Wall ++ [TOp.sync, TOp.hdr s T st]) =
      some { durable := Wall.foldl applyOp c.flat, pending := [TOp.hdr s T st], aSlot := c.aSlot, aTx := c.aTx,
             aSt := c.aSt, inflight := some st } := by
  have r1 := run_clear reachOf Wall c hi hcl
  have hib : intactB reachOf (List.foldl applyOp (List.foldl applyOp c.durable c.pending) Wall).pages st = true :=
    intactB_of reachOf _ st hint
  refine cfgRun_append_some reachOf _ _ _ _ _ r1 ?_
  unfold Cfg.flat
  subst hs hT
  simp [Cfg.run, Cfg.step, hi, hib, List.foldl_append]

theorem flat_after_clear_slots (Wall : List TOp) (reach : List (Nat × Hash)) (hcl : ∀ op ∈ Wall, ClearOf reach op)
    (d : Img) (k : Nat) : (Wall.foldl applyOp d).slots k = d.slots k :=
  foldl_applyOp_slots Wall d k (fun op hop => clearOf_not_hdr reach op (hcl op hop) k)

/-- a whole successful commit followed by operations clear of the new state -/
theorem fcore_commit (reachOf : Nat → List (Nat × Hash)) {slot tx sid : Nat} {prev : Nat × Nat}
    {pg : Nat → Option Hash} {c : OCfg} (h : FCore slot tx sid prev pg c) (Wall : List TOp)
    (hcl : ∀ op ∈ Wall, ClearOf (reachOf sid) op) (nsid : Nat)
    (hint : ∀ p hh, (p, hh) ∈ reachOf nsid → tracePages Wall pg p = some hh)
    (tr3 : List TOp) (hcl3 : ∀ op ∈ tr3, ClearOf (reachOf nsid) op) :
    ∃ c', c.run reachOf ((Wall ++ [TOp.sync, TOp.hdr (1 - slot) (tx + 1) nsid, TOp.sync] ++ tr3).map .op) = some c' ∧
      FCore (1 - slot) (tx + 1) nsid (tx, sid) (tracePages tr3 (tracePages Wall pg)) c' := by
  have hpgW : ∀ p, (Wall.foldl applyOp c.base.flat).pages p = tracePages Wall pg p := by
    intro p; rw [foldl_applyOp_pages_eq]; exact tracePages_congr _ _ _ h.pages p
  have r1 := run_shG reachOf c.base h.infl Wall (by rw [h.hst]; exact hcl) (1 - slot) (tx + 1) nsid
    (by rw [h.hslot]) (by rw [h.htx]) (fun p hh hm => by rw [hpgW]; exact hint p hh hm)
  have r2 : (Cfg.mk (Wall.foldl applyOp c.base.flat) [TOp.hdr (1 - slot) (tx + 1) nsid] c.base.aSlot c.base.aTx
      c.base.aSt (some nsid)).run reachOf [TOp.sync] =
      some { durable := applyOp (Wall.foldl applyOp c.base.flat) (TOp.hdr (1 - slot) (tx + 1) nsid), pending := [],
             aSlot := 1 - c.base.aSlot, aTx := c.base.aTx + 1, aSt := nsid, inflight := none } := by
    simp [Cfg.run, Cfg.step]
  have r12 := cfgRun_append_some reachOf _ _ _ _ _ r1 r2
  have r12' := orun_ops reachOf c h.ph _ _ r12
  have hsl := h.sle
  have hne : ¬ (slot = 1 - slot) := by omega
  have hc1 : FCore (1 - slot) (tx + 1) nsid (tx, sid) (tracePages Wall pg)
      ⟨{ durable := applyOp (Wall.foldl applyOp c.base.flat) (TOp.hdr (1 - slot) (tx + 1) nsid), pending := [],
         aSlot := 1 - c.base.aSlot, aTx := c.base.aTx + 1, aSt := nsid, inflight := none }, .normal⟩ := by
    refine ⟨rfl, rfl, by simp only; rw [h.hslot], by simp only; rw [h.htx], rfl, ?_, ?_, ?_, ?_, by omega⟩
    · intro p
      show (applyOp (Wall.foldl applyOp c.base.flat) (TOp.hdr (1 - slot) (tx + 1) nsid)).pages p = _
      simp only [applyOp]; exact hpgW p
    · simp [applyOp]
    · have e : 1 - (1 - slot) = slot := by omega
      rw [e]
      simp only [applyOp, hne, if_false]
      rw [flat_after_clear_slots Wall _ hcl, fcore_flat_slots h]
      exact h.act
    · intro op hop; cases hop
  obtain ⟨c2, r3, hc2⟩ := fcore_clear reachOf hc1 tr3 hcl3
  refine ⟨c2, ?_, hc2⟩
  have : (Wall ++ [TOp.sync, TOp.hdr (1 - slot) (tx + 1) nsid, TOp.sync] ++ tr3).map FOp.op =
      ((Wall ++ [TOp.sync, TOp.hdr (1 - slot) (tx + 1) nsid]) ++ [TOp.sync]).map FOp.op ++ tr3.map FOp.op := by
    simp [List.map_append]
  rw [this]
  exact orun_append_some reachOf _ _ _ _ _ r12' r3

theorem orun_replicate_syncFail (reachOf : Nat → List (Nat × Hash)) (c : OCfg) (h : c.step reachOf .syncFail = some c)
    (n : Nat) : c.run reachOf (List.replicate n FOp.syncFail) = some c := by
  induction n with
  | zero => rfl
  | succ n ih => simp only [List.replicate_succ, OCfg.run, h]; exact ih

/-- F2': the commit's header is written, the final sync fails; the saved old contents of the slot are
    written back, `k` more syncs fail, one succeeds: the configuration represents the OLD committed state
    again (same slot, transaction id, state id, same contents of the inactive slot), the file holds the
    page writes of the attempt -/
theorem fcore_finalFail (reachOf : Nat → List (Nat × Hash)) {slot tx sid : Nat} {prev : Nat × Nat}
    {pg : Nat → Option Hash} {c : OCfg} (h : FCore slot tx sid prev pg c) (Wall : List TOp)
    (hcl : ∀ op ∈ Wall, ClearOf (reachOf sid) op) (nsid : Nat)
    (hint : ∀ p hh, (p, hh) ∈ reachOf nsid → tracePages Wall pg p = some hh) (k : Nat) :
    ∃ c', c.run reachOf ((Wall ++ [TOp.sync, TOp.hdr (1 - slot) (tx + 1) nsid]).map .op ++
        [FOp.syncFail, FOp.restore (1 - slot) prev.1 prev.2] ++ List.replicate k FOp.syncFail ++ [FOp.op .sync]) = some c' ∧
      FCore slot tx sid prev (tracePages Wall pg) c' := by
  have hpgW : ∀ p, (Wall.foldl applyOp c.base.flat).pages p = tracePages Wall pg p := by
    intro p; rw [foldl_applyOp_pages_eq]; exact tracePages_congr _ _ _ h.pages p
  have r1 := run_shG reachOf c.base h.infl Wall (by rw [h.hst]; exact hcl) (1 - slot) (tx + 1) nsid
    (by rw [h.hslot]) (by rw [h.htx]) (fun p hh hm => by rw [hpgW]; exact hint p hh hm)
  have r1' := orun_ops reachOf c h.ph _ _ r1
  have hsl := h.sle
  have hXo : (Wall.foldl applyOp c.base.flat).slots (1 - slot) = some prev := by
    rw [flat_after_clear_slots Wall _ hcl, fcore_flat_slots h]; exact h.other
  have hXa : (Wall.foldl applyOp c.base.flat).slots slot = some (tx, sid) := by
    rw [flat_after_clear_slots Wall _ hcl, fcore_flat_slots h]; exact h.act
  -- the failing final sync, the restore
  have r2 : (OCfg.mk (Cfg.mk (Wall.foldl applyOp c.base.flat) [TOp.hdr (1 - slot) (tx + 1) nsid] c.base.aSlot
      c.base.aTx c.base.aSt (some nsid)) .normal).run reachOf [FOp.syncFail, FOp.restore (1 - slot) prev.1 prev.2] =
      some ⟨Cfg.mk (Wall.foldl applyOp c.base.flat)
        [TOp.hdr (1 - slot) (tx + 1) nsid, TOp.hdr (1 - slot) prev.1 prev.2] c.base.aSlot c.base.aTx c.base.aSt none,
        .restoring nsid prev⟩ := by
    have e1 : (Wall.foldl applyOp c.base.flat).slots (1 - slot) = some (prev.1, prev.2) := hXo
    simp [OCfg.run, OCfg.step, OCfg.restoreStep, h.hslot, e1]
  have r3 := orun_replicate_syncFail reachOf
    ⟨Cfg.mk (Wall.foldl applyOp c.base.flat)
        [TOp.hdr (1 - slot) (tx + 1) nsid, TOp.hdr (1 - slot) prev.1 prev.2] c.base.aSlot c.base.aTx c.base.aSt none,
        .restoring nsid prev⟩ rfl k
  have r4 : (OCfg.mk (Cfg.mk (Wall.foldl applyOp c.base.flat)
        [TOp.hdr (1 - slot) (tx + 1) nsid, TOp.hdr (1 - slot) prev.1 prev.2] c.base.aSlot c.base.aTx c.base.aSt none)
        (.restoring nsid prev)).run reachOf [FOp.op .sync] =
      some ⟨Cfg.mk (applyOp (applyOp (Wall.foldl applyOp c.base.flat) (TOp.hdr (1 - slot) (tx + 1) nsid))
        (TOp.hdr (1 - slot) prev.1 prev.2)) [] c.base.aSlot c.base.aTx c.base.aSt none, .normal⟩ := by
    simp [OCfg.run, OCfg.step]
  refine ⟨_, orun_append_some reachOf _ _ _ _ _
    (orun_append_some reachOf _ _ _ _ _ (orun_append_some reachOf _ _ _ _ _ r1' r2) r3) r4, ?_⟩
  have hne : ¬ (slot = 1 - slot) := by omega
  refine ⟨rfl, rfl, h.hslot, h.htx, h.hst, ?_, ?_, ?_, ?_, hsl⟩
  · intro p
    show (applyOp (applyOp (Wall.foldl applyOp c.base.flat) (TOp.hdr (1 - slot) (tx + 1) nsid))
        (TOp.hdr (1 - slot) prev.1 prev.2)).pages p = _
    simp only [applyOp]; exact hpgW p
  · simp only [applyOp, hne, if_false]; exact hXa
  · simp [applyOp]
  · intro op hop; cases hop

/-- the same path up to (not including) the completing sync: the acceptor is in phase `restoring` -/
theorem fcore_finalFail_restoring (reachOf : Nat → List (Nat × Hash)) {slot tx sid : Nat} {prev : Nat × Nat}
    {pg : Nat → Option Hash} {c : OCfg} (h : FCore slot tx sid prev pg c) (Wall : List TOp)
    (hcl : ∀ op ∈ Wall, ClearOf (reachOf sid) op) (nsid : Nat)
    (hint : ∀ p hh, (p, hh) ∈ reachOf nsid → tracePages Wall pg p = some hh) (k : Nat) :
    ∃ cR, c.run reachOf ((Wall ++ [TOp.sync, TOp.hdr (1 - slot) (tx + 1) nsid]).map .op ++
        [FOp.syncFail, FOp.restore (1 - slot) prev.1 prev.2] ++ List.replicate k FOp.syncFail) = some cR ∧
      cR.phase = .restoring nsid prev ∧ cR.base.aSt = sid ∧ cR.base.aTx = tx ∧ cR.base.aSlot = slot := by
  have hpgW : ∀ p, (Wall.foldl applyOp c.base.flat).pages p = tracePages Wall pg p := by
    intro p; rw [foldl_applyOp_pages_eq]; exact tracePages_congr _ _ _ h.pages p
  have r1 := run_shG reachOf c.base h.infl Wall (by rw [h.hst]; exact hcl) (1 - slot) (tx + 1) nsid
    (by rw [h.hslot]) (by rw [h.htx]) (fun p hh hm => by rw [hpgW]; exact hint p hh hm)
  have r1' := orun_ops reachOf c h.ph _ _ r1
  have hXo : (Wall.foldl applyOp c.base.flat).slots (1 - slot) = some prev := by
    rw [flat_after_clear_slots Wall _ hcl, fcore_flat_slots h]; exact h.other
  have r2 : (OCfg.mk (Cfg.mk (Wall.foldl applyOp c.base.flat) [TOp.hdr (1 - slot) (tx + 1) nsid] c.base.aSlot
      c.base.aTx c.base.aSt (some nsid)) .normal).run reachOf [FOp.syncFail, FOp.restore (1 - slot) prev.1 prev.2] =
      some ⟨Cfg.mk (Wall.foldl applyOp c.base.flat)
        [TOp.hdr (1 - slot) (tx + 1) nsid, TOp.hdr (1 - slot) prev.1 prev.2] c.base.aSlot c.base.aTx c.base.aSt none,
        .restoring nsid prev⟩ := by
    have e1 : (Wall.foldl applyOp c.base.flat).slots (1 - slot) = some (prev.1, prev.2) := hXo
    simp [OCfg.run, OCfg.step, OCfg.restoreStep, h.hslot, e1]
  have r3 := orun_replicate_syncFail reachOf
    ⟨Cfg.mk (Wall.foldl applyOp c.base.flat)
        [TOp.hdr (1 - slot) (tx + 1) nsid, TOp.hdr (1 - slot) prev.1 prev.2] c.base.aSlot c.base.aTx c.base.aSt none,
        .restoring nsid prev⟩ rfl k
  exact ⟨_, orun_append_some reachOf _ _ _ _ _ (orun_append_some reachOf _ _ _ _ _ r1' r2) r3,
    rfl, h.hst, h.htx, h.hslot⟩

end TxVerif
