/-
  The vfs trace of the engine model, continued (see Model/EngineTrace.lean): operation lists, transactions,
  histories; the reach sets of the committed states of a history.
  Executable definitions only (they depend on `EOp` / `TxnO`, which live in Proofs/Refine.lean and
  Props/C03History.lean); the lemmas are in Proofs/EngineTraceA.lean ff.
-/
import TxVerif.Model.EngineTrace
import TxVerif.Props.C03History
import TxVerif.Props.C01
namespace TxVerif

/-- the writes one client operation issues: only flushes and checkpoints reach the file.
    A `Tx.Flush` that fails is a no-op in the engine model (`EOp.step`), so it contributes nothing here.
    (No behaviour is lost: in the implementation a failing `Tx.Flush` has flushed the pages before the
    failing one and changed nothing else, which is the successful `flushAll` of that prefix; the engine
    driver replays it that way.) The FINAL flush of a transaction keeps the writes it issued before
    failing (`txnTraceCore`). -/
def EOp.trace (s : ERunSt) : EOp → List TOp
  | .flushPage id =>
    if id ∈ s.cur then
      match flushPageOp s.f s.tx id with
      | .ok (f, _, w) => writeOpt f w
      | .error _ => []
    else []
  | .flushAll order =>
    match flushList s.f s.tx order with
    | .ok _ => flushListT s.f s.tx order
    | .error _ => []
  | .checkpoint => doCheckpointT s.f s.tx
  | _ => []

def opsTrace (s : ERunSt) : List EOp → List TOp
  | [] => []
  | op :: ops => op.trace s ++ opsTrace (op.step s) ops

/-- which internal pages the commit of `t` serialises (mapping pages, free-list pages) -/
def txnFlags (s : FileSt × List Nat) (t : TxnO) : Bool × Bool :=
  match flushList (t.run s).f (t.run s).tx t.order with
  | .ok (f2, tx2, _) => commitFlags f2 tx2
  | .error _ => (false, false)

/-- the trace of one write transaction begun in the committed state `s` with active header slot `slot`:
    the writes of its operations, the writes of the final flush, and - if nothing stays unflushed - the
    trace of the commit. A transaction that is rolled back (failing final flush, unflushed pages, failing
    commit) leaves its writes in the trace, but no sync and no header. -/
def txnTraceCore (slot : Nat) (s : FileSt × List Nat) (t : TxnO) : List TOp :=
  opsTrace (ERunSt.start s.1 s.2 t.overflow t.growPct t.walLimit) t.ops ++
  flushListT (t.run s).f (t.run s).tx t.order ++
  (match flushList (t.run s).f (t.run s).tx t.order with
   | .error _ => []
   | .ok (f2, tx2, _) => if tx2.unflushed = [] then commitT slot f2 tx2 else [])

/-- a transaction of a history together with what the file system layer may add at its end: the truncate
    of `rollbackChanges` / of the successful commit (`checkTruncate`), which fires depending on the size of
    the file (not modelled): `trunc = some n` = the file is cut to the pages the resulting committed state
    needs (both end markers) or to `n` pages, whichever is larger -/
structure TxnE where
  t : TxnO
  trunc : Option Nat := none

def truncT (f' : FileSt) : Option Nat → List TOp
  | none => []
  | some n => [TOp.trunc (max n (max f'.alloc.data.endMarker f'.alloc.mta.endMarker))]

/-- the trace of one transaction of a history -/
def engTrace (e : EngCS) (t : TxnE) : List TOp :=
  txnTraceCore e.slot (e.f, e.live) t.t ++ truncT (runTxnO (e.f, e.live) t.t).1 t.trunc

/-- the committed state after the transaction, with its ghost data: after a commit the header slot flips,
    the defined pages are the owned pages whose physical page holds their content, the free-list hash is
    the new one if the free-list pages were written -/
def engNext (e : EngCS) (t : TxnE) : EngCS :=
  let s' := runTxnO (e.f, e.live) t.t
  let pg := tracePages (engTrace e t) e.pages
  if t.t.commitsB (e.f, e.live) then
    { f := s'.1, live := s'.2, slot := 1 - e.slot,
      dfn := s'.2.filter (fun id => pg (s'.1.physOf id) == some (s'.1.readPage id).hash),
      flh := if (txnFlags (e.f, e.live) t.t).2 then s'.1.flHash else e.flh,
      pages := pg }
  else { e with f := s'.1, live := s'.2, pages := pg }

def engRun (e : EngCS) (ts : List TxnE) : EngCS := ts.foldl engNext e

/-- the trace of a history of transactions -/
def histTrace (e : EngCS) : List TxnE → List TOp
  | [] => []
  | t :: ts => engTrace e t ++ histTrace (engNext e t) ts

/-- the reach sets of the committed states of a history, by state id = transaction id (a transaction that
    does not commit does not produce a new state id) -/
def histReach (e : EngCS) : List TxnE → Nat → List (Nat × Hash)
  | [], st => if st = e.f.txid then engReach e else []
  | t :: ts, st => if st = e.f.txid then engReach e else histReach (engNext e t) ts st

end TxVerif
