/-
  Proofs/RefineMore.lean re-run against the lifetime invariants of Proofs/LifetimeRefine1.lean (`U.EngInv`, `U.TxInv`):
  freshness of the pages `txAlloc` hands out, "abort / failed commit is the identity", lockstep simulation of the
  next transaction on a restored state.
-/
import TxVerif.Proofs.RefineMoreOv
import TxVerif.Proofs.LifetimeRefine2
namespace TxVerif.U

/-- every page `txAlloc` returns is unused: not a header page, not owned by the client, not a page of
    the committed state (so not one this transaction freed), not an internal page of the committed
    state, not an overwrite page this transaction took, not a page this transaction freed -/
theorem alloc_fresh_tx {f0 : FileSt} {live : List Nat} {f : FileSt} {tx : TxSt} {cur : List Nat}
    (he : EngInv f0 live) (h : TxInv f0 live f tx cur) (n : Nat) (f' : FileSt) (tx' : TxSt) (ids : List Nat)
    (hw : txAlloc f tx n = .ok (f', tx', ids)) :
    ids.length = n ∧ ids.Nodup ∧
    ∀ x ∈ ids, 2 ≤ x ∧ x ∉ cur ∧ x ∉ live ∧ x ∉ f0.internal ∧ x ∉ tx.walNew.map (·.2) ∧
      x ∉ tx.ta.data.freed ∧ x ∉ tx.ta.mta.allocated ∧ ¬ InUse f.alloc x := by
  unfold txAlloc at hw
  cases hr : dataAllocRegions f.alloc tx.ta n with
  | none => simp [hr] at hw
  | some r =>
    obtain ⟨a, ta, ids'⟩ := r
    simp only [hr, Except.ok.injEq, Prod.mk.injEq] at hw
    obtain ⟨-, -, rfl⟩ := hw
    obtain ⟨-, -, hfr⟩ := fr_regions f.alloc tx.ta n a ta ids' h.aok hr
    obtain ⟨hl, hnd, -⟩ := alloc_fresh f.alloc tx.ta n a ta ids' h.aok.ascD h.aok.dRange h.aok.dEnd hr
    refine ⟨hl, hnd, ?_⟩
    intro x hx
    obtain ⟨hnu, -, h2, -⟩ := hfr x hx
    refine ⟨h2, ?_, ?_, ?_, ?_, ?_, ?_, hnu⟩
    · exact fun hc => hnu (h.curOk x hc).2.2.1
    · exact fun hc => hnu (h.keep x (he.liveOk x hc).2.2)
    · exact fun hc => hnu (h.keep x (he.intOk x hc).1)
    · intro hc
      obtain ⟨k, hk⟩ := (mem_values h.newKeys x).mp hc
      exact hnu (h.mAlloc.2 x (h.wn k x hk).2.1).1
    · exact fun hc => hnu (h.dfreed x hc).2.2.2.1
    · exact fun hc => hnu (h.mAlloc.2 x hc).1

/-- a page the transaction has to read from disk is a live page, read at its committed location -/
theorem page_read_ok {f0 : FileSt} {live : List Nat} {f : FileSt} {tx : TxSt} {cur : List Nat}
    (h : TxInv f0 live f tx cur) (id : Nat) (hid : id ∈ cur) (tx1 : TxSt) (p : PageSt)
    (hg : getPage f tx id = .ok (tx1, p)) (hn : p.new_ = false) (hd : p.dirty = false) :
    id ∈ live ∧ p.ondisk = f0.physOf id := by
  obtain ⟨h1, hget, hfr, -⟩ := txinv_getPage h id hid tx1 p hg
  have pk := h1.pg id p hget
  have hfl : p.flushed = false := by
    cases hf : p.flushed with
    | false => rfl
    | true => have := (pk.flDirty hf).1; rw [hd] at this; cases this
  exact ⟨pk.oldOk hfr hn, (pk.unfl hfr hn hfl).1⟩

theorem txWrite_wd {f0 : FileSt} {live : List Nat} {f : FileSt} {tx : TxSt} {cur : List Nat}
    (h : TxInv f0 live f tx cur) (d : Assoc Content)
    (hd : ∀ id ∈ live, (f.wd d).diskAt (f0.physOf id) = f.diskAt (f0.physOf id))
    (id : Nat) (hid : id ∈ cur) (mode : WMode) (st : Nat) :
    txWrite (f.wd d) tx id mode st = txWrite f tx id mode st := by
  unfold txWrite
  rw [getPage_wd]
  cases hg : getPage f tx id with
  | error e => rfl
  | ok r =>
    obtain ⟨tx1, p⟩ := r
    have hl : loadBytes (f.wd d) p = loadBytes f p :=
      loadBytes_wd f d p (fun hn hdd => by
        obtain ⟨a, b⟩ := page_read_ok h id hid tx1 p hg hn hdd
        rw [b]; exact hd id a)
    simp only [bind, Except.bind]
    cases pageCanWrite p with
    | error e => rfl
    | ok u => cases mode <;> simp only [hl]

theorem txLoad_wd {f0 : FileSt} {live : List Nat} {f : FileSt} {tx : TxSt} {cur : List Nat}
    (h : TxInv f0 live f tx cur) (d : Assoc Content)
    (hd : ∀ id ∈ live, (f.wd d).diskAt (f0.physOf id) = f.diskAt (f0.physOf id))
    (id : Nat) (hid : id ∈ cur) :
    txLoad (f.wd d) tx id = txLoad f tx id := by
  unfold txLoad
  rw [getPage_wd]
  cases hg : getPage f tx id with
  | error e => rfl
  | ok r =>
    obtain ⟨tx1, p⟩ := r
    have hl : loadBytes (f.wd d) p = loadBytes f p :=
      loadBytes_wd f d p (fun hn hdd => by
        obtain ⟨a, b⟩ := page_read_ok h id hid tx1 p hg hn hdd
        rw [b]; exact hd id a)
    simp only [bind, Except.bind]
    cases pageCanWrite p with
    | error e => rfl
    | ok u => simp only [hl]

/-- `Page.Bytes` returns the same content on both disks -/
theorem txRead_wd {f0 : FileSt} {live : List Nat} {f : FileSt} {tx : TxSt} {cur : List Nat}
    (h : TxInv f0 live f tx cur) (d : Assoc Content)
    (hd : ∀ id ∈ live, (f.wd d).diskAt (f0.physOf id) = f.diskAt (f0.physOf id))
    (id : Nat) (hid : id ∈ cur) :
    txRead (f.wd d) tx id = txRead f tx id := by
  unfold txRead
  rw [getPage_wd]
  cases hg : getPage f tx id with
  | error e => rfl
  | ok r =>
    obtain ⟨tx1, p⟩ := r
    simp only [bind, Except.bind]
    cases hb : p.bytes with
    | some b => rfl
    | none =>
      cases hn : p.new_ with
      | true => rfl
      | false =>
        have hdd : p.dirty = false := by
          cases hdy : p.dirty with
          | false => rfl
          | true =>
            obtain ⟨h1, hget, -, -⟩ := txinv_getPage h id hid tx1 p hg
            have := (h1.pg id p hget).dirtyB hdy
            rw [hb] at this; cases this
        obtain ⟨a, b⟩ := page_read_ok h id hid tx1 p hg hn hdd
        simp only [Bool.false_eq_true, if_false]
        rw [b, hd id a]

theorem sim_step_write {f0 : FileSt} {live : List Nat} (s2 : ERunSt) (h : RunInv f0 live s2)
    (d : Assoc Content) (σ1 : Nat → Option Content)
    (hd : ∀ y, liveAt f0 live y → (s2.f.wd d).diskAt y = s2.f.diskAt y) (hσ : ∀ j ∈ s2.cur, σ1 j = s2.σ j)
    (id : Nat) (mode : WMode) (st : Nat) :
    Sim (liveAt f0 live) ((EOp.write id mode st).step ⟨s2.f.wd d, s2.tx, s2.cur, σ1⟩)
      ((EOp.write id mode st).step s2) := by
  simp only [EOp.step]
  by_cases hid : id ∈ s2.cur
  · simp only [hid, if_true]
    rw [txWrite_wd h.tx d (fun i hi => hd _ ⟨i, hi, rfl⟩) id hid mode st]
    cases txWrite s2.f s2.tx id mode st with
    | error e => exact ⟨rfl, hd, rfl, rfl, hσ⟩
    | ok tx =>
      refine ⟨rfl, hd, rfl, rfl, ?_⟩
      intro j hj
      show (if j = id then some (wr mode id st ((σ1 id).getD {})) else σ1 j) =
        (if j = id then some (wr mode id st ((s2.σ id).getD {})) else s2.σ j)
      rw [hσ id hid, hσ j hj]
  · simp only [hid, if_false]
    exact ⟨rfl, hd, rfl, rfl, hσ⟩

theorem sim_step_load {f0 : FileSt} {live : List Nat} (s2 : ERunSt) (h : RunInv f0 live s2)
    (d : Assoc Content) (σ1 : Nat → Option Content)
    (hd : ∀ y, liveAt f0 live y → (s2.f.wd d).diskAt y = s2.f.diskAt y) (hσ : ∀ j ∈ s2.cur, σ1 j = s2.σ j)
    (id : Nat) :
    Sim (liveAt f0 live) ((EOp.load id).step ⟨s2.f.wd d, s2.tx, s2.cur, σ1⟩) ((EOp.load id).step s2) := by
  simp only [EOp.step]
  by_cases hid : id ∈ s2.cur
  · simp only [hid, if_true]
    rw [txLoad_wd h.tx d (fun i hi => hd _ ⟨i, hi, rfl⟩) id hid]
    cases txLoad s2.f s2.tx id with
    | error e => exact ⟨rfl, hd, rfl, rfl, hσ⟩
    | ok tx => exact ⟨rfl, hd, rfl, rfl, hσ⟩
  · simp only [hid, if_false]
    exact ⟨rfl, hd, rfl, rfl, hσ⟩

theorem sim_step_read {f0 : FileSt} {live : List Nat} (s2 : ERunSt) (h : RunInv f0 live s2)
    (d : Assoc Content) (σ1 : Nat → Option Content)
    (hd : ∀ y, liveAt f0 live y → (s2.f.wd d).diskAt y = s2.f.diskAt y) (hσ : ∀ j ∈ s2.cur, σ1 j = s2.σ j)
    (id : Nat) :
    Sim (liveAt f0 live) ((EOp.read id).step ⟨s2.f.wd d, s2.tx, s2.cur, σ1⟩) ((EOp.read id).step s2) := by
  simp only [EOp.step]
  by_cases hid : id ∈ s2.cur
  · simp only [hid, if_true]
    rw [txRead_wd h.tx d (fun i hi => hd _ ⟨i, hi, rfl⟩) id hid]
    cases txRead s2.f s2.tx id with
    | error e => exact ⟨rfl, hd, rfl, rfl, hσ⟩
    | ok r => exact ⟨rfl, hd, rfl, rfl, hσ⟩
  · simp only [hid, if_false]
    exact ⟨rfl, hd, rfl, rfl, hσ⟩

/-- the overwrite pages of the committed mapping are pages live page ids are read from -/
theorem walMap_liveAt {f0 : FileSt} {live : List Nat} (he : EngInv f0 live) :
    ∀ e ∈ f0.walMap, liveAt f0 live e.2 := by
  intro e hm
  have hg := Assoc.get?_of_mem f0.walMap he.keys e.1 e.2 hm
  exact ⟨e.1, he.mapKey e.1 e.2 hg, (physOf_some f0 e.1 e.2 hg).symm⟩

theorem sim_step_checkpoint {f0 : FileSt} {live : List Nat} (he : EngInv f0 live) (s2 : ERunSt)
    (h : RunInv f0 live s2) (d : Assoc Content) (σ1 : Nat → Option Content)
    (hd : ∀ y, liveAt f0 live y → (s2.f.wd d).diskAt y = s2.f.diskAt y) (hσ : ∀ j ∈ s2.cur, σ1 j = s2.σ j) :
    Sim (liveAt f0 live) (EOp.checkpoint.step ⟨s2.f.wd d, s2.tx, s2.cur, σ1⟩) (EOp.checkpoint.step s2) := by
  simp only [EOp.step]
  have hS : ∀ e ∈ s2.f.walMap, liveAt f0 live e.2 := by
    rw [h.tx.sameMap]; exact walMap_liveAt he
  obtain ⟨d', e1, a1⟩ := doCheckpoint_wd (liveAt f0 live) s2.f d s2.tx hS hd
  rw [e1]
  exact ⟨rfl, a1, rfl, rfl, hσ⟩

theorem sim_step {f0 : FileSt} {live : List Nat} (he : EngInv f0 live) (s1 s2 : ERunSt)
    (h : RunInv f0 live s2) (hs : Sim (liveAt f0 live) s1 s2) (op : EOp) :
    Sim (liveAt f0 live) (op.step s1) (op.step s2) := by
  have hd : ∀ y, liveAt f0 live y → (s2.f.wd s1.f.disk).diskAt y = s2.f.diskAt y := by
    intro y hy; rw [← hs.f]; exact hs.disk y hy
  rw [sim_shape hs]
  cases op with
  | alloc n => exact sim_step_alloc s2 _ _ hd hs.σ n
  | write id mode st => exact sim_step_write s2 h _ _ hd hs.σ id mode st
  | load id => exact sim_step_load s2 h _ _ hd hs.σ id
  | read id => exact sim_step_read s2 h _ _ hd hs.σ id
  | free id => exact sim_step_free s2 _ _ hd hs.σ id
  | flushPage id => exact sim_step_flushPage s2 _ _ hd hs.σ id
  | flushAll order => exact sim_step_flushAll s2 _ _ hd hs.σ order
  | checkpoint => exact sim_step_checkpoint he s2 h _ _ hd hs.σ

theorem sim_run {f0 : FileSt} {live : List Nat} (he : EngInv f0 live) (ops : List EOp) (s1 s2 : ERunSt)
    (h : RunInv f0 live s2) (hs : Sim (liveAt f0 live) s1 s2) :
    Sim (liveAt f0 live) (runEOps s1 ops) (runEOps s2 ops) := by
  induction ops generalizing s1 s2 with
  | nil => exact hs
  | cons op ops ih => exact ih _ _ (runinv_step he s2 op h) (sim_step he s1 s2 h hs op)

theorem sameCommitted_engInv {f0 : FileSt} {live : List Nat} {f1 : FileSt} (he : EngInv f0 live)
    (h : SameCommitted f0 live f1) : EngInv f1 live :=
  engInv_congr he h.alloc h.walMap h.hdr.2.2.2

/-- ending a transaction without commit -/
theorem sameCommitted_abort {f0 : FileSt} {live : List Nat} {f : FileSt} {tx : TxSt} {cur : List Nat}
    (he : EngInv f0 live) (h : TxInv f0 live f tx cur) (hh : SameHdr f0 f) :
    SameCommitted f0 live (txAbort f tx) :=
  ⟨(abort_spec he h).2.1, h.sameMap, hh, h.r0⟩

/-- a failing commit -/
theorem sameCommitted_failed {f0 : FileSt} {live : List Nat} {f : FileSt} {tx : TxSt} {cur : List Nat}
    (he : EngInv f0 live) (h : TxInv f0 live f tx cur) (hh : SameHdr f0 f) (hfl : AllFlushed tx)
    (hfail : (commitAfterFlush f tx).2.1 ≠ .ok) : SameCommitted f0 live (commitAfterFlush f tx).1 := by
  obtain ⟨-, r2, r3, r4⟩ := (commit_data he h hfl).2 hfail
  refine ⟨r2, r3, sameHdr_trans hh (commit_fail_hdr f tx hfail), ?_⟩
  intro id hid
  have := r4 id hid
  unfold FileSt.readPage at this
  rw [show (commitAfterFlush f tx).1.physOf id = f0.physOf id by unfold FileSt.physOf; rw [r3]] at this
  exact this

end TxVerif.U
