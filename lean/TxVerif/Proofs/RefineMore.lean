/-
  More consequences of the refinement machinery of Proofs/Refine.lean, used by Props/C04C07Engine.lean:
    * freshness of the pages `txAlloc` returns, relative to everything `TxInv` knows to be in use
    * the fields of the committed state no operation of a transaction touches (root, txid, statistics)
    * independence of the transaction from the disk content of pages no live page id is read from
-/
import TxVerif.Proofs.Refine
namespace TxVerif

/-! ### C04: the pages `txAlloc` hands out -/

/-- every page `txAlloc` returns is unused: not a header page, not owned by the client, not a page of
    the committed state (so not one this transaction freed), not an internal page of the committed
    state, not an overwrite page this transaction took, not a page this transaction freed -/
theorem alloc_fresh_tx {f0 : FileSt} {live : List Nat} {f : FileSt} {tx : TxSt} {cur : List Nat}
    (he : EngInv f0 live) (h : TxInv f0 live f tx cur) (n : Nat) (f' : FileSt) (tx' : TxSt) (ids : List Nat)
    (hw : txAlloc f tx n = .ok (f', tx', ids)) :
    ids.length = n ∧ ids.Nodup ∧
    ∀ x ∈ ids, 2 ≤ x ∧ x ∉ cur ∧ x ∉ live ∧ x ∉ f0.internal ∧ x ∉ tx.walNew.map (·.2) ∧
      x ∉ tx.ta.data.freed ∧ x ∉ tx.ta.mta.allocated ∧ ¬ InUse f.alloc x := by
  unfold txAlloc at hw
  cases hr : dataAllocRegions f.alloc tx.ta n with
  | none => simp [hr] at hw
  | some r =>
    obtain ⟨a, ta, ids'⟩ := r
    simp only [hr, Except.ok.injEq, Prod.mk.injEq] at hw
    obtain ⟨-, -, rfl⟩ := hw
    obtain ⟨-, -, hfr⟩ := fr_regions f.alloc tx.ta n a ta ids' h.aok hr
    obtain ⟨hl, hnd, -⟩ := alloc_fresh f.alloc tx.ta n a ta ids' h.aok.ascD h.aok.dRange h.aok.dEnd hr
    refine ⟨hl, hnd, ?_⟩
    intro x hx
    obtain ⟨hnu, -, h2, -⟩ := hfr x hx
    refine ⟨h2, ?_, ?_, ?_, ?_, ?_, ?_, hnu⟩
    · exact fun hc => hnu (h.curOk x hc).2.2.1
    · exact fun hc => hnu (h.keep x (he.liveOk x hc).2.2)
    · exact fun hc => hnu (h.keep x (he.intOk x hc).2.1)
    · intro hc
      obtain ⟨k, hk⟩ := (mem_values h.newKeys x).mp hc
      exact hnu (h.mAlloc.2 x (h.wn k x hk).2.1).1
    · exact fun hc => hnu (h.dfreed x hc).2.2.2.1
    · exact fun hc => hnu (h.mAlloc.2 x hc).1

/-! ### fields of the file state no operation inside a transaction changes -/

/-- root page, transaction id, the statistic and the pages of the serialised mapping are only changed by
    a successful commit -/
def SameHdr (f f' : FileSt) : Prop :=
  f'.root = f.root ∧ f'.txid = f.txid ∧ f'.statData = f.statData ∧ f'.walPages = f.walPages

theorem sameHdr_refl (f : FileSt) : SameHdr f f := ⟨rfl, rfl, rfl, rfl⟩

theorem sameHdr_trans {a b c : FileSt} (h1 : SameHdr a b) (h2 : SameHdr b c) : SameHdr a c :=
  ⟨h2.1.trans h1.1, h2.2.1.trans h1.2.1, h2.2.2.1.trans h1.2.2.1, h2.2.2.2.trans h1.2.2.2⟩

theorem txAlloc_hdr (f : FileSt) (tx : TxSt) (n : Nat) (f' : FileSt) (tx' : TxSt) (ids : List Nat)
    (hw : txAlloc f tx n = .ok (f', tx', ids)) : SameHdr f f' := by
  unfold txAlloc at hw
  cases hr : dataAllocRegions f.alloc tx.ta n with
  | none => simp [hr] at hw
  | some r =>
    obtain ⟨a, ta, ids'⟩ := r
    simp only [hr, Except.ok.injEq, Prod.mk.injEq] at hw
    obtain ⟨rfl, -, -⟩ := hw
    exact ⟨rfl, rfl, rfl, rfl⟩

theorem txFree_hdr (f : FileSt) (tx : TxSt) (id : Nat) (f' : FileSt) (tx' : TxSt)
    (hw : txFree f tx id = .ok (f', tx')) : SameHdr f f' := by
  unfold txFree at hw
  cases hg : getPage f tx id with
  | error e => simp [hg, bind, Except.bind] at hw
  | ok r =>
    obtain ⟨tx1, p⟩ := r
    cases hcw : pageCanWrite p with
    | error e => simp [hg, bind, Except.bind, hcw] at hw
    | ok u =>
      cases hd : p.dirty with
      | true => simp [hg, bind, Except.bind, hcw, hd] at hw
      | false =>
        simp only [hg, bind, Except.bind, hcw, hd, Bool.false_eq_true, if_false, pure, Except.pure,
          Except.ok.injEq, Prod.mk.injEq] at hw
        obtain ⟨rfl, -⟩ := hw
        exact ⟨rfl, rfl, rfl, rfl⟩

theorem doFlush_hdr (f : FileSt) (tx : TxSt) (p : PageSt) (f' : FileSt) (tx' : TxSt) (w : Option Nat)
    (hw : doFlush f tx p = .ok (f', tx', w)) : SameHdr f f' := by
  obtain ⟨pid, pond, pb, pn, pfr, pfl, pc, pdirty⟩ := p
  unfold doFlush at hw
  cases pdirty with
  | false =>
    simp only [Bool.not_false, Bool.true_or, if_true, Except.ok.injEq, Prod.mk.injEq] at hw
    rw [← hw.1]; exact sameHdr_refl f
  | true =>
    cases pfl with
    | true =>
      simp only [Bool.not_true, Bool.or_true, if_true, Except.ok.injEq, Prod.mk.injEq] at hw
      rw [← hw.1]; exact sameHdr_refl f
    | false =>
      simp only [Bool.not_true, Bool.or_self, Bool.false_eq_true, if_false] at hw
      cases pn with
      | true =>
        simp only [if_true, Except.ok.injEq, Prod.mk.injEq] at hw
        rw [← hw.1]; exact ⟨rfl, rfl, rfl, rfl⟩
      | false =>
        simp only [Bool.false_eq_true, if_false] at hw
        by_cases heq : pid = pond
        · subst heq
          simp only [if_true] at hw
          cases hwa : walAlloc f.alloc tx.ta with
          | none => simp [hwa] at hw
          | some r =>
            obtain ⟨a, ta, w'⟩ := r
            simp only [hwa, Except.ok.injEq, Prod.mk.injEq] at hw
            rw [← hw.1]; exact ⟨rfl, rfl, rfl, rfl⟩
        · simp only [heq, if_false, Except.ok.injEq, Prod.mk.injEq] at hw
          rw [← hw.1]; exact ⟨rfl, rfl, rfl, rfl⟩

theorem flushList_hdr (ids : List Nat) : ∀ (f : FileSt) (tx : TxSt) (f' : FileSt) (tx' : TxSt)
    (ws : List (Nat × Nat)), flushList f tx ids = .ok (f', tx', ws) → SameHdr f f' := by
  induction ids with
  | nil =>
    intro f tx f' tx' ws hw
    simp only [flushList, Except.ok.injEq, Prod.mk.injEq] at hw
    rw [← hw.1]; exact sameHdr_refl f
  | cons id ids ih =>
    intro f tx f' tx' ws hw
    unfold flushList at hw
    cases hg : Assoc.get? tx.pages id with
    | none => simp [hg] at hw
    | some p =>
      simp only [hg] at hw
      cases hf : doFlush f tx p with
      | error e => simp [hf] at hw
      | ok r =>
        obtain ⟨f1, tx1, w⟩ := r
        simp only [hf] at hw
        cases hr : flushList f1 tx1 ids with
        | error e => simp [hr] at hw
        | ok r2 =>
          obtain ⟨f2, tx2, ws2⟩ := r2
          simp only [hr, Except.ok.injEq, Prod.mk.injEq] at hw
          rw [← hw.1]
          exact sameHdr_trans (doFlush_hdr f tx p f1 tx1 w hf) (ih f1 tx1 f2 tx2 ws2 hr)

theorem flushPageOp_hdr (f : FileSt) (tx : TxSt) (id : Nat) (f' : FileSt) (tx' : TxSt) (w : Option Nat)
    (hw : flushPageOp f tx id = .ok (f', tx', w)) : SameHdr f f' := by
  unfold flushPageOp at hw
  cases hg : getPage f tx id with
  | error e => simp [hg, bind, Except.bind] at hw
  | ok r =>
    obtain ⟨tx1, p⟩ := r
    simp only [hg, bind, Except.bind] at hw
    cases hcw : pageCanWrite p with
    | error e => simp [hcw] at hw
    | ok u =>
      simp only [hcw] at hw
      exact doFlush_hdr f tx1 p f' tx' w hw

theorem ckptFold_hdr (l : Assoc Nat) : ∀ (s : FileSt × TxSt), SameHdr s.1 (l.foldl ckptOne s).1 := by
  induction l with
  | nil => intro s; exact sameHdr_refl _
  | cons e l ih =>
    intro s
    rw [List.foldl_cons]
    exact sameHdr_trans (show SameHdr s.1 (ckptOne s e).1 from ⟨rfl, rfl, rfl, rfl⟩) (ih (ckptOne s e))

theorem doCheckpoint_hdr (f : FileSt) (tx : TxSt) : SameHdr f (doCheckpoint f tx).1 := by
  unfold doCheckpoint
  split
  · exact sameHdr_refl f
  · split
    · exact sameHdr_refl f
    · exact ckptFold_hdr _ (f, tx)

theorem step_hdr (s : ERunSt) (op : EOp) : SameHdr s.f (op.step s).f := by
  cases op with
  | alloc n =>
    simp only [EOp.step]
    split
    · rename_i f tx ids hr; exact txAlloc_hdr _ _ _ _ _ _ hr
    · exact sameHdr_refl _
  | write id mode st =>
    simp only [EOp.step]
    split
    · split <;> exact sameHdr_refl _
    · exact sameHdr_refl _
  | load id =>
    simp only [EOp.step]
    split
    · split <;> exact sameHdr_refl _
    · exact sameHdr_refl _
  | read id =>
    simp only [EOp.step]
    split
    · split <;> exact sameHdr_refl _
    · exact sameHdr_refl _
  | free id =>
    simp only [EOp.step]
    split
    · split
      · rename_i f tx hr; exact txFree_hdr _ _ _ _ _ hr
      · exact sameHdr_refl _
    · exact sameHdr_refl _
  | flushPage id =>
    simp only [EOp.step]
    split
    · split
      · rename_i f tx w hr; exact flushPageOp_hdr _ _ _ _ _ _ hr
      · exact sameHdr_refl _
    · exact sameHdr_refl _
  | flushAll order =>
    simp only [EOp.step]
    split
    · rename_i f tx ws hr; exact flushList_hdr _ _ _ _ _ _ hr
    · exact sameHdr_refl _
  | checkpoint =>
    simp only [EOp.step]
    exact doCheckpoint_hdr _ _

theorem runOps_hdr (ops : List EOp) (s : ERunSt) : SameHdr s.f (runEOps s ops).f := by
  induction ops generalizing s with
  | nil => exact sameHdr_refl _
  | cons op ops ih => exact sameHdr_trans (step_hdr s op) (ih (op.step s))

/-- the failing paths of `commitAfterFlush` leave root, transaction id and statistic alone -/
theorem commit_fail_hdr (f : FileSt) (tx : TxSt) (hfail : (commitAfterFlush f tx).2.1 ≠ .ok) :
    SameHdr f (commitAfterFlush f tx).1 := by
  have h1 : SameHdr f (cPhase1 f tx).1 := by
    unfold cPhase1
    split
    · exact doCheckpoint_hdr f tx
    · exact sameHdr_refl f
  rw [commitAfterFlush_eq] at hfail ⊢
  unfold commitAfterFlush' at hfail ⊢
  cases hw : cWalRes f tx with
  | none => exact sameHdr_trans h1 ⟨rfl, rfl, rfl, rfl⟩
  | some r =>
    obtain ⟨a, ta, regs⟩ := r
    simp only [hw] at hfail ⊢
    cases hc : fileCommitAlloc a ta (cAllocUpd f tx || !regs.isEmpty) with
    | none => exact sameHdr_trans h1 ⟨rfl, rfl, rfl, rfl⟩
    | some r2 =>
      obtain ⟨a2, ta2, cs⟩ := r2
      simp only [hc] at hfail
      exact absurd rfl hfail

/-! ### the transaction does not depend on disk pages no live page id is read from -/

/-- the same file state with another disk -/
def FileSt.wd (f : FileSt) (d : Assoc Content) : FileSt := { f with disk := d }

/-- `rd` is the result `r` (computed on `f`) recomputed on `f.wd d`: same outcome, the resulting file
    states differ only in the disk, and the two disks agree wherever they agreed before -/
def WdRes {α : Type} (f : FileSt) (d : Assoc Content) (r rd : Except Err (FileSt × α)) : Prop :=
  match r with
  | .error e => rd = .error e
  | .ok (f', x) => ∃ d', rd = .ok (f'.wd d', x) ∧
      ∀ y, (f.wd d).diskAt y = f.diskAt y → (f'.wd d').diskAt y = f'.diskAt y

theorem getPage_wd (f : FileSt) (d : Assoc Content) (tx : TxSt) (id : Nat) :
    getPage (f.wd d) tx id = getPage f tx id := rfl

theorem wd_set_agree (f : FileSt) (d : Assoc Content) (x : Nat) (c : Content) (y : Nat)
    (h : (f.wd d).diskAt y = f.diskAt y) :
    (({ f with disk := Assoc.set f.disk x c } : FileSt).wd (Assoc.set d x c)).diskAt y =
      ({ f with disk := Assoc.set f.disk x c } : FileSt).diskAt y := by
  by_cases hy : y = x
  · subst hy
    rw [diskAt_set_self]
    exact diskAt_set_self (f.wd d) y c
  · rw [diskAt_set_ne f x y c hy, ← h]
    exact diskAt_set_ne (f.wd d) x y c hy

theorem txAlloc_wd (f : FileSt) (d : Assoc Content) (tx : TxSt) (n : Nat) :
    WdRes f d (txAlloc f tx n) (txAlloc (f.wd d) tx n) := by
  unfold txAlloc
  show WdRes f d (match dataAllocRegions f.alloc tx.ta n with | none => _ | some (a, ta, ids) => _)
    (match dataAllocRegions f.alloc tx.ta n with | none => _ | some (a, ta, ids) => _)
  cases dataAllocRegions f.alloc tx.ta n with
  | none => rfl
  | some r => exact ⟨d, rfl, fun y hy => hy⟩

/-- a page the transaction has to read from disk is a live page, read at its committed location -/
theorem page_read_ok {f0 : FileSt} {live : List Nat} {f : FileSt} {tx : TxSt} {cur : List Nat}
    (h : TxInv f0 live f tx cur) (id : Nat) (hid : id ∈ cur) (tx1 : TxSt) (p : PageSt)
    (hg : getPage f tx id = .ok (tx1, p)) (hn : p.new_ = false) (hd : p.dirty = false) :
    id ∈ live ∧ p.ondisk = f0.physOf id := by
  obtain ⟨h1, hget, hfr, -⟩ := txinv_getPage h id hid tx1 p hg
  have pk := h1.pg id p hget
  have hfl : p.flushed = false := by
    cases hf : p.flushed with
    | false => rfl
    | true => have := (pk.flDirty hf).1; rw [hd] at this; cases this
  exact ⟨pk.oldOk hfr hn, (pk.unfl hfr hn hfl).1⟩

theorem loadBytes_wd (f : FileSt) (d : Assoc Content) (p : PageSt)
    (h : p.new_ = false → p.dirty = false → (f.wd d).diskAt p.ondisk = f.diskAt p.ondisk) :
    loadBytes (f.wd d) p = loadBytes f p := by
  unfold loadBytes
  split
  · rfl
  · split
    · rfl
    · split
      · rfl
      · rename_i h1 h2 h3
        rw [h (by simpa using h2) (by simpa using h3)]

theorem txWrite_wd {f0 : FileSt} {live : List Nat} {f : FileSt} {tx : TxSt} {cur : List Nat}
    (h : TxInv f0 live f tx cur) (d : Assoc Content)
    (hd : ∀ id ∈ live, (f.wd d).diskAt (f0.physOf id) = f.diskAt (f0.physOf id))
    (id : Nat) (hid : id ∈ cur) (mode : WMode) (st : Nat) :
    txWrite (f.wd d) tx id mode st = txWrite f tx id mode st := by
  unfold txWrite
  rw [getPage_wd]
  cases hg : getPage f tx id with
  | error e => rfl
  | ok r =>
    obtain ⟨tx1, p⟩ := r
    have hl : loadBytes (f.wd d) p = loadBytes f p :=
      loadBytes_wd f d p (fun hn hdd => by
        obtain ⟨a, b⟩ := page_read_ok h id hid tx1 p hg hn hdd
        rw [b]; exact hd id a)
    simp only [bind, Except.bind]
    cases pageCanWrite p with
    | error e => rfl
    | ok u => cases mode <;> simp only [hl]

theorem txLoad_wd {f0 : FileSt} {live : List Nat} {f : FileSt} {tx : TxSt} {cur : List Nat}
    (h : TxInv f0 live f tx cur) (d : Assoc Content)
    (hd : ∀ id ∈ live, (f.wd d).diskAt (f0.physOf id) = f.diskAt (f0.physOf id))
    (id : Nat) (hid : id ∈ cur) :
    txLoad (f.wd d) tx id = txLoad f tx id := by
  unfold txLoad
  rw [getPage_wd]
  cases hg : getPage f tx id with
  | error e => rfl
  | ok r =>
    obtain ⟨tx1, p⟩ := r
    have hl : loadBytes (f.wd d) p = loadBytes f p :=
      loadBytes_wd f d p (fun hn hdd => by
        obtain ⟨a, b⟩ := page_read_ok h id hid tx1 p hg hn hdd
        rw [b]; exact hd id a)
    simp only [bind, Except.bind]
    cases pageCanWrite p with
    | error e => rfl
    | ok u => simp only [hl]

/-- `Page.Bytes` returns the same content on both disks -/
theorem txRead_wd {f0 : FileSt} {live : List Nat} {f : FileSt} {tx : TxSt} {cur : List Nat}
    (h : TxInv f0 live f tx cur) (d : Assoc Content)
    (hd : ∀ id ∈ live, (f.wd d).diskAt (f0.physOf id) = f.diskAt (f0.physOf id))
    (id : Nat) (hid : id ∈ cur) :
    txRead (f.wd d) tx id = txRead f tx id := by
  unfold txRead
  rw [getPage_wd]
  cases hg : getPage f tx id with
  | error e => rfl
  | ok r =>
    obtain ⟨tx1, p⟩ := r
    simp only [bind, Except.bind]
    cases hb : p.bytes with
    | some b => rfl
    | none =>
      cases hn : p.new_ with
      | true => rfl
      | false =>
        have hdd : p.dirty = false := by
          cases hdy : p.dirty with
          | false => rfl
          | true =>
            obtain ⟨h1, hget, -, -⟩ := txinv_getPage h id hid tx1 p hg
            have := (h1.pg id p hget).dirtyB hdy
            rw [hb] at this; cases this
        obtain ⟨a, b⟩ := page_read_ok h id hid tx1 p hg hn hdd
        simp only [Bool.false_eq_true, if_false]
        rw [b, hd id a]

theorem txFree_wd (f : FileSt) (d : Assoc Content) (tx : TxSt) (id : Nat) :
    WdRes f d (txFree f tx id) (txFree (f.wd d) tx id) := by
  unfold txFree
  rw [getPage_wd]
  cases hg : getPage f tx id with
  | error e => rfl
  | ok r =>
    obtain ⟨tx1, p⟩ := r
    simp only [bind, Except.bind]
    cases pageCanWrite p with
    | error e => rfl
    | ok u =>
      cases hd : p.dirty with
      | true => rfl
      | false => exact ⟨d, rfl, fun y hy => hy⟩

theorem doFlush_wd (f : FileSt) (d : Assoc Content) (tx : TxSt) (p : PageSt) :
    WdRes f d (doFlush f tx p) (doFlush (f.wd d) tx p) := by
  obtain ⟨pid, pond, pb, pn, pfr, pfl, pc, pdirty⟩ := p
  unfold doFlush
  cases pdirty with
  | false =>
    simp only [Bool.not_false, Bool.true_or, if_true]
    exact ⟨d, rfl, fun y hy => hy⟩
  | true =>
    cases pfl with
    | true =>
      simp only [Bool.not_true, Bool.or_true, if_true]
      exact ⟨d, rfl, fun y hy => hy⟩
    | false =>
      simp only [Bool.not_true, Bool.or_self, Bool.false_eq_true, if_false]
      cases pn with
      | true =>
        simp only [if_true]
        exact ⟨_, rfl, fun y hy => wd_set_agree f d _ _ y hy⟩
      | false =>
        simp only [Bool.false_eq_true, if_false]
        by_cases heq : pid = pond
        · subst heq
          simp only [if_true]
          rw [show (f.wd d).alloc = f.alloc from rfl]
          cases hwa : walAlloc f.alloc tx.ta with
          | none => rfl
          | some r =>
            obtain ⟨a, ta, w'⟩ := r
            exact ⟨_, rfl, fun y hy => wd_set_agree { f with alloc := a } d _ _ y hy⟩
        · simp only [heq, if_false]
          exact ⟨_, rfl, fun y hy => wd_set_agree f d _ _ y hy⟩

theorem flushList_wd (ids : List Nat) : ∀ (f : FileSt) (d : Assoc Content) (tx : TxSt),
    WdRes f d (flushList f tx ids) (flushList (f.wd d) tx ids) := by
  induction ids with
  | nil => intro f d tx; exact ⟨d, rfl, fun y hy => hy⟩
  | cons id ids ih =>
    intro f d tx
    unfold flushList
    cases hg : Assoc.get? tx.pages id with
    | none => rfl
    | some p =>
      simp only []
      have h1 := doFlush_wd f d tx p
      cases hf : doFlush f tx p with
      | error e =>
        rw [hf] at h1
        simp only [WdRes] at h1
        rw [h1]; rfl
      | ok r =>
        obtain ⟨f1, tx1, w⟩ := r
        rw [hf] at h1
        obtain ⟨d1, e1, a1⟩ := h1
        rw [e1]
        have h2 := ih f1 d1 tx1
        cases hr : flushList f1 tx1 ids with
        | error e =>
          rw [hr] at h2
          simp only [WdRes] at h2
          simp only [h2, hr]; rfl
        | ok r2 =>
          obtain ⟨f2, tx2, ws⟩ := r2
          rw [hr] at h2
          obtain ⟨d2, e2, a2⟩ := h2
          simp only [e2, hr]
          exact ⟨d2, rfl, fun y hy => a2 y (a1 y hy)⟩

theorem flushPageOp_wd (f : FileSt) (d : Assoc Content) (tx : TxSt) (id : Nat) :
    WdRes f d (flushPageOp f tx id) (flushPageOp (f.wd d) tx id) := by
  unfold flushPageOp
  rw [getPage_wd]
  cases hg : getPage f tx id with
  | error e => rfl
  | ok r =>
    obtain ⟨tx1, p⟩ := r
    simp only [bind, Except.bind]
    cases pageCanWrite p with
    | error e => rfl
    | ok u => exact doFlush_wd f d tx1 p

theorem ckptFold_wd (S : Nat → Prop) (l : Assoc Nat) : (∀ e ∈ l, S e.2) →
    ∀ (f : FileSt) (d : Assoc Content) (tx : TxSt), (∀ y, S y → (f.wd d).diskAt y = f.diskAt y) →
    ∃ d', l.foldl ckptOne (f.wd d, tx) = ((l.foldl ckptOne (f, tx)).1.wd d', (l.foldl ckptOne (f, tx)).2) ∧
      ∀ y, S y → ((l.foldl ckptOne (f, tx)).1.wd d').diskAt y = (l.foldl ckptOne (f, tx)).1.diskAt y := by
  induction l with
  | nil => intro _ f d tx hd; exact ⟨d, rfl, hd⟩
  | cons e l ih =>
    intro hS f d tx hd
    rw [List.foldl_cons, List.foldl_cons]
    have he : ckptOne (f.wd d, tx) e =
        (({ f with disk := Assoc.set f.disk e.1 (f.diskAt e.2) } : FileSt).wd (Assoc.set d e.1 (f.diskAt e.2)),
          freeWalId tx e.1 e.2) := by
      unfold ckptOne
      rw [show (f.wd d, tx).1.diskAt e.2 = f.diskAt e.2 from hd e.2 (hS e List.mem_cons_self)]
      rfl
    rw [he]
    exact ih (fun e' he' => hS e' (List.mem_cons_of_mem _ he')) _ _ _
      (fun y hy => wd_set_agree f d e.1 (f.diskAt e.2) y (hd y hy))

theorem doCheckpoint_wd (S : Nat → Prop) (f : FileSt) (d : Assoc Content) (tx : TxSt)
    (hS : ∀ e ∈ f.walMap, S e.2) (hd : ∀ y, S y → (f.wd d).diskAt y = f.diskAt y) :
    ∃ d', doCheckpoint (f.wd d) tx = ((doCheckpoint f tx).1.wd d', (doCheckpoint f tx).2) ∧
      ∀ y, S y → ((doCheckpoint f tx).1.wd d').diskAt y = (doCheckpoint f tx).1.diskAt y := by
  unfold doCheckpoint
  rw [show ckptTodo (f.wd d) tx = ckptTodo f tx from rfl]
  split
  · exact ⟨d, rfl, hd⟩
  · split
    · exact ⟨d, rfl, hd⟩
    · have hS' : ∀ e ∈ ckptTodo f tx, S e.2 := fun e he => hS e (List.mem_filter.mp he).1
      obtain ⟨d', e1, a1⟩ := ckptFold_wd S (ckptTodo f tx) hS' f d tx hd
      exact ⟨d', by rw [e1], a1⟩

/-- the physical pages the live page ids of the committed state `f0` are read from -/
def liveAt (f0 : FileSt) (live : List Nat) (y : Nat) : Prop := ∃ id ∈ live, y = f0.physOf id

/-- two running transactions that differ only in the disk content of pages outside `S` and in the
    abstract store of pages the client does not own -/
structure Sim (S : Nat → Prop) (s1 s2 : ERunSt) : Prop where
  f : s1.f = s2.f.wd s1.f.disk
  disk : ∀ y, S y → s1.f.diskAt y = s2.f.diskAt y
  tx : s1.tx = s2.tx
  cur : s1.cur = s2.cur
  σ : ∀ j ∈ s2.cur, s1.σ j = s2.σ j

theorem sim_step_alloc {S : Nat → Prop} (s2 : ERunSt) (d : Assoc Content) (σ1 : Nat → Option Content)
    (hd : ∀ y, S y → (s2.f.wd d).diskAt y = s2.f.diskAt y) (hσ : ∀ j ∈ s2.cur, σ1 j = s2.σ j) (n : Nat) :
    Sim S ((EOp.alloc n).step ⟨s2.f.wd d, s2.tx, s2.cur, σ1⟩) ((EOp.alloc n).step s2) := by
  simp only [EOp.step]
  have h1 := txAlloc_wd s2.f d s2.tx n
  cases hr : txAlloc s2.f s2.tx n with
  | error e =>
    rw [hr] at h1
    simp only [WdRes] at h1
    simp only [h1]
    exact ⟨rfl, hd, rfl, rfl, hσ⟩
  | ok r =>
    obtain ⟨f', tx', ids⟩ := r
    rw [hr] at h1
    obtain ⟨d', e1, a1⟩ := h1
    simp only [e1]
    refine ⟨rfl, fun y hy => a1 y (hd y hy), rfl, rfl, ?_⟩
    intro j hj
    show (if j ∈ ids then none else σ1 j) = (if j ∈ ids then none else s2.σ j)
    by_cases hji : j ∈ ids
    · simp [hji]
    · simp only [hji, if_false]
      rcases List.mem_append.mp hj with hj | hj
      · exact hσ j hj
      · exact absurd hj hji

theorem sim_step_free {S : Nat → Prop} (s2 : ERunSt) (d : Assoc Content) (σ1 : Nat → Option Content)
    (hd : ∀ y, S y → (s2.f.wd d).diskAt y = s2.f.diskAt y) (hσ : ∀ j ∈ s2.cur, σ1 j = s2.σ j) (id : Nat) :
    Sim S ((EOp.free id).step ⟨s2.f.wd d, s2.tx, s2.cur, σ1⟩) ((EOp.free id).step s2) := by
  simp only [EOp.step]
  by_cases hid : id ∈ s2.cur
  · simp only [hid, if_true]
    have h1 := txFree_wd s2.f d s2.tx id
    cases hr : txFree s2.f s2.tx id with
    | error e =>
      rw [hr] at h1
      simp only [WdRes] at h1
      simp only [h1]
      exact ⟨rfl, hd, rfl, rfl, hσ⟩
    | ok r =>
      obtain ⟨f', tx'⟩ := r
      rw [hr] at h1
      obtain ⟨d', e1, a1⟩ := h1
      simp only [e1]
      exact ⟨rfl, fun y hy => a1 y (hd y hy), rfl, rfl, fun j hj => hσ j ((mem_filter_ne _ _ _).mp hj).1⟩
  · simp only [hid, if_false]
    exact ⟨rfl, hd, rfl, rfl, hσ⟩

theorem sim_step_write {f0 : FileSt} {live : List Nat} (s2 : ERunSt) (h : RunInv f0 live s2)
    (d : Assoc Content) (σ1 : Nat → Option Content)
    (hd : ∀ y, liveAt f0 live y → (s2.f.wd d).diskAt y = s2.f.diskAt y) (hσ : ∀ j ∈ s2.cur, σ1 j = s2.σ j)
    (id : Nat) (mode : WMode) (st : Nat) :
    Sim (liveAt f0 live) ((EOp.write id mode st).step ⟨s2.f.wd d, s2.tx, s2.cur, σ1⟩)
      ((EOp.write id mode st).step s2) := by
  simp only [EOp.step]
  by_cases hid : id ∈ s2.cur
  · simp only [hid, if_true]
    rw [txWrite_wd h.tx d (fun i hi => hd _ ⟨i, hi, rfl⟩) id hid mode st]
    cases txWrite s2.f s2.tx id mode st with
    | error e => exact ⟨rfl, hd, rfl, rfl, hσ⟩
    | ok tx =>
      refine ⟨rfl, hd, rfl, rfl, ?_⟩
      intro j hj
      show (if j = id then some (wr mode id st ((σ1 id).getD {})) else σ1 j) =
        (if j = id then some (wr mode id st ((s2.σ id).getD {})) else s2.σ j)
      rw [hσ id hid, hσ j hj]
  · simp only [hid, if_false]
    exact ⟨rfl, hd, rfl, rfl, hσ⟩

theorem sim_step_load {f0 : FileSt} {live : List Nat} (s2 : ERunSt) (h : RunInv f0 live s2)
    (d : Assoc Content) (σ1 : Nat → Option Content)
    (hd : ∀ y, liveAt f0 live y → (s2.f.wd d).diskAt y = s2.f.diskAt y) (hσ : ∀ j ∈ s2.cur, σ1 j = s2.σ j)
    (id : Nat) :
    Sim (liveAt f0 live) ((EOp.load id).step ⟨s2.f.wd d, s2.tx, s2.cur, σ1⟩) ((EOp.load id).step s2) := by
  simp only [EOp.step]
  by_cases hid : id ∈ s2.cur
  · simp only [hid, if_true]
    rw [txLoad_wd h.tx d (fun i hi => hd _ ⟨i, hi, rfl⟩) id hid]
    cases txLoad s2.f s2.tx id with
    | error e => exact ⟨rfl, hd, rfl, rfl, hσ⟩
    | ok tx => exact ⟨rfl, hd, rfl, rfl, hσ⟩
  · simp only [hid, if_false]
    exact ⟨rfl, hd, rfl, rfl, hσ⟩

theorem sim_step_read {f0 : FileSt} {live : List Nat} (s2 : ERunSt) (h : RunInv f0 live s2)
    (d : Assoc Content) (σ1 : Nat → Option Content)
    (hd : ∀ y, liveAt f0 live y → (s2.f.wd d).diskAt y = s2.f.diskAt y) (hσ : ∀ j ∈ s2.cur, σ1 j = s2.σ j)
    (id : Nat) :
    Sim (liveAt f0 live) ((EOp.read id).step ⟨s2.f.wd d, s2.tx, s2.cur, σ1⟩) ((EOp.read id).step s2) := by
  simp only [EOp.step]
  by_cases hid : id ∈ s2.cur
  · simp only [hid, if_true]
    rw [txRead_wd h.tx d (fun i hi => hd _ ⟨i, hi, rfl⟩) id hid]
    cases txRead s2.f s2.tx id with
    | error e => exact ⟨rfl, hd, rfl, rfl, hσ⟩
    | ok r => exact ⟨rfl, hd, rfl, rfl, hσ⟩
  · simp only [hid, if_false]
    exact ⟨rfl, hd, rfl, rfl, hσ⟩

theorem sim_step_flushPage {S : Nat → Prop} (s2 : ERunSt) (d : Assoc Content) (σ1 : Nat → Option Content)
    (hd : ∀ y, S y → (s2.f.wd d).diskAt y = s2.f.diskAt y) (hσ : ∀ j ∈ s2.cur, σ1 j = s2.σ j) (id : Nat) :
    Sim S ((EOp.flushPage id).step ⟨s2.f.wd d, s2.tx, s2.cur, σ1⟩) ((EOp.flushPage id).step s2) := by
  simp only [EOp.step]
  by_cases hid : id ∈ s2.cur
  · simp only [hid, if_true]
    have h1 := flushPageOp_wd s2.f d s2.tx id
    cases hr : flushPageOp s2.f s2.tx id with
    | error e =>
      rw [hr] at h1
      simp only [WdRes] at h1
      simp only [h1]
      exact ⟨rfl, hd, rfl, rfl, hσ⟩
    | ok r =>
      obtain ⟨f', tx', w⟩ := r
      rw [hr] at h1
      obtain ⟨d', e1, a1⟩ := h1
      simp only [e1]
      exact ⟨rfl, fun y hy => a1 y (hd y hy), rfl, rfl, hσ⟩
  · simp only [hid, if_false]
    exact ⟨rfl, hd, rfl, rfl, hσ⟩

theorem sim_step_flushAll {S : Nat → Prop} (s2 : ERunSt) (d : Assoc Content) (σ1 : Nat → Option Content)
    (hd : ∀ y, S y → (s2.f.wd d).diskAt y = s2.f.diskAt y) (hσ : ∀ j ∈ s2.cur, σ1 j = s2.σ j)
    (order : List Nat) :
    Sim S ((EOp.flushAll order).step ⟨s2.f.wd d, s2.tx, s2.cur, σ1⟩) ((EOp.flushAll order).step s2) := by
  simp only [EOp.step]
  have h1 := flushList_wd order s2.f d s2.tx
  cases hr : flushList s2.f s2.tx order with
  | error e =>
    rw [hr] at h1
    simp only [WdRes] at h1
    simp only [h1]
    exact ⟨rfl, hd, rfl, rfl, hσ⟩
  | ok r =>
    obtain ⟨f', tx', w⟩ := r
    rw [hr] at h1
    obtain ⟨d', e1, a1⟩ := h1
    simp only [e1]
    exact ⟨rfl, fun y hy => a1 y (hd y hy), rfl, rfl, hσ⟩

/-- the overwrite pages of the committed mapping are pages live page ids are read from -/
theorem walMap_liveAt {f0 : FileSt} {live : List Nat} (he : EngInv f0 live) :
    ∀ e ∈ f0.walMap, liveAt f0 live e.2 := by
  intro e hm
  have hg := Assoc.get?_of_mem f0.walMap he.keys e.1 e.2 hm
  exact ⟨e.1, he.mapKey e.1 e.2 hg, (physOf_some f0 e.1 e.2 hg).symm⟩

theorem sim_step_checkpoint {f0 : FileSt} {live : List Nat} (he : EngInv f0 live) (s2 : ERunSt)
    (h : RunInv f0 live s2) (d : Assoc Content) (σ1 : Nat → Option Content)
    (hd : ∀ y, liveAt f0 live y → (s2.f.wd d).diskAt y = s2.f.diskAt y) (hσ : ∀ j ∈ s2.cur, σ1 j = s2.σ j) :
    Sim (liveAt f0 live) (EOp.checkpoint.step ⟨s2.f.wd d, s2.tx, s2.cur, σ1⟩) (EOp.checkpoint.step s2) := by
  simp only [EOp.step]
  have hS : ∀ e ∈ s2.f.walMap, liveAt f0 live e.2 := by
    rw [h.tx.sameMap]; exact walMap_liveAt he
  obtain ⟨d', e1, a1⟩ := doCheckpoint_wd (liveAt f0 live) s2.f d s2.tx hS hd
  rw [e1]
  exact ⟨rfl, a1, rfl, rfl, hσ⟩

theorem sim_shape {S : Nat → Prop} {s1 s2 : ERunSt} (h : Sim S s1 s2) :
    s1 = ⟨s2.f.wd s1.f.disk, s2.tx, s2.cur, s1.σ⟩ := by
  obtain ⟨f1, tx1, cur1, σ1⟩ := s1
  have h1 := h.f; have h2 := h.tx; have h3 := h.cur
  dsimp only at h1 h2 h3 ⊢
  rw [← h1, h2, h3]

theorem sim_step {f0 : FileSt} {live : List Nat} (he : EngInv f0 live) (s1 s2 : ERunSt)
    (h : RunInv f0 live s2) (hs : Sim (liveAt f0 live) s1 s2) (op : EOp) :
    Sim (liveAt f0 live) (op.step s1) (op.step s2) := by
  have hd : ∀ y, liveAt f0 live y → (s2.f.wd s1.f.disk).diskAt y = s2.f.diskAt y := by
    intro y hy; rw [← hs.f]; exact hs.disk y hy
  rw [sim_shape hs]
  cases op with
  | alloc n => exact sim_step_alloc s2 _ _ hd hs.σ n
  | write id mode st => exact sim_step_write s2 h _ _ hd hs.σ id mode st
  | load id => exact sim_step_load s2 h _ _ hd hs.σ id
  | read id => exact sim_step_read s2 h _ _ hd hs.σ id
  | free id => exact sim_step_free s2 _ _ hd hs.σ id
  | flushPage id => exact sim_step_flushPage s2 _ _ hd hs.σ id
  | flushAll order => exact sim_step_flushAll s2 _ _ hd hs.σ order
  | checkpoint => exact sim_step_checkpoint he s2 h _ _ hd hs.σ

theorem sim_run {f0 : FileSt} {live : List Nat} (he : EngInv f0 live) (ops : List EOp) (s1 s2 : ERunSt)
    (h : RunInv f0 live s2) (hs : Sim (liveAt f0 live) s1 s2) :
    Sim (liveAt f0 live) (runEOps s1 ops) (runEOps s2 ops) := by
  induction ops generalizing s1 s2 with
  | nil => exact hs
  | cons op ops ih => exact ih _ _ (runinv_step he s2 op h) (sim_step he s1 s2 h hs op)

/-! ### a committed state that is `f0` up to the disk content of pages no live page id is read from -/

structure SameCommitted (f0 : FileSt) (live : List Nat) (f1 : FileSt) : Prop where
  alloc : f1.alloc = f0.alloc
  walMap : f1.walMap = f0.walMap
  hdr : SameHdr f0 f1
  disk : ∀ id ∈ live, f1.diskAt (f0.physOf id) = f0.diskAt (f0.physOf id)

theorem sameCommitted_wd {f0 : FileSt} {live : List Nat} {f1 : FileSt} (h : SameCommitted f0 live f1) :
    f1 = f0.wd f1.disk := by
  obtain ⟨a, m, wp, r, t, dk, st⟩ := f1
  have h1 := h.alloc; have h2 := h.walMap; have h3 := h.hdr
  obtain ⟨h3, h4, h5, h6⟩ := h3
  dsimp only at h1 h2 h3 h4 h5 h6
  subst h1 h2 h3 h4 h5 h6
  rfl

theorem sameCommitted_read {f0 : FileSt} {live : List Nat} {f1 : FileSt} (h : SameCommitted f0 live f1) :
    ∀ id ∈ live, f1.readPage id = f0.readPage id :=
  fun id hid => readPage_congr id h.walMap (h.disk id hid)

theorem sameCommitted_begin {f0 : FileSt} {live : List Nat} {f1 : FileSt} (h : SameCommitted f0 live f1)
    (ov : Bool) (g wl : Nat) : f1.beginTx ov g wl = f0.beginTx ov g wl := by
  unfold FileSt.beginTx
  rw [h.alloc, h.hdr.1]

theorem sameCommitted_engInv {f0 : FileSt} {live : List Nat} {f1 : FileSt} (he : EngInv f0 live)
    (h : SameCommitted f0 live f1) : EngInv f1 live :=
  engInv_congr he h.alloc h.walMap h.hdr.2.2.2

/-- the two transactions begun on `f1` and on `f0` are in the simulation relation -/
theorem sim_start {f0 : FileSt} {live : List Nat} {f1 : FileSt} (h : SameCommitted f0 live f1)
    (ov : Bool) (g wl : Nat) :
    Sim (liveAt f0 live)
      ⟨f1, f1.beginTx ov g wl, live, fun id => some (f1.readPage id)⟩
      ⟨f0, f0.beginTx ov g wl, live, fun id => some (f0.readPage id)⟩ := by
  refine ⟨sameCommitted_wd h, ?_, sameCommitted_begin h ov g wl, rfl, ?_⟩
  · rintro y ⟨id, hid, rfl⟩; exact h.disk id hid
  · intro j hj
    show some (f1.readPage j) = some (f0.readPage j)
    rw [sameCommitted_read h j hj]

/-- ending a transaction without commit -/
theorem sameCommitted_abort {f0 : FileSt} {live : List Nat} {f : FileSt} {tx : TxSt} {cur : List Nat}
    (he : EngInv f0 live) (h : TxInv f0 live f tx cur) (hh : SameHdr f0 f) :
    SameCommitted f0 live (txAbort f tx) :=
  ⟨(abort_spec he h).2.1, h.sameMap, hh, h.r0⟩

/-- a failing commit -/
theorem sameCommitted_failed {f0 : FileSt} {live : List Nat} {f : FileSt} {tx : TxSt} {cur : List Nat}
    (he : EngInv f0 live) (h : TxInv f0 live f tx cur) (hh : SameHdr f0 f) (hfl : AllFlushed tx)
    (hfail : (commitAfterFlush f tx).2.1 ≠ .ok) : SameCommitted f0 live (commitAfterFlush f tx).1 := by
  obtain ⟨-, r2, r3, r4⟩ := (commit_data he h hfl).2 hfail
  refine ⟨r2, r3, sameHdr_trans hh (commit_fail_hdr f tx hfail), ?_⟩
  intro id hid
  have := r4 id hid
  unfold FileSt.readPage at this
  rw [show (commitAfterFlush f tx).1.physOf id = f0.physOf id by unfold FileSt.physOf; rw [r3]] at this
  exact this

/-! ### the commit does not depend on those disk pages either -/

theorem cPhase1_wd (S : Nat → Prop) (f : FileSt) (d : Assoc Content) (tx : TxSt)
    (hS : ∀ e ∈ f.walMap, S e.2) (hd : ∀ y, S y → (f.wd d).diskAt y = f.diskAt y) :
    ∃ d', cPhase1 (f.wd d) tx = ((cPhase1 f tx).1.wd d', (cPhase1 f tx).2) ∧
      ∀ y, S y → ((cPhase1 f tx).1.wd d').diskAt y = (cPhase1 f tx).1.diskAt y := by
  unfold cPhase1
  rw [show cCkpt (f.wd d) tx = cCkpt f tx from rfl]
  split
  · exact doCheckpoint_wd S f d tx hS hd
  · exact ⟨d, rfl, hd⟩

theorem commit_wd (S : Nat → Prop) (f : FileSt) (d : Assoc Content) (tx : TxSt)
    (hS : ∀ e ∈ f.walMap, S e.2) (hd : ∀ y, S y → (f.wd d).diskAt y = f.diskAt y) :
    ∃ d', commitAfterFlush (f.wd d) tx = ((commitAfterFlush f tx).1.wd d', (commitAfterFlush f tx).2) ∧
      ∀ y, S y → ((commitAfterFlush f tx).1.wd d').diskAt y = (commitAfterFlush f tx).1.diskAt y := by
  obtain ⟨d', e1, a1⟩ := cPhase1_wd S f d tx hS hd
  have c1 : cWalUpd (f.wd d) tx = cWalUpd f tx := rfl
  have c2 : cNewWal (f.wd d) tx = cNewWal f tx := by
    unfold cNewWal; rw [e1]; rfl
  have c3 : cTx3 (f.wd d) tx = cTx3 f tx := by
    unfold cTx3; rw [e1, c1]; rfl
  have c4 : cAllocUpd (f.wd d) tx = cAllocUpd f tx := by
    unfold cAllocUpd; rw [e1, c1]; rfl
  have c5 : cWalRes (f.wd d) tx = cWalRes f tx := by
    unfold cWalRes; rw [e1, c1, c2, c3]; rfl
  rw [commitAfterFlush_eq, commitAfterFlush_eq]
  unfold commitAfterFlush'
  rw [c1, c2, c3, c4, c5, e1]
  cases cWalRes f tx with
  | none => exact ⟨d', rfl, a1⟩
  | some r =>
    obtain ⟨a, ta, regs⟩ := r
    dsimp only
    cases fileCommitAlloc a ta (cAllocUpd f tx || !regs.isEmpty) with
    | none => exact ⟨d', rfl, a1⟩
    | some r2 => exact ⟨d', rfl, a1⟩

end TxVerif
