/-
  Space accounting of the queue model: where the head page is relative to the last acknowledged event, and how
  many pages the chain from the header of an event to the tail has.
-/
import TxVerif.Proofs.PQQueueAck
import TxVerif.Proofs.PQConc
namespace TxVerif

/-- the page in which the header of event `j < F` starts holds an event header (`off ≠ 0`) and its first
    event is `j` or an earlier one -/
theorem hdr_page_fields (P S : Nat) (hS : S + 28 = P) (h4 : 4 ≤ S) (evs : List (List UInt8)) (F : Nat)
    (C : List QPage) (hC : CRel S evs F C) (hF : F ≤ evs.length) (j : Nat) (hj : j < F)
    (hsz : ∀ e ∈ evs, e.length < 2 ^ 32) :
    ∃ Y, C[(qhdr S evs j).1]? = some Y ∧ Y.off ≠ 0 ∧ Y.first ≤ j := by
  have hjl : j < evs.length := by omega
  by_cases hpad : qpad S evs j
  · obtain ⟨p, hp, hp1, hp2⟩ := pad_page P S hS h4 evs F C hC hF j hj hsz hpad
    have hq : qhdr S evs j = ((qW S evs j).length + 1, 28) := by simp [qhdr, hpad]
    rw [hq]
    exact ⟨p, hp, by rw [hp1]; decide, by rw [hp2]; exact Nat.le_refl _⟩
  · obtain ⟨h, t, e1, hx, _⟩ := chain_at S evs F C hC hF j hj
    have hq : qhdr S evs j = ((qW S evs j).length, 28 + (qc S evs j).payload.length) := by simp [qhdr, hpad, qpos]
    rw [hq]
    have hnp : ¬ (S - (qc S evs j).payload.length < 4) := hpad
    obtain ⟨q, qs, e2, _, hq2⟩ := writeEvent_head S (qc S evs j) j evs[j] h t hx
    have hext := hq2 hnp
    have ho := hext.2 (commitHdr_off_ne _ _ _)
    refine ⟨q, ?_, ?_, ?_⟩
    · have := congrArg List.head? e1
      rw [e2] at this
      simpa [List.head?_drop] using this
    · rw [ho.1]; exact commitHdr_off_ne _ _ _
    · rw [ho.2]
      simp only [commitHdr]
      split
      · exact Nat.le_refl _
      · rename_i h0
        -- the page already held headers: of events before `j`
        have hw : WInv S (qc S evs j) (0 + (evs.take j).length) := writeEvents_inv S h4 (evs.take j) QPage.fresh 0 (WInv_fresh S 0)
        have hl : (evs.take j).length = j := by rw [List.length_take]; omega
        rw [hl, Nat.zero_add] at hw
        have h1 := hw.2.2 h0
        rcases hw.2.1 with ⟨hz, _⟩ | ⟨_, _, hfl⟩
        · exact absurd hz h0
        · omega

/-- the first kept page of an ACK up to `endID ≥ 1` (its id range reaches `endID - 1`) is not in front of the
    page in which the header of the last acknowledged event starts -/
theorem ack_head_ge (P S : Nat) (hS : S + 28 = P) (h4 : 4 ≤ S) (evs : List (List UInt8)) (F : Nat)
    (C : List QPage) (hC : CRel S evs F C) (hF : F ≤ evs.length) (hsz : ∀ e ∈ evs, e.length < 2 ^ 32)
    (x : Nat) (K : QPage) (hK : C[x]? = some K) (hoff : K.off ≠ 0) (endID : Nat) (h1 : 1 ≤ endID)
    (h2 : endID ≤ F) (hlast : endID ≤ K.last + 1) : (qhdr S evs (endID - 1)).1 ≤ x := by
  have hF0 : 0 < F := by omega
  obtain ⟨Y, hY, hYo, hYf⟩ := hdr_page_fields P S hS h4 evs F C hC hF (endID - 1) (by omega) hsz
  rcases Nat.lt_or_ge x (qhdr S evs (endID - 1)).1 with hlt | hge
  · exfalso
    -- both pages on the exact layout, where the id ranges are ordered
    have hext := qV_ext S evs F C hC hF0
    obtain ⟨KV, hKV, hKp⟩ := ExtPages_getElem _ _ x K hext hK
    obtain ⟨YV, hYV, hYp⟩ := ExtPages_getElem _ _ _ Y hext hY
    have hR : IdRanges 0 (qV S evs F) (0 + (evs.take F).length) := by
      rw [qV_eq]
      have := (layoutFrom_ids S h4 (evs.take F) QPage.fresh 0 (WInv_fresh S 0)).1
      simpa [startId] using this
    have := IdRanges_order _ _ _ _ _ KV YV hR hKV hYV (by rw [← hKp.2.2.1]; exact hoff)
      (by rw [← hYp.2.2.1]; exact hYo) hlt
    rw [← hKp.2.1, ← hYp.1] at this
    omega
  · exact hge

/-! ## the pages from the header of an event to the tail -/

/-- the page the header of the next event goes to, and the padded page in front of it if there is one -/
theorem layoutFrom_reserve (S : Nat) (h4 : 4 ≤ S) (cur : QPage) (id : Nat) (e : List UInt8) (es : List (List UInt8)) :
    layoutFrom S cur id (e :: es) = (reserveHdr S cur).1 ++ layoutFrom S (reserveHdr S cur).2 id (e :: es) := by
  have hidem : reserveHdr S (reserveHdr S cur).2 = ([], (reserveHdr S cur).2) := by
    by_cases hp : S - cur.payload.length < 4
    · rw [reserveHdr_pad S cur hp]
      have : ¬ (S - QPage.fresh.payload.length < 4) := by simp; omega
      exact reserveHdr_nopad S _ this
    · rw [reserveHdr_nopad S cur hp]
      exact reserveHdr_nopad S cur hp
  rw [layoutFrom_cons, layoutFrom_cons]
  simp only [writeEvent, hidem, List.nil_append, List.append_assoc]

/-- number of pages of the chain on disk from the page in which the header of event `j < F` starts -/
theorem chain_pages_from (S : Nat) (h4 : 4 ≤ S) (evs : List (List UInt8)) (F : Nat) (C : List QPage)
    (hC : CRel S evs F C) (hF : F ≤ evs.length) (j : Nat) (hj : j < F) :
    C.length - (qhdr S evs j).1 =
      (layoutFrom S (reserveHdr S (qc S evs j)).2 j ((evs.take F).drop j)).length ∧
    (qhdr S evs j).1 ≤ C.length := by
  rcases hC with ⟨h0, _⟩ | ⟨_, p, hCe, _⟩
  · omega
  have hsplit : evs.take F = evs.take j ++ (evs.take F).drop j := by
    have := (List.take_append_drop j (evs.take F)).symm
    rwa [List.take_take, Nat.min_eq_left (by omega)] at this
  have hl : (evs.take j).length = j := by rw [List.length_take]; omega
  have hWF : qW S evs F = qW S evs j ++ (writeEvents S (qc S evs j) j ((evs.take F).drop j)).1 := by
    simp only [qW, qc, gW, gc]
    rw [hsplit, writeEvents_append, hl, Nat.zero_add, ← hsplit]
  have hlenC : C.length = (qW S evs j).length + (layoutFrom S (qc S evs j) j ((evs.take F).drop j)).length := by
    rw [hCe, hWF, layoutFrom_eq_writeEvents]
    simp only [List.length_append, List.length_cons, List.length_nil]
    omega
  have hne : (evs.take F).drop j ≠ [] := by
    intro h0
    have := congrArg List.length h0
    simp only [List.length_drop, List.length_take, List.length_nil] at this
    omega
  obtain ⟨e, es, hes⟩ := List.exists_cons_of_ne_nil hne
  have hq : (qhdr S evs j).1 = (qW S evs j).length + (reserveHdr S (qc S evs j)).1.length := by
    simp only [qhdr, qpad, qpos]
    by_cases hp : S - (qc S evs j).payload.length < 4
    · simp only [hp, if_true]; rw [reserveHdr_pad S _ hp]; rfl
    · simp only [hp, if_false]; rw [reserveHdr_nopad S _ hp]; rfl
  rw [hlenC, hq, hes, layoutFrom_reserve S h4 (qc S evs j) j e es, List.length_append]
  omega

/-- **pages held from the header of event `j`**: at most what the events `j … F - 1` need, with at most 3 bytes of
    padding per page, plus the part of the first page in front of the header and the last, partly filled page -/
theorem chain_pages_bound (S : Nat) (h4 : 4 ≤ S) (evs : List (List UInt8)) (F : Nat) (C : List QPage)
    (hC : CRel S evs F C) (hF : F ≤ evs.length) (j : Nat) (hj : j < F) :
    (C.length - (qhdr S evs j).1) * (S - 3) ≤ framedBytes ((evs.take F).drop j) + 2 * S - 7 := by
  rw [(chain_pages_from S h4 evs F C hC hF j hj).1]
  have hlen : (reserveHdr S (qc S evs j)).2.payload.length + 4 ≤ S := by
    by_cases hp : S - (qc S evs j).payload.length < 4
    · rw [reserveHdr_pad S _ hp]; simp; omega
    · rw [reserveHdr_nopad S _ hp]; simp only; omega
  have := layoutFrom_count S h4 ((evs.take F).drop j) (reserveHdr S (qc S evs j)).2 j (by omega)
  omega

end TxVerif
