/-
  `newWriter` on the tail page of a closed queue (`WState.reopen`, Model/PQQueue.lean) establishes the writer
  invariant `BufInv` (Proofs/PQWriter.lean) for the same finished events: closing and reopening the queue
  continues the same page chain.
-/
import TxVerif.Proofs.PQQueue
namespace TxVerif

theorem gW_full (S : Nat) (h4 : 4 ≤ S) (fin : List (List UInt8)) : ∀ p ∈ gW S 0 fin, p.payload.length = S :=
  writeEvents_full S h4 fin QPage.fresh 0 (by simp)

/-- what `newWriter` needs from the file: the visible chain is the layout of the events `fin`, all of which are
    persisted, and the tail offset is the end of that layout -/
theorem BufInv_reopen_of (S pages : Nat) (h4 : 4 ≤ S) (s : WState) (fin : List (List UInt8))
    (hvis0 : s.visible = layoutS S 0 (fin.take (s.tailId - 0)))
    (htoff : s.tailOff = if s.tailId = 0 then 0 else 28 + (gc S 0 (fin.take (s.tailId - 0))).payload.length)
    (hall : s.tailId = fin.length) :
    BufInv S 0 (s.reopen S pages) fin [] := by
  have hv := hvis0
  simp only [Nat.sub_zero, hall, List.take_length] at hv
  by_cases hfin : fin = []
  · -- nothing was ever flushed: a new writer on an empty queue
    subst hfin
    have hvis : s.visible = [] := by rw [hv]; simp [layoutS]
    have hp : s.persisted = [] := by
      have hl := congrArg List.length hvis
      simp only [WState.visible, cutAt_length, List.length_nil] at hl
      exact List.length_eq_zero_iff.mp hl
    have ht : s.tailOff = 0 := by
      have := htoff
      simp only [List.length_nil] at hall
      rwa [if_pos hall] at this
    have e : s.reopen S pages = WState.init S pages 0 := by
      simp only [List.length_nil] at hall
      simp [WState.reopen, hp, cutAt, ht, hall, WState.init]
    rw [e]
    exact BufInv_init S pages 0 h4
  · rw [layoutS_ne S 0 fin hfin] at hv
    -- the chain on disk
    obtain ⟨xs, p, e1, e2⟩ : ∃ xs p, s.persisted = xs ++ [p] ∧
        s.visible = xs ++ [{ p with payload := p.payload.take (s.tailOff - 28) }] := by
      rcases cutAt_shape s.persisted s.tailOff with ⟨_, e2⟩ | r
      · simp only [WState.visible] at hv; rw [e2] at hv; simp at hv
      · exact r
    rw [e2] at hv
    obtain ⟨hxs, hlast⟩ := concat_inj hv
    have hgl : (cutAt s.persisted s.tailOff).getLast? = some (gc S 0 fin) := by
      have : cutAt s.persisted s.tailOff = gW S 0 fin ++ [gc S 0 fin] := by
        have := e2; simp only [WState.visible] at this; rw [this, hxs, hlast]
      rw [this]; simp
    have hdl : s.persisted.dropLast = gW S 0 fin := by rw [e1, hxs]; simp
    have hvis' : (s.reopen S pages).visible = s.visible := by
      simp only [WState.reopen, hgl, WState.visible]
    have hfull := map_render_full S (gW S 0 fin) (gW_full S h4 fin)
    by_cases hpad : S - (gc S 0 fin).payload.length < 4
    · -- the header of the next event goes to a new page
      have hb : ghb S 0 fin = QPage.fresh := by simp [ghb, reserveHdr, hpad]
      have er : s.reopen S pages =
          { pre := [⟨gc S 0 fin, false, true⟩],
            ev := [{ BPage.new with q := { BPage.new.q with payload := BPage.new.q.payload ++ [0, 0, 0, 0] } }],
            hdrOff := 28 + BPage.new.q.payload.length,
            avail := ((S * pages : Nat) : Int) - (gc S 0 fin).payload.length - 4,
            eventID := s.tailId, eventBytes := 0, activeEventCount := 0,
            persisted := s.persisted, tailOff := s.tailOff, tailId := s.tailId } := by
        simp [WState.reopen, hgl, reserveHdrBuf, hpad]
      refine ⟨?_, ?_, ?_, ?_, ⟨gW S 0 fin, ?_, ?_, ?_⟩, ?_, ?_, Nat.zero_le _, ?_, ?_, ?_⟩
      · rw [er, hb, appendData_nil]; rfl
      · rw [er, hb]; rfl
      · rw [er]; rfl
      · rw [er]; simp [hall]
      · rw [er]
        simp only [List.map_cons, List.map_nil, List.map_append, hfull, reserveHdr_pad_render S _ hpad]
      · intro _; rw [er]; simp only [hdl, hfull]
      · intro hh; rw [er] at hh; simp [WState.headAssigned] at hh
      · intro _; rw [er]; exact ⟨[], ⟨gc S 0 fin, false, true⟩, rfl, rfl⟩
      · rw [hvis', hvis0]; simp only [WState.reopen, hgl]
      · simp only [WState.reopen, hgl]; rw [hall]; omega
      · left
        rw [er]
        refine ⟨by simp, by simp, by simp [WState.hpDirty, BPage.new], by simp [hall]⟩
      · have := htoff
        simp only [WState.reopen, hgl]
        exact this
    · have hb : ghb S 0 fin = gc S 0 fin := by simp [ghb, reserveHdr, hpad]
      have er : s.reopen S pages =
          { pre := [],
            ev := [{ q := { gc S 0 fin with payload := (gc S 0 fin).payload ++ [0, 0, 0, 0] }, dirty := false, assigned := true }],
            hdrOff := 28 + (gc S 0 fin).payload.length,
            avail := ((S * pages : Nat) : Int) - (gc S 0 fin).payload.length - 4,
            eventID := s.tailId, eventBytes := 0, activeEventCount := 0,
            persisted := s.persisted, tailOff := s.tailOff, tailId := s.tailId } := by
        simp [WState.reopen, hgl, reserveHdrBuf, hpad]
      refine ⟨?_, ?_, ?_, ?_, ⟨gW S 0 fin, ?_, ?_, ?_⟩, ?_, ?_, Nat.zero_le _, ?_, ?_, ?_⟩
      · rw [er, hb, appendData_nil]; rfl
      · rw [er, hb]
      · rw [er]; rfl
      · rw [er]; simp [hall]
      · rw [er]
        simp only [List.map_nil, List.append_nil, hfull, reserveHdr, hpad, if_false]
      · intro _; rw [er]; simp only [hdl, hfull]
      · intro hh; rw [er] at hh; simp [WState.headAssigned] at hh
      · intro hp; exact absurd hp hpad
      · rw [hvis', hvis0]; simp only [WState.reopen, hgl]
      · simp only [WState.reopen, hgl]; rw [hall]; omega
      · left
        rw [er]
        refine ⟨by simp, by simp, by simp [WState.hpDirty], by simp [hall]⟩
      · have := htoff
        simp only [WState.reopen, hgl]
        exact this

theorem BufInv_reopen (S pages : Nat) (h4 : 4 ≤ S) (s : WState) (fin : List (List UInt8)) (cur : List UInt8)
    (h : BufInv S 0 s fin cur) (hall : s.tailId = fin.length) :
    BufInv S 0 (s.reopen S pages) fin [] :=
  BufInv_reopen_of S pages h4 s fin h.vis h.tailOff_eq hall

theorem reopen_fields (S pages : Nat) (s : WState) :
    (s.reopen S pages).persisted = s.persisted ∧ (s.reopen S pages).tailId = s.tailId ∧
    (s.reopen S pages).tailOff = s.tailOff ∧ (s.reopen S pages).activeEventCount = 0 := by
  unfold WState.reopen
  split <;> simp [WState.init]

end TxVerif
