import TxVerif.Model.Lock
namespace TxVerif

def b2n (b : Bool) : Nat := if b then 1 else 0

theorem countP_set {α} (p : α → Bool) : ∀ (l : List α) (i : Nat) (a x : α), l[i]? = some a →
    (l.set i x).countP p + b2n (p a) = l.countP p + b2n (p x)
  | [], i, a, x, h => by simp at h
  | y :: ys, 0, a, x, h => by
    simp only [List.getElem?_cons_zero, Option.some.injEq] at h
    subst h
    simp only [List.set_cons_zero, List.countP_cons, b2n]
    cases p y <;> cases p x <;> simp <;> omega
  | y :: ys, i + 1, a, x, h => by
    simp only [List.getElem?_cons_succ] at h
    have ih := countP_set p ys i a x h
    simp only [List.set_cons_succ, List.countP_cons]
    omega

structure LockInv (s : Sys) : Prop where
  shared : s.lock.shared = s.pcs.countP Pc.isReader
  reserved : b2n s.lock.reserved = s.pcs.countP Pc.isHolder
  pending : b2n s.lock.pending = s.pcs.countP Pc.isPend
  excl : 0 < s.pcs.countP Pc.isExcl → s.lock.shared = 0

theorem countP_idle_zero (pcs : List Pc) (h : ∀ pc ∈ pcs, pc = .rIdle ∨ pc = .wIdle ∨ pc = .cIdle)
    (p : Pc → Bool) (hp : p .rIdle = false ∧ p .wIdle = false ∧ p .cIdle = false) : pcs.countP p = 0 := by
  induction pcs with
  | nil => rfl
  | cons pc pcs ih =>
    have hpc := h pc (by simp)
    have ih' := ih (fun q hq => h q (by simp [hq]))
    rw [List.countP_cons, ih']
    rcases hpc with rfl | rfl | rfl <;> simp [hp.1, hp.2.1, hp.2.2]

theorem lockInv_init (pcs : List Pc) (h : ∀ pc ∈ pcs, pc = .rIdle ∨ pc = .wIdle ∨ pc = .cIdle) :
    LockInv { lock := {}, pcs := pcs } := by
  constructor
  · simp [countP_idle_zero pcs h Pc.isReader (by decide)]
  · simp [b2n, countP_idle_zero pcs h Pc.isHolder (by decide)]
  · simp [b2n, countP_idle_zero pcs h Pc.isPend (by decide)]
  · intro h0; simp [countP_idle_zero pcs h Pc.isExcl (by decide)] at h0

theorem isExcl_le_isPend (pcs : List Pc) : pcs.countP Pc.isExcl ≤ pcs.countP Pc.isPend :=
  List.countP_mono_left (fun pc _ h => by cases pc <;> simp_all [Pc.isExcl, Pc.isPend])

theorem isPend_le_isHolder (pcs : List Pc) : pcs.countP Pc.isPend ≤ pcs.countP Pc.isHolder :=
  List.countP_mono_left (fun pc _ h => by cases pc <;> simp_all [Pc.isHolder, Pc.isPend])

theorem isWriter_le_isHolder (pcs : List Pc) : pcs.countP Pc.isWriter ≤ pcs.countP Pc.isHolder :=
  List.countP_mono_left (fun pc _ h => by cases pc <;> simp_all [Pc.isHolder, Pc.isWriter])

/-- the protocol steps as a relation (one constructor per enabled case of `Act.fire`) -/
inductive Fire (l : LockSt) : Act → Pc → Pc → LockSt → Prop
  | rBegin : l.pending = false → Fire l .rBegin .rIdle .rActive { l with shared := l.shared + 1 }
  | rClose : Fire l .rClose .rActive .rDone { l with shared := l.shared - 1 }
  | wBegin : l.reserved = false → Fire l .wBegin .wIdle .wActive { l with reserved := true }
  | wAbort : Fire l .wAbort .wActive .wDone { l with reserved := false }
  | wCommitStart : Fire l .wCommitStart .wActive .wPending { l with pending := true }
  | wCommitFail : Fire l .wCommitFail .wPending .wDone { l with pending := false, reserved := false }
  | wExclusive : l.shared = 0 → Fire l .wExclusive .wPending .wExcl l
  | wFinish : Fire l .wFinish .wExcl .wDone { l with pending := false, reserved := false }
  | cBegin : l.reserved = false → Fire l .cBegin .cIdle .cPending { l with reserved := true, pending := true }
  | cExclusive : l.shared = 0 → Fire l .cExclusive .cPending .cExcl l
  | cFinish : Fire l .cFinish .cExcl .cDone { l with pending := false, reserved := false }

theorem fire_sound (l : LockSt) (a : Act) (pc pc' : Pc) (l' : LockSt) (h : a.fire l pc = some (pc', l')) :
    Fire l a pc pc' l' := by
  cases a <;> cases pc <;> simp only [Act.fire] at h <;>
    first
    | (cases h; done)
    | (cases h; constructor; done)
    | (split at h <;> first | (cases h; done) | (cases h; constructor; simp_all))

def Act.source : Act → Pc
  | .rBegin => .rIdle | .rClose => .rActive | .wBegin => .wIdle | .wAbort => .wActive
  | .wCommitStart => .wActive | .wCommitFail => .wPending | .wExclusive => .wPending | .wFinish => .wExcl
  | .cBegin => .cIdle | .cExclusive => .cPending | .cFinish => .cExcl

def Act.target : Act → Pc
  | .rBegin => .rActive | .rClose => .rDone | .wBegin => .wActive | .wAbort => .wDone
  | .wCommitStart => .wPending | .wCommitFail => .wDone | .wExclusive => .wExcl | .wFinish => .wDone
  | .cBegin => .cPending | .cExclusive => .cExcl | .cFinish => .cDone

theorem fire_src_tgt (l : LockSt) (a : Act) (pc pc' : Pc) (l' : LockSt) (h : a.fire l pc = some (pc', l')) :
    pc = a.source ∧ pc' = a.target := by
  have hF := fire_sound l a pc pc' l' h
  cases hF <;> exact ⟨rfl, rfl⟩

/-- the primitive operations of lock.go a protocol step consists of, in program order -/
def Act.ops : Act → List LockOp
  | .rBegin => [.sharedLock]
  | .rClose => [.sharedUnlock]
  | .wBegin => [.reservedLock]
  | .wAbort => [.reservedUnlock]
  | .wCommitStart => [.pendingLock]
  | .wCommitFail => [.pendingUnlock, .reservedUnlock]
  | .wExclusive => [.exclusiveLock]
  | .wFinish => [.exclusiveUnlock, .pendingUnlock, .reservedUnlock]
  | .cBegin => [.reservedLock, .pendingLock]
  | .cExclusive => [.exclusiveLock]
  | .cFinish => [.exclusiveUnlock, .pendingUnlock, .reservedUnlock]

/-- run primitive operations; `none` if one of them would block -/
def runOps (l : LockSt) : List LockOp → Option LockSt
  | [] => some l
  | op :: ops => if op.enabled l then runOps (op.apply l) ops else none

/-- a protocol step is exactly the execution of its primitive lock operations:
    it is enabled iff none of them blocks, and yields the same lock state -/
theorem fire_is_ops (l : LockSt) (a : Act) (pc pc' : Pc) (l' : LockSt) (h : a.fire l pc = some (pc', l')) :
    runOps l a.ops = some l' := by
  have hF := fire_sound l a pc pc' l' h
  obtain ⟨sh, pe, re⟩ := l
  cases hF <;> simp_all [runOps, Act.ops, LockOp.enabled, LockOp.apply]

/-- every protocol step preserves the lock invariant -/
theorem lockInv_step (s t : Sys) (hi : LockInv s) (i : Nat) (a : Act) (h : s.step i a = some t) : LockInv t := by
  unfold Sys.step at h
  cases hpc : s.pcs[i]? with
  | none => simp [hpc] at h
  | some pc =>
    simp only [hpc] at h
    cases hf : a.fire s.lock pc with
    | none => simp [hf] at h
    | some r =>
      obtain ⟨pc', l'⟩ := r
      simp only [hf, Option.some.injEq] at h
      subst h
      have c1 := countP_set Pc.isReader s.pcs i pc pc' hpc
      have c2 := countP_set Pc.isHolder s.pcs i pc pc' hpc
      have c3 := countP_set Pc.isPend s.pcs i pc pc' hpc
      have c4 := countP_set Pc.isExcl s.pcs i pc pc' hpc
      have m1 := isExcl_le_isPend s.pcs
      have m2 := isPend_le_isHolder s.pcs
      have m1' := isExcl_le_isPend (s.pcs.set i pc')
      have m2' := isPend_le_isHolder (s.pcs.set i pc')
      obtain ⟨h1, h2, h3, h4⟩ := hi
      have hF := fire_sound _ _ _ _ _ hf
      obtain ⟨l, pcs⟩ := s
      obtain ⟨sh, pe, re⟩ := l
      dsimp only at *
      cases hF <;> cases pe <;> cases re <;>
        simp only [b2n, Pc.isReader, Pc.isHolder, Pc.isPend, Pc.isExcl, Bool.false_eq_true, reduceIte,
          reduceCtorEq] at * <;>
        (constructor <;> (try dsimp only) <;> (try simp only [b2n, Bool.false_eq_true, reduceIte]) <;> (try omega) <;> (intro hx; omega))

theorem lockInv_reach (s : Sys) (h : s.Reach) : LockInv s := by
  induction h with
  | init pcs h => exact lockInv_init pcs h
  | step _ hs ih => obtain ⟨i, a, hstep⟩ := hs; exact lockInv_step _ _ ih i a hstep

end TxVerif
