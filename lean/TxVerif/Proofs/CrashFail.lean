import TxVerif.Model.CrashFail
import TxVerif.Proofs.Crash
namespace TxVerif

theorem touchesB_iff (op : TOp) (q : Nat) : touchesB op q = true ↔ touches op q := by
  cases op <;> simp [touchesB, touches]

/-! ### what a completed / failed sync does to the knowledge about pages -/

theorem applyOp_pages_congr (d m : Img) (op : TOp) (q : Nat) (h : d.pages q = m.pages q ∨ touches op q) :
    (applyOp d op).pages q = (applyOp m op).pages q := by
  cases op with
  | write p hh =>
    simp only [applyOp]
    by_cases e : q = p
    · simp [e]
    · simp only [e, if_false]; rcases h with h | h
      · exact h
      · simp only [touches] at h; omega
  | trunc n =>
    simp only [applyOp]
    by_cases e : n ≤ q
    · simp [e]
    · simp only [e, if_false]; rcases h with h | h
      · exact h
      · simp only [touches] at h; omega
  | hdr _ _ _ => rcases h with h | h
                 · exact h
                 · simp [touches] at h
  | sync => rcases h with h | h
            · exact h
            · simp [touches] at h

theorem foldl_pages_congr (ops : List TOp) (q : Nat) : ∀ (d m : Img),
    (d.pages q = m.pages q ∨ ∃ op ∈ ops, touches op q) →
    (ops.foldl applyOp d).pages q = (ops.foldl applyOp m).pages q := by
  induction ops with
  | nil =>
    intro d m h
    rcases h with h | ⟨_, ho, _⟩
    · exact h
    · simp at ho
  | cons op ops ih =>
    intro d m h
    simp only [List.foldl_cons]
    by_cases ht : touches op q
    · exact ih _ _ (Or.inl (applyOp_pages_congr d m op q (Or.inr ht)))
    · rcases h with h | ⟨o, ho, hto⟩
      · exact ih _ _ (Or.inl (applyOp_pages_congr d m op q (Or.inl h)))
      · rcases List.mem_cons.mp ho with rfl | ho
        · exact absurd hto ht
        · exact ih _ _ (Or.inr ⟨o, ho, hto⟩)

theorem applyOp_slots_congr (d m : Img) (op : TOp) (k : Nat) (h : d.slots k = m.slots k ∨ isHdrOn op k) :
    (applyOp d op).slots k = (applyOp m op).slots k := by
  cases op with
  | hdr s t st =>
    simp only [applyOp]
    by_cases e : k = s
    · simp [e]
    · simp only [e, if_false]; rcases h with h | h
      · exact h
      · simp only [isHdrOn] at h; omega
  | write _ _ => rcases h with h | h
                 · exact h
                 · simp [isHdrOn] at h
  | trunc _ => rcases h with h | h
               · exact h
               · simp [isHdrOn] at h
  | sync => rcases h with h | h
            · exact h
            · simp [isHdrOn] at h

theorem foldl_slots_congr (ops : List TOp) (k : Nat) : ∀ (d m : Img),
    (d.slots k = m.slots k ∨ ∃ op ∈ ops, isHdrOn op k) →
    (ops.foldl applyOp d).slots k = (ops.foldl applyOp m).slots k := by
  induction ops with
  | nil =>
    intro d m h
    rcases h with h | ⟨_, ho, _⟩
    · exact h
    · simp at ho
  | cons op ops ih =>
    intro d m h
    simp only [List.foldl_cons]
    by_cases ht : isHdrOn op k
    · exact ih _ _ (Or.inl (applyOp_slots_congr d m op k (Or.inr ht)))
    · rcases h with h | ⟨o, ho, hto⟩
      · exact ih _ _ (Or.inl (applyOp_slots_congr d m op k (Or.inl h)))
      · rcases List.mem_cons.mp ho with rfl | ho
        · exact absurd hto ht
        · exact ih _ _ (Or.inr ⟨o, ho, hto⟩)

theorem any_touchesB (ops : List TOp) (q : Nat) : ops.any (touchesB · q) = true ↔ ∃ op ∈ ops, touches op q := by
  simp only [List.any_eq_true, touchesB_iff]

/-! ### the invariant relating the acceptor's configuration and the real durable image -/

structure FSafe (reachOf : Nat → List (Nat × Hash)) (c : FCfg) (d : Img) : Prop where
  slotLe : c.base.aSlot ≤ 1
  img : ImgOk reachOf c.base.aSlot c.base.aTx c.base.aSt c.ghost d
  intactP : ∀ st, c.pendingSt = some st → ∀ p h, (p, h) ∈ reachOf st → d.pages p = some h
  /-- pages not marked unknown are known -/
  agree : ∀ q, c.unk q = false → d.pages q = c.base.durable.pages q
  /-- the header slots are known, except the slot a failed commit / restore wrote to -/
  slotsAgree : ∀ k, (c.phase = .normal ∨ k ≠ 1 - c.base.aSlot) → d.slots k = c.base.durable.slots k
  /-- the known contents of the inactive slot (what a restore writes) are older than the committed header -/
  mprev : ∀ t s, c.base.durable.slots (1 - c.base.aSlot) = some (t, s) → t < c.base.aTx
  quiet : c.phase = .normal → c.base.inflight = none → ∀ op ∈ c.base.pending, ClearOf (reachOf c.base.aSt) op
  inflP : c.phase = .normal → ∀ st, c.base.inflight = some st →
    ∃ old, c.base.pending = old ++ [.hdr (1 - c.base.aSlot) (c.base.aTx + 1) st] ∧
      ∀ op ∈ old, ClearOf (reachOf c.base.aSt) op ∧ ClearOf (reachOf st) op
  failedP : ∀ st', c.phase = .failed st' → c.base.pending = []
  restP : ∀ st', c.phase = .restoring st' → ∃ t s, c.base.pending = [.hdr (1 - c.base.aSlot) t s] ∧
    c.base.durable.slots (1 - c.base.aSlot) = some (t, s)

theorem ghost_pendingSt (c : FCfg) (s : Nat) (h : c.ghost = some s) : c.pendingSt = some s := by
  rcases c with ⟨b, u, ph⟩
  cases ph <;> simp_all [FCfg.ghost, FCfg.pendingSt]

/-- the durable image satisfies `ImgOk` also with the (weaker) parameter `pendingSt` -/
theorem FSafe.imgP {reachOf : Nat → List (Nat × Hash)} {c : FCfg} {d : Img} (hs : FSafe reachOf c d) :
    ImgOk reachOf c.base.aSlot c.base.aTx c.base.aSt c.pendingSt d :=
  ⟨hs.img.active,
   fun t s e => (hs.img.other t s e).imp id (fun ⟨e1, e2⟩ => ⟨e1, ghost_pendingSt c s e2⟩),
   hs.img.intact, hs.intactP⟩

/-- every pending operation of a safe configuration keeps `ImgOk` -/
theorem FSafe.pok {reachOf : Nat → List (Nat × Hash)} {c : FCfg} {d : Img} (hs : FSafe reachOf c d) :
    ∀ op ∈ c.base.pending, POk reachOf c.base.aSlot c.base.aTx c.base.aSt c.pendingSt op := by
  rcases c with ⟨b, u, ph⟩
  cases ph with
  | normal =>
    cases hi : b.inflight with
    | none =>
      intro op hop
      exact Or.inl ⟨hs.quiet rfl hi op hop, by intro s e; simp [FCfg.pendingSt, hi] at e⟩
    | some st =>
      obtain ⟨old, hp, hold⟩ := hs.inflP rfl st hi
      intro op hop
      simp only at hp hold
      rw [hp] at hop
      rcases List.mem_append.mp hop with hop | hop
      · refine Or.inl ⟨(hold op hop).1, ?_⟩
        intro s e
        simp only [FCfg.pendingSt, hi, Option.some.injEq] at e
        subst e; exact (hold op hop).2
      · simp only [List.mem_singleton] at hop
        subst hop
        exact Or.inr ⟨_, _, rfl, Or.inr ⟨rfl, by simp [FCfg.pendingSt, hi]⟩⟩
  | failed st' =>
    have hp := hs.failedP st' rfl
    intro op hop
    simp only at hp
    rw [hp] at hop; cases hop
  | restoring st' =>
    obtain ⟨t, s, hp, hm⟩ := hs.restP st' rfl
    intro op hop
    simp only at hp
    rw [hp] at hop
    simp only [List.mem_singleton] at hop
    subst hop
    exact Or.inr ⟨_, _, rfl, Or.inl (hs.mprev t s hm)⟩

/-- every crash image (and every outcome of a completed or failed sync) of a safe configuration is `ImgOk` -/
theorem FSafe.crashOk {reachOf : Nat → List (Nat × Hash)} {c : FCfg} {d i : Img} (hs : FSafe reachOf c d)
    (hc : CrashImg d c.base.pending i) : ImgOk reachOf c.base.aSlot c.base.aTx c.base.aSt c.pendingSt i :=
  imgOk_crash hs.slotLe hc hs.imgP hs.pok

/-- **the image invariant with failing syncs** -/
theorem fsafe_crash (reachOf : Nat → List (Nat × Hash)) (c : FCfg) (d : Img) (hs : FSafe reachOf c d) (i : Img)
    (hc : CrashImg d c.base.pending i) :
    ∃ st, recover i = some st ∧ (st = c.base.aSt ∨ c.pendingSt = some st) ∧
      ∀ p h, (p, h) ∈ reachOf st → i.pages p = some h :=
  recover_imgOk hs.slotLe (hs.crashOk hc)

theorem agree_sync (u : Nat → Bool) (ops : List TOp) (d m : Img) (h : ∀ q, u q = false → d.pages q = m.pages q) :
    ∀ q, (u q && !ops.any (touchesB · q)) = false → (ops.foldl applyOp d).pages q = (ops.foldl applyOp m).pages q := by
  intro q hq
  apply foldl_pages_congr
  cases hu : u q with
  | false => exact Or.inl (h q hu)
  | true =>
    simp only [hu, Bool.true_and, Bool.not_eq_false'] at hq
    exact Or.inr ((any_touchesB ops q).mp hq)

theorem agree_fail (u : Nat → Bool) (ops : List TOp) (d m d' : Img) (hc : CrashImg d ops d')
    (h : ∀ q, u q = false → d.pages q = m.pages q) :
    ∀ q, (u q || ops.any (touchesB · q)) = false → d'.pages q = m.pages q := by
  intro q hq
  simp only [Bool.or_eq_false_iff] at hq
  rw [crashImg_pages hc q ?_]
  · exact h q hq.1
  · intro op hop ht
    have := (any_touchesB ops q).mpr ⟨op, hop, ht⟩
    rw [hq.2] at this; cases this

/-- a sync (completed or failed) does not touch a header slot no pending operation writes to -/
theorem clear_slots {reach : List (Nat × Hash)} {d i : Img} {ops : List TOp} (hc : CrashImg d ops i)
    (hq : ∀ op ∈ ops, ClearOf reach op) (k : Nat) : i.slots k = d.slots k :=
  crashImg_slots hc k (fun o ho => clearOf_not_hdr _ o (hq o ho) k)

theorem fsafe_restoreStep (reachOf : Nat → List (Nat × Hash)) (c c' : FCfg) (d : Img) (s t st : Nat)
    (hs : FSafe reachOf c d) (h : c.restoreStep s t st = some c') : FSafe reachOf c' d := by
  rcases c with ⟨b, u, ph⟩
  cases ph with
  | normal => simp [FCfg.restoreStep] at h
  | restoring st' => simp [FCfg.restoreStep] at h
  | failed st' =>
    simp only [FCfg.restoreStep] at h
    split at h
    · rename_i hc
      simp only [Option.some.injEq] at h; subst h
      simp only [Bool.and_eq_true, beq_iff_eq] at hc
      obtain ⟨rfl, hm⟩ := hc
      refine ⟨hs.slotLe, hs.img, hs.intactP, hs.agree, ?_, hs.mprev, nofun, nofun, nofun, ?_⟩
      · intro k hk
        rcases hk with hk | hk
        · cases hk
        · exact hs.slotsAgree k (Or.inr hk)
      · intro _ _; exact ⟨t, st, rfl, hm⟩
    · cases h

/-- **the extended discipline preserves the invariant**, whatever a failing sync makes durable -/
theorem fsafe_step (reachOf : Nat → List (Nat × Hash)) (c c' : FCfg) (d d' : Img) (op : FOp)
    (hs : FSafe reachOf c d) (h : c.step reachOf op = some c') (hd : DurStep c d op d') : FSafe reachOf c' d' := by
  have hsyncOk : ∀ i, CrashImg d c.base.pending i →
      ImgOk reachOf c.base.aSlot c.base.aTx c.base.aSt c.pendingSt i := fun i hc => hs.crashOk hc
  rcases c with ⟨b, u, ph⟩
  cases op with
  | op o =>
    cases o with
    | write p hh =>
      simp only [DurStep] at hd; subst hd
      cases ph with
      | normal =>
        simp only [FCfg.step, Option.map_eq_some_iff] at h
        obtain ⟨b', hb, rfl⟩ := h
        simp only [Cfg.step] at hb
        split at hb
        · rename_i hc
          simp only [Option.some.injEq] at hb; subst hb
          simp only [Bool.and_eq_true, Option.isNone_iff_eq_none, Bool.not_eq_true', List.contains_eq_mem,
            decide_eq_false_iff_not] at hc
          refine ⟨hs.slotLe, hs.img, hs.intactP, hs.agree, hs.slotsAgree, hs.mprev, ?_, ?_, nofun, nofun⟩
          · intro _ _ o ho
            rcases List.mem_append.mp ho with ho | ho
            · exact hs.quiet rfl hc.1 o ho
            · simp only [List.mem_singleton] at ho; subst ho; exact hc.2
          · intro _ st hst; rw [show b.inflight = none from hc.1] at hst; cases hst
        · cases hb
      | failed st' => simp [FCfg.step] at h
      | restoring st' => simp [FCfg.step] at h
    | trunc n =>
      simp only [DurStep] at hd; subst hd
      cases ph with
      | normal =>
        simp only [FCfg.step, Option.map_eq_some_iff] at h
        obtain ⟨b', hb, rfl⟩ := h
        simp only [Cfg.step] at hb
        split at hb
        · rename_i hc
          simp only [Option.some.injEq] at hb; subst hb
          simp only [Bool.and_eq_true, Option.isNone_iff_eq_none, List.all_eq_true, decide_eq_true_eq] at hc
          refine ⟨hs.slotLe, hs.img, hs.intactP, hs.agree, hs.slotsAgree, hs.mprev, ?_, ?_, nofun, nofun⟩
          · intro _ _ o ho
            rcases List.mem_append.mp ho with ho | ho
            · exact hs.quiet rfl hc.1 o ho
            · simp only [List.mem_singleton] at ho; subst ho; exact hc.2
          · intro _ st hst; rw [show b.inflight = none from hc.1] at hst; cases hst
        · cases hb
      | failed st' => simp [FCfg.step] at h
      | restoring st' => simp [FCfg.step] at h
    | hdr s t st =>
      simp only [DurStep] at hd; subst hd
      cases ph with
      | normal =>
        simp only [FCfg.step] at h
        split at h
        · rename_i hunk
          simp only [Option.map_eq_some_iff] at h
          obtain ⟨b', hb, rfl⟩ := h
          simp only [Cfg.step] at hb
          split at hb
          · rename_i hc
            simp only [Option.some.injEq] at hb; subst hb
            simp only [Bool.and_eq_true, Option.isNone_iff_eq_none, List.all_eq_true, beq_iff_eq] at hc
            obtain ⟨⟨⟨⟨hi, hall⟩, rfl⟩, rfl⟩, hint⟩ := hc
            simp only [List.all_eq_true, Bool.not_eq_true'] at hunk
            refine ⟨hs.slotLe, hs.img, ?_, hs.agree, hs.slotsAgree, hs.mprev, ?_, ?_, nofun, nofun⟩
            · intro st'' hst p hh hm
              simp only [FCfg.pendingSt, Option.some.injEq] at hst; subst hst
              have hm' : p ∈ reachPages (reachOf st) := List.mem_map.mpr ⟨(p, hh), hm, rfl⟩
              rw [hs.agree p (hunk p hm')]
              exact intactB_spec reachOf _ _ hint p hh hm
            · intro _ hn; cases hn
            · intro _ st'' hst
              simp only [Option.some.injEq] at hst; subst hst
              exact ⟨b.pending, rfl, fun o ho => ⟨hs.quiet rfl hi o ho, pendClearB_spec _ o (hall o ho)⟩⟩
          · cases hb
        · cases h
      | failed st' =>
        simp only [FCfg.step] at h
        exact fsafe_restoreStep reachOf _ _ _ s t st hs h
      | restoring st' => simp [FCfg.step] at h
    | sync =>
      simp only [DurStep] at hd; subst hd
      cases ph with
      | normal =>
        simp only [FCfg.step, Cfg.step] at h
        cases hi : b.inflight with
        | none =>
          simp only [hi, Option.map_some, Option.some.injEq] at h; subst h
          have hq := hs.quiet rfl hi
          have hok := hsyncOk _ (crashImg_foldl _ _)
          simp only [FCfg.pendingSt, hi] at hok
          refine ⟨hs.slotLe, hok, ?_, agree_sync u b.pending d b.durable hs.agree, ?_, ?_, ?_, ?_, nofun, nofun⟩
          · intro st hst; simp [FCfg.pendingSt] at hst
          · intro k _
            show (b.pending.foldl applyOp d).slots k = (b.pending.foldl applyOp b.durable).slots k
            rw [foldl_applyOp_slots _ _ _ (fun o ho => clearOf_not_hdr _ o (hq o ho) _),
              foldl_applyOp_slots _ _ _ (fun o ho => clearOf_not_hdr _ o (hq o ho) _)]
            exact hs.slotsAgree k (Or.inl rfl)
          · intro t s
            show (b.pending.foldl applyOp b.durable).slots (1 - b.aSlot) = _ → _
            rw [foldl_applyOp_slots _ _ _ (fun o ho => clearOf_not_hdr _ o (hq o ho) _)]
            exact hs.mprev t s
          · intro _ _ o ho; cases ho
          · intro _ st hst; cases hst
        | some st =>
          simp only [hi, Option.map_some, Option.some.injEq] at h; subst h
          obtain ⟨old, hp, _⟩ := hs.inflP rfl st hi
          simp only at hp
          have hok := hsyncOk _ (crashImg_foldl b.pending d)
          simp only [FCfg.pendingSt, hi] at hok
          have hsl : 1 - (1 - b.aSlot) = b.aSlot := by have := hs.slotLe; simp only at this; omega
          have hagr := agree_sync u b.pending d b.durable hs.agree
          have hsa := fun k => hs.slotsAgree k (Or.inl rfl)
          have hslot : (b.pending.foldl applyOp d).slots (1 - b.aSlot) = some (b.aTx + 1, st) := by
            rw [hp, List.foldl_append]; simp [applyOp]
          have hsl' : ∀ k, (b.pending.foldl applyOp d).slots k = (b.pending.foldl applyOp b.durable).slots k :=
            fun k => foldl_slots_congr _ k _ _ (Or.inl (hsa k))
          have hact : (b.pending.foldl applyOp d).slots b.aSlot = some (b.aTx, b.aSt) := hok.active
          refine ⟨by show 1 - b.aSlot ≤ 1; omega, ⟨hslot, ?_, hok.intactG st rfl, nofun⟩, ?_, hagr,
            fun k _ => hsl' k, ?_, ?_, ?_, nofun, nofun⟩
          · intro t s e
            have e' : (b.pending.foldl applyOp d).slots (1 - (1 - b.aSlot)) = some (t, s) := e
            rw [hsl, hact] at e'; cases e'
            left; show b.aTx < b.aTx + 1; omega
          · intro st' hst; simp [FCfg.pendingSt] at hst
          · intro t s e
            have e' : (b.pending.foldl applyOp b.durable).slots (1 - (1 - b.aSlot)) = some (t, s) := e
            rw [← hsl', hsl, hact] at e'; cases e'
            show b.aTx < b.aTx + 1; omega
          · intro _ _ o ho; cases ho
          · intro _ st' hst; cases hst
      | failed st' => simp [FCfg.step] at h
      | restoring st' =>
        simp only [FCfg.step, Option.some.injEq] at h; subst h
        obtain ⟨t, s, hp, hm⟩ := hs.restP st' rfl
        simp only at hp hm
        have hlt : t < b.aTx := hs.mprev t s hm
        have hne : ¬ (b.aSlot = 1 - b.aSlot) := by have := hs.slotLe; simp only at this; omega
        have hagr := agree_sync u b.pending d b.durable hs.agree
        have hact : d.slots b.aSlot = some (b.aTx, b.aSt) := hs.img.active
        have hsa := fun k hk => hs.slotsAgree k (Or.inr hk)
        simp only at hsa
        have hf : ∀ x : Img, b.pending.foldl applyOp x = applyOp x (.hdr (1 - b.aSlot) t s) := by
          intro x; rw [hp]; rfl
        refine ⟨hs.slotLe, ⟨?_, ?_, ?_, nofun⟩, ?_, hagr, ?_, ?_, ?_, ?_, nofun, nofun⟩
        · show (b.pending.foldl applyOp d).slots b.aSlot = _
          rw [hf]; simp only [applyOp, hne, if_false]; exact hact
        · intro t' s'
          show (b.pending.foldl applyOp d).slots (1 - b.aSlot) = _ → _
          rw [hf]
          simp only [applyOp, if_true, Option.some.injEq, Prod.mk.injEq]
          intro ⟨e, _⟩; left; show t' < b.aTx; omega
        · intro p hh hm
          show (b.pending.foldl applyOp d).pages p = _
          rw [hf]; exact hs.img.intact p hh hm
        · intro st'' hst; simp [FCfg.pendingSt] at hst
        · intro k _
          show (b.pending.foldl applyOp d).slots k = (b.pending.foldl applyOp b.durable).slots k
          rw [hf, hf]
          simp only [applyOp]
          split
          · rfl
          · rename_i hk; exact hsa k hk
        · intro t' s'
          show (b.pending.foldl applyOp b.durable).slots (1 - b.aSlot) = _ → _
          rw [hf]
          simp only [applyOp, if_true, Option.some.injEq, Prod.mk.injEq]
          intro ⟨e, _⟩; show t' < b.aTx; omega
        · intro _ _ o ho; cases ho
        · intro _ st'' hst; cases hst
  | syncFail =>
    simp only [DurStep] at hd
    have hok := hsyncOk d' hd
    cases ph with
    | normal =>
      simp only [FCfg.step] at h
      cases hi : b.inflight with
      | none =>
        simp only [hi, Option.some.injEq] at h; subst h
        have hq := hs.quiet rfl hi
        simp only [FCfg.pendingSt, hi] at hok
        refine ⟨hs.slotLe, hok, ?_, agree_fail u b.pending d b.durable d' hd hs.agree, ?_, hs.mprev, ?_, ?_, nofun, nofun⟩
        · intro st hst; simp [FCfg.pendingSt] at hst
        · intro k _
          rw [clear_slots hd hq k]; exact hs.slotsAgree k (Or.inl rfl)
        · intro _ _ o ho; cases ho
        · intro _ st hst; cases hst
      | some st =>
        simp only [hi, Option.some.injEq] at h; subst h
        obtain ⟨old, hp, hold⟩ := hs.inflP rfl st hi
        simp only [FCfg.pendingSt, hi] at hok
        refine ⟨hs.slotLe, hok, ?_, agree_fail u b.pending d b.durable d' hd hs.agree, ?_, hs.mprev, nofun, nofun, ?_, nofun⟩
        · intro st'' hst; simp only [FCfg.pendingSt, Option.some.injEq] at hst; subst hst; exact hok.intactG _ rfl
        · intro k hk
          rcases hk with hk | hk
          · cases hk
          · simp only at hd hk hp hold
            rw [hp] at hd
            rw [crashImg_slots hd k ?_]
            · exact hs.slotsAgree k (Or.inl rfl)
            · intro o ho
              rcases List.mem_append.mp ho with ho | ho
              · exact clearOf_not_hdr _ o (hold o ho).1 k
              · simp only [List.mem_singleton] at ho; subst ho; simp only [isHdrOn]; omega
        · intro _ _; rfl
    | failed st' => simp [FCfg.step] at h
    | restoring st' =>
      simp only [FCfg.step, Option.some.injEq] at h; subst h
      obtain ⟨t, s, hp, hm⟩ := hs.restP st' rfl
      simp only [FCfg.pendingSt] at hok
      refine ⟨hs.slotLe, hok, ?_, agree_fail u b.pending d b.durable d' hd hs.agree, ?_, hs.mprev, nofun, nofun, ?_, nofun⟩
      · intro st'' hst; simp only [FCfg.pendingSt, Option.some.injEq] at hst; subst hst; exact hok.intactG _ rfl
      · intro k hk
        rcases hk with hk | hk
        · cases hk
        · simp only at hd hk hp
          rw [hp] at hd
          rw [crashImg_slots hd k (by intro o ho; simp only [List.mem_singleton] at ho; subst ho; simp only [isHdrOn]; omega)]
          exact hs.slotsAgree k (Or.inr hk)
      · intro _ _; rfl
  | restore s t st =>
    simp only [DurStep] at hd; subst hd
    simp only [FCfg.step] at h
    exact fsafe_restoreStep reachOf _ _ _ s t st hs h

/-! ### executions -/

theorem fsafe_exec (reachOf : Nat → List (Nat × Hash)) {c c' : FCfg} {d d' : Img} {ops : List FOp}
    (hex : Exec (FCfg.step reachOf) c d ops c' d') (hs : FSafe reachOf c d) : FSafe reachOf c' d' := by
  induction hex with
  | nil c d => exact hs
  | cons hst hd _ ih => exact ih (fsafe_step reachOf _ _ _ _ _ hs hst hd)

/-- the configuration reached does not depend on the outcomes of the failing syncs -/
theorem exec_run (reachOf : Nat → List (Nat × Hash)) {c c' : FCfg} {d d' : Img} {ops : List FOp}
    (hex : Exec (FCfg.step reachOf) c d ops c' d') : c.run reachOf ops = some c' := by
  induction hex with
  | nil c d => rfl
  | cons hst _ _ ih => simp only [FCfg.run, hst]; exact ih

theorem durStep_total (c : FCfg) (d : Img) (op : FOp) : ∃ d', DurStep c d op d' := by
  cases op with
  | op o => cases o <;> exact ⟨_, rfl⟩
  | syncFail => exact ⟨d, crashImg_none _ _⟩
  | restore s t st => exact ⟨_, rfl⟩

/-- every accepted trace has an execution -/
theorem exec_of_run (reachOf : Nat → List (Nat × Hash)) (ops : List FOp) : ∀ (c c' : FCfg) (d : Img),
    c.run reachOf ops = some c' → ∃ d', Exec (FCfg.step reachOf) c d ops c' d' := by
  induction ops with
  | nil => intro c c' d h; simp only [FCfg.run, Option.some.injEq] at h; subst h; exact ⟨d, .nil c d⟩
  | cons op ops ih =>
    intro c c' d h
    simp only [FCfg.run] at h
    cases hst : c.step reachOf op with
    | none => simp [hst] at h
    | some c1 =>
      simp only [hst] at h
      obtain ⟨d1, hd1⟩ := durStep_total c d op
      obtain ⟨d', hex⟩ := ih c1 c' d1 h
      exact ⟨d', .cons hst hd1 hex⟩

/-- every prefix of an accepted trace is accepted -/
theorem frun_prefix (reachOf : Nat → List (Nat × Hash)) (ops : List FOp) : ∀ (c c' : FCfg) (k : Nat),
    c.run reachOf ops = some c' → ∃ ck, c.run reachOf (ops.take k) = some ck := by
  induction ops with
  | nil => intro c c' k _; exact ⟨c, by simp [FCfg.run]⟩
  | cons op ops ih =>
    intro c c' k h
    cases k with
    | zero => exact ⟨c, by simp [FCfg.run]⟩
    | succ k =>
      simp only [FCfg.run] at h
      cases hst : c.step reachOf op with
      | none => simp [hst] at h
      | some c1 =>
        simp only [hst] at h
        obtain ⟨ck, hk⟩ := ih c1 c' k h
        exact ⟨ck, by simp [FCfg.run, hst, hk]⟩

/-! ### relation to Model/Crash.lean -/

/-- a safe configuration of Model/Crash.lean is a safe starting point of the extended discipline -/
theorem fsafe_of_safe (reachOf : Nat → List (Nat × Hash)) (c : Cfg) (hs : Safe reachOf c) :
    FSafe reachOf (FCfg.ofCfg c) c.durable := by
  obtain ⟨h1, h2, h3, h4, h5, h6⟩ := hs
  refine ⟨h1, ⟨h2, fun t s e => Or.inl (h3 t s e), h4, nofun⟩, ?_, fun _ _ => rfl, fun _ _ => rfl, h3,
    fun _ => h5, fun _ st hst => (h6 st hst).1, nofun, nofun⟩
  intro st hst
  exact (h6 st hst).2

/-- in the normal phase the invariant of Model/Crash.lean holds of the REAL durable image -/
theorem safe_of_fsafe (reachOf : Nat → List (Nat × Hash)) (c : FCfg) (d : Img) (hs : FSafe reachOf c d)
    (hph : c.phase = .normal) : Safe reachOf { c.base with durable := d } := by
  rcases c with ⟨b, u, ph⟩
  simp only at hph; subst hph
  refine ⟨hs.slotLe, hs.img.active, ?_, hs.img.intact, hs.quiet rfl, ?_⟩
  · intro t s e
    rcases hs.img.other t s e with h | ⟨_, h⟩
    · exact h
    · cases h
  · intro st hst
    exact ⟨hs.inflP rfl st hst, hs.intactP st hst⟩

/-- the extended discipline accepts what the discipline of Model/Crash.lean accepts (no page unknown) -/
theorem step_lift (reachOf : Nat → List (Nat × Hash)) (c c' : Cfg) (u : Nat → Bool) (hu : ∀ q, u q = false)
    (op : TOp) (h : c.step reachOf op = some c') :
    ∃ u', (⟨c, u, .normal⟩ : FCfg).step reachOf (.op op) = some ⟨c', u', .normal⟩ ∧ ∀ q, u' q = false := by
  cases op with
  | write p hh => exact ⟨u, by simp [FCfg.step, h], hu⟩
  | trunc n => exact ⟨u, by simp [FCfg.step, h], hu⟩
  | hdr s t st => exact ⟨u, by simp [FCfg.step, h, hu], hu⟩
  | sync =>
    exact ⟨(⟨c, u, .normal⟩ : FCfg).syncedUnk, by simp only [FCfg.step, h, Option.map_some],
      fun q => by simp [FCfg.syncedUnk, hu]⟩

theorem run_lift (reachOf : Nat → List (Nat × Hash)) (ops : List TOp) : ∀ (c c' : Cfg) (u : Nat → Bool),
    (∀ q, u q = false) → c.run reachOf ops = some c' →
    ∃ u', (⟨c, u, .normal⟩ : FCfg).run reachOf (ops.map .op) = some ⟨c', u', .normal⟩ ∧ ∀ q, u' q = false := by
  induction ops with
  | nil => intro c c' u hu h; simp only [Cfg.run, Option.some.injEq] at h; subst h; exact ⟨u, rfl, hu⟩
  | cons op ops ih =>
    intro c c' u hu h
    simp only [Cfg.run] at h
    cases hst : c.step reachOf op with
    | none => simp [hst] at h
    | some c1 =>
      simp only [hst] at h
      obtain ⟨u1, h1, hu1⟩ := step_lift reachOf c c1 u hu op hst
      obtain ⟨u', h', hu'⟩ := ih c1 c' u1 hu1 h
      exact ⟨u', by simp only [List.map_cons, FCfg.run, h1, h'], hu'⟩

/-! ### between commits -/

/-- operations other than header writes leave the committed header and the phase alone -/
theorem noHdr_step (reachOf : Nat → List (Nat × Hash)) (c c' : FCfg) (op : FOp) (hph : c.phase = .normal)
    (hi : c.base.inflight = none) (hop : op.noHdr = true) (h : c.step reachOf op = some c') :
    c'.phase = .normal ∧ c'.base.inflight = none ∧ c'.base.aSlot = c.base.aSlot ∧ c'.base.aTx = c.base.aTx ∧
      c'.base.aSt = c.base.aSt := by
  rcases c with ⟨b, u, ph⟩
  simp only at hph hi; subst hph
  cases op with
  | op o =>
    cases o with
    | write p hh =>
      simp only [FCfg.step, Option.map_eq_some_iff, Cfg.step] at h
      obtain ⟨b', hb, rfl⟩ := h
      split at hb
      · simp only [Option.some.injEq] at hb; subst hb; exact ⟨rfl, hi, rfl, rfl, rfl⟩
      · cases hb
    | trunc n =>
      simp only [FCfg.step, Option.map_eq_some_iff, Cfg.step] at h
      obtain ⟨b', hb, rfl⟩ := h
      split at hb
      · simp only [Option.some.injEq] at hb; subst hb; exact ⟨rfl, hi, rfl, rfl, rfl⟩
      · cases hb
    | hdr s t st => simp [FOp.noHdr] at hop
    | sync =>
      simp only [FCfg.step, Cfg.step, hi, Option.map_some, Option.some.injEq] at h; subst h
      exact ⟨rfl, rfl, rfl, rfl, rfl⟩
  | syncFail =>
    simp only [FCfg.step, hi, Option.some.injEq] at h; subst h
    exact ⟨rfl, rfl, rfl, rfl, rfl⟩
  | restore s t st => simp [FOp.noHdr] at hop

theorem noHdr_exec (reachOf : Nat → List (Nat × Hash)) {c c' : FCfg} {d d' : Img} {ops : List FOp}
    (hex : Exec (FCfg.step reachOf) c d ops c' d') (hph : c.phase = .normal) (hi : c.base.inflight = none)
    (hops : ∀ op ∈ ops, op.noHdr = true) :
    c'.phase = .normal ∧ c'.base.inflight = none ∧ c'.base.aSlot = c.base.aSlot ∧ c'.base.aTx = c.base.aTx ∧
      c'.base.aSt = c.base.aSt := by
  induction hex with
  | nil c d => exact ⟨hph, hi, rfl, rfl, rfl⟩
  | cons hst _ _ ih =>
    obtain ⟨a1, a2, a3, a4, a5⟩ := noHdr_step reachOf _ _ _ hph hi (hops _ List.mem_cons_self) hst
    obtain ⟨b1, b2, b3, b4, b5⟩ := ih a1 a2 (fun o ho => hops o (List.mem_cons_of_mem _ ho))
    exact ⟨b1, b2, b3.trans a3, b4.trans a4, b5.trans a5⟩

end TxVerif
