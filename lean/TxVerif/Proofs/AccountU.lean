/-
  The ledger invariant of the allocator (`TInv`, `Quiet` of Proofs/Account.lean) for files WITH OR WITHOUT a
  page limit (namespace `TxVerif.AU`): the clauses `0 < maxPages`, `data.endMarker ≤ maxPages`,
  `mta.endMarker ≤ maxPages`, `mta.end0 ≤ maxPages` are replaced by the single clause
      `lim : maxPages = 0 ∨ (data.endMarker ≤ maxPages ∧ mta.endMarker ≤ maxPages ∧ mta.end0 ≤ maxPages)`
  (no limit, or everything within the limit: the overflow area is not in use). Everything else is as in
  Proofs/Account.lean; the proofs are the proofs of that file re-run against the weaker invariant.
  `quiet_of_bounded` / `Quiet.bounded`: on a bounded file `AU.Quiet` is `Quiet`.
-/
import TxVerif.Proofs.Account
namespace TxVerif.AU

/-! ### the accounting invariant inside a transaction -/

/-- the accounting invariant inside a transaction of a bounded file that does not use the overflow
    area. `L`: the data pages owned by the user (live pages of the committed state and pages
    allocated by the transaction, pages freed by the transaction stay in `L` until the commit unless
    they were allocated freshly by it); `M`: the pages of the meta area in use. -/
structure TInv (a : Alloc) (st : TxAlloc) (L M : List Nat) : Prop where
  acc : a.data.endMarker = 2 + a.data.free.length + L.length + a.metaTotal
  mtot : a.metaTotal = a.mta.free.length + M.length
  ascD : Asc a.data.free
  ascM : Asc a.mta.free
  ascF : Asc st.data.freed
  ascG : Asc st.mta.freed
  ndL : L.Nodup
  ndM : M.Nodup
  rD : ∀ x ∈ a.data.free, 2 ≤ x ∧ x < a.data.endMarker
  rL : ∀ x ∈ L, 2 ≤ x ∧ x < a.data.endMarker
  rMf : ∀ x ∈ a.mta.free, 2 ≤ x ∧ x < a.data.endMarker ∧ x < a.mta.endMarker
  rM : ∀ x ∈ M, 2 ≤ x ∧ x < a.data.endMarker ∧ x < a.mta.endMarker
  dD : ∀ x ∈ a.data.free, x ∉ L ∧ x ∉ a.mta.free ∧ x ∉ M
  dL : ∀ x ∈ L, x ∉ a.mta.free ∧ x ∉ M
  dM : ∀ x ∈ a.mta.free, x ∉ M
  fL : ∀ x ∈ st.data.freed, x ∈ L ∧ x ∉ st.data.new_
  gM : ∀ x ∈ st.mta.freed, x ∈ M
  mtmIn : ∀ x ∈ st.moveToMeta, x ∈ a.mta.free ∨ x ∈ M
  alIn : ∀ x ∈ st.mta.allocated, x ∈ M
  foNil : st.fromOverflow = []
  noOv : st.overflow = false
  lim : a.maxPages = 0 ∨ (a.data.endMarker ≤ a.maxPages ∧ a.mta.endMarker ≤ a.maxPages ∧ st.mta.end0 ≤ a.maxPages)
  e0 : st.data.end0 ≤ a.data.endMarker
  J : a.data.endMarker ≤ a.mta.endMarker ∨ (a.data.free = [] ∧ L = [])

/-- generic allocation step: `took` leaves the data free list, `r` pages are appended at the end -/
theorem tinv_alloc (a : Alloc) (st : TxAlloc) (L M : List Nat) (a' : Alloc) (st' : TxAlloc)
    (took ids : List Nat) (r : Nat) (h : TInv a st L M)
    (hfree : ∀ x, x ∈ a.data.free ↔ x ∈ took ∨ x ∈ a'.data.free)
    (hdisj : ∀ x ∈ took, x ∉ a'.data.free) (hasc : Asc a'.data.free)
    (hlen : a'.data.free.length + took.length = a.data.free.length)
    (hids : ∀ x, x ∈ ids ↔ x ∈ took ∨ (a.data.endMarker ≤ x ∧ x < a.data.endMarker + r))
    (hidsnd : ids.Nodup) (hidslen : ids.length = took.length + r)
    (hend : a'.data.endMarker = a.data.endMarker + r)
    (hlim : a.maxPages = 0 ∨ (a.data.endMarker + r ≤ a.maxPages ∧ a'.mta.endMarker ≤ a.maxPages))
    (hmf : a'.mta.free = a.mta.free) (hme1 : a.mta.endMarker ≤ a'.mta.endMarker)
    (hJ : a.data.endMarker ≤ a.mta.endMarker ∨ 0 < r → a'.data.endMarker ≤ a'.mta.endMarker)
    (hmax : a'.maxPages = a.maxPages) (hmt : a'.metaTotal = a.metaTotal)
    (s1 : st'.data.freed = st.data.freed) (s2 : st'.mta.freed = st.mta.freed)
    (s3 : st'.moveToMeta = st.moveToMeta) (s4 : st'.mta.allocated = st.mta.allocated)
    (s5 : st'.fromOverflow = st.fromOverflow) (s6 : st'.overflow = st.overflow)
    (s7 : st'.mta.end0 = st.mta.end0) (s8 : st'.data.end0 = st.data.end0)
    (s9 : ∀ x ∈ st'.data.new_, x ∈ ids ∨ x ∈ st.data.new_) :
    TInv a' st' (ids ++ L) M ∧ ∀ x ∈ ids, x ∉ st'.data.freed ∧ x < a'.mta.endMarker := by
  have hidsL : ∀ x ∈ ids, x ∉ L := by
    intro x hx hxl
    rcases (hids x).mp hx with h1 | h1
    · exact (h.dD x ((hfree x).mpr (Or.inl h1))).1 hxl
    · have := h.rL x hxl; omega
  have hidsR : ∀ x ∈ ids, 2 ≤ x ∧ x < a.data.endMarker + r := by
    intro x hx
    rcases (hids x).mp hx with h1 | h1
    · have := h.rD x ((hfree x).mpr (Or.inl h1)); omega
    · have := h.acc; omega
  have hidsM : ∀ x ∈ ids, x ∉ a.mta.free ∧ x ∉ M := by
    intro x hx
    rcases (hids x).mp hx with h1 | h1
    · have := h.dD x ((hfree x).mpr (Or.inl h1)); exact ⟨this.2.1, this.2.2⟩
    · exact ⟨fun hm => by have := h.rMf x hm; omega, fun hm => by have := h.rM x hm; omega⟩
  refine ⟨⟨?_, ?_, hasc, ?_, ?_, ?_, ?_, h.ndM, ?_, ?_, ?_, ?_, ?_, ?_, ?_, ?_, ?_, ?_, ?_, ?_, ?_, ?_, ?_, ?_⟩, ?_⟩
  · rw [hend, List.length_append, hidslen, hmt]; have := h.acc; omega
  · rw [hmt, hmf]; exact h.mtot
  · rw [hmf]; exact h.ascM
  · rw [s1]; exact h.ascF
  · rw [s2]; exact h.ascG
  · rw [List.nodup_append]; exact ⟨hidsnd, h.ndL, fun x hx y hy e => hidsL x hx (e ▸ hy)⟩
  · intro x hx; have := h.rD x ((hfree x).mpr (Or.inr hx)); omega
  · intro x hx
    rcases List.mem_append.mp hx with hx | hx
    · have := hidsR x hx; omega
    · have := h.rL x hx; omega
  · rw [hmf]; intro x hx; have := h.rMf x hx; omega
  · intro x hx; have := h.rM x hx; omega
  · intro x hx
    have h1 := h.dD x ((hfree x).mpr (Or.inr hx))
    have h2 := h.rD x ((hfree x).mpr (Or.inr hx))
    rw [hmf]
    refine ⟨?_, h1.2.1, h1.2.2⟩
    intro hm
    rcases List.mem_append.mp hm with hm | hm
    · rcases (hids x).mp hm with h3 | h3
      · exact hdisj x h3 hx
      · omega
    · exact h1.1 hm
  · intro x hx
    rw [hmf]
    rcases List.mem_append.mp hx with hx | hx
    · exact hidsM x hx
    · exact h.dL x hx
  · rw [hmf]; exact h.dM
  · rw [s1]; intro x hx
    have h1 := h.fL x hx
    refine ⟨List.mem_append_right _ h1.1, ?_⟩
    intro hn
    rcases s9 x hn with h2 | h2
    · exact hidsL x h2 h1.1
    · exact h1.2 h2
  · rw [s2]; exact h.gM
  · rw [s3, hmf]; exact h.mtmIn
  · rw [s4]; exact h.alIn
  · rw [s5]; exact h.foNil
  · rw [s6]; exact h.noOv
  · rw [hmax, hend, s7]
    rcases hlim with hl | hl
    · exact Or.inl hl
    · rcases h.lim with h0 | h0
      · exact Or.inl h0
      · exact Or.inr ⟨hl.1, hl.2, h0.2.2⟩
  · rw [s8, hend]; have := h.e0; omega
  · by_cases hc : a'.data.endMarker ≤ a'.mta.endMarker
    · exact Or.inl hc
    · right
      have hr0 : r = 0 := by
        apply Nat.eq_zero_of_not_pos; intro hp; exact hc (hJ (Or.inr hp))
      rcases h.J with hj | ⟨hj1, hj2⟩
      · exact absurd (hJ (Or.inl hj)) hc
      · have htook : took = [] := by
          apply List.eq_nil_iff_forall_not_mem.mpr
          intro x hx
          have := (hfree x).mpr (Or.inl hx)
          rw [hj1] at this; cases this
        have hids0 : ids = [] := by
          apply List.eq_nil_iff_forall_not_mem.mpr
          intro x hx
          rcases (hids x).mp hx with h3 | h3
          · rw [htook] at h3; cases h3
          · omega
        refine ⟨?_, by rw [hids0, hj2]; rfl⟩
        apply List.eq_nil_iff_forall_not_mem.mpr
        intro x hx
        have := (hfree x).mpr (Or.inr hx)
        rw [hj1] at this; cases this
  · intro x hx
    rw [s1]
    refine ⟨fun hf => hidsL x hx (h.fL x hf).1, ?_⟩
    rcases (hids x).mp hx with h1 | h1
    · have hxf := (hfree x).mpr (Or.inl h1)
      rcases h.J with hj | ⟨hj1, _⟩
      · have := h.rD x hxf; omega
      · rw [hj1] at hxf; cases hxf
    · have := hJ (Or.inr (by omega)); omega

theorem tinv_regions (a : Alloc) (st : TxAlloc) (L M : List Nat) (n : Nat) (a' : Alloc) (st' : TxAlloc)
    (ids : List Nat) (h : TInv a st L M) (hr : dataAllocRegions a st n = some (a', st', ids)) :
    TInv a' st' (ids ++ L) M ∧ (∀ x ∈ ids, x ∉ st'.data.freed ∧ x < a'.mta.endMarker) ∧ ids.length = n := by
  obtain ⟨k, rest, hk, hn, hrest, hlim, -, hids, e1, e2, e3, e4, e5, -, -, e8, hst⟩ :=
    dataAllocRegions_spec a st n a' st' ids hr
  have hlen : ids.length = n := by
    rw [hids, List.length_append, List.length_take, length_idRange]; omega
  have hnd : ids.Nodup := by
    rw [hids, List.nodup_append]
    refine ⟨asc_nodup _ (asc_take _ _ h.ascD), asc_nodup _ (asc_idRange _ _), ?_⟩
    intro x hx y hy
    rw [mem_idRange] at hy
    have := h.rD x (List.mem_of_mem_take hx)
    omega
  have := tinv_alloc a st L M a' st' (a.data.free.take k) ids rest h
    (by intro x; rw [e1]; exact mem_take_or_drop a.data.free k x)
    (by rw [e1]; exact take_drop_disjoint a.data.free k h.ascD)
    (by rw [e1]; exact asc_drop _ _ h.ascD)
    (by rw [e1, List.length_drop, List.length_take]; omega)
    (by intro x; rw [hids, List.mem_append, mem_idRange])
    hnd (by rw [hlen, List.length_take]; omega)
    e2 (by
      have hacc := h.acc
      rcases h.lim with h0 | ⟨hd, hm, -⟩
      · exact Or.inl h0
      · right; rw [e4]; constructor
        · omega
        · split <;> omega) e3
    (by rw [e4]; split <;> omega)
    (by rw [e4, e2]; intro hc; split <;> omega)
    e5 e8 (by rw [hst]) (by rw [hst]) (by rw [hst]) (by rw [hst]) (by rw [hst]) (by rw [hst]) (by rw [hst])
    (by rw [hst])
    (by
      intro x hx
      rw [hst] at hx
      dsimp only at hx
      rw [mem_unionIds] at hx
      rcases hx with hx | hx
      · left; rw [hids]; exact List.mem_append_right _ hx
      · exact Or.inr hx)
  exact ⟨this.1, this.2, hlen⟩

theorem tinv_continuous (a : Alloc) (st : TxAlloc) (L M : List Nat) (n : Nat) (a' : Alloc) (st' : TxAlloc)
    (ids : List Nat) (h : TInv a st L M) (hr : dataAllocContinuous a st n = some (a', st', ids)) :
    TInv a' st' (ids ++ L) M ∧ (∀ x ∈ ids, x ∉ st'.data.freed ∧ x < a'.mta.endMarker) := by
  unfold dataAllocContinuous at hr
  by_cases hav : a.dataAvail < n
  · rw [if_pos hav] at hr; cases hr
  · rw [if_neg hav] at hr
    cases hc : allocContinuous a.data.free n with
    | some p =>
      obtain ⟨taken, rest⟩ := p
      rw [hc] at hr
      simp only [Option.some.injEq, Prod.mk.injEq] at hr
      obtain ⟨ha, hst, hids⟩ := hr
      subst hids ha hst
      obtain ⟨-, hsub, hrest, hasc⟩ := allocContinuous_spec a.data.free n h.ascD taken rest hc
      obtain ⟨hlen, hnd, -⟩ := allocContinuous_length a.data.free n h.ascD taken rest hc
      exact tinv_alloc a st L M _ _ taken taken 0 h
        (by intro x; dsimp only; rw [hrest]
            constructor
            · intro hf
              by_cases hx : x ∈ taken
              · exact Or.inl hx
              · exact Or.inr ⟨hf, hx⟩
            · rintro (h1 | h1)
              · exact hsub x h1
              · exact h1.1)
        (by intro x hx; dsimp only; rw [hrest]; exact fun h1 => h1.2 hx)
        hasc hlen
        (by intro x; constructor
            · exact Or.inl
            · rintro (h1 | h1)
              · exact h1
              · omega)
        hnd rfl rfl (by
          rcases h.lim with h0 | ⟨hd, hm, -⟩
          · exact Or.inl h0
          · exact Or.inr ⟨by omega, hm⟩) rfl (Nat.le_refl _)
        (by intro hj; rcases hj with hj | hj
            · exact hj
            · omega)
        rfl rfl rfl rfl rfl rfl rfl rfl rfl rfl
        (by intro x hx; dsimp only at hx; rw [mem_unionIds] at hx; exact hx)
    | none =>
      simp only [hc] at hr
      by_cases hroom : a.maxPages > 0 ∧ (if a.data.endMarker < a.maxPages then a.maxPages - a.data.endMarker else 0) < n
      · rw [if_pos hroom] at hr; cases hr
      · rw [if_neg hroom] at hr
        simp only [Option.some.injEq, Prod.mk.injEq] at hr
        obtain ⟨ha, hst, hids⟩ := hr
        subst hids ha hst
        have hlim : a.maxPages = 0 ∨ (a.data.endMarker + n ≤ a.maxPages ∧
            (bumpMetaEnd { a with data := { a.data with endMarker := a.data.endMarker + n } }).mta.endMarker ≤ a.maxPages) := by
          rcases h.lim with h0 | ⟨hd, hm, -⟩
          · exact Or.inl h0
          · by_cases hmp : a.maxPages = 0
            · exact Or.inl hmp
            · right
              have hmp' : a.maxPages > 0 := by omega
              simp only [hmp', true_and] at hroom
              have h1 : a.data.endMarker + n ≤ a.maxPages := by split at hroom <;> omega
              refine ⟨h1, ?_⟩
              rw [bumpMetaEnd_mta_end]; dsimp only; omega
        exact tinv_alloc a st L M _ _ [] (idRange a.data.endMarker n) n h
          (by intro x; rw [bumpMetaEnd_data]; simp)
          (by intro x hx; cases hx)
          (by rw [bumpMetaEnd_data]; exact h.ascD)
          (by rw [bumpMetaEnd_data]; rfl)
          (by intro x; rw [mem_idRange]; simp)
          (asc_nodup _ (asc_idRange _ _)) (by rw [length_idRange]; simp)
          (by rw [bumpMetaEnd_data]) hlim
          (by rw [bumpMetaEnd_mta_free])
          (by rw [bumpMetaEnd_mta_end]; dsimp only; omega)
          (by rw [bumpMetaEnd_mta_end, bumpMetaEnd_data]; dsimp only; omega)
          (by rw [bumpMetaEnd_maxPages]) (by rw [bumpMetaEnd_metaTotal])
          rfl rfl rfl rfl rfl rfl rfl rfl
          (by intro x hx; dsimp only at hx; rw [mem_unionIds] at hx; exact hx)

/-- moving pages owned by nobody else (they were just allocated) into the meta area -/
theorem tinv_transfer (a : Alloc) (st : TxAlloc) (L M ids : List Nat) (h : TInv a st (ids ++ L) M)
    (hx : ∀ x ∈ ids, x ∉ st.data.freed ∧ x < a.mta.endMarker) :
    TInv (transferToMeta a st ids).1 (transferToMeta a st ids).2 L M := by
  have hnd := h.ndL
  rw [List.nodup_append] at hnd
  obtain ⟨hnd1, hnd2, hnd3⟩ := hnd
  have hidsMf : ∀ x ∈ ids, x ∉ a.mta.free := fun x hx => (h.dL x (List.mem_append_left _ hx)).1
  unfold transferToMeta
  refine ⟨?_, ?_, h.ascD, asc_unionIds _ _ h.ascM, h.ascF, h.ascG, hnd2, h.ndM, h.rD, ?_, ?_, h.rM, ?_, ?_, ?_, ?_,
    h.gM, ?_, h.alIn, h.foNil, h.noOv, h.lim, h.e0, ?_⟩
  all_goals dsimp only
  · have := h.acc; rw [List.length_append] at this; omega
  · rw [length_unionIds_of_disjoint ids a.mta.free hnd1 hidsMf]; have := h.mtot; omega
  · intro x hx; exact h.rL x (List.mem_append_right _ hx)
  · intro x hxm
    rcases (mem_unionIds _ _ _).mp hxm with h1 | h1
    · have := h.rL x (List.mem_append_left _ h1); have := (hx x h1).2; omega
    · exact h.rMf x h1
  · intro x hxf
    have h1 := h.dD x hxf
    refine ⟨fun hl => h1.1 (List.mem_append_right _ hl), ?_, h1.2.2⟩
    rw [mem_unionIds]
    rintro (h2 | h2)
    · exact h1.1 (List.mem_append_left _ h2)
    · exact h1.2.1 h2
  · intro x hxl
    have h1 := h.dL x (List.mem_append_right _ hxl)
    refine ⟨?_, h1.2⟩
    rw [mem_unionIds]
    rintro (h2 | h2)
    · exact hnd3 x h2 x hxl rfl
    · exact h1.1 h2
  · intro x hxm
    rcases (mem_unionIds _ _ _).mp hxm with h1 | h1
    · exact (h.dL x (List.mem_append_left _ h1)).2
    · exact h.dM x h1
  · intro x hxf
    have h1 := h.fL x hxf
    refine ⟨?_, h1.2⟩
    rcases List.mem_append.mp h1.1 with h2 | h2
    · exact absurd hxf (hx x h2).1
    · exact h2
  · intro x hxm
    rw [mem_unionIds]
    rcases (mem_unionIds _ _ _).mp hxm with h1 | h1
    · exact Or.inl (Or.inl h1)
    · rcases h.mtmIn x h1 with h2 | h2
      · exact Or.inl (Or.inr h2)
      · exact Or.inr h2
  · rcases h.J with hj | ⟨hj1, hj2⟩
    · exact Or.inl hj
    · right
      refine ⟨hj1, ?_⟩
      cases L with
      | nil => rfl
      | cons y ys => simp at hj2

theorem tinv_tryGrow (a : Alloc) (st : TxAlloc) (L M : List Nat) (count : Nat) (a' : Alloc) (st' : TxAlloc)
    (h : TInv a st L M) (hr : tryGrow a st count false = some (a', st')) : TInv a' st' L M := by
  unfold tryGrow at hr
  dsimp only at hr
  by_cases hc0 : count = 0
  · rw [if_pos hc0] at hr
    simp only [Option.some.injEq, Prod.mk.injEq] at hr
    obtain ⟨ha, hst⟩ := hr
    subst ha hst
    exact h
  · rw [if_neg hc0] at hr
    by_cases hav : a.dataAvail < count
    · rw [if_pos hav] at hr
      simp at hr
    · rw [if_neg hav] at hr
      cases hcont : dataAllocContinuous a st count with
      | some p =>
        obtain ⟨a1, st1, ids⟩ := p
        rw [hcont] at hr
        simp only [Option.some.injEq] at hr
        obtain ⟨h1, h2⟩ := tinv_continuous a st L M count a1 st1 ids h hcont
        have := tinv_transfer a1 st1 L M ids h1 h2
        rw [hr] at this
        exact this
      | none =>
        rw [hcont] at hr
        cases hreg : dataAllocRegions a st count with
        | none => rw [hreg] at hr; cases hr
        | some p =>
          obtain ⟨a1, st1, ids⟩ := p
          rw [hreg] at hr
          simp only [Option.some.injEq] at hr
          obtain ⟨h1, h2, -⟩ := tinv_regions a st L M count a1 st1 ids h hreg
          have := tinv_transfer a1 st1 L M ids h1 h2
          rw [hr] at this
          exact this

theorem tinv_ensureMeta (a : Alloc) (st : TxAlloc) (L M : List Nat) (n : Nat) (a' : Alloc) (st' : TxAlloc)
    (h : TInv a st L M) (hr : ensureMeta a st n = some (a', st')) : TInv a' st' L M := by
  unfold ensureMeta at hr
  dsimp only at hr
  rw [h.noOv] at hr
  split at hr
  · simp only [Option.some.injEq, Prod.mk.injEq] at hr
    obtain ⟨ha, hst⟩ := hr
    subst ha hst
    exact h
  · split at hr
    · rename_i r hg
      simp only [Option.some.injEq] at hr
      subst hr
      exact tinv_tryGrow a st L M _ a' st' h hg
    · exact tinv_tryGrow a st L M _ a' st' h hr

/-- pages leave the meta free list and are in use afterwards -/
theorem tinv_metaTake (a : Alloc) (st : TxAlloc) (L M ids rest : List Nat) (h : TInv a st L M)
    (hasc : Asc rest) (hmem : ∀ x, x ∈ a.mta.free ↔ x ∈ ids ∨ x ∈ rest) (hnd : ids.Nodup)
    (hdisj : ∀ x ∈ ids, x ∉ rest) (hlen : rest.length + ids.length = a.mta.free.length) :
    TInv { a with mta := { a.mta with free := rest } }
      { st with mta := { st.mta with allocated := unionIds ids st.mta.allocated } } L (ids ++ M) := by
  refine ⟨h.acc, ?_, h.ascD, hasc, h.ascF, h.ascG, h.ndL, ?_, h.rD, h.rL, ?_, ?_, ?_, ?_, ?_, h.fL, ?_, ?_, ?_,
    h.foNil, h.noOv, h.lim, h.e0, h.J⟩
  all_goals (try dsimp only)
  · rw [List.length_append]; have := h.mtot; omega
  · rw [List.nodup_append]
    exact ⟨hnd, h.ndM, fun x hx y hy e => h.dM x ((hmem x).mpr (Or.inl hx)) (e ▸ hy)⟩
  · intro x hx; exact h.rMf x ((hmem x).mpr (Or.inr hx))
  · intro x hx
    rcases List.mem_append.mp hx with hx | hx
    · exact h.rMf x ((hmem x).mpr (Or.inl hx))
    · exact h.rM x hx
  · intro x hx
    have h1 := h.dD x hx
    refine ⟨h1.1, fun hr => h1.2.1 ((hmem x).mpr (Or.inr hr)), ?_⟩
    intro hm
    rcases List.mem_append.mp hm with hm | hm
    · exact h1.2.1 ((hmem x).mpr (Or.inl hm))
    · exact h1.2.2 hm
  · intro x hx
    have h1 := h.dL x hx
    refine ⟨fun hr => h1.1 ((hmem x).mpr (Or.inr hr)), ?_⟩
    intro hm
    rcases List.mem_append.mp hm with hm | hm
    · exact h1.1 ((hmem x).mpr (Or.inl hm))
    · exact h1.2 hm
  · intro x hx hm
    rcases List.mem_append.mp hm with hm | hm
    · exact hdisj x hm hx
    · exact h.dM x ((hmem x).mpr (Or.inr hx)) hm
  · intro x hx; exact List.mem_append_right _ (h.gM x hx)
  · intro x hx
    rcases h.mtmIn x hx with h1 | h1
    · rcases (hmem x).mp h1 with h2 | h2
      · exact Or.inr (List.mem_append_left _ h2)
      · exact Or.inl h2
    · exact Or.inr (List.mem_append_right _ h1)
  · intro x hx
    rcases (mem_unionIds _ _ _).mp hx with h1 | h1
    · exact List.mem_append_left _ h1
    · exact List.mem_append_right _ (h.alIn x h1)

theorem tinv_walAlloc (a : Alloc) (st : TxAlloc) (L M : List Nat) (a' : Alloc) (st' : TxAlloc) (id : Nat)
    (h : TInv a st L M) (hr : walAlloc a st = some (a', st', id)) : TInv a' st' L (id :: M) := by
  unfold walAlloc at hr
  split at hr
  · cases hr
  · rename_i a1 st1 he
    have hi := tinv_ensureMeta a st L M 1 a1 st1 h he
    split at hr
    · rename_i id' rest hc
      simp only [Option.some.injEq, Prod.mk.injEq] at hr
      obtain ⟨ha, hst, hid⟩ := hr
      subst ha hst hid
      obtain ⟨-, hsub, hrest, hasc⟩ := allocContinuous_spec a1.mta.free 1 hi.ascM [id'] rest hc
      obtain ⟨hlen, hnd, -⟩ := allocContinuous_length a1.mta.free 1 hi.ascM [id'] rest hc
      exact tinv_metaTake a1 st1 L M [id'] rest hi hasc (by
        intro x
        have h1 := hrest x
        have h2 := hsub x
        grind) hnd (by intro x hx; rw [hrest]; exact fun h1 => h1.2 hx) hlen
    · cases hr

theorem tinv_metaAllocRegions (a : Alloc) (st : TxAlloc) (L M : List Nat) (n : Nat) (a' : Alloc) (st' : TxAlloc)
    (ids : List Nat) (h : TInv a st L M) (hr : metaAllocRegions a st n = some (a', st', ids)) :
    TInv a' st' L (ids ++ M) := by
  unfold metaAllocRegions at hr
  split at hr
  · cases hr
  · rename_i a1 st1 he
    have hi := tinv_ensureMeta a st L M n a1 st1 h he
    dsimp only at hr
    split at hr
    · cases hr
    · simp only [Option.some.injEq, Prod.mk.injEq] at hr
      obtain ⟨ha, hst, hids⟩ := hr
      subst ha hst hids
      apply tinv_metaTake a1 st1 L M _ _ hi (asc_take _ _ hi.ascM)
      · intro x
        have := mem_take_or_drop a1.mta.free (a1.mta.free.length - min n a1.mta.free.length) x
        grind
      · exact asc_nodup _ (asc_drop _ _ hi.ascM)
      · intro x hx hx2
        exact take_drop_disjoint _ _ hi.ascM x hx2 hx
      · rw [List.length_take, List.length_drop]; omega

theorem tinv_metaFreeId (a : Alloc) (st : TxAlloc) (L M : List Nat) (id : Nat) (h : TInv a st L M)
    (hid : id ∈ M) : TInv a (metaFreeId st id) L M := by
  refine ⟨h.acc, h.mtot, h.ascD, h.ascM, h.ascF, asc_insertId _ _ h.ascG, h.ndL, h.ndM, h.rD, h.rL, h.rMf, h.rM,
    h.dD, h.dL, h.dM, h.fL, ?_, h.mtmIn, h.alIn, h.foNil, h.noOv, h.lim, h.e0, h.J⟩
  intro x hx
  rcases (mem_insertId _ _ _).mp hx with h1 | h1
  · exact h1 ▸ hid
  · exact h.gM x h1

/-- `TInv` only looks at some of the fields of the transaction state -/
theorem tinv_congr_st (a : Alloc) (st st' : TxAlloc) (L M : List Nat) (h : TInv a st L M)
    (s1 : st'.data.freed = st.data.freed) (s2 : st'.mta.freed = st.mta.freed)
    (s3 : st'.moveToMeta = st.moveToMeta) (s4 : st'.mta.allocated = st.mta.allocated)
    (s5 : st'.fromOverflow = st.fromOverflow) (s6 : st'.overflow = st.overflow)
    (s7 : st'.mta.end0 = st.mta.end0) (s8 : st'.data.end0 = st.data.end0)
    (s9 : st'.data.new_ = st.data.new_) : TInv a st' L M := by
  refine ⟨h.acc, h.mtot, h.ascD, h.ascM, ?_, ?_, h.ndL, h.ndM, h.rD, h.rL, h.rMf, h.rM, h.dD, h.dL, h.dM, ?_, ?_,
    ?_, ?_, ?_, ?_, ?_, ?_, h.J⟩
  · rw [s1]; exact h.ascF
  · rw [s2]; exact h.ascG
  · rw [s1, s9]; exact h.fL
  · rw [s2]; exact h.gM
  · rw [s3]; exact h.mtmIn
  · rw [s4]; exact h.alIn
  · rw [s5]; exact h.foNil
  · rw [s6]; exact h.noOv
  · rw [s7]; exact h.lim
  · rw [s8]; exact h.e0

/-- a page allocated by this transaction goes back to the free list immediately -/
theorem tinv_freeInsert (a : Alloc) (st : TxAlloc) (L M : List Nat) (id : Nat) (h : TInv a st L M)
    (hid : id ∈ L) (hnew : id ∈ st.data.new_) :
    TInv { a with data := { a.data with free := insertId id a.data.free } } st (L.erase id) M := by
  have hnf : id ∉ a.data.free := fun hf => (h.dD id hf).1 hid
  have hlen : 0 < L.length := List.length_pos_of_mem hid
  refine ⟨?_, h.mtot, asc_insertId _ _ h.ascD, h.ascM, h.ascF, h.ascG, h.ndL.erase id, h.ndM, ?_, ?_, h.rMf, h.rM,
    ?_, ?_, h.dM, ?_, h.gM, h.mtmIn, h.alIn, h.foNil, h.noOv, h.lim, h.e0, ?_⟩
  all_goals (try dsimp only)
  · rw [length_insertId_of_not_mem id _ hnf, List.length_erase_of_mem hid]; have := h.acc; omega
  · intro x hx
    rcases (mem_insertId _ _ _).mp hx with h1 | h1
    · rw [h1]; exact h.rL id hid
    · exact h.rD x h1
  · intro x hx; exact h.rL x (List.mem_of_mem_erase hx)
  · intro x hx
    rcases (mem_insertId _ _ _).mp hx with h1 | h1
    · subst h1
      have := h.dL x hid
      refine ⟨?_, this.1, this.2⟩
      rw [h.ndL.mem_erase_iff]; exact fun hh => hh.1 rfl
    · have := h.dD x h1
      exact ⟨fun hh => this.1 (List.mem_of_mem_erase hh), this.2.1, this.2.2⟩
  · intro x hx; exact h.dL x (List.mem_of_mem_erase hx)
  · intro x hx
    have h1 := h.fL x hx
    refine ⟨?_, h1.2⟩
    rw [h.ndL.mem_erase_iff]
    exact ⟨fun e => h1.2 (e ▸ hnew), h1.1⟩
  · rcases h.J with hj | ⟨_, hj2⟩
    · exact Or.inl hj
    · rw [hj2] at hid; cases hid

/-- the free pages at the end of the file are given back: the end marker moves down -/
theorem tinv_shrink (a : Alloc) (st : TxAlloc) (L M : List Nat) (s c : Nat) (h : TInv a st L M)
    (hl : lastRun a.data.free = some (s, c)) (he : ¬ s + c < a.data.endMarker) :
    TInv
      { a with
        data := { endMarker := if st.data.end0 > s then st.data.end0 else s,
                  free := removeRange a.data.free (if st.data.end0 > s then st.data.end0 else s) (s + c) },
        mta := { a.mta with
                 endMarker := if a.mta.endMarker = a.data.endMarker then max (if st.data.end0 > s then st.data.end0 else s) st.mta.end0 else a.mta.endMarker } }
      st L M := by
  obtain ⟨hc, hrun⟩ := lastRun_spec a.data.free h.ascD s c hl
  have hlast : s + c - 1 ∈ a.data.free := hrun (s + c - 1) (by omega) (by omega)
  have hend : s + c = a.data.endMarker := by have := h.rD _ hlast; omega
  have he0 := h.e0
  generalize hstart : (if st.data.end0 > s then st.data.end0 else s) = start
  have hst1 : st.data.end0 ≤ start := by rw [← hstart]; split <;> omega
  have hst2 : s ≤ start := by rw [← hstart]; split <;> omega
  have hst3 : start ≤ s + c := by rw [← hstart]; split <;> omega
  have hin : ∀ x, start ≤ x → x < s + c → x ∈ a.data.free := fun x h1 h2 => hrun x (by omega) h2
  have hlow : ∀ x, x < a.data.endMarker → x ∉ a.data.free → x < start := by
    intro x h1 h2
    apply Nat.lt_of_not_le
    intro h3
    exact h2 (hin x h3 (by omega))
  have hlm := h.lim
  refine ⟨?_, h.mtot, asc_removeRange _ _ _ h.ascD, h.ascM, h.ascF, h.ascG, h.ndL, h.ndM, ?_, ?_, ?_, ?_, ?_, h.dL,
    h.dM, h.fL, h.gM, h.mtmIn, h.alIn, h.foNil, h.noOv, ?_, hst1, ?_⟩
  all_goals (try dsimp only)
  · have := length_removeRange a.data.free start (s + c) h.ascD hst3 hin
    have := h.acc
    omega
  · intro x hx
    rw [mem_removeRange] at hx
    have := h.rD x hx.1
    omega
  · intro x hx
    have h1 := h.rL x hx
    exact ⟨h1.1, hlow x h1.2 (fun hf => (h.dD x hf).1 hx)⟩
  · intro x hx
    have h1 := h.rMf x hx
    have h2 := hlow x h1.2.1 (fun hf => (h.dD x hf).2.1 hx)
    refine ⟨h1.1, h2, ?_⟩
    split <;> omega
  · intro x hx
    have h1 := h.rM x hx
    have h2 := hlow x h1.2.1 (fun hf => (h.dD x hf).2.2 hx)
    refine ⟨h1.1, h2, ?_⟩
    split <;> omega
  · intro x hx
    rw [mem_removeRange] at hx
    exact h.dD x hx.1
  · rcases hlm with h0 | ⟨hd, hm, hm0⟩
    · exact Or.inl h0
    · right
      refine ⟨by omega, ?_, hm0⟩
      split <;> omega
  · rcases h.J with hj | ⟨hj1, _⟩
    · left; split <;> omega
    · rw [hj1] at hlast; cases hlast

theorem tinv_dataFreeCore (a : Alloc) (st : TxAlloc) (L M : List Nat) (id : Nat) (h : TInv a st L M)
    (hid : id ∈ L) :
    TInv (dataFreeCore a st id).1 (dataFreeCore a st id).2 (if st.data.new_.contains id then L.erase id else L) M := by
  unfold dataFreeCore
  by_cases hnew : id ∈ st.data.new_
  · have hc : st.data.new_.contains id = true := by simp [hnew]
    rw [hc]
    simp only [Bool.not_true, Bool.false_eq_true, if_false, if_true]
    have hi := tinv_freeInsert a st L M id h hid hnew
    by_cases h1 : st.data.end0 ≥ id
    · rw [if_pos h1]; exact hi
    · rw [if_neg h1]
      cases hl : lastRun (insertId id a.data.free) with
      | none => exact hi
      | some p =>
        obtain ⟨s, c⟩ := p
        dsimp only
        by_cases h2 : s + c < a.data.endMarker
        · rw [if_pos h2]; exact hi
        · rw [if_neg h2]
          exact tinv_shrink _ st _ M s c hi hl h2
  · have hc : st.data.new_.contains id = false := by simp [hnew]
    rw [hc]
    simp only [Bool.not_false, if_true, Bool.false_eq_true, if_false]
    refine ⟨h.acc, h.mtot, h.ascD, h.ascM, asc_insertId _ _ h.ascF, h.ascG, h.ndL, h.ndM, h.rD, h.rL, h.rMf, h.rM,
      h.dD, h.dL, h.dM, ?_, h.gM, h.mtmIn, h.alIn, h.foNil, h.noOv, h.lim, h.e0, h.J⟩
    intro x hx
    rcases (mem_insertId _ _ _).mp hx with h1 | h1
    · subst h1; exact ⟨hid, hnew⟩
    · exact h.fL x h1

theorem tinv_dataFree (a : Alloc) (st : TxAlloc) (L M : List Nat) (id : Nat) (h : TInv a st L M)
    (hid : id ∈ L) :
    TInv (dataFree a st id).1 (dataFree a st id).2 (if st.data.new_.contains id then L.erase id else L) M := by
  rw [dataFree_eq]
  exact tinv_dataFreeCore a _ L M id (tinv_congr_st a st _ L M h rfl rfl rfl rfl rfl rfl rfl rfl rfl) hid

/-! ### quiescent states -/

/-- the accounting invariant between transactions of a bounded file without overflow area: the
    ledger `(L, M)` of owned data pages and meta pages in use, the two free lists are pairwise
    disjoint sets of pages of the data area, and the counts add up -/
structure Quiet (a : Alloc) (L M : List Nat) : Prop where
  acc : a.data.endMarker = 2 + a.data.free.length + L.length + a.metaTotal
  mtot : a.metaTotal = a.mta.free.length + M.length
  ascD : Asc a.data.free
  ascM : Asc a.mta.free
  ndL : L.Nodup
  ndM : M.Nodup
  rD : ∀ x ∈ a.data.free, 2 ≤ x ∧ x < a.data.endMarker
  rL : ∀ x ∈ L, 2 ≤ x ∧ x < a.data.endMarker
  rMf : ∀ x ∈ a.mta.free, 2 ≤ x ∧ x < a.data.endMarker ∧ x < a.mta.endMarker
  rM : ∀ x ∈ M, 2 ≤ x ∧ x < a.data.endMarker ∧ x < a.mta.endMarker
  dD : ∀ x ∈ a.data.free, x ∉ L ∧ x ∉ a.mta.free ∧ x ∉ M
  dL : ∀ x ∈ L, x ∉ a.mta.free ∧ x ∉ M
  dM : ∀ x ∈ a.mta.free, x ∉ M
  lim : a.maxPages = 0 ∨ (a.data.endMarker ≤ a.maxPages ∧ a.mta.endMarker ≤ a.maxPages)
  J : a.data.endMarker ≤ a.mta.endMarker ∨ (a.data.free = [] ∧ L = [])

theorem TInv.quiet {a : Alloc} {st : TxAlloc} {L M : List Nat} (h : TInv a st L M) : Quiet a L M :=
  ⟨h.acc, h.mtot, h.ascD, h.ascM, h.ndL, h.ndM, h.rD, h.rL, h.rMf, h.rM, h.dD, h.dL, h.dM,
    h.lim.imp id (fun hl => ⟨hl.1, hl.2.1⟩), h.J⟩

theorem Quiet.begin {a : Alloc} {L M : List Nat} (h : Quiet a L M) (pct : Nat) :
    TInv a (a.beginTx false pct) L M := by
  refine ⟨h.acc, h.mtot, h.ascD, h.ascM, asc_nil, asc_nil, h.ndL, h.ndM, h.rD, h.rL, h.rMf, h.rM, h.dD, h.dL, h.dM,
    ?_, ?_, ?_, ?_, rfl, rfl, h.lim.imp id (fun hl => ⟨hl.1, hl.2, hl.2⟩), Nat.le_refl _, h.J⟩
  all_goals (intro x hx; cases hx)

theorem Quiet.allocWF {a : Alloc} {L M : List Nat} (h : Quiet a L M) : allocWF a = true := by
  have hacc := h.acc
  have hmt := h.mtot
  simp only [TxVerif.allocWF, Bool.and_eq_true, List.all_eq_true, decide_eq_true_eq, Bool.or_eq_true,
    beq_iff_eq, Bool.not_eq_true', List.contains_eq_mem, decide_eq_false_iff_not]
  refine ⟨⟨⟨⟨⟨⟨⟨ascB_of_asc _ h.ascD, ascB_of_asc _ h.ascM⟩, h.rD⟩, ?_⟩, ?_⟩, by omega⟩,
    h.lim.imp id (fun hl => hl.1)⟩, by omega⟩
  · intro x hx; have := h.rMf x hx; omega
  · intro x hx; exact (h.dD x hx).2.1

/-! ### the commit of a file without overflow area -/

theorem commitState_lim (a1 : Alloc) (st1 : TxAlloc) (regs : List Nat)
    (hl : a1.maxPages = 0 ∨ (a1.data.endMarker ≤ a1.maxPages ∧ a1.mta.endMarker ≤ a1.maxPages)) :
    commitState a1 st1 regs =
      { updated := true, allocRegions := regs, dataEnd := a1.data.endMarker, metaEnd := a1.mta.endMarker,
        metaList := unionIds st1.mta.freed a1.mta.free, dataList := unionIds st1.data.freed a1.data.free,
        overflowFreed := 0 } := by
  have h1 : ovfRel a1 st1 = (unionIds st1.mta.freed a1.mta.free, 0) := by
    unfold ovfRel releaseOverflow; rw [if_pos (hl.imp id (fun h => h.2))]
  have h2 : dataEnd1 a1 st1 = a1.data.endMarker := by
    unfold dataEnd1; rw [h1]; simp
  have h3 : dataRel a1 st1 = (unionIds st1.data.freed a1.data.free, 0) := by
    unfold dataRel releaseOverflow; rw [h2, if_pos (hl.imp id (fun h => h.1))]
  rw [commitState_eq, h1, h2, h3]
  simp

/-- the pending frees become allocatable: they leave the ledger and join the free lists -/
theorem quiet_commit (a : Alloc) (st : TxAlloc) (L M regs : List Nat) (h : TInv a st L M) :
    Quiet { a with freelistPages := regs,
                   data := { endMarker := a.data.endMarker, free := unionIds st.data.freed a.data.free },
                   mta := { endMarker := a.mta.endMarker, free := unionIds st.mta.freed a.mta.free },
                   metaTotal := a.metaTotal - 0 }
      (removeIds L st.data.freed) (removeIds M st.mta.freed) := by
  have hfL : ∀ x ∈ st.data.freed, x ∈ L := fun x hx => (h.fL x hx).1
  have hfD : ∀ x ∈ st.data.freed, x ∉ a.data.free := fun x hx hf => (h.dD x hf).1 (hfL x hx)
  have hgD : ∀ x ∈ st.mta.freed, x ∉ a.mta.free := fun x hx hf => h.dM x hf (h.gM x hx)
  refine ⟨?_, ?_, asc_unionIds _ _ h.ascD, asc_unionIds _ _ h.ascM, ?_, ?_, ?_, ?_, ?_, ?_, ?_, ?_, ?_,
    h.lim.imp id (fun hl => ⟨hl.1, hl.2.1⟩), ?_⟩
  all_goals (try dsimp only)
  · rw [length_unionIds_of_disjoint _ _ (asc_nodup _ h.ascF) hfD]
    have := length_removeIds L st.data.freed h.ndL (asc_nodup _ h.ascF) hfL
    have := h.acc
    omega
  · rw [length_unionIds_of_disjoint _ _ (asc_nodup _ h.ascG) hgD]
    have := length_removeIds M st.mta.freed h.ndM (asc_nodup _ h.ascG) h.gM
    have := h.mtot
    omega
  · exact List.Nodup.sublist List.filter_sublist h.ndL
  · exact List.Nodup.sublist List.filter_sublist h.ndM
  · intro x hx
    rcases (mem_unionIds _ _ _).mp hx with h1 | h1
    · exact h.rL x (hfL x h1)
    · exact h.rD x h1
  · intro x hx; exact h.rL x ((mem_removeIds _ _ _).mp hx).1
  · intro x hx
    rcases (mem_unionIds _ _ _).mp hx with h1 | h1
    · exact h.rM x (h.gM x h1)
    · exact h.rMf x h1
  · intro x hx; exact h.rM x ((mem_removeIds _ _ _).mp hx).1
  · intro x hx
    rw [mem_removeIds, mem_removeIds, mem_unionIds]
    rcases (mem_unionIds _ _ _).mp hx with h1 | h1
    · have h2 := h.dL x (hfL x h1)
      refine ⟨fun hh => hh.2 h1, ?_, fun hh => h2.2 hh.1⟩
      rintro (h3 | h3)
      · exact h2.2 (h.gM x h3)
      · exact h2.1 h3
    · have h2 := h.dD x h1
      refine ⟨fun hh => h2.1 hh.1, ?_, fun hh => h2.2.2 hh.1⟩
      rintro (h3 | h3)
      · exact h2.2.2 (h.gM x h3)
      · exact h2.2.1 h3
  · intro x hx
    rw [mem_removeIds] at hx
    have h2 := h.dL x hx.1
    rw [mem_removeIds, mem_unionIds]
    refine ⟨?_, fun hh => h2.2 hh.1⟩
    rintro (h3 | h3)
    · exact h2.2 (h.gM x h3)
    · exact h2.1 h3
  · intro x hx
    rw [mem_removeIds]
    rcases (mem_unionIds _ _ _).mp hx with h1 | h1
    · exact fun hh => hh.2 h1
    · exact fun hh => h.dM x h1 hh.1
  · rcases h.J with hj | ⟨hj1, hj2⟩
    · exact Or.inl hj
    · right
      have hf0 : st.data.freed = [] := by
        apply List.eq_nil_iff_forall_not_mem.mpr
        intro x hx
        have := hfL x hx
        rw [hj2] at this; cases this
      rw [hf0, hj1, hj2]
      exact ⟨rfl, rfl⟩

/-- the commit of a transaction: the allocator state it installs satisfies the quiescent invariant
    for the ledger without the pages freed by the transaction -/
theorem tinv_commit (a : Alloc) (st : TxAlloc) (L M : List Nat) (upd : Bool) (a1 : Alloc) (st1 : TxAlloc)
    (cs : AllocCommit) (h : TInv a st L M) (hupd : st.updated = true → upd = true)
    (hc : fileCommitAlloc a st upd = some (a1, st1, cs)) :
    Quiet (a1.commit cs) (removeIds L st1.data.freed) (removeIds (cs.allocRegions ++ M) st1.mta.freed) ∧
    st1.data.freed = st.data.freed := by
  cases hu : upd with
  | false =>
    rw [hu] at hc
    have hst : st.updated = false := by
      cases hs : st.updated with
      | false => rfl
      | true => rw [hu] at hupd; exact absurd (hupd hs) (by simp)
    obtain ⟨hf1, hf2⟩ := updated_false st hst
    simp only [fileCommitAlloc, Bool.not_false, if_true, Option.some.injEq, Prod.mk.injEq] at hc
    obtain ⟨ha, hs, hcs⟩ := hc
    subst ha hs hcs
    rw [hf1, hf2, removeIds_nil, removeIds_nil]
    exact ⟨h.quiet, rfl⟩
  | true =>
    rw [hu] at hc
    obtain ⟨hcs, hstep⟩ := fileCommitAlloc_some a st a1 st1 cs hc
    have h1 : TInv a1 st1 L (cs.allocRegions ++ M) ∧ st1.data.freed = st.data.freed := by
      rcases hstep with ⟨ha, hs, hr⟩ | ⟨n, -, hr⟩
      · subst ha hs; rw [hr]; exact ⟨h, rfl⟩
      · refine ⟨tinv_metaAllocRegions a st L M n a1 st1 _ h hr, ?_⟩
        exact metaAllocRegions_freed a st n a1 st1 _ h.noOv hr
    refine ⟨?_, h1.2⟩
    rw [hcs, commitState_lim a1 st1 _ (h1.1.lim.imp id (fun hl => ⟨hl.1, hl.2.1⟩))]
    simp only [Alloc.commit, Bool.not_true, Bool.false_eq_true, if_false]
    exact quiet_commit a1 st1 L _ _ h1.1


/-- the commit in numbers: the live count drops by the number of pages freed by the transaction -/
theorem tinv_commit_count (a : Alloc) (st : TxAlloc) (L M : List Nat) (upd : Bool) (a1 : Alloc) (st1 : TxAlloc)
    (cs : AllocCommit) (h : TInv a st L M) (hupd : st.updated = true → upd = true)
    (hc : fileCommitAlloc a st upd = some (a1, st1, cs)) :
    (a1.commit cs).data.endMarker =
      2 + (a1.commit cs).data.free.length + (L.length - st.data.freed.length) + (a1.commit cs).metaTotal ∧
    st.data.freed.length ≤ L.length ∧
    Quiet (a1.commit cs) (removeIds L st.data.freed) (removeIds (cs.allocRegions ++ M) st1.mta.freed) := by
  obtain ⟨hq, hf⟩ := tinv_commit a st L M upd a1 st1 cs h hupd hc
  rw [hf] at hq
  have hlen := length_removeIds L st.data.freed h.ndL (asc_nodup _ h.ascF) (fun x hx => (h.fL x hx).1)
  refine ⟨?_, by omega, hq⟩
  have := hq.acc
  omega


/-! ### decidability (for concrete examples) -/

instance (a : Alloc) (L M : List Nat) : Decidable (Quiet a L M) :=
  decidable_of_iff
    ((a.data.endMarker = 2 + a.data.free.length + L.length + a.metaTotal) ∧
     (a.metaTotal = a.mta.free.length + M.length) ∧ Asc a.data.free ∧ Asc a.mta.free ∧ L.Nodup ∧ M.Nodup ∧
     (∀ x ∈ a.data.free, 2 ≤ x ∧ x < a.data.endMarker) ∧ (∀ x ∈ L, 2 ≤ x ∧ x < a.data.endMarker) ∧
     (∀ x ∈ a.mta.free, 2 ≤ x ∧ x < a.data.endMarker ∧ x < a.mta.endMarker) ∧
     (∀ x ∈ M, 2 ≤ x ∧ x < a.data.endMarker ∧ x < a.mta.endMarker) ∧
     (∀ x ∈ a.data.free, x ∉ L ∧ x ∉ a.mta.free ∧ x ∉ M) ∧ (∀ x ∈ L, x ∉ a.mta.free ∧ x ∉ M) ∧
     (∀ x ∈ a.mta.free, x ∉ M) ∧
     (a.maxPages = 0 ∨ (a.data.endMarker ≤ a.maxPages ∧ a.mta.endMarker ≤ a.maxPages)) ∧
     (a.data.endMarker ≤ a.mta.endMarker ∨ (a.data.free = [] ∧ L = [])))
    ⟨fun ⟨h1, h2, h3, h4, h5, h6, h7, h8, h9, h10, h11, h12, h13, h14, h15⟩ =>
      ⟨h1, h2, h3, h4, h5, h6, h7, h8, h9, h10, h11, h12, h13, h14, h15⟩,
     fun h => ⟨h.acc, h.mtot, h.ascD, h.ascM, h.ndL, h.ndM, h.rD, h.rL, h.rMf, h.rM, h.dD, h.dL, h.dM, h.lim, h.J⟩⟩

example : Quiet { maxPages := 40, pageSize := 1024, data := { endMarker := 30, free := [3, 4, 5, 9, 10, 20, 29] },
                  mta := { endMarker := 30, free := [6, 7, 15] }, metaTotal := 5, freelistPages := [8] }
    [2, 11, 12, 13, 14, 16, 17, 18, 19, 21, 22, 23, 24, 25, 26, 27] [8, 28] := by decide

/-- the same ledger on a file without page limit -/
example : Quiet { maxPages := 0, pageSize := 1024, data := { endMarker := 30, free := [3, 4, 5, 9, 10, 20, 29] },
                  mta := { endMarker := 30, free := [6, 7, 15] }, metaTotal := 5, freelistPages := [8] }
    [2, 11, 12, 13, 14, 16, 17, 18, 19, 21, 22, 23, 24, 25, 26, 27] [8, 28] := by decide

/-! ### the bounded case is `Quiet` / `TInv` of Proofs/Account.lean -/

theorem quiet_of_bounded {a : Alloc} {L M : List Nat} (h : TxVerif.Quiet a L M) : Quiet a L M :=
  ⟨h.acc, h.mtot, h.ascD, h.ascM, h.ndL, h.ndM, h.rD, h.rL, h.rMf, h.rM, h.dD, h.dL, h.dM,
    Or.inr ⟨h.dLim, h.mLim⟩, h.J⟩

theorem Quiet.bounded {a : Alloc} {L M : List Nat} (h : Quiet a L M) (hb : 0 < a.maxPages) : TxVerif.Quiet a L M := by
  have hl : a.data.endMarker ≤ a.maxPages ∧ a.mta.endMarker ≤ a.maxPages := by
    rcases h.lim with h0 | h0
    · omega
    · exact h0
  exact ⟨h.acc, h.mtot, h.ascD, h.ascM, h.ndL, h.ndM, h.rD, h.rL, h.rMf, h.rM, h.dD, h.dL, h.dM, hb, hl.1, hl.2, h.J⟩

theorem tinv_of_bounded {a : Alloc} {st : TxAlloc} {L M : List Nat} (h : TxVerif.TInv a st L M) : TInv a st L M :=
  ⟨h.acc, h.mtot, h.ascD, h.ascM, h.ascF, h.ascG, h.ndL, h.ndM, h.rD, h.rL, h.rMf, h.rM, h.dD, h.dL, h.dM, h.fL, h.gM,
    h.mtmIn, h.alIn, h.foNil, h.noOv, Or.inr ⟨h.dLim, h.mLim, h.m0Lim⟩, h.e0, h.J⟩

end TxVerif.AU
