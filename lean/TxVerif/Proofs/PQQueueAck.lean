/-
  ACK planning (`ackPlan`, `ackInit`, Model/PQAck.lean) on the chain on disk, at explicit positions: the
  first kept page, the new head position and the new read position in terms of the event boundaries
  (`qpos`, `qhdr`, Proofs/PQQueue.lean).
-/
import TxVerif.Proofs.PQQueue
namespace TxVerif

/-! ## the walk only looks at the header fields -/

theorem ackWalk_extPages : ∀ (l l' : List QPage) (endID x : Nat), ExtPages l l' → ackWalk l endID x = ackWalk l' endID x
  | [], [], _, _, _ => rfl
  | [], _ :: _, _, _, h => h.elim
  | _ :: _, [], _, _, h => h.elim
  | p :: ps, p' :: ps', endID, x, h => by
    obtain ⟨hp, hps⟩ := h
    have hemp : ps.isEmpty = ps'.isEmpty := by
      cases ps <;> cases ps' <;> first | rfl | exact hps.elim
    rw [ackWalk, ackWalk, hp.2.2.1, hp.2.1, hemp]
    rw [ackWalk_extPages ps ps' endID _ hps]

theorem ExtPages_drop : ∀ (i : Nat) (l l' : List QPage), ExtPages l l' → ExtPages (l.drop i) (l'.drop i)
  | 0, _, _, h => h
  | i + 1, l, l', h => by
    have := ExtPages_drop i l.tail l'.tail (ExtPages_tail l l' h)
    simpa [List.drop_tail] using this

theorem ExtPages_refl : ∀ l : List QPage, ExtPages l l
  | [] => trivial
  | p :: ps => ⟨PExt_refl p, ExtPages_refl ps⟩

theorem ExtPages_concat (xs : List QPage) (a b : QPage) (h : PExt a b) : ExtPages (xs ++ [a]) (xs ++ [b]) := by
  induction xs with
  | nil => exact ⟨h, trivial⟩
  | cons x xs ih => exact ⟨PExt_refl x, ih⟩

theorem ExtPages_getElem : ∀ (l l' : List QPage) (i : Nat) (p : QPage), ExtPages l l' → l'[i]? = some p →
    ∃ p0, l[i]? = some p0 ∧ PExt p0 p
  | [], [], _, _, _, h => by simp at h
  | [], _ :: _, _, _, h, _ => h.elim
  | _ :: _, [], _, _, h, _ => h.elim
  | q :: qs, q' :: qs', 0, p, h, hp => by
    simp only [List.getElem?_cons_zero, Option.some.injEq] at hp ⊢
    subst hp; exact ⟨q, rfl, h.1⟩
  | q :: qs, q' :: qs', i + 1, p, h, hp => by
    simp only [List.getElem?_cons_succ] at hp ⊢
    exact ExtPages_getElem qs qs' i p h.2 hp

/-! ## id ranges: pages with event headers are ordered by their ids -/

theorem IdRanges_lower : ∀ (l : List QPage) (a b y : Nat) (p : QPage), IdRanges a l b → l[y]? = some p →
    p.off ≠ 0 → a ≤ p.first ∧ p.first ≤ p.last := by
  intro l
  induction l with
  | nil => intro a b y p _ h; simp at h
  | cons q qs ih =>
    intro a b y p hR hy hoff
    simp only [IdRanges] at hR
    cases y with
    | zero =>
      simp only [List.getElem?_cons_zero, Option.some.injEq] at hy
      subst hy
      rw [if_neg hoff] at hR
      exact ⟨by omega, hR.2.1⟩
    | succ y =>
      simp only [List.getElem?_cons_succ] at hy
      by_cases h0 : q.off = 0
      · rw [if_pos h0] at hR; exact ih a b y p hR hy hoff
      · rw [if_neg h0] at hR
        have := ih _ b y p hR.2.2 hy hoff
        exact ⟨by omega, this.2⟩

theorem IdRanges_order : ∀ (l : List QPage) (a b x y : Nat) (p p' : QPage), IdRanges a l b →
    l[x]? = some p → l[y]? = some p' → p.off ≠ 0 → p'.off ≠ 0 → x < y → p.last < p'.first := by
  intro l
  induction l with
  | nil => intro a b x y p p' _ h; simp at h
  | cons q qs ih =>
    intro a b x y p p' hR hx hy ho ho' hxy
    simp only [IdRanges] at hR
    cases y with
    | zero => omega
    | succ y =>
      simp only [List.getElem?_cons_succ] at hy
      cases x with
      | zero =>
        simp only [List.getElem?_cons_zero, Option.some.injEq] at hx
        subst hx
        rw [if_neg ho] at hR
        have := IdRanges_lower qs _ b y p' hR.2.2 hy ho'
        omega
      | succ x =>
        simp only [List.getElem?_cons_succ] at hx
        by_cases h0 : q.off = 0
        · rw [if_pos h0] at hR; exact ih a b x y p p' hR hx hy ho ho' (by omega)
        · rw [if_neg h0] at hR; exact ih _ b x y p p' hR.2.2 hx hy ho ho' (by omega)

/-- if every page with an event header in front of page `y` ends below `e - 1` and the ranges start below `e`,
    page `y` starts below `e` -/
theorem IdRanges_first_lt : ∀ (l : List QPage) (a b y e : Nat) (p' : QPage), IdRanges a l b →
    l[y]? = some p' → p'.off ≠ 0 → a < e →
    (∀ x < y, ∀ p, l[x]? = some p → p.off ≠ 0 → p.last + 1 < e) → p'.first < e := by
  intro l
  induction l with
  | nil => intro a b y e p' _ h; simp at h
  | cons q qs ih =>
    intro a b y e p' hR hy ho hae hfr
    simp only [IdRanges] at hR
    cases y with
    | zero =>
      simp only [List.getElem?_cons_zero, Option.some.injEq] at hy
      subst hy
      rw [if_neg ho] at hR
      omega
    | succ y =>
      simp only [List.getElem?_cons_succ] at hy
      have hfr' : ∀ x < y, ∀ p, qs[x]? = some p → p.off ≠ 0 → p.last + 1 < e :=
        fun x hx p hp hpo => hfr (x + 1) (by omega) p (by simpa using hp) hpo
      by_cases h0 : q.off = 0
      · rw [if_pos h0] at hR; exact ih a b y e p' hR hy ho hae hfr'
      · rw [if_neg h0] at hR
        have := hfr 0 (by omega) q (by simp) h0
        exact ih _ b y e p' hR.2.2 hy ho this hfr'

/-! ## where a page with an event header sits -/

/-- A page `p` of the chain with an event header (`off ≠ 0`) is the page in which the header of event
    `p.first` was written, and `p.off` is the offset of that header: explicit in terms of the writer state
    after the events before `p.first`.  (`entry_struct` of Props/C12Ack.lean with the position made explicit.) -/
theorem entry_pos (S : Nat) (h4 : 4 ≤ S) :
    ∀ (evs : List (List UInt8)) (cur : QPage) (id : Nat), WInv S cur id →
      ∀ (k : Nat) (p : QPage), (layoutFrom S cur id evs)[k]? = some p → p.off ≠ 0 →
        (k = 0 → cur.off = 0) →
        id ≤ p.first ∧ p.first - id < evs.length ∧
        k = (writeEvents S cur id (evs.take (p.first - id))).1.length +
              (reserveHdr S (writeEvents S cur id (evs.take (p.first - id))).2).1.length ∧
        p.off = 28 + (reserveHdr S (writeEvents S cur id (evs.take (p.first - id))).2).2.payload.length := by
  intro evs
  induction evs with
  | nil =>
    intro cur id _ k p h hoff hk
    rw [layoutFrom_nil] at h
    cases k with
    | zero => simp at h; subst h; exact absurd (hk rfl) hoff
    | succ k => simp at h
  | cons e es ih =>
    intro cur id hinv k p h hoff hk
    have hinv' := (writeEvent_ids S h4 cur id e hinv).1
    obtain ⟨hd, tl, e1, hx⟩ := layoutFrom_head S es (writeEvent S cur id e).2 (id + 1)
    have caseA : ∀ p' : QPage, ((writeEvent S cur id e).1 ++ [(writeEvent S cur id e).2])[k]? = some p' →
        p'.off = p.off → p'.first = p.first →
        id ≤ p.first ∧ p.first - id < (e :: es).length ∧
        k = (writeEvents S cur id ((e :: es).take (p.first - id))).1.length +
              (reserveHdr S (writeEvents S cur id ((e :: es).take (p.first - id))).2).1.length ∧
        p.off = 28 + (reserveHdr S (writeEvents S cur id ((e :: es).take (p.first - id))).2).2.payload.length := by
      intro p' hp' ho hf
      obtain ⟨w1, w2⟩ := writeEvent_offs S cur id e k p' hp' (by rw [ho]; exact hoff) hk
      have hfirst : p.first = id := by rw [← hf]; exact w1
      have e0 : p.first - id = 0 := by omega
      rw [e0]
      simp only [List.take_zero, writeEvents, List.length_nil, Nat.zero_add]
      rcases w2 with ⟨hp, hk1, ho'⟩ | ⟨hp, hk0, ho'⟩
      · refine ⟨by omega, by simp, ?_, ?_⟩
        · rw [reserveHdr_pad S cur hp]; simpa using hk1
        · rw [reserveHdr_pad S cur hp, ← ho, ho']; rfl
      · refine ⟨by omega, by simp, ?_, ?_⟩
        · rw [reserveHdr_nopad S cur hp]; simpa using hk0
        · rw [reserveHdr_nopad S cur hp, ← ho, ho']
    rw [layoutFrom_cons] at h
    by_cases hlt : k < (writeEvent S cur id e).1.length
    · rw [List.getElem?_append_left hlt] at h
      exact caseA p (by rw [List.getElem?_append_left hlt]; exact h) rfl rfl
    · have hle : (writeEvent S cur id e).1.length ≤ k := by omega
      rw [List.getElem?_append_right hle] at h
      by_cases hA : k = (writeEvent S cur id e).1.length ∧ (writeEvent S cur id e).2.off ≠ 0
      · obtain ⟨hk', hc3⟩ := hA
        have hp : p = hd := by
          rw [e1, hk', Nat.sub_self] at h
          simpa using h.symm
        have hxe := hx.2 hc3
        refine caseA (writeEvent S cur id e).2 ?_ (by rw [hp, hxe.1]) (by rw [hp, hxe.2])
        rw [List.getElem?_append_right hle, hk', Nat.sub_self]
        rfl
      · have hk'' : k - (writeEvent S cur id e).1.length = 0 → (writeEvent S cur id e).2.off = 0 := by
          intro hz
          have : k = (writeEvent S cur id e).1.length := by omega
          exact Decidable.byContradiction fun hne => hA ⟨this, hne⟩
        obtain ⟨i1, i2, i3, i4⟩ := ih (writeEvent S cur id e).2 (id + 1) hinv' _ p h hoff hk''
        have e3 : p.first - id = (p.first - (id + 1)) + 1 := by omega
        rw [e3]
        simp only [List.take_succ_cons, writeEvents, List.length_append]
        exact ⟨by omega, by simp; omega, by omega, i4⟩

/-! ## the chain as the writer lays it out, and the chain on disk -/

/-- the chain for the first `F` events exactly as laid out (last page up to the tail offset) -/
def qV (S : Nat) (evs : List (List UInt8)) (F : Nat) : List QPage := qW S evs F ++ [qc S evs F]

theorem qV_eq (S : Nat) (evs : List (List UInt8)) (F : Nat) :
    qV S evs F = layoutFrom S QPage.fresh 0 (evs.take F) := by
  rw [layoutFrom_eq_writeEvents]; rfl

theorem qV_CRel (S : Nat) (evs : List (List UInt8)) (F : Nat) (hF : 0 < F) : CRel S evs F (qV S evs F) :=
  Or.inr ⟨hF, qc S evs F, rfl, PExt_refl _⟩

theorem qV_ext (S : Nat) (evs : List (List UInt8)) (F : Nat) (C : List QPage) (hC : CRel S evs F C) (hF : 0 < F) :
    ExtPages (qV S evs F) C := by
  rcases hC with ⟨h0, _⟩ | ⟨_, p, hCe, hp⟩
  · omega
  · rw [hCe]; exact ExtPages_concat _ _ _ hp

/-- if the header of event `j` does not fit behind event `j - 1`, the next page starts with it -/
theorem pad_page (P S : Nat) (hS : S + 28 = P) (h4 : 4 ≤ S) (evs : List (List UInt8)) (F : Nat)
    (C : List QPage) (hC : CRel S evs F C) (hF : F ≤ evs.length) (j : Nat) (hj : j < F)
    (hsz : ∀ e ∈ evs, e.length < 2 ^ 32) (hpad : qpad S evs j) :
    ∃ p, C[(qW S evs j).length + 1]? = some p ∧ p.off = 28 ∧ p.first = j := by
  obtain ⟨k1, _, _, _⟩ := chain_read P S hS h4 evs F C hC hF j hj hsz
  have hq : qhdr S evs j = ((qW S evs j).length + 1, 28) := by simp [qhdr, hpad]
  rw [hq] at k1
  simp only [qpos, nextHdrPosId] at k1
  have hP : P - (28 + (qc S evs j).payload.length) < 4 := by simp only [qpad] at hpad; omega
  simp only [hP, if_true] at k1
  cases ht : (C.drop (qW S evs j).length).tail with
  | nil => rw [ht] at k1; simp at k1
  | cons q qs =>
    rw [ht] at k1
    simp only at k1
    by_cases hc : q.first ≠ j ∨ q.off = 0
    · simp [hc] at k1
    · simp only [hc, if_false, Option.some.injEq, Prod.mk.injEq] at k1
      have hd : C.drop ((qW S evs j).length + 1) = q :: qs := by rw [← ht, List.tail_drop]
      refine ⟨q, ?_, k1.2, ?_⟩
      · have := congrArg List.head? hd
        simpa [List.head?_drop] using this
      · simp only [not_or, Decidable.not_not] at hc; exact hc.1

/-- the headers of the events `K.first + 1 … K.last` are in page `K`: they fit behind their predecessor -/
theorem nopad_in_page (P S : Nat) (hS : S + 28 = P) (h4 : 4 ≤ S) (evs : List (List UInt8)) (F : Nat)
    (hF : F ≤ evs.length) (hsz : ∀ e ∈ evs, e.length < 2 ^ 32) (x : Nat) (K : QPage)
    (hK : (qV S evs F)[x]? = some K) (hoff : K.off ≠ 0) (j : Nat) (hj1 : K.first < j) (hj2 : j ≤ K.last)
    (hjF : j < F) : ¬ qpad S evs j := by
  intro hpad
  have hF0 : 0 < F := by omega
  obtain ⟨p, hp, hp1, hp2⟩ := pad_page P S hS h4 evs F _ (qV_CRel S evs F hF0) hF j hjF hsz hpad
  have hR : IdRanges 0 (qV S evs F) (0 + (evs.take F).length) := by
    rw [qV_eq]
    have := (layoutFrom_ids S h4 (evs.take F) QPage.fresh 0 (WInv_fresh S 0)).1
    simpa [startId] using this
  have hpo : p.off ≠ 0 := by rw [hp1]; decide
  rcases Nat.lt_trichotomy x ((qW S evs j).length + 1) with h | h | h
  · have := IdRanges_order _ _ _ _ _ K p hR hK hp hoff hpo h
    omega
  · rw [h, hp] at hK
    simp only [Option.some.injEq] at hK
    rw [← hK, hp2] at hj1
    omega
  · have := IdRanges_order _ _ _ _ _ p K hR hp hK hpo hoff h
    have := (IdRanges_lower _ _ _ _ p hR hp hpo).2
    omega

/-- `findNewStartPositions`: skipping `m ≥ 1` events from the header of event `j`, when the headers of the
    following `m - 1` events fit behind their predecessors, ends behind event `j + m - 1` -/
theorem skip_pos (P S : Nat) (hS : S + 28 = P) (h4 : 4 ≤ S) (evs : List (List UInt8)) (F : Nat)
    (C : List QPage) (hC : CRel S evs F C) (hF : F ≤ evs.length) (hsz : ∀ e ∈ evs, e.length < 2 ^ 32) :
    ∀ (m j : Nat), j + m + 1 ≤ F → (∀ i, j < i → i < j + m + 1 → ¬ qpad S evs i) →
      skipEvents P (m + 1) (C.drop (qhdr S evs j).1) (qhdr S evs j).2 =
        some (C.drop (qpos S evs (j + m + 1)).1, (qpos S evs (j + m + 1)).2) := by
  intro m
  induction m with
  | zero =>
    intro j hj _
    obtain ⟨_, _, k3, k4⟩ := chain_read P S hS h4 evs F C hC hF j (by omega) hsz
    simp only [skipEvents, readEventAt_eq, k3, Option.bind_some, k4]
  | succ m ih =>
    intro j hj hnp
    obtain ⟨_, _, k3, k4⟩ := chain_read P S hS h4 evs F C hC hF j (by omega) hsz
    have hn := hnp (j + 1) (by omega) (by omega)
    have hq : qhdr S evs (j + 1) = qpos S evs (j + 1) := by simp [qhdr, hn]
    have := ih (j + 1) (by omega) (fun i h1 h2 => hnp i (by omega) (by omega))
    rw [hq] at this
    rw [skipEvents, readEventAt_eq, k3]
    simp only [Option.bind_some, k4]
    have e : j + 1 + m + 1 = j + (m + 1) + 1 := by omega
    rw [← e]
    exact this

theorem ExtPages_getElem' : ∀ (l l' : List QPage) (i : Nat) (p : QPage), ExtPages l l' → l[i]? = some p →
    ∃ p', l'[i]? = some p' ∧ PExt p p'
  | [], [], _, _, _, h => by simp at h
  | [], _ :: _, _, _, h, _ => h.elim
  | _ :: _, [], _, _, h, _ => h.elim
  | q :: qs, q' :: qs', 0, p, h, hp => by
    simp only [List.getElem?_cons_zero, Option.some.injEq] at hp ⊢
    subst hp; exact ⟨q', rfl, h.1⟩
  | q :: qs, q' :: qs', i + 1, p, h, hp => by
    simp only [List.getElem?_cons_succ] at hp ⊢
    exact ExtPages_getElem' qs qs' i p h.2 hp

theorem qpos_lt' (S : Nat) (evs : List (List UInt8)) (F : Nat) (C : List QPage) (hC : CRel S evs F C)
    (hF : F ≤ evs.length) (k : Nat) (hk : k ≤ F) (hF0 : 0 < F) : (qpos S evs k).1 < C.length := by
  obtain ⟨h, t, e, _⟩ := chain_from S evs F C hC hF k hk hF0
  rw [e]; simp [qpos]

/-- **`initACK` on the chain on disk.**  The head page `K` (index `hp`) holds an event header, its first event
    is not behind `endID`, `endID ≤ F`.  Then the plan is not `cleanAll`, it exists, the first kept page `K'`
    (index `hp + freed`) holds an event header with `K'.first ≤ endID`, the new head position is `K'` at its
    `off`, and the new read position is the boundary in front of event `endID`. -/
theorem ack_plan_C (P S : Nat) (hS : S + 28 = P) (h4 : 4 ≤ S) (evs : List (List UInt8)) (F : Nat)
    (C : List QPage) (hC : CRel S evs F C) (hF : F ≤ evs.length) (hF0 : 0 < F)
    (hsz : ∀ e ∈ evs, e.length < 2 ^ 32) (hp : Nat) (K : QPage) (hK : C[hp]? = some K) (hoff : K.off ≠ 0)
    (endID : Nat) (h1 : K.first ≤ endID) (h2 : endID ≤ F) :
    (ackPlan (C.drop hp) endID).2 = false ∧
    ∃ st, ackInit P (C.drop hp) endID = some st ∧ hp + st.freed < C.length ∧
      ∃ K', C[hp + st.freed]? = some K' ∧ K'.off = st.headOff ∧ K'.off ≠ 0 ∧ K'.first = st.headId ∧
        st.headId ≤ endID ∧ (endID ≤ K'.last + 1) ∧ (K.first < endID → K'.first < endID) ∧
        ((C.length - st.readPages.length, st.readOff) = qpos S evs endID ∨
          (qpad S evs endID ∧ (C.length - st.readPages.length, st.readOff) = ((qW S evs endID).length + 1, 28) ∧
            (qW S evs endID).length + 1 < C.length)) := by
  have hext := qV_ext S evs F C hC hF0
  obtain ⟨KV, hKV, hKp⟩ := ExtPages_getElem _ _ hp K hext hK
  have hKVoff : KV.off ≠ 0 := by rw [← hKp.2.2.1]; exact hoff
  have hKVf : KV.first = K.first := hKp.1.symm
  rw [qV_eq] at hKV
  obtain ⟨c', cw, co, cl, cr, _, clt, cdrop⟩ :=
    entry_struct S h4 (evs.take F) QPage.fresh 0 (WInv_fresh S 0) hp KV hKV hKVoff (fun _ => rfl)
  simp only [Nat.sub_zero] at clt cdrop
  have hlenF : (evs.take F).length = F := by rw [List.length_take]; omega
  rw [hlenF] at clt
  have hrl : ((evs.take F).drop KV.first).length = F - KV.first := by rw [List.length_drop, hlenF]
  have hrne : (evs.take F).drop KV.first ≠ [] := by
    intro h0; have := congrArg List.length h0; rw [hrl] at this; simp at this; omega
  have hszr : ∀ e ∈ (evs.take F).drop KV.first, e.length < 2 ^ 32 :=
    fun e he => hsz e (List.mem_of_mem_take (List.mem_of_mem_drop he))
  obtain ⟨hnc, K', _, hK', hK'off, a1, a2, a3, a4, _, _, _, _, _⟩ :=
    ackPlan_chain P S hS h4 c' KV.first _ ⟨cw, co, cr⟩ hrne hszr endID (by omega) (by rw [hrl]; omega)
  have hstrict : KV.first < endID → K'.first < endID := by
    intro hlt0
    have hR := (layoutFrom_ids S h4 ((evs.take F).drop KV.first) c' KV.first cw).1
    have hst : startId c' KV.first = KV.first := by simp [startId, co]
    rw [hst] at hR
    exact IdRanges_first_lt _ _ _ _ endID K' hR hK' hK'off hlt0
      (fun x hx p hp hpo => ackPlan_freed_acked _ endID x hx p hp hpo)
  rw [hKVf] at hstrict
  rw [← cdrop, ← qV_eq] at hnc hK'
  rw [hrl] at a3
  -- the plan on the chain on disk is the same
  have hplan : ackPlan (C.drop hp) endID = ackPlan ((qV S evs F).drop hp) endID := by
    simp only [ackPlan]
    rw [ackWalk_extPages _ _ endID 0 (ExtPages_drop hp _ _ hext)]
  generalize hfr : (ackPlan ((qV S evs F).drop hp) endID).1 = fr at hK'
  rw [List.getElem?_drop] at hK'
  obtain ⟨K'C, hK'C, hK'p⟩ := ExtPages_getElem' _ _ _ K' hext hK'
  have hlt : hp + fr < C.length := by
    rcases Nat.lt_or_ge (hp + fr) C.length with h | h
    · exact h
    · rw [List.getElem?_eq_none h] at hK'C; cases hK'C
  have hdrop : (C.drop hp).drop fr = K'C :: C.drop (hp + fr + 1) := by
    rw [List.drop_drop]
    rw [List.drop_eq_getElem_cons hlt]
    have := List.getElem?_eq_getElem hlt
    rw [hK'C] at this
    simp only [Option.some.injEq] at this
    rw [← this]
  -- the position of the first kept page
  have hK'V := hK'
  rw [qV_eq] at hK'V
  obtain ⟨_, _, p3, p4⟩ := entry_pos S h4 (evs.take F) QPage.fresh 0 (WInv_fresh S 0) (hp + fr) K' hK'V hK'off
    (fun _ => rfl)
  simp only [Nat.sub_zero] at p3 p4
  have htt : (evs.take F).take K'.first = evs.take K'.first := by
    rw [List.take_take, Nat.min_eq_left (by omega)]
  rw [htt] at p3 p4
  have hqh : qhdr S evs K'.first = (hp + fr, K'.off) := by
    simp only [qhdr, qpad, qpos, qW, qc, gW, gc]
    by_cases hpd : S - (writeEvents S QPage.fresh 0 (evs.take K'.first)).2.payload.length < 4
    · rw [reserveHdr_pad S _ hpd] at p3 p4
      simp only [hpd, if_true]
      rw [p3, p4]; rfl
    · rw [reserveHdr_nopad S _ hpd] at p3 p4
      simp only [hpd, if_false]
      rw [p3, p4]; rfl
  have hfC : K'C.first = K'.first := hK'p.1
  have hoC : K'C.off = K'.off := hK'p.2.2.1
  have hlC : K'C.last = K'.last := hK'p.2.1
  refine ⟨by rw [hplan]; exact hnc, ?_⟩
  have hpl1 : (ackPlan (C.drop hp) endID).1 = fr := by rw [hplan]; exact hfr
  have hpl2 : (ackPlan (C.drop hp) endID).2 = false := by rw [hplan]; exact hnc
  by_cases he : endID = K'C.first
  · -- the first kept page starts with event `endID`
    refine ⟨⟨fr, K'C :: C.drop (hp + fr + 1), K'C.off, K'C.first, K'C :: C.drop (hp + fr + 1), K'C.off⟩, ?_, hlt,
      K'C, hK'C, rfl, by rw [hoC]; exact hK'off, rfl, by simp only; omega, by rw [hlC]; exact a4,
      by rw [hfC]; exact hstrict, ?_⟩
    · simp only [ackInit, hpl1, hpl2, Bool.false_eq_true, if_false, hdrop]
      rw [if_pos he]
    · have hlen : C.length - (K'C :: C.drop (hp + fr + 1)).length = hp + fr := by
        simp only [List.length_cons, List.length_drop]; omega
      simp only [hlen]
      have hee : endID = K'.first := by rw [he, hfC]
      rw [hee, hoC]
      by_cases hpd : qpad S evs K'.first
      · right
        have : qhdr S evs K'.first = ((qW S evs K'.first).length + 1, 28) := by simp [qhdr, hpd]
        rw [this] at hqh
        refine ⟨hpd, hqh.symm, ?_⟩
        have := congrArg Prod.fst hqh
        simp only at this
        omega
      · left
        have : qhdr S evs K'.first = qpos S evs K'.first := by simp [qhdr, hpd]
        rw [this] at hqh
        exact hqh.symm
  · -- skip the acknowledged events of the first kept page
    have hm : endID - K'C.first = (endID - K'.first - 1) + 1 := by rw [hfC]; rw [hfC] at he; omega
    have hnp : ∀ i, K'.first < i → i < K'.first + (endID - K'.first - 1) + 1 → ¬ qpad S evs i :=
      fun i h1 h2 => nopad_in_page P S hS h4 evs F hF hsz (hp + fr) K' hK' hK'off i h1 (by omega) (by omega)
    have hsk := skip_pos P S hS h4 evs F C hC hF hsz (endID - K'.first - 1) K'.first (by rw [hfC] at he; omega) hnp
    rw [hqh] at hsk
    have hidx : K'.first + (endID - K'.first - 1) + 1 = endID := by rw [hfC] at he; omega
    rw [hidx] at hsk
    simp only at hsk
    have hdc : C.drop (hp + fr) = K'C :: C.drop (hp + fr + 1) := by rw [← hdrop, List.drop_drop]
    rw [hdc, ← hoC] at hsk
    refine ⟨⟨fr, K'C :: C.drop (hp + fr + 1), K'C.off, K'C.first, C.drop (qpos S evs endID).1, (qpos S evs endID).2⟩,
      ?_, hlt, K'C, hK'C, rfl, by rw [hoC]; exact hK'off, rfl, by simp only; omega, by rw [hlC]; exact a4,
      by rw [hfC]; exact hstrict, ?_⟩
    · simp only [ackInit, hpl1, hpl2, Bool.false_eq_true, if_false, hdrop]
      rw [if_neg he, hm, hsk]
      rfl
    · left
      have := qpos_lt' S evs F C hC hF endID h2 hF0
      simp only [List.length_drop]
      apply Prod.ext
      · simp only; omega
      · rfl

/-- a page of the chain on disk with an event header is the page of the header of its first event -/
theorem page_is_qhdr (S : Nat) (h4 : 4 ≤ S) (evs : List (List UInt8)) (F : Nat) (C : List QPage)
    (hC : CRel S evs F C) (hF : F ≤ evs.length) (hF0 : 0 < F) (x : Nat) (K : QPage) (hK : C[x]? = some K)
    (hoff : K.off ≠ 0) : qhdr S evs K.first = (x, K.off) ∧ K.first < F := by
  have hext := qV_ext S evs F C hC hF0
  obtain ⟨KV, hKV, hKp⟩ := ExtPages_getElem _ _ x K hext hK
  have hKVoff : KV.off ≠ 0 := by rw [← hKp.2.2.1]; exact hoff
  rw [qV_eq] at hKV
  obtain ⟨_, p2, p3, p4⟩ := entry_pos S h4 (evs.take F) QPage.fresh 0 (WInv_fresh S 0) x KV hKV hKVoff (fun _ => rfl)
  simp only [Nat.sub_zero] at p2 p3 p4
  have hlenF : (evs.take F).length = F := by rw [List.length_take]; omega
  rw [hlenF] at p2
  have htt : (evs.take F).take KV.first = evs.take KV.first := by
    rw [List.take_take, Nat.min_eq_left (by omega)]
  rw [htt] at p3 p4
  rw [← hKp.1] at p2 p3 p4
  rw [← hKp.2.2.1] at p4
  refine ⟨?_, p2⟩
  simp only [qhdr, qpad, qpos, qW, qc, gW, gc]
  by_cases hpd : S - (writeEvents S QPage.fresh 0 (evs.take K.first)).2.payload.length < 4
  · rw [reserveHdr_pad S _ hpd] at p3 p4
    simp only [hpd, if_true]
    rw [p3, p4]; rfl
  · rw [reserveHdr_nopad S _ hpd] at p3 p4
    simp only [hpd, if_false]
    rw [p3, p4]; rfl

/-- header pages are ordered like the events: the header of event `f` is not behind the end of event `k - 1`
    for `f < k`, and not behind the header of event `k` for `f ≤ k` -/
theorem qhdr_le_qpos (S : Nat) (evs : List (List UInt8)) (f k : Nat) (hfk : f < k) (hk : k ≤ evs.length) :
    (qhdr S evs f).1 ≤ (qpos S evs k).1 := by
  have h1 : (qhdr S evs f).1 ≤ (qpos S evs (f + 1)).1 := by
    obtain ⟨s1, _⟩ := qW_succ S evs f (by omega)
    simp only [qhdr, qpos, qpad]
    rw [s1]
    by_cases hp : S - (qc S evs f).payload.length < 4
    · simp only [hp, if_true, List.length_append]
      rw [writeEvent_pad S _ f _ hp]
      simp
    · simp only [hp, if_false, List.length_append]; omega
  have h2 := qW_length_mono S evs (k - (f + 1)) (f + 1) (by omega)
  have e : f + 1 + (k - (f + 1)) = k := by omega
  rw [e] at h2
  simp only [qpos] at h1 ⊢
  omega

theorem qpos_le_qhdr (S : Nat) (evs : List (List UInt8)) (k : Nat) : (qpos S evs k).1 ≤ (qhdr S evs k).1 := by
  simp only [qhdr]; split <;> simp [qpos]

end TxVerif
