/-
  The bridge from the engine operations to the ledger invariant of the allocator (Proofs/EngAccount.lean) for files
  WITH OR WITHOUT a page limit: the same definitions and proofs, re-run in namespace `TxVerif.AU` against
  `AU.TInv` / `AU.Quiet` (Proofs/AccountU.lean), which do not demand `0 < maxPages`.
  Lemmas of Proofs/EngAccount.lean that do not mention the ledger (`txWrite_ta`, `commitAfterFlush_ok_shape`,
  `cWalRes_regs`, `MtaUpd` …) are used as they are.
-/
import TxVerif.Proofs.AccountU
import TxVerif.Proofs.EngAccount
namespace TxVerif.AU

/-! ### lists as sets -/

/-- `Quiet` only depends on the ledger as a pair of sets -/
theorem quiet_congr_sets {a : Alloc} {L M L' M' : List Nat} (h : Quiet a L M) (hL : L'.Nodup) (hM : M'.Nodup)
    (eL : ∀ x, x ∈ L' ↔ x ∈ L) (eM : ∀ x, x ∈ M' ↔ x ∈ M) : Quiet a L' M' := by
  have lL := eacc_length_eq L' L hL h.ndL eL
  have lM := eacc_length_eq M' M hM h.ndM eM
  refine ⟨by rw [lL]; exact h.acc, by rw [lM]; exact h.mtot, h.ascD, h.ascM, hL, hM, h.rD, ?_, h.rMf, ?_, ?_, ?_, ?_,
    h.lim, ?_⟩
  · intro x hx; exact h.rL x ((eL x).mp hx)
  · intro x hx; exact h.rM x ((eM x).mp hx)
  · intro x hx
    have := h.dD x hx
    exact ⟨fun hc => this.1 ((eL x).mp hc), this.2.1, fun hc => this.2.2 ((eM x).mp hc)⟩
  · intro x hx
    have := h.dL x ((eL x).mp hx)
    exact ⟨this.1, fun hc => this.2 ((eM x).mp hc)⟩
  · intro x hx hc; exact h.dM x hx ((eM x).mp hc)
  · rcases h.J with hj | ⟨hj1, hj2⟩
    · exact Or.inl hj
    · right
      refine ⟨hj1, List.eq_nil_iff_forall_not_mem.mpr ?_⟩
      intro x hx
      have := (eL x).mp hx
      rw [hj2] at this; cases this

/-! ### the ledger invariant inside an engine transaction -/

/-- the allocator ledger inside a write transaction of the engine that began in the committed state `f0`:
    `L` are the pages the client owns now plus the committed pages freed by the transaction (they stay
    in the ledger until the commit), `M` the internal pages of `f0` plus the meta pages taken by the
    transaction -/
structure EAcc (f0 f : FileSt) (tx : TxSt) (cur L M : List Nat) : Prop where
  t : TInv f.alloc tx.ta L M
  curL : ∀ x ∈ cur, x ∈ L
  LCur : ∀ x ∈ L, x ∈ cur ∨ x ∈ tx.ta.data.freed
  ndCur : cur.Nodup
  intM : ∀ x ∈ f0.internal, x ∈ M
  MInt : ∀ x ∈ M, x ∈ f0.internal ∨ x ∈ tx.ta.mta.allocated

theorem eacc_congr {f0 f f' : FileSt} {tx tx' : TxSt} {cur L M : List Nat} (h : EAcc f0 f tx cur L M)
    (e1 : f'.alloc = f.alloc) (e2 : tx'.ta = tx.ta) : EAcc f0 f' tx' cur L M := by
  refine ⟨by rw [e1, e2]; exact h.t, h.curL, ?_, h.ndCur, h.intM, ?_⟩
  · rw [e2]; exact h.LCur
  · rw [e2]; exact h.MInt

/-- the begin of a transaction on a committed state whose allocator is `Quiet` for the client's pages and
    the internal pages -/
theorem eacc_begin (f : FileSt) (live : List Nat) (hq : Quiet f.alloc live f.internal) (g wl : Nat) :
    EAcc f f (f.beginTx false g wl) live live f.internal ∧ EExact f (f.beginTx false g wl) := by
  refine ⟨⟨hq.begin g, fun _ hx => hx, fun _ hx => Or.inl hx, hq.ndL, fun _ hx => hx, fun _ hx => Or.inl hx⟩, ?_, ?_⟩
  · intro k hk; simp [FileSt.beginTx] at hk
  · intro w hw; simp [FileSt.beginTx, Alloc.beginTx] at hw

/-! ### how an engine operation touches the allocator state -/

theorem eacc_eff {f0 f f' : FileSt} {tx tx' : TxSt} {cur L M : List Nat} (e : MetaEff f0 f tx f' tx')
    (h : EAcc f0 f tx cur L M) : ∃ M', EAcc f0 f' tx' cur L M' := by
  cases e with
  | same e1 e2 e3 e4 => exact ⟨M, eacc_congr h e1 e2⟩
  | take k w hk hw e3 e4 =>
    obtain ⟨s1, s2, s3, s4⟩ := walAlloc_st _ _ _ _ _ hw
    refine ⟨w :: M, tinv_walAlloc _ _ L M _ _ w h.t hw, h.curL, ?_, h.ndCur, ?_, ?_⟩
    · rw [s3]; exact h.LCur
    · intro x hx; exact List.mem_cons_of_mem _ (h.intM x hx)
    · intro x hx
      rw [s1, mem_insertId]
      rcases List.mem_cons.mp hx with hx | hx
      · exact Or.inr (Or.inl hx)
      · rcases h.MInt x hx with h1 | h1
        · exact Or.inl h1
        · exact Or.inr (Or.inr h1)
  | release k w hm hk e1 e2 e3 e4 =>
    refine ⟨M, ?_, h.curL, ?_, h.ndCur, h.intM, ?_⟩
    · rw [e1, e2]
      exact tinv_metaFreeId _ _ L M w h.t (h.intM w (eacc_val_internal f0 k w hm))
    · rw [e2]; exact h.LCur
    · rw [e2]; exact h.MInt

/-! ### `Tx.Alloc` -/

theorem eacc_alloc {f0 f : FileSt} {tx : TxSt} {cur L M : List Nat} (h : EAcc f0 f tx cur L M) (n : Nat)
    (f' : FileSt) (tx' : TxSt) (ids : List Nat) (hw : txAlloc f tx n = .ok (f', tx', ids)) :
    EAcc f0 f' tx' (cur ++ ids) (ids ++ L) M ∧ ids.length = n ∧
    tx'.ta.mta = tx.ta.mta ∧ tx'.walFree = tx.walFree ∧ tx'.walNew = tx.walNew := by
  unfold txAlloc at hw
  cases hr : dataAllocRegions f.alloc tx.ta n with
  | none => simp [hr] at hw
  | some r =>
    obtain ⟨a, ta, ids'⟩ := r
    simp only [hr, Except.ok.injEq, Prod.mk.injEq] at hw
    obtain ⟨rfl, rfl, rfl⟩ := hw
    obtain ⟨t1, t2, t3⟩ := tinv_regions f.alloc tx.ta L M n a ta ids' h.t hr
    obtain ⟨s1, s2, s3, s4⟩ := stSame_regions _ _ _ _ _ _ hr
    have hnd := t1.ndL
    rw [List.nodup_append] at hnd
    have hmta : ta.mta = tx.ta.mta := by
      obtain ⟨_, _, _, _, _, _, _, _, _, _, _, _, _, _, _, _, hst⟩ := dataAllocRegions_spec _ _ _ _ _ _ hr
      rw [hst]
    refine ⟨⟨t1, ?_, ?_, ?_, h.intM, ?_⟩, t3, hmta, rfl, rfl⟩
    · intro x hx
      rcases List.mem_append.mp hx with hx | hx
      · exact List.mem_append_right _ (h.curL x hx)
      · exact List.mem_append_left _ hx
    · intro x hx
      show x ∈ cur ++ ids' ∨ x ∈ ta.data.freed
      rw [s3]
      rcases List.mem_append.mp hx with hx | hx
      · exact Or.inl (List.mem_append_right _ hx)
      · rcases h.LCur x hx with h1 | h1
        · exact Or.inl (List.mem_append_left _ h1)
        · exact Or.inr h1
    · rw [List.nodup_append]
      refine ⟨h.ndCur, hnd.1, ?_⟩
      intro x hx y hy e
      exact hnd.2.2 y hy x (h.curL x hx) e.symm
    · intro x hx
      show x ∈ f0.internal ∨ x ∈ ta.mta.allocated
      rw [s1]; exact h.MInt x hx

/-! ### `Page.Free` -/

theorem eacc_dataFree {f0 f f' : FileSt} {tx tx' : TxSt} {cur L M : List Nat} (h : EAcc f0 f tx cur L M)
    (id : Nat) (hid : id ∈ cur) (e1 : f'.alloc = (dataFree f.alloc tx.ta id).1)
    (e2 : tx'.ta = (dataFree f.alloc tx.ta id).2) :
    EAcc f0 f' tx' (cur.filter (fun x => x != id)) (if tx.ta.data.new_.contains id then L.erase id else L) M := by
  have ht := tinv_dataFree f.alloc tx.ta L M id h.t (h.curL id hid)
  obtain ⟨s1, s2, s3⟩ := dataFree_st f.alloc tx.ta id
  refine ⟨by rw [e1, e2]; exact ht, ?_, ?_, h.ndCur.sublist List.filter_sublist, h.intM, ?_⟩
  · intro x hx
    obtain ⟨hx1, hx2⟩ := (mem_filter_ne _ _ _).mp hx
    split
    · exact (List.mem_erase_of_ne hx2).mpr (h.curL x hx1)
    · exact h.curL x hx1
  · intro x hx
    rw [e2]
    by_cases hn : id ∈ tx.ta.data.new_
    · have hc : tx.ta.data.new_.contains id = true := by simp [hn]
      rw [hc, if_pos rfl] at hx
      rw [s2 hn]
      have hx' := (List.Nodup.mem_erase_iff h.t.ndL).mp hx
      rcases h.LCur x hx'.2 with h1 | h1
      · exact Or.inl ((mem_filter_ne _ _ _).mpr ⟨h1, hx'.1⟩)
      · exact Or.inr h1
    · have hc : tx.ta.data.new_.contains id = false := by simp [hn]
      rw [hc] at hx
      simp only [Bool.false_eq_true, if_false] at hx
      rw [(s3 hn).2, mem_insertId]
      by_cases hxi : x = id
      · exact Or.inr (Or.inl hxi)
      · rcases h.LCur x hx with h1 | h1
        · exact Or.inl ((mem_filter_ne _ _ _).mpr ⟨h1, hxi⟩)
        · exact Or.inr (Or.inr h1)
  · rw [e2, s1]; exact h.MInt

theorem eacc_free {f0 : FileSt} {live : List Nat} {f : FileSt} {tx : TxSt} {cur L M : List Nat}
    (hi : TxInv f0 live f tx cur) (h : EAcc f0 f tx cur L M) (hx : EExact f0 tx)
    (id : Nat) (hid : id ∈ cur) (f' : FileSt) (tx' : TxSt) (hw : txFree f tx id = .ok (f', tx')) :
    (∃ L' M', EAcc f0 f' tx' (cur.filter (fun x => x != id)) L' M') ∧ EExact f0 tx' := by
  unfold txFree at hw
  cases hg : getPage f tx id with
  | error e => simp [hg, bind, Except.bind] at hw
  | ok r =>
    obtain ⟨tx1, p⟩ := r
    obtain ⟨h1, hget, hfr, -⟩ := txinv_getPage hi id hid tx1 p hg
    have hta : tx1.ta = tx.ta ∧ tx1.walFree = tx.walFree ∧ tx1.walNew = tx.walNew := by
      rcases getPage_cases f tx tx1 id p hg with ⟨-, -, rfl⟩ | ⟨-, -, rfl⟩ <;> exact ⟨rfl, rfl, rfl⟩
    have hp := h1.pg id p hget
    cases hcw : pageCanWrite p with
    | error e => simp [hg, bind, Except.bind, hcw] at hw
    | ok u =>
      obtain ⟨-, hfl⟩ := pageCanWrite_ok p hcw
      cases hd : p.dirty with
      | true => simp [hg, bind, Except.bind, hcw, hd] at hw
      | false =>
        obtain ⟨pid, pond, pb, pn, pfr, pfl, pc, pdirty⟩ := p
        simp only at hd hfl hfr
        subst hd hfl hfr
        simp only [hg, bind, Except.bind, hcw, Bool.false_eq_true, if_false, pure, Except.pure,
          Except.ok.injEq, Prod.mk.injEq] at hw
        obtain ⟨rfl, rfl⟩ := hw
        have hpid : pid = id := hp.id
        subst hpid
        have hwnone : Assoc.get? tx1.walNew pid = none := by
          cases hwn : Assoc.get? tx1.walNew pid with
          | none => rfl
          | some w =>
            obtain ⟨-, -, -, -, q, hq, hqf⟩ := h1.wn pid w hwn
            rw [hget] at hq; cases hq; cases hqf
        -- the data part
        have hA : EAcc f0 { f with alloc := (dataFree f.alloc tx1.ta pid).1 }
            { tx1 with ta := (dataFree f.alloc tx1.ta pid).2 } (cur.filter (fun x => x != pid))
            (if tx.ta.data.new_.contains pid then L.erase pid else L) M :=
          eacc_dataFree h pid hid (by rw [hta.1]) (by rw [hta.1])
        have hX : EExact f0 { tx1 with ta := (dataFree f.alloc tx1.ta pid).2 } :=
          eexact_congr hx (by show (dataFree f.alloc tx1.ta pid).2.mta = _; rw [(dataFree_st _ _ _).1, hta.1])
            hta.2.1 hta.2.2
        -- the release of the overwrite page
        have hE : MetaEff f0 { f with alloc := (dataFree f.alloc tx1.ta pid).1 }
            { tx1 with ta := (dataFree f.alloc tx1.ta pid).2 } { f with alloc := (dataFree f.alloc tx1.ta pid).1 }
            ((if pid ≠ pond then freeWalId { tx1 with ta := (dataFree f.alloc tx1.ta pid).2 } pid pond
              else { tx1 with ta := (dataFree f.alloc tx1.ta pid).2 }).setPage
              { id := pid, ondisk := pond, bytes := pb, new_ := pn, freed := true, flushed := false, cached := pc }) := by
          by_cases hc : pid ≠ pond
          · rw [if_pos hc]
            have hm : Assoc.get? f0.walMap pid = some pond := by
              cases hn : pn with
              | true => exact absurd ((hp.newOk rfl hn).1).symm hc
              | false =>
                have := (hp.unfl rfl hn rfl).1
                simp only at this
                rw [this]
                exact eacc_phys_map f0 pid (by rw [← this]; exact fun e => hc e.symm)
            exact MetaEff.release pid pond hm hwnone rfl rfl rfl rfl
          · rw [if_neg hc]
            exact MetaEff.same rfl rfl rfl rfl
        obtain ⟨M', hA'⟩ := eacc_eff hE hA
        exact ⟨⟨_, M', hA'⟩, eexact_eff hE hX⟩

/-! ### flush -/

theorem eacc_flushList {f0 : FileSt} {live : List Nat} {cur L : List Nat} (he : EngInv f0 live) (ids : List Nat) :
    ∀ (f : FileSt) (tx : TxSt) (M : List Nat), TxInv f0 live f tx cur → EAcc f0 f tx cur L M → EExact f0 tx →
      ∀ (f' : FileSt) (tx' : TxSt) (ws : List (Nat × Nat)), flushList f tx ids = .ok (f', tx', ws) →
      (∃ M', EAcc f0 f' tx' cur L M') ∧ EExact f0 tx' := by
  induction ids with
  | nil =>
    intro f tx M _ h hx f' tx' ws hw
    simp only [flushList, Except.ok.injEq, Prod.mk.injEq] at hw
    obtain ⟨rfl, rfl, -⟩ := hw
    exact ⟨⟨M, h⟩, hx⟩
  | cons id ids ih =>
    intro f tx M hi h hx f' tx' ws hw
    unfold flushList at hw
    cases hg : Assoc.get? tx.pages id with
    | none => simp [hg] at hw
    | some p =>
      simp only [hg] at hw
      cases hf : doFlush f tx p with
      | error e => simp [hf] at hw
      | ok r =>
        obtain ⟨f1, tx1, w⟩ := r
        simp only [hf] at hw
        cases hr : flushList f1 tx1 ids with
        | error e => simp [hr] at hw
        | ok r2 =>
          obtain ⟨f2, tx2, ws2⟩ := r2
          simp only [hr, Except.ok.injEq, Prod.mk.injEq] at hw
          obtain ⟨rfl, rfl, -⟩ := hw
          have hE := doFlush_eff hi id p hg f1 tx1 w hf
          obtain ⟨hi1, -⟩ := txinv_doFlush he hi id p hg f1 tx1 w hf
          obtain ⟨M1, h1⟩ := eacc_eff hE h
          exact ih f1 tx1 M1 hi1 h1 (eexact_eff hE hx) f2 tx2 ws2 hr

theorem eacc_flushPageOp {f0 : FileSt} {live : List Nat} {f : FileSt} {tx : TxSt} {cur L M : List Nat}
    (hi : TxInv f0 live f tx cur) (h : EAcc f0 f tx cur L M) (hx : EExact f0 tx) (id : Nat) (hid : id ∈ cur)
    (f' : FileSt) (tx' : TxSt) (w : Option Nat) (hw : flushPageOp f tx id = .ok (f', tx', w)) :
    (∃ M', EAcc f0 f' tx' cur L M') ∧ EExact f0 tx' := by
  unfold flushPageOp at hw
  cases hg : getPage f tx id with
  | error e => simp [hg, bind, Except.bind] at hw
  | ok r =>
    obtain ⟨tx1, p⟩ := r
    simp only [hg, bind, Except.bind] at hw
    obtain ⟨h1, hget, -, -⟩ := txinv_getPage hi id hid tx1 p hg
    have hta : tx1.ta = tx.ta ∧ tx1.walFree = tx.walFree ∧ tx1.walNew = tx.walNew := by
      rcases getPage_cases f tx tx1 id p hg with ⟨-, -, rfl⟩ | ⟨-, -, rfl⟩ <;> exact ⟨rfl, rfl, rfl⟩
    cases hcw : pageCanWrite p with
    | error e => simp [hcw] at hw
    | ok u =>
      simp only [hcw] at hw
      have hE := doFlush_eff h1 id p hget f' tx' w hw
      obtain ⟨M', h'⟩ := eacc_eff hE (eacc_congr (f' := f) (tx' := tx1) h rfl hta.1)
      exact ⟨⟨M', h'⟩, eexact_eff hE (eexact_congr hx (by rw [hta.1]) hta.2.1 hta.2.2)⟩

/-! ### checkpoint -/

theorem eacc_ckptFold {f0 : FileSt} {cur L : List Nat} (l : Assoc Nat) : ∀ (s : FileSt × TxSt) (M : List Nat),
    (∀ e ∈ l, Assoc.get? f0.walMap e.1 = some e.2) → (∀ e ∈ l, Assoc.get? s.2.walNew e.1 = none) →
    EAcc f0 s.1 s.2 cur L M → EExact f0 s.2 →
    (∃ M', EAcc f0 (l.foldl ckptOne s).1 (l.foldl ckptOne s).2 cur L M') ∧ EExact f0 (l.foldl ckptOne s).2 := by
  induction l with
  | nil => intro s M _ _ h hx; exact ⟨⟨M, h⟩, hx⟩
  | cons e l ih =>
    intro s M hm hn h hx
    rw [List.foldl_cons]
    have hE : MetaEff f0 s.1 s.2 (ckptOne s e).1 (ckptOne s e).2 :=
      MetaEff.release e.1 e.2 (hm e List.mem_cons_self) (hn e List.mem_cons_self) rfl rfl rfl rfl
    obtain ⟨M1, h1⟩ := eacc_eff hE h
    refine ih (ckptOne s e) M1 (fun e' he' => hm e' (List.mem_cons_of_mem _ he')) ?_ h1 (eexact_eff hE hx)
    intro e' he'
    show Assoc.get? (Assoc.erase s.2.walNew e.1) e'.1 = none
    rw [Assoc.get?_erase]
    split
    · rfl
    · exact hn e' (List.mem_cons_of_mem _ he')

theorem eacc_doCheckpoint {f0 : FileSt} {live : List Nat} {f : FileSt} {tx : TxSt} {cur L M : List Nat}
    (he : EngInv f0 live) (hi : TxInv f0 live f tx cur) (h : EAcc f0 f tx cur L M) (hx : EExact f0 tx) :
    (∃ M', EAcc f0 (doCheckpoint f tx).1 (doCheckpoint f tx).2.1 cur L M') ∧ EExact f0 (doCheckpoint f tx).2.1 := by
  unfold doCheckpoint
  split
  · exact ⟨⟨M, h⟩, hx⟩
  · split
    · exact ⟨⟨M, h⟩, hx⟩
    · have hm : ∀ e ∈ ckptTodo f tx, Assoc.get? f0.walMap e.1 = some e.2 := by
        intro e he'
        have : e ∈ f.walMap := (List.mem_filter.mp he').1
        rw [hi.sameMap] at this
        exact Assoc.get?_of_mem f0.walMap he.keys e.1 e.2 this
      have hn : ∀ e ∈ ckptTodo f tx, Assoc.get? tx.walNew e.1 = none := by
        intro e he'
        cases hw : Assoc.get? tx.walNew e.1 with
        | none => rfl
        | some w =>
          have := (hi.wn e.1 w hw).2.2.2.1
          rw [hm e he'] at this; cases this
      obtain ⟨⟨M', h'⟩, hx'⟩ := eacc_ckptFold (ckptTodo f tx) (f, tx) M hm hn h hx
      exact ⟨⟨M', eacc_congr h' rfl rfl⟩, eexact_congr hx' rfl rfl rfl⟩

/-! ### operation lists -/

/-- the ledger invariant is kept by every operation of a write transaction -/
theorem eacc_step {f0 : FileSt} {live : List Nat} (he : EngInv f0 live) (s : ERunSt) (op : EOp)
    (hr : RunInv f0 live s) (h : ∃ L M, EAcc f0 s.f s.tx s.cur L M) (hx : EExact f0 s.tx) :
    (∃ L M, EAcc f0 (op.step s).f (op.step s).tx (op.step s).cur L M) ∧ EExact f0 (op.step s).tx := by
  obtain ⟨L, M, h⟩ := h
  cases op with
  | alloc n =>
    simp only [EOp.step]
    split
    · rename_i f tx ids hw
      obtain ⟨h1, -, e2, e3, e4⟩ := eacc_alloc h n f tx ids hw
      exact ⟨⟨_, _, h1⟩, eexact_congr hx e2 e3 e4⟩
    · exact ⟨⟨L, M, h⟩, hx⟩
  | write id mode st =>
    simp only [EOp.step]
    split
    · split
      · rename_i tx hw
        obtain ⟨e2, e3, e4⟩ := txWrite_ta _ _ _ _ _ _ hw
        exact ⟨⟨L, M, eacc_congr h rfl e2⟩, eexact_congr hx (by rw [e2]) e3 e4⟩
      · exact ⟨⟨L, M, h⟩, hx⟩
    · exact ⟨⟨L, M, h⟩, hx⟩
  | load id =>
    simp only [EOp.step]
    split
    · split
      · rename_i tx hw
        obtain ⟨e2, e3, e4⟩ := txLoad_ta _ _ _ _ hw
        exact ⟨⟨L, M, eacc_congr h rfl e2⟩, eexact_congr hx (by rw [e2]) e3 e4⟩
      · exact ⟨⟨L, M, h⟩, hx⟩
    · exact ⟨⟨L, M, h⟩, hx⟩
  | read id =>
    simp only [EOp.step]
    split
    · split
      · rename_i tx c hw
        obtain ⟨e2, e3, e4⟩ := txRead_ta _ _ _ _ _ hw
        exact ⟨⟨L, M, eacc_congr h rfl e2⟩, eexact_congr hx (by rw [e2]) e3 e4⟩
      · exact ⟨⟨L, M, h⟩, hx⟩
    · exact ⟨⟨L, M, h⟩, hx⟩
  | free id =>
    simp only [EOp.step]
    split
    · rename_i hid
      split
      · rename_i f tx hw
        exact eacc_free hr.tx h hx id hid f tx hw
      · exact ⟨⟨L, M, h⟩, hx⟩
    · exact ⟨⟨L, M, h⟩, hx⟩
  | flushPage id =>
    simp only [EOp.step]
    split
    · rename_i hid
      split
      · rename_i f tx w hw
        obtain ⟨⟨M', h'⟩, hx'⟩ := eacc_flushPageOp hr.tx h hx id hid f tx w hw
        exact ⟨⟨L, M', h'⟩, hx'⟩
      · exact ⟨⟨L, M, h⟩, hx⟩
    · exact ⟨⟨L, M, h⟩, hx⟩
  | flushAll order =>
    simp only [EOp.step]
    split
    · rename_i f tx ws hw
      obtain ⟨⟨M', h'⟩, hx'⟩ := eacc_flushList he order s.f s.tx M hr.tx h hx f tx ws hw
      exact ⟨⟨L, M', h'⟩, hx'⟩
    · exact ⟨⟨L, M, h⟩, hx⟩
  | checkpoint =>
    simp only [EOp.step]
    obtain ⟨⟨M', h'⟩, hx'⟩ := eacc_doCheckpoint he hr.tx h hx
    exact ⟨⟨L, M', h'⟩, hx'⟩

theorem eacc_ops {f0 : FileSt} {live : List Nat} (he : EngInv f0 live) (ops : List EOp) (s : ERunSt)
    (hr : RunInv f0 live s) (h : ∃ L M, EAcc f0 s.f s.tx s.cur L M) (hx : EExact f0 s.tx) :
    (∃ L M, EAcc f0 (runEOps s ops).f (runEOps s ops).tx (runEOps s ops).cur L M) ∧
    EExact f0 (runEOps s ops).tx := by
  induction ops generalizing s with
  | nil => exact ⟨h, hx⟩
  | cons op ops ih =>
    obtain ⟨h1, hx1⟩ := eacc_step he s op hr h hx
    exact ih _ (runinv_step he s op hr) h1 hx1

/-! ### the allocator steps of the commit -/

theorem tinv_metaFreeIds (a : Alloc) (L M ids : List Nat) : ∀ (st : TxAlloc), TInv a st L M → (∀ x ∈ ids, x ∈ M) →
    TInv a (metaFreeIds st ids) L M := by
  induction ids with
  | nil => intro st h _; exact h
  | cons y ys ih =>
    intro st h hm
    have e : metaFreeIds st (y :: ys) = metaFreeIds (metaFreeId st y) ys := rfl
    rw [e]
    exact ih _ (tinv_metaFreeId a st L M y h (hm y List.mem_cons_self)) (fun x hx => hm x (List.mem_cons_of_mem _ hx))

/-- the allocator part of the commit on a ledger: the new quiescent state and what the engine needs to
    know about the committed allocator -/
theorem eacc_fileCommit (a : Alloc) (st : TxAlloc) (L M : List Nat) (upd : Bool) (a1 : Alloc) (st1 : TxAlloc)
    (cs : AllocCommit) (h : TInv a st L M) (hupd : st.updated = true → upd = true)
    (hc : fileCommitAlloc a st upd = some (a1, st1, cs)) :
    Quiet (a1.commit cs) (removeIds L st.data.freed) (removeIds (cs.allocRegions ++ M) st1.mta.freed) ∧
    st1.mta.freed = st.mta.freed ∧
    ((upd = false ∧ cs.allocRegions = [] ∧ a1.commit cs = a ∧ st.mta.freed = []) ∨
     (upd = true ∧ (a1.commit cs).freelistPages = cs.allocRegions ∧
       ∀ x ∈ st1.mta.freed, x ∈ (a1.commit cs).mta.free)) := by
  refine ⟨(tinv_commit_count a st L M upd a1 st1 cs h hupd hc).2.2, ?_⟩
  cases hu : upd with
  | false =>
    rw [hu] at hc
    have hst : st.updated = false := by
      cases hs : st.updated with
      | false => rfl
      | true => rw [hu] at hupd; exact absurd (hupd hs) (by simp)
    obtain ⟨-, hf2⟩ := updated_false st hst
    simp only [fileCommitAlloc, Bool.not_false, if_true, Option.some.injEq, Prod.mk.injEq] at hc
    obtain ⟨ha, hs, hcs⟩ := hc
    subst ha hs hcs
    exact ⟨rfl, Or.inl ⟨rfl, rfl, rfl, hf2⟩⟩
  | true =>
    rw [hu] at hc
    obtain ⟨hcs, hstep⟩ := fileCommitAlloc_some a st a1 st1 cs hc
    have h1 : TInv a1 st1 L (cs.allocRegions ++ M) ∧ st1.mta.freed = st.mta.freed := by
      rcases hstep with ⟨ha, hs, hr⟩ | ⟨n, -, hr⟩
      · subst ha hs; rw [hr]; exact ⟨h, rfl⟩
      · exact ⟨tinv_metaAllocRegions a st L M n a1 st1 _ h hr, (metaAllocRegions_st a st n a1 st1 _ hr).2.1⟩
    refine ⟨h1.2, Or.inr ⟨rfl, ?_⟩⟩
    have hcs' := hcs.trans (commitState_lim a1 st1 cs.allocRegions (h1.1.lim.imp id (fun hl => ⟨hl.1, hl.2.1⟩)))
    have hA := congrArg a1.commit hcs'
    rw [hA]
    simp only [Alloc.commit, Bool.not_true, Bool.false_eq_true, if_false]
    refine ⟨trivial, ?_⟩
    intro x hx
    exact (mem_unionIds _ _ _).mpr (Or.inl hx)

/-! ### the phases of the engine's commit -/

theorem eacc_cPhase1 {f0 : FileSt} {live : List Nat} {f : FileSt} {tx : TxSt} {cur L M : List Nat}
    (he : EngInv f0 live) (hi : TxInv f0 live f tx cur) (h : EAcc f0 f tx cur L M) (hx : EExact f0 tx) :
    (∃ M', EAcc f0 (cPhase1 f tx).1 (cPhase1 f tx).2.1 cur L M') ∧ EExact f0 (cPhase1 f tx).2.1 := by
  unfold cPhase1
  split
  · exact eacc_doCheckpoint he hi h hx
  · exact ⟨⟨M, h⟩, hx⟩

/-- **the commit of the engine re-establishes the quiescent ledger invariant**, for the pages the client
    owns now and exactly the internal pages of the new committed state -/
theorem eacc_commit {f0 : FileSt} {live : List Nat} {f : FileSt} {tx : TxSt} {cur L M : List Nat}
    (he : EngInv f0 live) (hi : TxInv f0 live f tx cur) (hfl : AllFlushed tx)
    (h : EAcc f0 f tx cur L M) (hx : EExact f0 tx) (hok : (commitAfterFlush f tx).2.1 = .ok) :
    Quiet (commitAfterFlush f tx).1.alloc cur (commitAfterFlush f tx).1.internal := by
  have hov : tx.ta.overflow = false := h.t.noOv
  have hE := commit_engInv he hi hfl hov hok
  obtain ⟨h1, -, hmap, hkeys⟩ := commit_phase1 he hi hfl
  obtain ⟨⟨M1, a1⟩, x1⟩ := eacc_cPhase1 he hi h hx
  obtain ⟨a, ta, regs, a2, ta2, cs, hr, hc, eA, eW, eP⟩ := commitAfterFlush_ok_shape f tx hok
  generalize (commitAfterFlush f tx).1 = F at hE eA eW eP ⊢
  obtain ⟨-, c2, c3, -⟩ := cTx3_facts f tx
  have hwp : (cPhase1 f tx).1.walPages = f0.walPages := h1.sameWP
  have hfp : (cPhase1 f tx).1.alloc.freelistPages = f0.alloc.freelistPages := h1.inv.cfgFl
  have iWP : ∀ x ∈ f0.walPages, x ∈ M1 :=
    fun x hx' => a1.intM x ((mem_internal f0 x).mpr (Or.inr (Or.inl hx')))
  have iFL : ∀ x ∈ f0.alloc.freelistPages, x ∈ M1 :=
    fun x hx' => a1.intM x ((mem_internal f0 x).mpr (Or.inr (Or.inr hx')))
  -- the old mapping pages and free-list pages are released
  have T3 : TInv (cPhase1 f tx).1.alloc (cTx3 f tx).ta L M1 := by
    rw [(cTx3_spec f tx).1]
    apply tinv_metaFreeIds
    · apply tinv_metaFreeIds
      · exact a1.t
      · intro x hx'
        split at hx'
        · exact iWP x (hwp ▸ hx')
        · cases hx'
    · intro x hx'
      split at hx'
      · exact iFL x (hfp ▸ hx')
      · cases hx'
  -- the pages for the new mapping are allocated
  have T4 : TInv a ta L (regs ++ M1) ∧ ta.mta.freed = (cTx3 f tx).ta.mta.freed ∧
      ta.data.freed = (cTx3 f tx).ta.data.freed := by
    rcases cWalRes_cases f tx a ta regs hr with ⟨n, hn⟩ | ⟨rfl, rfl, rfl⟩
    · obtain ⟨-, s2, s3, -⟩ := metaAllocRegions_st _ _ _ _ _ _ hn
      exact ⟨tinv_metaAllocRegions _ _ L M1 n a ta regs T3 hn, s2, s3⟩
    · exact ⟨T3, rfl, rfl⟩
  have hupd : ta.updated = true → (cAllocUpd f tx || !regs.isEmpty) = true := by
    intro hu
    cases hau : cAllocUpd f tx with
    | true => rfl
    | false =>
      rcases cWalRes_cases f tx a ta regs hr with ⟨n, hn⟩ | ⟨-, rfl, -⟩
      · have := metaAllocRegions_nonempty _ _ _ _ _ _ hn
        cases regs with
        | nil => exact absurd rfl this
        | cons _ _ => rfl
      · rw [cAllocUpd_false_updated f tx hau] at hu; cases hu
  obtain ⟨C1, C2, C3⟩ := eacc_fileCommit a ta L (regs ++ M1) _ a2 ta2 cs T4.1 hupd hc
  have hfreed : ∀ x, x ∈ ta2.mta.freed ↔ x ∈ cRel f tx ∨ x ∈ (cPhase1 f tx).2.1.ta.mta.freed := by
    intro x; rw [C2, T4.2.1, c3 x]
  have hregs : regs ≠ [] → cWalUpd f tx = true := cWalRes_regs f tx a ta regs hr
  have hinvA : Inv f0.alloc a ta := inv_cWalRes he h1 a ta regs hr
  rw [eA]
  refine quiet_congr_sets C1 a1.ndCur hE.intNodup ?_ ?_
  · -- the client's pages
    intro x
    rw [mem_removeIds, T4.2.2, c2]
    constructor
    · intro hx'
      exact ⟨a1.curL x hx', fun hf => (h1.dfreed x hf).1 hx'⟩
    · rintro ⟨hx1, hx2⟩
      rcases a1.LCur x hx1 with h2 | h2
      · exact h2
      · exact absurd h2 hx2
  · -- the internal pages
    intro x
    rw [mem_removeIds, mem_internal, eA, eW, eP, List.mem_append, List.mem_append]
    constructor
    · intro hx'
      have hnf : x ∉ ta2.mta.freed := by
        have hu : x ∉ F.alloc.mta.free := (hE.intOk x ((mem_internal F x).mpr (by rw [eA, eW, eP]; exact hx'))).2.1.2.1
        rw [eA] at hu
        rcases C3 with ⟨-, -, -, hnil⟩ | ⟨-, -, hsub⟩
        · rw [C2, hnil]; exact fun hc => nomatch hc
        · exact fun hc => hu (hsub x hc)
      refine ⟨?_, hnf⟩
      rcases hx' with hx' | hx' | hx'
      · -- a value of the new mapping
        obtain ⟨k, hk⟩ := (mem_values hkeys x).mp hx'
        rw [hmap k] at hk
        unfold newMapAt at hk
        cases hw : Assoc.get? (cPhase1 f tx).2.1.walNew k with
        | some w =>
          rw [hw] at hk
          simp only [Option.some.injEq] at hk
          subst hk
          exact Or.inr (Or.inr (a1.t.alIn w (h1.wn k w hw).2.1))
        | none =>
          rw [hw] at hk
          dsimp only at hk
          split at hk
          · cases hk
          · exact Or.inr (Or.inr (a1.intM x (eacc_val_internal f0 k x hk)))
      · -- a page of the serialised mapping
        split at hx'
        · exact Or.inr (Or.inl hx')
        · exact Or.inr (Or.inr (iWP x (hwp ▸ hx')))
      · -- a page of the serialised free lists
        rcases C3 with ⟨-, -, hca, -⟩ | ⟨-, hfl', -⟩
        · rw [hca, hinvA.cfgFl] at hx'
          exact Or.inr (Or.inr (iFL x hx'))
        · rw [hfl'] at hx'
          exact Or.inl hx'
    · rintro ⟨hx', hnf⟩
      rw [hfreed x] at hnf
      rcases hx' with hx' | hx' | hx'
      · -- allocated for the free lists
        rcases C3 with ⟨-, hnil, -, -⟩ | ⟨-, hfl', -⟩
        · rw [hnil] at hx'; cases hx'
        · exact Or.inr (Or.inr (by rw [hfl']; exact hx'))
      · -- allocated for the mapping
        have := hregs (fun hnil => by rw [hnil] at hx'; cases hx')
        rw [this]
        exact Or.inr (Or.inl hx')
      · rcases a1.MInt x hx' with hx' | hx'
        · rcases (mem_internal f0 x).mp hx' with hx' | hx' | hx'
          · -- an overwrite page of the old mapping that was not released
            obtain ⟨k, hk⟩ := (mem_values he.keys x).mp hx'
            have hwn : Assoc.get? (cPhase1 f tx).2.1.walNew k = none := by
              cases hw : Assoc.get? (cPhase1 f tx).2.1.walNew k with
              | none => rfl
              | some w =>
                have := (h1.wn k w hw).2.2.2.1
                rw [hk] at this; cases this
            have hnfree : k ∉ (cPhase1 f tx).2.1.walFree :=
              fun hc => hnf (Or.inr (x1.wfreed k hc x hk))
            left
            apply (mem_values hkeys x).mpr
            refine ⟨k, ?_⟩
            rw [hmap k]
            unfold newMapAt
            rw [hwn]
            simp only [hnfree, if_false]
            exact hk
          · -- an old mapping page: only kept if the mapping is not written
            cases hwu : cWalUpd f tx with
            | true => exact absurd (Or.inl ((mem_cRel f tx x).mpr (Or.inl ⟨hwu, hwp ▸ hx'⟩))) hnf
            | false =>
              simp only [Bool.false_eq_true, if_false]
              exact Or.inr (Or.inl (hwp ▸ hx'))
          · -- an old free-list page: only kept if the free lists are not written
            cases hau : cAllocUpd f tx with
            | true => exact absurd (Or.inl ((mem_cRel f tx x).mpr (Or.inr ⟨hau, hfp ▸ hx'⟩))) hnf
            | false =>
              have hwu : cWalUpd f tx = false := by
                cases hwu : cWalUpd f tx with
                | false => rfl
                | true => rw [cWalUpd_cAllocUpd hi hx hwu] at hau; cases hau
              have hrn : regs = [] := by
                cases hrg : regs with
                | nil => rfl
                | cons y ys =>
                  have := hregs (by rw [hrg]; exact fun hc => nomatch hc)
                  rw [hwu] at this; cases this
              right; right
              rcases C3 with ⟨-, -, hca, -⟩ | ⟨hut, -, -⟩
              · rw [hca, hinvA.cfgFl]; exact hx'
              · rw [hau, hrn] at hut; cases hut
        · -- an overwrite page taken by the transaction: the target of a new mapping entry
          obtain ⟨k, hk⟩ := x1.allocNew x hx'
          left
          apply (mem_values hkeys x).mpr
          refine ⟨k, ?_⟩
          rw [hmap k]
          unfold newMapAt
          rw [hk]

/-! ### rollback / failed commit, and the count inside a transaction -/

theorem quiet_of_same {f0 F : FileSt} {live : List Nat} (hq : Quiet f0.alloc live f0.internal)
    (e1 : F.alloc = f0.alloc) (e2 : F.walMap = f0.walMap) (e3 : F.walPages = f0.walPages) :
    Quiet F.alloc live F.internal := by
  have : F.internal = f0.internal := by unfold FileSt.internal; rw [e1, e2, e3]
  rw [this, e1]; exact hq

/-- the ledger in numbers: owned pages + committed pages waiting for the commit to release them -/
theorem eacc_length {f0 : FileSt} {live : List Nat} {f : FileSt} {tx : TxSt} {cur L M : List Nat}
    (hi : TxInv f0 live f tx cur) (h : EAcc f0 f tx cur L M) :
    L.length = cur.length + tx.ta.data.freed.length := by
  have hnd : (cur ++ tx.ta.data.freed).Nodup := by
    rw [List.nodup_append]
    exact ⟨h.ndCur, asc_nodup _ h.t.ascF, fun x hx y hy e => (hi.dfreed y hy).1 (e ▸ hx)⟩
  rw [← List.length_append]
  apply eacc_length_eq L _ h.t.ndL hnd
  intro x
  rw [List.mem_append]
  constructor
  · exact h.LCur x
  · rintro (hx | hx)
    · exact h.curL x hx
    · exact (h.t.fL x hx).1

end TxVerif.AU
