/-
  Failing flushes of the queue writer (Model/PQWriterFail.lean) keep the abstraction relation
  `BufInv` of Proofs/PQWriter.lean: a failed flush changes `Meta.ID`s at most, and those only
  back and forth.
-/
import TxVerif.Model.PQWriterFail
import TxVerif.Proofs.PQWriter
namespace TxVerif

/-! ## `mapRange` -/

theorem mapRange_map {β : Type} (g : BPage → β) (f : BPage → BPage) (hf : ∀ p, g (f p) = g p) :
    ∀ (k n : Nat) (l : List BPage), (mapRange f k n l).map g = l.map g := by
  intro k n l
  induction l generalizing k n with
  | nil => simp [mapRange]
  | cons p l ih =>
    cases n with
    | zero => simp [mapRange]
    | succ n =>
      cases k with
      | zero => simp [mapRange, hf, ih]
      | succ k => simp [mapRange, ih]

theorem mapRange_comp (f g : BPage → BPage) :
    ∀ (k n : Nat) (l : List BPage), mapRange f k n (mapRange g k n l) = mapRange (f ∘ g) k n l := by
  intro k n l
  induction l generalizing k n with
  | nil => simp [mapRange]
  | cons p l ih =>
    cases n with
    | zero => simp [mapRange]
    | succ n =>
      cases k with
      | zero => simp [mapRange, ih]
      | succ k => simp [mapRange, ih]

theorem mapRange_length (f : BPage → BPage) (k n : Nat) (l : List BPage) :
    (mapRange f k n l).length = l.length := by
  have := congrArg List.length (mapRange_map (fun _ => ()) f (fun _ => rfl) k n l)
  simpa using this

theorem mapRange_head (f : BPage → BPage) (k n : Nat) (p : BPage) (l : List BPage) :
    ∃ l', mapRange f k n (p :: l) = (if k = 0 ∧ 0 < n then f p else p) :: l' := by
  cases n with
  | zero => exact ⟨l, by simp [mapRange]⟩
  | succ n =>
    cases k with
    | zero => exact ⟨mapRange f 0 n l, by simp [mapRange]⟩
    | succ k => exact ⟨mapRange f k n l, by simp [mapRange]⟩

/-- pages outside the range are untouched; in particular `mapRange` is the identity where `f` is -/
theorem mapRange_id (f : BPage → BPage) :
    ∀ (k n : Nat) (l : List BPage), (∀ p ∈ l.drop k, f p = p) → mapRange f k n l = l := by
  intro k n l
  induction l generalizing k n with
  | nil => simp [mapRange]
  | cons p l ih =>
    intro h
    cases n with
    | zero => simp [mapRange]
    | succ n =>
      cases k with
      | zero =>
        simp only [mapRange, List.cons.injEq]
        exact ⟨h p (by simp), ih 0 n (fun q hq => h q (by simp at hq; simp [hq]))⟩
      | succ k =>
        simp only [mapRange, List.cons.injEq, true_and]
        exact ih k n (fun q hq => h q (by simpa using hq))

theorem firstUnassigned_cons (p : BPage) (l : List BPage) (k : Nat)
    (h : firstUnassigned (p :: l) = some k) :
    (p.assigned = true → 1 ≤ k) ∧ (p.assigned = false → k = 0) := by
  unfold firstUnassigned at h
  cases hp : p.assigned with
  | true =>
    simp only [hp, if_true, Option.map_eq_some_iff] at h
    obtain ⟨a, _, rfl⟩ := h
    exact ⟨fun _ => by omega, fun h => Bool.noConfusion h⟩
  | false =>
    simp only [hp, Bool.false_eq_true, if_false, Option.some.injEq] at h
    exact ⟨fun h => Bool.noConfusion h, fun _ => h.symm⟩

/-! ## states that differ in `Meta.ID`s behind the head only -/

/-- same buffer contents, dirty flags, counters and file; `assigned` may differ except at the head -/
structure SameBuf (s t : WState) : Prop where
  pre_q : t.pre.map (·.q) = s.pre.map (·.q)
  pre_d : t.pre.map (·.dirty) = s.pre.map (·.dirty)
  ev_q : t.ev.map (·.q) = s.ev.map (·.q)
  ev_d : t.ev.map (·.dirty) = s.ev.map (·.dirty)
  headA : t.headAssigned = s.headAssigned
  hdrOff : t.hdrOff = s.hdrOff
  avail : t.avail = s.avail
  eventID : t.eventID = s.eventID
  eventBytes : t.eventBytes = s.eventBytes
  count : t.activeEventCount = s.activeEventCount
  persisted : t.persisted = s.persisted
  tailOff : t.tailOff = s.tailOff
  tailId : t.tailId = s.tailId

theorem SameBuf.refl (s : WState) : SameBuf s s :=
  ⟨rfl, rfl, rfl, rfl, rfl, rfl, rfl, rfl, rfl, rfl, rfl, rfl, rfl⟩

theorem hpDirty_map (s : WState) : s.hpDirty = ((s.ev.map (·.dirty)).head?).getD false := by
  unfold WState.hpDirty
  cases s.ev <;> rfl

theorem all_dirty_map (l : List BPage) (b : Bool) :
    (∀ p ∈ l, p.dirty = b) ↔ ∀ d ∈ l.map (·.dirty), d = b := by
  simp

theorem map_eq_concat {α β : Type} (f : α → β) (l l0 : List α) (x : α)
    (h : l.map f = l0.map f ++ [f x]) : ∃ l1 y, l = l1 ++ [y] ∧ f y = f x := by
  rcases List.eq_nil_or_concat l with e | ⟨l1, y, e⟩
  · subst e; simp at h
  · rw [List.concat_eq_append] at e
    subst e
    rw [List.map_append] at h
    exact ⟨l1, y, rfl, (concat_inj h).2⟩

theorem BufInv_of_same (S id0 : Nat) (s t : WState) (fin : List (List UInt8)) (cur : List UInt8)
    (h : BufInv S id0 s fin cur) (e : SameBuf s t) : BufInv S id0 t fin cur := by
  refine ⟨?_, ?_, ?_, ?_, ?_, ?_, ?_, ?_, ?_, ?_, ?_⟩
  · rw [e.ev_q]; exact h.ev_eq
  · rw [e.hdrOff]; exact h.hdrOff_eq
  · rw [e.eventBytes]; exact h.bytes_eq
  · rw [e.eventID]; exact h.id_eq
  · obtain ⟨D, h1, h2, h3⟩ := h.disk
    exact ⟨D, by rw [e.pre_q]; exact h1, by rw [e.headA, e.persisted]; exact h2,
      by rw [e.headA, e.persisted]; exact h3⟩
  · intro hg
    obtain ⟨pre0, x, h1, h2⟩ := h.padlast hg
    have : t.pre.map (·.q) = pre0.map (·.q) ++ [x.q] := by rw [e.pre_q, h1]; simp
    obtain ⟨l1, y, h3, h4⟩ := map_eq_concat (·.q) t.pre pre0 x this
    exact ⟨l1, y, h3, h4.trans h2⟩
  · have : t.visible = s.visible := by simp only [WState.visible, e.persisted, e.tailOff]
    rw [this, e.tailId]; exact h.vis
  · rw [e.tailId]; exact h.tail_ge
  · rw [e.tailId]; exact h.tail_le
  · have hl : t.pre.length = s.pre.length := by simpa using congrArg List.length e.pre_q
    have hd : t.hpDirty = s.hpDirty := by rw [hpDirty_map, hpDirty_map, e.ev_d]
    rw [hl, hd, e.tailId, all_dirty_map, all_dirty_map, e.pre_d, ← all_dirty_map, ← all_dirty_map]
    exact h.flags
  · rw [e.tailOff, e.tailId]; exact h.tailOff_eq

/-! ## a failing flush -/

theorem setAssigned_same (s : WState) (k n : Nat) (v : Bool) (hk : k = 0 → s.headAssigned = v) :
    SameBuf s (s.setAssigned k n v) := by
  refine ⟨mapRange_map (·.q) (fun p => { p with assigned := v }) (fun _ => rfl) _ _ _, mapRange_map (·.dirty) (fun p => { p with assigned := v }) (fun _ => rfl) _ _ _,
    mapRange_map (·.q) (fun p => { p with assigned := v }) (fun _ => rfl) _ _ _, mapRange_map (·.dirty) (fun p => { p with assigned := v }) (fun _ => rfl) _ _ _, ?_,
    rfl, rfl, rfl, rfl, rfl, rfl, rfl, rfl⟩
  unfold WState.headAssigned WState.setAssigned
  cases hpre : s.pre with
  | cons x xs =>
    obtain ⟨l', hl⟩ := mapRange_head (fun p => { p with assigned := v }) k n x xs
    simp only [hl]
    split
    · rename_i hc
      have := hk hc.1
      simp only [WState.headAssigned, hpre] at this
      exact this.symm
    · rfl
  | nil =>
    simp only [mapRange, List.length_nil, Nat.sub_zero]
    cases hev : s.ev with
    | nil => simp [mapRange]
    | cons h post =>
      obtain ⟨l', hl⟩ := mapRange_head (fun p => { p with assigned := v }) k n h post
      simp only [hl]
      split
      · rename_i hc
        have := hk hc.1
        simp only [WState.headAssigned, hpre, hev] at this
        exact this.symm
      · rfl

theorem setAssigned_twice (s : WState) (k n : Nat) (v w : Bool) :
    (s.setAssigned k n v).setAssigned k n w = s.setAssigned k n w := by
  simp only [WState.setAssigned, mapRange_length, mapRange_comp]
  rfl

theorem flushRange_head (s : WState) (k : Nat) (h : firstUnassigned (flushRange s) = some k) :
    k = 0 → s.headAssigned = false := by
  intro hk
  subst hk
  unfold flushRange at h
  unfold WState.headAssigned
  cases hev : s.ev with
  | nil => rw [hev] at h; simp [firstUnassigned] at h
  | cons hp post =>
    rw [hev] at h
    cases hpre : s.pre with
    | nil =>
      rw [hpre] at h
      simp only [List.nil_append] at h
      split at h
      · simp [firstUnassigned] at h
      · split at h
        · cases ha : hp.assigned with
          | false => exact ha
          | true => have := (firstUnassigned_cons hp [] 0 h).1 ha; omega
        · simp [firstUnassigned] at h
    | cons x xs =>
      rw [hpre] at h
      simp only [List.cons_append] at h
      cases ha : x.assigned with
      | false => exact ha
      | true =>
        split at h
        · simp [firstUnassigned] at h
        · split at h
          · have := (firstUnassigned_cons x _ 0 h).1 ha; omega
          · have := (firstUnassigned_cons x _ 0 h).1 ha; omega

theorem failFlush_same (o : FlushOutcome) (s : WState) : SameBuf s (failFlush o s) := by
  unfold failFlush
  cases o with
  | commitFail =>
    simp only
    cases hk : firstUnassigned (flushRange s) with
    | none => exact SameBuf.refl s
    | some k =>
      simp only [setAssigned_twice]
      exact setAssigned_same s k _ false (flushRange_head s k hk)
  | _ => exact SameBuf.refl s

/-! ## the invariant of the writer with failing flushes -/

/-- abstraction relation + `activeEventCount` counts the finished events that are not persisted -/
def FInv (S id0 : Nat) (s : WState) (g : List (List UInt8) × List UInt8) : Prop :=
  BufInv S id0 s g.1 g.2 ∧ s.activeEventCount + s.tailId = s.eventID

theorem flushBuffer_eventID (S : Nat) (s : WState) : (flushBuffer S s).eventID = s.eventID := by
  simp only [flushBuffer]
  repeat' split
  all_goals rfl

theorem flushBuffer_count (S : Nat) (s : WState) : (flushBuffer S s).activeEventCount = 0 := by
  simp only [flushBuffer]
  repeat' split
  all_goals rfl

theorem FInv_init (S pages id0 : Nat) (h4 : 4 ≤ S) : FInv S id0 (WState.init S pages id0) ([], []) :=
  ⟨BufInv_init S pages id0 h4, by simp [WState.init]⟩

theorem FInv_flush_ok (S id0 : Nat) (s : WState) (g : List (List UInt8) × List UInt8)
    (h : FInv S id0 s g) :
    FInv S id0 (flushBuffer S s) g ∧ (flushBuffer S s).tailId = id0 + g.1.length := by
  have hf := BufInv_flush S id0 s g.1 g.2 h.1
  refine ⟨⟨hf.1, ?_⟩, hf.2⟩
  rw [flushBuffer_count, flushBuffer_eventID, hf.2, h.1.id_eq]; omega

theorem FInv_fail (S id0 : Nat) (o : FlushOutcome) (s : WState) (g : List (List UInt8) × List UInt8)
    (h : FInv S id0 s g) : FInv S id0 (failFlush o s) g := by
  have e := failFlush_same o s
  exact ⟨BufInv_of_same S id0 s _ g.1 g.2 h.1 e, by rw [e.count, e.tailId, e.eventID]; exact h.2⟩

theorem FInv_flushF (S id0 : Nat) (o : FlushOutcome) (s : WState) (g : List (List UInt8) × List UInt8)
    (h : FInv S id0 s g) : FInv S id0 (flushF S o s).1 g := by
  unfold flushF
  split
  · exact FInv_fail S id0 o s g h
  · exact (FInv_flush_ok S id0 s g h).1

theorem FInv_append (S id0 : Nat) (hS : 1 ≤ S) (s : WState) (g : List (List UInt8) × List UInt8)
    (p : List UInt8) (a : Int) (h : FInv S id0 s g) :
    FInv S id0 { s with ev := bufAppend S s.ev p, avail := a, eventBytes := s.eventBytes + p.length }
      (g.1, g.2 ++ p) :=
  ⟨BufInv_append S id0 hS s g.1 g.2 p a h.1, h.2⟩

theorem FInv_nextCore (S id0 : Nat) (h4 : 4 ≤ S) (s : WState) (g : List (List UInt8) × List UInt8)
    (h : FInv S id0 s g) : FInv S id0 (s.nextCore S) (g.1 ++ [g.2], []) := by
  refine ⟨BufInv_nextCore S id0 h4 s g.1 g.2 h.1, ?_⟩
  show s.activeEventCount + 1 + s.tailId = s.eventID + 1
  have := h.2
  omega

theorem flushF_err (S : Nat) (o : FlushOutcome) (s : WState) :
    (flushF S o s).2 = flushFails o s := by
  unfold flushF; split <;> simp [*]

theorem flushF_fail (S : Nat) (o : FlushOutcome) (s : WState) (h : (flushF S o s).2 = true) :
    (flushF S o s).1 = failFlush o s := by
  rw [flushF_err] at h; simp [flushF, h]

theorem flushF_ok (S : Nat) (o : FlushOutcome) (s : WState) (h : (flushF S o s).2 = false) :
    (flushF S o s).1 = flushBuffer S s := by
  rw [flushF_err] at h; simp [flushF, h]

theorem FInv_stepF (S id0 : Nat) (h4 : 4 ≤ S) (s : WState) (g : List (List UInt8) × List UInt8)
    (op : FWOp) (h : FInv S id0 s g) :
    FInv S id0 (s.stepF S op).1 ((effOp op (s.stepF S op).2).foldl gstep g) := by
  cases op with
  | write c o =>
    simp only [WState.stepF, WState.writeF]
    have h1 : FInv S id0 (if s.avail ≤ c.length then flushF S o s else (s, false)).1 g := by
      split
      · exact FInv_flushF S id0 o s g h
      · exact h
    generalize (if s.avail ≤ c.length then flushF S o s else (s, false)) = r at h1 ⊢
    cases he : r.2 with
    | true => simpa [effOp] using h1
    | false =>
      simp only [Bool.false_eq_true, if_false, effOp, List.foldl_cons, List.foldl_nil, gstep]
      exact FInv_append S id0 (by omega) _ g c _ h1
  | next o =>
    simp only [WState.stepF, WState.nextF, effOp, List.foldl_cons, List.foldl_nil, gstep]
    have h1 := FInv_nextCore S id0 h4 s g h
    split
    · exact FInv_flushF S id0 o _ _ h1
    · exact h1
  | flush o =>
    simp only [WState.stepF]
    have h1 := FInv_flushF S id0 o s g h
    cases he : (flushF S o s).2 <;> simpa [effOp, gstep] using h1

theorem FInv_runF (S id0 : Nat) (h4 : 4 ≤ S) : ∀ (ops : List FWOp) (s : WState)
    (g : List (List UInt8) × List UInt8), FInv S id0 s g →
    FInv S id0 (runF S s ops).1 ((runF S s ops).2.2.foldl gstep g) := by
  intro ops
  induction ops with
  | nil => intro s g h; exact h
  | cons op ops ih =>
    intro s g h
    simp only [runF, List.foldl_append]
    exact ih _ _ (FInv_stepF S id0 h4 s g op h)

theorem FInv_reach (P pages id0 : Nat) (hP : 64 ≤ P) (ops : List FWOp) :
    FInv (P - 28) id0 (stateF P pages id0 ops) (ghost (effOps P pages id0 ops)) :=
  FInv_runF (P - 28) id0 (by omega) ops _ ([], []) (FInv_init (P - 28) pages id0 (by omega))

/-! ## runs -/

theorem runF_append (S : Nat) : ∀ (a b : List FWOp) (s : WState),
    runF S s (a ++ b) = ((runF S (runF S s a).1 b).1, (runF S s a).2.1 ++ (runF S (runF S s a).1 b).2.1,
      (runF S s a).2.2 ++ (runF S (runF S s a).1 b).2.2) := by
  intro a
  induction a with
  | nil => intro b s; simp [runF]
  | cons op a ih => intro b s; simp [runF, ih]

theorem stateF_snoc (P pages id0 : Nat) (ops : List FWOp) (op : FWOp) :
    stateF P pages id0 (ops ++ [op]) = ((stateF P pages id0 ops).stepF (P - 28) op).1 := by
  simp [stateF, runWriterF, runF_append, runF]

theorem errsF_snoc (P pages id0 : Nat) (ops : List FWOp) (op : FWOp) :
    errsF P pages id0 (ops ++ [op]) =
      errsF P pages id0 ops ++ [((stateF P pages id0 ops).stepF (P - 28) op).2] := by
  simp [errsF, stateF, runWriterF, runF_append, runF]

theorem effOps_snoc (P pages id0 : Nat) (ops : List FWOp) (op : FWOp) :
    effOps P pages id0 (ops ++ [op]) =
      effOps P pages id0 ops ++ effOp op ((stateF P pages id0 ops).stepF (P - 28) op).2 := by
  simp [effOps, stateF, runWriterF, runF_append, runF]

/-- the error flag of the last call -/
theorem lastErr_snoc (P pages id0 : Nat) (ops : List FWOp) (op : FWOp) :
    (errsF P pages id0 (ops ++ [op])).getLast? = some ((stateF P pages id0 ops).stepF (P - 28) op).2 := by
  rw [errsF_snoc]; simp

theorem errsF_length (P pages id0 : Nat) (ops : List FWOp) : (errsF P pages id0 ops).length = ops.length := by
  unfold errsF runWriterF
  generalize WState.init (P - 28) pages id0 = s
  induction ops generalizing s with
  | nil => rfl
  | cons op ops ih => simp [runF, ih]

/-- the effective operations are the calls with those that returned an error removed -/
theorem effOps_eq (P pages id0 : Nat) (ops : List FWOp) :
    effOps P pages id0 ops = ((ops.zip (errsF P pages id0 ops)).map fun x => effOp x.1 x.2).flatten := by
  unfold effOps errsF runWriterF
  generalize WState.init (P - 28) pages id0 = s
  induction ops generalizing s with
  | nil => rfl
  | cons op ops ih => simp [runF, ih]

theorem flushF_okOutcome (S : Nat) (s : WState) : flushF S .ok s = (flushBuffer S s, false) := by
  have : flushFails .ok s = false := by unfold flushFails; split <;> rfl
  simp [flushF, this]

theorem stepF_liftOk (S : Nat) (s : WState) (op : WOp) :
    s.stepF S (liftOk op) = (s.step S op, false) := by
  cases op with
  | write c =>
    simp only [liftOk, WState.stepF, WState.writeF, WState.step, WState.write, flushF_okOutcome]
    split <;> rfl
  | next =>
    simp only [liftOk, WState.stepF, WState.nextF, WState.step, WState.next, flushF_okOutcome]
    split <;> rfl
  | flush => simp only [liftOk, WState.stepF, WState.step, WState.flush, flushF_okOutcome]

/-- without failures the model is the writer of Model/PQWriter.lean -/
theorem runF_liftOk (S : Nat) : ∀ (ops : List WOp) (s : WState),
    runF S s (ops.map liftOk) = (s.run S ops, List.replicate ops.length false, ops) := by
  intro ops
  induction ops with
  | nil => intro s; rfl
  | cons op ops ih =>
    intro s
    simp only [List.map_cons, runF, stepF_liftOk, ih, List.length_cons, List.replicate_succ]
    cases op <;> simp [effOp, WState.run, liftOk]

/-! ## only the head of the buffer has an id: a failing flush restores the state exactly -/

/-- `Assigned()` of the buffer pages, head first -/
def asg (s : WState) : List Bool := s.pre.map (·.assigned) ++ s.ev.map (·.assigned)

/-- no page behind the head has an id -/
def Tidy (s : WState) : Prop := ∀ b ∈ (asg s).tail, b = false

theorem tail_append_false (l : List Bool) (n : Nat) (h : ∀ b ∈ l.tail, b = false) :
    ∀ b ∈ (l ++ List.replicate n false).tail, b = false := by
  intro b hb
  cases l with
  | nil =>
    have := List.mem_of_mem_tail hb
    simp at this; exact this.2
  | cons x xs =>
    simp only [List.cons_append, List.tail_cons, List.mem_append, List.mem_replicate] at hb
    rcases hb with hb | hb
    · exact h b hb
    · exact hb.2

theorem Tidy_init (S pages id0 : Nat) : Tidy (WState.init S pages id0) := by
  intro b hb; simp [asg, WState.init] at hb

theorem Tidy_append (S : Nat) (s : WState) (p : List UInt8) (a : Int) (e : Nat) (hne : s.ev ≠ [])
    (h : Tidy s) : Tidy { s with ev := bufAppend S s.ev p, avail := a, eventBytes := e } := by
  rcases List.eq_nil_or_concat s.ev with e0 | ⟨L, b, e0⟩
  · exact absurd e0 hne
  rw [List.concat_eq_append] at e0
  obtain ⟨c', rest, _, hb⟩ := bufAppend_concat S L b p
  have : asg { s with ev := bufAppend S s.ev p, avail := a, eventBytes := e } =
      asg s ++ List.replicate rest.length false := by
    simp only [asg, e0, hb]
    simp [BPage.new, Function.comp_def, List.eq_replicate_iff]
  unfold Tidy
  rw [this]
  exact tail_append_false _ _ h

theorem Tidy_nextCore (S id0 : Nat) (s : WState) (fin : List (List UInt8)) (cur : List UInt8)
    (hb : BufInv S id0 s fin cur) (h : Tidy s) : Tidy (s.nextCore S) := by
  obtain ⟨L, b, e0, _⟩ := commit_facts S id0 s fin cur hb
  obtain ⟨_, hpa, _⟩ := commitEvent_pre s
  obtain ⟨_, hea, _⟩ := commitEvent_ev s
  rw [e0] at hea
  rw [nextCore_eq S s L b e0]
  split
  · have : asg (nextAdv s ((commitEvent s).1 ++ (L ++ [b]))) = asg s ++ List.replicate 1 false := by
      simp only [asg, nextAdv, List.map_append, hpa, hea]
      simp [BPage.new]
    unfold Tidy
    rw [this]
    exact tail_append_false _ _ h
  · have : asg (nextStay s ((commitEvent s).1 ++ L) b) = asg s := by
      simp only [asg, nextStay, List.map_append, hpa, ← hea]
      simp
    unfold Tidy
    rw [this]
    exact h

theorem Tidy_count (s : WState) (n : Nat) (h : Tidy s) : Tidy { s with activeEventCount := n } := h

theorem Tidy_flush (S id0 : Nat) (s : WState) (fin : List (List UInt8)) (cur : List UInt8)
    (hb : BufInv S id0 s fin cur) (h : Tidy s) : Tidy (flushBuffer S s) := by
  rcases hb.flags with hc | hf
  · rw [BufInv_flush_clean S id0 s fin cur hb hc]; exact h
  · obtain ⟨hp, post, x, e0, _⟩ := BufInv_ev_cons S id0 s fin cur hb
    have hpost : ∀ b ∈ post.map (·.assigned), b = false := by
      intro b hbm
      apply h b
      simp only [asg, e0, List.map_cons]
      cases s.pre with
      | nil => simpa using hbm
      | cons y ys => simp only [List.map_cons, List.cons_append, List.tail_cons]; simp [hbm]
    cases hd : hp.dirty with
    | true =>
      rw [flushBuffer_hpDirty S s hp post e0 hd hf.2.1]
      intro b hbm
      simp only [asg, List.map_nil, List.nil_append, List.map_cons, List.tail_cons] at hbm
      exact hpost b hbm
    | false =>
      have hg : gpad S id0 fin := by
        apply Classical.byContradiction
        intro hn
        have := hf.2.2.2 hn
        simp [WState.hpDirty, e0, hd] at this
      obtain ⟨pre0, y, e1, _⟩ := hb.padlast hg
      rw [flushBuffer_hpClean S s hp post pre0 y e0 hd e1 hf.2.1]
      intro b hbm
      simp only [asg, e0, List.map_cons, List.map_nil, List.cons_append, List.nil_append,
        List.tail_cons] at hbm
      apply h b
      simp only [asg, e0, e1, List.map_cons]
      cases pre0 with
      | nil => simpa using hbm
      | cons z zs =>
        simp only [List.cons_append, List.map_cons, List.tail_cons, List.mem_append]
        exact Or.inr (by simpa using hbm)

theorem setAssigned_false_id (s : WState) (k n : Nat) (h : Tidy s)
    (hk : k = 0 → s.headAssigned = false) : s.setAssigned k n false = s := by
  have hall : ∀ i, k ≤ i → ∀ b, (asg s)[i]? = some b → b = false := by
    intro i hi b hb
    cases i with
    | zero =>
      have h0 := hk (by omega)
      rw [headAssigned_eq] at h0
      simp only [hdA, List.map_append] at h0
      simp only [asg] at hb
      rw [List.head?_eq_getElem?, hb] at h0
      simpa using h0
    | succ i =>
      apply h b
      rw [List.mem_iff_getElem?]
      exact ⟨i, by rw [List.getElem?_tail]; exact hb⟩
  have hpre : mapRange (fun p => { p with assigned := false }) k n s.pre = s.pre := by
    apply mapRange_id
    intro p hp
    obtain ⟨i, hi⟩ := List.mem_iff_getElem?.1 hp
    rw [List.getElem?_drop] at hi
    have := hall (k + i) (by omega) p.assigned (by
      simp only [asg]
      rw [List.getElem?_append_left (by
        have := (List.getElem?_eq_some_iff.1 hi).1; simpa using this)]
      simp [hi])
    cases p; simp_all
  have hev : mapRange (fun p => { p with assigned := false }) (k - s.pre.length) (n - s.pre.length) s.ev
      = s.ev := by
    apply mapRange_id
    intro p hp
    obtain ⟨i, hi⟩ := List.mem_iff_getElem?.1 hp
    rw [List.getElem?_drop] at hi
    have := hall (s.pre.length + (k - s.pre.length + i)) (by omega) p.assigned (by
      simp only [asg]
      rw [List.getElem?_append_right (by simp)]
      simp [hi])
    cases p; simp_all
  cases s
  simp only [WState.setAssigned] at hpre hev ⊢
  simp only [hpre, hev]

/-- **in a state where only the head page has an id a failing flush restores the state exactly**
    (`unassignPages` undoes `allocatePages`) -/
theorem failFlush_id (o : FlushOutcome) (s : WState) (h : Tidy s) : failFlush o s = s := by
  unfold failFlush
  cases o with
  | commitFail =>
    simp only
    cases hk : firstUnassigned (flushRange s) with
    | none => rfl
    | some k =>
      simp only [setAssigned_twice]
      exact setAssigned_false_id s k _ h (flushRange_head s k hk)
  | _ => rfl

theorem Tidy_flushF (S id0 : Nat) (o : FlushOutcome) (s : WState) (g : List (List UInt8) × List UInt8)
    (hb : FInv S id0 s g) (h : Tidy s) : Tidy (flushF S o s).1 := by
  unfold flushF
  split
  · simp only [failFlush_id o s h]; exact h
  · exact Tidy_flush S id0 s g.1 g.2 hb.1 h

theorem BufInv_ev_ne (S id0 : Nat) (s : WState) (fin : List (List UInt8)) (cur : List UInt8)
    (h : BufInv S id0 s fin cur) : s.ev ≠ [] := by
  obtain ⟨hp, post, _, e0, _⟩ := BufInv_ev_cons S id0 s fin cur h
  rw [e0]; simp

theorem Tidy_stepF (S id0 : Nat) (h4 : 4 ≤ S) (s : WState) (g : List (List UInt8) × List UInt8)
    (op : FWOp) (hb : FInv S id0 s g) (h : Tidy s) : Tidy (s.stepF S op).1 := by
  cases op with
  | write c o =>
    simp only [WState.stepF, WState.writeF]
    have h1 : FInv S id0 (if s.avail ≤ c.length then flushF S o s else (s, false)).1 g ∧
        Tidy (if s.avail ≤ c.length then flushF S o s else (s, false)).1 := by
      split
      · exact ⟨FInv_flushF S id0 o s g hb, Tidy_flushF S id0 o s g hb h⟩
      · exact ⟨hb, h⟩
    generalize (if s.avail ≤ c.length then flushF S o s else (s, false)) = r at h1 ⊢
    cases he : r.2 with
    | true => simpa using h1.2
    | false =>
      simp only [Bool.false_eq_true, if_false]
      exact Tidy_append S _ c _ _ (BufInv_ev_ne S id0 _ _ _ h1.1.1) h1.2
  | next o =>
    simp only [WState.stepF, WState.nextF]
    have h1 := FInv_nextCore S id0 h4 s g hb
    have h2 := Tidy_nextCore S id0 s g.1 g.2 hb.1 h
    split
    · exact Tidy_flushF S id0 o _ _ h1 h2
    · exact h2
  | flush o => exact Tidy_flushF S id0 o s g hb h

theorem Tidy_runF (S id0 : Nat) (h4 : 4 ≤ S) : ∀ (ops : List FWOp) (s : WState)
    (g : List (List UInt8) × List UInt8), FInv S id0 s g → Tidy s → Tidy (runF S s ops).1 := by
  intro ops
  induction ops with
  | nil => intro s g _ h; exact h
  | cons op ops ih =>
    intro s g hb h
    simp only [runF]
    exact ih _ _ (FInv_stepF S id0 h4 s g op hb) (Tidy_stepF S id0 h4 s g op hb h)

theorem Tidy_reach (P pages id0 : Nat) (hP : 64 ≤ P) (ops : List FWOp) :
    Tidy (stateF P pages id0 ops) :=
  Tidy_runF (P - 28) id0 (by omega) ops _ ([], []) (FInv_init (P - 28) pages id0 (by omega))
    (Tidy_init _ _ _)

/-! ## the page range of a flush only grows until a flush succeeds

  After `commitFail` the pages `start … last-1` of the failed range carry stale ids in their `next`
  fields (`linkPages`; not part of `WState`).  `linkPages` of a later flush rewrites the `next`
  field of every page of its range but the last one.  The range always starts at the buffer head,
  so it is enough that a later range is at least as long: every stale field is rewritten before
  the page is written, and the last page of the later range never carried a link. -/

/-- number of pages `buffer.Pages` hands to the flush -/
def rangeLen (s : WState) : Nat := (flushRange s).length

theorem rangeLen_eq (s : WState) (hp : BPage) (post : List BPage) (e0 : s.ev = hp :: post) :
    rangeLen s = if (s.pre ++ [hp]).head?.map (·.dirty) = some true then
      s.pre.length + (if hp.dirty then 1 else 0) else 0 := by
  unfold rangeLen flushRange
  rw [e0]
  cases hpre : s.pre with
  | nil => cases hd : hp.dirty <;> simp [hd]
  | cons x xs => cases hx : x.dirty <;> cases hd : hp.dirty <;> simp [hx, hd]

theorem rangeLen_append (S : Nat) (s : WState) (p : List UInt8) (a : Int) (e : Nat) (hne : s.ev ≠ []) :
    rangeLen { s with ev := bufAppend S s.ev p, avail := a, eventBytes := e } = rangeLen s := by
  rcases List.eq_nil_or_concat s.ev with e0 | ⟨L, b, e0⟩
  · exact absurd e0 hne
  rw [List.concat_eq_append] at e0
  obtain ⟨hd, tl, hd2, tl2, e1, e2, e3, _⟩ := bufAppend_head S L b p
  rw [← e0] at e1 e2
  rw [rangeLen_eq s hd tl e1, rangeLen_eq _ hd2 tl2 e2]
  cases hpre : s.pre with
  | nil => simp [e3]
  | cons x xs => simp [e3]

theorem rangeLen_le (s : WState) (hp : BPage) (post : List BPage) (e0 : s.ev = hp :: post) :
    rangeLen s ≤ s.pre.length + 1 ∧
    (rangeLen s ≠ 0 → (s.pre ++ [hp]).head?.map (·.dirty) = some true) := by
  rw [rangeLen_eq s hp post e0]
  split
  · rename_i h; refine ⟨by split <;> omega, fun _ => h⟩
  · exact ⟨by omega, fun h => absurd rfl h⟩

theorem commitEvent_head_dirty (s : WState) (hp : BPage) (post : List BPage) (e0 : s.ev = hp :: post)
    (h : (s.pre ++ [hp]).head?.map (·.dirty) = some true) :
    ((commitEvent s).1 ++ (commitEvent s).2).head?.map (·.dirty) = some true := by
  unfold commitEvent
  rw [e0]
  cases hpre : s.pre with
  | nil => simp [BPage.markDirty]
  | cons x l =>
    cases l with
    | nil => simp [BPage.markDirty]
    | cons y l => rw [hpre] at h; simpa using h

theorem rangeLen_nextCore (S id0 : Nat) (s : WState) (fin : List (List UInt8)) (cur : List UInt8)
    (hb : BufInv S id0 s fin cur) : rangeLen s ≤ rangeLen (s.nextCore S) := by
  obtain ⟨hp, post, _, e0, _⟩ := BufInv_ev_cons S id0 s fin cur hb
  obtain ⟨L, b, e1, _, _, hbd, _⟩ := commit_facts S id0 s fin cur hb
  obtain ⟨_, _, hlen⟩ := commitEvent_pre s
  obtain ⟨h1, h2⟩ := rangeLen_le s hp post e0
  by_cases h0 : rangeLen s = 0
  · omega
  have hd := commitEvent_head_dirty s hp post e0 (h2 h0)
  rw [e1] at hd
  rw [nextCore_eq S s L b e1]
  split
  · rw [rangeLen_eq (nextAdv s ((commitEvent s).1 ++ (L ++ [b]))) _ [] rfl]
    have : ((nextAdv s ((commitEvent s).1 ++ (L ++ [b]))).pre ++
        [{ BPage.new with q := withHdr0 QPage.fresh }]).head?.map BPage.dirty = some true := by
      simp only [nextAdv]
      cases hc : (commitEvent s).1 with
      | nil =>
        rw [hc] at hd
        cases L with
        | nil => simpa using hbd
        | cons z zs => simpa using hd
      | cons z zs => rw [hc] at hd; simpa using hd
    rw [if_pos this]
    simp only [nextAdv, List.length_append, hlen, List.length_cons, List.length_nil]
    omega
  · rw [rangeLen_eq (nextStay s ((commitEvent s).1 ++ L) b) _ [] rfl]
    have : ((nextStay s ((commitEvent s).1 ++ L) b).pre ++
        [{ b with q := withHdr0 b.q }]).head?.map BPage.dirty = some true := by
      simp only [nextStay]
      rw [List.append_assoc]
      cases hc : (commitEvent s).1 with
      | nil =>
        rw [hc] at hd
        cases L with
        | nil => simpa using hbd
        | cons z zs => simpa using hd
      | cons z zs => rw [hc] at hd; simpa using hd
    rw [if_pos this]
    simp only [nextStay, List.length_append, hlen, hbd, if_true]
    omega

/-- the call runs a flush that returns success -/
def flushedOk (S : Nat) (s : WState) : FWOp → Bool
  | .write c o => decide (s.avail ≤ c.length) && !(flushF S o s).2
  | .next o => decide ((s.nextCore S).avail ≤ 4) && !(flushF S o (s.nextCore S)).2
  | .flush o => !(flushF S o s).2

/-- none of the calls runs a flush that returns success -/
def noFlushOk (S : Nat) : WState → List FWOp → Bool
  | _, [] => true
  | s, op :: ops => !flushedOk S s op && noFlushOk S (s.stepF S op).1 ops

theorem rangeLen_stepF (S id0 : Nat) (s : WState) (g : List (List UInt8) × List UInt8)
    (op : FWOp) (hb : FInv S id0 s g) (h : Tidy s) (hn : flushedOk S s op = false) :
    rangeLen s ≤ rangeLen (s.stepF S op).1 := by
  cases op with
  | write c o =>
    simp only [flushedOk, Bool.and_eq_false_iff, decide_eq_false_iff_not, Bool.not_eq_false'] at hn
    simp only [WState.stepF, WState.writeF]
    by_cases hc : s.avail ≤ c.length
    · have he : (flushF S o s).2 = true := by rcases hn with hn | hn; exact absurd hc hn; exact hn
      simp only [hc, if_true, he, flushF_fail S o s he, failFlush_id o s h]
      exact Nat.le_refl _
    · simp only [hc, if_false, Bool.false_eq_true]
      rw [rangeLen_append S s c _ _ (BufInv_ev_ne S id0 _ _ _ hb.1)]
      exact Nat.le_refl _
  | next o =>
    simp only [flushedOk, Bool.and_eq_false_iff, decide_eq_false_iff_not, Bool.not_eq_false'] at hn
    simp only [WState.stepF, WState.nextF]
    have h1 := rangeLen_nextCore S id0 s g.1 g.2 hb.1
    by_cases hc : (s.nextCore S).avail ≤ 4
    · have he : (flushF S o (s.nextCore S)).2 = true := by
        rcases hn with hn | hn; exact absurd hc hn; exact hn
      simp only [hc, if_true, flushF_fail S o _ he,
        failFlush_id o _ (Tidy_nextCore S id0 s g.1 g.2 hb.1 h)]
      exact h1
    · simp only [hc, if_false]; exact h1
  | flush o =>
    simp only [flushedOk, Bool.not_eq_false'] at hn
    simp only [WState.stepF, flushF_fail S o s hn, failFlush_id o s h]
    exact Nat.le_refl _

theorem rangeLen_runF (S id0 : Nat) (h4 : 4 ≤ S) : ∀ (ops : List FWOp) (s : WState)
    (g : List (List UInt8) × List UInt8), FInv S id0 s g → Tidy s → noFlushOk S s ops = true →
    rangeLen s ≤ rangeLen (runF S s ops).1 := by
  intro ops
  induction ops with
  | nil => intro s g _ _ _; exact Nat.le_refl _
  | cons op ops ih =>
    intro s g hb h hn
    simp only [noFlushOk, Bool.and_eq_true, Bool.not_eq_true'] at hn
    simp only [runF]
    exact Nat.le_trans (rangeLen_stepF S id0 s g op hb h hn.1)
      (ih _ _ (FInv_stepF S id0 h4 s g op hb) (Tidy_stepF S id0 h4 s g op hb h) hn.2)

end TxVerif
