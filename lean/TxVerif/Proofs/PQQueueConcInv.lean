/-
  The invariant of the two-thread queue system (Model/PQQueueConc.lean) and its preservation by every step:
  `LInv` (simulation + linearization bookkeeping) and `KInv` (lock state, control states, ACK plan).
-/
import TxVerif.Proofs.PQQueueConc
namespace TxVerif

def CPc.holdsRes : CPc → Bool
  | .active _ | .pending _ => true
  | _ => false

def CPc.isPending : CPc → Bool
  | .pending _ => true
  | _ => false

def CPc.plan? : CPc → Option AckPlanI
  | .idle => none
  | .planned p | .active p | .pending p => some p

/-- the linearized calls of the producer / of the consumer -/
def linP (l : List LinEv) : List LinEv := l.filter fun e => !e.tid
def linC (l : List LinEv) : List LinEv := l.filter fun e => e.tid

theorem linP_append (l : List LinEv) (e : LinEv) : linP (l ++ [e]) = if e.tid then linP l else linP l ++ [e] := by
  simp only [linP, List.filter_append, List.filter_cons, List.filter_nil]
  cases e.tid <;> simp

theorem linC_append (l : List LinEv) (e : LinEv) : linC (l ++ [e]) = if e.tid then linC l ++ [e] else linC l := by
  simp only [linC, List.filter_append, List.filter_cons, List.filter_nil]
  cases e.tid <;> simp

theorem runLin_append (l : List LinEv) (e : LinEv) : ∀ a : ASpec,
    ASpec.runLin a (l ++ [e]) = (ASpec.runLin a l).bind fun a1 =>
      match a1.stepL e.tid e.op e.fl with
      | none => none
      | some (a2, o) => if o = e.out then some a2 else none := by
  induction l with
  | nil =>
    intro a
    simp only [List.nil_append, ASpec.runLin, Option.bind_some]
    cases a.stepL e.tid e.op e.fl with
    | none => rfl
    | some r => simp only
  | cons x xs ih =>
    intro a
    simp only [List.cons_append, ASpec.runLin]
    cases a.stepL x.tid x.op x.fl with
    | none => rfl
    | some r =>
      simp only
      split
      · exact ih r.1
      · rfl

/-- simulation and linearization: the specification accepts the linearization `lin` with exactly the recorded
    results and ends in `a`, which is related to the queue state; the linearization, thread by thread, is the
    executed part of the thread's program, and the thread has seen the results recorded in it -/
structure LInv (c : QCfg) (p0 c0 : List QOp) (s : CState) : Prop where
  qinv : QInv c s.q s.a
  linr : ASpec.runLin {} s.lin = some s.a
  progP : p0 = (linP s.lin).map (·.op) ++ s.progP
  progC : c0 = (linC s.lin).map (·.op) ++ s.progC
  outP : s.outP = (linP s.lin).map (·.out)
  outC : s.outC = (linC s.lin).map (·.out)
  ackok : s.a.ackOk

/-- lock state and control states -/
structure KInv (c : QCfg) (s : CState) : Prop where
  shared : s.lock.shared = if s.q.r.inTx then 1 else 0
  reserved : s.lock.reserved = (decide (s.pp ≠ .idle) || s.cp.holdsRes)
  pending : s.lock.pending = (decide (s.pp = .pending) || s.cp.isPending)
  excl : s.pp = .idle ∨ s.cp.holdsRes = false
  plan : ∀ p, s.cp.plan? = some p → ∃ n rest, s.progC = .ack n :: rest ∧ PlanOK c s.q s.a n p ∧
    s.a.inRead = false ∧ s.a.acked + n ≤ s.a.consumed + (if s.a.left = 0 then 0 else 1)
  ppc : s.pp ≠ .idle → s.progP ≠ []

def CInv (c : QCfg) (p0 c0 : List QOp) (s : CState) : Prop :=
  s.bad = true ∨ (LInv c p0 c0 s ∧ KInv c s)

theorem LInv.congr {c : QCfg} {p0 c0 : List QOp} {s s' : CState} (h : LInv c p0 c0 s)
    (e1 : s'.q = s.q) (e2 : s'.a = s.a) (e3 : s'.lin = s.lin) (e4 : s'.progP = s.progP) (e5 : s'.progC = s.progC)
    (e6 : s'.outP = s.outP) (e7 : s'.outC = s.outC) : LInv c p0 c0 s' := by
  refine ⟨by rw [e1, e2]; exact h.qinv, by rw [e3, e2]; exact h.linr, by rw [e3, e4]; exact h.progP,
    by rw [e3, e5]; exact h.progC, by rw [e6, e3]; exact h.outP, by rw [e7, e3]; exact h.outC, by rw [e2]; exact h.ackok⟩

/-- `ackOk` along the two-thread specification -/
theorem stepL_ackOk (a a' : ASpec) (tid : Bool) (op : QOp) (fl : Bool) (o : QOut) (hF : a.flushed ≤ a.events.length)
    (h0 : a.ackOk) (h : a.stepL tid op fl = some (a', o)) : a'.ackOk := by
  simp only [ASpec.stepL] at h
  cases tid with
  | true =>
    simp only [if_true] at h
    split at h
    · exact spec_ackOk_step a a' op fl o h0 h
    · cases h
  | false =>
    simp only [Bool.false_eq_true, if_false] at h
    split at h
    · rename_i hop
      obtain ⟨e1, e2, e3, _⟩ := pstep_facts a a' op fl o hop hF h
      simp only [ASpec.ackOk, e1, e2, e3] at h0 ⊢
      exact h0
    · cases h

/-- **Linearizing a call.**  If the model state `q'` and result `o` of the call are what the simulation gives for
    the specification's step, `linearize` keeps `LInv`; the other fields are untouched. -/
theorem linearize_inv (c : QCfg) (p0 c0 : List QOp) (s : CState) (tid : Bool) (op : QOp) (rest : List QOp)
    (q' : PQState) (o : QOut) (hL : LInv c p0 c0 s)
    (hprog : (if tid then s.progC else s.progP) = op :: rest)
    (hsim : ∀ a' o', s.a.stepL tid op (s.q.autoFlush c op) = some (a', o') → o = o' ∧ QInv c q' a') :
    (s.linearize c tid op q' o).bad = true ∨
    (LInv c p0 c0 (s.linearize c tid op q' o) ∧ (s.linearize c tid op q' o).q = q' ∧
      (s.linearize c tid op q' o).lock = s.lock ∧ (s.linearize c tid op q' o).pp = s.pp ∧
      (s.linearize c tid op q' o).cp = s.cp ∧
      (s.linearize c tid op q' o).progP = (if tid then s.progP else rest) ∧
      (s.linearize c tid op q' o).progC = (if tid then rest else s.progC) ∧
      s.a.stepL tid op (s.q.autoFlush c op) = some ((s.linearize c tid op q' o).a, o)) := by
  cases hs : s.a.stepL tid op (s.q.autoFlush c op) with
  | none => left; simp [CState.linearize, hs]
  | some r =>
    right
    obtain ⟨a', o'⟩ := r
    obtain ⟨ho, hI'⟩ := hsim a' o' hs
    subst ho
    have hok := stepL_ackOk s.a a' tid op _ o hL.qinv.fle hL.ackok hs
    have hrun : ASpec.runLin {} (s.lin ++ [⟨tid, op, s.q.autoFlush c op, o⟩]) = some a' := by
      rw [runLin_append, hL.linr]
      simp [hs]
    cases tid with
    | true =>
      simp only [if_true] at hprog
      have e : s.linearize c true op q' o = { s with q := q', a := a', lin := s.lin ++ [⟨true, op, s.q.autoFlush c op, o⟩], progC := s.progC.tail, outC := s.outC ++ [o] } := by
        simp [CState.linearize, hs]
      rw [e]
      refine ⟨⟨hI', hrun, ?_, ?_, ?_, ?_, hok⟩, rfl, rfl, rfl, rfl, rfl, by simp [hprog], rfl⟩
      · simp only [linP_append, if_true]; exact hL.progP
      · simp only [linC_append, if_true, List.map_append, List.map_cons, List.map_nil, hprog, List.tail_cons]
        rw [hL.progC, hprog]; simp
      · simp only [linP_append, if_true]; exact hL.outP
      · simp only [linC_append, if_true, List.map_append, List.map_cons, List.map_nil]
        rw [hL.outC]
    | false =>
      simp only [Bool.false_eq_true, if_false] at hprog
      have e : s.linearize c false op q' o = { s with q := q', a := a', lin := s.lin ++ [⟨false, op, s.q.autoFlush c op, o⟩], progP := s.progP.tail, outP := s.outP ++ [o] } := by
        simp [CState.linearize, hs]
      rw [e]
      refine ⟨⟨hI', hrun, ?_, ?_, ?_, ?_, hok⟩, rfl, rfl, rfl, rfl, by simp [hprog], rfl, rfl⟩
      · simp only [linP_append, Bool.false_eq_true, if_false, List.map_append, List.map_cons, List.map_nil, hprog,
          List.tail_cons]
        rw [hL.progP, hprog]; simp
      · simp only [linC_append, Bool.false_eq_true, if_false]; exact hL.progC
      · simp only [linP_append, Bool.false_eq_true, if_false, List.map_append, List.map_cons, List.map_nil]
        rw [hL.outP]
      · simp only [linC_append, Bool.false_eq_true, if_false]; exact hL.outC

/-! ## producer steps -/

theorem producer_headPos (c : QCfg) (q : PQState) (op : QOp) (hop : op.isProducer = true)
    (hs : q.hdr.headSet = true) : (q.step c op).1.headPos = q.headPos := by
  cases op <;> simp [QOp.isProducer] at hop <;>
    simp [PQState.step, PQState.write, PQState.next, PQState.flush, PQState.afterWriter, hs]

/-- the state after a producer call took effect: `KInv` with the given lock/pp, plan kept -/
theorem KInv_after_producer (c : QCfg) (s s' : CState) (op : QOp) (hop : op.isProducer = true)
    (hK : KInv c s) (hI : QInv c s.q s.a) (hI' : QInv c s'.q s'.a)
    (hq : s'.q = (s.q.step c op).1) (hcp : s'.cp = s.cp) (hpc : s'.progC = s.progC)
    (hst : ∃ o, s.a.stepL false op (s.q.autoFlush c op) = some (s'.a, o))
    (hsh : s'.lock.shared = s.lock.shared)
    (hres : s'.lock.reserved = (decide (s'.pp ≠ .idle) || s'.cp.holdsRes))
    (hpend : s'.lock.pending = (decide (s'.pp = .pending) || s'.cp.isPending))
    (hex : s'.pp = .idle ∨ s'.cp.holdsRes = false) (hppc : s'.pp ≠ .idle → s'.progP ≠ []) : KInv c s' := by
  obtain ⟨o, hst⟩ := hst
  simp only [ASpec.stepL, Bool.false_eq_true, if_false, hop, if_true] at hst
  obtain ⟨f1, f2, f3, f4, f5, f6⟩ := pstep_facts s.a s'.a op _ o hop hI.fle hst
  have hr : s'.q.r = s.q.r := by rw [hq]; exact (step_setTx c s.q false op hop).2.2
  refine ⟨by rw [hsh, hr]; exact hK.shared, hres, hpend, hex, ?_, hppc⟩
  intro p hp
  rw [hcp] at hp
  obtain ⟨n, rest, h1, h2, h3, h4⟩ := hK.plan p hp
  have hFpos : 0 < s.a.flushed := by have := h2.hle; have := h2.hn; omega
  have hhs : s.q.hdr.headSet = true := by rw [hI.h.headSet]; exact decide_eq_true hFpos
  refine ⟨n, rest, by rw [hpc]; exact h1, ?_, by rw [f4]; exact h3, by rw [f1, f2, f3]; exact h4⟩
  exact planOK_grow c s.q s'.q s.a s'.a n p hI hI' h2 (by rw [hq]; exact producer_headPos c s.q op hop hhs) f1 f5 f6

theorem stepP_inv (c : QCfg) (hP : 64 ≤ c.P) (p0 c0 : List QOp) (s s' : CState)
    (hL : LInv c p0 c0 s) (hK : KInv c s) (hs : s.stepP c = some s') : CInv c p0 c0 s' := by
  simp only [CState.stepP] at hs
  cases hprog : s.progP with
  | nil => rw [hprog] at hs; cases hs
  | cons op rest =>
    rw [hprog] at hs
    simp only at hs
    by_cases hop' : op.isProducer = false
    · simp only [hop', Bool.not_false, if_true, Option.some.injEq] at hs
      rw [← hs]; exact Or.inl rfl
    have hop : op.isProducer = true := by simpa using hop'
    simp only [hop, Bool.not_true, Bool.false_eq_true, if_false] at hs
    have hsim : ∀ a' o', s.a.stepL false op (s.q.autoFlush c op) = some (a', o') →
        (s.q.step c op).2 = o' ∧ QInv c (s.q.step c op).1 a' := by
      intro a' o' h
      simp only [ASpec.stepL, Bool.false_eq_true, if_false, hop, if_true] at h
      exact sim_pstep c hP s.q s.a a' o' op hop hL.qinv h
    cases hpp : s.pp with
    | idle =>
      rw [hpp] at hs
      simp only at hs
      by_cases hn : s.q.needsTx c op = true
      · simp only [hn, if_true] at hs
        by_cases hr : s.lock.reserved = true
        · simp [hr] at hs
        simp only [hr, Bool.false_eq_true, if_false, Option.some.injEq] at hs
        rw [← hs]
        right
        have hcr : s.cp.holdsRes = false := by
          have := hK.reserved
          rw [hpp] at this
          simp only [ne_eq, not_true_eq_false, decide_false, Bool.false_or] at this
          rw [← this]; simpa using hr
        refine ⟨hL.congr rfl rfl rfl hprog.symm rfl rfl rfl, hK.shared, by simp [hcr], ?_, Or.inr hcr, hK.plan, fun _ => by simp⟩
        have := hK.pending
        rw [hpp] at this
        simpa using this
      · simp only [hn, Bool.false_eq_true, if_false, Option.some.injEq] at hs
        rcases linearize_inv c p0 c0 s false op rest _ _ hL (by simpa using hprog) hsim with hb | ⟨l1, l2, l3, l4, l5, l6, l7, l8⟩
        · rw [← hs]; exact Or.inl hb
        · rw [← hs]
          right
          refine ⟨l1, KInv_after_producer c s _ op hop hK hL.qinv l1.qinv l2 l5 (by simpa using l7) ⟨_, l8⟩
            (by rw [l3]) (by rw [l3, l4, l5]; exact hK.reserved) (by rw [l3, l4, l5]; exact hK.pending)
            (by rw [l4, l5]; exact hK.excl) (fun h => by rw [l4, hpp] at h; exact absurd rfl h)⟩
    | active =>
      rw [hpp] at hs
      simp only [Option.some.injEq] at hs
      rw [← hs]
      right
      have hcr : s.cp.holdsRes = false := by
        rcases hK.excl with h | h
        · rw [hpp] at h; cases h
        · exact h
      have hcp : s.cp.isPending = false := by
        cases hc : s.cp <;> simp [CPc.isPending] <;> (rw [hc] at hcr; simp [CPc.holdsRes] at hcr)
      refine ⟨hL.congr rfl rfl rfl hprog.symm rfl rfl rfl, hK.shared, ?_, by simp, Or.inr hcr, hK.plan, fun _ => by simp⟩
      have := hK.reserved
      rw [hpp] at this
      simpa using this
    | pending =>
      rw [hpp] at hs
      simp only at hs
      by_cases hsh : s.lock.shared ≠ 0
      · simp [hsh] at hs
      simp only [hsh, if_false, Option.some.injEq] at hs
      have hcr : s.cp.holdsRes = false := by
        rcases hK.excl with h | h
        · rw [hpp] at h; cases h
        · exact h
      have hcp : s.cp.isPending = false := by
        cases hc : s.cp <;> simp [CPc.isPending] <;> (rw [hc] at hcr; simp [CPc.holdsRes] at hcr)
      let s1 : CState := { s with lock := { s.lock with pending := false, reserved := false }, pp := .idle, progP := op :: rest }
      have hL1 : LInv c p0 c0 s1 := hL.congr rfl rfl rfl hprog.symm rfl rfl rfl
      rcases linearize_inv c p0 c0 s1 false op rest _ _ hL1 rfl hsim with hb | ⟨l1, l2, l3, l4, l5, l6, l7, l8⟩
      · rw [← hs]; exact Or.inl hb
      · rw [← hs]
        right
        refine ⟨l1, KInv_after_producer c s _ op hop hK hL.qinv l1.qinv l2 l5 (by simpa using l7) ⟨_, l8⟩
          (by rw [l3]) (by rw [l3, l4, l5]; simp [s1, hcr]) (by rw [l3, l4, l5]; simp [s1, hcp])
          (by rw [l4]; exact Or.inl rfl) (fun h => by rw [l4] at h; exact absurd rfl h)⟩

/-! ## consumer steps -/

theorem spec_inRead (a a' : ASpec) (op : QOp) (fl : Bool) (o : QOut) (h : a.step op fl = some (a', o)) :
    a'.inRead = match op with
      | .rbegin => true
      | .rdone => false
      | .reopen => false
      | _ => a.inRead := by
  cases op <;> simp only [ASpec.step, ASpec.doFlush] at h <;> (repeat' split at h) <;>
    simp only [Option.some.injEq, Prod.mk.injEq, reduceCtorEq] at h <;>
    (try (obtain ⟨h1, _⟩ := h; subst h1; simp_all))

theorem KInv_after_consumer_idle (c : QCfg) (s s' : CState) (hK : KInv c s) (hcp : s.cp = .idle)
    (e1 : s'.cp = s.cp) (e2 : s'.pp = s.pp) (e3 : s'.lock.reserved = s.lock.reserved)
    (e4 : s'.lock.pending = s.lock.pending) (e5 : s'.progP = s.progP)
    (hsh : s'.lock.shared = if s'.q.r.inTx then 1 else 0) : KInv c s' := by
  refine ⟨hsh, by rw [e3, e1, e2]; exact hK.reserved, by rw [e4, e1, e2]; exact hK.pending,
    Or.inr (by rw [e1, hcp]; rfl), ?_, by rw [e2, e5]; exact hK.ppc⟩
  intro p hp
  rw [e1, hcp] at hp
  cases hp

/-- a consumer call without transaction of its own, taking effect in `s` with the lock state `lk` -/
theorem consumer_atomic_inv (c : QCfg) (hP : 64 ≤ c.P) (p0 c0 : List QOp) (s : CState) (lk : LockSt) (op : QOp)
    (rest : List QOp) (hL : LInv c p0 c0 s) (hK : KInv c s) (hcp : s.cp = .idle) (hprog : s.progC = op :: rest)
    (hop : op.isConsumer = true)
    (e3 : lk.reserved = s.lock.reserved) (e4 : lk.pending = s.lock.pending)
    (hsh : ∀ a' o', s.a.step op (s.q.autoFlush c op) = some (a', o') → lk.shared = if a'.inRead then 1 else 0) :
    CInv c p0 c0 (({ s with lock := lk, cp := .idle, progC := op :: rest } : CState).linearize c true op (s.q.step c op).1 (s.q.step c op).2) := by
  have hL1 : LInv c p0 c0 ({ s with lock := lk, cp := .idle, progC := op :: rest } : CState) := hL.congr rfl rfl rfl rfl hprog.symm rfl rfl
  have hsim : ∀ a' o', s.a.stepL true op (s.q.autoFlush c op) = some (a', o') →
      (s.q.step c op).2 = o' ∧ QInv c (s.q.step c op).1 a' := by
    intro a' o' h
    simp only [ASpec.stepL, if_true, hop] at h
    exact queue_sim_step c hP s.q s.a a' o' op hL.qinv h
  rcases linearize_inv c p0 c0 _ true op rest _ _ hL1 rfl hsim with hb | ⟨l1, l2, l3, l4, l5, l6, l7, l8⟩
  · exact Or.inl hb
  · right
    simp only [ASpec.stepL, if_true, hop] at l8
    refine ⟨l1, KInv_after_consumer_idle c s _ hK hcp (by rw [l5, hcp]) (by rw [l4]) (by rw [l3]; exact e3) (by rw [l3]; exact e4) (by simpa using l6) ?_⟩
    rw [l3]
    simp only
    rw [hsh _ _ l8, l1.qinv.r.inTx]

theorem CState.eta_progC (s : CState) (op : QOp) (rest : List QOp) (h : s.progC = op :: rest) (hc : s.cp = .idle) :
    s = { s with lock := s.lock, cp := .idle, progC := op :: rest } := by
  cases s; simp only at h hc; subst h hc; rfl

theorem stepC_inv (c : QCfg) (hP : 64 ≤ c.P) (p0 c0 : List QOp) (s s' : CState)
    (hL : LInv c p0 c0 s) (hK : KInv c s) (hs : s.stepC c = some s') : CInv c p0 c0 s' := by
  simp only [CState.stepC] at hs
  cases hprog : s.progC with
  | nil => rw [hprog] at hs; cases hs
  | cons op rest =>
    rw [hprog] at hs
    simp only at hs
    by_cases hop' : op.isConsumer = false
    · simp only [hop', Bool.not_false, if_true, Option.some.injEq] at hs
      rw [← hs]; exact Or.inl rfl
    have hop : op.isConsumer = true := by simpa using hop'
    simp only [hop, Bool.not_true, Bool.false_eq_true, if_false] at hs
    have hin := hL.qinv.r.inTx
    cases hcp : s.cp with
    | idle =>
      rw [hcp] at hs
      simp only at hs
      -- the calls without a transaction of their own, in the current lock state
      have heta := CState.eta_progC s op rest hprog hcp
      have plain : ∀ (hsame : ∀ a' o', s.a.step op (s.q.autoFlush c op) = some (a', o') → a'.inRead = s.a.inRead),
          CInv c p0 c0 (s.linearize c true op (s.q.step c op).1 (s.q.step c op).2) := by
        intro hsame
        have := consumer_atomic_inv c hP p0 c0 s s.lock op rest hL hK hcp hprog hop rfl rfl
          (fun a' o' h => by rw [hsame a' o' h, ← hin]; exact hK.shared)
        rw [← heta] at this
        exact this
      cases op with
      | write p => simp [QOp.isConsumer] at hop
      | next => simp [QOp.isConsumer] at hop
      | flush => simp [QOp.isConsumer] at hop
      | reopen => simp [QOp.isConsumer] at hop
      | rbegin =>
        simp only at hs
        by_cases hit : s.q.r.inTx = true
        · simp only [hit, if_true, Option.some.injEq] at hs
          rw [← hs]
          exact plain (fun a' o' h => by
            have := spec_inRead _ _ _ _ _ h
            simp only at this
            rw [this, ← hin, hit])
        · simp only [hit, Bool.false_eq_true, if_false] at hs
          by_cases hpd : s.lock.pending = true
          · simp [hpd] at hs
          rw [if_neg hpd] at hs
          simp only [Option.some.injEq] at hs
          rw [← hs]
          have hsh0 : s.lock.shared = 0 := by rw [hK.shared]; simp [hit]
          exact consumer_atomic_inv c hP p0 c0 s { s.lock with shared := s.lock.shared + 1 } .rbegin rest hL hK hcp hprog hop rfl rfl
            (fun a' o' h => by
              have := spec_inRead _ _ _ _ _ h
              simp only at this
              simp [this, hsh0])
      | rdone =>
        simp only [Option.some.injEq] at hs
        rw [← hs]
        exact consumer_atomic_inv c hP p0 c0 s { s.lock with shared := if s.q.r.inTx then s.lock.shared - 1 else s.lock.shared } .rdone rest hL hK hcp hprog hop rfl rfl
          (fun a' o' h => by
            have := spec_inRead _ _ _ _ _ h
            simp only at this
            rw [this]
            simp only [hK.shared]
            cases s.q.r.inTx <;> simp)
      | counters =>
        simp only at hs
        by_cases hit : s.q.r.inTx = true
        · simp only [hit, if_true, Option.some.injEq] at hs
          rw [← hs]; exact Or.inl rfl
        simp only [hit, Bool.false_eq_true, if_false] at hs
        by_cases hpd : s.lock.pending = true
        · simp [hpd] at hs
        simp only [hpd, Bool.false_eq_true, if_false, Option.some.injEq] at hs
        rw [← hs]
        exact plain (fun a' o' h => by have := spec_inRead _ _ _ _ _ h; simpa using this)
      | available =>
        simp only [Option.some.injEq] at hs
        rw [← hs]
        exact plain (fun a' o' h => by have := spec_inRead _ _ _ _ _ h; simpa using this)
      | rnext =>
        simp only [Option.some.injEq] at hs
        rw [← hs]
        exact plain (fun a' o' h => by have := spec_inRead _ _ _ _ _ h; simpa using this)
      | rread k =>
        simp only [Option.some.injEq] at hs
        rw [← hs]
        exact plain (fun a' o' h => by have := spec_inRead _ _ _ _ _ h; simpa using this)
      | ack n =>
        simp only at hs
        by_cases hn : n = 0
        · simp only [hn, if_true, Option.some.injEq] at hs
          rw [← hs, ← hn]
          exact plain (fun a' o' h => by have := spec_inRead _ _ _ _ _ h; simpa using this)
        simp only [hn, if_false] at hs
        by_cases hit : s.q.r.inTx = true
        · simp only [hit, if_true, Option.some.injEq] at hs
          rw [← hs]; exact Or.inl rfl
        simp only [hit, Bool.false_eq_true, if_false] at hs
        by_cases hpd : s.lock.pending = true
        · simp [hpd] at hs
        simp only [hpd, Bool.false_eq_true, if_false] at hs
        cases hpl : s.q.ackPlanI c n with
        | error e =>
          rw [hpl] at hs
          simp only [Option.some.injEq] at hs
          rw [← hs]
          -- the sequential `ack` returns this error and leaves the state alone
          have hdec := ack_decomp c s.q n hn
          rw [hpl] at hdec
          have hstep : s.q.step c (.ack n) = (s.q, .err e) := hdec
          have := plain (fun a' o' h => by have := spec_inRead _ _ _ _ _ h; simpa using this)
          rw [hstep] at this
          exact this
        | ok p =>
          rw [hpl] at hs
          simp only at hs
          by_cases hnone : (s.a.stepL true (.ack n) false).isNone = true
          · simp only [hnone, if_true, Option.some.injEq] at hs
            rw [← hs]; exact Or.inl rfl
          simp only [hnone, Bool.false_eq_true, if_false, Option.some.injEq] at hs
          rw [← hs]
          right
          have hplan := planOK_init c hP s.q s.a n p hL.qinv hn hpl
          -- the contract, from the accepted specification step
          have hsome : ∃ r, s.a.step (.ack n) false = some r := by
            simp only [ASpec.stepL, if_true, QOp.isConsumer] at hnone
            cases h : s.a.step (.ack n) false with
            | none => rw [h] at hnone; simp at hnone
            | some r => exact ⟨r, rfl⟩
          obtain ⟨r, hr⟩ := hsome
          have hle := hplan.hle
          have hcontract : s.a.inRead = false ∧ s.a.acked + n ≤ s.a.consumed + (if s.a.left = 0 then 0 else 1) := by
            simp only [ASpec.step, hn, if_false] at hr
            have hF0 : s.a.flushed ≠ 0 := by omega
            have hmany : ¬ n > s.a.flushed - s.a.acked := by omega
            simp only [hF0, hmany, if_false] at hr
            by_cases hrd : s.a.inRead = true
            · simp [hrd] at hr
            have hrd' : s.a.inRead = false := by simpa using hrd
            simp only [hrd', Bool.false_eq_true, if_false] at hr
            by_cases hcon : s.a.acked + n > s.a.consumed + (if s.a.left = 0 then 0 else 1)
            · simp [hcon] at hr
            exact ⟨hrd', by omega⟩
          refine ⟨hL.congr rfl rfl rfl rfl hprog.symm rfl rfl, hK.shared, ?_, ?_, Or.inr rfl, ?_, hK.ppc⟩
          · have := hK.reserved; rw [hcp] at this; simpa [CPc.holdsRes] using this
          · have := hK.pending; rw [hcp] at this; simpa [CPc.isPending] using this
          · intro p' hp'
            simp only [CPc.plan?, Option.some.injEq] at hp'
            subst hp'
            exact ⟨n, rest, rfl, hplan, hcontract.1, hcontract.2⟩
    | planned p =>
      rw [hcp] at hs
      simp only at hs
      by_cases hr : s.lock.reserved = true
      · simp [hr] at hs
      simp only [hr, Bool.false_eq_true, if_false, Option.some.injEq] at hs
      rw [← hs]
      right
      have hppi : s.pp = .idle := by
        have := hK.reserved
        rw [hcp] at this
        simp only [CPc.holdsRes, Bool.or_false] at this
        cases hpp : s.pp <;> simp_all
      obtain ⟨n, rest', h1, h2, h3, h4⟩ := hK.plan p (by rw [hcp]; rfl)
      refine ⟨hL.congr rfl rfl rfl rfl hprog.symm rfl rfl, hK.shared, by simp [CPc.holdsRes], ?_, Or.inl hppi, ?_, hK.ppc⟩
      · have := hK.pending; rw [hcp] at this; simpa [CPc.isPending] using this
      · intro p' hp'
        simp only [CPc.plan?, Option.some.injEq] at hp'
        subst hp'
        rw [hprog] at h1
        exact ⟨n, rest', h1, h2, h3, h4⟩
    | active p =>
      rw [hcp] at hs
      simp only [Option.some.injEq] at hs
      rw [← hs]
      right
      have hppi : s.pp = .idle := by
        rcases hK.excl with h | h
        · exact h
        · rw [hcp] at h; simp [CPc.holdsRes] at h
      obtain ⟨n, rest', h1, h2, h3, h4⟩ := hK.plan p (by rw [hcp]; rfl)
      refine ⟨hL.congr rfl rfl rfl rfl hprog.symm rfl rfl, hK.shared, ?_, by simp [CPc.isPending], Or.inl hppi, ?_, hK.ppc⟩
      · have := hK.reserved; rw [hcp] at this; simpa [CPc.holdsRes] using this
      · intro p' hp'
        simp only [CPc.plan?, Option.some.injEq] at hp'
        subst hp'
        rw [hprog] at h1
        exact ⟨n, rest', h1, h2, h3, h4⟩
    | pending p =>
      rw [hcp] at hs
      simp only at hs
      by_cases hsh : s.lock.shared ≠ 0
      · simp [hsh] at hs
      simp only [hsh, if_false] at hs
      have hppi : s.pp = .idle := by
        rcases hK.excl with h | h
        · exact h
        · rw [hcp] at h; simp [CPc.holdsRes] at h
      obtain ⟨n, rest', h1, h2, h3, h4⟩ := hK.plan p (by rw [hcp]; rfl)
      rw [hprog] at h1
      simp only [List.cons.injEq] at h1
      obtain ⟨h1a, h1b⟩ := h1
      subst h1a
      simp only [Option.some.injEq] at hs
      let s1 : CState := { s with lock := { s.lock with pending := false, reserved := false }, cp := .idle, progC := .ack n :: rest }
      have hL1 : LInv c p0 c0 s1 := hL.congr rfl rfl rfl rfl hprog.symm rfl rfl
      have hsim : ∀ a' o', s1.a.stepL true (.ack n) (s1.q.autoFlush c (.ack n)) = some (a', o') →
          QOut.ok = o' ∧ QInv c (s.q.ackApply n p) a' := by
        intro a' o' h
        simp only [ASpec.stepL, if_true, QOp.isConsumer] at h
        obtain ⟨g1, g2⟩ := sim_ackApply c s.q s.a a' o' _ n p hL.qinv h2 h
        exact ⟨g1.symm, g2⟩
      rcases linearize_inv c p0 c0 s1 true (.ack n) rest _ _ hL1 rfl hsim with hb | ⟨l1, l2, l3, l4, l5, l6, l7, l8⟩
      · rw [← hs]; exact Or.inl hb
      · rw [← hs]
        right
        refine ⟨l1, ?_, ?_, ?_, Or.inr (by rw [l5]; rfl), ?_, fun h => by rw [l4] at h; exact absurd hppi h⟩
        · rw [l3, l2]; exact hK.shared
        · rw [l3, l4, l5]; simp [s1, hppi, CPc.holdsRes]
        · rw [l3, l4, l5]; simp [s1, hppi, CPc.isPending]
        · intro p' hp'; rw [l5] at hp'; cases hp'

/-- **Every step keeps the invariant.** -/
theorem step_inv (c : QCfg) (hP : 64 ≤ c.P) (p0 c0 : List QOp) (s s' : CState) (t : Bool)
    (h : CInv c p0 c0 s) (hs : s.step c t = some s') : CInv c p0 c0 s' := by
  simp only [CState.step] at hs
  by_cases hb : s.bad = true
  · simp [hb] at hs
  simp only [hb, Bool.false_eq_true, if_false] at hs
  rcases h with h | ⟨hL, hK⟩
  · exact absurd h hb
  cases t with
  | true => exact stepC_inv c hP p0 c0 s s' hL hK hs
  | false => exact stepP_inv c hP p0 c0 s s' hL hK hs

end TxVerif
