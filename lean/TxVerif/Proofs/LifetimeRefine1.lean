/-
  The commit-level refinement of the engine model for committed states at ANY point of a file lifetime:
  overflow area in use, end markers above the limit (Proofs/RefineOv1.lean), and also after the page limit was
  LOWERED (`shrinkFile`): live pages, free data pages and the data end marker may lie at or beyond the limit.

  Third run of Proofs/Refine.lean, namespace `TxVerif.U` (same names; definitions that do not depend on the
  invariants are the originals). Differences to `TxVerif.Ov`:
    `U.AOK`    : no clause about the limit; `dfM`: every free data page lies below the meta end marker
    `U.EngInv` : no `liveLim`, no `wf.limit`, no `ends`; `2 ≤ x` is kept for data pages only
                 (the conditional `hdr` clauses of `Ov.EngInv` are dropped: they are not stable under limit changes)
    `U.TxInv`  : the pages the client owns lie below the DATA END MARKER (`curOk`, `dfreed`) instead of below the limit
  New: `dm_*` — no allocator operation except `dataFree` lowers the data end marker, and `dataFree` only cuts off
  free pages (`fr_dataFree`).
  Part 1 (this file): frames, invariants, every operation inside a transaction, abort. Part 2: LifetimeRefine2.lean.
-/
import TxVerif.Proofs.RefineOv1
import TxVerif.Proofs.LifetimeRollback
namespace TxVerif.U

/-! ### pages in use: the frame of the allocator operations -/


/-- allocator facts that hold at every point inside a transaction, at any point of a file lifetime: nothing
    relates the data area to the page limit. `dfM`: every free data page lies below the meta end marker (the
    data end marker may lie above it after a partial release of the overflow area). -/
structure AOK (a : Alloc) : Prop where
  ascD : Asc a.data.free
  ascM : Asc a.mta.free
  dRange : ∀ x ∈ a.data.free, 2 ≤ x ∧ x < a.data.endMarker
  mOK : ∀ x ∈ a.mta.free, x ∉ a.data.free ∧ x < a.mta.endMarker ∧
    (x < a.data.endMarker ∨ (0 < a.maxPages ∧ a.maxPages ≤ x))
  dfM : ∀ x ∈ a.data.free, x < a.mta.endMarker
  dEnd : 2 ≤ a.data.endMarker

theorem fr_regions (a : Alloc) (st : TxAlloc) (n : Nat) (a' : Alloc) (st' : TxAlloc) (ids : List Nat)
    (hok : AOK a) (h : dataAllocRegions a st n = some (a', st', ids)) :
    AOK a' ∧ (∀ x, InUse a x → InUse a' x) ∧
    (∀ x ∈ ids, ¬ InUse a x ∧ InUse a' x ∧ 2 ≤ x ∧ x < a'.data.endMarker) := by
  obtain ⟨k, rest, hk, hn, hrest, hlim, -, hids, e1, e2, e3, e4, e5, -, -, -, -⟩ :=
    dataAllocRegions_spec a st n a' st' ids h
  have htd := take_lt_drop a.data.free k hok.ascD
  have hme : a.mta.endMarker ≤ a'.mta.endMarker := by rw [e4]; split <;> omega
  have hme2 : 0 < rest → a.data.endMarker + rest ≤ a'.mta.endMarker := by
    intro hp; rw [e4]; simp only [hp, if_true]; omega
  refine ⟨⟨?_, ?_, ?_, ?_, ?_, ?_⟩, ?_, ?_⟩
  · rw [e1]; exact asc_drop _ _ hok.ascD
  · rw [e3]; exact hok.ascM
  · intro x hx; rw [e1] at hx; rw [e2]
    have := hok.dRange x (List.mem_of_mem_drop hx); omega
  · intro x hx; rw [e3] at hx; rw [e1, e2, e5]
    have := hok.mOK x hx
    exact ⟨fun hd => this.1 (List.mem_of_mem_drop hd), by omega, by omega⟩
  · rw [e1]; intro x hx; have := hok.dfM x (List.mem_of_mem_drop hx); omega
  · rw [e2]; have := hok.dEnd; omega
  · intro x ⟨h1, h2, h3, h4⟩
    refine ⟨?_, by rw [e3]; exact h2, by omega, by rw [e2, e5]; omega⟩
    rw [e1]; exact fun hd => h1 (List.mem_of_mem_drop hd)
  · intro x hx
    subst hids
    rw [List.mem_append, mem_idRange] at hx
    rcases hx with hx | hx
    · have hf := List.mem_of_mem_take hx
      have hr := hok.dRange x hf
      have hl := hok.dfM x hf
      refine ⟨fun hu => hu.1 hf, ⟨?_, ?_, by omega, by rw [e2]; omega⟩, hr.1, by rw [e2]; omega⟩
      · rw [e1]; intro hd; have := htd x hx x hd; omega
      · rw [e3]; intro hm; exact (hok.mOK x hm).1 hf
    · have hp : 0 < rest := by omega
      have := hme2 hp
      refine ⟨?_, ⟨?_, ?_, by omega, by rw [e2]; omega⟩, by have := hok.dEnd; omega, by rw [e2]; omega⟩
      · intro hu; have := hu.2.2.2; omega
      · rw [e1]; intro hd; have := hok.dRange x (List.mem_of_mem_drop hd); omega
      · rw [e3]; intro hm; have := (hok.mOK x hm).2.2; omega

theorem fr_transfer (a : Alloc) (st : TxAlloc) (ids : List Nat) (hok : AOK a) (hids : ∀ x ∈ ids, InUse a x) :
    AOK (transferToMeta a st ids).1 ∧
    ∀ x, InUse a x → x ∉ ids → InUse (transferToMeta a st ids).1 x := by
  unfold transferToMeta
  refine ⟨⟨hok.ascD, asc_unionIds _ _ hok.ascM, hok.dRange, ?_, hok.dfM, hok.dEnd⟩, ?_⟩
  · intro x hx
    dsimp only at hx ⊢
    rw [mem_unionIds] at hx
    rcases hx with hx | hx
    · have := hids x hx; exact ⟨this.1, this.2.2.1, this.2.2.2⟩
    · exact hok.mOK x hx
  · intro x hu hx
    refine ⟨hu.1, ?_, hu.2.2.1, hu.2.2.2⟩
    dsimp only
    rw [mem_unionIds]
    exact fun h => h.elim hx hu.2.1

theorem fr_continuous (a : Alloc) (st : TxAlloc) (n : Nat) (a' : Alloc) (st' : TxAlloc) (ids : List Nat)
    (hok : AOK a) (h : dataAllocContinuous a st n = some (a', st', ids)) :
    AOK a' ∧ (∀ x, InUse a x → InUse a' x) ∧ (∀ x ∈ ids, ¬ InUse a x ∧ InUse a' x) := by
  unfold dataAllocContinuous at h
  by_cases hav : a.dataAvail < n
  · rw [if_pos hav] at h; cases h
  rw [if_neg hav] at h
  cases hc : allocContinuous a.data.free n with
  | some p =>
      obtain ⟨taken, rest⟩ := p
      rw [hc] at h
      simp only [Option.some.injEq, Prod.mk.injEq] at h
      obtain ⟨ha, -, hids⟩ := h
      subst ha hids
      obtain ⟨-, hsub, hrest, hasc⟩ := allocContinuous_spec a.data.free n hok.ascD taken rest hc
      refine ⟨⟨hasc, hok.ascM, ?_, ?_, fun x hx => hok.dfM x ((hrest x).mp hx).1, hok.dEnd⟩, ?_, ?_⟩
      · intro x hx; exact hok.dRange x ((hrest x).mp hx).1
      · intro x hx
        have := hok.mOK x hx
        exact ⟨fun hd => this.1 ((hrest x).mp hd).1, this.2⟩
      · intro x hu
        exact ⟨fun hd => hu.1 ((hrest x).mp hd).1, hu.2⟩
      · intro x hx
        have hf := hsub x hx
        have hr := hok.dRange x hf
        have hl := hok.dfM x hf
        refine ⟨fun hu => hu.1 hf, ?_, ?_, by dsimp only; omega, Or.inl hr.2⟩
        · exact fun hd => ((hrest x).mp hd).2 hx
        · exact fun hm => (hok.mOK x hm).1 hf
  | none =>
      simp only [hc] at h
      by_cases hroom : a.maxPages > 0 ∧ (if a.data.endMarker < a.maxPages then a.maxPages - a.data.endMarker else 0) < n
      · rw [if_pos hroom] at h; cases h
      · rw [if_neg hroom] at h
        simp only [Option.some.injEq, Prod.mk.injEq] at h
        obtain ⟨ha, -, hids⟩ := h
        subst ha hids
        have hlim : a.maxPages = 0 ∨ n = 0 ∨ a.data.endMarker + n ≤ a.maxPages := by
          by_cases hm : a.maxPages = 0
          · exact Or.inl hm
          · right
            have hm' : a.maxPages > 0 := by omega
            simp only [hm', true_and] at hroom
            split at hroom <;> omega
        have hd := hok.dEnd
        refine ⟨⟨?_, ?_, ?_, ?_, ?_, ?_⟩, ?_, ?_⟩
        all_goals try simp only [bumpMetaEnd_data, bumpMetaEnd_mta_free, bumpMetaEnd_mta_end, bumpMetaEnd_maxPages]
        · exact hok.ascD
        · exact hok.ascM
        · intro x hx; have := hok.dRange x hx; omega
        · intro x hx; have := hok.mOK x hx; exact ⟨this.1, by omega, by omega⟩
        · intro x hx; have := hok.dfM x hx; omega
        · omega
        · intro x hu
          unfold InUse
          simp only [bumpMetaEnd_data, bumpMetaEnd_mta_free, bumpMetaEnd_mta_end, bumpMetaEnd_maxPages]
          exact ⟨hu.1, hu.2.1, by have := hu.2.2.1; omega, by have := hu.2.2.2; omega⟩
        · intro x hx
          rw [mem_idRange] at hx
          unfold InUse
          simp only [bumpMetaEnd_data, bumpMetaEnd_mta_free, bumpMetaEnd_mta_end, bumpMetaEnd_maxPages]
          refine ⟨fun hu => by have := hu.2.2.2; omega, ?_, ?_, by omega, by omega⟩
          · intro hf; have := hok.dRange x hf; omega
          · intro hm; have := (hok.mOK x hm).2.2; omega

theorem fr_ovStep (a : Alloc) (st : TxAlloc) (req : Nat) (hok : AOK a)
    (hfull : a.maxPages = 0 ∨ a.maxPages ≤ a.data.endMarker) :
    AOK (ovStep a st req).1 ∧ ∀ x, InUse a x → InUse (ovStep a st req).1 x := by
  have e1 : (ovStep a st req).1.maxPages = a.maxPages := by unfold ovStep; dsimp only; split <;> rfl
  have e5 : (ovStep a st req).1.data.free = a.data.free := by unfold ovStep; dsimp only; split <;> rfl
  have e6 : (ovStep a st req).1.mta.free = unionIds (idRange a.mta.endMarker req) a.mta.free := by
    unfold ovStep; dsimp only; split <;> rfl
  have e7 : (ovStep a st req).1.mta.endMarker = a.mta.endMarker + req := by
    unfold ovStep; dsimp only; split <;> rfl
  have e8 : (ovStep a st req).1.data.endMarker =
      if a.maxPages = 0 ∧ a.data.endMarker < a.mta.endMarker + req then a.mta.endMarker + req
      else a.data.endMarker := by
    unfold ovStep; dsimp only; split <;> rfl
  have hge : a.data.endMarker ≤ (ovStep a st req).1.data.endMarker := by rw [e8]; split <;> omega
  have hd := hok.dEnd
  have hl := hok.dfM
  refine ⟨⟨?_, ?_, ?_, ?_, ?_, ?_⟩, ?_⟩
  · rw [e5]; exact hok.ascD
  · rw [e6]; exact asc_unionIds _ _ hok.ascM
  · intro x hx; rw [e5] at hx; have := hok.dRange x hx; omega
  · intro x hx
    rw [e6, mem_unionIds, mem_idRange] at hx
    rw [e5, e7, e1]
    rcases hx with hx | hx
    · refine ⟨?_, hx.2, ?_⟩
      · intro hf; have := hl x hf; omega
      · rw [e8]; split <;> omega
    · have := hok.mOK x hx
      exact ⟨this.1, by omega, by omega⟩
  · rw [e5, e7]; intro x hx; have := hl x hx; omega
  · omega
  · intro x hu
    refine ⟨by rw [e5]; exact hu.1, ?_, by rw [e7]; have := hu.2.2.1; omega, by rw [e1]; have := hu.2.2.2; omega⟩
    rw [e6, mem_unionIds, mem_idRange]
    intro h
    rcases h with h | h
    · have := hu.2.2.1; omega
    · exact hu.2.1 h

theorem regions_all_full (a : Alloc) (st : TxAlloc) (a1 : Alloc) (st1 : TxAlloc) (ids : List Nat) (hok : AOK a)
    (h : dataAllocRegions a st a.dataAvail = some (a1, st1, ids)) :
    a1.maxPages = 0 ∨ a1.maxPages ≤ a1.data.endMarker := by
  obtain ⟨k, rest, hk, hn, hrest, hlim, -, -, -, e2, -, -, e5, -⟩ := dataAllocRegions_spec a st _ a1 st1 ids h
  rw [e2, e5]
  by_cases hm : a.maxPages = 0
  · exact Or.inl hm
  · right
    unfold Alloc.dataAvail at hn
    simp only [hm, if_false] at hn
    split at hn <;> omega

theorem fr_tryGrow (a : Alloc) (st : TxAlloc) (count : Nat) (wo : Bool) (a' : Alloc) (st' : TxAlloc)
    (hok : AOK a) (hr : tryGrow a st count wo = some (a', st')) :
    AOK a' ∧ ∀ x, InUse a x → InUse a' x := by
  unfold tryGrow at hr
  dsimp only at hr
  by_cases hc0 : count = 0
  · rw [if_pos hc0] at hr
    simp only [Option.some.injEq, Prod.mk.injEq] at hr
    obtain ⟨ha, -⟩ := hr
    subst ha
    exact ⟨hok, fun _ h => h⟩
  · rw [if_neg hc0] at hr
    by_cases hav : a.dataAvail < count
    · rw [if_pos hav] at hr
      cases hwo : wo with
      | false => rw [hwo] at hr; simp at hr
      | true =>
        rw [hwo] at hr
        simp only [Bool.not_true, Bool.false_eq_true, if_false] at hr
        cases hreg : dataAllocRegions a st a.dataAvail with
        | none => rw [hreg] at hr; cases hr
        | some p =>
          obtain ⟨a1, st1, ids⟩ := p
          rw [hreg] at hr
          obtain ⟨hok1, hk1, hids⟩ := fr_regions a st _ a1 st1 ids hok hreg
          have hfull := regions_all_full a st a1 st1 ids hok hreg
          have h2 : AOK (if ids.isEmpty then (a1, st1) else transferToMeta a1 st1 ids).1 ∧
              (∀ x, InUse a x → InUse (if ids.isEmpty then (a1, st1) else transferToMeta a1 st1 ids).1 x) ∧
              ((if ids.isEmpty then (a1, st1) else transferToMeta a1 st1 ids).1.maxPages = 0 ∨
               (if ids.isEmpty then (a1, st1) else transferToMeta a1 st1 ids).1.maxPages ≤
               (if ids.isEmpty then (a1, st1) else transferToMeta a1 st1 ids).1.data.endMarker) := by
            split
            · exact ⟨hok1, hk1, hfull⟩
            · obtain ⟨t1, t2⟩ := fr_transfer a1 st1 ids hok1 (fun x hx => (hids x hx).2.1)
              exact ⟨t1, fun x hu => t2 x (hk1 x hu) (fun hx => (hids x hx).1 hu), hfull⟩
          obtain ⟨o1, o2⟩ := fr_ovStep _ (if ids.isEmpty then (a1, st1) else transferToMeta a1 st1 ids).2
            (count - a.dataAvail) h2.1 h2.2.2
          simp only [Option.some.injEq, Prod.mk.injEq] at hr
          obtain ⟨ha, -⟩ := hr
          rw [← ha]
          exact ⟨o1, fun x hu => o2 x (h2.2.1 x hu)⟩
    · rw [if_neg hav] at hr
      cases hcont : dataAllocContinuous a st count with
      | some p =>
        obtain ⟨a1, st1, ids⟩ := p
        rw [hcont] at hr
        simp only [Option.some.injEq] at hr
        obtain ⟨hok1, hk1, hids⟩ := fr_continuous a st count a1 st1 ids hok hcont
        obtain ⟨t1, t2⟩ := fr_transfer a1 st1 ids hok1 (fun x hx => (hids x hx).2)
        rw [hr] at t1 t2
        exact ⟨t1, fun x hu => t2 x (hk1 x hu) (fun hx => (hids x hx).1 hu)⟩
      | none =>
        rw [hcont] at hr
        cases hreg : dataAllocRegions a st count with
        | none => rw [hreg] at hr; cases hr
        | some p =>
          obtain ⟨a1, st1, ids⟩ := p
          rw [hreg] at hr
          simp only [Option.some.injEq] at hr
          obtain ⟨hok1, hk1, hids⟩ := fr_regions a st _ a1 st1 ids hok hreg
          obtain ⟨t1, t2⟩ := fr_transfer a1 st1 ids hok1 (fun x hx => (hids x hx).2.1)
          rw [hr] at t1 t2
          exact ⟨t1, fun x hu => t2 x (hk1 x hu) (fun hx => (hids x hx).1 hu)⟩

theorem fr_ensureMeta (a : Alloc) (st : TxAlloc) (n : Nat) (a' : Alloc) (st' : TxAlloc)
    (hok : AOK a) (hr : ensureMeta a st n = some (a', st')) :
    AOK a' ∧ ∀ x, InUse a x → InUse a' x := by
  unfold ensureMeta at hr
  dsimp only at hr
  split at hr
  · simp only [Option.some.injEq, Prod.mk.injEq] at hr
    obtain ⟨ha, -⟩ := hr
    subst ha
    exact ⟨hok, fun _ h => h⟩
  · split at hr
    · rename_i r hg
      simp only [Option.some.injEq] at hr
      subst hr
      exact fr_tryGrow a st _ _ a' st' hok hg
    · exact fr_tryGrow a st _ _ a' st' hok hr

/-- taking pages out of the meta free list -/
theorem fr_metaTake (a : Alloc) (ids rest : List Nat) (hok : AOK a) (hasc : Asc rest)
    (hmem : ∀ x, x ∈ a.mta.free ↔ x ∈ ids ∨ x ∈ rest) (hdisj : ∀ x ∈ ids, x ∉ rest) :
    AOK { a with mta := { a.mta with free := rest } } ∧
    (∀ x, InUse a x → InUse { a with mta := { a.mta with free := rest } } x) ∧
    (∀ x ∈ ids, ¬ InUse a x ∧ InUse { a with mta := { a.mta with free := rest } } x) := by
  refine ⟨⟨hok.ascD, hasc, hok.dRange, ?_, hok.dfM, hok.dEnd⟩, ?_, ?_⟩
  · intro x hx; exact hok.mOK x ((hmem x).mpr (Or.inr hx))
  · intro x hu
    exact ⟨hu.1, fun h => hu.2.1 ((hmem x).mpr (Or.inr h)), hu.2.2⟩
  · intro x hx
    have hf := (hmem x).mpr (Or.inl hx)
    have := hok.mOK x hf
    exact ⟨fun hu => hu.2.1 hf, this.1, hdisj x hx, this.2⟩

theorem fr_walAlloc (a : Alloc) (st : TxAlloc) (a' : Alloc) (st' : TxAlloc) (w : Nat)
    (hok : AOK a) (hr : walAlloc a st = some (a', st', w)) :
    AOK a' ∧ (∀ x, InUse a x → InUse a' x) ∧ ¬ InUse a w ∧ InUse a' w := by
  unfold walAlloc at hr
  split at hr
  · cases hr
  · rename_i a1 st1 he
    obtain ⟨hok1, hk1⟩ := fr_ensureMeta a st 1 a1 st1 hok he
    split at hr
    · rename_i id' rest hc
      simp only [Option.some.injEq, Prod.mk.injEq] at hr
      obtain ⟨ha, -, hw⟩ := hr
      subst ha hw
      obtain ⟨-, hsub, hrest, hasc⟩ := allocContinuous_spec a1.mta.free 1 hok1.ascM [id'] rest hc
      obtain ⟨t1, t2, t3⟩ := fr_metaTake a1 [id'] rest hok1 hasc (by
        intro x
        have h1 := hrest x
        have h2 := hsub x
        grind) (by intro x hx hr; exact ((hrest x).mp hr).2 hx)
      have t4 := t3 id' (by simp)
      exact ⟨t1, fun x hu => t2 x (hk1 x hu), fun hu => t4.1 (hk1 _ hu), t4.2⟩
    · cases hr

theorem fr_metaAllocRegions (a : Alloc) (st : TxAlloc) (n : Nat) (a' : Alloc) (st' : TxAlloc) (ids : List Nat)
    (hok : AOK a) (hr : metaAllocRegions a st n = some (a', st', ids)) :
    AOK a' ∧ (∀ x, InUse a x → InUse a' x) ∧ (∀ x ∈ ids, ¬ InUse a x ∧ InUse a' x) ∧ ids.Nodup := by
  unfold metaAllocRegions at hr
  split at hr
  · cases hr
  · rename_i a1 st1 he
    obtain ⟨hok1, hk1⟩ := fr_ensureMeta a st n a1 st1 hok he
    dsimp only at hr
    split at hr
    · cases hr
    · simp only [Option.some.injEq, Prod.mk.injEq] at hr
      obtain ⟨ha, -, hids⟩ := hr
      subst ha hids
      obtain ⟨t1, t2, t3⟩ := fr_metaTake a1 (a1.mta.free.drop (a1.mta.free.length - min n a1.mta.free.length))
        (a1.mta.free.take (a1.mta.free.length - min n a1.mta.free.length)) hok1 (asc_take _ _ hok1.ascM) (by
        intro x
        have := mem_take_or_drop a1.mta.free (a1.mta.free.length - min n a1.mta.free.length) x
        grind) (by
        intro x hx hx2
        exact take_drop_disjoint _ _ hok1.ascM x hx2 hx)
      exact ⟨t1, fun x hu => t2 x (hk1 x hu), fun x hx => ⟨fun hu => (t3 x hx).1 (hk1 x hu), (t3 x hx).2⟩,
        asc_nodup _ (asc_drop _ _ hok1.ascM)⟩

theorem fr_shrink (a : Alloc) (e0 m0 s c : Nat) (hok : AOK a) (he0 : e0 ≤ a.data.endMarker)
    (hl : lastRun a.data.free = some (s, c)) (he : ¬ s + c < a.data.endMarker) :
    AOK { a with
        data := { endMarker := if e0 > s then e0 else s,
                  free := removeRange a.data.free (if e0 > s then e0 else s) (s + c) },
        mta := { a.mta with
                 endMarker := if a.mta.endMarker = a.data.endMarker then max (if e0 > s then e0 else s) m0
                              else a.mta.endMarker } } ∧
    (∀ x, InUse a x → InUse { a with
        data := { endMarker := if e0 > s then e0 else s,
                  free := removeRange a.data.free (if e0 > s then e0 else s) (s + c) },
        mta := { a.mta with
                 endMarker := if a.mta.endMarker = a.data.endMarker then max (if e0 > s then e0 else s) m0
                              else a.mta.endMarker } } x) ∧
    (∀ x, x < a.data.endMarker → x ∉ a.data.free → x < (if e0 > s then e0 else s)) := by
  obtain ⟨hc, hrun⟩ := lastRun_spec a.data.free hok.ascD s c hl
  have hs : s ∈ a.data.free := hrun s (Nat.le_refl _) (by omega)
  have hsr := hok.dRange s hs
  generalize hstart : (if e0 > s then e0 else s) = start
  have hst2 : s ≤ start := by rw [← hstart]; split <;> omega
  have hst3 : start ≤ a.data.endMarker := by rw [← hstart]; split <;> omega
  have hl := hok.dfM
  -- a page below the old end marker that is not free lies below the new end marker
  have key : ∀ x, x < a.data.endMarker → x ∉ a.data.free → x < start := by
    intro x h1 h2
    by_cases hx : s ≤ x
    · exact absurd (hrun x hx (by omega)) h2
    · omega
  refine ⟨⟨asc_removeRange _ _ _ hok.ascD, hok.ascM, ?_, ?_, ?_, ?_⟩, ?_, key⟩
  all_goals dsimp only
  · intro x hx
    rw [mem_removeRange] at hx
    have := hok.dRange x hx.1
    omega
  · intro x hx
    have h1 := hok.mOK x hx
    refine ⟨fun hr => h1.1 ((mem_removeRange _ _ _ _).mp hr).1, ?_, ?_⟩
    · split
      · rename_i heq
        have : x < start := key x (by omega) h1.1
        omega
      · exact h1.2.1
    · rcases h1.2.2 with h | h
      · exact Or.inl (key x h h1.1)
      · exact Or.inr h
  · intro x hx
    rw [mem_removeRange] at hx
    have h1 := hl x hx.1
    have h2 := hok.dRange x hx.1
    split
    · have : x < start := by omega
      omega
    · exact h1
  · omega
  · intro x hu
    refine ⟨fun hr => hu.1 ((mem_removeRange _ _ _ _).mp hr).1, hu.2.1, ?_, ?_⟩
    all_goals dsimp only
    · split
      · rename_i heq
        have : x < start := key x (by have := hu.2.2.1; omega) hu.1
        omega
      · exact hu.2.2.1
    · rcases hu.2.2.2 with h | h
      · exact Or.inl (key x h hu.1)
      · exact Or.inr h

theorem fr_freeInsert (a : Alloc) (id : Nat) (hok : AOK a) (hu : InUse a id) (h2 : 2 ≤ id)
    (hlt : id < a.data.endMarker) :
    AOK { a with data := { a.data with free := insertId id a.data.free } } ∧
    ∀ x, InUse a x → x ≠ id → InUse { a with data := { a.data with free := insertId id a.data.free } } x := by
  refine ⟨⟨asc_insertId _ _ hok.ascD, hok.ascM, ?_, ?_, ?_, hok.dEnd⟩, ?_⟩
  · intro x hx
    rcases (mem_insertId id x _).mp hx with e | e
    · subst e; exact ⟨h2, hlt⟩
    · exact hok.dRange x e
  · intro x hx
    have h1 := hok.mOK x hx
    refine ⟨?_, h1.2⟩
    intro hi
    rcases (mem_insertId id x _).mp hi with e | e
    · subst e; exact hu.2.1 hx
    · exact h1.1 e
  · intro x hx
    rcases (mem_insertId id x _).mp hx with e | e
    · rw [e]; exact hu.2.2.1
    · exact hok.dfM x e
  · intro x hx hne
    refine ⟨?_, hx.2⟩
    intro hi
    rcases (mem_insertId id x _).mp hi with e | e
    · exact hne e
    · exact hx.1 e

theorem fr_dataFree (a : Alloc) (st : TxAlloc) (id : Nat) (hok : AOK a) (hu : InUse a id) (h2 : 2 ≤ id)
    (hlt : id < a.data.endMarker) (he0 : st.data.end0 ≤ a.data.endMarker) :
    AOK (dataFree a st id).1 ∧ (∀ x, InUse a x → x ≠ id → InUse (dataFree a st id).1 x) ∧
    (∀ x, x < a.data.endMarker → x ∉ a.data.free → x ≠ id → x < (dataFree a st id).1.data.endMarker) := by
  rw [dataFree_eq]
  unfold dataFreeCore
  dsimp only
  obtain ⟨hi1, hi2⟩ := fr_freeInsert a id hok hu h2 hlt
  split
  · exact ⟨hok, fun x h _ => h, fun x h _ _ => h⟩
  · split
    · exact ⟨hi1, hi2, fun x h _ _ => h⟩
    · split
      · exact ⟨hi1, hi2, fun x h _ _ => h⟩
      · rename_i s c hl
        split
        · exact ⟨hi1, hi2, fun x h _ _ => h⟩
        · rename_i hne
          obtain ⟨s1, s2, s3⟩ := fr_shrink _ st.data.end0 st.mta.end0 s c hi1 he0 hl hne
          refine ⟨s1, fun x hx hn => s2 x (hi2 x hx hn), ?_⟩
          intro x hx hnf hn
          apply s3 x hx
          intro hi
          rcases (mem_insertId id x _).mp hi with e | e
          · exact hn e
          · exact hnf e

/-! ### only `dataFree` lowers the data end marker -/

theorem dm_regions (a : Alloc) (st : TxAlloc) (n : Nat) (a' : Alloc) (st' : TxAlloc) (ids : List Nat)
    (h : dataAllocRegions a st n = some (a', st', ids)) : a.data.endMarker ≤ a'.data.endMarker := by
  obtain ⟨k, rest, -, -, -, -, -, -, -, e2, -⟩ := dataAllocRegions_spec a st n a' st' ids h
  omega

theorem dm_continuous (a : Alloc) (st : TxAlloc) (n : Nat) (a' : Alloc) (st' : TxAlloc) (ids : List Nat)
    (h : dataAllocContinuous a st n = some (a', st', ids)) : a.data.endMarker ≤ a'.data.endMarker := by
  unfold dataAllocContinuous at h
  by_cases hav : a.dataAvail < n
  · rw [if_pos hav] at h; cases h
  rw [if_neg hav] at h
  cases hc : allocContinuous a.data.free n with
  | some p =>
      obtain ⟨taken, rest⟩ := p
      rw [hc] at h
      simp only [Option.some.injEq, Prod.mk.injEq] at h
      obtain ⟨ha, -, -⟩ := h
      subst ha
      exact Nat.le_refl _
  | none =>
      simp only [hc] at h
      by_cases hroom : a.maxPages > 0 ∧ (if a.data.endMarker < a.maxPages then a.maxPages - a.data.endMarker else 0) < n
      · rw [if_pos hroom] at h; cases h
      · rw [if_neg hroom] at h
        simp only [Option.some.injEq, Prod.mk.injEq] at h
        obtain ⟨ha, -, -⟩ := h
        subst ha
        simp only [bumpMetaEnd_data]
        omega

theorem dm_ovStep (a : Alloc) (st : TxAlloc) (req : Nat) : a.data.endMarker ≤ (ovStep a st req).1.data.endMarker := by
  have e8 : (ovStep a st req).1.data.endMarker =
      if a.maxPages = 0 ∧ a.data.endMarker < a.mta.endMarker + req then a.mta.endMarker + req
      else a.data.endMarker := by
    unfold ovStep; dsimp only; split <;> rfl
  rw [e8]; split <;> omega

theorem dm_tryGrow (a : Alloc) (st : TxAlloc) (count : Nat) (wo : Bool) (a' : Alloc) (st' : TxAlloc)
    (hr : tryGrow a st count wo = some (a', st')) : a.data.endMarker ≤ a'.data.endMarker := by
  unfold tryGrow at hr
  dsimp only at hr
  by_cases hc0 : count = 0
  · rw [if_pos hc0] at hr
    simp only [Option.some.injEq, Prod.mk.injEq] at hr
    obtain ⟨ha, -⟩ := hr
    subst ha; exact Nat.le_refl _
  · rw [if_neg hc0] at hr
    by_cases hav : a.dataAvail < count
    · rw [if_pos hav] at hr
      cases hwo : wo with
      | false => rw [hwo] at hr; simp at hr
      | true =>
        rw [hwo] at hr
        simp only [Bool.not_true, Bool.false_eq_true, if_false] at hr
        cases hreg : dataAllocRegions a st a.dataAvail with
        | none => rw [hreg] at hr; cases hr
        | some p =>
          obtain ⟨a1, st1, ids⟩ := p
          rw [hreg] at hr
          have c1 := dm_regions a st _ a1 st1 ids hreg
          have c2 : a1.data.endMarker = (if ids.isEmpty then (a1, st1) else transferToMeta a1 st1 ids).1.data.endMarker := by
            split <;> rfl
          have c3 := dm_ovStep (if ids.isEmpty then (a1, st1) else transferToMeta a1 st1 ids).1
            (if ids.isEmpty then (a1, st1) else transferToMeta a1 st1 ids).2 (count - a.dataAvail)
          simp only [Option.some.injEq, Prod.mk.injEq] at hr
          obtain ⟨ha, -⟩ := hr
          rw [← ha]
          rw [c2] at c1
          exact Nat.le_trans c1 c3
    · rw [if_neg hav] at hr
      cases hcont : dataAllocContinuous a st count with
      | some p =>
        obtain ⟨a1, st1, ids⟩ := p
        rw [hcont] at hr
        simp only [Option.some.injEq] at hr
        have c1 := dm_continuous a st count a1 st1 ids hcont
        have e : a1.data.endMarker = (transferToMeta a1 st1 ids).1.data.endMarker := rfl
        rw [hr] at e
        rw [← e]; exact c1
      | none =>
        rw [hcont] at hr
        cases hreg : dataAllocRegions a st count with
        | none => rw [hreg] at hr; cases hr
        | some p =>
          obtain ⟨a1, st1, ids⟩ := p
          rw [hreg] at hr
          simp only [Option.some.injEq] at hr
          have c1 := dm_regions a st count a1 st1 ids hreg
          have e : a1.data.endMarker = (transferToMeta a1 st1 ids).1.data.endMarker := rfl
          rw [hr] at e
          rw [← e]; exact c1

theorem dm_ensureMeta (a : Alloc) (st : TxAlloc) (n : Nat) (a' : Alloc) (st' : TxAlloc)
    (hr : ensureMeta a st n = some (a', st')) : a.data.endMarker ≤ a'.data.endMarker := by
  unfold ensureMeta at hr
  dsimp only at hr
  split at hr
  · simp only [Option.some.injEq, Prod.mk.injEq] at hr
    obtain ⟨ha, -⟩ := hr
    subst ha; exact Nat.le_refl _
  · split at hr
    · rename_i r hg
      simp only [Option.some.injEq] at hr
      subst hr
      exact dm_tryGrow a st _ _ a' st' hg
    · exact dm_tryGrow a st _ _ a' st' hr

theorem dm_walAlloc (a : Alloc) (st : TxAlloc) (a' : Alloc) (st' : TxAlloc) (w : Nat)
    (hr : walAlloc a st = some (a', st', w)) : a.data.endMarker ≤ a'.data.endMarker := by
  unfold walAlloc at hr
  split at hr
  · cases hr
  · rename_i a1 st1 he
    have c1 := dm_ensureMeta a st 1 a1 st1 he
    split at hr
    · simp only [Option.some.injEq, Prod.mk.injEq] at hr
      obtain ⟨ha, -, -⟩ := hr
      subst ha
      exact c1
    · cases hr

theorem dm_metaAllocRegions (a : Alloc) (st : TxAlloc) (n : Nat) (a' : Alloc) (st' : TxAlloc) (ids : List Nat)
    (hr : metaAllocRegions a st n = some (a', st', ids)) : a.data.endMarker ≤ a'.data.endMarker := by
  unfold metaAllocRegions at hr
  split at hr
  · cases hr
  · rename_i a1 st1 he
    have c1 := dm_ensureMeta a st n a1 st1 he
    dsimp only at hr
    split at hr
    · cases hr
    · simp only [Option.some.injEq, Prod.mk.injEq] at hr
      obtain ⟨ha, -, -⟩ := hr
      subst ha
      exact c1

/-! ### the invariants -/

/-- invariant of a committed state at ANY point of a file lifetime (transactions with any overflow flag,
    close + reopen, open-time limit changes in both directions); `live` are the data pages the client owns.
    Compared with `Ov.EngInv`: nothing relates the data area to the page limit — no `liveLim`, no `wf.limit`
    (after the limit was lowered live pages, free data pages and the data end marker may lie at or beyond it),
    no `ends`; the limit only appears in the last clause of `InUse` / `wf.metaRange` ("a meta page lies below the
    data end marker or at / beyond the limit": the data area can not grow into it) and in `lim2`.
    `2 ≤ x` is kept for the data pages (`liveOk`, `wf.dataRange`); the conditional header clauses of `Ov.EngInv`
    are dropped (they are not stable under limit changes). -/
structure EngInv (f : FileSt) (live : List Nat) : Prop where
  wf : WF f.alloc
  keys : AscKeys f.walMap
  liveOk : ∀ id ∈ live, 2 ≤ id ∧ id < f.alloc.data.endMarker ∧ InUse f.alloc id
  mapKey : ∀ k w, Assoc.get? f.walMap k = some w → k ∈ live
  mapInj : ∀ k1 k2 w, Assoc.get? f.walMap k1 = some w → Assoc.get? f.walMap k2 = some w → k1 = k2
  intOk : ∀ x ∈ f.internal, InUse f.alloc x ∧ x ∉ live
  intNodup : f.internal.Nodup
  total : f.alloc.mta.free.length + f.internal.length ≤ f.alloc.metaTotal
  -- configuration: a page limit covers at least the two header pages
  lim2 : f.alloc.maxPages = 0 ∨ 2 ≤ f.alloc.maxPages

/-- invariant inside a write transaction that began in the committed state `f0` -/
structure TxInv (f0 : FileSt) (live : List Nat) (f : FileSt) (tx : TxSt) (cur : List Nat) : Prop where
  sameMap : f.walMap = f0.walMap
  sameWP : f.walPages = f0.walPages
  inv : Inv f0.alloc f.alloc tx.ta
  aok : AOK f.alloc
  keep : ∀ x, InUse f0.alloc x → InUse f.alloc x
  newKeys : AscKeys tx.walNew
  r0 : ∀ id ∈ live, f.diskAt (f0.physOf id) = f0.diskAt (f0.physOf id)
  pg : ∀ k p, Assoc.get? tx.pages k = some p → PageOK f0 live f tx cur k p
  curOk : ∀ k ∈ cur, 2 ≤ k ∧ k < f.alloc.data.endMarker ∧ InUse f.alloc k ∧
    (k ∈ live ∨ ¬ InUse f0.alloc k)
  curNone : ∀ k ∈ cur, Assoc.get? tx.pages k = none → k ∈ live ∧ f.diskAt (tgt f0 tx k) = f0.readPage k
  wn : ∀ k w, Assoc.get? tx.walNew k = some w →
    ¬ InUse f0.alloc w ∧ w ∈ tx.ta.mta.allocated ∧ k ∈ live ∧ Assoc.get? f0.walMap k = none ∧
    ∃ p, Assoc.get? tx.pages k = some p ∧ p.flushed = true
  wnInj : ∀ k1 k2 w, Assoc.get? tx.walNew k1 = some w → Assoc.get? tx.walNew k2 = some w → k1 = k2
  wfree : ∀ k ∈ tx.walFree, ∃ w, Assoc.get? f0.walMap k = some w
  ck : tx.checkpoint = true → ∀ k w, Assoc.get? f0.walMap k = some w →
    k ∈ tx.walFree ∨ ∃ p, Assoc.get? tx.pages k = some p ∧ p.dirty = true ∧ p.flushed = false
  dfreed : ∀ x ∈ tx.ta.data.freed, x ∉ cur ∧ 2 ≤ x ∧ x < f.alloc.data.endMarker ∧
    InUse f.alloc x ∧ (x ∈ live ∨ ¬ InUse f0.alloc x) ∧ x ∉ tx.ta.mta.allocated
  mfreed : ∀ x ∈ tx.ta.mta.freed, ∃ k, Assoc.get? f0.walMap k = some x ∧ k ∈ tx.walFree
  mfAsc : Asc tx.ta.mta.freed
  mAlloc : Asc tx.ta.mta.allocated ∧ ∀ x ∈ tx.ta.mta.allocated, InUse f.alloc x ∧ ¬ InUse f0.alloc x ∧ x ∉ cur
  gone : ∀ k ∈ live, k ∉ cur → ∀ w, Assoc.get? f0.walMap k = some w → k ∈ tx.walFree

/-! ### consequences of `EngInv` -/

theorem eng_aok (f : FileSt) (live : List Nat) (h : EngInv f live) : AOK f.alloc :=
  ⟨h.wf.ascData, h.wf.ascMeta, h.wf.dataRange,
    fun x hx => ⟨fun hd => h.wf.disj x hd hx, h.wf.metaRange x hx⟩, h.wf.limit, h.wf.dataEnd⟩

theorem eng_val (f : FileSt) (live : List Nat) (h : EngInv f live) (k w : Nat)
    (hk : Assoc.get? f.walMap k = some w) : True ∧ InUse f.alloc w ∧ w ∉ live := by
  refine ⟨trivial, ?_⟩
  apply h.intOk
  unfold FileSt.internal
  rw [List.mem_append, List.mem_append, List.mem_map]
  exact Or.inl (Or.inl ⟨(k, w), Assoc.mem_of_get? _ _ _ hk, rfl⟩)

/-- the physical page of a live page is in use; it is a live page only if it is the page itself -/
theorem eng_phys (f : FileSt) (live : List Nat) (h : EngInv f live) (k : Nat) (hk : k ∈ live) :
    InUse f.alloc (f.physOf k) ∧ (f.physOf k ∈ live → f.physOf k = k) := by
  cases hg : Assoc.get? f.walMap k with
  | none => rw [physOf_none f k hg]; exact ⟨(h.liveOk k hk).2.2, fun _ => rfl⟩
  | some w =>
    rw [physOf_some f k w hg]
    have := eng_val f live h k w hg
    exact ⟨this.2.1, fun hl => absurd hl this.2.2⟩

/-- `physOf` is injective on the live pages -/
theorem eng_phys_inj (f : FileSt) (live : List Nat) (h : EngInv f live) (k j : Nat) (hk : k ∈ live) (hj : j ∈ live)
    (he : f.physOf k = f.physOf j) : k = j := by
  cases hg : Assoc.get? f.walMap k with
  | none =>
    rw [physOf_none f k hg] at he
    have := (eng_phys f live h j hj).2 (he ▸ hk)
    omega
  | some w =>
    rw [physOf_some f k w hg] at he
    cases hg2 : Assoc.get? f.walMap j with
    | none =>
      rw [physOf_none f j hg2] at he
      exact absurd (he ▸ hj) (eng_val f live h k w hg).2.2
    | some w2 =>
      rw [physOf_some f j w2 hg2] at he
      subst he
      exact h.mapInj k j w hg hg2

theorem txinv_begin (f : FileSt) (live : List Nat) (h : EngInv f live) (ov : Bool) (g wl : Nat) :
    TxInv f live f (f.beginTx ov g wl) live := by
  refine ⟨rfl, rfl, inv_init f.alloc h.wf ov g, eng_aok f live h, fun _ hx => hx, ?_, fun _ _ => rfl, ?_, ?_, ?_,
    ?_, ?_, ?_, ?_, ?_, ?_, ?_, ?_, ?_⟩
  · simp [FileSt.beginTx, AscKeys]
  · intro k p hp; simp [FileSt.beginTx, Assoc.get?] at hp
  · intro k hk
    have := h.liveOk k hk
    exact ⟨this.1, this.2.1, this.2.2, Or.inl hk⟩
  · intro k hk _
    rw [tgt_begin]
    exact ⟨hk, rfl⟩
  · intro k w hk; simp [FileSt.beginTx, Assoc.get?] at hk
  · intro k1 k2 w hk; simp [FileSt.beginTx, Assoc.get?] at hk
  · intro k hk; simp [FileSt.beginTx] at hk
  · intro hc; simp [FileSt.beginTx] at hc
  · intro x hx; simp [FileSt.beginTx, Alloc.beginTx] at hx
  · intro x hx; simp [FileSt.beginTx, Alloc.beginTx] at hx
  · simp [FileSt.beginTx, Alloc.beginTx, asc_nil]
  · simp [FileSt.beginTx, Alloc.beginTx, asc_nil]
  · intro k hk hn; exact absurd hk hn

/-! ### moving `PageOK` between states -/

/-- replacing one page record, everything else unchanged -/
theorem txinv_setPage {f0 : FileSt} {live : List Nat} {f : FileSt} {tx : TxSt} {cur : List Nat}
    (h : TxInv f0 live f tx cur) (p' : PageSt) (hp : PageOK f0 live f tx cur p'.id p')
    (hwn : ∀ w, Assoc.get? tx.walNew p'.id = some w → p'.flushed = true)
    (hck : ∀ q, Assoc.get? tx.pages p'.id = some q → q.dirty = true → q.flushed = false →
      p'.dirty = true ∧ p'.flushed = false) :
    TxInv f0 live f (tx.setPage p') cur := by
  refine ⟨h.sameMap, h.sameWP, h.inv, h.aok, h.keep, h.newKeys, h.r0, ?_, h.curOk, ?_, ?_, h.wnInj, h.wfree, ?_,
    h.dfreed, h.mfreed, h.mfAsc, h.mAlloc, h.gone⟩
  · intro k p hk
    rw [get?_setPage] at hk
    by_cases he : k = p'.id
    · simp only [he, if_true, Option.some.injEq] at hk
      subst hk; subst he
      exact pageOK_congr hp rfl rfl (fun _ => rfl) (fun _ hc => hc) (fun _ hc => hc)
    · simp only [he, if_false] at hk
      exact pageOK_congr (h.pg k p hk) rfl rfl (fun _ => rfl) (fun _ hc => hc) (fun _ hc => hc)
  · intro k hk hn
    rw [get?_setPage] at hn
    by_cases he : k = p'.id
    · simp [he] at hn
    · simp only [he, if_false] at hn
      exact h.curNone k hk hn
  · intro k w hk
    obtain ⟨h1, h2, h4, h5, q, hq, hqf⟩ := h.wn k w hk
    refine ⟨h1, h2, h4, h5, ?_⟩
    by_cases he : k = p'.id
    · exact ⟨p', by rw [get?_setPage]; simp [he], hwn w (he ▸ hk)⟩
    · exact ⟨q, by rw [get?_setPage]; simp [he, hq], hqf⟩
  · intro hc k w hk
    rcases h.ck hc k w hk with h1 | ⟨q, hq, hd, hf⟩
    · exact Or.inl h1
    · right
      by_cases he : k = p'.id
      · have := hck q (he ▸ hq) hd hf
        exact ⟨p', by rw [get?_setPage]; simp [he], this.1, this.2⟩
      · exact ⟨q, by rw [get?_setPage]; simp [he, hq], hd, hf⟩

theorem txinv_getPage {f0 : FileSt} {live : List Nat} {f : FileSt} {tx : TxSt} {cur : List Nat}
    (h : TxInv f0 live f tx cur) (id : Nat) (hid : id ∈ cur) (tx1 : TxSt) (p : PageSt)
    (hg : getPage f tx id = .ok (tx1, p)) :
    TxInv f0 live f tx1 cur ∧ Assoc.get? tx1.pages id = some p ∧ p.freed = false ∧
    (tx1 = tx ∨ (tx1 = tx.setPage p ∧ Assoc.get? tx.pages id = none ∧ p = { id, ondisk := f0.physOf id })) := by
  rcases getPage_cases f tx tx1 id p hg with ⟨h1, h2, h3⟩ | ⟨h1, h2, h3⟩
  · subst h3
    exact ⟨h, h1, h2, Or.inl rfl⟩
  · have hphys : f.physOf id = f0.physOf id := by unfold FileSt.physOf; rw [h.sameMap]
    rw [hphys] at h2
    subst h2
    have h3' : tx1 = tx.setPage { id, ondisk := f0.physOf id } := h3
    subst h3'
    have hcn := h.curNone id hid h1
    have hwn : Assoc.get? tx.walNew id = none := by
      cases hw : Assoc.get? tx.walNew id with
      | none => rfl
      | some w =>
        obtain ⟨-, -, -, -, q, hq, -⟩ := h.wn id w hw
        rw [h1] at hq; cases hq
    refine ⟨txinv_setPage h _ ?_ ?_ ?_, ?_, rfl, Or.inr ⟨rfl, h1, rfl⟩⟩
    · refine ⟨rfl, by simp, by simp, fun _ => hid, by simp, fun _ _ => hcn.1, fun _ _ _ => ⟨rfl, hwn⟩, by simp,
        by simp, fun _ _ _ => ⟨by simp, hcn.2⟩, by simp, by simp, by simp⟩
    · intro w hw; rw [hwn] at hw; cases hw
    · intro q hq; rw [h1] at hq; cases hq
    · rw [get?_setPage]; simp

/-! ### what the transaction sees -/

theorem loadBytes_spec {f0 : FileSt} {live : List Nat} {f : FileSt} {tx : TxSt} {cur : List Nat}
    (h : TxInv f0 live f tx cur) (k : Nat) (p : PageSt) (hp : PageOK f0 live f tx cur k p)
    (hfl : p.flushed = false) (hfr : p.freed = false) :
    (loadBytes f p).bytes = some ((pView f0 k p).getD {}) := by
  unfold loadBytes pView
  by_cases hc : p.cached = true
  · simp only [hc, if_true]
    have := hp.cachedB hc
    cases hb : p.bytes with
    | none => rw [hb] at this; cases this
    | some b =>
      by_cases hd : p.dirty = true
      · simp [hd]
      · have hd' : p.dirty = false := by simpa using hd
        by_cases hn : p.new_ = true
        · have := hp.cleanNew hn hd'
          rw [hb] at this
          simp [hd', hn]; simpa using this
        · have hn' : p.new_ = false := by simpa using hn
          have := (hp.cleanOld hfr hn' hd').1 b hb
          simp [hd', hn', this]
  · simp only [hc, Bool.false_eq_true, if_false]
    by_cases hn : p.new_ = true
    · simp only [hn, if_true]
      by_cases hd : p.dirty = true
      · have := hp.dirtyB hd
        cases hb : p.bytes with
        | none => rw [hb] at this; cases this
        | some b => simp [hd]
      · have hd' : p.dirty = false := by simpa using hd
        have := hp.cleanNew hn hd'
        simp [hd', this]
    · have hn' : p.new_ = false := by simpa using hn
      simp only [hn', Bool.false_eq_true, if_false]
      by_cases hd : p.dirty = true
      · have := hp.dirtyB hd
        cases hb : p.bytes with
        | none => rw [hb] at this; cases this
        | some b => simp [hd]
      · have hd' : p.dirty = false := by simpa using hd
        simp only [hd', Bool.false_eq_true, if_false, Option.getD_some, Option.some.injEq]
        cases hb : p.bytes with
        | some b => exact (hp.cleanOld hfr hn' hd').1 b hb
        | none =>
          have hk := hp.oldOk hfr hn'
          rw [(hp.unfl hfr hn' hfl).1, h.r0 k hk]
          rfl

theorem pageOK_load {f0 : FileSt} {live : List Nat} {f : FileSt} {tx : TxSt} {cur : List Nat}
    (h : TxInv f0 live f tx cur) (k : Nat) (p : PageSt) (hp : PageOK f0 live f tx cur k p)
    (hfl : p.flushed = false) (hfr : p.freed = false) : PageOK f0 live f tx cur k (loadBytes f p) := by
  obtain ⟨l1, l2, l3, l4, l5, l6⟩ := loadBytes_fields f p
  have hb := loadBytes_spec h k p hp hfl hfr
  apply pageOK_upd hp hfl hfr l1 l2 l3 (l4.trans hfr) (l5.trans hfl)
  · intro _; simp [hb]
  · intro _; simp [hb]
  · intro hd
    rw [l6] at hd
    refine ⟨hd, ?_, ?_⟩
    · intro hn b hbb
      rw [l3] at hn
      rw [hb] at hbb
      simp [pView, hd, hn] at hbb
      exact hbb.symm
    · intro hn
      rw [l3] at hn
      rw [hb]
      simp [pView, hd, hn]

theorem txView_getPage {f0 : FileSt} {live : List Nat} {f : FileSt} {tx : TxSt} {cur : List Nat}
    (h : TxInv f0 live f tx cur) (id : Nat) (hid : id ∈ cur) (tx1 : TxSt) (p : PageSt)
    (hg : getPage f tx id = .ok (tx1, p)) (j : Nat) : txView f0 tx1 j = txView f0 tx j := by
  obtain ⟨-, -, -, h4⟩ := txinv_getPage h id hid tx1 p hg
  rcases h4 with h4 | ⟨h4, h5, h6⟩
  · rw [h4]
  · subst h4
    unfold txView
    rw [get?_setPage]
    by_cases hj : j = p.id
    · have : p.id = id := by rw [h6]
      rw [hj, this, h5]
      simp [h6, pView]
    · simp [hj]

theorem txinv_write {f0 : FileSt} {live : List Nat} {f : FileSt} {tx : TxSt} {cur : List Nat}
    (h : TxInv f0 live f tx cur) (id : Nat) (hid : id ∈ cur) (mode : WMode) (s : Nat) (tx' : TxSt)
    (hw : txWrite f tx id mode s = .ok tx') :
    TxInv f0 live f tx' cur ∧ txView f0 tx' id = some (wr mode id s ((txView f0 tx id).getD {})) ∧
    ∀ j, j ≠ id → txView f0 tx' j = txView f0 tx j := by
  unfold txWrite at hw
  cases hg : getPage f tx id with
  | error e => simp [hg, bind, Except.bind] at hw
  | ok r =>
    obtain ⟨tx1, p⟩ := r
    simp only [hg, bind, Except.bind] at hw
    obtain ⟨h1, hget, hfr, -⟩ := txinv_getPage h id hid tx1 p hg
    have hv := txView_getPage h id hid tx1 p hg
    have hp := h1.pg id p hget
    have hpid := hp.id
    cases hcw : pageCanWrite p with
    | error e => simp [hcw] at hw
    | ok u =>
      simp only [hcw] at hw
      obtain ⟨-, hfl⟩ := pageCanWrite_ok p hcw
      obtain ⟨l1, l2, l3, l4, l5, l6⟩ := loadBytes_fields f p
      have hlb := loadBytes_spec h1 id p hp hfl hfr
      have hvp : txView f0 tx id = pView f0 id p := by rw [← hv id]; unfold txView; rw [hget]
      have hb : (loadBytes f p).bytes.getD {} = (pView f0 id p).getD {} := by rw [hlb]; rfl
      -- every variant stores a dirty, unflushed record `q` with a buffer
      have key : ∀ (q : PageSt) (c : Content), q.id = p.id → q.ondisk = p.ondisk → q.new_ = p.new_ →
          q.freed = false → q.flushed = false → q.dirty = true → q.bytes = some c →
          TxInv f0 live f (tx1.setPage q) cur ∧ txView f0 (tx1.setPage q) id = some c ∧
          ∀ j, j ≠ id → txView f0 (tx1.setPage q) j = txView f0 tx j := by
        intro q c e1 e2 e3 e4 e5 e6 e7
        have hqid : q.id = id := e1.trans hpid
        have hq : PageOK f0 live f tx1 cur q.id q := by
          rw [hqid]
          exact pageOK_upd hp hfl hfr e1 e2 e3 e4 e5 (fun _ => by simp [e7]) (fun _ => by simp [e7])
            (fun hd => by rw [e6] at hd; cases hd)
        refine ⟨txinv_setPage h1 q hq ?_ ?_, ?_, ?_⟩
        · intro w hwn
          obtain ⟨-, -, -, -, q', hq', hqf⟩ := h1.wn q.id w hwn
          rw [hqid, hget] at hq'
          cases hq'
          rw [hfl] at hqf; cases hqf
        · intro _ _ _ _; exact ⟨e6, e5⟩
        · rw [txView_setPage]; simp [hqid, pView, e6, e7]
        · intro j hj
          rw [txView_setPage]
          simp only [hqid, hj, if_false]
          exact hv j
      cases mode with
      | full =>
        simp only [pure, Except.pure, Except.ok.injEq] at hw
        subst hw
        exact key _ _ rfl rfl rfl hfr hfl rfl rfl
      | lo =>
        simp only [pure, Except.pure, Except.ok.injEq] at hw
        subst hw
        have := key (setDirty { loadBytes f p with bytes := some { (loadBytes f p).bytes.getD {} with lo := (id, s) } })
          _ l1 l2 l3 (l4.trans hfr) (l5.trans hfl) rfl rfl
        rw [hvp, ← hb]
        exact this
      | hi =>
        simp only [pure, Except.pure, Except.ok.injEq] at hw
        subst hw
        have := key (setDirty { loadBytes f p with bytes := some { (loadBytes f p).bytes.getD {} with hi := (id, s) } })
          _ l1 l2 l3 (l4.trans hfr) (l5.trans hfl) rfl rfl
        rw [hvp, ← hb]
        exact this

theorem txinv_load {f0 : FileSt} {live : List Nat} {f : FileSt} {tx : TxSt} {cur : List Nat}
    (h : TxInv f0 live f tx cur) (id : Nat) (hid : id ∈ cur) (tx' : TxSt) (hw : txLoad f tx id = .ok tx') :
    TxInv f0 live f tx' cur ∧ ∀ j, txView f0 tx' j = txView f0 tx j := by
  unfold txLoad at hw
  cases hg : getPage f tx id with
  | error e => simp [hg, bind, Except.bind] at hw
  | ok r =>
    obtain ⟨tx1, p⟩ := r
    simp only [hg, bind, Except.bind] at hw
    obtain ⟨h1, hget, hfr, -⟩ := txinv_getPage h id hid tx1 p hg
    have hv := txView_getPage h id hid tx1 p hg
    have hp := h1.pg id p hget
    cases hcw : pageCanWrite p with
    | error e => simp [hcw] at hw
    | ok u =>
      simp only [hcw, pure, Except.pure, Except.ok.injEq] at hw
      subst hw
      obtain ⟨-, hfl⟩ := pageCanWrite_ok p hcw
      obtain ⟨l1, l2, l3, l4, l5, l6⟩ := loadBytes_fields f p
      have hlb := loadBytes_spec h1 id p hp hfl hfr
      have hqid : (loadBytes f p).id = id := l1.trans hp.id
      have hq : PageOK f0 live f tx1 cur (loadBytes f p).id (loadBytes f p) := by
        rw [hqid]; exact pageOK_load h1 id p hp hfl hfr
      refine ⟨txinv_setPage h1 _ hq ?_ ?_, ?_⟩
      · intro w hwn
        obtain ⟨-, -, -, -, q', hq', hqf⟩ := h1.wn _ w hwn
        rw [hqid, hget] at hq'
        cases hq'
        rw [hfl] at hqf; cases hqf
      · intro q hq' hd hf
        rw [hqid, hget] at hq'
        cases hq'
        exact ⟨l6.trans hd, l5.trans hf⟩
      · intro j
        rw [txView_setPage, hqid]
        by_cases hj : j = id
        · subst hj
          rw [← hv j]
          simp only [if_true]
          unfold txView
          rw [hget]
          unfold pView
          rw [l6, l3]
          by_cases hd : p.dirty = true
          · have := hp.dirtyB hd
            simp only [hd, if_true]
            rw [hlb]
            unfold pView
            simp only [hd, if_true]
            cases hb : p.bytes with
            | none => rw [hb] at this; cases this
            | some b => rfl
          · simp [hd]
        · simp only [hj, if_false]; exact hv j

theorem txinv_read {f0 : FileSt} {live : List Nat} {f : FileSt} {tx : TxSt} {cur : List Nat}
    (h : TxInv f0 live f tx cur) (id : Nat) (hid : id ∈ cur) (tx' : TxSt) (c : Content)
    (hw : txRead f tx id = .ok (tx', c)) :
    TxInv f0 live f tx' cur ∧ (∀ j, txView f0 tx' j = txView f0 tx j) ∧
    ∀ c', txView f0 tx id = some c' → c = c' := by
  unfold txRead at hw
  cases hg : getPage f tx id with
  | error e => simp [hg, bind, Except.bind] at hw
  | ok r =>
    obtain ⟨tx1, p⟩ := r
    simp only [hg, bind, Except.bind] at hw
    obtain ⟨h1, hget, hfr, -⟩ := txinv_getPage h id hid tx1 p hg
    have hv := txView_getPage h id hid tx1 p hg
    have hp := h1.pg id p hget
    have hvp : txView f0 tx id = pView f0 id p := by rw [← hv id]; unfold txView; rw [hget]
    rw [hvp]
    cases hb : p.bytes with
    | some b =>
      simp only [hb, pure, Except.pure, Except.ok.injEq, Prod.mk.injEq] at hw
      obtain ⟨rfl, rfl⟩ := hw
      refine ⟨h1, hv, ?_⟩
      intro c' hc'
      unfold pView at hc'
      by_cases hd : p.dirty = true
      · simp only [hd, if_true, hb, Option.some.injEq] at hc'; exact hc'
      · have hd' : p.dirty = false := by simpa using hd
        by_cases hn : p.new_ = true
        · simp [hd', hn] at hc'
        · have hn' : p.new_ = false := by simpa using hn
          simp only [hd', hn', Bool.false_eq_true, if_false, Option.some.injEq] at hc'
          rw [← hc']
          exact (hp.cleanOld hfr hn' hd').1 _ hb
    | none =>
      simp only [hb] at hw
      split at hw
      · cases hw
      · rename_i hn
        have hn' : p.new_ = false := by simpa using hn
        simp only [pure, Except.pure, Except.ok.injEq, Prod.mk.injEq] at hw
        obtain ⟨rfl, rfl⟩ := hw
        refine ⟨h1, hv, ?_⟩
        intro c' hc'
        have hd' : p.dirty = false := by
          cases hd : p.dirty with
          | false => rfl
          | true => have := hp.dirtyB hd; rw [hb] at this; cases this
        have hfl : p.flushed = false := by
          cases hf : p.flushed with
          | false => rfl
          | true => have := (hp.flDirty hf).1; rw [hd'] at this; cases this
        unfold pView at hc'
        simp only [hd', hn', Bool.false_eq_true, if_false, Option.some.injEq] at hc'
        rw [← hc', (hp.unfl hfr hn' hfl).1, h1.r0 id (hp.oldOk hfr hn')]
        rfl

theorem cur_lt {f0 : FileSt} {live : List Nat} {f : FileSt} {tx : TxSt} {cur : List Nat}
    (h : TxInv f0 live f tx cur) (k : Nat) (hk : k ∈ cur) : k < f.alloc.data.endMarker := by
  exact (h.curOk k hk).2.1

/-- a page that is not live has no overwrite page -/
theorem tgt_fresh {f0 : FileSt} {live : List Nat} {f : FileSt} {tx : TxSt} {cur : List Nat}
    (he : EngInv f0 live) (h : TxInv f0 live f tx cur) (k : Nat) (hk : k ∉ live) :
    tgt f0 tx k = k ∧ Assoc.get? tx.walNew k = none := by
  have h1 : Assoc.get? tx.walNew k = none := by
    cases hw : Assoc.get? tx.walNew k with
    | none => rfl
    | some w => exact absurd (h.wn k w hw).2.2.1 hk
  have h2 : k ∉ tx.walFree := by
    intro hf
    obtain ⟨w, hw⟩ := h.wfree k hf
    exact hk (he.mapKey k w hw)
  have h3 : Assoc.get? f0.walMap k = none := by
    cases hw : Assoc.get? f0.walMap k with
    | none => rfl
    | some w => exact absurd (he.mapKey k w hw) hk
  refine ⟨?_, h1⟩
  unfold tgt
  simp [h1, h2, physOf_none f0 k h3]

theorem txinv_alloc {f0 : FileSt} {live : List Nat} {f : FileSt} {tx : TxSt} {cur : List Nat}
    (he : EngInv f0 live) (h : TxInv f0 live f tx cur) (n : Nat) (f' : FileSt) (tx' : TxSt) (ids : List Nat)
    (hw : txAlloc f tx n = .ok (f', tx', ids)) :
    TxInv f0 live f' tx' (cur ++ ids) ∧ (∀ x ∈ ids, x ∉ cur ∧ x ∉ live) ∧
    ∀ j, txView f0 tx' j = if j ∈ ids then none else txView f0 tx j := by
  unfold txAlloc at hw
  cases hr : dataAllocRegions f.alloc tx.ta n with
  | none => simp [hr] at hw
  | some r =>
    obtain ⟨a, ta, ids'⟩ := r
    simp only [hr, Except.ok.injEq, Prod.mk.injEq] at hw
    obtain ⟨rfl, rfl, rfl⟩ := hw
    obtain ⟨hok, hkeep, hids⟩ := fr_regions f.alloc tx.ta n a ta ids' h.aok hr
    have hinv := (inv_regions f0.alloc f.alloc tx.ta n a ta ids' he.wf h.inv hr).1
    obtain ⟨_, _, _, _, _, _, _, _, _, _, _, _, _, _, _, _, hst⟩ := dataAllocRegions_spec _ _ _ _ _ _ hr
    have hmta : ta.mta = tx.ta.mta := by rw [hst]
    have hdf : ta.data.freed = tx.ta.data.freed := by rw [hst]
    have hovf : ta.overflow = tx.ta.overflow := by rw [hst]
    have hnl : ∀ x ∈ ids', x ∉ live := fun x hx hl =>
      (hids x hx).1 (h.keep x (he.liveOk x hl).2.2)
    have hnc : ∀ x ∈ ids', x ∉ cur := fun x hx hc => (hids x hx).1 (h.curOk x hc).2.2.1
    have hpg : ∀ k, Assoc.get? (ids'.foldl (fun m id => Assoc.set m id ({ id, ondisk := id, new_ := true } : PageSt))
        tx.pages) k = if k ∈ ids' then some ({ id := k, ondisk := k, new_ := true } : PageSt)
        else Assoc.get? tx.pages k := get?_foldl_newPages ids' tx.pages
    have hdm := dm_regions f.alloc tx.ta n a ta ids' hr
    refine ⟨⟨h.sameMap, h.sameWP, hinv, hok, fun x hx => hkeep x (h.keep x hx), h.newKeys, h.r0, ?_, ?_, ?_, ?_,
      h.wnInj, h.wfree, ?_, ?_, ?_, ?_, ?_, ?_⟩, fun x hx => ⟨hnc x hx, hnl x hx⟩, ?_⟩
    · intro k p hk
      rw [hpg] at hk
      by_cases hki : k ∈ ids'
      · simp only [hki, if_true, Option.some.injEq] at hk
        subst hk
        have hnu : ¬ InUse f0.alloc k := fun hu => (hids k hki).1 (h.keep k hu)
        have ht := (tgt_fresh he h k (hnl k hki)).1
        exact ⟨rfl, by simp, by simp, fun _ => List.mem_append_right _ hki, fun _ _ => ⟨rfl, hnu, ht⟩, by simp,
          by simp, by simp, by simp, by simp, by simp, by simp, by simp⟩
      · simp only [hki, if_false] at hk
        refine pageOK_congr (h.pg k p hk) rfl rfl (fun _ => rfl) (fun _ hc => List.mem_append_left _ hc) ?_
        intro _ hc
        rcases List.mem_append.mp hc with hc | hc
        · exact hc
        · exact absurd hc hki
    · intro k hk
      rcases List.mem_append.mp hk with hk | hk
      · obtain ⟨c1, c2, c3, c4⟩ := h.curOk k hk
        exact ⟨c1, Nat.lt_of_lt_of_le c2 hdm, hkeep k c3, c4⟩
      · obtain ⟨d1, d2, d3, d4⟩ := hids k hk
        exact ⟨d3, d4, d2, Or.inr (fun hu => d1 (h.keep k hu))⟩
    · intro k hk hn
      rw [hpg] at hn
      by_cases hki : k ∈ ids'
      · simp [hki] at hn
      · simp only [hki, if_false] at hn
        rcases List.mem_append.mp hk with hk | hk
        · exact h.curNone k hk hn
        · exact absurd hk hki
    · intro k w hk
      obtain ⟨w1, w2, w4, w5, q, hq, hqf⟩ := h.wn k w hk
      refine ⟨w1, hmta ▸ w2, w4, w5, q, ?_, hqf⟩
      · rw [hpg, if_neg (fun hc => hnl k hc w4)]; exact hq
    · intro hc k w hk
      rcases h.ck hc k w hk with h1 | ⟨q, hq, hd, hf⟩
      · exact Or.inl h1
      · refine Or.inr ⟨q, ?_, hd, hf⟩
        rw [hpg, if_neg (fun hc => hnl k hc (he.mapKey k w hk))]; exact hq
    · intro x hx
      rw [hdf] at hx
      obtain ⟨d1, d2, d3, d4, d5, d6⟩ := h.dfreed x hx
      refine ⟨fun hc => ?_, d2, Nat.lt_of_lt_of_le d3 hdm, hkeep x d4, d5, ?_⟩
      · rcases List.mem_append.mp hc with hc | hc
        · exact d1 hc
        · exact (hids x hc).1 d4
      · show x ∉ ta.mta.allocated
        rw [hmta]; exact d6
    · rw [hmta]; exact h.mfreed
    · rw [hmta]; exact h.mfAsc
    · rw [hmta]
      refine ⟨h.mAlloc.1, fun x hx => ⟨hkeep x (h.mAlloc.2 x hx).1, (h.mAlloc.2 x hx).2.1, fun hc => ?_⟩⟩
      rcases List.mem_append.mp hc with hc | hc
      · exact (h.mAlloc.2 x hx).2.2 hc
      · exact (hids x hc).1 (h.mAlloc.2 x hx).1
    · intro k hk hn w hw
      exact h.gone k hk (fun hc => hn (List.mem_append_left _ hc)) w hw
    · intro j
      unfold txView
      rw [hpg]
      by_cases hj : j ∈ ids' <;> simp [hj, pView]

/-! ### the part of `TxInv` that speaks about one page id -/

theorem txinv_key {f0 : FileSt} {live : List Nat} {f : FileSt} {tx : TxSt} {cur : List Nat}
    (h : TxInv f0 live f tx cur) (k : Nat) : KeyOK f0 live f tx cur k :=
  ⟨h.pg k, h.curNone k, h.wn k, fun hc => h.ck hc k⟩

/-- a current page is neither a page moved into the meta area nor an overflow page -/
theorem cur_not_moved {f0 : FileSt} {live : List Nat} {f : FileSt} {tx : TxSt} {cur : List Nat}
    (h : TxInv f0 live f tx cur) (k : Nat) (hk : k ∈ cur) :
    k ∉ tx.ta.moveToMeta ∧ k ∉ tx.ta.fromOverflow := by
  have hu := (h.curOk k hk).2.2.1
  have key : ¬ (k ∈ f.alloc.mta.free ∨ k ∈ tx.ta.mta.allocated) := by
    intro hc
    rcases hc with hc | hc
    · exact hu.2.1 hc
    · exact (h.mAlloc.2 k hc).2.2 hk
  have := h.inv.mIff k
  exact ⟨fun hm => key (this.mpr (Or.inr (Or.inl hm))), fun hm => key (this.mpr (Or.inr (Or.inr hm)))⟩

/-- a page in the transaction's list of new data pages was not in use when the transaction began -/
theorem new_not_live {f0 : FileSt} {live : List Nat} {f : FileSt} {tx : TxSt} {cur : List Nat}
    (he : EngInv f0 live) (h : TxInv f0 live f tx cur) (k : Nat) (hk : k ∈ cur) (hn : k ∈ tx.ta.data.new_) :
    k ∉ live := by
  intro hl
  rcases h.inv.newGe k hn with h1 | h1
  · have := (he.liveOk k hl).2.1; omega
  · exact (cur_not_moved h k hk).1 h1

/-- the allocator part of `Page.Free` -/
theorem free_alloc_part {f0 : FileSt} {live : List Nat} {f : FileSt} {tx : TxSt} {cur : List Nat}
    (he : EngInv f0 live) (h : TxInv f0 live f tx cur) (id : Nat) (hid : id ∈ cur) :
    Inv f0.alloc (dataFree f.alloc tx.ta id).1 (dataFree f.alloc tx.ta id).2 ∧
    AOK (dataFree f.alloc tx.ta id).1 ∧
    (∀ x, InUse f.alloc x → x ≠ id → InUse (dataFree f.alloc tx.ta id).1 x) ∧
    (∀ x, InUse f0.alloc x → InUse (dataFree f.alloc tx.ta id).1 x) ∧
    (dataFree f.alloc tx.ta id).2.mta = tx.ta.mta ∧
    (∀ x ∈ (dataFree f.alloc tx.ta id).2.data.freed,
      x ∈ tx.ta.data.freed ∨ (x = id ∧ (dataFree f.alloc tx.ta id).1 = f.alloc)) ∧
    (∀ x, InUse f.alloc x → x < f.alloc.data.endMarker → x ≠ id →
      x < (dataFree f.alloc tx.ta id).1.data.endMarker) := by
  obtain ⟨c1, c2, c3, c4⟩ := h.curOk id hid
  have hlt := cur_lt h id hid
  obtain ⟨m1, m2⟩ := cur_not_moved h id hid
  have he0 : tx.ta.data.end0 ≤ f.alloc.data.endMarker := by
    rw [h.inv.dEnd0]; exact h.inv.dEndLe
  obtain ⟨s1, s2, s3⟩ := dataFree_st f.alloc tx.ta id
  obtain ⟨r1, r2, r3⟩ := fr_dataFree f.alloc tx.ta id h.aok c3 c1 hlt he0
  refine ⟨inv_dataFree f0.alloc f.alloc tx.ta id h.inv hlt m1 m2, r1, r2, ?_, s1, ?_,
    fun x hu hx hne => r3 x hx hu.1 hne⟩
  · intro x hx
    by_cases hn : id ∈ tx.ta.data.new_
    · have hnl := new_not_live he h id hid hn
      have hne : x ≠ id := by
        intro e; subst e
        rcases c4 with c4 | c4
        · exact hnl c4
        · exact c4 hx
      exact r2 x (h.keep x hx) hne
    · rw [(s3 hn).1]; exact h.keep x hx
  · intro x hx
    by_cases hn : id ∈ tx.ta.data.new_
    · rw [s2 hn] at hx; exact Or.inl hx
    · rw [(s3 hn).2] at hx
      rcases (mem_insertId id x _).mp hx with e | e
      · exact Or.inr ⟨e, (s3 hn).1⟩
      · exact Or.inl e

/-- what the release of an overwrite page (if any) does to the transaction state -/
structure RelWal (f0 : FileSt) (T T2 : TxSt) (id : Nat) : Prop where
  pages : T2.pages = T.pages
  ckpt : T2.checkpoint = T.checkpoint
  mAlloc : T2.ta.mta.allocated = T.ta.mta.allocated
  data : T2.ta.data = T.ta.data
  wnOther : ∀ k, k ≠ id → Assoc.get? T2.walNew k = Assoc.get? T.walNew k
  wnSelf : Assoc.get? T2.walNew id = none
  wnKeys : AscKeys T.walNew → AscKeys T2.walNew
  wfOther : ∀ k, k ≠ id → (k ∈ T2.walFree ↔ k ∈ T.walFree)
  wfMono : ∀ k, k ∈ T.walFree → k ∈ T2.walFree
  wfSelf : id ∈ T2.walFree → id ∈ T.walFree ∨ ∃ w, Assoc.get? f0.walMap id = some w
  mf : ∀ x ∈ T2.ta.mta.freed, x ∈ T.ta.mta.freed ∨ (Assoc.get? f0.walMap id = some x ∧ id ∈ T2.walFree)
  mfAsc : Asc T.ta.mta.freed → Asc T2.ta.mta.freed
  inv : ∀ a0 a, Inv a0 a T.ta → Inv a0 a T2.ta
  ovf : T2.ta.overflow = T.ta.overflow

theorem relWal_none (f0 : FileSt) (T : TxSt) (id : Nat) (hw : Assoc.get? T.walNew id = none) :
    RelWal f0 T T id :=
  ⟨rfl, rfl, rfl, rfl, fun _ _ => rfl, hw, fun h => h, fun _ _ => Iff.rfl, fun _ h => h, fun h => Or.inl h,
    fun _ h => Or.inl h, fun h => h, fun _ _ h => h, rfl⟩

theorem relWal_free (f0 : FileSt) (T : TxSt) (id w : Nat) (hw : Assoc.get? f0.walMap id = some w) :
    RelWal f0 T (freeWalId T id w) id := by
  refine ⟨rfl, rfl, rfl, rfl, ?_, ?_, ?_, ?_, ?_, fun _ => Or.inr ⟨w, hw⟩, ?_, ?_, ?_, rfl⟩
  · intro k hk; simp [freeWalId, Assoc.get?_erase, hk]
  · simp [freeWalId, Assoc.get?_erase]
  · intro h; exact ascKeys_filter _ _ h
  · intro k hk; simp [freeWalId, mem_insertId, hk]
  · intro k hk; simp [freeWalId, mem_insertId, hk]
  · intro x hx
    simp only [freeWalId, metaFreeId, mem_insertId] at hx ⊢
    rcases hx with e | e
    · subst e; exact Or.inr ⟨hw, Or.inl trivial⟩
    · exact Or.inl e
  · intro h; exact asc_insertId _ _ h
  · intro a0 a h; exact inv_metaFreeId a0 a T.ta w h

/-- keys other than `id` are not affected by the release of the overwrite page of `id`, a new record for `id`,
    and changes of the disk elsewhere -/
theorem keyOK_other {f0 : FileSt} {live : List Nat} {f f' : FileSt} {tx T T2 : TxSt} {cur cur' : List Nat}
    {id k : Nat} (h : KeyOK f0 live f tx cur k) (hk : k ≠ id) (r : RelWal f0 T T2 id) (q : PageSt) (hq : q.id = id)
    (t1 : T.pages = tx.pages) (t2 : T.walNew = tx.walNew) (t3 : T.walFree = tx.walFree)
    (t4 : T.checkpoint = tx.checkpoint) (t5 : T.ta.mta.allocated = tx.ta.mta.allocated)
    (e4 : k ∈ cur → f'.diskAt (tgt f0 tx k) = f.diskAt (tgt f0 tx k)) (e5 : k ∈ cur' ↔ k ∈ cur) :
    KeyOK f0 live f' (T2.setPage q) cur' k := by
  apply keyOK_congr h
  · rw [get?_setPage, hq, if_neg hk, r.pages, t1]
  · show Assoc.get? T2.walNew k = _
    rw [r.wnOther k hk, t2]
  · show k ∈ T2.walFree ↔ _
    rw [r.wfOther k hk, t3]
  · exact e4
  · exact e5
  · intro w hw
    show w ∈ T2.ta.mta.allocated
    rw [r.mAlloc, t5]; exact hw
  · intro hc
    have : T2.checkpoint = true := hc
    rw [r.ckpt, t4] at this; exact this

theorem txinv_free_core {f0 : FileSt} {live : List Nat} {f : FileSt} {tx : TxSt} {cur : List Nat}
    (he : EngInv f0 live) (h : TxInv f0 live f tx cur) (id : Nat) (hid : id ∈ cur) (p : PageSt)
    (hget : Assoc.get? tx.pages id = some p) (hfr : p.freed = false) (hfl : p.flushed = false)
    (hd : p.dirty = false) (T2 : TxSt)
    (r : RelWal f0 { tx with ta := (dataFree f.alloc tx.ta id).2 } T2 id)
    (hin : ∀ w, Assoc.get? f0.walMap id = some w → id ∈ T2.walFree) :
    TxInv f0 live { f with alloc := (dataFree f.alloc tx.ta id).1 } (T2.setPage { p with freed := true })
      (cur.filter (fun x => x != id)) := by
  obtain ⟨a1, a2, a3, a4, a5, a6, a7⟩ := free_alloc_part he h id hid
  have hp := h.pg id p hget
  have hpid : ({ p with freed := true } : PageSt).id = id := hp.id
  have hmal : T2.ta.mta.allocated = tx.ta.mta.allocated := by rw [r.mAlloc]; exact congrArg (·.allocated) a5
  have hkeys : ∀ k, KeyOK f0 live { f with alloc := (dataFree f.alloc tx.ta id).1 }
      (T2.setPage { p with freed := true }) (cur.filter (fun x => x != id)) k := by
    intro k
    by_cases hk : k = id
    · subst hk
      refine ⟨?_, ?_, ?_, ?_⟩
      · intro q hq
        rw [get?_setPage, hpid] at hq
        simp only [if_true, Option.some.injEq] at hq
        subst hq
        exact ⟨by first | exact hp.id | rfl, fun _ => hd, by simp [hfl], by simp, by simp, by simp, by simp, by simp [hfl],
          by simp [hd], by simp, hp.cleanNew, hp.cachedB, fun _ hc => ((mem_filter_ne _ _ _).mp hc).2 rfl⟩
      · intro hc; rw [mem_filter_ne] at hc; exact absurd rfl hc.2
      · intro w hw
        have hw' : Assoc.get? T2.walNew k = some w := hw
        rw [r.wnSelf] at hw'; cases hw'
      · intro _ w hw; exact Or.inl (hin w hw)
    · exact keyOK_other (txinv_key h k) hk r _ hpid rfl rfl rfl rfl (congrArg (·.allocated) a5) (fun _ => rfl)
        (by rw [mem_filter_ne]; exact ⟨fun hc => hc.1, fun hc => ⟨hc, hk⟩⟩)
  refine ⟨h.sameMap, h.sameWP, r.inv _ _ a1, a2, a4, r.wnKeys h.newKeys, h.r0, fun k p => (hkeys k).pg p, ?_,
    fun k => (hkeys k).curNone, fun k => (hkeys k).wn, ?_, ?_, fun hc k => (hkeys k).ck hc, ?_, ?_,
    r.mfAsc (a5 ▸ h.mfAsc), ?_, ?_⟩
  · intro k hk
    rw [mem_filter_ne] at hk
    obtain ⟨c1, c2, c3, c4⟩ := h.curOk k hk.1
    exact ⟨c1, a7 k c3 c2 hk.2, a3 k c3 hk.2, c4⟩
  · intro k1 k2 w h1 h2
    have e1 : k1 ≠ id := fun e => by rw [e, show Assoc.get? (T2.setPage _).walNew id = none from r.wnSelf] at h1; cases h1
    have e2 : k2 ≠ id := fun e => by rw [e, show Assoc.get? (T2.setPage _).walNew id = none from r.wnSelf] at h2; cases h2
    exact h.wnInj k1 k2 w ((r.wnOther k1 e1) ▸ h1) ((r.wnOther k2 e2) ▸ h2)
  · intro k hk
    by_cases e : k = id
    · subst e
      rcases r.wfSelf hk with h1 | h1
      · exact h.wfree k h1
      · exact h1
    · exact h.wfree k ((r.wfOther k e).mp hk)
  · intro x hx
    have hx' : x ∈ (dataFree f.alloc tx.ta id).2.data.freed := by
      have : T2.ta.data = (dataFree f.alloc tx.ta id).2.data := r.data
      rw [← this]; exact hx
    rcases a6 x hx' with h1 | ⟨h1, h2⟩
    · obtain ⟨d1, d2, d3, d4, d5, d6⟩ := h.dfreed x h1
      have hne : x ≠ id := fun e => d1 (e ▸ hid)
      exact ⟨fun hc => d1 ((mem_filter_ne _ _ _).mp hc).1, d2, a7 x d4 d3 hne, a3 x d4 hne, d5,
        fun hc => d6 (hmal ▸ hc)⟩
    · subst h1
      obtain ⟨c1, c2, c3, c4⟩ := h.curOk x hid
      refine ⟨fun hc => ((mem_filter_ne _ _ _).mp hc).2 rfl, c1, ?_, ?_, c4, ?_⟩
      · show x < (dataFree f.alloc tx.ta x).1.data.endMarker
        rw [h2]; exact c2
      · show InUse (dataFree f.alloc tx.ta x).1 x
        rw [h2]; exact c3
      · intro hc
        exact (h.mAlloc.2 x (hmal ▸ hc)).2.2 hid
  · intro x hx
    rcases r.mf x hx with h1 | h1
    · have h1' : x ∈ tx.ta.mta.freed := by rw [← a5]; exact h1
      obtain ⟨k, hk1, hk2⟩ := h.mfreed x h1'
      exact ⟨k, hk1, r.wfMono k hk2⟩
    · exact ⟨id, h1.1, h1.2⟩
  · refine ⟨hmal ▸ h.mAlloc.1, ?_⟩
    intro x hx
    have hx' : x ∈ tx.ta.mta.allocated := hmal ▸ hx
    obtain ⟨m1, m2, m3⟩ := h.mAlloc.2 x hx'
    have hne : x ≠ id := fun e => m3 (e ▸ hid)
    exact ⟨a3 x m1 hne, m2, fun hc => m3 ((mem_filter_ne _ _ _).mp hc).1⟩
  · intro k hk hn w hw
    by_cases hkc : k ∈ cur
    · have : k = id := by
        false_or_by_contra
        exact hn ((mem_filter_ne _ _ _).mpr ⟨hkc, by assumption⟩)
      subst this
      exact hin w hw
    · exact r.wfMono k (h.gone k hk hkc w hw)

theorem txinv_free {f0 : FileSt} {live : List Nat} {f : FileSt} {tx : TxSt} {cur : List Nat}
    (he : EngInv f0 live) (h : TxInv f0 live f tx cur) (id : Nat) (hid : id ∈ cur) (f' : FileSt) (tx' : TxSt)
    (hw : txFree f tx id = .ok (f', tx')) :
    TxInv f0 live f' tx' (cur.filter (fun x => x != id)) ∧ ∀ j, j ≠ id → txView f0 tx' j = txView f0 tx j := by
  unfold txFree at hw
  cases hg : getPage f tx id with
  | error e => simp [hg, bind, Except.bind] at hw
  | ok r =>
    obtain ⟨tx1, p⟩ := r
    obtain ⟨h1, hget, hfr, -⟩ := txinv_getPage h id hid tx1 p hg
    have hv := txView_getPage h id hid tx1 p hg
    have hp := h1.pg id p hget
    cases hcw : pageCanWrite p with
    | error e => simp [hg, bind, Except.bind, hcw] at hw
    | ok u =>
      obtain ⟨-, hfl⟩ := pageCanWrite_ok p hcw
      cases hd : p.dirty with
      | true => simp [hg, bind, Except.bind, hcw, hd] at hw
      | false =>
        obtain ⟨pid, pond, pb, pn, pfr, pfl, pc, pdirty⟩ := p
        simp only at hd hfl hfr
        subst hd hfl hfr
        simp only [hg, bind, Except.bind, hcw, Bool.false_eq_true, if_false, pure, Except.pure,
          Except.ok.injEq, Prod.mk.injEq] at hw
        obtain ⟨rfl, rfl⟩ := hw
        have hwnone : Assoc.get? tx1.walNew id = none := by
          cases hwn : Assoc.get? tx1.walNew id with
          | none => rfl
          | some w =>
            obtain ⟨-, -, -, -, q, hq, hqf⟩ := h1.wn id w hwn
            rw [hget] at hq; cases hq; cases hqf
        have hold : ∀ w, Assoc.get? f0.walMap id = some w → pond = w ∧ w ≠ id := by
          intro w hw
          have hl := he.mapKey id w hw
          have hn : pn = false := by
            cases hn : pn with
            | false => rfl
            | true =>
              have := (hp.newOk rfl hn).2.1
              exact absurd (he.liveOk id hl).2.2 this
          refine ⟨by rw [← physOf_some f0 id w hw]; exact (hp.unfl rfl hn rfl).1, fun e => ?_⟩
          exact (eng_val f0 live he id w hw).2.2 (e ▸ hl)
        have hview : ∀ T2 : TxSt, T2.pages = tx1.pages → ∀ j, j ≠ id →
            txView f0 (T2.setPage
              { id := pid, ondisk := pond, bytes := pb, new_ := pn, freed := true, flushed := false, cached := pc })
              j = txView f0 tx j := by
          intro T2 hT j hj
          rw [← hv j]
          unfold txView
          rw [get?_setPage, hT]
          have : pid = id := hp.id
          simp only [this, if_neg hj]
        have hpid : pid = id := hp.id
        subst hpid
        by_cases hc : pid ≠ pond
        · rw [if_pos hc]
          have hm : ∃ w, Assoc.get? f0.walMap pid = some w := by
            cases hm : Assoc.get? f0.walMap pid with
            | some w => exact ⟨w, rfl⟩
            | none =>
              exfalso
              apply hc
              cases hn : pn with
              | true => exact ((hp.newOk rfl hn).1).symm
              | false => have := (hp.unfl rfl hn rfl).1; rw [physOf_none f0 pid hm] at this; exact this.symm
          obtain ⟨w, hw⟩ := hm
          have hpw : pond = w := (hold w hw).1
          subst hpw
          refine ⟨txinv_free_core he h1 pid hid _ hget rfl rfl rfl _ (relWal_free f0 _ pid pond hw) ?_, hview _ rfl⟩
          intro _ _
          simp [freeWalId, mem_insertId]
        · rw [if_neg hc]
          refine ⟨txinv_free_core he h1 pid hid _ hget rfl rfl rfl _ (relWal_none f0 _ pid hwnone) ?_, hview _ rfl⟩
          intro w hw
          obtain ⟨o1, o2⟩ := hold w hw
          exfalso; apply hc; intro e; exact o2 (o1 ▸ e.symm)

/-! ### where the current pages live on disk -/

theorem tgt_inUse {f0 : FileSt} {live : List Nat} {f : FileSt} {tx : TxSt} {cur : List Nat}
    (he : EngInv f0 live) (h : TxInv f0 live f tx cur) (k : Nat) (hk : k ∈ cur) : InUse f.alloc (tgt f0 tx k) := by
  have hku := (h.curOk k hk).2.2.1
  rcases tgt_cases f0 tx k with ⟨w, hw, e⟩ | ⟨-, -, e⟩ | ⟨-, -, e⟩
  · rw [e]; exact (h.mAlloc.2 w (h.wn k w hw).2.1).1
  · rw [e]; exact hku
  · rw [e]
    by_cases hl : k ∈ live
    · exact h.keep _ (eng_phys f0 live he k hl).1
    · have := (tgt_fresh he h k hl).1
      rw [e] at this; rw [this]; exact hku

/-- two different current pages are never stored in the page with the id of one of them -/
theorem tgt_ne_cur {f0 : FileSt} {live : List Nat} {f : FileSt} {tx : TxSt} {cur : List Nat}
    (he : EngInv f0 live) (h : TxInv f0 live f tx cur) (k id : Nat) (hk : k ∈ cur) (hid : id ∈ cur ∨ id ∈ live)
    (hne : k ≠ id) : tgt f0 tx k ≠ id := by
  rcases tgt_cases f0 tx k with ⟨w, hw, e⟩ | ⟨-, -, e⟩ | ⟨-, -, e⟩
  · rw [e]; intro e2; subst e2
    rcases hid with hid | hid
    · exact (h.mAlloc.2 w (h.wn k w hw).2.1).2.2 hid
    · exact (h.mAlloc.2 w (h.wn k w hw).2.1).2.1 (he.liveOk w hid).2.2
  · rw [e]; exact hne
  · rw [e]
    by_cases hl : k ∈ live
    · cases hg : Assoc.get? f0.walMap k with
      | none => rw [physOf_none f0 k hg]; exact hne
      | some v =>
        rw [physOf_some f0 k v hg]
        have hv := eng_val f0 live he k v hg
        intro e2; subst e2
        rcases hid with hid | hid
        · rcases (h.curOk v hid).2.2.2 with c | c
          · exact hv.2.2 c
          · exact c hv.2.1
        · exact hv.2.2 hid
    · have := (tgt_fresh he h k hl).1
      rw [e] at this; rw [this]; exact hne

theorem relwal_globals {f0 : FileSt} {live : List Nat} {f : FileSt} {tx T T2 : TxSt} {cur : List Nat} {id : Nat}
    (h : TxInv f0 live f tx cur) (r : RelWal f0 T T2 id) (t2 : T.walNew = tx.walNew)
    (t3 : T.walFree = tx.walFree) (t6 : T.ta.mta.freed = tx.ta.mta.freed) :
    AscKeys T2.walNew ∧
    (∀ k1 k2 w, Assoc.get? T2.walNew k1 = some w → Assoc.get? T2.walNew k2 = some w → k1 = k2) ∧
    (∀ k ∈ T2.walFree, ∃ w, Assoc.get? f0.walMap k = some w) ∧
    (∀ x ∈ T2.ta.mta.freed, ∃ k, Assoc.get? f0.walMap k = some x ∧ k ∈ T2.walFree) ∧
    Asc T2.ta.mta.freed := by
  refine ⟨r.wnKeys (t2 ▸ h.newKeys), ?_, ?_, ?_, r.mfAsc (t6 ▸ h.mfAsc)⟩
  · intro k1 k2 w h1 h2
    have e1 : k1 ≠ id := fun e => by rw [e, r.wnSelf] at h1; cases h1
    have e2 : k2 ≠ id := fun e => by rw [e, r.wnSelf] at h2; cases h2
    rw [r.wnOther k1 e1, t2] at h1
    rw [r.wnOther k2 e2, t2] at h2
    exact h.wnInj k1 k2 w h1 h2
  · intro k hk
    by_cases e : k = id
    · subst e
      rcases r.wfSelf hk with h1 | h1
      · exact h.wfree k (t3 ▸ h1)
      · exact h1
    · exact h.wfree k (t3 ▸ (r.wfOther k e).mp hk)
  · intro x hx
    rcases r.mf x hx with h1 | h1
    · obtain ⟨k, hk1, hk2⟩ := h.mfreed x (t6 ▸ h1)
      exact ⟨k, hk1, r.wfMono k (t3 ▸ hk2)⟩
    · exact ⟨id, h1.1, h1.2⟩

theorem relwal_tail {f0 : FileSt} {live : List Nat} {f : FileSt} {tx T2 : TxSt} {cur : List Nat} {id : Nat}
    (h : TxInv f0 live f tx cur) (r : RelWal f0 tx T2 id) :
    (∀ k ∈ live, k ∉ cur → ∀ w, Assoc.get? f0.walMap k = some w → k ∈ T2.walFree) :=
  fun k hk hn w hw => r.wfMono k (h.gone k hk hn w hw)

/-! ### what growing the meta area leaves alone in the transaction's allocator state -/

/-! ### flushing one page -/

/-- flushing a page allocated by the transaction: written in place -/
theorem flush_new {f0 : FileSt} {live : List Nat} {f : FileSt} {tx : TxSt} {cur : List Nat}
    (he : EngInv f0 live) (h : TxInv f0 live f tx cur) (id : Nat) (p : PageSt)
    (hget : Assoc.get? tx.pages id = some p) (hd : p.dirty = true) (hfl : p.flushed = false)
    (hn : p.new_ = true) :
    TxInv f0 live { f with disk := Assoc.set f.disk p.ondisk (p.bytes.getD {}) }
      (tx.setPage { p with flushed := true }) cur := by
  have hp := h.pg id p hget
  have hfr := dirty_not_freed hp hd
  have hid : id ∈ cur := hp.inCur hfr
  obtain ⟨n1, n2, n3⟩ := hp.newOk hfr hn
  have hnl : id ∉ live := fun hl => n2 (he.liveOk id hl).2.2
  have hqid : ({ p with flushed := true } : PageSt).id = id := hp.id
  have hdisk : ∀ x, x ≠ id → ({ f with disk := Assoc.set f.disk p.ondisk (p.bytes.getD {}) } : FileSt).diskAt x
      = f.diskAt x := by
    intro x hx; rw [n1]; exact diskAt_set_ne f id x _ hx
  have hkeys : ∀ k, KeyOK f0 live { f with disk := Assoc.set f.disk p.ondisk (p.bytes.getD {}) }
      (tx.setPage { p with flushed := true }) cur k := by
    intro k
    by_cases hk : k = id
    · subst hk
      refine ⟨?_, ?_, ?_, ?_⟩
      · intro q hq
        rw [get?_setPage, hqid] at hq
        simp only [if_true, Option.some.injEq] at hq
        subst hq
        refine ⟨by first | exact hp.id | rfl, fun hf => (by rw [hfr] at hf; cases hf), fun _ => ⟨hd, hfr⟩,
          fun _ => hid, fun _ _ => ⟨n1, n2, n3⟩, fun _ hn' => (by rw [hn] at hn'; cases hn'), by simp, ?_,
          hp.dirtyB, fun _ hn' => (by rw [hn] at hn'; cases hn'), hp.cleanNew, hp.cachedB,
          fun hf => (by rw [hfr] at hf; cases hf)⟩
        intro _
        refine ⟨n1.trans n3.symm, ?_, fun hn' => (by rw [hn] at hn'; cases hn')⟩
        show FileSt.diskAt _ (tgt f0 tx k) = _
        rw [n3, n1]; exact diskAt_set_self f k _
      · intro _ hnone
        rw [get?_setPage, hqid] at hnone
        simp at hnone
      · intro w hw
        have : Assoc.get? tx.walNew k = some w := hw
        rw [(tgt_fresh he h k hnl).2] at this; cases this
      · intro _ w hw; exact absurd (he.mapKey k w hw) hnl
    · apply keyOK_other (txinv_key h k) hk (relWal_none f0 tx id (tgt_fresh he h id hnl).2) _ hqid rfl rfl rfl rfl rfl
        _ Iff.rfl
      intro hkc
      exact hdisk _ (tgt_ne_cur he h k id hkc (Or.inl hid) hk)
  refine ⟨h.sameMap, h.sameWP, h.inv, h.aok, h.keep, h.newKeys, ?_, fun k p => (hkeys k).pg p, h.curOk,
    fun k => (hkeys k).curNone, fun k => (hkeys k).wn, h.wnInj, h.wfree, fun hc k => (hkeys k).ck hc, h.dfreed,
    h.mfreed, h.mfAsc, h.mAlloc, h.gone⟩
  intro j hj
  rw [hdisk _ (fun e => n2 (e ▸ (eng_phys f0 live he j hj).1))]
  exact h.r0 j hj

/-- flushing a page that had an overwrite page: written back to its own page, the overwrite page is released -/
theorem flush_mapped {f0 : FileSt} {live : List Nat} {f : FileSt} {tx : TxSt} {cur : List Nat}
    (he : EngInv f0 live) (h : TxInv f0 live f tx cur) (id : Nat) (p : PageSt)
    (hget : Assoc.get? tx.pages id = some p) (hd : p.dirty = true) (hfl : p.flushed = false)
    (hn : p.new_ = false) (hne : id ≠ p.ondisk) :
    TxInv f0 live { f with disk := Assoc.set f.disk id (p.bytes.getD {}) }
      ((freeWalId tx id p.ondisk).setPage { p with ondisk := id, flushed := true }) cur := by
  have hp := h.pg id p hget
  have hfr := dirty_not_freed hp hd
  have hid : id ∈ cur := hp.inCur hfr
  have hl : id ∈ live := hp.oldOk hfr hn
  obtain ⟨u1, u2⟩ := hp.unfl hfr hn hfl
  have hm : Assoc.get? f0.walMap id = some p.ondisk := by
    cases hm : Assoc.get? f0.walMap id with
    | some w => rw [u1, physOf_some f0 id w hm]
    | none => rw [u1, physOf_none f0 id hm] at hne; exact absurd rfl hne
  have hqid : ({ p with ondisk := id, flushed := true } : PageSt).id = id := hp.id
  have r := relWal_free f0 tx id p.ondisk hm
  have hself : id ∈ (freeWalId tx id p.ondisk).walFree := by simp [freeWalId, mem_insertId]
  have htgt : tgt f0 ((freeWalId tx id p.ondisk).setPage { p with ondisk := id, flushed := true }) id = id := by
    unfold tgt
    have : Assoc.get? ((freeWalId tx id p.ondisk).setPage { p with ondisk := id, flushed := true }).walNew id = none :=
      r.wnSelf
    rw [this]
    simp only []
    exact if_pos hself
  have hdisk : ∀ x, x ≠ id → ({ f with disk := Assoc.set f.disk id (p.bytes.getD {}) } : FileSt).diskAt x
      = f.diskAt x := fun x hx => diskAt_set_ne f id x _ hx
  have hkeys : ∀ k, KeyOK f0 live { f with disk := Assoc.set f.disk id (p.bytes.getD {}) }
      ((freeWalId tx id p.ondisk).setPage { p with ondisk := id, flushed := true }) cur k := by
    intro k
    by_cases hk : k = id
    · subst hk
      refine ⟨?_, ?_, ?_, ?_⟩
      · intro q hq
        rw [get?_setPage, hqid] at hq
        simp only [if_true, Option.some.injEq] at hq
        subst hq
        refine ⟨by first | exact hp.id | rfl, fun hf => (by rw [hfr] at hf; cases hf), fun _ => ⟨hd, hfr⟩,
          fun _ => hid, fun _ hn' => (by rw [hn] at hn'; cases hn'), fun _ _ => hl, by simp, ?_,
          hp.dirtyB, fun _ _ hd' => (by rw [hd] at hd'; cases hd'), hp.cleanNew, hp.cachedB,
          fun hf => (by rw [hfr] at hf; cases hf)⟩
        intro _
        rw [htgt]
        exact ⟨rfl, diskAt_set_self f k _, fun _ => by rw [physOf_some f0 k p.ondisk hm]; exact hne⟩
      · intro _ hnone
        rw [get?_setPage, hqid] at hnone
        simp at hnone
      · intro w hw
        have : Assoc.get? (freeWalId tx k p.ondisk).walNew k = some w := hw
        rw [r.wnSelf] at this; cases this
      · intro _ w _; exact Or.inl hself
    · apply keyOK_other (txinv_key h k) hk r _ hqid rfl rfl rfl rfl rfl _ Iff.rfl
      intro hkc
      exact hdisk _ (tgt_ne_cur he h k id hkc (Or.inl hid) hk)
  obtain ⟨g1, g2, g3, g4, g5⟩ := relwal_globals h r rfl rfl rfl
  refine ⟨h.sameMap, h.sameWP, r.inv _ _ h.inv, h.aok, h.keep, g1, ?_, fun k p => (hkeys k).pg p, h.curOk,
    fun k => (hkeys k).curNone, fun k => (hkeys k).wn, g2, g3, fun hc k => (hkeys k).ck hc, h.dfreed,
    g4, g5, h.mAlloc, fun k hk hn w hw => relwal_tail h r k hk hn w hw⟩
  intro j hj
  have : f0.physOf j ≠ id := by
    intro e
    have e2 := (eng_phys f0 live he j hj).2 (e ▸ hl)
    rw [e2] at e; subst e
    rw [physOf_some f0 j p.ondisk hm] at e2
    exact hne e2.symm
  rw [hdisk _ this]
  exact h.r0 j hj

/-- flushing a committed page for the first time: written to a fresh overwrite page -/
theorem flush_wal {f0 : FileSt} {live : List Nat} {f : FileSt} {tx : TxSt} {cur : List Nat}
    (he : EngInv f0 live) (h : TxInv f0 live f tx cur) (id : Nat) (p : PageSt)
    (hget : Assoc.get? tx.pages id = some p) (hd : p.dirty = true) (hfl : p.flushed = false)
    (hn : p.new_ = false) (heq : id = p.ondisk) (a : Alloc) (ta : TxAlloc) (w : Nat)
    (hwa : walAlloc f.alloc tx.ta = some (a, ta, w)) :
    TxInv f0 live { f with alloc := a, disk := Assoc.set f.disk w (p.bytes.getD {}) }
      (({ tx with ta := ta, walNew := Assoc.set tx.walNew id w } : TxSt).setPage
        { p with ondisk := w, flushed := true }) cur := by
  have hp := h.pg id p hget
  have hfr := dirty_not_freed hp hd
  have hid : id ∈ cur := hp.inCur hfr
  have hl : id ∈ live := hp.oldOk hfr hn
  obtain ⟨u1, u2⟩ := hp.unfl hfr hn hfl
  have hm : Assoc.get? f0.walMap id = none := by
    cases hm : Assoc.get? f0.walMap id with
    | none => rfl
    | some v =>
      rw [u1, physOf_some f0 id v hm] at heq
      exact absurd (heq ▸ hl) (eng_val f0 live he id v hm).2.2
  obtain ⟨hok, hkeep, hnu, hu⟩ := fr_walAlloc f.alloc tx.ta a ta w h.aok hwa
  have hdm := dm_walAlloc f.alloc tx.ta a ta w hwa
  have hinv := inv_walAlloc f0.alloc f.alloc tx.ta a ta w he.wf h.inv hwa
  obtain ⟨s1, s2, s3, s4⟩ := walAlloc_st f.alloc tx.ta a ta w hwa
  have hnu0 : ¬ InUse f0.alloc w := fun hc => hnu (h.keep w hc)
  have hqid : ({ p with ondisk := w, flushed := true } : PageSt).id = id := hp.id
  have hdisk : ∀ x, x ≠ w → ({ f with alloc := a, disk := Assoc.set f.disk w (p.bytes.getD {}) } : FileSt).diskAt x
      = f.diskAt x := fun x hx => diskAt_set_ne f w x _ hx
  have hkeys : ∀ k, KeyOK f0 live { f with alloc := a, disk := Assoc.set f.disk w (p.bytes.getD {}) }
      (({ tx with ta := ta, walNew := Assoc.set tx.walNew id w } : TxSt).setPage
        { p with ondisk := w, flushed := true }) cur k := by
    intro k
    by_cases hk : k = id
    · subst hk
      have hwn : Assoc.get? (({ tx with ta := ta, walNew := Assoc.set tx.walNew k w } : TxSt).setPage
          { p with ondisk := w, flushed := true }).walNew k = some w := Assoc.get?_set_self _ _ _
      have htgt : tgt f0 (({ tx with ta := ta, walNew := Assoc.set tx.walNew k w } : TxSt).setPage
          { p with ondisk := w, flushed := true }) k = w := by
        unfold tgt; rw [hwn]
      refine ⟨?_, ?_, ?_, ?_⟩
      · intro q hq
        rw [get?_setPage, hqid] at hq
        simp only [if_true, Option.some.injEq] at hq
        subst hq
        refine ⟨by first | exact hp.id | rfl, fun hf => (by rw [hfr] at hf; cases hf), fun _ => ⟨hd, hfr⟩,
          fun _ => hid, fun _ hn' => (by rw [hn] at hn'; cases hn'), fun _ _ => hl, by simp, ?_,
          hp.dirtyB, fun _ _ hd' => (by rw [hd] at hd'; cases hd'), hp.cleanNew, hp.cachedB,
          fun hf => (by rw [hfr] at hf; cases hf)⟩
        intro _
        rw [htgt]
        refine ⟨rfl, diskAt_set_self _ w _, fun _ => ?_⟩
        rw [physOf_none f0 k hm]
        exact fun e => hnu (e ▸ (h.curOk k hid).2.2.1)
      · intro _ hnone
        rw [get?_setPage, hqid] at hnone
        simp at hnone
      · intro w' hw'
        rw [hwn] at hw'
        cases hw'
        refine ⟨hnu0, ?_, hl, hm, { p with ondisk := w, flushed := true }, by rw [get?_setPage, hqid]; simp, rfl⟩
        show w ∈ ta.mta.allocated
        rw [s1, mem_insertId]; exact Or.inl rfl
      · intro _ v hv; rw [hm] at hv; cases hv
    · apply keyOK_congr (txinv_key h k)
      · rw [get?_setPage, hqid, if_neg hk]
      · exact Assoc.get?_set_ne _ _ _ _ hk
      · exact Iff.rfl
      · intro hkc
        exact hdisk _ (fun e => hnu (e ▸ tgt_inUse he h k hkc))
      · exact Iff.rfl
      · intro x hx
        show x ∈ ta.mta.allocated
        rw [s1, mem_insertId]; exact Or.inr hx
      · exact fun hc => hc
  refine ⟨h.sameMap, h.sameWP, hinv, hok, fun x hx => hkeep x (h.keep x hx), ascKeys_set _ _ _ h.newKeys, ?_,
    fun k p => (hkeys k).pg p, ?_, fun k => (hkeys k).curNone, fun k => (hkeys k).wn, ?_, h.wfree,
    fun hc k => (hkeys k).ck hc, ?_, ?_, ?_, ?_, h.gone⟩
  · intro j hj
    rw [hdisk _ (fun e => hnu0 (e ▸ (eng_phys f0 live he j hj).1))]
    exact h.r0 j hj
  · intro k hk
    obtain ⟨c1, c2, c3, c4⟩ := h.curOk k hk
    exact ⟨c1, Nat.lt_of_lt_of_le c2 hdm, hkeep k c3, c4⟩
  · intro k1 k2 v h1 h2
    have key : ∀ k, Assoc.get? (Assoc.set tx.walNew id w) k = some v → (k = id ∧ v = w) ∨
        (k ≠ id ∧ Assoc.get? tx.walNew k = some v ∧ v ≠ w) := by
      intro k hk
      by_cases e : k = id
      · subst e; rw [Assoc.get?_set_self] at hk; cases hk; exact Or.inl ⟨rfl, rfl⟩
      · rw [Assoc.get?_set_ne _ _ _ _ e] at hk
        exact Or.inr ⟨e, hk, fun e2 => hnu (e2 ▸ (h.mAlloc.2 v (h.wn k v hk).2.1).1)⟩
    rcases key k1 h1 with ⟨a1, a2⟩ | ⟨a1, a2, a3⟩ <;> rcases key k2 h2 with ⟨b1, b2⟩ | ⟨b1, b2, b3⟩
    · rw [a1, b1]
    · exact absurd a2 b3
    · exact absurd b2 a3
    · exact h.wnInj k1 k2 v a2 b2
  · intro x hx
    have hx' : x ∈ tx.ta.data.freed := s3 ▸ hx
    obtain ⟨d1, d2, d3, d4, d5, d6⟩ := h.dfreed x hx'
    refine ⟨d1, d2, Nat.lt_of_lt_of_le d3 hdm, hkeep x d4, d5, ?_⟩
    show x ∉ ta.mta.allocated
    rw [s1, mem_insertId]
    intro hc
    rcases hc with hc | hc
    · exact hnu (hc ▸ d4)
    · exact d6 hc
  · intro x hx
    exact h.mfreed x (s2 ▸ hx)
  · show Asc ta.mta.freed
    rw [s2]; exact h.mfAsc
  · refine ⟨?_, ?_⟩
    · show Asc ta.mta.allocated
      rw [s1]; exact asc_insertId _ _ h.mAlloc.1
    · intro x hx
      have hx' : x ∈ insertId w tx.ta.mta.allocated := s1 ▸ hx
      rcases (mem_insertId w x _).mp hx' with e | e
      · subst e
        exact ⟨hu, hnu0, fun hc => hnu (h.curOk x hc).2.2.1⟩
      · obtain ⟨m1, m2, m3⟩ := h.mAlloc.2 x e
        exact ⟨hkeep x m1, m2, m3⟩

theorem txinv_doFlush {f0 : FileSt} {live : List Nat} {f : FileSt} {tx : TxSt} {cur : List Nat}
    (he : EngInv f0 live) (h : TxInv f0 live f tx cur) (id : Nat) (p : PageSt)
    (hget : Assoc.get? tx.pages id = some p) (f' : FileSt) (tx' : TxSt) (w : Option Nat)
    (hw : doFlush f tx p = .ok (f', tx', w)) :
    TxInv f0 live f' tx' cur ∧ ∀ j, txView f0 tx' j = txView f0 tx j := by
  have hp := h.pg id p hget
  have hpid := hp.id
  obtain ⟨pid, pond, pb, pn, pfr, pfl, pc, pdirty⟩ := p
  simp only at hpid
  subst hpid
  unfold doFlush at hw
  cases pdirty with
  | false =>
    simp only [Bool.not_false, Bool.true_or, if_true, Except.ok.injEq, Prod.mk.injEq] at hw
    obtain ⟨rfl, rfl, -⟩ := hw
    exact ⟨h, fun _ => rfl⟩
  | true =>
    cases pfl with
    | true =>
      simp only [Bool.not_true, Bool.or_true, if_true, Except.ok.injEq, Prod.mk.injEq] at hw
      obtain ⟨rfl, rfl, -⟩ := hw
      exact ⟨h, fun _ => rfl⟩
    | false =>
      simp only [Bool.not_true, Bool.or_self, Bool.false_eq_true, if_false] at hw
      cases pn with
      | true =>
        simp only [if_true, Except.ok.injEq, Prod.mk.injEq] at hw
        obtain ⟨rfl, rfl, -⟩ := hw
        exact ⟨flush_new he h pid _ hget rfl rfl rfl, txView_flushPage f0 tx tx pid _ _ rfl hget rfl rfl rfl rfl⟩
      | false =>
        simp only [Bool.false_eq_true, if_false] at hw
        by_cases heq : pid = pond
        · subst heq
          simp only [if_true] at hw
          cases hwa : walAlloc f.alloc tx.ta with
          | none => simp [hwa] at hw
          | some r =>
            obtain ⟨a, ta, w'⟩ := r
            simp only [hwa, Except.ok.injEq, Prod.mk.injEq] at hw
            obtain ⟨rfl, rfl, -⟩ := hw
            exact ⟨flush_wal he h pid _ hget rfl rfl rfl rfl a ta w' hwa,
              txView_flushPage f0 tx _ pid _ _ rfl hget rfl rfl rfl rfl⟩
        · simp only [heq, if_false, Except.ok.injEq, Prod.mk.injEq] at hw
          obtain ⟨rfl, rfl, -⟩ := hw
          exact ⟨flush_mapped he h pid _ hget rfl rfl rfl heq,
            txView_flushPage f0 tx _ pid _ _ rfl hget rfl rfl rfl rfl⟩

theorem txinv_flushList {f0 : FileSt} {live : List Nat} {cur : List Nat} (he : EngInv f0 live) (ids : List Nat) :
    ∀ (f : FileSt) (tx : TxSt), TxInv f0 live f tx cur → ∀ (f' : FileSt) (tx' : TxSt) (ws : List (Nat × Nat)),
    flushList f tx ids = .ok (f', tx', ws) →
    TxInv f0 live f' tx' cur ∧ ∀ j, txView f0 tx' j = txView f0 tx j := by
  induction ids with
  | nil =>
    intro f tx h f' tx' ws hw
    simp only [flushList, Except.ok.injEq, Prod.mk.injEq] at hw
    obtain ⟨rfl, rfl, -⟩ := hw
    exact ⟨h, fun _ => rfl⟩
  | cons id ids ih =>
    intro f tx h f' tx' ws hw
    unfold flushList at hw
    cases hg : Assoc.get? tx.pages id with
    | none => simp [hg] at hw
    | some p =>
      simp only [hg] at hw
      cases hf : doFlush f tx p with
      | error e => simp [hf] at hw
      | ok r =>
        obtain ⟨f1, tx1, w⟩ := r
        simp only [hf] at hw
        obtain ⟨h1, v1⟩ := txinv_doFlush he h id p hg f1 tx1 w hf
        cases hr : flushList f1 tx1 ids with
        | error e => simp [hr] at hw
        | ok r2 =>
          obtain ⟨f2, tx2, ws2⟩ := r2
          simp only [hr, Except.ok.injEq, Prod.mk.injEq] at hw
          obtain ⟨rfl, rfl, -⟩ := hw
          obtain ⟨h2, v2⟩ := ih f1 tx1 h1 f2 tx2 ws2 hr
          exact ⟨h2, fun j => (v2 j).trans (v1 j)⟩

/-! ### checkpoint -/

theorem txinv_ckptOne {f0 : FileSt} {live : List Nat} {f : FileSt} {tx : TxSt} {cur : List Nat}
    (he : EngInv f0 live) (h : TxInv f0 live f tx cur) (k v : Nat) (hm : Assoc.get? f0.walMap k = some v)
    (hclean : ∀ p, Assoc.get? tx.pages k = some p → p.dirty = false) :
    TxInv f0 live { f with disk := Assoc.set f.disk k (f.diskAt v) } (freeWalId tx k v) cur := by
  have hl : k ∈ live := he.mapKey k v hm
  have hv := eng_val f0 live he k v hm
  have r := relWal_free f0 tx k v hm
  have hself : k ∈ (freeWalId tx k v).walFree := by simp [freeWalId, mem_insertId]
  have htgt : tgt f0 (freeWalId tx k v) k = k := by
    unfold tgt
    rw [r.wnSelf]
    simp only []
    exact if_pos hself
  have hdisk : ∀ x, x ≠ k → ({ f with disk := Assoc.set f.disk k (f.diskAt v) } : FileSt).diskAt x = f.diskAt x :=
    fun x hx => diskAt_set_ne f k x _ hx
  have hcopy : ({ f with disk := Assoc.set f.disk k (f.diskAt v) } : FileSt).diskAt k = f0.readPage k := by
    rw [diskAt_set_self]
    have := h.r0 k hl
    rw [physOf_some f0 k v hm] at this
    rw [this]; unfold FileSt.readPage; rw [physOf_some f0 k v hm]
  have hkeys : ∀ j, KeyOK f0 live { f with disk := Assoc.set f.disk k (f.diskAt v) } (freeWalId tx k v) cur j := by
    intro j
    by_cases hj : j = k
    · subst hj
      refine ⟨?_, ?_, ?_, ?_⟩
      · intro p hp
        have hp' : Assoc.get? tx.pages j = some p := hp
        have hd := hclean p hp'
        have ho := h.pg j p hp'
        have hfl : p.flushed = false := by
          cases hf : p.flushed with
          | false => rfl
          | true => have := (ho.flDirty hf).1; rw [hd] at this; cases this
        refine ⟨ho.id, ho.freedClean, ho.flDirty, ho.inCur, ?_, ho.oldOk, ?_, fun hf => (by rw [hfl] at hf; cases hf),
          ho.dirtyB, ?_, ho.cleanNew, ho.cachedB, ho.notCur⟩
        · intro hfr hn; exact absurd (he.liveOk j hl).2.2 (ho.newOk hfr hn).2.1
        · intro hfr hn _; exact ⟨(ho.unfl hfr hn hfl).1, r.wnSelf⟩
        · intro hfr hn hd'
          rw [htgt]
          exact ⟨(ho.cleanOld hfr hn hd').1, hcopy⟩
      · intro _ _; rw [htgt]; exact ⟨hl, hcopy⟩
      · intro w hw
        have : Assoc.get? (freeWalId tx j v).walNew j = some w := hw
        rw [r.wnSelf] at this; cases this
      · intro _ _ _; exact Or.inl hself
    · apply keyOK_congr (txinv_key h j)
      · rfl
      · exact r.wnOther j hj
      · exact r.wfOther j hj
      · intro hjc
        exact hdisk _ (tgt_ne_cur he h j k hjc (Or.inr hl) hj)
      · exact Iff.rfl
      · intro x hx; exact hx
      · exact fun hc => hc
  obtain ⟨g1, g2, g3, g4, g5⟩ := relwal_globals h r rfl rfl rfl
  refine ⟨h.sameMap, h.sameWP, r.inv _ _ h.inv, h.aok, h.keep, g1, ?_, fun k p => (hkeys k).pg p, h.curOk,
    fun k => (hkeys k).curNone, fun k => (hkeys k).wn, g2, g3, fun hc k => (hkeys k).ck hc, h.dfreed,
    g4, g5, h.mAlloc, fun k hk hn w hw => relwal_tail h r k hk hn w hw⟩
  intro j hj
  have : f0.physOf j ≠ k := by
    intro e
    have e2 := (eng_phys f0 live he j hj).2 (e ▸ hl)
    rw [e2] at e; subst e
    rw [physOf_some f0 j v hm] at e2
    exact hv.2.2 (e2 ▸ hl)
  rw [hdisk _ this]
  exact h.r0 j hj

theorem txinv_ckptFold {f0 : FileSt} {live : List Nat} {cur : List Nat} (he : EngInv f0 live)
    (pages0 : Assoc PageSt) (l : Assoc Nat) :
    ∀ (f : FileSt) (tx : TxSt), TxInv f0 live f tx cur → tx.pages = pages0 →
    (∀ e ∈ l, Assoc.get? f0.walMap e.1 = some e.2 ∧ ∀ p, Assoc.get? pages0 e.1 = some p → p.dirty = false) →
    TxInv f0 live (l.foldl ckptOne (f, tx)).1 (l.foldl ckptOne (f, tx)).2 cur ∧
    (l.foldl ckptOne (f, tx)).2.pages = pages0 ∧
    (l.foldl ckptOne (f, tx)).2.checkpoint = tx.checkpoint ∧
    (∀ k, k ∈ tx.walFree → k ∈ (l.foldl ckptOne (f, tx)).2.walFree) ∧
    (∀ e ∈ l, e.1 ∈ (l.foldl ckptOne (f, tx)).2.walFree) := by
  induction l with
  | nil => intro f tx h hp _; exact ⟨h, hp, rfl, fun _ hk => hk, fun _ he => nomatch he⟩
  | cons e l ih =>
    intro f tx h hp hl
    rw [List.foldl_cons]
    obtain ⟨e1, e2⟩ := hl e List.mem_cons_self
    have h1 := txinv_ckptOne he h e.1 e.2 e1 (by rw [hp]; exact e2)
    obtain ⟨i1, i2, i3, i4, i5⟩ := ih _ _ h1 hp (fun x hx => hl x (List.mem_cons_of_mem _ hx))
    have hmono : ∀ k, k ∈ tx.walFree → k ∈ (ckptOne (f, tx) e).2.walFree := by
      intro k hk; simp [ckptOne, freeWalId, mem_insertId, hk]
    refine ⟨i1, i2, i3, fun k hk => i4 k (hmono k hk), ?_⟩
    intro x hx
    rcases List.mem_cons.mp hx with hx | hx
    · subst hx
      apply i4
      simp [freeWalId, mem_insertId]
    · exact i5 x hx

theorem txinv_setCkpt {f0 : FileSt} {live : List Nat} {f : FileSt} {T : TxSt} {cur : List Nat}
    (h : TxInv f0 live f T cur)
    (hck : ∀ k w, Assoc.get? f0.walMap k = some w →
      k ∈ T.walFree ∨ ∃ p, Assoc.get? T.pages k = some p ∧ p.dirty = true ∧ p.flushed = false) :
    TxInv f0 live f { T with checkpoint := true } cur :=
  ⟨h.sameMap, h.sameWP, h.inv, h.aok, h.keep, h.newKeys, h.r0,
    fun k p hp => pageOK_congr (h.pg k p hp) rfl rfl (fun _ => rfl) (fun _ hc => hc) (fun _ hc => hc), h.curOk,
    h.curNone, h.wn,
    h.wnInj, h.wfree, fun _ => hck, h.dfreed, h.mfreed, h.mfAsc, h.mAlloc, h.gone⟩

theorem dirty_mapped_covered {f0 : FileSt} {live : List Nat} {f : FileSt} {tx : TxSt} {cur : List Nat}
    (he : EngInv f0 live) (h : TxInv f0 live f tx cur) (k w : Nat) (hm : Assoc.get? f0.walMap k = some w)
    (p : PageSt) (hp : Assoc.get? tx.pages k = some p) (hd : p.dirty = true) :
    k ∈ tx.walFree ∨ ∃ p, Assoc.get? tx.pages k = some p ∧ p.dirty = true ∧ p.flushed = false := by
  cases hf : p.flushed with
  | false => exact Or.inr ⟨p, hp, hd, hf⟩
  | true =>
    left
    have ho := h.pg k p hp
    have hl := he.mapKey k w hm
    have hfr := dirty_not_freed ho hd
    have hn : p.new_ = false := by
      cases hn : p.new_ with
      | false => rfl
      | true => exact absurd (he.liveOk k hl).2.2 (ho.newOk hfr hn).2.1
    have hne := (ho.fl hf).2.2 hn
    rcases tgt_cases f0 tx k with ⟨w', hw', _⟩ | ⟨_, hk, _⟩ | ⟨_, _, e⟩
    · have := (h.wn k w' hw').2.2.2.1
      rw [hm] at this; cases this
    · exact hk
    · exact absurd e hne

theorem txinv_doCheckpoint {f0 : FileSt} {live : List Nat} {f : FileSt} {tx : TxSt} {cur : List Nat}
    (he : EngInv f0 live) (h : TxInv f0 live f tx cur) :
    TxInv f0 live (doCheckpoint f tx).1 (doCheckpoint f tx).2.1 cur ∧
    (doCheckpoint f tx).2.1.pages = tx.pages ∧
    (∀ k w, Assoc.get? f0.walMap k = some w → k ∈ (doCheckpoint f tx).2.1.walFree ∨
      ∃ p, Assoc.get? tx.pages k = some p ∧ p.dirty = true ∧ p.flushed = false) := by
  -- what the entries of `ckptTodo` are
  have htodo : ∀ e, e ∈ ckptTodo f tx ↔ e ∈ f0.walMap ∧
      (match Assoc.get? tx.pages e.1 with | some p => !p.dirty | none => true) = true := by
    intro e; unfold ckptTodo; rw [List.mem_filter, h.sameMap]; exact Iff.rfl
  have hnot : ∀ k w, Assoc.get? f0.walMap k = some w → (k, w) ∉ ckptTodo f tx →
      k ∈ tx.walFree ∨ ∃ p, Assoc.get? tx.pages k = some p ∧ p.dirty = true ∧ p.flushed = false := by
    intro k w hm hn
    rw [htodo] at hn
    cases hp : Assoc.get? tx.pages k with
    | none => exact absurd ⟨Assoc.mem_of_get? _ _ _ hm, by simp [hp]⟩ hn
    | some p =>
      cases hd : p.dirty with
      | false => exact absurd ⟨Assoc.mem_of_get? _ _ _ hm, by simp [hp, hd]⟩ hn
      | true =>
        rcases dirty_mapped_covered he h k w hm p hp hd with h1 | ⟨q, hq, h2, h3⟩
        · exact Or.inl h1
        · exact Or.inr ⟨q, hp.symm.trans hq, h2, h3⟩
  unfold doCheckpoint
  by_cases hc : tx.checkpoint = true
  · rw [if_pos hc]; exact ⟨h, rfl, h.ck hc⟩
  rw [if_neg hc]
  by_cases hemp : (ckptTodo f tx).isEmpty = true
  · rw [if_pos hemp]
    refine ⟨h, rfl, ?_⟩
    intro k w hm
    apply hnot k w hm
    rw [List.isEmpty_iff] at hemp
    rw [hemp]; exact List.not_mem_nil
  rw [if_neg hemp]
  have hl : ∀ e ∈ ckptTodo f tx, Assoc.get? f0.walMap e.1 = some e.2 ∧
      ∀ p, Assoc.get? tx.pages e.1 = some p → p.dirty = false := by
    intro e hin
    rw [htodo] at hin
    refine ⟨Assoc.get?_of_mem _ he.keys e.1 e.2 hin.1, ?_⟩
    intro p hp
    have := hin.2
    rw [hp] at this
    simpa using this
  obtain ⟨i1, i2, i3, i4, i5⟩ := txinv_ckptFold he tx.pages (ckptTodo f tx) f tx h rfl hl
  have hck : ∀ k w, Assoc.get? f0.walMap k = some w →
      k ∈ ((ckptTodo f tx).foldl ckptOne (f, tx)).2.walFree ∨
      ∃ p, Assoc.get? tx.pages k = some p ∧ p.dirty = true ∧ p.flushed = false := by
    intro k w hm
    by_cases hin : (k, w) ∈ ckptTodo f tx
    · exact Or.inl (i5 (k, w) hin)
    · rcases hnot k w hm hin with h1 | h1
      · exact Or.inl (i4 k h1)
      · exact Or.inr h1
  exact ⟨txinv_setCkpt i1 (by rw [i2]; exact hck), i2, hck⟩

/-! ### operation lists of one write transaction -/

/-- the engine state and the abstract store agree inside the transaction -/
structure RunInv (f0 : FileSt) (live : List Nat) (s : ERunSt) : Prop where
  tx : TxInv f0 live s.f s.tx s.cur
  view : ∀ j ∈ s.cur, s.σ j = txView f0 s.tx j

theorem txinv_flushPageOp {f0 : FileSt} {live : List Nat} {f : FileSt} {tx : TxSt} {cur : List Nat}
    (he : EngInv f0 live) (h : TxInv f0 live f tx cur) (id : Nat) (hid : id ∈ cur) (f' : FileSt) (tx' : TxSt)
    (w : Option Nat) (hw : flushPageOp f tx id = .ok (f', tx', w)) :
    TxInv f0 live f' tx' cur ∧ ∀ j, txView f0 tx' j = txView f0 tx j := by
  unfold flushPageOp at hw
  cases hg : getPage f tx id with
  | error e => simp [hg, bind, Except.bind] at hw
  | ok r =>
    obtain ⟨tx1, p⟩ := r
    simp only [hg, bind, Except.bind] at hw
    obtain ⟨h1, hget, -, -⟩ := txinv_getPage h id hid tx1 p hg
    have hv := txView_getPage h id hid tx1 p hg
    cases hcw : pageCanWrite p with
    | error e => simp [hcw] at hw
    | ok u =>
      simp only [hcw] at hw
      obtain ⟨h2, v2⟩ := txinv_doFlush he h1 id p hget f' tx' w hw
      exact ⟨h2, fun j => (v2 j).trans (hv j)⟩

theorem runinv_step {f0 : FileSt} {live : List Nat} (he : EngInv f0 live) (s : ERunSt) (op : EOp)
    (h : RunInv f0 live s) : RunInv f0 live (op.step s) := by
  cases op with
  | alloc n =>
    simp only [EOp.step]
    split
    · rename_i f tx ids hr
      obtain ⟨h1, h2, h3⟩ := txinv_alloc he h.tx n f tx ids hr
      refine ⟨h1, ?_⟩
      intro j hj
      show (if j ∈ ids then none else s.σ j) = _
      rw [h3 j]
      by_cases hji : j ∈ ids
      · simp [hji]
      · simp only [hji, if_false]
        rcases List.mem_append.mp hj with hj | hj
        · exact h.view j hj
        · exact absurd hj hji
    · exact h
  | write id mode st =>
    simp only [EOp.step]
    split
    · rename_i hid
      split
      · rename_i tx hr
        obtain ⟨h1, h2, h3⟩ := txinv_write h.tx id hid mode st tx hr
        refine ⟨h1, ?_⟩
        intro j hj
        show (if j = id then some (wr mode id st ((s.σ id).getD {})) else s.σ j) = _
        by_cases hji : j = id
        · subst hji
          rw [if_pos rfl, h2, h.view j hid]
        · rw [if_neg hji, h3 j hji]; exact h.view j hj
      · exact h
    · exact h
  | load id =>
    simp only [EOp.step]
    split
    · rename_i hid
      split
      · rename_i tx hr
        obtain ⟨h1, h2⟩ := txinv_load h.tx id hid tx hr
        exact ⟨h1, fun j hj => (h.view j hj).trans (h2 j).symm⟩
      · exact h
    · exact h
  | read id =>
    simp only [EOp.step]
    split
    · rename_i hid
      split
      · rename_i tx c hr
        obtain ⟨h1, h2, -⟩ := txinv_read h.tx id hid tx c hr
        exact ⟨h1, fun j hj => (h.view j hj).trans (h2 j).symm⟩
      · exact h
    · exact h
  | free id =>
    simp only [EOp.step]
    split
    · rename_i hid
      split
      · rename_i f tx hr
        obtain ⟨h1, h2⟩ := txinv_free he h.tx id hid f tx hr
        refine ⟨h1, ?_⟩
        intro j hj
        have hj' := (mem_filter_ne _ _ _).mp hj
        exact (h.view j hj'.1).trans (h2 j hj'.2).symm
      · exact h
    · exact h
  | flushPage id =>
    simp only [EOp.step]
    split
    · rename_i hid
      split
      · rename_i f tx w hr
        obtain ⟨h1, h2⟩ := txinv_flushPageOp he h.tx id hid f tx w hr
        exact ⟨h1, fun j hj => (h.view j hj).trans (h2 j).symm⟩
      · exact h
    · exact h
  | flushAll order =>
    simp only [EOp.step]
    split
    · rename_i f tx ws hr
      obtain ⟨h1, h2⟩ := txinv_flushList he order s.f s.tx h.tx f tx ws hr
      exact ⟨h1, fun j hj => (h.view j hj).trans (h2 j).symm⟩
    · exact h
  | checkpoint =>
    simp only [EOp.step]
    obtain ⟨h1, h2, -⟩ := txinv_doCheckpoint he h.tx
    exact ⟨h1, fun j hj => (h.view j hj).trans (txView_pages f0 _ _ h2 j).symm⟩

theorem runinv_ops {f0 : FileSt} {live : List Nat} (he : EngInv f0 live) (ops : List EOp) (s : ERunSt)
    (h : RunInv f0 live s) : RunInv f0 live (runEOps s ops) := by
  induction ops generalizing s with
  | nil => exact h
  | cons op ops ih => exact ih _ (runinv_step he s op h)

/-! ### abort -/

theorem engInv_congr {f f' : FileSt} {live : List Nat} (h : EngInv f live) (e1 : f'.alloc = f.alloc)
    (e2 : f'.walMap = f.walMap) (e3 : f'.walPages = f.walPages) : EngInv f' live := by
  have ei : f'.internal = f.internal := by unfold FileSt.internal; rw [e1, e2, e3]
  refine ⟨e1 ▸ h.wf, e2 ▸ h.keys, ?_, ?_, ?_, ?_, ei ▸ h.intNodup, ?_, e1 ▸ h.lim2⟩
  · rw [e1]; exact h.liveOk
  · rw [e2]; exact h.mapKey
  · rw [e2]; exact h.mapInj
  · rw [ei, e1]; exact h.intOk
  · rw [ei, e1]; exact h.total

/-- ending the transaction without commit restores the committed state as far as a reader can see,
    and the allocator exactly -/
theorem abort_core {f0 : FileSt} {live : List Nat} {f : FileSt} {tx : TxSt}
    (he : EngInv f0 live) (hm : f.walMap = f0.walMap) (hwp : f.walPages = f0.walPages)
    (hi : Inv f0.alloc f.alloc tx.ta)
    (hr : ∀ id ∈ live, f.diskAt (f0.physOf id) = f0.diskAt (f0.physOf id)) :
    EngInv (txAbort f tx) live ∧ (txAbort f tx).alloc = f0.alloc ∧ (txAbort f tx).walMap = f0.walMap ∧
    ∀ id ∈ live, (txAbort f tx).readPage id = f0.readPage id := by
  have ha : (txAbort f tx).alloc = f0.alloc := rollback_of_inv f0.alloc f.alloc tx.ta he.wf hi
  refine ⟨engInv_congr he ha hm hwp, ha, hm, ?_⟩
  intro id hid
  exact readPage_congr id hm (hr id hid)

theorem abort_spec {f0 : FileSt} {live : List Nat} {f : FileSt} {tx : TxSt} {cur : List Nat}
    (he : EngInv f0 live) (h : TxInv f0 live f tx cur) :
    EngInv (txAbort f tx) live ∧ (txAbort f tx).alloc = f0.alloc ∧ (txAbort f tx).walMap = f0.walMap ∧
    ∀ id ∈ live, (txAbort f tx).readPage id = f0.readPage id :=
  abort_core he h.sameMap h.sameWP h.inv h.r0

end TxVerif.U
