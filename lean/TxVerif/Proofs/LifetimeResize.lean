/-
  The lifetime invariant `U.EngInv` (Proofs/LifetimeRefine1.lean) and the steps of a file lifetime that are not
  write transactions: close + reopen (`FileSt.reopenP`) and the open-time limit update (`FileSt.resizeWith`,
  `FileSt.resize`, Model/Resize.lean): `limitTx` (new limit + precise absorb rule), `releaseTx`
  (`initTxReleaseRegions`), `shrinkFile`, `growFile`, bounding an unbounded file.

  All of them preserve `U.EngInv` — for EVERY new limit `n` with `n = 0 ∨ 2 ≤ n` (a limit covers the two header
  pages), every decision kind, and every state satisfying `U.EngInv` (in particular states with the meta end marker
  above the data end marker and nothing in between: the corner `c14e_resize_invariant_partial` leaves open is closed —
  `U.EngInv` does not need `mta.endMarker ≤ data.endMarker` for the release transaction).
-/
import TxVerif.Proofs.LifetimeMore
import TxVerif.Proofs.ResizeEngine
import TxVerif.Proofs.ReopenP
namespace TxVerif.U

/-! ### `U.EngInv` is implied by `Ov.EngInv` -/

theorem engInv_of_ov {f : FileSt} {live : List Nat} (h : Ov.EngInv f live) : EngInv f live := by
  refine ⟨⟨h.wf.ascData, h.wf.ascMeta, h.wf.dataRange, h.wf.metaRange, h.wf.disj, h.wf.dataEnd, ?_, h.wf.total⟩,
    h.keys, h.liveOk, h.mapKey, h.mapInj, fun x hx => (h.intOk x hx).2, h.intNodup, h.total, h.lim2⟩
  intro x hx
  have h1 := h.wf.dataRange x hx
  have h2 := h.wf.limit x hx
  have h3 := h.ends
  omega

theorem engInv_ws {f : FileSt} {live : List Nat} (h : EngInv f live) (n : Nat) : EngInv (f.ws n) live :=
  engInv_congr h rfl rfl rfl

/-! ### meta pages, `NoLowMeta`, reopen -/

/-- every meta page of a committed state lies below the meta end marker, and below the data end marker or at /
    beyond the limit -/
theorem metaPages_ok {f : FileSt} {live : List Nat} (he : EngInv f live) (p : Nat) (hp : p ∈ f.metaPages) :
    p < f.alloc.mta.endMarker ∧ (p < f.alloc.data.endMarker ∨ (0 < f.alloc.maxPages ∧ f.alloc.maxPages ≤ p)) := by
  rcases (mem_metaPages f p).mp hp with hp | hp
  · exact he.wf.metaRange p hp
  · have := (he.intOk p hp).1
    exact ⟨this.2.2.1, this.2.2.2⟩

theorem noLowMeta {f : FileSt} {live : List Nat} (he : EngInv f live) : NoLowMeta f := by
  rw [noLowMeta_iff]
  right
  intro p hp h2 _
  have := (metaPages_ok he p hp).2
  omega

/-- close + reopen is the identity up to the statistic and keeps the invariant -/
theorem reopenP_ws {f : FileSt} {live : List Nat} (he : EngInv f live) : f.reopenP = f.ws f.openStat :=
  reopenP_eq_ws f (noLowMeta he)

theorem engInv_reopenP {f : FileSt} {live : List Nat} (he : EngInv f live) : EngInv f.reopenP live := by
  rw [reopenP_ws he]; exact engInv_ws he _

/-! ### a new limit and the precise absorb rule -/

/-- setting ANY new limit (raised, lowered, removed, given to an unbounded file) and running the precise absorb
    rule keeps the invariant -/
theorem engInv_setLimit {f : FileSt} {live : List Nat} (he : EngInv f live) (n : Nat) (hn : n = 0 ∨ 2 ≤ n)
    (g : FileSt) (hg : g.alloc = { f.alloc with maxPages := n }) (hM : g.walMap = f.walMap)
    (hW : g.walPages = f.walPages) : EngInv g.absorbP live := by
  obtain ⟨k1, k2, k3, k4, k5, -, k7, k8, -, -, -, -, hc⟩ := absorbP_keeps g
  have gM : g.alloc.mta = f.alloc.mta := by rw [hg]
  have gF : g.alloc.data.free = f.alloc.data.free := by rw [hg]
  have gD : g.alloc.data.endMarker = f.alloc.data.endMarker := by rw [hg]
  have gL : g.alloc.maxPages = n := by rw [hg]
  have gT : g.alloc.metaTotal = f.alloc.metaTotal := by rw [hg]
  have gFl : g.alloc.freelistPages = f.alloc.freelistPages := by rw [hg]
  have hint : g.absorbP.internal = f.internal := by
    unfold FileSt.internal; rw [k5, k7, k8, gFl, hM, hW]
  have hmp : g.metaPages = f.metaPages := by unfold FileSt.metaPages; rw [gM, gFl, hM, hW]
  have hde : f.alloc.data.endMarker ≤ g.absorbP.alloc.data.endMarker := by
    have := (absorbP_max g).2; rw [gD] at this; exact this
  -- the last clause of `InUse` under the new limit, for meta pages and for pages below the old data end marker
  have hcl : ∀ x, x < f.alloc.mta.endMarker → (x < f.alloc.data.endMarker ∨ x ∈ f.metaPages) →
      x < g.absorbP.alloc.data.endMarker ∨ (0 < n ∧ n ≤ x) := by
    intro x hxM hx
    rcases hc with ⟨h0, heq⟩ | ⟨-, -, hdeq⟩
    · rcases hx with hx | hx
      · left; rw [heq, gD]; exact hx
      · rw [heq, gD]
        by_cases hxd : x < f.alloc.data.endMarker
        · exact Or.inl hxd
        · right
          rcases (noLowMeta_iff g).mp h0 with h1 | h1
          · rw [gM, gD] at h1; omega
          · have := h1 x (hmp ▸ hx) (by rw [gD]; omega) (by rw [gM]; exact hxM)
            rw [gL] at this; exact this
    · left; rw [hdeq, gM]; exact hxM
  have hu : ∀ x, InUse f.alloc x → (x < f.alloc.data.endMarker ∨ x ∈ f.metaPages) → InUse g.absorbP.alloc x := by
    intro x hx hx2
    refine ⟨by rw [k1, gF]; exact hx.1, by rw [k2, gM]; exact hx.2.1, by rw [k2, gM]; exact hx.2.2.1, ?_⟩
    rw [k4, gL]
    exact hcl x hx.2.2.1 hx2
  refine ⟨⟨?_, ?_, ?_, ?_, ?_, ?_, ?_, ?_⟩, ?_, ?_, ?_, ?_, ?_, ?_, ?_, ?_⟩
  · rw [k1, gF]; exact he.wf.ascData
  · rw [k2, gM]; exact he.wf.ascMeta
  · intro x hx
    rw [k1, gF] at hx
    have := he.wf.dataRange x hx
    exact ⟨this.1, by omega⟩
  · intro x hx
    rw [k2, gM] at hx
    have h1 := he.wf.metaRange x hx
    rw [k2, gM, k4, gL]
    exact ⟨h1.1, hcl x h1.1 (Or.inr ((mem_metaPages f x).mpr (Or.inl hx)))⟩
  · intro x hx
    rw [k1, gF] at hx
    rw [k2, gM]
    exact he.wf.disj x hx
  · have := he.wf.dataEnd; omega
  · intro x hx
    rw [k1, gF] at hx
    rw [k2, gM]
    exact he.wf.limit x hx
  · rw [k2, gM, k3, gT]; exact he.wf.total
  · rw [k7, hM]; exact he.keys
  · intro id hid
    obtain ⟨l1, l2, l3⟩ := he.liveOk id hid
    exact ⟨l1, by omega, hu id l3 (Or.inl l2)⟩
  · rw [k7, hM]; exact he.mapKey
  · rw [k7, hM]; exact he.mapInj
  · intro x hx
    rw [hint] at hx
    obtain ⟨i1, i2⟩ := he.intOk x hx
    exact ⟨hu x i1 (Or.inr ((mem_metaPages f x).mpr (Or.inr hx))), i2⟩
  · rw [hint]; exact he.intNodup
  · rw [hint, k2, gM, k3, gT]; exact he.total
  · rw [k4, gL]; exact hn

/-- `initTxMaxSize` keeps the invariant -/
theorem engInv_limitTx {f : FileSt} {live : List Nat} (he : EngInv f live) (n : Nat) (hn : n = 0 ∨ 2 ≤ n) :
    EngInv (f.limitTx n) live :=
  engInv_setLimit he n hn ({ f with alloc := { f.alloc with maxPages := n }, txid := f.txid + 1 } : FileSt) rfl rfl rfl

/-- reading the header of an unbounded file under the limit of the options keeps the invariant -/
theorem engInv_openAt {f : FileSt} {live : List Nat} (he : EngInv f live) (n : Nat) (hn : n = 0 ∨ 2 ≤ n) :
    EngInv (f.openAt n f.alloc.data.endMarker) live := by
  unfold FileSt.openAt
  rw [reopenP_eq]
  exact engInv_ws (engInv_setLimit he n hn
    ({ f with alloc := { f.alloc with maxPages := n,
                                      data := { f.alloc.data with endMarker := f.alloc.data.endMarker } } } : FileSt)
    rfl rfl rfl) _

/-! ### the release transaction (`initTxReleaseRegions`) -/

/-- the state the release transaction commits, before the release of the ends of the areas: new free-list
    pages `regs`, everything else kept (the old free-list pages are neither freed nor internal any more) -/
theorem release_shape_engInv {f : FileSt} {live : List Nat} (he : EngInv f live) (a1 : Alloc) (st1 : TxAlloc)
    (regs : List Nat) (hok1 : AOK a1) (hkeep : ∀ x, InUse f.alloc x → InUse a1 x)
    (hregs : ∀ x ∈ regs, ¬ InUse f.alloc x ∧ InUse a1 x) (hnd : regs.Nodup)
    (hinv : Inv f.alloc a1 st1) (hde : f.alloc.data.endMarker ≤ a1.data.endMarker)
    (hfd : st1.data.freed = []) (hfm : st1.mta.freed = []) (hal : ∀ x, x ∈ st1.mta.allocated ↔ x ∈ regs)
    (F : FileSt) (hA : F.alloc = commitShape a1 st1 regs) (hM : F.walMap = f.walMap) (hW : F.walPages = f.walPages) :
    EngInv F live := by
  have hcs : ∀ x, InUse a1 x → InUse (commitShape a1 st1 regs) x := fun x hu =>
    inUse_commitShape a1 st1 regs x hu (by rw [hfd]; exact List.not_mem_nil) (by rw [hfm]; exact List.not_mem_nil)
  have hdf : ∀ x, x ∈ (commitShape a1 st1 regs).data.free ↔ x ∈ a1.data.free := by
    intro x
    show x ∈ unionIds st1.data.freed a1.data.free ↔ _
    rw [mem_unionIds, hfd]; simp
  have hmf : ∀ x, x ∈ (commitShape a1 st1 regs).mta.free ↔ x ∈ a1.mta.free := by
    intro x
    show x ∈ unionIds st1.mta.freed a1.mta.free ↔ _
    rw [mem_unionIds, hfm]; simp
  have hmfl : (commitShape a1 st1 regs).mta.free.length = a1.mta.free.length := by
    show (unionIds st1.mta.freed a1.mta.free).length = _
    rw [hfm, unionIds_nil_left]
  have hint : F.internal = f.walMap.map (·.2) ++ f.walPages ++ regs := by
    unfold FileSt.internal; rw [hA, hM, hW]; rfl
  have hold : ∀ x, x ∈ f.walMap.map (·.2) ++ f.walPages → x ∈ f.internal := by
    intro x hx; unfold FileSt.internal; exact List.mem_append_left _ hx
  have hnd0 := he.intNodup
  unfold FileSt.internal at hnd0
  rw [List.nodup_append] at hnd0
  -- accounting of the meta area
  have hcount : a1.mta.free.length + regs.length ≤ f.alloc.mta.free.length + (a1.metaTotal - f.alloc.metaTotal) ∧
      f.alloc.metaTotal ≤ a1.metaTotal := by
    have t3 : (a1.mta.free ++ regs).length ≤
        (f.alloc.mta.free ++ st1.moveToMeta ++ st1.fromOverflow).length := by
      apply nodup_subset_length
      · rw [List.nodup_append]
        refine ⟨asc_nodup _ hok1.ascM, hnd, ?_⟩
        intro x hx y hy e
        subst e
        exact (hregs x hy).2.2.1 hx
      · intro x hx
        rw [List.mem_append] at hx
        have := (hinv.mIff x).mp (hx.imp id (fun h => (hal x).mpr h))
        rw [List.mem_append, List.mem_append]
        rcases this with h | h | h
        · exact Or.inl (Or.inl h)
        · exact Or.inl (Or.inr h)
        · exact Or.inr h
    have t4 := hinv.total
    simp only [List.length_append] at t3
    omega
  have htot := he.total
  have hlen : f.internal.length = (f.walMap.map (·.2) ++ f.walPages).length + f.alloc.freelistPages.length := by
    unfold FileSt.internal; rw [List.length_append]
  refine ⟨⟨?_, ?_, ?_, ?_, ?_, ?_, ?_, ?_⟩, hM ▸ he.keys, ?_, ?_, ?_, ?_, ?_, ?_, ?_⟩
  · rw [hA]; exact asc_unionIds _ _ hok1.ascD
  · rw [hA]; exact asc_unionIds _ _ hok1.ascM
  · intro x hx
    rw [hA] at hx
    rw [hA]
    exact hok1.dRange x ((hdf x).mp hx)
  · intro x hx
    rw [hA] at hx
    rw [hA]
    exact (hok1.mOK x ((hmf x).mp hx)).2
  · intro x hx
    rw [hA] at hx ⊢
    exact fun hm => (hok1.mOK x ((hmf x).mp hm)).1 ((hdf x).mp hx)
  · rw [hA]; exact hok1.dEnd
  · intro x hx
    rw [hA] at hx ⊢
    exact hok1.dfM x ((hdf x).mp hx)
  · rw [hA]
    show (commitShape a1 st1 regs).mta.free.length ≤ a1.metaTotal
    rw [hmfl]; omega
  · intro id hid
    obtain ⟨l1, l2, l3⟩ := he.liveOk id hid
    rw [hA]
    exact ⟨l1, Nat.lt_of_lt_of_le l2 hde, hcs id (hkeep id l3)⟩
  · rw [hM]; exact he.mapKey
  · rw [hM]; exact he.mapInj
  · intro x hx
    rw [hint, List.mem_append] at hx
    rw [hA]
    rcases hx with hx | hx
    · obtain ⟨i1, i2⟩ := he.intOk x (hold x hx)
      exact ⟨hcs x (hkeep x i1), i2⟩
    · exact ⟨hcs x (hregs x hx).2, fun hl => (hregs x hx).1 (he.liveOk x hl).2.2⟩
  · rw [hint, List.nodup_append]
    refine ⟨hnd0.1, hnd, ?_⟩
    intro x hx y hy e
    subst e
    exact (hregs x hy).1 (he.intOk x (hold x hx)).1
  · rw [hint, hA]
    show (commitShape a1 st1 regs).mta.free.length + _ ≤ a1.metaTotal
    rw [hmfl, List.length_append]
    omega
  · rw [hA]
    show a1.maxPages = 0 ∨ 2 ≤ a1.maxPages
    rw [hinv.cfgMax]; exact he.lim2

/-- the release transaction keeps the invariant, whether it commits or fails — in EVERY state satisfying the
    invariant (no hypothesis on the order of the end markers) -/
theorem engInv_releaseTx {f : FileSt} {live : List Nat} (he : EngInv f live) : EngInv f.releaseTx.1 live := by
  have hinv0 := inv_init f.alloc he.wf false 0
  unfold FileSt.releaseTx
  dsimp only
  cases hc : fileCommitAlloc f.alloc (f.alloc.beginTx false 0) true with
  | none =>
    dsimp only
    exact engInv_congr he (rollback_of_inv f.alloc f.alloc _ he.wf hinv0) rfl rfl
  | some r =>
    obtain ⟨a1, st1, cs⟩ := r
    dsimp only
    rcases fileCommit_shape f.alloc _ true a1 st1 cs hc with ⟨hu, -⟩ | ⟨-, regs2, hstep, hcm⟩
    · cases hu
    · have e0 : EngInv ({ f with alloc := commitShape a1 st1 regs2 } : FileSt) live := by
        rcases hstep with ⟨n, hn⟩ | ⟨rfl, rfl, rfl⟩
        · obtain ⟨f1, f2, f3, f4⟩ := fr_metaAllocRegions f.alloc _ n a1 st1 regs2 (eng_aok f live he) hn
          obtain ⟨s1, s2, s3, -⟩ := metaAllocRegions_st f.alloc _ n a1 st1 regs2 hn
          refine release_shape_engInv he a1 st1 regs2 f1 f2 f3 f4
            (inv_metaAllocRegions f.alloc f.alloc _ n a1 st1 regs2 he.wf hinv0 hn)
            (dm_metaAllocRegions f.alloc _ n a1 st1 regs2 hn) (by rw [s3]; rfl) (by rw [s2]; rfl) ?_ _ rfl rfl rfl
          intro x
          rw [s1, mem_unionIds]
          show x ∈ regs2 ∨ x ∈ ([] : List Nat) ↔ _
          simp
        · exact release_shape_engInv he f.alloc _ [] (eng_aok f live he) (fun _ h => h) (fun _ hx => nomatch hx)
            List.nodup_nil hinv0 (Nat.le_refl _) rfl rfl (fun x => by
              show x ∈ ([] : List Nat) ↔ x ∈ ([] : List Nat)
              exact Iff.rfl) _ rfl rfl rfl
      exact relShape_engInv e0 _ hcm rfl rfl

/-- step 3 of `shrinkFile` -/
theorem engInv_releaseStep {f : FileSt} {live : List Nat} (he : EngInv f live) (n : Nat) :
    EngInv (f.releaseStep n).1 live := by
  unfold FileSt.releaseStep
  split
  · have h2 := engInv_releaseTx he
    generalize f.releaseTx = r at h2
    obtain ⟨f2, res⟩ := r
    cases res
    · exact h2
    · exact h2
    · exact engInv_congr h2 rfl rfl rfl
  · exact he

/-- `shrinkFile` -/
theorem engInv_resizeShrink {f : FileSt} {live : List Nat} (he : EngInv f live) (n : Nat) (hn : n = 0 ∨ 2 ≤ n) :
    EngInv (f.resizeShrink n).1 live :=
  engInv_releaseStep (engInv_limitTx he n hn) n

/-- **`Open` with a max-size update keeps the invariant**: every decision kind, every new limit that covers the
    header pages, every state satisfying the invariant -/
theorem engInv_resizeWith {f : FileSt} {live : List Nat} (he : EngInv f live) (k : RKind) (n : Nat)
    (hn : n = 0 ∨ 2 ≤ n) : EngInv (f.resizeWith k n).1 live := by
  cases k
  · exact engInv_reopenP he
  · exact engInv_openAt he n hn
  · exact engInv_limitTx (engInv_reopenP he) n hn
  · exact engInv_resizeShrink (engInv_reopenP he) n hn
  · exact engInv_resizeShrink (engInv_openAt he n hn) n hn

theorem engInv_resize {f : FileSt} {live : List Nat} (he : EngInv f live) (n : Nat) (hn : n = 0 ∨ 2 ≤ n) :
    EngInv (f.resize n) live :=
  engInv_resizeWith he _ n hn

end TxVerif.U
