/-
  PORT of Proofs/EngineTraceC.lean to the lifetime invariant `EngInvU` (namespace `TxVerif.LT`; the lemmas of
  namespace `Ov` replaced by those of namespace `U`, Proofs/Lifetime*.lean). Original header:
-/
/-
  Lemmas for C01 over the engine model, part C: the commit. Which internal pages `commitAfterFlush`
  writes, that they are fresh, and what the committed state looks like afterwards.
-/
import TxVerif.Proofs.LifeTraceB
namespace TxVerif.LT

theorem et_commitCkpt (f : FileSt) (tx : TxSt) : commitCkpt f tx = cCkpt f tx := rfl

theorem et_commitFlags (f : FileSt) (tx : TxSt) :
    commitFlags f tx =
      match cWalRes f tx with
      | none => (cWalUpd f tx, cAllocUpd f tx)
      | some (_, _, regs) => (cWalUpd f tx, cAllocUpd f tx || !regs.isEmpty) := by
  unfold commitFlags cWalRes cTx3 cAllocUpd cNewWal cWalUpd cPhase1
  cases h : cCkpt f tx
  · unfold cCkpt at h
    simp only [h]
    rfl
  · unfold cCkpt at h
    simp only [h]
    rfl

/-- what a successful commit does to the file state, as far as the trace is concerned -/
structure EtCommitOk (f0 : FileSt) (f : FileSt) (tx : TxSt) : Prop where
  disk : (commitAfterFlush f tx).1.disk = (cPhase1 f tx).1.disk
  txid : (commitAfterFlush f tx).1.txid = (cPhase1 f tx).1.txid + 1
  walNew : (commitFlags f tx).1 = true → ∀ x ∈ (commitAfterFlush f tx).1.walPages, ¬ InUse f0.alloc x
  flNew : (commitFlags f tx).2 = true → ∀ x ∈ (commitAfterFlush f tx).1.alloc.freelistPages, ¬ InUse f0.alloc x
  walOld : (commitFlags f tx).1 = false →
    (commitAfterFlush f tx).1.walPages = f0.walPages ∧ (commitAfterFlush f tx).1.walMap = f0.walMap
  flOld : (commitFlags f tx).2 = false → (commitAfterFlush f tx).1.alloc.freelistPages = f0.alloc.freelistPages
  map : ∀ k, Assoc.get? (commitAfterFlush f tx).1.walMap k = newMapAt f0.walMap (cPhase1 f tx).2.1 k

theorem et_commit_ok {f0 : FileSt} {live : List Nat} {f : FileSt} {tx : TxSt} {cur : List Nat}
    (he : U.EngInv f0 live) (h : U.TxInv f0 live f tx cur) (hfl : AllFlushed tx)
    (hok : (commitAfterFlush f tx).2.1 = .ok) : EtCommitOk f0 f tx := by
  obtain ⟨h1, -, hmap, hkeys⟩ := U.commit_phase1 he h hfl
  have hflags := et_commitFlags f tx
  rw [commitAfterFlush_eq] at hok
  unfold commitAfterFlush' at hok
  dsimp only at hok
  cases hr : cWalRes f tx with
  | none => rw [hr] at hok; cases hok
  | some r =>
    obtain ⟨a, ta, regs⟩ := r
    rw [hr] at hok hflags
    dsimp only at hok hflags
    cases hc : fileCommitAlloc a ta (cAllocUpd f tx || !regs.isEmpty) with
    | none => rw [hc] at hok; cases hok
    | some r2 =>
      obtain ⟨a2, ta2, cs⟩ := r2
      have hF : commitAfterFlush f tx =
          ({ (cPhase1 f tx).1 with
              alloc := a2.commit cs,
              walMap := if cWalUpd f tx then cNewWal f tx else (cPhase1 f tx).1.walMap,
              walPages := if cWalUpd f tx then regs else (cPhase1 f tx).1.walPages,
              root := (cTx3 f tx).root, txid := (cPhase1 f tx).1.txid + 1,
              statData := (cPhase1 f tx).1.statData + ta2.sAlloc - (ta2.sFreed + ta2.sToMeta) }, .ok,
            (cPhase1 f tx).2.2) := by
        rw [commitAfterFlush_eq]
        unfold commitAfterFlush'
        dsimp only
        rw [hr]
        dsimp only
        rw [hc]
      have pa0 := U.pa_init h1
      have pa1 : U.PA f0 (cPhase1 f tx).1 a ta regs (cTx3 f tx).ta ∧ regs.Nodup := by
        rcases cWalRes_cases f tx a ta regs hr with ⟨n, hn⟩ | ⟨rfl, rfl, rfl⟩
        · obtain ⟨p1, p2, -⟩ := U.pa_step he pa0 n a ta regs hn
          exact ⟨p1, p2⟩
        · exact ⟨pa0, List.nodup_nil⟩
      have hnew : ∀ {a' : Alloc} {ta' : TxAlloc} {N : List Nat},
          U.PA f0 (cPhase1 f tx).1 a' ta' N (cTx3 f tx).ta → ∀ x ∈ N, ¬ InUse f0.alloc x :=
        fun pa x hx hu => (pa.hN.2 x hx).1 (h1.keep x hu)
      have hwalNew : (commitFlags f tx).1 = true → ∀ x ∈ (commitAfterFlush f tx).1.walPages, ¬ InUse f0.alloc x := by
        intro hw x hx
        rw [hflags] at hw
        simp only at hw
        rw [hF] at hx
        simp only [hw, if_true] at hx
        exact hnew pa1.1 x hx
      have hwalOld : (commitFlags f tx).1 = false →
          (commitAfterFlush f tx).1.walPages = f0.walPages ∧ (commitAfterFlush f tx).1.walMap = f0.walMap := by
        intro hw
        rw [hflags] at hw
        simp only at hw
        rw [hF]
        simp only [hw, Bool.false_eq_true, if_false]
        exact ⟨h1.sameWP, h1.sameMap⟩
      rcases U.fileCommit_shape a ta _ a2 ta2 cs hc with
        ⟨hu, rfl, rfl, hcm⟩ | ⟨hu, regs2, hstep, hcm⟩
      · refine ⟨by rw [hF], by rw [hF], hwalNew, ?_, hwalOld, ?_, by rw [hF]; exact hmap⟩
        · intro hw
          rw [hflags] at hw
          simp only at hw
          rw [hu] at hw; cases hw
        · intro _
          rw [hF]
          show (a2.commit cs).freelistPages = _
          rw [hcm]
          exact pa1.1.hinv.cfgFl
      · have pa2 : U.PA f0 (cPhase1 f tx).1 a2 ta2 (regs ++ regs2) (cTx3 f tx).ta := by
          rcases hstep with ⟨n, hn⟩ | ⟨rfl, rfl, rfl⟩
          · exact (U.pa_step he pa1.1 n a2 ta2 regs2 hn).1
          · rw [List.append_nil]; exact pa1.1
        refine ⟨by rw [hF], by rw [hF], hwalNew, ?_, hwalOld, ?_, by rw [hF]; exact hmap⟩
        · intro _ x hx
          rw [hF] at hx
          have hx' : x ∈ (a2.commit cs).freelistPages := hx
          rw [hcm] at hx'
          have hx2 : x ∈ regs2 := hx'
          exact hnew pa2 x (List.mem_append_right _ hx2)
        · intro hw
          rw [hflags] at hw
          simp only at hw
          rw [hu] at hw; cases hw

/-- whatever the outcome, the commit changes the disk only by its checkpoint -/
theorem et_commit_disk (f : FileSt) (tx : TxSt) : (commitAfterFlush f tx).1.disk = (cPhase1 f tx).1.disk := by
  rw [commitAfterFlush_eq]
  unfold commitAfterFlush'
  dsimp only
  split
  · rfl
  · split
    · rfl
    · rfl

theorem et_cPhase1_hdr (f : FileSt) (tx : TxSt) : SameHdr f (cPhase1 f tx).1 := by
  unfold cPhase1
  split
  · exact doCheckpoint_hdr f tx
  · exact sameHdr_refl f

/-- the checkpoint of a commit -/
theorem et_cPhase1 {f0 : FileSt} {live : List Nat} {f : FileSt} {tx : TxSt} {cur : List Nat}
    (he : U.EngInv f0 live) (h : U.TxInv f0 live f tx cur) (pg : Nat → Option Hash) :
    EtAllFree f0 live (if commitCkpt f tx then doCheckpointT f tx else []) ∧
    EtSync pg f (tracePages (if commitCkpt f tx then doCheckpointT f tx else []) pg) (commitAfterFlush f tx).1 := by
  have hd : ∀ q, (commitAfterFlush f tx).1.diskAt q = (cPhase1 f tx).1.diskAt q := by
    intro q; unfold FileSt.diskAt; rw [et_commit_disk]
  rw [et_commitCkpt]
  unfold cPhase1 at hd
  cases hc : cCkpt f tx with
  | true =>
    simp only [hc, if_true] at hd ⊢
    obtain ⟨a, b⟩ := et_doCheckpoint he h pg
    exact ⟨a, etSync_trans b (etSync_same_disk _ _ _ hd)⟩
  | false =>
    simp only [hc, Bool.false_eq_true, if_false] at hd ⊢
    exact ⟨etAllFree_nil _ _, etSync_same_disk _ _ _ hd⟩

end TxVerif.LT
