/-
  C04: freshness of the pages handed out by `dataAllocRegions` (Tx.Alloc / AllocN),
  and the page limit of bounded files.
-/
import TxVerif.Proofs.Rollback
namespace TxVerif

/-- C04: pages handed out by Alloc/AllocN are pairwise distinct, are not header pages, and come from the data
    free list or from beyond the end marker; afterwards they are not free any more -/
theorem alloc_fresh (a : Alloc) (st : TxAlloc) (n : Nat) (a' : Alloc) (st' : TxAlloc) (ids : List Nat)
    (hasc : Asc a.data.free) (hfree : ∀ x ∈ a.data.free, 2 ≤ x ∧ x < a.data.endMarker) (hend : 2 ≤ a.data.endMarker)
    (h : dataAllocRegions a st n = some (a', st', ids)) :
    ids.length = n ∧ ids.Nodup ∧ (∀ x ∈ ids, 2 ≤ x ∧ (x ∈ a.data.free ∨ a.data.endMarker ≤ x)) ∧
    (∀ x ∈ ids, x ∉ a'.data.free) ∧ (∀ x ∈ ids, x < a'.data.endMarker) ∧
    (∀ x, x ∈ a'.data.free → x ∈ a.data.free) ∧ a'.mta.free = a.mta.free := by
  obtain ⟨k, rest, hk, hn, -, -, -, hids, e1, e2, e3, -⟩ := dataAllocRegions_spec a st n a' st' ids h
  subst hids
  rw [e1, e2, e3]
  refine ⟨?_, ?_, ?_, ?_, ?_, ?_, rfl⟩
  · rw [List.length_append, List.length_take, length_idRange]; omega
  · rw [List.nodup_append]
    refine ⟨asc_nodup _ (asc_take _ _ hasc), asc_nodup _ (asc_idRange _ _), ?_⟩
    intro x hx y hy
    rw [mem_idRange] at hy
    have := hfree x (List.mem_of_mem_take hx)
    omega
  · intro x hx
    rw [List.mem_append, mem_idRange] at hx
    rcases hx with hx | hx
    · exact ⟨(hfree x (List.mem_of_mem_take hx)).1, Or.inl (List.mem_of_mem_take hx)⟩
    · exact ⟨by omega, Or.inr hx.1⟩
  · intro x hx hx2
    rw [List.mem_append, mem_idRange] at hx
    rcases hx with hx | hx
    · have := take_lt_drop a.data.free k hasc x hx x hx2; omega
    · have := hfree x (List.mem_of_mem_drop hx2); omega
  · intro x hx
    rw [List.mem_append, mem_idRange] at hx
    rcases hx with hx | hx
    · have := hfree x (List.mem_of_mem_take hx); omega
    · omega
  · intro x hx; exact List.mem_of_mem_drop hx

/-- a bounded file never hands out a page beyond its limit -/
theorem alloc_within_limit (a : Alloc) (st : TxAlloc) (n : Nat) (a' : Alloc) (st' : TxAlloc) (ids : List Nat)
    (hmax : 0 < a.maxPages) (hfree : ∀ x ∈ a.data.free, x < a.maxPages) (hend : a.data.endMarker ≤ a.maxPages)
    (h : dataAllocRegions a st n = some (a', st', ids)) :
    (∀ x ∈ ids, x < a.maxPages) ∧ a'.data.endMarker ≤ a.maxPages := by
  obtain ⟨k, rest, hk, hn, -, hlim, -, hids, -, e2, -⟩ := dataAllocRegions_spec a st n a' st' ids h
  subst hids
  rw [e2]
  refine ⟨?_, by omega⟩
  intro x hx
  rw [List.mem_append, mem_idRange] at hx
  rcases hx with hx | hx
  · exact hfree x (List.mem_of_mem_take hx)
  · omega

end TxVerif

