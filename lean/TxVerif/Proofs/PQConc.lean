/-
  Stale ACK plans: lemmas about `ackWalk`, `readData`, `skipEvents`, `ackInit` on a chain and on
  an extension of it (`ChainExt`, Model/PQConc.lean).
-/
import TxVerif.Model.PQConc
import TxVerif.Props.C12Ack
namespace TxVerif

/-! ## `Grows`, `ChainExt`, `Flush`, `Extends` -/

theorem Grows.refl (l : QPage) : Grows l l :=
  ⟨List.prefix_refl _, fun _ => ⟨rfl, rfl, Nat.le_refl _⟩⟩

theorem Grows.trans {a b c : QPage} (h1 : Grows a b) (h2 : Grows b c) : Grows a c := by
  refine ⟨List.IsPrefix.trans h1.1 h2.1, fun h => ?_⟩
  obtain ⟨b1, b2, b3⟩ := h1.2 h
  obtain ⟨c1, c2, c3⟩ := h2.2 (by rw [b1]; exact h)
  exact ⟨by rw [c1, b1], by rw [c2, b2], Nat.le_trans b3 c3⟩

theorem ChainExt.ne_nil {ps qs : List QPage} (h : ChainExt ps qs) : ps ≠ [] ∧ qs ≠ [] := by
  cases h <;> simp

theorem ChainExt.length_le {ps qs : List QPage} (h : ChainExt ps qs) : ps.length ≤ qs.length := by
  induction h with
  | last l l' app _ => simp
  | cons p ps qs _ ih => simpa using ih

theorem ChainExt.refl : ∀ (ps : List QPage), ps ≠ [] → ChainExt ps ps
  | [], h => absurd rfl h
  | [p], _ => ChainExt.last p p [] (Grows.refl p)
  | p :: q :: r, _ => ChainExt.cons p _ _ (ChainExt.refl (q :: r) (by simp))

theorem chainExt_append (done : List QPage) (l l' : QPage) (app : List QPage) (h : Grows l l') :
    ChainExt (done ++ [l]) (done ++ l' :: app) := by
  induction done with
  | nil => exact ChainExt.last l l' app h
  | cons p ps ih => exact ChainExt.cons p _ _ ih

theorem chainExt_iff_flush (old new : List QPage) : ChainExt old new ↔ Flush old new := by
  constructor
  · intro h
    induction h with
    | last l l' app hg => exact ⟨[], l, l', app, rfl, rfl, hg⟩
    | cons p ps qs _ ih =>
      obtain ⟨done, l, l', app, e1, e2, hg⟩ := ih
      exact ⟨p :: done, l, l', app, by rw [e1]; rfl, by rw [e2]; rfl, hg⟩
  · rintro ⟨done, l, l', app, e1, e2, hg⟩
    rw [e1, e2]; exact chainExt_append done l l' app hg

theorem ChainExt.trans {a b c : List QPage} (h1 : ChainExt a b) (h2 : ChainExt b c) : ChainExt a c := by
  induction h1 generalizing c with
  | last l l' app hg =>
    cases h2 with
    | last _ l'' app' hg' => exact ChainExt.last l l'' app' (Grows.trans hg hg')
    | cons _ _ qs _ => exact ChainExt.last l l' qs hg
  | cons p ps qs _ ih =>
    cases h2 with
    | last _ _ _ _ => rename_i h; exact absurd rfl h.ne_nil.2
    | cons _ _ qs' h2' => exact ChainExt.cons p _ _ (ih h2')

/-- normal form of `Extends`: any number of flushes act like a single one -/
theorem Extends.chainExt {old new : List QPage} (h : Extends old new) (hne : old ≠ []) :
    ChainExt old new := by
  induction h with
  | refl => exact ChainExt.refl _ hne
  | flush b c _ hf ih => exact ih.trans ((chainExt_iff_flush b c).mpr hf)

theorem ChainExt.extends {old new : List QPage} (h : ChainExt old new) : Extends old new :=
  Extends.flush old old new (Extends.refl old) ((chainExt_iff_flush old new).mp h)

/-! ## the planning walk: generic facts -/

/-- the pages collected and `cleanAll` do not depend on the `lastID` variable -/
theorem ackWalk_indep : ∀ (pages : List QPage) (e l1 l2 : Nat),
    (ackWalk pages e l1).freed = (ackWalk pages e l2).freed ∧
    (ackWalk pages e l1).cleanAll = (ackWalk pages e l2).cleanAll := by
  intro pages
  induction pages with
  | nil => intro e l1 l2; exact ⟨rfl, rfl⟩
  | cons p ps ih =>
    intro e l1 l2
    rcases ackWalk_cases p ps e l1 with ⟨h0, hk, e1⟩ | ⟨h0, hps, e1⟩ | ⟨h0, hps, hlt, e1⟩ | ⟨h0, hps, e1⟩
    · rw [e1, ackWalk_keep p ps e l2 h0 hk]; exact ⟨rfl, rfl⟩
    · subst hps; rw [e1, ackWalk_clean p e l2 h0]; exact ⟨rfl, rfl⟩
    · rw [e1, ackWalk_free_hdr p ps e l2 h0 hps (by omega)]; exact ⟨rfl, rfl⟩
    · rw [e1, ackWalk_free_data p ps e l2 h0 hps]
      obtain ⟨a, b⟩ := ih e l1 l2
      exact ⟨by simp [a], by simp [b]⟩

/-- acknowledging more frees at least the same pages -/
theorem ackWalk_mono : ∀ (pages : List QPage) (e e2 l1 l2 : Nat), e ≤ e2 →
    (ackWalk pages e l1).freed ≤ (ackWalk pages e2 l2).freed := by
  intro pages
  induction pages with
  | nil => intro e e2 l1 l2 _; exact Nat.le_refl _
  | cons p ps ih =>
    intro e e2 l1 l2 hle
    rcases ackWalk_cases p ps e l1 with ⟨_, _, e1⟩ | ⟨_, _, e1⟩ | ⟨h0, hps, hlt, e1⟩ | ⟨h0, hps, e1⟩
    · rw [e1]; exact Nat.zero_le _
    · rw [e1]; exact Nat.zero_le _
    · rw [e1, ackWalk_free_hdr p ps e2 l2 h0 hps (by omega)]
      have := ih e e2 (p.last + 1) (p.last + 1) hle
      simp; omega
    · rw [e1, ackWalk_free_data p ps e2 l2 h0 hps]
      have := ih e e2 l1 l2 hle
      simp; omega

/-- a walk that collects at least `k` pages is `k` pages followed by the walk from page `k` -/
theorem ackWalk_drop : ∀ (k : Nat) (pages : List QPage) (e l : Nat), k ≤ (ackWalk pages e l).freed →
    ∃ l', (ackWalk pages e l).freed = (ackWalk (pages.drop k) e l').freed + k ∧
      (ackWalk pages e l).cleanAll = (ackWalk (pages.drop k) e l').cleanAll ∧
      (ackWalk pages e l).assertOk = (ackWalk (pages.drop k) e l').assertOk := by
  intro k
  induction k with
  | zero => intro pages e l _; exact ⟨l, rfl, rfl, rfl⟩
  | succ k ih =>
    intro pages e l hk
    cases pages with
    | nil => simp [ackWalk] at hk
    | cons p ps =>
      rcases ackWalk_cases p ps e l with ⟨_, _, e1⟩ | ⟨_, _, e1⟩ | ⟨h0, hps, hlt, e1⟩ | ⟨h0, hps, e1⟩
      · rw [e1] at hk; simp at hk
      · rw [e1] at hk; simp at hk
      · rw [e1] at hk ⊢
        obtain ⟨l', a, b, c⟩ := ih ps e (p.last + 1) (by simpa using hk)
        exact ⟨l', by simp [a]; omega, by simpa using b, by simpa using c⟩
      · rw [e1] at hk ⊢
        obtain ⟨l', a, b, c⟩ := ih ps e l (by simpa using hk)
        exact ⟨l', by simp [a]; omega, by simpa using b, by simpa using c⟩

/-! ## the planning walk on a chain and on its extension -/

/-- Structure only (no assumption on ids or `endID`): the stale walk collects no more pages than
    the fresh one, never the old last page; if they differ the stale walk stopped at the old last
    page and pages were appended. -/
theorem ackWalk_ext {ps qs : List QPage} (h : ChainExt ps qs) : ∀ (e l1 l2 : Nat),
    (ackWalk ps e l1).freed ≤ (ackWalk qs e l2).freed ∧
    (ackWalk ps e l1).freed + 1 ≤ ps.length ∧
    ((ackWalk ps e l1).freed = (ackWalk qs e l2).freed ∨
      ((ackWalk ps e l1).freed + 1 = ps.length ∧ ps.length < qs.length)) := by
  induction h with
  | last l l' app hg =>
    intro e l1 l2
    have h1 := ackWalk_keeps_last [l] e l1 (by simp)
    have h2 := ackWalk_keeps_last (l' :: app) e l2 (by simp)
    simp only [List.length_cons, List.length_nil] at h1 h2 ⊢
    refine ⟨by omega, by omega, ?_⟩
    cases app with
    | nil => left; simp at h2; omega
    | cons x xs => right; simp; omega
  | cons p ps qs h ih =>
    intro e l1 l2
    have hps := h.ne_nil.1
    have hqs := h.ne_nil.2
    have hlen : 0 < ps.length := List.length_pos_iff.mpr hps
    rcases ackWalk_cases p ps e l1 with ⟨h0, hk, e1⟩ | ⟨_, hn, _⟩ | ⟨h0, _, hlt, e1⟩ | ⟨h0, _, e1⟩
    · rcases hk with hk | hk
      · exact absurd hk hps
      · rw [e1, ackWalk_keep p qs e l2 h0 (Or.inr hk)]
        simp only [List.length_cons]
        exact ⟨Nat.le_refl _, by omega, Or.inl (by trivial)⟩
    · exact absurd hn hps
    · rw [e1, ackWalk_free_hdr p qs e l2 h0 hqs (by omega)]
      obtain ⟨a, b, c⟩ := ih e (p.last + 1) (p.last + 1)
      simp only [List.length_cons]
      refine ⟨by omega, by omega, ?_⟩
      rcases c with c | c
      · left; omega
      · right; omega
    · rw [e1, ackWalk_free_data p qs e l2 h0 hqs]
      obtain ⟨a, b, c⟩ := ih e l1 l2
      simp only [List.length_cons]
      refine ⟨by omega, by omega, ?_⟩
      rcases c with c | c
      · left; omega
      · right; omega

/-- the pages the stale walk collects are pages of the extended chain, unchanged -/
theorem ChainExt.take_eq {ps qs : List QPage} (h : ChainExt ps qs) :
    ∀ k, k + 1 ≤ ps.length → ps.take k = qs.take k := by
  induction h with
  | last l l' app _ => intro k hk; simp at hk; subst hk; rfl
  | cons p ps qs _ ih =>
    intro k hk
    cases k with
    | zero => rfl
    | succ k => simp only [List.take_succ_cons]; rw [ih k (by simpa using hk)]

/-- With consecutive ids and `endID ≤` the tail id at planning time the stale walk IS the fresh
    walk: it stops at a page with event headers whose `last` can only have grown. -/
theorem ackWalk_ext_eq {ps qs : List QPage} (h : ChainExt ps qs) : ∀ (a b e l1 : Nat),
    IdRanges a ps b → a < b → e ≤ b → ackWalk qs e l1 = ackWalk ps e l1 := by
  induction h with
  | last l l' app hg =>
    intro a b e l1 hr hab he
    simp only [IdRanges] at hr
    by_cases h0 : l.off = 0
    · rw [if_pos h0] at hr; omega
    · rw [if_neg h0] at hr
      obtain ⟨g1, _, g3⟩ := hg.2 h0
      rw [ackWalk_keep l [] e l1 h0 (Or.inl rfl),
        ackWalk_keep l' app e l1 (by rw [g1]; exact h0) (Or.inr (by omega))]
  | cons p ps qs h ih =>
    intro a b e l1 hr hab he
    have hps := h.ne_nil.1
    have hqs := h.ne_nil.2
    simp only [IdRanges] at hr
    rcases ackWalk_cases p ps e l1 with ⟨h0, hk, e1⟩ | ⟨_, hn, _⟩ | ⟨h0, _, hlt, e1⟩ | ⟨h0, _, e1⟩
    · rcases hk with hk | hk
      · exact absurd hk hps
      · rw [e1, ackWalk_keep p qs e l1 h0 (Or.inr hk)]
    · exact absurd hn hps
    · rw [if_neg h0] at hr
      rw [e1, ackWalk_free_hdr p qs e l1 h0 hqs (by omega), ih (p.last + 1) b e _ hr.2.2 (by omega) he]
    · rw [if_pos h0] at hr
      rw [e1, ackWalk_free_data p qs e l1 h0 hqs, ih a b e _ hr hab he]

/-! ## cursors on a chain and on its extension -/

theorem ChainExt.head {q : QPage} {r qs : List QPage} (h : ChainExt (q :: r) qs) :
    ∃ q' r', qs = q' :: r' ∧ Grows q q' ∧ (r ≠ [] → ChainExt r r') := by
  cases h with
  | last _ l' app hg => exact ⟨l', app, rfl, hg, fun h => absurd rfl h⟩
  | cons _ _ qs0 h' => exact ⟨q, qs0, rfl, Grows.refl q, fun _ => h'⟩

theorem ChainExt.drop {ps qs : List QPage} (h : ChainExt ps qs) :
    ∀ j, j < ps.length → ChainExt (ps.drop j) (qs.drop j) := by
  induction h with
  | last l l' app hg => intro j hj; simp at hj; subst hj; exact ChainExt.last l l' app hg
  | cons p ps qs h ih =>
    intro j hj
    cases j with
    | zero => exact ChainExt.cons p ps qs h
    | succ j => simpa using ih j (by simpa using hj)

/-- one byte at `(q :: r, o)` -/
def rdAt (P : Nat) (q : QPage) (r : List QPage) (o n : Nat) : Option (List UInt8 × List QPage × Nat) :=
  match q.payload[o - 28]? with
  | none => none
  | some b => (readData P (q :: r) (o + 1) n).map fun x => (b :: x.1, x.2)

theorem readData_succ_stay (P : Nat) (q : QPage) (r : List QPage) (off n : Nat) (h : ¬ (P - off = 0)) :
    readData P (q :: r) off (n + 1) = rdAt P q r off n := by
  rw [readData]; simp only [h, if_false, rdAt]
  cases q.payload[off - 28]? <;> rfl

theorem readData_succ_adv (P : Nat) (p q : QPage) (r : List QPage) (off n : Nat) (h : P - off = 0) :
    readData P (p :: q :: r) off (n + 1) = rdAt P q r 28 n := by
  rw [readData]; simp only [h, if_true, rdAt, List.tail_cons]
  cases q.payload[28 - 28]? <;> rfl

theorem readData_succ_end (P : Nat) (p : QPage) (off n : Nat) (h : P - off = 0) :
    readData P [p] off (n + 1) = none := by
  rw [readData]; simp only [h, if_true, List.tail_cons]

theorem readData_succ_nil (P : Nat) (off n : Nat) : readData P [] off (n + 1) = none := by
  rw [readData]; by_cases h : P - off = 0 <;> simp [h]

theorem prefix_getElem? {α : Type} {a b : List α} (h : a <+: b) (i : Nat) (x : α)
    (hx : a[i]? = some x) : b[i]? = some x := by
  obtain ⟨t, rfl⟩ := h
  obtain ⟨hi, _⟩ := List.getElem?_eq_some_iff.mp hx
  rw [List.getElem?_append_left hi]; exact hx

/-- `txCursor.readInto`/`Skip`: what succeeds on the old chain gives the same bytes and the same
    cursor (page index `j` counted from the current page, offset) on the extended chain -/
theorem readData_ext (P : Nat) : ∀ (n : Nat) (ps qs : List QPage) (off : Nat) (b : List UInt8)
    (ps' : List QPage) (o : Nat), ChainExt ps qs → readData P ps off n = some (b, ps', o) →
    ∃ j, j < ps.length ∧ ps' = ps.drop j ∧ readData P qs off n = some (b, qs.drop j, o) := by
  intro n
  induction n with
  | zero =>
    intro ps qs off b ps' o hc h
    rw [readData_zero] at h
    simp only [Option.some.injEq, Prod.mk.injEq] at h
    obtain ⟨rfl, rfl, rfl⟩ := h
    exact ⟨0, List.length_pos_iff.mpr hc.ne_nil.1, rfl, by rw [readData_zero]; rfl⟩
  | succ n ih =>
    -- one byte at the page the cursor is on after a possible advance
    have step : ∀ (q q' : QPage) (r r' : List QPage) (o1 : Nat) (b : List UInt8) (ps' : List QPage) (o : Nat),
        ChainExt (q :: r) (q' :: r') → rdAt P q r o1 n = some (b, ps', o) →
        ∃ j, j < (q :: r).length ∧ ps' = (q :: r).drop j ∧ rdAt P q' r' o1 n = some (b, (q' :: r').drop j, o) := by
      intro q q' r r' o1 b ps' o hc h
      obtain ⟨q2, r2, e, hg, _⟩ := hc.head
      simp only [List.cons.injEq] at e
      obtain ⟨rfl, rfl⟩ := e
      unfold rdAt at h ⊢
      cases hq : q.payload[o1 - 28]? with
      | none => rw [hq] at h; simp at h
      | some x =>
        rw [hq] at h
        rw [prefix_getElem? hg.1 _ x hq]
        simp only at h ⊢
        cases hrd : readData P (q :: r) (o1 + 1) n with
        | none => rw [hrd] at h; simp at h
        | some y =>
          obtain ⟨yb, yp, yo⟩ := y
          rw [hrd] at h
          simp only [Option.map_some, Option.some.injEq, Prod.mk.injEq] at h
          obtain ⟨hb, rfl, rfl⟩ := h
          obtain ⟨j, hj, e1, e2⟩ := ih (q :: r) (q' :: r') (o1 + 1) yb yp yo hc hrd
          refine ⟨j, hj, e1, ?_⟩
          subst hb; rw [e2]; rfl
    intro ps qs off b ps' o hc h
    cases ps with
    | nil => exact absurd rfl hc.ne_nil.1
    | cons p r =>
      obtain ⟨p', r', rfl, _, hr⟩ := hc.head
      by_cases hz : P - off = 0
      · cases r with
        | nil => rw [readData_succ_end P p off n hz] at h; simp at h
        | cons q r2 =>
          have hc2 := hr (by simp)
          obtain ⟨q', r2', rfl, _, _⟩ := hc2.head
          rw [readData_succ_adv P p q r2 off n hz] at h
          rw [readData_succ_adv P p' q' r2' off n hz]
          obtain ⟨j, hj, e1, e2⟩ := step q q' r2 r2' 28 b ps' o hc2 h
          exact ⟨j + 1, by simpa using hj, by simpa using e1, by simpa using e2⟩
      · rw [readData_succ_stay P p r off n hz] at h
        rw [readData_succ_stay P p' r' off n hz]
        exact step p p' r r' off b ps' o hc h

theorem prefix_hdr {a b : List UInt8} (h : a <+: b) (i : Nat) (h4 : ((a.drop i).take 4).length = 4) :
    (b.drop i).take 4 = (a.drop i).take 4 := by
  obtain ⟨t, rfl⟩ := h
  simp only [List.length_take, List.length_drop] at h4
  rw [List.drop_append_of_le_length (by omega), List.take_append_of_le_length (by simp; omega)]

/-- `ReadEventHeader` + `Skip` of one event -/
theorem readEventAt_ext (P : Nat) (ps qs : List QPage) (o : Nat) (b : List UInt8) (ps' : List QPage)
    (o' : Nat) (hc : ChainExt ps qs) (h : readEventAt P ps o = some (b, ps', o')) :
    ∃ j, j < ps.length ∧ ps' = ps.drop j ∧ readEventAt P qs o = some (b, qs.drop j, o') := by
  cases ps with
  | nil => exact absurd rfl hc.ne_nil.1
  | cons q r =>
    obtain ⟨q', r', rfl, hg, _⟩ := hc.head
    simp only [readEventAt] at h ⊢
    by_cases h4 : ((q.payload.drop (o - 28)).take 4).length = 4
    · rw [if_pos h4] at h
      rw [prefix_hdr hg.1 _ h4, if_pos h4]
      exact readData_ext P _ _ _ _ _ _ _ hc h
    · rw [if_neg h4] at h; simp at h

/-- the loop of `findNewStartPositions` -/
theorem skipEvents_ext (P : Nat) : ∀ (n : Nat) (ps qs : List QPage) (off : Nat) (ps' : List QPage) (o' : Nat),
    ChainExt ps qs → skipEvents P n ps off = some (ps', o') →
    ∃ j, j < ps.length ∧ ps' = ps.drop j ∧ skipEvents P n qs off = some (qs.drop j, o') := by
  intro n
  induction n with
  | zero =>
    intro ps qs off ps' o' hc h
    simp only [skipEvents, Option.some.injEq, Prod.mk.injEq] at h
    obtain ⟨rfl, rfl⟩ := h
    exact ⟨0, List.length_pos_iff.mpr hc.ne_nil.1, rfl, rfl⟩
  | succ n ih =>
    intro ps qs off ps' o' hc h
    rw [skipEvents] at h ⊢
    cases hre : readEventAt P ps off with
    | none => rw [hre] at h; simp at h
    | some y =>
      obtain ⟨yb, yp, yo⟩ := y
      rw [hre] at h
      simp only [Option.bind_some] at h
      obtain ⟨j1, hj1, e1, e2⟩ := readEventAt_ext P ps qs off yb yp yo hc hre
      subst e1
      obtain ⟨j2, hj2, e3, e4⟩ := ih (ps.drop j1) (qs.drop j1) yo ps' o' (hc.drop j1 hj1) h
      rw [e2]
      simp only [Option.bind_some]
      rw [List.length_drop] at hj2
      refine ⟨j1 + j2, by omega, ?_, ?_⟩
      · rw [e3, List.drop_drop]
      · rw [e4, List.drop_drop]

/-! ## `initACK` on a chain and on its extension -/

theorem ackPlan_ext_eq {old new : List QPage} (hc : ChainExt old new) (a b endID : Nat)
    (hr : IdRanges a old b) (hab : a < b) (he : endID ≤ b) : ackPlan new endID = ackPlan old endID := by
  simp only [ackPlan, ackWalk_ext_eq hc a b endID 0 hr hab he]

/-- the state `initACK` computes on the old chain denotes the same positions as the state it would
    compute on the extended chain -/
theorem ackInit_ext (P : Nat) {old new : List QPage} (hc : ChainExt old new) (a b endID : Nat)
    (hr : IdRanges a old b) (hab : a < b) (he : endID ≤ b) (st : AckState)
    (h : ackInit P old endID = some st) :
    ∃ st', ackInit P new endID = some st' ∧ SamePositions old new st st' := by
  have hplan := ackPlan_ext_eq hc a b endID hr hab he
  have hnc : (ackPlan old endID).2 = false := ackWalk_no_cleanAll old a b endID 0 hr hab he
  simp only [ackInit, hplan, hnc, Bool.false_eq_true, if_false] at h ⊢
  generalize hk : (ackPlan old endID).1 = k at h ⊢
  cases hD : old.drop k with
  | nil => rw [hD] at h; simp at h
  | cons K ks =>
    have hkl : k < old.length := by
      have := congrArg List.length hD
      simp only [List.length_drop, List.length_cons] at this; omega
    have hK : old[k]? = some K := by
      have := congrArg (fun l => l[0]?) hD
      simpa using this
    obtain ⟨K0, hK0, hoff⟩ := ackWalk_kept_hdr old endID 0 hc.ne_nil.1 hnc
    have hk' : (ackWalk old endID 0).freed = k := hk
    rw [hk', hK] at hK0
    simp only [Option.some.injEq] at hK0
    subst hK0
    have hcd := hc.drop k hkl
    rw [hD] at hcd
    obtain ⟨K', ks', hD', hg, _⟩ := hcd.head
    obtain ⟨g1, g2, _⟩ := hg.2 hoff
    rw [hD] at h
    rw [hD']
    simp only at h ⊢
    by_cases hid : endID = K.first
    · rw [if_pos hid] at h
      rw [if_pos (by rw [g2]; exact hid)]
      simp only [Option.some.injEq] at h ⊢
      subst h
      exact ⟨_, rfl, rfl, g1, g2, g1, hD.symm, hD'.symm, k, Nat.le_refl _, hkl, hD.symm, hD'.symm⟩
    · rw [if_neg hid] at h
      rw [if_neg (by rw [g2]; exact hid)]
      cases hs : skipEvents P (endID - K.first) (K :: ks) K.off with
      | none => rw [hs] at h; simp at h
      | some r =>
        obtain ⟨rp, ro⟩ := r
        rw [hs] at h
        simp only [Option.map_some, Option.some.injEq] at h
        subst h
        rw [← hD] at hs
        obtain ⟨j, hj, e1, e2⟩ := skipEvents_ext P _ _ _ _ _ _ (hc.drop k hkl) hs
        rw [hD'] at e2
        rw [g1, g2, e2]
        rw [List.length_drop] at hj
        refine ⟨_, rfl, rfl, rfl, rfl, rfl, hD.symm, hD'.symm, k + j, Nat.le_add_right _ _, by omega, ?_, ?_⟩
        · simp only; rw [e1, List.drop_drop]
        · simp only; rw [← hD', List.drop_drop]

/-! ## the writer's flushes are extensions (`layoutFrom`) -/

/-- `LastID` of the first page of the chain only grows -/
theorem layoutFrom_head_last (S : Nat) : ∀ (evs : List (List UInt8)) (cur : QPage) (id : Nat)
    (h : QPage) (t : List QPage), layoutFrom S cur id evs = h :: t → cur.off ≠ 0 → cur.last ≤ id →
    cur.last ≤ h.last := by
  intro evs
  induction evs with
  | nil =>
    intro cur id h t hl _ _
    rw [layoutFrom_nil] at hl
    simp only [List.cons.injEq] at hl
    rw [← hl.1]; exact Nat.le_refl _
  | cons e es ih =>
    intro cur id h t hl h0 hle
    rw [layoutFrom_cons] at hl
    by_cases hp : S - cur.payload.length < 4
    · rw [writeEvent_pad S cur id e hp] at hl
      simp only [List.cons_append, List.cons.injEq] at hl
      rw [← hl.1]; exact Nat.le_refl _
    · have hw : writeEvent S cur id e = appendData S (commitHdr cur id e.length) e := writeEvent_nopad S cur id e hp
      have hcl : (commitHdr cur id e.length).last = id := rfl
      cases hem : (writeEvent S cur id e).1 with
      | cons q qs =>
        rw [hem] at hl
        simp only [List.cons_append, List.cons.injEq] at hl
        have := appendFuel_head_last S _ (commitHdr cur id e.length) e q (by
          have h2 : (appendData S (commitHdr cur id e.length) e).1 = q :: qs := by rw [← hw]; exact hem
          simp only [appendData] at h2
          rw [h2]; rfl)
        rw [← hl.1, this, hcl]; exact hle
      | nil =>
        rw [hem] at hl
        simp only [List.nil_append] at hl
        have h2 : (appendData S (commitHdr cur id e.length) e).1 = [] := by rw [← hw]; exact hem
        have h3 : (appendData S (commitHdr cur id e.length) e).2 = (writeEvent S cur id e).2 := by rw [hw]
        have hl3 : (writeEvent S cur id e).2.last = id := by
          have := appendFuel_head_last S _ (commitHdr cur id e.length) e (writeEvent S cur id e).2 (by
            have h2' := h2; have h3' := h3
            simp only [appendData] at h2' h3'
            rw [h2', h3']; rfl)
          rw [this, hcl]
        have hoff : (writeEvent S cur id e).2.off ≠ 0 := by
          obtain ⟨q, qs, e1, hq⟩ := appendData_head S (commitHdr cur id e.length) e (writeEvent S cur id e).2 []
            (by rw [h3]; exact Ext.refl _)
          rw [h2] at e1
          simp only [List.nil_append, List.cons.injEq] at e1
          rw [e1.1, (hq.2 (commitHdr_off_ne cur id e.length)).1]
          exact commitHdr_off_ne cur id e.length
        have := ih _ (id + 1) h t hl hoff (by omega)
        omega

theorem writeEvents_inv (S : Nat) (h4 : 4 ≤ S) : ∀ (evs : List (List UInt8)) (cur : QPage) (id : Nat),
    WInv S cur id → WInv S (writeEvents S cur id evs).2 (id + evs.length) := by
  intro evs
  induction evs with
  | nil => intro cur id h; exact h
  | cons e es ih =>
    intro cur id h
    have := ih _ (id + 1) (writeEvent_ids S h4 cur id e h).1
    have e1 : id + (e :: es).length = id + 1 + es.length := by simp; omega
    rw [e1]; exact this

/-- what the writer has on disk after the events `evs`, and after the further events `suf`
    (any number of flushes later): an extension -/
theorem layoutFrom_chainExt (S : Nat) (h4 : 4 ≤ S) (c : QPage) (id : Nat) (evs suf : List (List UInt8))
    (hinv : WInv S c id) : ChainExt (layoutFrom S c id evs) (layoutFrom S c id (evs ++ suf)) := by
  rw [layoutFrom_eq_writeEvents S evs, layoutFrom_append]
  obtain ⟨h, t, e1, hx⟩ := layoutFrom_head S suf (writeEvents S c id evs).2 (id + evs.length)
  have hw := writeEvents_inv S h4 evs c id hinv
  rw [e1]
  refine chainExt_append _ _ _ _ ⟨hx.1, fun h0 => ⟨(hx.2 h0).1, (hx.2 h0).2, ?_⟩⟩
  exact layoutFrom_head_last S suf _ _ h t e1 h0 (by have := hw.2.2 h0; omega)

theorem layoutFrom_extends (S : Nat) (h4 : 4 ≤ S) (c : QPage) (id : Nat) (evs suf : List (List UInt8))
    (hinv : WInv S c id) : Extends (layoutFrom S c id evs) (layoutFrom S c id (evs ++ suf)) :=
  (layoutFrom_chainExt S h4 c id evs suf hinv).extends

/-! ## further facts used by the property file -/

/-- the chain from a page with event headers on has consecutive ids starting with its `first` -/
theorem IdRanges_drop : ∀ (pages : List QPage) (a b k : Nat) (K : QPage), IdRanges a pages b →
    pages[k]? = some K → K.off ≠ 0 → a ≤ K.first ∧ IdRanges K.first (pages.drop k) b := by
  intro pages
  induction pages with
  | nil => intro a b k K _ h; simp at h
  | cons p ps ih =>
    intro a b k K hr hK hoff
    cases k with
    | zero =>
      simp only [List.getElem?_cons_zero, Option.some.injEq] at hK
      subst hK
      have hr' := hr
      simp only [IdRanges, if_neg hoff] at hr'
      refine ⟨by omega, ?_⟩
      simp only [List.drop_zero, IdRanges, if_neg hoff]
      exact ⟨by trivial, hr'.2⟩
    | succ k =>
      simp only [IdRanges] at hr
      simp only [List.getElem?_cons_succ] at hK
      by_cases h0 : p.off = 0
      · rw [if_pos h0] at hr
        simpa using ih a b k K hr hK hoff
      · rw [if_neg h0] at hr
        have := ih _ b k K hr.2.2 hK hoff
        exact ⟨by omega, by simpa using this.2⟩

/-- `cleanAll` only if the walk ran up to a data-only last page -/
theorem ackWalk_cleanAll_shape : ∀ (pages : List QPage) (e l : Nat), (ackWalk pages e l).cleanAll = true →
    (ackWalk pages e l).freed + 1 = pages.length ∧ ∃ w, pages.getLast? = some w ∧ w.off = 0 := by
  intro pages
  induction pages with
  | nil => intro e l h; simp [ackWalk] at h
  | cons p ps ih =>
    intro e l h
    rcases ackWalk_cases p ps e l with ⟨_, _, e1⟩ | ⟨h0, hps, e1⟩ | ⟨_, hps, _, e1⟩ | ⟨_, hps, e1⟩
    · rw [e1] at h; simp at h
    · subst hps; rw [e1]; exact ⟨rfl, p, rfl, h0⟩
    · rw [e1] at h ⊢
      obtain ⟨a, w, hw, h0⟩ := ih e _ (by simpa using h)
      refine ⟨by simp only [List.length_cons]; omega, w, ?_, h0⟩
      rw [List.getLast?_cons_of_ne_nil hps]; exact hw
    · rw [e1] at h ⊢
      obtain ⟨a, w, hw, h0⟩ := ih e _ (by simpa using h)
      refine ⟨by simp only [List.length_cons]; omega, w, ?_, h0⟩
      rw [List.getLast?_cons_of_ne_nil hps]; exact hw

/-- the new head of a plan: the first kept page, a page with event headers -/
theorem ackInit_head (P : Nat) (pages : List QPage) (e : Nat) (st : AckState)
    (h : ackInit P pages e = some st) :
    st.freed = (ackPlan pages e).1 ∧ (ackPlan pages e).2 = false ∧
    ∃ K ks, pages.drop st.freed = K :: ks ∧ st.headPages = K :: ks ∧ st.headOff = K.off ∧
      st.headId = K.first ∧ K.off ≠ 0 := by
  simp only [ackInit] at h
  cases hnc : (ackPlan pages e).2 with
  | true => rw [hnc] at h; simp at h
  | false =>
    rw [hnc] at h
    simp only [Bool.false_eq_true, if_false] at h
    cases hD : pages.drop (ackPlan pages e).1 with
    | nil => rw [hD] at h; simp at h
    | cons K ks =>
      have hne : pages ≠ [] := by intro hn; rw [hn] at hD; simp at hD
      obtain ⟨K0, hK0, hoff⟩ := ackWalk_kept_hdr pages e 0 hne hnc
      have hK : pages[(ackWalk pages e 0).freed]? = some K := by
        have := congrArg (fun l => l[0]?) hD
        simpa [ackPlan] using this
      rw [hK] at hK0
      simp only [Option.some.injEq] at hK0
      subst hK0
      rw [hD] at h
      simp only at h
      by_cases hid : e = K.first
      · rw [if_pos hid] at h
        simp only [Option.some.injEq] at h
        subst h
        exact ⟨rfl, rfl, K, ks, hD, rfl, rfl, rfl, hoff⟩
      · rw [if_neg hid] at h
        cases hs : skipEvents P (e - K.first) (K :: ks) K.off with
        | none => rw [hs] at h; simp at h
        | some r =>
          rw [hs] at h
          simp only [Option.map_some, Option.some.injEq] at h
          subst h
          exact ⟨rfl, rfl, K, ks, hD, rfl, rfl, rfl, hoff⟩

end TxVerif
