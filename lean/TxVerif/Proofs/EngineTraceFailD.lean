/-
  C08 for the engine model, lemmas part D: one transaction with any disciplined I/O outcome is accepted by
  the fault-aware acceptor, from every configuration that represents the committed state, and ends in a
  configuration that represents the next committed state (the SAME engine state after every failure).
-/
import TxVerif.Proofs.EngineTraceFailC
namespace TxVerif

/-- invariant of a committed state with the ghost data of the fault model -/
structure FOk (x : EngFS) : Prop where
  ok : EngOk x.e
  ids : x.sid < x.nsid
  prev : x.prev.1 < x.e.f.txid

/-- the configuration represents the committed state `x` -/
abbrev FRep (x : EngFS) (c : OCfg) : Prop := FCore x.e.slot x.e.f.txid x.sid x.prev x.e.pages c

theorem fcore_repage {slot tx sid : Nat} {prev : Nat × Nat} {pg pg' : Nat → Option Hash} {c : OCfg}
    (h : FCore slot tx sid prev pg c) (hp : ∀ p, c.base.flat.pages p = pg' p) : FCore slot tx sid prev pg' c :=
  ⟨h.ph, h.infl, h.hslot, h.htx, h.hst, hp, h.act, h.other, h.pend, h.sle⟩

theorem commitsB_of (s : FileSt × List Nat) (t : TxnO) (h : t.commits s) : t.commitsB s = true := (commits_iff s t).mp h
theorem commitsB_not (s : FileSt × List Nat) (t : TxnO) (h : ¬ t.commits s) : t.commitsB s = false := by
  cases hb : t.commitsB s with
  | false => rfl
  | true => exact absurd ((commits_iff s t).mpr hb) h

/-- the closing truncate after a failure stays above the committed state -/
theorem truncT_restored_clear {e : EngCS} (ok : EngOk e) (R : FileSt) (hr : RestoredO e.f e.live R) (o : Option Nat) :
    ∀ op ∈ truncT R o, ClearOf (engReach e) op := by
  apply truncT_clear
  intro p hp
  rw [hr.1]
  exact inUse_lt_mEnd (engReach_inUse ok p hp).1

/-- every operation of the trace of a failing commit leaves the pages of the committed state alone -/
theorem et_fail_pgclear {x : EngFS} (fok : FOk x) (t : TxnF) (hc : t.t.t.commits (x.e.f, x.e.live)) :
    ∀ op ∈ (engTraceF x t).flatMap FOp.tops, t.out ≠ .normal → PgClear (engReach x.e) op := by
  have wf := et_wall_facts fok.ok t.t hc
  obtain ⟨hr, -⟩ := runTxnLate_restored (x.e.f, x.e.live) fok.ok.inv t.t.t hc
  have hW : ∀ op ∈ engWall x.e t.t, PgClear (engReach x.e) op :=
    fun op hop => Or.inl (etAllFree_clear fok.ok _ wf.free op hop)
  have hT : ∀ op ∈ truncT (runTxnLate (x.e.f, x.e.live) t.t.t).1 t.t.trunc, PgClear (engReach x.e) op :=
    fun op hop => Or.inl (truncT_restored_clear fok.ok _ hr _ op hop)
  intro op hop hne
  unfold engTraceF at hop
  rw [commitsB_of _ _ hc] at hop
  simp only [if_true] at hop
  cases ho : t.out with
  | normal => exact absurd ho hne
  | dataSyncFail k after =>
    rw [ho] at hop
    simp only [List.flatMap_append, List.mem_append, flatMap_tops_map_op] at hop
    rcases hop with (((hop | hop) | hop) | hop) | hop
    · exact hW op hop
    · simp [List.mem_flatMap, FOp.tops] at hop
    · simp only [List.flatMap_cons, List.flatMap_nil, FOp.tops, List.append_nil, List.mem_singleton] at hop
      exact Or.inr (Or.inl ⟨_, _, _, hop⟩)
    · rw [List.mem_flatMap] at hop
      obtain ⟨a, ha, hin⟩ := hop
      rw [List.mem_map] at ha
      obtain ⟨b, -, rfl⟩ := ha
      cases b with
      | true => simp [syncOf, FOp.tops] at hin; exact Or.inr (Or.inr hin)
      | false => simp [syncOf, FOp.tops] at hin
    · exact hT op hop
  | finalSyncFail k =>
    rw [ho] at hop
    simp only [List.flatMap_append, List.mem_append, flatMap_tops_map_op] at hop
    rcases hop with ((((hop | hop) | hop) | hop) | hop) | hop
    · exact hW op hop
    · simp only [List.mem_cons, List.not_mem_nil, or_false] at hop
      rcases hop with rfl | rfl
      · exact Or.inr (Or.inr rfl)
      · exact Or.inr (Or.inl ⟨_, _, _, rfl⟩)
    · simp only [List.flatMap_cons, List.flatMap_nil, FOp.tops, List.append_nil, List.nil_append,
        List.mem_singleton] at hop
      exact Or.inr (Or.inl ⟨_, _, _, hop⟩)
    · simp [List.mem_flatMap, FOp.tops] at hop
      obtain ⟨a, ⟨-, rfl⟩, hin⟩ := hop
      simp at hin
    · simp only [List.flatMap_cons, List.flatMap_nil, FOp.tops, List.append_nil, List.mem_singleton] at hop
      exact Or.inr (Or.inr hop)
    · exact hT op hop
  | finalSyncGiveUp k =>
    rw [ho] at hop
    simp only [List.flatMap_append, List.mem_append, flatMap_tops_map_op] at hop
    rcases hop with (((hop | hop) | hop) | hop) | hop
    · exact hW op hop
    · simp only [List.mem_cons, List.not_mem_nil, or_false] at hop
      rcases hop with rfl | rfl
      · exact Or.inr (Or.inr rfl)
      · exact Or.inr (Or.inl ⟨_, _, _, rfl⟩)
    · simp only [List.flatMap_cons, List.flatMap_nil, FOp.tops, List.append_nil, List.nil_append,
        List.mem_singleton] at hop
      exact Or.inr (Or.inl ⟨_, _, _, hop⟩)
    · simp [List.mem_flatMap, FOp.tops] at hop
      obtain ⟨a, ⟨-, rfl⟩, hin⟩ := hop
      simp at hin
    · exact hT op hop

/-- after a failing late commit the committed state (with ghost data) is the old one on a file that kept
    every page of its reach set -/
theorem engRestored_ok {x : EngFS} (fok : FOk x) (t : TxnF) (hc : t.t.t.commits (x.e.f, x.e.live))
    (hne : t.out ≠ .normal) :
    EngOk (engRestored x t) ∧ engReach (engRestored x t) = engReach x.e ∧
    (engRestored x t).f.txid = x.e.f.txid ∧ (engRestored x t).slot = x.e.slot ∧
    RestoredO x.e.f x.e.live (engRestored x t).f ∧ (engRestored x t).live = x.e.live := by
  obtain ⟨hr, hl⟩ := runTxnLate_restored (x.e.f, x.e.live) fok.ok.inv t.t.t hc
  have hk : ∀ p ∈ reachPages (engReach x.e), ftracePages (engTraceF x t) x.e.pages p = x.e.pages p := by
    intro p hp
    unfold ftracePages
    exact pgClear_pages _ _ (fun op hop => et_fail_pgclear fok t hc op hop hne) _ p hp
  obtain ⟨a, b⟩ := engOk_restored fok.ok _ _ _ hr hl hk
  exact ⟨a, b, hr.2.2.2.2.1, rfl, hr, hl⟩

/-- **one transaction with any disciplined I/O outcome** is accepted by the fault-aware acceptor from every
    configuration that represents the committed state, and ends in one that represents the next committed
    state; the invariant holds again -/
theorem et_txnF_accepted (reachOf : Nat → List (Nat × Hash)) {x : EngFS} (fok : FOk x) (c : OCfg) (rep : FRep x c)
    (t : TxnF) (hd : t.disciplined = true) (h0 : reachOf x.sid = engReach x.e)
    (h1 : hdrAttempt x t = true → reachOf x.nsid = engReach (engNext x.e t.t)) :
    ∃ c', c.run reachOf (engTraceF x t) = some c' ∧ FRep (engNextF x t) c' ∧ FOk (engNextF x t) := by
  by_cases hc : t.t.t.commits (x.e.f, x.e.live)
  · have hcb := commitsB_of _ _ hc
    have wf := et_wall_facts fok.ok t.t hc
    have hclW : ∀ op ∈ engWall x.e t.t, ClearOf (reachOf x.sid) op := by
      rw [h0]; exact etAllFree_clear fok.ok _ wf.free
    cases ho : t.out with
    | normal =>
      have hatt : hdrAttempt x t = true := by simp [hdrAttempt, hcb, ho]
      have hN := h1 hatt
      obtain ⟨ok', htx, hsl⟩ := engOk_next_commit fok.ok t.t hc
      obtain ⟨c', hrun, hcore⟩ := fcore_commit reachOf rep (engWall x.e t.t) hclW x.nsid
        (fun p hh hm => wf.intact p hh (hN ▸ hm)) (truncT (engNext x.e t.t).f t.t.trunc) (by
          rw [hN]
          apply truncT_clear
          intro p hp
          exact inUse_lt_mEnd (engReach_inUse ok' p hp).1)
      have etr : engTraceF x t = (engWall x.e t.t ++ [TOp.sync, TOp.hdr (1 - x.e.slot) (x.e.f.txid + 1) x.nsid, TOp.sync] ++
          truncT (engNext x.e t.t).f t.t.trunc).map .op := by
        unfold engTraceF; rw [hcb, ho]; simp only [if_true]; rw [htx]
      have enx : engNextF x t = { e := engNext x.e t.t, prev := (x.e.f.txid, x.sid), sid := x.nsid, nsid := x.nsid + 1 } := by
        unfold engNextF; rw [hcb, ho]; simp only [if_true]
      rw [etr, enx]
      refine ⟨c', hrun, ?_, ⟨ok', by show x.nsid < x.nsid + 1; omega, by show x.e.f.txid < (engNext x.e t.t).f.txid; rw [htx]; omega⟩⟩
      show FCore (engNext x.e t.t).slot (engNext x.e t.t).f.txid x.nsid (x.e.f.txid, x.sid) (engNext x.e t.t).pages c'
      rw [hsl, htx, wf.pages]
      exact hcore
    | dataSyncFail k after =>
      have hne : t.out ≠ .normal := by rw [ho]; intro h; cases h
      obtain ⟨ok', hreach, htx, hsl, hr, hl⟩ := engRestored_ok fok t hc hne
      obtain ⟨c1, r1, k1⟩ := fcore_clear reachOf rep (engWall x.e t.t) hclW
      have r2 := fcore_syncFails reachOf k1 (k + 1)
      obtain ⟨c2, r3, k2⟩ := fcore_idem reachOf k1
      obtain ⟨c3, r4, k3⟩ := fcore_syncs reachOf after k2
      obtain ⟨c4, r5, k4⟩ := fcore_clear reachOf k3 (truncT (runTxnLate (x.e.f, x.e.live) t.t.t).1 t.t.trunc) (by
        rw [h0]; exact truncT_restored_clear fok.ok _ hr _)
      have r3' : c1.run reachOf [FOp.restore (1 - x.e.slot) x.prev.1 x.prev.2] = some c2 := by
        simp only [OCfg.run, r3]
      have hrun := orun_append_some reachOf _ _ _ _ _ (orun_append_some reachOf _ _ _ _ _
        (orun_append_some reachOf _ _ _ _ _ (orun_append_some reachOf _ _ _ _ _ r1 r2) r3') r4) r5
      have etr : engTraceF x t = (engWall x.e t.t).map .op ++ List.replicate (k + 1) FOp.syncFail ++
          [FOp.restore (1 - x.e.slot) x.prev.1 x.prev.2] ++ after.map syncOf ++
          (truncT (runTxnLate (x.e.f, x.e.live) t.t.t).1 t.t.trunc).map .op := by
        unfold engTraceF; rw [hcb, ho]; simp only [if_true]
      have enx : engNextF x t = { x with e := engRestored x t } := by
        unfold engNextF; rw [hcb, ho]; simp only [if_true]
      rw [← etr] at hrun
      refine ⟨c4, hrun, ?_, ?_⟩
      · rw [enx]
        show FCore (engRestored x t).slot (engRestored x t).f.txid x.sid x.prev (engRestored x t).pages c4
        rw [hsl, htx]
        exact fcore_repage k4 (orun_pages reachOf _ c c4 hrun x.e.pages rep.pages)
      · rw [enx]; exact ⟨ok', fok.ids, by show x.prev.1 < (engRestored x t).f.txid; rw [htx]; exact fok.prev⟩
    | finalSyncFail k =>
      have hne : t.out ≠ .normal := by rw [ho]; intro h; cases h
      have hatt : hdrAttempt x t = true := by simp [hdrAttempt, hcb, ho]
      have hN := h1 hatt
      obtain ⟨ok', hreach, htx, hsl, hr, hl⟩ := engRestored_ok fok t hc hne
      obtain ⟨c1, r1, k1⟩ := fcore_finalFail reachOf rep (engWall x.e t.t) hclW x.nsid
        (fun p hh hm => wf.intact p hh (hN ▸ hm)) k
      obtain ⟨c2, r2, k2⟩ := fcore_clear reachOf k1 (truncT (runTxnLate (x.e.f, x.e.live) t.t.t).1 t.t.trunc) (by
        rw [h0]; exact truncT_restored_clear fok.ok _ hr _)
      have hrun := orun_append_some reachOf _ _ _ _ _ r1 r2
      have etr : engTraceF x t = (engWall x.e t.t ++ [TOp.sync, TOp.hdr (1 - x.e.slot) (x.e.f.txid + 1) x.nsid]).map .op ++
          [FOp.syncFail, FOp.restore (1 - x.e.slot) x.prev.1 x.prev.2] ++ List.replicate k FOp.syncFail ++
          [FOp.op .sync] ++ (truncT (runTxnLate (x.e.f, x.e.live) t.t.t).1 t.t.trunc).map .op := by
        unfold engTraceF; rw [hcb, ho]; simp only [if_true]; rw [wf.txid]
      have enx : engNextF x t = { x with e := engRestored x t, nsid := x.nsid + 1 } := by
        unfold engNextF; rw [hcb, ho]; simp only [if_true]
      rw [← etr] at hrun
      refine ⟨c2, hrun, ?_, ?_⟩
      · rw [enx]
        show FCore (engRestored x t).slot (engRestored x t).f.txid x.sid x.prev (engRestored x t).pages c2
        rw [hsl, htx]
        exact fcore_repage k2 (orun_pages reachOf _ c c2 hrun x.e.pages rep.pages)
      · rw [enx]
        exact ⟨ok', by show x.sid < x.nsid + 1; have := fok.ids; omega,
          by show x.prev.1 < (engRestored x t).f.txid; rw [htx]; exact fok.prev⟩
    | finalSyncGiveUp k => simp [TxnF.disciplined, ho] at hd
  · have hcb := commitsB_not _ _ hc
    obtain ⟨hclear, -, -, -⟩ := et_abort_facts fok.ok t.t hc
    obtain ⟨ok', -, htx, hsl⟩ := engOk_next_abort fok.ok t.t hc
    obtain ⟨c1, r1, k1⟩ := fcore_clear reachOf rep (engTrace x.e t.t) (by rw [h0]; exact hclear)
    have etr : engTraceF x t = (engTrace x.e t.t).map .op := by
      unfold engTraceF; rw [hcb]; simp
    have enx : engNextF x t = { x with e := engNext x.e t.t } := by
      unfold engNextF; rw [hcb]; simp
    rw [etr, enx]
    refine ⟨c1, r1, ?_, ⟨ok', fok.ids, by show x.prev.1 < (engNext x.e t.t).f.txid; rw [htx]; exact fok.prev⟩⟩
    show FCore (engNext x.e t.t).slot (engNext x.e t.t).f.txid x.sid x.prev (engNext x.e t.t).pages c1
    rw [hsl, htx, engNext_pages]
    exact k1

end TxVerif
