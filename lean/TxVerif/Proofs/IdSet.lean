import TxVerif.Model.IdSet
namespace TxVerif

/-- strictly ascending -/
def Asc (l : List Nat) : Prop := l.Pairwise (· < ·)

theorem asc_nil : Asc [] := List.Pairwise.nil

theorem asc_cons (x : Nat) (l : List Nat) : Asc (x :: l) ↔ (∀ y ∈ l, x < y) ∧ Asc l := by
  unfold Asc; exact List.pairwise_cons

/-! ### insertId -/

theorem mem_insertId (x y : Nat) (l : List Nat) : y ∈ insertId x l ↔ y = x ∨ y ∈ l := by
  induction l with
  | nil => simp [insertId]
  | cons z zs ih =>
    unfold insertId
    by_cases h1 : x < z
    · simp [h1]
    · by_cases h2 : x = z
      · subst h2; simp
      · simp only [h1, h2, if_false, List.mem_cons, ih]
        constructor
        · rintro (h | h | h) <;> simp [h]
        · rintro (h | h | h) <;> simp [h]

theorem asc_insertId (x : Nat) (l : List Nat) (h : Asc l) : Asc (insertId x l) := by
  induction l with
  | nil => simp [insertId, Asc]
  | cons z zs ih =>
    rw [asc_cons] at h
    obtain ⟨hz, hzs⟩ := h
    unfold insertId
    by_cases h1 : x < z
    · simp only [h1, if_true]
      rw [asc_cons, asc_cons]
      refine ⟨?_, hz, hzs⟩
      intro y hy
      rcases List.mem_cons.mp hy with hy | hy
      · omega
      · have := hz y hy; omega
    · by_cases h2 : x = z
      · subst h2
        simp only [h1, if_false, if_true]
        rw [asc_cons]; exact ⟨hz, hzs⟩
      · simp only [h1, h2, if_false]
        rw [asc_cons]
        refine ⟨?_, ih hzs⟩
        intro y hy
        rcases (mem_insertId x y zs).mp hy with hy | hy
        · omega
        · exact hz y hy

theorem insertId_of_mem (x : Nat) (l : List Nat) (h : Asc l) (hx : x ∈ l) : insertId x l = l := by
  induction l with
  | nil => cases hx
  | cons z zs ih =>
    rw [asc_cons] at h
    obtain ⟨hz, hzs⟩ := h
    unfold insertId
    by_cases h2 : x = z
    · subst h2; simp
    · have hxz : x ∈ zs := by
        rcases List.mem_cons.mp hx with hx | hx
        · exact absurd hx h2
        · exact hx
      have h1 : ¬ x < z := by have := hz x hxz; omega
      simp only [h1, h2, if_false]
      rw [ih hzs hxz]

/-! ### unionIds / toIdSet -/

theorem unionIds_nil_left (b : List Nat) : unionIds [] b = b := rfl

theorem unionIds_cons (x : Nat) (a b : List Nat) :
    unionIds (x :: a) b = unionIds a (insertId x b) := rfl

theorem mem_unionIds (a b : List Nat) (y : Nat) : y ∈ unionIds a b ↔ y ∈ a ∨ y ∈ b := by
  induction a generalizing b with
  | nil => simp [unionIds_nil_left]
  | cons x xs ih =>
    rw [unionIds_cons, ih, mem_insertId, List.mem_cons]
    constructor
    · rintro (h | h | h) <;> simp [h]
    · rintro ((h | h) | h) <;> simp [h]

theorem asc_unionIds (a b : List Nat) (h : Asc b) : Asc (unionIds a b) := by
  induction a generalizing b with
  | nil => exact h
  | cons x xs ih =>
    rw [unionIds_cons]
    exact ih _ (asc_insertId x b h)

theorem mem_toIdSet (a : List Nat) (y : Nat) : y ∈ toIdSet a ↔ y ∈ a := by
  unfold toIdSet
  rw [mem_unionIds]
  simp

theorem asc_toIdSet (a : List Nat) : Asc (toIdSet a) :=
  asc_unionIds a [] asc_nil

/-! ### removeIds / removeRange -/

theorem mem_removeIds (a rm : List Nat) (y : Nat) : y ∈ removeIds a rm ↔ y ∈ a ∧ y ∉ rm := by
  unfold removeIds
  simp [List.mem_filter]

theorem asc_removeIds (a rm : List Nat) (h : Asc a) : Asc (removeIds a rm) := by
  unfold removeIds Asc
  exact List.Pairwise.sublist List.filter_sublist h

theorem mem_removeRange (a : List Nat) (lo hi y : Nat) :
    y ∈ removeRange a lo hi ↔ y ∈ a ∧ ¬ (lo ≤ y ∧ y < hi) := by
  unfold removeRange
  simp only [List.mem_filter, Bool.not_eq_true', Bool.and_eq_false_iff, decide_eq_false_iff_not]
  constructor
  · rintro ⟨h1, h2⟩; exact ⟨h1, by omega⟩
  · rintro ⟨h1, h2⟩; exact ⟨h1, by omega⟩

theorem asc_removeRange (a : List Nat) (lo hi : Nat) (h : Asc a) : Asc (removeRange a lo hi) := by
  unfold removeRange Asc
  exact List.Pairwise.sublist List.filter_sublist h

/-! ### idRange -/

theorem mem_idRange (lo n y : Nat) : y ∈ idRange lo n ↔ lo ≤ y ∧ y < lo + n := by
  unfold idRange
  simp only [List.mem_map, List.mem_range]
  constructor
  · rintro ⟨a, ha, rfl⟩; omega
  · intro h; exact ⟨y - lo, by omega, by omega⟩

theorem asc_idRange (lo n : Nat) : Asc (idRange lo n) := by
  unfold idRange Asc
  rw [List.pairwise_map]
  exact List.Pairwise.imp (fun h => by omega) List.pairwise_lt_range

theorem length_idRange (lo n : Nat) : (idRange lo n).length = n := by
  unfold idRange
  simp

theorem idRange_zero (lo : Nat) : idRange lo 0 = [] := rfl

theorem idRange_succ (lo n : Nat) : idRange lo (n + 1) = idRange lo n ++ [lo + n] := by
  unfold idRange
  rw [List.range_succ, List.map_append]
  simp [Nat.add_comm]

theorem idRange_one (lo : Nat) : idRange lo 1 = [lo] := by
  rw [idRange_succ, idRange_zero]; rfl

/-! ### general facts about ascending lists -/

theorem asc_ext (a b : List Nat) (ha : Asc a) (hb : Asc b) (h : ∀ y, y ∈ a ↔ y ∈ b) : a = b := by
  induction a generalizing b with
  | nil =>
    cases b with
    | nil => rfl
    | cons y ys => exact absurd ((h y).mpr (List.mem_cons_self)) (by simp)
  | cons x xs ih =>
    cases b with
    | nil => exact absurd ((h x).mp (List.mem_cons_self)) (by simp)
    | cons y ys =>
      rw [asc_cons] at ha hb
      obtain ⟨hx, hxs⟩ := ha
      obtain ⟨hy, hys⟩ := hb
      have hxy : x = y := by
        have h1 := (h x).mp List.mem_cons_self
        have h2 := (h y).mpr List.mem_cons_self
        rcases List.mem_cons.mp h1 with h1 | h1
        · exact h1
        · rcases List.mem_cons.mp h2 with h2 | h2
          · exact h2.symm
          · have := hx y h2; have := hy x h1; omega
      subst hxy
      have : xs = ys := by
        apply ih ys hxs hys
        intro z
        constructor
        · intro hz
          have := (h z).mp (List.mem_cons_of_mem _ hz)
          rcases List.mem_cons.mp this with e | e
          · have := hx z hz; omega
          · exact e
        · intro hz
          have := (h z).mpr (List.mem_cons_of_mem _ hz)
          rcases List.mem_cons.mp this with e | e
          · have := hy z hz; omega
          · exact e
      rw [this]

theorem asc_nodup (a : List Nat) (h : Asc a) : a.Nodup := by
  unfold Asc at h
  unfold List.Nodup
  exact List.Pairwise.imp (fun h => by omega) h

theorem asc_take (a : List Nat) (k : Nat) (h : Asc a) : Asc (a.take k) :=
  List.Pairwise.sublist (List.take_sublist k a) h

theorem asc_drop (a : List Nat) (k : Nat) (h : Asc a) : Asc (a.drop k) :=
  List.Pairwise.sublist (List.drop_sublist k a) h

theorem take_lt_drop (a : List Nat) (k : Nat) (h : Asc a) :
    ∀ x ∈ a.take k, ∀ y ∈ a.drop k, x < y := by
  have h' : Asc (a.take k ++ a.drop k) := by rw [List.take_append_drop]; exact h
  unfold Asc at h'
  rw [List.pairwise_append] at h'
  exact h'.2.2

theorem mem_take_or_drop (a : List Nat) (k y : Nat) : y ∈ a ↔ y ∈ a.take k ∨ y ∈ a.drop k := by
  rw [← List.mem_append, List.take_append_drop]

theorem take_drop_disjoint (a : List Nat) (k : Nat) (h : Asc a) :
    ∀ y, y ∈ a.take k → y ∉ a.drop k := by
  intro y h1 h2
  have := take_lt_drop a k h y h1 y h2
  omega

/-! ### runs -/

theorem runsAux_expand (xs : List Nat) (s c : Nat) :
    (runsAux xs s c).flatMap (fun r => idRange r.1 r.2) = idRange s c ++ xs := by
  induction xs generalizing s c with
  | nil => simp [runsAux]
  | cons x xs ih =>
    unfold runsAux
    by_cases hx : x = s + c
    · simp only [hx, if_true]
      rw [ih, idRange_succ, List.append_assoc]; rfl
    · simp only [hx, if_false, List.flatMap_cons]
      rw [ih, idRange_one]; rfl

theorem runs_expand (l : List Nat) (h : Asc l) :
    (runs l).flatMap (fun r => idRange r.1 r.2) = l := by
  have _ := h
  cases l with
  | nil => rfl
  | cons x xs =>
    unfold runs
    rw [runsAux_expand, idRange_one]; rfl

theorem runsAux_pos (xs : List Nat) (s c : Nat) (hc : 0 < c) : ∀ r ∈ runsAux xs s c, 0 < r.2 := by
  induction xs generalizing s c with
  | nil => intro r hr; simp [runsAux] at hr; subst hr; exact hc
  | cons x xs ih =>
    unfold runsAux
    by_cases hx : x = s + c
    · simp only [hx, if_true]
      exact ih s (c + 1) (by omega)
    · simp only [hx, if_false]
      intro r hr
      rcases List.mem_cons.mp hr with hr | hr
      · subst hr; exact hc
      · exact ih x 1 (by omega) r hr

theorem runs_pos (l : List Nat) : ∀ r ∈ runs l, 0 < r.2 := by
  cases l with
  | nil => intro r hr; cases hr
  | cons x xs => exact runsAux_pos xs x 1 (by omega)

theorem mem_of_mem_runs (l : List Nat) (h : Asc l) (r : Nat × Nat) (hr : r ∈ runs l) :
    ∀ y, r.1 ≤ y → y < r.1 + r.2 → y ∈ l := by
  intro y h1 h2
  rw [← runs_expand l h, List.mem_flatMap]
  exact ⟨r, hr, (mem_idRange r.1 r.2 y).mpr ⟨h1, h2⟩⟩

/-! ### bestFit / allocContinuous -/

theorem bestFitAux_spec (n : Nat) (rs : List (Nat × Nat)) (best : Option (Nat × Nat))
    (r : Nat × Nat) (hr : bestFitAux n rs best = some r) :
    (r ∈ rs ∧ n ≤ r.2) ∨ best = some r := by
  induction rs generalizing best with
  | nil => right; simpa [bestFitAux] using hr
  | cons p rs ih =>
    obtain ⟨s, c⟩ := p
    have key : ∀ bs : Nat,
        (if n ≤ c ∧ c < bs then
          (if c = n then some (s, c) else bestFitAux n rs (some (s, c)))
         else bestFitAux n rs best) = some r →
        (r ∈ (s, c) :: rs ∧ n ≤ r.2) ∨ best = some r := by
      intro bs hr
      split at hr
      · rename_i hc
        split at hr
        · left
          injection hr with hr
          subst hr
          exact ⟨List.mem_cons_self, hc.1⟩
        · rcases ih _ hr with h | h
          · left; exact ⟨List.mem_cons_of_mem _ h.1, h.2⟩
          · left
            injection h with h
            subst h
            exact ⟨List.mem_cons_self, hc.1⟩
      · rcases ih _ hr with h | h
        · left; exact ⟨List.mem_cons_of_mem _ h.1, h.2⟩
        · right; exact h
    unfold bestFitAux at hr
    exact key _ hr

theorem bestFit_spec (n : Nat) (rs : List (Nat × Nat)) (r : Nat × Nat)
    (hr : bestFit n rs = some r) : r ∈ rs ∧ n ≤ r.2 := by
  unfold bestFit at hr
  rcases bestFitAux_spec n rs none r hr with h | h
  · exact h
  · cases h

theorem allocContinuous_spec (free : List Nat) (n : Nat) (h : Asc free) (taken rest : List Nat)
    (hr : allocContinuous free n = some (taken, rest)) :
    (∃ s, taken = idRange s n) ∧ (∀ y, y ∈ taken → y ∈ free) ∧
      (∀ y, y ∈ rest ↔ y ∈ free ∧ y ∉ taken) ∧ Asc rest := by
  unfold allocContinuous at hr
  simp only at hr
  split at hr
  · cases hr
  · split at hr
    · cases hr
    · rename_i s c hbf
      injection hr with hr
      injection hr with ht hrest
      subst ht
      subst hrest
      have hb := bestFit_spec n (runs free) (s, c) hbf
      refine ⟨⟨s, rfl⟩, ?_, ?_, ?_⟩
      · intro y hy
        rw [mem_idRange] at hy
        exact mem_of_mem_runs free h (s, c) hb.1 y hy.1 (by have := hb.2; simp only at this ⊢; omega)
      · intro y; exact mem_removeIds free _ y
      · exact asc_removeIds free _ h

end TxVerif
