def hello := "world"
