/-
  Page-id sets as strictly ascending lists, and the run (region) view of them.
  go-txfile keeps free lists as sorted lists of regions (id, count) with
  adjacent regions merged; the set of ids is what matters, the region list is
  `runs` of the sorted id list.
-/
namespace TxVerif

abbrev PageID := Nat

/-- insert into an ascending list, keeping it duplicate free -/
def insertId (x : Nat) : List Nat → List Nat
  | [] => [x]
  | y :: ys => if x < y then x :: y :: ys else if x = y then y :: ys else y :: insertId x ys

/-- union of two ascending lists -/
def unionIds (a b : List Nat) : List Nat := a.foldl (fun acc x => insertId x acc) b

/-- normalise an arbitrary list into an ascending duplicate free list -/
def toIdSet (a : List Nat) : List Nat := unionIds a []

def removeIds (a rm : List Nat) : List Nat := a.filter (fun x => !rm.contains x)

/-- remove all ids in `[lo, hi)` -/
def removeRange (a : List Nat) (lo hi : Nat) : List Nat := a.filter (fun x => !(lo ≤ x && x < hi))

/-- the ids `[lo, lo+n)` -/
def idRange (lo n : Nat) : List Nat := (List.range n).map (· + lo)

/-- maximal runs of consecutive ids of an ascending list, as (start, count) -/
def runsAux : List Nat → Nat → Nat → List (Nat × Nat)
  | [], s, c => [(s, c)]
  | x :: xs, s, c => if x = s + c then runsAux xs s (c + 1) else (s, c) :: runsAux xs x 1

def runs : List Nat → List (Nat × Nat)
  | [] => []
  | x :: xs => runsAux xs x 1

/-- size in bytes of the encoding of a free-list region entry (region.go: 8
    bytes, 12 if the count does not fit into 8 bits minus the overflow marker) -/
def regionEncSize (count : Nat) : Nat := if count < 255 then 8 else 12

/-- best fitting run for `n` pages in iteration order: the first run with the
    smallest count ≥ n; an exact fit stops the search (freelist.go:134-145) -/
def bestFitAux (n : Nat) : List (Nat × Nat) → Option (Nat × Nat) → Option (Nat × Nat)
  | [], best => best
  | (s, c) :: rs, best =>
    let bestSz := match best with | none => 4294967295 | some (_, bc) => bc
    if n ≤ c ∧ c < bestSz then
      if c = n then some (s, c) else bestFitAux n rs (some (s, c))
    else bestFitAux n rs best

def bestFit (n : Nat) (rs : List (Nat × Nat)) : Option (Nat × Nat) := bestFitAux n rs none

/-- `freelist.AllocContinuousRegion(allocFromBeginning, n)`: ids taken and the
    remaining list; `none` if no continuous region is available -/
def allocContinuous (free : List Nat) (n : Nat) : Option (List Nat × List Nat) :=
  let rs := runs free
  if free.length < n ∨ (free.length = n ∧ rs.length > 1) then none
  else match bestFit n rs with
    | none => none
    | some (s, _) =>
      let taken := idRange s n
      some (taken, removeIds free taken)

end TxVerif
