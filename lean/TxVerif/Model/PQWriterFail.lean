/-
  The queue writer with FAILING flushes (go-txfile/pq writer.go: `doFlush`, `flushBuffer`,
  `Write`, `Next`, `Flush`), on top of Model/PQWriter.lean.

  Every writer call carries an oracle `FlushOutcome`: what happens to the transaction of the flush
  this call runs (explicitly, or automatically because the buffer is full), if it runs one.

  `doFlush`, failure paths as they are in the Go code
  * `Pages()` returns nothing (`start == nil || start == end`): `doFlush` returns `nil` BEFORE any
    transaction is started - such a flush cannot fail, the oracle is not consulted.
  * `beginFail`  `BeginWrite` or `LoadRootPage` fails: return, nothing touched.
  * `allocFail`  `allocatePages` fails (`AllocN`: out of memory, file full): nothing was assigned
    (the ids are assigned after `AllocN` returned).  `AllocN` is only called if some page of the
    range has no id (`unallocated != nil`); otherwise this oracle has nothing to fail.
  * `commitFail` `flushPages` or `tx.Commit` fails: `allocatePages` gave an id to every page from
    `unallocated` to `end`, `linkPages` wrote the ids into the `next` fields of the page buffers,
    then the deferred `unassignPages(unallocated, end)` sets these ids back to 0
    (`unallocated == nil`: returns at once; the head page that is already on disk keeps its id).
  In all failure cases: dirty flags stay, `buf.Reset` is not called (`avail`, page list unchanged),
  the root header changes of `updateRootHdr` live in the transaction's page and are rolled back
  with it (`persisted`, `tailOff`, `tailId` unchanged; trusted: a failed/closed transaction leaves
  the file as it was), `flushBuffer` returns before resetting `activeEventCount`.
  Not in `WState`: the `next` field bytes written by `linkPages` (the chain is the list order).
  After `commitFail` the pages `start … last-1` carry stale ids there; every later flush covers at
  least the same range and `linkPages` overwrites all of them again before anything is written.

  Callers
  * `Write`: the flush comes first; on error `return 0, err`: the chunk is NOT appended,
    `eventBytes` unchanged.
  * `Next`: header size, `CommitEvent`, `ReserveHdr`, `eventBytes = 0`, `eventID++`,
    `activeEventCount++` all happen BEFORE the flush check; if that flush fails `Next` returns the
    error, but the event is finished and stays in the buffer.
  * `Flush`: returns the error.
-/
import TxVerif.Model.PQWriter
namespace TxVerif

inductive FlushOutcome where
  | ok
  | beginFail
  | allocFail
  | commitFail
  deriving Repr, DecidableEq

/-- `buffer.Pages`: the pages `start … end` handed to the flush (`[]`: nothing to flush) -/
def flushRange (s : WState) : List BPage :=
  match s.ev with
  | [] => []
  | hp :: _ =>
    let head := match s.pre with
      | [] => hp
      | x :: _ => x
    if !head.dirty then [] else if hp.dirty then s.pre ++ [hp] else s.pre

/-- index of `unallocated` in the range: the first page without an id -/
def firstUnassigned : List BPage → Option Nat
  | [] => none
  | p :: l => if p.assigned then (firstUnassigned l).map (· + 1) else some 0

/-- apply `f` to the pages with index `k ≤ i < n` -/
def mapRange (f : BPage → BPage) : Nat → Nat → List BPage → List BPage
  | _, _, [] => []
  | _, 0, l => l
  | 0, n + 1, p :: l => f p :: mapRange f 0 n l
  | k + 1, n + 1, p :: l => p :: mapRange f k n l

/-- `Meta.ID` of the buffer pages `k ≤ i < n` (buffer = `pre ++ ev`): set / reset -/
def WState.setAssigned (s : WState) (k n : Nat) (v : Bool) : WState :=
  { s with pre := mapRange (fun p => { p with assigned := v }) k n s.pre,
           ev := mapRange (fun p => { p with assigned := v }) (k - s.pre.length) (n - s.pre.length) s.ev }

/-- what a failing `doFlush` leaves behind in the writer state -/
def failFlush (o : FlushOutcome) (s : WState) : WState :=
  match o with
  | .commitFail =>
    match firstUnassigned (flushRange s) with
    | none => s       -- unallocated == nil: allocatePages and unassignPages return at once
    | some k =>
      -- allocatePages: ids for unallocated … end;  linkPages / flushPages / updateRootHdr: page
      -- buffers' next fields and transaction pages only;  deferred unassignPages(unallocated, end)
      (s.setAssigned k (flushRange s).length true).setAssigned k (flushRange s).length false
  | _ => s            -- nothing was assigned

/-- does the flush started in state `s` fail under the oracle `o` -/
def flushFails (o : FlushOutcome) (s : WState) : Bool :=
  if (flushRange s).isEmpty then false      -- doFlush returns nil before BeginWrite
  else match o with
    | .ok => false
    | .beginFail => true
    | .allocFail => (firstUnassigned (flushRange s)).isSome    -- AllocN is called only then
    | .commitFail => true

/-- `flushBuffer` with the oracle: new state and `err != nil` -/
def flushF (S : Nat) (o : FlushOutcome) (s : WState) : WState × Bool :=
  if flushFails o s then (failFlush o s, true) else (flushBuffer S s, false)

/-- `Writer.Write(p)`: `(state, err != nil)` -/
def WState.writeF (S : Nat) (s : WState) (p : List UInt8) (o : FlushOutcome) : WState × Bool :=
  let r := if s.avail ≤ p.length then flushF S o s else (s, false)
  if r.2 then (r.1, true)      -- return 0, err
  else ({ r.1 with ev := bufAppend S r.1.ev p, avail := r.1.avail - p.length,
                   eventBytes := r.1.eventBytes + p.length }, false)

/-- `Writer.Next()` -/
def WState.nextF (S : Nat) (s : WState) (o : FlushOutcome) : WState × Bool :=
  let s1 := s.nextCore S
  if s1.avail ≤ 4 then flushF S o s1 else (s1, false)

inductive FWOp where
  | write (chunk : List UInt8) (o : FlushOutcome)
  | next (o : FlushOutcome)
  | flush (o : FlushOutcome)
  deriving Repr, DecidableEq

def WState.stepF (S : Nat) (s : WState) : FWOp → WState × Bool
  | .write c o => s.writeF S c o
  | .next o => s.nextF S o
  | .flush o => flushF S o s

/-- what the call amounts to for the caller, as an operation of the failure free writer:
    a `Write` that returned an error wrote nothing, a `Flush` that returned an error did nothing,
    a `Next` finishes the event whether it returns an error or not -/
def effOp (op : FWOp) (err : Bool) : List WOp :=
  match op with
  | .write c _ => if err then [] else [.write c]
  | .next _ => [.next]
  | .flush _ => if err then [] else [.flush]

/-- run the calls: final state, the error flag of every call, the effective operations -/
def runF (S : Nat) : WState → List FWOp → WState × List Bool × List WOp
  | s, [] => (s, [], [])
  | s, op :: ops =>
    let r := s.stepF S op
    let r' := runF S r.1 ops
    (r'.1, r.2 :: r'.2.1, effOp op r.2 ++ r'.2.2)

/-- the writer on a new queue with page size `P` after the calls `ops` -/
def runWriterF (P pages id0 : Nat) (ops : List FWOp) : WState × List Bool × List WOp :=
  runF (P - 28) (WState.init (P - 28) pages id0) ops

/-- final state -/
def stateF (P pages id0 : Nat) (ops : List FWOp) : WState := (runWriterF P pages id0 ops).1
/-- `err != nil` of every call -/
def errsF (P pages id0 : Nat) (ops : List FWOp) : List Bool := (runWriterF P pages id0 ops).2.1
/-- the effective operations: calls that returned an error removed (`Next` stays) -/
def effOps (P pages id0 : Nat) (ops : List FWOp) : List WOp := (runWriterF P pages id0 ops).2.2
/-- the events finished by the calls (a chunk whose `Write` failed is not part of its event) -/
def finishedF (P pages id0 : Nat) (ops : List FWOp) : List (List UInt8) := finished (effOps P pages id0 ops)
/-- bytes of the event in progress -/
def inProgressF (P pages id0 : Nat) (ops : List FWOp) : List UInt8 := (ghost (effOps P pages id0 ops)).2

/-- every call with outcome `ok` -/
def liftOk : WOp → FWOp
  | .write c => .write c .ok
  | .next => .next .ok
  | .flush => .flush .ok

end TxVerif
