/-
  The transaction lock of go-txfile (lock.go) and the protocol the engine runs
  on it (file.go beginTx/Close, tx.go finishWith/close/tryCommitChanges), for
  an arbitrary number of threads.

  Lock data: `sharedCount`, `pendingSet`, `reserved` (a mutex).
    shared.Lock    blocks while pendingSet; then sharedCount++
    shared.Unlock  sharedCount--
    reserved.Lock  blocks while held
    pending.Lock   never blocks, sets pendingSet (no owner)
    exclusive.Lock blocks while sharedCount ≠ 0; exclusive.Unlock is a no-op
-/
namespace TxVerif

structure LockSt where
  shared : Nat := 0
  pending : Bool := false
  reserved : Bool := false
  deriving Repr, DecidableEq, Inhabited

/-- the primitive operations of lock.go -/
inductive LockOp | sharedLock | sharedUnlock | reservedLock | reservedUnlock | pendingLock | pendingUnlock
  | exclusiveLock | exclusiveUnlock
  deriving Repr, DecidableEq, Inhabited

/-- would the operation return without blocking? -/
def LockOp.enabled (l : LockSt) : LockOp → Bool
  | .sharedLock => !l.pending
  | .reservedLock => !l.reserved
  | .exclusiveLock => l.shared == 0
  | _ => true

def LockOp.apply (l : LockSt) : LockOp → LockSt
  | .sharedLock => { l with shared := l.shared + 1 }
  | .sharedUnlock => { l with shared := l.shared - 1 }
  | .reservedLock => { l with reserved := true }
  | .reservedUnlock => { l with reserved := false }
  | .pendingLock => { l with pending := true }
  | .pendingUnlock => { l with pending := false }
  | .exclusiveLock => l
  | .exclusiveUnlock => l

/-- program counters of the three kinds of threads -/
inductive Pc
  | rIdle | rActive | rDone                       -- read transaction
  | wIdle | wActive | wPending | wExcl | wDone    -- write transaction
  | cIdle | cPending | cExcl | cDone              -- File.Close
  deriving Repr, DecidableEq, Inhabited

structure Sys where
  lock : LockSt := {}
  pcs : List Pc := []
  deriving Repr, DecidableEq, Inhabited

/-- protocol steps; each is one or more primitive lock operations executed by
    one thread without an intervening blocking point -/
inductive Act
  | rBegin        -- BeginReadonly: shared.Lock
  | rClose        -- Tx.Close of a reader: shared.Unlock
  | wBegin        -- Begin: reserved.Lock
  | wAbort        -- Rollback / Close / Commit failing before pending.Lock: reserved.Unlock
  | wCommitStart  -- tryCommitChanges: pending.Lock
  | wCommitFail   -- error before exclusive.Lock: pending.Unlock; reserved.Unlock
  | wExclusive    -- exclusive.Lock
  | wFinish       -- switch (or late error): exclusive.Unlock; pending.Unlock; reserved.Unlock
  | cBegin        -- File.Close: reserved.Lock; pending.Lock
  | cExclusive    -- exclusive.Lock
  | cFinish       -- deferred unlocks
  deriving Repr, DecidableEq, Inhabited

/-- the effect of action `a` by a thread at `pc`: new pc and new lock, if enabled -/
def Act.fire (l : LockSt) : Act → Pc → Option (Pc × LockSt)
  | .rBegin, .rIdle => if !l.pending then some (.rActive, { l with shared := l.shared + 1 }) else none
  | .rClose, .rActive => some (.rDone, { l with shared := l.shared - 1 })
  | .wBegin, .wIdle => if !l.reserved then some (.wActive, { l with reserved := true }) else none
  | .wAbort, .wActive => some (.wDone, { l with reserved := false })
  | .wCommitStart, .wActive => some (.wPending, { l with pending := true })
  | .wCommitFail, .wPending => some (.wDone, { l with pending := false, reserved := false })
  | .wExclusive, .wPending => if l.shared == 0 then some (.wExcl, l) else none
  | .wFinish, .wExcl => some (.wDone, { l with pending := false, reserved := false })
  | .cBegin, .cIdle => if !l.reserved then some (.cPending, { l with reserved := true, pending := true }) else none
  | .cExclusive, .cPending => if l.shared == 0 then some (.cExcl, l) else none
  | .cFinish, .cExcl => some (.cDone, { l with pending := false, reserved := false })
  | _, _ => none

/-- thread `i` performs action `a` -/
def Sys.step (s : Sys) (i : Nat) (a : Act) : Option Sys :=
  match s.pcs[i]? with
  | none => none
  | some pc =>
    match a.fire s.lock pc with
    | none => none
    | some (pc', l') => some { lock := l', pcs := s.pcs.set i pc' }

def Sys.Step (s t : Sys) : Prop := ∃ i a, s.step i a = some t

/-- reachable from a state in which every thread is idle -/
inductive Sys.Reach : Sys → Prop
  | init (pcs : List Pc) (h : ∀ pc ∈ pcs, pc = .rIdle ∨ pc = .wIdle ∨ pc = .cIdle) : Sys.Reach { lock := {}, pcs := pcs }
  | step {s t : Sys} : Sys.Reach s → s.Step t → Sys.Reach t

def Pc.isReader : Pc → Bool | .rActive => true | _ => false
def Pc.isHolder : Pc → Bool | .wActive | .wPending | .wExcl | .cPending | .cExcl => true | _ => false
def Pc.isPend : Pc → Bool | .wPending | .wExcl | .cPending | .cExcl => true | _ => false
def Pc.isExcl : Pc → Bool | .wExcl | .cExcl => true | _ => false
def Pc.isWriter : Pc → Bool | .wActive | .wPending | .wExcl => true | _ => false
def Pc.quiet : Pc → Bool | .rIdle | .rDone | .wIdle | .wDone | .cIdle | .cDone => true | _ => false
def Pc.finished : Pc → Bool | .rDone | .wDone | .cDone => true | _ => false

end TxVerif
