/-
  The open-time maximum-size update of go-txfile (file.go: `openWith` → `growFile` /
  `shrinkFile` → `initTxMaxSize`, `doGrowFile`, `initTxReleaseRegions`) on the engine model.

  `Open` of an existing file
    1. reads the header (`newFile` → `readAllocatorState`): limit, end markers, free lists, then
       `absorbOverflowArea` — model: `FileSt.openAt` (= `FileSt.reopenP`, the PRECISE absorb rule of Model/AbsorbP.lean, with the limit and the data
       end marker the header carries; for a header without limit the limit of the `Options` is
       used for this instance: `readAllocatorState` / `absorbOverflowArea` run under it. Without
       `FlagUpdMaxSize` that is all — IN MEMORY ONLY, no transaction, nothing persisted (`RKind.bound`);
       with the flag `shrinkFile` runs afterwards and stores the limit (`RKind.boundShrink`,
       /repo 51d10a6: the sizes are compared with the value stored in the header));
    2. with `FlagUpdMaxSize` and a different size runs `growFile` (limit raised or removed) or
       `shrinkFile` (0 < new < old):
         grow   = `initTxMaxSize` (header-only transaction: txid + 1, new limit, data end marker as the precise
                  absorb rule computes it under the new limit; header and allocator get both);
         shrink = `initTxMaxSize` (the same), and if the last free
                  region of the data or of the meta area ends at the area's end marker and that end
                  marker lies beyond the new limit, `initTxReleaseRegions`: a second transaction
                  (allowed to fail) that runs the allocator part of a commit with `forceUpdate`.
                  It does NOT return the old free-list pages to the meta free list (DESIGN 14.5 (iii)).
    3. `reportOpen` recomputes the statistic from the (new) header.
-/
import TxVerif.Model.Engine
import TxVerif.Model.AbsorbP
namespace TxVerif

/-- end of the last free region (`freelist.LastRegion().End()`; 0 for an empty list) -/
def lastEnd (l : List Nat) : Nat :=
  match l.getLast? with
  | some x => x + 1
  | none => 0

/-- `canReleaseRegions` in `shrinkFile` -/
def canRelease (ar : Area) (maxPages : Nat) : Bool :=
  lastEnd ar.free == ar.endMarker && decide (maxPages < ar.endMarker)

/-- `newFile`/`readAllocatorState` + `reportOpen` for a header carrying the limit `max0` and the data
    end marker `de0` (everything else the header and the free-list pages carry is what the
    committed in-memory state `f` has) -/
def FileSt.openAt (f : FileSt) (max0 de0 : Nat) : FileSt :=
  ({ f with alloc := { f.alloc with maxPages := max0, data := { f.alloc.data with endMarker := de0 } } } : FileSt).reopenP

/-- `initTxMaxSize` (the header-only transaction of `growFile` AND `shrinkFile`) after the header has been read:
    txid + 1, the new limit, and the data end marker the precise absorb rule computes under the NEW limit
    (`dataEndWithOverflowArea(maxPages, …)`); both are written to the header and set in the allocator -/
def FileSt.limitTx (f : FileSt) (n : Nat) : FileSt :=
  ({ f with alloc := { f.alloc with maxPages := n }, txid := f.txid + 1 } : FileSt).absorbP

/-- `doGrowFile` after the header has been read -/
def FileSt.resizeGrow (f : FileSt) (n : Nat) : FileSt := f.limitTx n

/-- result of `initTxReleaseRegions` -/
inductive ReleaseRes | notRun | failed | done
  deriving Repr, DecidableEq, Inhabited

/-- `initTxReleaseRegions`: begin a write transaction (no overflow area, default growth), run the
    allocator part of the commit with `forceUpdate = true`; on failure roll back. The old
    free-list pages are NOT freed (no `commitPrepareAlloc`). -/
def FileSt.releaseTx (f : FileSt) : FileSt × ReleaseRes :=
  let st := f.alloc.beginTx false 0
  match fileCommitAlloc f.alloc st true with
  | none => ({ f with alloc := f.alloc.rollback st }, .failed)
  | some (a1, _, cs) => ({ f with alloc := a1.commit cs, txid := f.txid + 1 }, .done)

/-- the outcome of `shrinkFile` when `initTxReleaseRegions` fails (out of memory, or an I/O error):
    the limit is set, the release is rolled back -/
def FileSt.resizeShrinkFailed (f : FileSt) (n : Nat) : FileSt :=
  let f1 : FileSt := f.limitTx n
  { f1 with alloc := f1.alloc.rollback (f1.alloc.beginTx false 0) }

/-- the statistic `reportOpen` computes from the header written by a successful release -/
def FileSt.statOfMarkers (f : FileSt) : Nat :=
  max f.alloc.data.endMarker f.alloc.mta.endMarker - 2 - f.alloc.metaTotal - f.alloc.data.free.length

/-- step 3 of `shrinkFile` on the state `f1` after `initTxMaxSize`: `initTxReleaseRegions` if one of the areas
    can release regions -/
def FileSt.releaseStep (f1 : FileSt) (n : Nat) : FileSt × ReleaseRes :=
  if canRelease f1.alloc.data n || canRelease f1.alloc.mta n then
    match f1.releaseTx with
    | (f2, .done) => ({ f2 with statData := f2.statOfMarkers }, .done)
    | r => r
  else (f1, .notRun)

/-- `shrinkFile` after the header has been read -/
def FileSt.resizeShrink (f : FileSt) (n : Nat) : FileSt × ReleaseRes := (f.limitTx n).releaseStep n

/-- what `openWith` decides to do about the limit -/
inductive RKind
  | same        -- the sizes agree (or `FlagUpdMaxSize` is not set): plain open
  | bound       -- the header has no limit, the `Options` have one, no `FlagUpdMaxSize`: limit for this session only
  | grow        -- `growFile` (also: limit removed)
  | shrink      -- `shrinkFile`
  | boundShrink -- the header has no limit, the `Options` have one, `FlagUpdMaxSize`: open under the new limit, then `shrinkFile`
  deriving Repr, DecidableEq, Inhabited

/-- the decision of `openWith` on the byte sizes (header `maxSize`, `Options.MaxSize`) -/
def rkindBytes (hdrMax optMax : Nat) (upd : Bool) : RKind :=
  if hdrMax = 0 then (if optMax = 0 then .same else if upd then .boundShrink else .bound)
  else if !upd || optMax = hdrMax then .same
  else if 0 < optMax ∧ optMax < hdrMax then .shrink else .grow

/-- the same decision on page counts (page aligned sizes, `FlagUpdMaxSize` set) -/
def rkindPages (old n : Nat) : RKind :=
  if old = 0 then (if n = 0 then .same else .boundShrink)
  else if n = old then .same
  else if 0 < n ∧ n < old then .shrink else .grow

/-- `Open` of an existing file whose header carries the limit `f.alloc.maxPages` and the data end
    marker `f.alloc.data.endMarker`, with the decision `k` and the new limit `n` (pages) -/
def FileSt.resizeWith (f : FileSt) (k : RKind) (n : Nat) : FileSt × ReleaseRes :=
  match k with
  | .same => (f.reopenP, .notRun)
  | .bound => (f.openAt n f.alloc.data.endMarker, .notRun)
  | .grow => (f.reopenP.resizeGrow n, .notRun)
  | .shrink => f.reopenP.resizeShrink n
  | .boundShrink => (f.openAt n f.alloc.data.endMarker).resizeShrink n

/-- `Open` with `FlagUpdMaxSize` and `MaxSize = n` pages -/
def FileSt.resize (f : FileSt) (n : Nat) : FileSt := (f.resizeWith (rkindPages f.alloc.maxPages n) n).1

/-- the limit the header carries after `resizeWith` (old header limit `old`): the in-memory limit
    unless no update transaction ran (`same`; `bound`: header without limit opened WITHOUT `FlagUpdMaxSize`) -/
def hdrMaxAfter (old : Nat) (k : RKind) (n : Nat) : Nat :=
  match k with
  | .same => old
  | .bound => 0
  | .grow => n
  | .shrink => n
  | .boundShrink => n

/-- the data end marker the header carries afterwards (old value `de0`): `initTxMaxSize` stores the data end marker
    it computed together with the limit, a committed `initTxReleaseRegions` writes the in-memory markers — in
    every case the data end marker of the instance that performed the update (a failed release rolls back to
    the state after `initTxMaxSize`); without an update transaction the header is unchanged -/
def hdrDataEndAfter (de0 : Nat) (k : RKind) (r : FileSt × ReleaseRes) : Nat :=
  match k with
  | .same => de0
  | .bound => de0
  | _ => r.1.alloc.data.endMarker

end TxVerif
