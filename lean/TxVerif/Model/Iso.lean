/-
  Snapshot isolation model (C02): the lock protocol of Model/Lock.lean extended
  with a versioned store. A committed version `v` depends on the physical pages
  `reachOf v` (with their contents). The writer may write pages at any time
  between Begin and the end of its transaction (SetBytes+Flush, CheckpointWAL,
  the commit's own writes) but — the shadow-paging discipline, checked against
  the implementation by the crash acceptor and the engine correspondence —
  never into a page the committed version depends on. The new version is
  published by the `wFinish` step, i.e. after `exclusive.Lock` (tie:
  `Facts.order_switch`).
-/
import TxVerif.Model.Lock
import TxVerif.Model.Crash
namespace TxVerif

structure IsoSys where
  sys : Sys := {}
  version : Nat := 0
  disk : Nat → Option Hash := fun _ => none
  snap : List (Option Nat) := []     -- per thread: the version an open read transaction began at

inductive IsoAct
  | lock (a : Act)                    -- a protocol step that does not publish
  | write (p : Nat) (h : Hash)        -- a page write by the thread holding the write transaction
  | publish                           -- wFinish of a successful commit: version + 1
  deriving Repr, DecidableEq, Inhabited

/-- thread `i` performs `act` -/
def IsoSys.step (reachOf : Nat → List (Nat × Hash)) (s : IsoSys) (i : Nat) : IsoAct → Option IsoSys
  | .lock a =>
    match s.sys.step i a with
    | none => none
    | some sys' =>
      match a with
      | .rBegin => some { s with sys := sys', snap := s.snap.set i (some s.version) }
      | .rClose => some { s with sys := sys', snap := s.snap.set i none }
      | _ => some { s with sys := sys' }
  | .write p h =>
    match s.sys.pcs[i]? with
    | some pc =>
      if pc.isWriter && !(reachPages (reachOf s.version)).contains p then
        some { s with disk := fun q => if q = p then some h else s.disk q }
      else none
    | none => none
  | .publish =>
    match s.sys.step i .wFinish with
    | none => none
    | some sys' =>
      if intactB reachOf s.disk (s.version + 1) then some { s with sys := sys', version := s.version + 1 } else none

/-- what reader `i` reads for a page of its snapshot: the current disk content -/
def IsoSys.readerSees (s : IsoSys) (p : Nat) : Option Hash := s.disk p

end TxVerif
