/-
  The 84 byte file header (metaPage, layout.go:51-65), its validation
  (Validate, layout.go:130-152) and the choice between the two header slots
  (readValidMeta, file.go:597-638).
-/
import TxVerif.Model.Fnv
namespace TxVerif

def metaMagic : Nat := 0xBEA77AEB
def metaVersion : Nat := 1
def metaSize : Nat := 84
def metaChecksumOff : Nat := 80

/-- decoded header fields, in on-disk order -/
structure Meta where
  magic : Nat
  version : Nat
  pageSize : Nat
  maxSize : Nat
  flags : Nat
  root : Nat
  txid : Nat
  freelist : Nat
  wal : Nat
  dataEnd : Nat
  metaEnd : Nat
  metaTotal : Nat
  checksum : Nat
  deriving Repr, DecidableEq

def Meta.body (m : Meta) : Bytes :=
  le32 m.magic ++ le32 m.version ++ le32 m.pageSize ++ le64 m.maxSize ++ le32 m.flags ++
  le64 m.root ++ le64 m.txid ++ le64 m.freelist ++ le64 m.wal ++ le64 m.dataEnd ++
  le64 m.metaEnd ++ le64 m.metaTotal

def Meta.encode (m : Meta) : Bytes := m.body ++ le32 m.checksum

/-- `Finalize`: set the checksum to the hash of the first 80 bytes -/
def Meta.finalize (m : Meta) : Meta := { m with checksum := (fnv1a m.body).toNat }

def sliceDec (b : Bytes) (off len : Nat) : Nat := leDec ((b.drop off).take len)

def Meta.decode (b : Bytes) : Meta :=
  { magic := sliceDec b 0 4, version := sliceDec b 4 4, pageSize := sliceDec b 8 4,
    maxSize := sliceDec b 12 8, flags := sliceDec b 20 4, root := sliceDec b 24 8,
    txid := sliceDec b 32 8, freelist := sliceDec b 40 8, wal := sliceDec b 48 8,
    dataEnd := sliceDec b 56 8, metaEnd := sliceDec b 64 8, metaTotal := sliceDec b 72 8,
    checksum := sliceDec b 80 4 }

/-- `Validate` on the raw 84 bytes -/
def hdrValid (b : Bytes) : Bool :=
  b.length == metaSize &&
  sliceDec b 0 4 == metaMagic &&
  sliceDec b 4 4 == metaVersion &&
  sliceDec b 80 4 == (fnv1a (b.take metaChecksumOff)).toNat

inductive Choice | slot0 | slot1 | invalid | sameTxid
  deriving Repr, DecidableEq

/-- `int64(tx0 - tx1) > 0` on 64 bit words -/
def txNewer (tx0 tx1 : BitVec 64) : Bool := 0 < (tx0 - tx1).toInt

/-- the choice made by `readValidMeta` given both raw slots -/
def chooseMeta (b0 b1 : Bytes) : Choice :=
  match hdrValid b0, hdrValid b1 with
  | false, false => .invalid
  | true, false => .slot0
  | false, true => .slot1
  | true, true =>
    let t0 := BitVec.ofNat 64 (sliceDec b0 32 8)
    let t1 := BitVec.ofNat 64 (sliceDec b1 32 8)
    if t0 == t1 then .sameTxid
    else if txNewer t0 t1 then .slot0 else .slot1

end TxVerif

namespace TxVerif

/-- the on-disk layout of `metaPage` (field name, size in bytes), in order -/
def metaLayout : List (String × Nat) :=
  [("magic", 4), ("version", 4), ("pageSize", 4), ("maxSize", 8), ("flags", 4), ("root", 8), ("txid", 8),
   ("freelist", 8), ("wal", 8), ("dataEndMarker", 8), ("metaEndMarker", 8), ("metaTotal", 8), ("checksum", 4)]

def Meta.fieldValues (m : Meta) : List Nat :=
  [m.magic, m.version, m.pageSize, m.maxSize, m.flags, m.root, m.txid, m.freelist, m.wal, m.dataEnd, m.metaEnd,
   m.metaTotal, m.checksum]

def encodeFields : List (String × Nat) → List Nat → Bytes
  | (_, sz) :: l, v :: vs => leEnc sz v ++ encodeFields l vs
  | _, _ => []

/-- offset of a field in a packed layout -/
def layoutOffset : List (String × Nat) → String → Option Nat
  | [], _ => none
  | (n, sz) :: l, f => if n == f then some 0 else (layoutOffset l f).map (· + sz)

def layoutSize (l : List (String × Nat)) : Nat := (l.map (·.2)).sum

/-- the encoder used by the model is the packed little-endian encoding of the layout -/
theorem Meta.encode_eq_layout (m : Meta) : m.encode = encodeFields metaLayout m.fieldValues := by
  simp [Meta.encode, Meta.body, encodeFields, metaLayout, Meta.fieldValues, le32, le64]

theorem metaLayout_size : layoutSize metaLayout = metaSize := by decide
theorem metaLayout_checksumOff : layoutOffset metaLayout "checksum" = some metaChecksumOff := by decide
theorem metaLayout_txidOff : layoutOffset metaLayout "txid" = some 32 := by decide

end TxVerif
