/-
  FNV-1a/32 exactly as Go's hash/fnv.New32a, used by metaPage.computeChecksum
  (layout.go).
-/
import TxVerif.Model.Bytes
namespace TxVerif

def fnvPrime : BitVec 32 := 16777619#32
def fnvOffset : BitVec 32 := 2166136261#32

def fnvStep (h : BitVec 32) (b : UInt8) : BitVec 32 :=
  (h ^^^ BitVec.zeroExtend 32 b.toBitVec) * fnvPrime

def fnv1aFrom (h : BitVec 32) (bs : Bytes) : BitVec 32 := bs.foldl fnvStep h
def fnv1a (bs : Bytes) : BitVec 32 := fnv1aFrom fnvOffset bs

end TxVerif
