/-
  Replay of the implementation's queue traces (harness/pqrun: `emit` calls of pqrun.go) on the queue model
  `PQState` (Model/PQQueue.lean), with the specification `ASpec` running alongside.

  One program = the lines between `program …` and `end`.  Per line the result recorded from the real queue
  is compared with the result of `PQState.step`, and that with the result of `ASpec.step` (flush oracle =
  `PQState.autoFlush`).  The harness only records sizes; the event bytes are the harness's
  `EventByte(event, offset)` (regenerated here), so the bytes `rread` returns in the model are checked against
  the specification's bytes.

  Calls whose flush / cleanup transaction failed (`err:oom` on bounded files, `err:other(err:commitfail)` from
  injected I/O faults) are outside `QOp` and outside the refinement theorem.  They are replayed with the writer
  states of Model/PQWriterFail.lean (`failFlush`: a failed flush leaves buffer and file as they were; a `Write`
  whose flush failed appends nothing; a `Next` whose flush failed has finished the event; a failed ACK changes
  nothing; a `Close` whose flush failed followed by `open` is the model's `crash` operation `QCOp.crash`: the
  buffered events are gone, writer and reader start from the file - these trace lines tie the crash semantic
  of Props/PQQueueCrash.lean to the implementation) and the corresponding change of the
  specification state, after checking that the model agrees that the call started a transaction.  With
  `pqmodel strict` such calls end the replay of the program instead (`skip`).
  Other lines the model does not cover end the replay of the program (`skip`): unknown lines (`fault …`),
  panics, errors of reader calls.  `closedprobe` does not record whether the final flush of `Close` succeeded; on a bounded
  file with unflushed events it is replayed as a successful close and the program is skipped if the lines
  up to the next `hdr` line (always emitted after a reopen) show that it was not.
-/
import TxVerif.Model.PQQueue
import TxVerif.Model.PQWriterFail
namespace TxVerif

/-- `EventByte(i, j)` of harness/pqrun/pqrun.go -/
def pqEventByte (i j : Nat) : UInt8 :=
  let x : UInt32 := (UInt32.ofNat i) * 2654435761 + (UInt32.ofNat j) * 40503 + 17
  let x := x ^^^ (x >>> 13)
  x.toUInt8

def pqEventBytes (i from_ n : Nat) : List UInt8 := (List.range n).map fun k => pqEventByte i (from_ + k)

structure PQSim where
  cfg : QCfg
  bounded : Bool
  /-- a `closedprobe` on a bounded file with unflushed events was replayed as a successful close; not yet
      confirmed by the next `hdr` line -/
  tentative : Bool := false
  /-- skip the rest of a program at the first failed transaction instead of replaying the failure -/
  strict : Bool := false
  q : PQState
  a : ASpec
  /-- while `tentative`: model and specification for the other outcome of the `closedprobe` (the final flush of
      `Close` failed), replayed alongside -/
  altq : Option (PQState × ASpec) := none

inductive PQRes where
  | ok (s : PQSim)
  | skip (why : String)
  | mismatch (msg : String)

def qerrStr : QErr → String
  | .ackEmpty => "err:ackempty" | .ackTooMany => "err:acktoomany" | .inactiveTx => "err:inactivetx"
  | .activeTx => "err:activetx" | .readFail => "err:readfail" | .panic => "panic"

/-- the result in the notation of the trace (the part after `=> `) -/
def qoutStr : QOut → String
  | .ok => "ok"
  | .wrote _ => "ok"
  | .size n => s!"ok {n}"
  | .bytes b => s!"ok {b.length}"
  | .count n => s!"ok {n}"
  | .counters p a _ _ => s!"ok {p} ok {a}"
  | .err e => qerrStr e

/-- apply one operation to model and specification and compare with the recorded result -/
def pqSimOp (s : PQSim) (op : QOp) (expected : String) : PQRes :=
  let fl := s.q.autoFlush s.cfg op
  let r := s.q.step s.cfg op
  match s.a.step op fl with
  | none => .mismatch s!"the specification does not accept the call (out of contract)"
  | some (a', o) =>
    if qoutStr r.2 != expected then .mismatch s!"expected={expected} got={qoutStr r.2}"
    else if r.2 != o then .mismatch s!"model and specification disagree: model {qoutStr r.2} spec {qoutStr o}"
    else .ok { s with q := r.1, a := a' }

/-- failure oracle for the recorded error -/
def pqOutcome (res : String) : FlushOutcome := if res.contains "oom" then .allocFail else .commitFail

/-- a producer call / close whose flush transaction failed (`kind`: "flush", "write", "next", "close") -/
def pqSimFail (s : PQSim) (kind : String) (n : Nat) (res : String) : PQRes :=
  if s.strict then .skip s!"{kind}: {res}" else
  let S := s.cfg.S
  let o := pqOutcome res
  if s.a.inRead then .mismatch "failed producer call inside a read session" else
  match kind with
  | "flush" =>
    if (flushRange s.q.w).isEmpty then .mismatch s!"{res}, but the model has nothing to flush (no transaction)" else
    .ok { s with q := { s.q with w := failFlush o s.q.w } }
  | "write" =>
    if !(decide (s.q.w.avail ≤ n)) || (flushRange s.q.w).isEmpty then
      .mismatch s!"{res}, but in the model this Write does not flush (avail {s.q.w.avail})" else
    .ok { s with q := { s.q with w := failFlush o s.q.w } }
  | "next" =>
    let s1 := s.q.w.nextCore S
    if !(decide (s1.avail ≤ 4)) || (flushRange s1).isEmpty then
      .mismatch s!"{res}, but in the model this Next does not flush (avail {s1.avail})" else
    -- the event is finished and stays in the buffer
    .ok { s with q := { s.q with w := failFlush o s1 }, a := { s.a with events := s.a.events ++ [s.a.cur], cur := [] } }
  | "close" =>
    if (flushRange s.q.w).isEmpty then .mismatch s!"{res}, but the model has nothing to flush (no transaction)" else
    -- the writer is dropped with its buffer, the queue is opened again from the file: exactly the model's
    -- `crash` (Model/PQQueue.lean, C06): the implementation's behaviour here is what the crash semantic predicts
    match s.a.cstep .crash false with
    | some (a', _) => .ok { s with q := (s.q.cstep s.cfg .crash).1, a := a' }
    | none => .mismatch "the specification does not accept the crash"
  | _ => .skip s!"{kind}: {res}"

def kvNat (toks : List String) (k : String) : Option Nat :=
  ((toks.find? (·.startsWith (k ++ "="))).map fun x => (x.drop (k.length + 1)).toString).bind String.toNat?

def kvPair (toks : List String) (k : String) : Option (Nat × Bool) :=
  match ((toks.find? (·.startsWith (k ++ "="))).map fun x => ((x.drop (k.length + 1)).toString.splitOn ":")) with
  | some [a, b] => a.toNat?.map fun n => (n, b == "1")
  | _ => none

/-- the `hdr` line: root header ids / set flags, specification counters, Pending, Active -/
def pqSimHdr (s : PQSim) (toks : List String) : PQRes :=
  match kvPair toks "h", kvPair toks "r", kvPair toks "t", kvNat toks "f", kvNat toks "a", kvNat toks "p", kvNat toks "act" with
  | some (hi, hs), some (ri, rs), some (ti, ts), some f, some a, some p, some act =>
    let h := s.q.hdr
    let got := s!"h={h.headId}:{if h.headSet then 1 else 0} r={h.readId}:{if h.readSet then 1 else 0} t={h.tailId}:{if h.tailSet then 1 else 0} f={s.q.totFlushed} a={s.q.totAcked} p={h.pending} act={h.active}"
    let exp := s!"h={hi}:{if hs then 1 else 0} r={ri}:{if rs then 1 else 0} t={ti}:{if ts then 1 else 0} f={f} a={a} p={p} act={act}"
    if got != exp then .mismatch s!"expected={exp} got={got}"
    else if s.a.flushed != f || s.a.acked != a then .mismatch s!"specification counters flushed={s.a.flushed} acked={s.a.acked}, harness f={f} a={a}"
    else .ok { s with tentative := false, altq := none }
  | _, _, _, _, _, _, _ => .skip "malformed hdr line"

/-- one trace line; `none` state = before the first `open` of the program -/
def pqSimLine0 (strict : Bool) (st : Option PQSim) (line : String) : PQRes :=

  match line.splitOn " => " with
  | [lhs, res] =>
    let toks := lhs.splitOn " "
    match st, toks with
    | none, "open" :: rest =>
      if res != "ok" then .skip s!"open: {res}" else
      match kvNat rest "ps", kvNat rest "max", kvNat rest "wb" with
      | some ps, some mx, some wb =>
        if ps < 64 then .skip "page size" else
        let cfg := QCfg.ofSettings ps wb
        .ok { cfg := cfg, bounded := mx != 0, strict := strict, q := PQState.init cfg, a := {} }
      | _, _, _ => .skip "malformed open line"
    | none, _ => .skip "no open"
    | some s, "open" :: _ => if res == "ok" then .ok s else .skip s!"open: {res}"
    | some s, ["close"] =>
      if res == "ok ok" then pqSimOp s .reopen "ok"
      else if res.startsWith "ok err:" then pqSimFail s "close" 0 res
      else .skip s!"close: {res}"
    | some s, ["write", n] =>
      match n.toNat? with
      | none => .skip "malformed write"
      | some n =>
        if res.startsWith "err:" then pqSimFail s "write" n res else
        if res != "ok" then .skip s!"write: {res}" else
        pqSimOp s (.write (pqEventBytes s.a.events.length s.a.cur.length n)) res
    | some s, ["next"] =>
      if res.startsWith "err:" then pqSimFail s "next" 0 res else
      if res != "ok" then .skip s!"next: {res}" else pqSimOp s .next res
    | some s, ["flush"] =>
      if res.startsWith "err:" then pqSimFail s "flush" 0 res else
      if res != "ok" then .skip s!"flush: {res}" else pqSimOp s .flush res
    | some s, ["rbegin"] => pqSimOp s .rbegin res
    | some s, ["rdone"] => pqSimOp s .rdone res
    | some s, ["rnext"] => if !res.startsWith "ok" then .skip s!"rnext: {res}" else pqSimOp s .rnext res
    | some s, ["rread", n] =>
      match n.toNat? with
      | none => .skip "malformed rread"
      | some n => if !res.startsWith "ok" then .skip s!"rread: {res}" else pqSimOp s (.rread n) res
    | some s, ["available"] => if !res.startsWith "ok" then .skip s!"available: {res}" else pqSimOp s .available res
    | some s, ["counters"] => if res.contains "err" then .skip s!"counters: {res}" else pqSimOp s .counters res
    | some s, ["ack", n] =>
      match n.toNat? with
      | none => .skip "malformed ack"
      | some n =>
        if res == "panic" then .skip s!"ack: {res}"
        else if res.startsWith "err:other" || res == "err:io" || res == "err:oom" then
          -- the cleanup transaction failed: nothing changed
          if s.strict then .skip s!"ack: {res}" else .ok s
        else pqSimOp s (.ack n) res
    | _, _ => .skip s!"unknown line: {lhs}"
  | _ =>
    match st, line.splitOn " " with
    | some s, "hdr" :: rest => pqSimHdr s rest
    | some s, ["closedprobe"] =>
      if s.bounded && s.q.w.activeEventCount != 0 && !s.strict then
        -- unknown outcome of the final flush: replay both
        let alt : Option (PQState × ASpec) :=
          match pqSimFail s "close" 0 "err:oom" with
          | .ok s' => some (s'.q, s'.a)
          | _ => none
        match pqSimOp s .reopen "ok" with
        | .ok s' => .ok { s' with tentative := true, altq := alt }
        | r => r
      else pqSimOp { s with tentative := s.bounded && s.q.w.activeEventCount != 0 } .reopen "ok"
    | _, _ => .skip s!"unknown line: {line}"

/-- one trace line.  While the outcome of a `closedprobe` is unconfirmed (up to the next `hdr` line) the line
    is replayed for both outcomes; a disagreement of the "flush succeeded" replay switches to the other one
    (if that one agrees), a disagreement of both is reported for the first. -/
def pqSimLine (strict : Bool) (st : Option PQSim) (line : String) : PQRes :=
  match st with
  | some s =>
    if s.tentative then
      let main := pqSimLine0 strict (some { s with tentative := false, altq := none }) line
      let alt : Option PQSim := match s.altq with
        | none => none
        | some (q', a') =>
          match pqSimLine0 strict (some { s with tentative := false, altq := none, q := q', a := a' }) line with
          | .ok s2 => some s2
          | _ => none
      let isHdr := line.startsWith "hdr "
      match main with
      | .ok s1 =>
        if isHdr then .ok s1
        else .ok { s1 with tentative := true, altq := alt.map fun s2 => (s2.q, s2.a) }
      | .mismatch msg =>
        match alt with
        | some s2 => .ok { s2 with tentative := !isHdr, altq := none }
        | none =>
          if s.altq.isSome then .mismatch s!"{msg} (closedprobe: neither outcome of the final flush of Close fits)"
          else .skip s!"closedprobe: the final flush of Close failed (not recorded); first difference: {msg}"
      | r => r
    else pqSimLine0 strict st line
  | none => pqSimLine0 strict st line

end TxVerif
