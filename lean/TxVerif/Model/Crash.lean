/-
  Crash model of the commit protocol (tx.go tryCommitChanges / syncNewMeta,
  write.go, file.go readValidMeta) at the level of vfs operations.

  A trace is the sequence of operations the engine issues to the file: page
  writes, header writes into one of the two slots, syncs, truncates. After a
  crash the file holds the contents as of the last completed sync plus ANY
  subset of the operations issued since (applied in issue order); a header
  write may additionally be torn, leaving an invalid slot. Recovery picks the
  valid header with the highest transaction id.

  `Cfg.step` is the discipline ("acceptor") the engine is claimed to follow; it
  is executable and is run on the real operation logs of the implementation by
  the correspondence check. Props/C01.lean proves that every trace accepted by
  it is crash safe for every crash point and every subset of lost writes.
-/
namespace TxVerif

abbrev Hash := Nat

/-- contents of a file: page ↦ content hash (none: beyond EOF / never written), slot ↦ (txid, state id) -/
structure Img where
  pages : Nat → Option Hash
  slots : Nat → Option (Nat × Nat)

inductive TOp
  | write (p : Nat) (h : Hash)                -- one page
  | hdr (slot txid st : Nat)                  -- header naming committed state `st`
  | sync
  | trunc (n : Nat)                           -- file cut to n pages
  deriving Repr, DecidableEq, Inhabited

def applyOp (i : Img) : TOp → Img
  | .write p h => { i with pages := fun q => if q = p then some h else i.pages q }
  | .hdr s t st => { i with slots := fun k => if k = s then some (t, st) else i.slots k }
  | .sync => i
  | .trunc n => { i with pages := fun q => if n ≤ q then none else i.pages q }

/-- a header write cut at some byte leaves a slot that does not validate -/
def tearOp (i : Img) : TOp → Img
  | .hdr s _ _ => { i with slots := fun k => if k = s then none else i.slots k }
  | op => applyOp i op

/-- `CrashImg d ops i`: `i` is a possible file content after a crash when `d` is
    durable and `ops` were issued since the last completed sync -/
inductive CrashImg : Img → List TOp → Img → Prop
  | nil (d : Img) : CrashImg d [] d
  | keep {d op ops i} : CrashImg (applyOp d op) ops i → CrashImg d (op :: ops) i
  | drop {d op ops i} : CrashImg d ops i → CrashImg d (op :: ops) i
  | tear {d op ops i} : CrashImg (tearOp d op) ops i → CrashImg d (op :: ops) i

/-- `readValidMeta`: the valid header with the highest transaction id -/
def recover (i : Img) : Option Nat :=
  match i.slots 0, i.slots 1 with
  | none, none => none
  | some (_, s), none => some s
  | none, some (_, s) => some s
  | some (t0, s0), some (t1, s1) => if t1 < t0 then some s0 else some s1

/-- protocol configuration while walking a trace -/
structure Cfg where
  durable : Img
  pending : List TOp := []
  aSlot : Nat               -- slot of the committed (synced) header
  aTx : Nat                 -- its transaction id
  aSt : Nat                 -- the state it names
  inflight : Option Nat := none   -- state named by a header that is written but not synced yet

def reachPages (reach : List (Nat × Hash)) : List Nat := reach.map (·.1)

/-- every page of the state has its final content in the image -/
def intactB (reachOf : Nat → List (Nat × Hash)) (pages : Nat → Option Hash) (st : Nat) : Bool :=
  (reachOf st).all fun (p, h) => pages p == some h

/-- a pending operation that cannot affect the pages of the state `reach` belongs to: a write to another
    page, a truncate beyond all of them (a pending header write or sync does not qualify) -/
def pendClearB (reach : List (Nat × Hash)) : TOp → Bool
  | .write p _ => !(reachPages reach).contains p
  | .trunc n => (reachPages reach).all (· < n)
  | _ => false

/-- the discipline: `none` = the trace violates it -/
def Cfg.step (reachOf : Nat → List (Nat × Hash)) (c : Cfg) : TOp → Option Cfg
  | .write p h =>
    -- never write into a page the committed state depends on; nothing but the sync may follow a header write
    if c.inflight.isNone && !(reachPages (reachOf c.aSt)).contains p then
      some { c with pending := c.pending ++ [.write p h] } else none
  | .trunc n =>
    if c.inflight.isNone && (reachPages (reachOf c.aSt)).all (· < n) then
      some { c with pending := c.pending ++ [.trunc n] } else none
  | .hdr s t st =>
    -- the new header goes to the inactive slot with the next transaction id, and only once
    -- everything the new state depends on is durable and no operation still pending can change it:
    -- normally nothing is pending (a sync completed after the last write); the open-time max-size
    -- update (file.go initTxMaxSize) rewrites the ACTIVE state's header without syncing first,
    -- while e.g. a rollback's truncate is still pending - harmless, the pending operations stay
    -- clear of the named state's pages
    if c.inflight.isNone && c.pending.all (pendClearB (reachOf st)) && s == 1 - c.aSlot && t == c.aTx + 1 &&
       intactB reachOf c.durable.pages st then
      some { c with pending := c.pending ++ [.hdr s t st], inflight := some st } else none
  | .sync =>
    let d := c.pending.foldl applyOp c.durable
    match c.inflight with
    | none => some { c with durable := d, pending := [] }
    | some st => some { durable := d, pending := [], aSlot := 1 - c.aSlot, aTx := c.aTx + 1, aSt := st, inflight := none }

def Cfg.run (reachOf : Nat → List (Nat × Hash)) (c : Cfg) : List TOp → Option Cfg
  | [] => some c
  | op :: ops => match c.step reachOf op with | none => none | some c' => c'.run reachOf ops

end TxVerif
