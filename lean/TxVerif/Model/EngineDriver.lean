/-
  Replays an annotated engine trace produced by the Go harness on the Lean
  engine model and reports every line on which model and implementation
  disagree (results, returned ids, contents read, allocator snapshots).
-/
import TxVerif.Model.Engine
import TxVerif.Model.AllocOps
namespace TxVerif

structure EngSt where
  f : FileSt := {}
  tx : Option TxSt := none
  created : Bool := false
  resync : Bool := false      -- adopt the next snapshot line (after an unmodelled operation)
  resized : Bool := false     -- the maximum size was changed on open (allocWF does not cover shrinking)
  /-- the data end marker in the file header, as far as known: it is rewritten by commits that change the
      allocator state; `absorbOverflow` raises the in-memory marker only. `none` after a resize. -/
  diskDE : Option Nat := none
  alloc0 : Alloc := {}        -- allocator state when the running transaction began
  checked : Nat := 0
  mismatches : List String := []
  deriving Inhabited

def fmtRuns (ids : List Nat) : String :=
  if ids.isEmpty then "-" else
  ",".intercalate ((runs ids).map fun (s, c) => if c = 1 then s!"{s}" else s!"{s}-{s + c - 1}")

def fmtPairs (m : Assoc Nat) : String :=
  if m.isEmpty then "-" else ",".intercalate (m.map fun (k, v) => s!"{k}:{v}")

def snapLine (f : FileSt) (tx : Option TxSt) : String :=
  let a := f.alloc
  let base := s!"S max={a.maxPages} de={a.data.endMarker} me={a.mta.endMarker} mt={a.metaTotal} df={fmtRuns a.data.free} mf={fmtRuns a.mta.free} fp={fmtRuns a.freelistPages} wp={fmtRuns f.walPages} map={fmtPairs f.walMap}"
  match tx with
  | none => base
  | some t =>
    base ++ s!" | da={fmtRuns t.ta.data.allocated} dn={fmtRuns t.ta.data.new_} dfr={fmtRuns t.ta.data.freed} ma={fmtRuns t.ta.mta.allocated} mn={fmtRuns t.ta.mta.new_} mfr={fmtRuns t.ta.mta.freed} mv={fmtRuns t.ta.moveToMeta} wn={fmtPairs t.walNew} wf={fmtRuns t.walFree}"

/-- `key=value` lookup in a list of tokens -/
def field (toks : List String) (key : String) : Option String :=
  (toks.find? (·.startsWith (key ++ "="))).map (fun t => (t.drop (key.length + 1)).toString)

def fieldNat (toks : List String) (key : String) : Nat := ((field toks key).bind String.toNat?).getD 0

/-- parse `3,5-7,9` -/
def parseRuns (s : String) : List Nat :=
  if s == "-" then [] else
  (s.splitOn ",").flatMap fun part =>
    match part.splitOn "-" with
    | [a] => match a.toNat? with | some x => [x] | none => []
    | [a, b] => match a.toNat?, b.toNat? with | some x, some y => idRange x (y + 1 - x) | _, _ => []
    | _ => []

def parsePairs (s : String) : Assoc Nat :=
  if s == "-" then [] else
  (s.splitOn ",").filterMap fun part =>
    match part.splitOn ":" with
    | [a, b] => match a.toNat?, b.toNat? with | some x, some y => some (x, y) | _, _ => none
    | _ => none

/-- recorded choices `[flush:1:2,ckpt:3:4]` → flushed (id, phys) in order and checkpoint copies -/
def parseRec (s : String) : List (Nat × Nat) × List (Nat × Nat) :=
  let body := ((s.drop 1).toString.dropEnd 1).toString
  if body == "-" || body.isEmpty then ([], []) else
  (body.splitOn ",").foldl (fun (fl, ck) e =>
    match e.splitOn ":" with
    | ["flush", a, b] => match a.toNat?, b.toNat? with | some x, some y => (fl ++ [(x, y)], ck) | _, _ => (fl, ck)
    | ["ckpt", a, b] => match a.toNat?, b.toNat? with | some x, some y => (fl, ck ++ [(x, y)]) | _, _ => (fl, ck)
    | _ => (fl, ck)) ([], [])

def sortPairs (l : List (Nat × Nat)) : List (Nat × Nat) := l.foldl (fun m (k, v) => Assoc.set m k v) []

def EngSt.miss (s : EngSt) (line : String) (why : String) : EngSt :=
  { s with checked := s.checked + 1, mismatches := s.mismatches ++ [s!"{why} :: {line}"] }

def EngSt.ok (s : EngSt) : EngSt := { s with checked := s.checked + 1 }

def exceptStr {α} : Except Err α → String
  | .ok _ => "ok"
  | .error e => e.show

/-- adopt a snapshot line as the model state (used after operations the model does not cover) -/
def adoptSnap (s : EngSt) (toks : List String) : EngSt :=
  let a := s.f.alloc
  let dArea : Area := { endMarker := fieldNat toks "de", free := parseRuns ((field toks "df").getD "-") }
  let mArea : Area := { endMarker := fieldNat toks "me", free := parseRuns ((field toks "mf").getD "-") }
  let mt := fieldNat toks "mt"
  let fp := parseRuns ((field toks "fp").getD "-")
  let mx := fieldNat toks "max"
  let a2 : Alloc := { a with maxPages := mx, data := dArea, mta := mArea, metaTotal := mt, freelistPages := fp }
  let wp := parseRuns ((field toks "wp").getD "-")
  let wm := parsePairs ((field toks "map").getD "-")
  let f2 : FileSt := { s.f with alloc := a2, walPages := wp, walMap := wm }
  { s with f := f2, resync := false }

/-- end of a transaction: the model state must satisfy the well-formedness the theorems assume
    (validates on real histories that the hypotheses are met; skipped once a resize happened) -/
def endTx (s : EngSt) (f : FileSt) : EngSt :=
  let s := { s with f := f, tx := none }
  if s.resized || allocWF f.alloc then s
  else { s with mismatches := s.mismatches ++ [s!"model invariant allocWF violated: {snapLine f none}"] }

/-- process one trace line -/
def engStep (s : EngSt) (line : String) : EngSt :=
  let (lhs, res) := match line.splitOn " => " with
    | [l, r] => (l, r)
    | _ => (line, "")
  let toks := lhs.splitOn " "
  let rtoks := res.splitOn " "
  let rkind := rtoks.headD ""
  match toks with
  | "S" :: rest =>
    if s.resync then (adoptSnap s rest).ok else
    let m := snapLine s.f s.tx
    if m == line then s.ok else s.miss line s!"snapshot differs, model: {m}"
  | "open" :: rest =>
    if rkind != "ok" then s.miss line "open failed" else
    if !s.created then
      let ps := fieldNat rest "ps"
      let f0 := FileSt.create ps (fieldNat rest "maxsize" / ps) (fieldNat rest "meta")
      { s with f := f0, created := true, tx := none, diskDE := some f0.alloc.data.endMarker }.ok
    else
      match s.diskDE with
      | some d =>
        -- the allocator state is read from the header: persisted data end marker, then `absorbOverflow`
        let f1 : FileSt := { s.f with alloc := { s.f.alloc with data := { s.f.alloc.data with endMarker := d } } }
        { s with f := f1.reopen, tx := none }.ok
      | none => { s with f := s.f.reopen, tx := none, resync := true }.ok   -- persisted marker unknown after a resize
  | "resize-grow" :: _ => { s with resync := true, resized := true, tx := none, f := s.f.reopen, diskDE := none }
  | "resize-shrink" :: _ => { s with resync := true, resized := true, tx := none, f := s.f.reopen, diskDE := none }
  | "resize-unbound" :: _ => { s with resync := true, resized := true, tx := none, f := s.f.reopen, diskDE := none }
  | ["closefile"] => s
  | "begin" :: rest =>
    if rkind != "ok" then s.miss line "begin failed" else
    let ovf := (field rest "ovf").getD "false" == "true"
    -- states reached after a transaction used the overflow area are outside `allocWF`
    { s with tx := some (s.f.beginTx ovf (fieldNat rest "grow") (fieldNat rest "wal")), resized := s.resized || ovf, alloc0 := s.f.alloc }.ok
  | ["alloc", n] =>
    match s.tx, n.toNat? with
    | some tx, some n =>
      match txAlloc s.f tx n with
      | .ok (f, tx, ids) =>
        let want := "ok" ++ String.join (ids.map fun i => s!" {i}")
        if res == want then { s with f := f, tx := some tx }.ok else s.miss line s!"model: {want}"
      | .error e => if res == e.show then s.ok else s.miss line s!"model: {e.show}"
    | _, _ => s.miss line "no transaction"
  | ["page", id] =>
    match s.tx, id.toNat? with
    | some tx, some id =>
      match getPage s.f tx id with
      | .ok (tx, _) => if res == "ok" then { s with tx := some tx }.ok else s.miss line "model: ok"
      | .error e => if res == e.show then s.ok else s.miss line s!"model: {e.show}"
    | _, _ => s.miss line "no transaction"
  | ["write", id, mode, st] =>
    match s.tx, id.toNat?, st.toNat? with
    | some tx, some id, some st =>
      let m := if mode == "full" then WMode.full else if mode == "lo" then WMode.lo else WMode.hi
      match txWrite s.f tx id m st with
      | .ok tx => if res == "ok" then { s with tx := some tx }.ok else s.miss line "model: ok"
      | .error e => if res == e.show then s.ok else s.miss line s!"model: {e.show}"
    | _, _, _ => s.miss line "bad write"
  | ["load", id] =>
    match s.tx, id.toNat? with
    | some tx, some id =>
      match txLoad s.f tx id with
      | .ok tx => if res == "ok" then { s with tx := some tx }.ok else s.miss line "model: ok"
      | .error e => if res == e.show then s.ok else s.miss line s!"model: {e.show}"
    | _, _ => s.miss line "bad load"
  | ["read", id] =>
    match s.tx, id.toNat? with
    | some tx, some id =>
      match txRead s.f tx id with
      | .ok (tx, c) =>
        let want := s!"ok {c.show}"
        if res == want then { s with tx := some tx }.ok else s.miss line s!"model: {want}"
      | .error e => if res == e.show then s.ok else s.miss line s!"model: {e.show}"
    | _, _ => s.miss line "bad read"
  | ["free", id] =>
    match s.tx, id.toNat? with
    | some tx, some id =>
      match txFree s.f tx id with
      | .ok (f, tx) => if res == "ok" then { s with f := f, tx := some tx }.ok else s.miss line "model: ok"
      | .error e => if res == e.show then s.ok else s.miss line s!"model: {e.show}"
    | _, _ => s.miss line "bad free"
  | ["flushpage", id, rec] =>
    match s.tx, id.toNat? with
    | some tx, some id =>
      let (fl, _) := parseRec rec
      let r : Except Err (FileSt × TxSt × Option Nat) := do
        let (tx, p) ← getPage s.f tx id
        pageCanWrite p
        doFlush s.f tx p
      match r with
      | .ok (f, tx, w) =>
        let mine := match w with | some w => [(id, w)] | none => []
        if res == "ok" && mine == fl then { s with f := f, tx := some tx }.ok
        else s.miss line s!"model: ok, flushed {mine}"
      | .error e => if res == e.show then s.ok else s.miss line s!"model: {e.show}"
    | _, _ => s.miss line "bad flushpage"
  | ["flush", rec] =>
    match s.tx with
    | some tx =>
      let (fl, _) := parseRec rec
      match flushList s.f tx (fl.map (·.1)) with
      | .ok (f, tx, ws) =>
        if ws != fl then s.miss line s!"model flushes {ws}" else
        if res == "ok" then
          if tx.unflushed.isEmpty then { s with f := f, tx := some tx }.ok
          else s.miss line s!"model: dirty pages left unflushed {tx.unflushed}"
        else if res == "err:oom" then
          if flushWouldFail f tx then { s with f := f, tx := some tx }.ok else s.miss line "model: no page needs an unavailable overwrite page"
        else s.miss line "unexpected result"
      | .error e => s.miss line s!"model: recorded flush order fails with {e.show}"
    | none => s.miss line "no transaction"
  | ["checkpoint", rec] =>
    match s.tx with
    | some tx =>
      let (_, ck) := parseRec rec
      let (f, tx, copied) := doCheckpoint s.f tx
      if res == "ok" && sortPairs ck == sortPairs copied then { s with f := f, tx := some tx }.ok
      else s.miss line s!"model copies {copied}"
    | none => s.miss line "no transaction"
  | ["setroot", id] =>
    match s.tx, id.toNat? with
    | some tx, some id => { s with tx := some { tx with root := id } }.ok
    | _, _ => s.miss line "bad setroot"
  | ["commit", rec] =>
    match s.tx with
    | some tx =>
      let (fl, ck) := parseRec rec
      match flushList s.f tx (fl.map (·.1)) with
      | .error e => s.miss line s!"model: recorded flush order fails with {e.show}"
      | .ok (f, tx, ws) =>
        if ws != fl then s.miss line s!"model flushes {ws}" else
        if rtoks.contains "!io" then
          -- the commit failed because of an injected I/O fault: every such failure ends in a rollback
          if rkind.startsWith "err:" then (endTx s (txAbort f tx)).ok else s.miss line "I/O fault but commit succeeded"
        else if !tx.unflushed.isEmpty then
          -- the implementation stopped flushing: must be an unavailable overwrite page
          if res == "err:commitfail" && flushWouldFail f tx then (endTx s (txAbort f tx)).ok
          else s.miss line s!"model: pages left unflushed {tx.unflushed}"
        else
          let (f, r, copied) := commitAfterFlush f tx
          let want := match r with
            | .ok => "ok" | .flushFailed => "err:commitfail" | .walOom => "err:commitfail/oom" | .allocOom => "err:commitfail/oom"
          -- a commit that changed the allocator state rewrites the end markers in the header
          let s := if r == .ok && f.alloc != s.alloc0 then { s with diskDE := some f.alloc.data.endMarker } else s
          if res == want && sortPairs ck == sortPairs copied then (endTx s f).ok
          else s.miss line s!"model: {want}, checkpoint copies {copied}"
    | none => s.miss line "no transaction"
  | ["rollback"] | ["close"] =>
    match s.tx with
    | some tx => (endTx s (txAbort s.f tx)).ok
    | none => s.ok
  | "readcheck" :: rest =>
    let mine := (rest.map fun t =>
      match t.splitOn "=" with
      | ["root", _] => s!"root={s.f.root}"
      | [id, _] => match id.toNat? with | some i => s!"{i}={(s.f.readPage i).show}" | none => t
      | _ => t)
    if mine == rest then s.ok else s.miss line s!"model: {" ".intercalate mine}"
  | _ => s

end TxVerif
