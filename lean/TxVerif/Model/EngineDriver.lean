/-
  Replays an annotated engine trace produced by the Go harness on the Lean
  engine model and reports every line on which model and implementation
  disagree (results, returned ids, contents read, allocator snapshots).
  `Open` of an existing file — plain, or with `FlagUpdMaxSize` (`resize-grow` / `resize-shrink` /
  `resize-unbound` lines) — is computed by `FileSt.resizeWith` (Model/Resize.lean) from the committed
  state and the two header fields the state does not carry (limit in bytes, data end marker); the
  snapshot that follows is compared like every other one. Only after an Open that FAILED (injected
  I/O fault) the next snapshot is adopted; a release transaction that failed inside an Open that
  succeeded is matched against the model's state for a failed release. Both are counted separately.
-/
import TxVerif.Model.Engine
import TxVerif.Model.AllocOps
import TxVerif.Model.Resize
import TxVerif.Model.EngineTrace
namespace TxVerif

structure EngSt where
  f : FileSt := {}
  tx : Option TxSt := none
  created : Bool := false
  resync : Bool := false      -- adopt the next snapshot line (after a failed Open with max-size update)
  resized : Bool := false     -- the maximum size was lowered on open (allocWF does not cover shrinking)
  /-- the data end marker in the file header, as far as known: it is rewritten by commits that change the
      allocator state and by a committed release transaction of a shrinking Open; `absorbOverflow` raises the
      in-memory marker only. `none` (unknown) after an Open that failed half way. -/
  diskDE : Option Nat := none
  /-- `maxSize` in the file header (bytes; not necessarily page aligned when the file was created with
      such a size, page aligned after a max-size update, 0 = no limit) -/
  hdrMax : Nat := 0
  lastOptMax : Nat := 0       -- `Options.MaxSize` of the last Open
  /-- Opens (plain / with max-size update) that met a state on which the first absorb rule (`Alloc.absorbOverflow`:
      data end below meta end and below the limit) raises the data end marker, the precise rule
      (`FileSt.needAbsorb`, Model/AbsorbP.lean) does not: the traces discriminate the two rules there -/
  absorbDiffPlain : Nat := 0
  absorbDiffResize : Nat := 0
  resizesReplayed : Nat := 0  -- `resize-*` lines computed by the model (`FileSt.resizeWith`)
  resizesAdopted : Nat := 0   -- `resize-*` lines after which the implementation's snapshot was adopted
  /-- `resize-shrink` lines whose release transaction succeeds in the model but failed in the implementation
      (it is allowed to fail, e.g. under an injected I/O fault): the model's state for the failed release
      (`FileSt.resizeShrinkFailed`) was compared instead -/
  resizesRelFailed : Nat := 0
  /-- the alternative outcome (state, persisted data end marker) the next snapshot may show -/
  alt : Option (FileSt × Nat) := none
  alloc0 : Alloc := {}        -- allocator state when the running transaction began
  /-- the vfs trace (Model/EngineTrace.lean) of the running transaction so far: flushes and checkpoints -/
  acc : List TOp := []
  /-- the model's vfs trace of the transaction that just ended, and whether it committed; compared with the
      next `vfs` line (the file-level operations the implementation issued for it) -/
  pend : Option (List TOp × Bool) := none
  /-- the active header slot, once a commit showed it (`none` after every open) -/
  slot : Option Nat := none
  vfsChecked : Nat := 0       -- `vfs` lines compared
  checked : Nat := 0
  mismatches : List String := []
  deriving Inhabited

def fmtRuns (ids : List Nat) : String :=
  if ids.isEmpty then "-" else
  ",".intercalate ((runs ids).map fun (s, c) => if c = 1 then s!"{s}" else s!"{s}-{s + c - 1}")

def fmtPairs (m : Assoc Nat) : String :=
  if m.isEmpty then "-" else ",".intercalate (m.map fun (k, v) => s!"{k}:{v}")

def snapLine (f : FileSt) (tx : Option TxSt) : String :=
  let a := f.alloc
  let base := s!"S max={a.maxPages} de={a.data.endMarker} me={a.mta.endMarker} mt={a.metaTotal} df={fmtRuns a.data.free} mf={fmtRuns a.mta.free} fp={fmtRuns a.freelistPages} wp={fmtRuns f.walPages} map={fmtPairs f.walMap}"
  match tx with
  | none => base
  | some t =>
    base ++ s!" | da={fmtRuns t.ta.data.allocated} dn={fmtRuns t.ta.data.new_} dfr={fmtRuns t.ta.data.freed} ma={fmtRuns t.ta.mta.allocated} mn={fmtRuns t.ta.mta.new_} mfr={fmtRuns t.ta.mta.freed} mv={fmtRuns t.ta.moveToMeta} wn={fmtPairs t.walNew} wf={fmtRuns t.walFree}"

/-- `key=value` lookup in a list of tokens -/
def field (toks : List String) (key : String) : Option String :=
  (toks.find? (·.startsWith (key ++ "="))).map (fun t => (t.drop (key.length + 1)).toString)

def fieldNat (toks : List String) (key : String) : Nat := ((field toks key).bind String.toNat?).getD 0

/-- parse `3,5-7,9` -/
def parseRuns (s : String) : List Nat :=
  if s == "-" then [] else
  (s.splitOn ",").flatMap fun part =>
    match part.splitOn "-" with
    | [a] => match a.toNat? with | some x => [x] | none => []
    | [a, b] => match a.toNat?, b.toNat? with | some x, some y => idRange x (y + 1 - x) | _, _ => []
    | _ => []

def parsePairs (s : String) : Assoc Nat :=
  if s == "-" then [] else
  (s.splitOn ",").filterMap fun part =>
    match part.splitOn ":" with
    | [a, b] => match a.toNat?, b.toNat? with | some x, some y => some (x, y) | _, _ => none
    | _ => none

/-- recorded choices `[flush:1:2,ckpt:3:4]` → flushed (id, phys) in order and checkpoint copies -/
def parseRec (s : String) : List (Nat × Nat) × List (Nat × Nat) :=
  let body := ((s.drop 1).toString.dropEnd 1).toString
  if body == "-" || body.isEmpty then ([], []) else
  (body.splitOn ",").foldl (fun (fl, ck) e =>
    match e.splitOn ":" with
    | ["flush", a, b] => match a.toNat?, b.toNat? with | some x, some y => (fl ++ [(x, y)], ck) | _, _ => (fl, ck)
    | ["ckpt", a, b] => match a.toNat?, b.toNat? with | some x, some y => (fl, ck ++ [(x, y)]) | _, _ => (fl, ck)
    | _ => (fl, ck)) ([], [])

def sortPairs (l : List (Nat × Nat)) : List (Nat × Nat) := l.foldl (fun m (k, v) => Assoc.set m k v) []

def EngSt.miss (s : EngSt) (line : String) (why : String) : EngSt :=
  { s with checked := s.checked + 1, mismatches := s.mismatches ++ [s!"{why} :: {line}"] }

def EngSt.ok (s : EngSt) : EngSt := { s with checked := s.checked + 1 }

def exceptStr {α} : Except Err α → String
  | .ok _ => "ok"
  | .error e => e.show

/-- adopt a snapshot line as the model state (used after operations the model does not cover) -/
def adoptSnap (s : EngSt) (toks : List String) : EngSt :=
  let a := s.f.alloc
  let dArea : Area := { endMarker := fieldNat toks "de", free := parseRuns ((field toks "df").getD "-") }
  let mArea : Area := { endMarker := fieldNat toks "me", free := parseRuns ((field toks "mf").getD "-") }
  let mt := fieldNat toks "mt"
  let fp := parseRuns ((field toks "fp").getD "-")
  let mx := fieldNat toks "max"
  let a2 : Alloc := { a with maxPages := mx, data := dArea, mta := mArea, metaTotal := mt, freelistPages := fp }
  let wp := parseRuns ((field toks "wp").getD "-")
  let wm := parsePairs ((field toks "map").getD "-")
  let f2 : FileSt := { s.f with alloc := a2, walPages := wp, walMap := wm }
  -- the header's limit after an Open that failed half way (the max-size update may or may not have reached
  -- the disk): what the implementation shows, unless that is explained by the known header / the options
  let ps := a.pageSize
  let hm := if mx == s.hdrMax / ps then s.hdrMax
            else if s.hdrMax == 0 && mx == s.lastOptMax / ps then 0 else mx * ps
  { s with f := f2, resync := false, hdrMax := hm }

/-- end of a transaction: the model state must satisfy the well-formedness the theorems assume
    (validates on real histories that the hypotheses are met; skipped once a resize happened) -/
def endTx (s : EngSt) (f : FileSt) : EngSt :=
  let s := { s with f := f, tx := none }
  if s.resized || allocWF f.alloc then s
  else { s with mismatches := s.mismatches ++ [s!"model invariant allocWF violated: {snapLine f none}"] }

/-- would the commit write the end markers into the header (`allocCommitState.updated`)? -/
def commitWritesMarkers (f : FileSt) (tx : TxSt) : Bool :=
  let newWal := mappingUpdate f.walMap tx
  let ckpt := tx.walLimit > 0 && newWal.length ≥ tx.walLimit
  let walUpd := ckpt || tx.walUpdated
  let (f1, tx1, _) := if ckpt then doCheckpoint f tx else (f, tx, [])
  let newWal := if ckpt then tx1.walNew else newWal
  let tx2 := if walUpd then { tx1 with ta := metaFreeIds tx1.ta f1.walPages } else tx1
  let nwal := if walUpd then predictWalPages newWal.length f1.alloc.pageSize else 0
  tx2.ta.updated || nwal > 0

/-- the first absorb rule would raise the data end marker, the precise rule does not -/
def absorbRuleDiffers (f : FileSt) : Bool :=
  decide (f.alloc.data.endMarker < f.alloc.mta.endMarker ∧ (f.alloc.maxPages = 0 ∨ f.alloc.data.endMarker < f.alloc.maxPages)) &&
    !f.needAbsorb

/-- `Open` of an existing file (plain, or with `FlagUpdMaxSize` on the `resize-*` lines): the model
    computes the state from the committed in-memory state and the two header fields it does not
    carry (persisted limit in bytes, persisted data end marker); the next `S` line is compared. -/
def openExisting (s : EngSt) (rest : List String) (line : String) (isResize : Bool) : EngSt :=
  let failed := !(line.endsWith "=> ok")
  let s := { s with lastOptMax := fieldNat rest "maxsize" }
  match s.diskDE, failed with
  | some d, false =>
    let ps := s.f.alloc.pageSize
    let optMax := fieldNat rest "maxsize"
    let upd := (fieldNat rest "flags" / 4) % 2 == 1
    let k := rkindBytes s.hdrMax optMax upd
    let n := optMax / ps
    -- the header's limit and data end marker
    let f1 : FileSt := { s.f with alloc := { s.f.alloc with maxPages := s.hdrMax / ps, data := { s.f.alloc.data with endMarker := d } } }
    let r := f1.resizeWith k n
    -- does one of the absorb steps of this Open meet a state on which the two rules differ?
    let x0 : FileSt := if k == RKind.bound || k == RKind.boundShrink
      then { f1 with alloc := { f1.alloc with maxPages := n } } else f1
    let x1 : FileSt := { x0.reopenP with alloc := { x0.reopenP.alloc with maxPages := n } }
    let differs := absorbRuleDiffers x0 || ((k == RKind.grow || k == RKind.shrink || k == RKind.boundShrink) && absorbRuleDiffers x1)
    let s := if !differs then s else
      if isResize then { s with absorbDiffResize := s.absorbDiffResize + 1 } else { s with absorbDiffPlain := s.absorbDiffPlain + 1 }
    let hm := match k with
      | .same => s.hdrMax
      | .bound => s.hdrMax
      | _ => n * ps
    let alt :=
      if r.2 != ReleaseRes.done then none
      else if k == RKind.shrink then
        some (f1.reopenP.resizeShrinkFailed n, (f1.reopenP.resizeShrinkFailed n).alloc.data.endMarker)
      else if k == RKind.boundShrink then
        some ((f1.openAt n d).resizeShrinkFailed n, ((f1.openAt n d).resizeShrinkFailed n).alloc.data.endMarker)
      else none
    let s := { s with f := r.1, tx := none, diskDE := some (hdrDataEndAfter d k r), hdrMax := hm, alt := alt,
                      resized := s.resized || k == RKind.shrink || k == RKind.bound || k == RKind.boundShrink }
    if isResize then { s with resizesReplayed := s.resizesReplayed + 1 } else s.ok
  | _, _ =>
    -- failed open-time update or unknown header: adopt the implementation's snapshot
    let s := { s with f := s.f.reopenP, tx := none, resync := true, resized := true, diskDE := none }
    if isResize then { s with resizesAdopted := s.resizesAdopted + 1 } else s.ok

/-! ### the vfs trace of the model against the file-level operations of the implementation

  The crash theorems (Props/C01Engine, C08Engine, C14Crash) are about the traces `flushListT`, `doCheckpointT`,
  `commitT` of Model/EngineTrace.lean.  Here the same functions are evaluated along the replay and compared
  with what the implementation issued between `Begin` and the end of `Commit` / `Rollback` (harness:
  `Session.emitVfs`): the pages written (as a multiset: the asynchronous writer of write.go re-orders writes
  between two syncs), and for a commit the sequence `sync, header into the inactive slot, sync`; a
  transaction that does not commit writes no header and issues no sync that could make it durable.
  Truncates (`checkTruncate`, `rollbackChanges`: they depend on the file size, which the model does not
  carry) are skipped. -/

def insertNat (x : Nat) : List Nat → List Nat
  | [] => [x]
  | y :: ys => if x ≤ y then x :: y :: ys else y :: insertNat x ys

def sortNats (l : List Nat) : List Nat := l.foldr insertNat []

def traceWrites (tr : List TOp) : List Nat :=
  sortNats (tr.filterMap fun | .write p _ => some p | _ => none)

/-- syncs and header writes of a model trace, in order (`h?` while the active slot is unknown) -/
def traceCtl (slotKnown : Bool) (tr : List TOp) : List String :=
  tr.filterMap fun
    | .sync => some "s"
    | .hdr k _ _ => some (if slotKnown then s!"h{k}" else "h?")
    | _ => none

def vfsWrites (toks : List String) : List Nat :=
  sortNats (toks.filterMap fun t => if t.startsWith "w" then (t.drop 1).toNat? else none)

def vfsCtl (slotKnown : Bool) (toks : List String) : List String :=
  toks.filterMap fun t =>
    if t.startsWith "w" || t.startsWith "t" || t == "-" || t == "" then none
    else if t.startsWith "h" && !slotKnown then some "h?" else some t

/-- canonical form of a sequence of file-level operations: the page writes between two control operations
    (sync, header write) as a sorted list, the control operations in order; truncates skipped.  Two sequences
    with the same canonical form differ only in the order of writes between two control operations. -/
def vfsCanon (slotKnown : Bool) (toks : List String) : List String :=
  let rec go (cur : List Nat) (acc : List String) : List String → List String
    | [] => (acc ++ [toString (sortNats cur)])
    | t :: ts =>
      if t.startsWith "w" then go (cur ++ ((t.drop 1).toNat?).toList) acc ts
      else if t.startsWith "t" || t == "-" || t == "" then go cur acc ts
      else go [] (acc ++ [toString (sortNats cur), if t.startsWith "h" && !slotKnown then "h?" else t]) ts
  go [] [] toks

def traceToks (tr : List TOp) : List String :=
  tr.filterMap fun
    | .write p _ => some s!"w{p}"
    | .sync => some "s"
    | .hdr k _ _ => some s!"h{k}"
    | _ => none

def vfsSlot (toks : List String) : Option Nat :=
  (toks.filter (·.startsWith "h")).getLast?.bind fun t => (t.drop 1).toNat?

def vfsStep (s : EngSt) (line : String) (ops : String) : EngSt :=
  match s.pend with
  | none => s   -- transaction not replayed (failed Open before, injected fault): nothing to compare
  | some (tr, committed) =>
    let toks := ops.splitOn ","
    let s := { s with pend := none }
    let known := s.slot.isSome
    if traceWrites tr != vfsWrites toks then
      s.miss line s!"vfs: model writes pages {traceWrites tr}"
    else if committed then
      if traceCtl known tr != vfsCtl known toks then s.miss line s!"vfs: model issues {traceCtl known tr}"
      -- every write in front of the sync that precedes the header (segment by segment)
      else if vfsCanon known (traceToks tr) != vfsCanon known toks then
        s.miss line s!"vfs: writes on the wrong side of a sync, model: {vfsCanon known (traceToks tr)}"
      else { s with slot := vfsSlot toks, vfsChecked := s.vfsChecked + 1 }.ok
    else
      -- no commit: no header write; syncs of a failing commit are allowed (nothing new can become the state)
      if (vfsCtl true toks).any (·.startsWith "h") then s.miss line "vfs: header written by a transaction that did not commit"
      else { s with vfsChecked := s.vfsChecked + 1 }.ok

/-- process one trace line -/
def engStep (s : EngSt) (line : String) : EngSt :=
  let (lhs, res) := match line.splitOn " => " with
    | [l, r] => (l, r)
    | _ => (line, "")
  let toks := lhs.splitOn " "
  let rtoks := res.splitOn " "
  let rkind := rtoks.headD ""
  match toks with
  | "S" :: rest =>
    if s.resync then (adoptSnap s rest).ok else
    let m := snapLine s.f s.tx
    if m == line then { s with alt := none }.ok else
    match s.alt with
    | some (f2, d2) =>
      if snapLine f2 s.tx == line then
        { s with f := f2, diskDE := some d2, alt := none, resizesRelFailed := s.resizesRelFailed + 1 }.ok
      else s.miss line s!"snapshot differs, model: {m}"
    | none => s.miss line s!"snapshot differs, model: {m}"
  | "open" :: rest =>
    if rkind != "ok" then s.miss line "open failed" else
    if !s.created then
      let ps := fieldNat rest "ps"
      let f0 := FileSt.create ps (fieldNat rest "maxsize" / ps) (fieldNat rest "meta")
      let unbound := (fieldNat rest "flags" / 2) % 2 == 1
      let mx := if unbound then 0 else fieldNat rest "maxsize"
      let f0 := if unbound then FileSt.create ps 0 (fieldNat rest "meta") else f0
      { s with f := f0, created := true, tx := none, diskDE := some f0.alloc.data.endMarker, hdrMax := mx, slot := none, pend := none }.ok
    else openExisting { s with slot := none, pend := none } rest line false
  | "resize-grow" :: rest => openExisting { s with slot := none, pend := none } rest line true
  | "resize-shrink" :: rest => openExisting { s with slot := none, pend := none } rest line true
  | "resize-unbound" :: rest => openExisting { s with slot := none, pend := none } rest line true
  | ["vfs", ops] => vfsStep s line ops
  | ["closefile"] => s
  | "begin" :: rest =>
    if rkind != "ok" then s.miss line "begin failed" else
    let ovf := (field rest "ovf").getD "false" == "true"
    -- states reached after a transaction used the overflow area are outside `allocWF`
    { s with tx := some (s.f.beginTx ovf (fieldNat rest "grow") (fieldNat rest "wal")), resized := s.resized || ovf, alloc0 := s.f.alloc, acc := [], pend := none }.ok
  | ["alloc", n] =>
    match s.tx, n.toNat? with
    | some tx, some n =>
      match txAlloc s.f tx n with
      | .ok (f, tx, ids) =>
        let want := "ok" ++ String.join (ids.map fun i => s!" {i}")
        if res == want then { s with f := f, tx := some tx }.ok else s.miss line s!"model: {want}"
      | .error e => if res == e.show then s.ok else s.miss line s!"model: {e.show}"
    | _, _ => s.miss line "no transaction"
  | ["page", id] =>
    match s.tx, id.toNat? with
    | some tx, some id =>
      match getPage s.f tx id with
      | .ok (tx, _) => if res == "ok" then { s with tx := some tx }.ok else s.miss line "model: ok"
      | .error e => if res == e.show then s.ok else s.miss line s!"model: {e.show}"
    | _, _ => s.miss line "no transaction"
  | ["write", id, mode, st] =>
    match s.tx, id.toNat?, st.toNat? with
    | some tx, some id, some st =>
      let m := if mode == "full" then WMode.full else if mode == "lo" then WMode.lo else WMode.hi
      match txWrite s.f tx id m st with
      | .ok tx => if res == "ok" then { s with tx := some tx }.ok else s.miss line "model: ok"
      | .error e => if res == e.show then s.ok else s.miss line s!"model: {e.show}"
    | _, _, _ => s.miss line "bad write"
  | ["load", id] =>
    match s.tx, id.toNat? with
    | some tx, some id =>
      match txLoad s.f tx id with
      | .ok tx => if res == "ok" then { s with tx := some tx }.ok else s.miss line "model: ok"
      | .error e => if res == e.show then s.ok else s.miss line s!"model: {e.show}"
    | _, _ => s.miss line "bad load"
  | ["read", id] =>
    match s.tx, id.toNat? with
    | some tx, some id =>
      match txRead s.f tx id with
      | .ok (tx, c) =>
        let want := s!"ok {c.show}"
        if res == want then { s with tx := some tx }.ok else s.miss line s!"model: {want}"
      | .error e => if res == e.show then s.ok else s.miss line s!"model: {e.show}"
    | _, _ => s.miss line "bad read"
  | ["free", id] =>
    match s.tx, id.toNat? with
    | some tx, some id =>
      match txFree s.f tx id with
      | .ok (f, tx) => if res == "ok" then { s with f := f, tx := some tx }.ok else s.miss line "model: ok"
      | .error e => if res == e.show then s.ok else s.miss line s!"model: {e.show}"
    | _, _ => s.miss line "bad free"
  | ["flushpage", id, rec] =>
    match s.tx, id.toNat? with
    | some tx, some id =>
      let (fl, _) := parseRec rec
      let r : Except Err (FileSt × TxSt × Option Nat) := do
        let (tx, p) ← getPage s.f tx id
        pageCanWrite p
        doFlush s.f tx p
      match r with
      | .ok (f, tx, w) =>
        let mine := match w with | some w => [(id, w)] | none => []
        if res == "ok" && mine == fl then { s with f := f, tx := some tx, acc := s.acc ++ writeOpt f w }.ok
        else s.miss line s!"model: ok, flushed {mine}"
      | .error e => if res == e.show then s.ok else s.miss line s!"model: {e.show}"
    | _, _ => s.miss line "bad flushpage"
  | ["flush", rec] =>
    match s.tx with
    | some tx =>
      let (fl, _) := parseRec rec
      let tx0 := tx
      match flushList s.f tx (fl.map (·.1)) with
      | .ok (f, tx, ws) =>
        if ws != fl then s.miss line s!"model flushes {ws}" else
        let s := { s with acc := s.acc ++ flushListT s.f tx0 (fl.map Prod.fst) }
        if res == "ok" then
          if tx.unflushed.isEmpty then { s with f := f, tx := some tx }.ok
          else s.miss line s!"model: dirty pages left unflushed {tx.unflushed}"
        else if res == "err:oom" then
          if flushWouldFail f tx then { s with f := f, tx := some tx }.ok else s.miss line "model: no page needs an unavailable overwrite page"
        else s.miss line "unexpected result"
      | .error e => s.miss line s!"model: recorded flush order fails with {e.show}"
    | none => s.miss line "no transaction"
  | ["checkpoint", rec] =>
    match s.tx with
    | some tx =>
      let (_, ck) := parseRec rec
      let tx0 := tx
      let (f, tx, copied) := doCheckpoint s.f tx
      if res == "ok" && sortPairs ck == sortPairs copied then { s with f := f, tx := some tx, acc := s.acc ++ doCheckpointT s.f tx0 }.ok
      else s.miss line s!"model copies {copied}"
    | none => s.miss line "no transaction"
  | ["setroot", id] =>
    match s.tx, id.toNat? with
    | some tx, some id => { s with tx := some { tx with root := id } }.ok
    | _, _ => s.miss line "bad setroot"
  | ["commit", rec] =>
    match s.tx with
    | some tx =>
      let (fl, ck) := parseRec rec
      let tx0 := tx
      match flushList s.f tx (fl.map (·.1)) with
      | .error e => s.miss line s!"model: recorded flush order fails with {e.show}"
      | .ok (f, tx, ws) =>
        if ws != fl then s.miss line s!"model flushes {ws}" else
        -- the model's vfs trace of the whole transaction (Model/EngineTrace.lean), for the `vfs` line
        let trc := s.acc ++ flushListT s.f tx0 (fl.map Prod.fst) ++
          (if tx.unflushed.isEmpty then commitT (s.slot.getD 0) f tx else [])
        let s := { s with acc := [], pend := some (trc, tx.unflushed.isEmpty && (commitAfterFlush f tx).2.1 == .ok) }
        if rtoks.contains "!io" then
          -- the commit failed because of an injected I/O fault: every such failure ends in a rollback
          if rkind.startsWith "err:" then (endTx s (txAbort f tx)).ok else s.miss line "I/O fault but commit succeeded"
        else if !tx.unflushed.isEmpty then
          -- the implementation stopped flushing: must be an unavailable overwrite page
          if res == "err:commitfail" && flushWouldFail f tx then (endTx s (txAbort f tx)).ok
          else s.miss line s!"model: pages left unflushed {tx.unflushed}"
        else
          let (f0, tx0) := (f, tx)
          let (f, r, copied) := commitAfterFlush f tx
          let want := match r with
            | .ok => "ok" | .flushFailed => "err:commitfail" | .walOom => "err:commitfail/oom" | .allocOom => "err:commitfail/oom"
          -- a commit that changed the allocator state rewrites the end markers in the header
          let s := if r == .ok && commitWritesMarkers f0 tx0 then { s with diskDE := some f.alloc.data.endMarker } else s
          if res == want && sortPairs ck == sortPairs copied then (endTx s f).ok
          else s.miss line s!"model: {want}, checkpoint copies {copied}"
    | none => s.miss line "no transaction"
  | ["rollback"] | ["close"] =>
    match s.tx with
    | some tx => (endTx { s with pend := some (s.acc, false), acc := [] } (txAbort s.f tx)).ok
    | none => s.ok
  | "readcheck" :: rest =>
    let mine := (rest.map fun t =>
      match t.splitOn "=" with
      | ["root", _] => s!"root={s.f.root}"
      | [id, _] => match id.toNat? with | some i => s!"{i}={(s.f.readPage i).show}" | none => t
      | _ => t)
    if mine == rest then s.ok else s.miss line s!"model: {" ".intercalate mine}"
  | _ => s

end TxVerif
