/-
  Little-endian integer codecs over byte lists (mirrors urso/go-bin U32le/U64le
  as used by go-txfile's on-disk structures).
-/
namespace TxVerif

abbrev Bytes := List UInt8

/-- little endian encoding of the low `n` bytes of `v` -/
def leEnc : Nat → Nat → Bytes
  | 0, _ => []
  | n+1, v => UInt8.ofNat (v % 256) :: leEnc n (v / 256)

/-- little endian decoding -/
def leDec : Bytes → Nat
  | [] => 0
  | b :: bs => b.toNat + 256 * leDec bs

def le32 (v : Nat) : Bytes := leEnc 4 v
def le64 (v : Nat) : Bytes := leEnc 8 v

@[simp] theorem leEnc_length (n v : Nat) : (leEnc n v).length = n := by
  induction n generalizing v with
  | zero => rfl
  | succ n ih => simp [leEnc, ih]

theorem leDec_lt (bs : Bytes) : leDec bs < 256 ^ bs.length := by
  induction bs with
  | nil => simp [leDec]
  | cons b bs ih =>
    have hb : b.toNat < 256 := b.toNat_lt
    simp only [leDec, List.length_cons, Nat.pow_succ]
    omega

theorem leDec_leEnc (n v : Nat) (h : v < 256 ^ n) : leDec (leEnc n v) = v := by
  induction n generalizing v with
  | zero => simp [leEnc, leDec]; simp at h; omega
  | succ n ih =>
    have h2 : v / 256 < 256 ^ n := by
      rw [Nat.pow_succ] at h
      exact Nat.div_lt_of_lt_mul (by omega)
    simp only [leEnc, leDec, ih _ h2]
    have : (UInt8.ofNat (v % 256)).toNat = v % 256 := by
      simp [UInt8.toNat_ofNat']
    rw [this]; omega

/-- decoding is injective on lists of equal length -/
theorem leDec_inj : ∀ (a b : Bytes), a.length = b.length → leDec a = leDec b → a = b
  | [], [], _, _ => rfl
  | [], _ :: _, h, _ => by simp at h
  | _ :: _, [], h, _ => by simp at h
  | x :: xs, y :: ys, hl, hd => by
    have hx : x.toNat < 256 := x.toNat_lt
    have hy : y.toNat < 256 := y.toNat_lt
    simp only [leDec] at hd
    have h1 : x.toNat = y.toNat := by omega
    have h2 : leDec xs = leDec ys := by omega
    have := leDec_inj xs ys (by simpa using hl) h2
    have hxy : x = y := UInt8.toNat_inj.mp h1
    simp [hxy, this]

end TxVerif
