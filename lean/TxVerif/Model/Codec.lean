/-
  On-disk codecs of go-txfile's free list and overwrite (WAL) mapping.

  Mirrors
    region.go   encodeRegion / decodeRegion / regionEncodingSize
    util.go     pagingWriter (newPagingWriter, Write, Flush)
    freelist.go writeFreeLists / readFreeList
    wal.go      writeWAL / readWAL
    layout.go   listPage (next u64, count u32 = 12 byte header)

  All definitions are executable.  Go panics (slicing a too short buffer) are
  not modelled: the decoders read missing bytes as zero.
-/
import TxVerif.Model.Bytes
import TxVerif.Model.IdSet
namespace TxVerif

structure Region where
  id : Nat
  count : Nat
  deriving Repr, DecidableEq, Inhabited

/-- size of the list page header: `next` (u64) + `count` (u32) (layout.go listPage) -/
def listHdrSize : Nat := 12

/-- size of an overwrite-mapping entry (wal.go walEntrySize) -/
def walEntrySize : Nat := 14

/-- the u64 entry word of a region entry: `flag | count<<55 | id` (region.go:224-232).
    The 8-bit count field sits at bits 55..62, the meta flag is bit 63; the
    id is or-ed in unmasked, exactly like the Go code. -/
def regionWord (isMeta : Bool) (countField id : Nat) : Nat :=
  (if isMeta then 2^63 else 0) ||| (countField <<< 55) ||| id

/-- encodeRegion: 8 bytes, or 12 bytes if count ≥ 255 (overflow marker 255 in the 8 count bits, count as extra u32) -/
def encodeRegion (isMeta : Bool) (r : Region) : Bytes :=
  if r.count < 255 then le64 (regionWord isMeta r.count r.id)
  else le64 (regionWord isMeta 255 r.id) ++ le32 r.count

/-- decodeRegion on a byte buffer: (isMeta, region, bytes consumed); mirrors the quirk that a count field of 0 decodes as count 1 -/
def decodeRegion (b : Bytes) : Bool × Region × Nat :=
  let value := leDec (b.take 8)
  let id := value % 2^55                      -- (value << 9) >> 9
  let isMeta := decide (value / 2^63 % 2 = 1) -- entryMetaFlag & value == entryMetaFlag
  let cf := (value / 2^55) % 256              -- uint32(value >> 55) & entryCounterMask
  if cf = 0 then (isMeta, ⟨id, 1⟩, 8)
  else if cf = 255 then (isMeta, ⟨id, leDec ((b.drop 8).take 4)⟩, 12)
  else (isMeta, ⟨id, cf⟩, 8)

/-- 14-byte overwrite-mapping entry: low 7 bytes of the key, low 7 bytes of the value -/
def encodeWalEntry (k v : Nat) : Bytes := leEnc 7 k ++ leEnc 7 v

def decodeWalEntry (b : Bytes) : Nat × Nat :=
  (leDec (b.take 7), leDec ((b.drop 7).take 7))

/-- a list page: next pointer (u64), count (u32), payload padded with zero bytes to the page size -/
def encodeListPage (pageSize next count : Nat) (payload : Bytes) : Bytes :=
  le64 next ++ (le32 count ++ (payload ++ List.replicate (pageSize - listHdrSize - payload.length) 0))

def pageNext (pg : Bytes) : Nat := leDec (pg.take 8)
def pageCount (pg : Bytes) : Nat := leDec ((pg.drop 8).take 4)
def pagePayload (pg : Bytes) : Bytes := pg.drop listHdrSize

/-- Flush: the remaining pre-allocated (pre-linked) pages are written as empty pages -/
def flushPages (pageSize : Nat) : List Nat → List (Nat × Bytes)
  | [] => []
  | id :: rest => (id, encodeListPage pageSize (rest.headD 0) 0 []) :: flushPages pageSize rest

/-- pagingWriter state machine: current page `id`, remaining pre-allocated
    pages `rest`, payload written to the current page so far `cur`, entry
    counter `cnt`.  `Write` flushes the current page if the entry does not fit
    into the remaining payload and then copies (Go `copy`: truncating) into the
    payload; the end of the entries is `Flush`. -/
def writeAux (pageSize : Nat) (id : Nat) (rest : List Nat) (cur : Bytes) (cnt : Nat) :
    List Bytes → Option (List (Nat × Bytes))
  | [] => some ((id, encodeListPage pageSize (rest.headD 0) cnt cur) :: flushPages pageSize rest)
  | e :: es =>
    if pageSize - listHdrSize - cur.length < e.length then
      match rest with
      | [] => none       -- "Not enough pages pre-allocated"
      | id' :: rest' =>
        (writeAux pageSize id' rest' (e.take (pageSize - listHdrSize)) 1 es).map
          (fun out => (id, encodeListPage pageSize id' cnt cur) :: out)
    else writeAux pageSize id rest (cur ++ e) (cnt + 1) es

/-- pagingWriter.Write/Flush over entries: entries are packed into the pre-allocated pages `ids` (page i links to ids[i+1], last links to 0), never split across pages, unused pages are written as empty pages; `none` if the pages do not suffice ("Not enough pages pre-allocated").
    Quirk mirrored from newPagingWriter: without any page the writer is `nil`
    and Write/Flush silently succeed without writing anything. -/
def writePages (pageSize : Nat) (ids : List Nat) (entries : List Bytes) : Option (List (Nat × Bytes)) :=
  match ids with
  | [] => some []
  | id :: rest => writeAux pageSize id rest [] 0 entries

/-- writeFreeLists: meta list entries first, then data list entries -/
def writeFreeLists (pageSize : Nat) (ids : List Nat) (metaList dataList : List Region) : Option (List (Nat × Bytes)) :=
  writePages pageSize ids (metaList.map (encodeRegion true) ++ dataList.map (encodeRegion false))

/-- follow the `next` chain starting at page `id`; `none` if a page is missing
    or the fuel is exhausted (cyclic chain: the Go code would not terminate) -/
def readChain (pages : List (Nat × Bytes)) : Nat → Nat → Option (List (Nat × Bytes))
  | _, 0 => some []
  | 0, _ + 1 => none
  | fuel + 1, id + 1 =>
    match pages.lookup (id + 1) with
    | none => none
    | some pg => (readChain pages fuel (pageNext pg)).map (fun t => (id + 1, pg) :: t)

/-- decode `n` consecutive region entries -/
def decodeRegions : Nat → Bytes → List (Bool × Region)
  | 0, _ => []
  | n + 1, b =>
    let d := decodeRegion b
    (d.1, d.2.1) :: decodeRegions n (b.drop d.2.2)

/-- decode `n` consecutive overwrite-mapping entries -/
def decodeWalEntries : Nat → Bytes → List (Nat × Nat)
  | 0, _ => []
  | n + 1, b => decodeWalEntry b :: decodeWalEntries n (b.drop walEntrySize)

/-- all entries of a page chain, in order -/
def chainEntries {α : Type} (decN : Nat → Bytes → List α) (chain : List (Nat × Bytes)) : List α :=
  chain.flatMap fun p => decN (pageCount p.2) (pagePayload p.2)

/-- readFreeList: follow the chain from root through `pages` (lookup by id); returns (meta regions, data regions, page ids visited); fuel-bounded by the number of pages so it is total -/
def readFreeList (pages : List (Nat × Bytes)) (root : Nat) : Option (List Region × List Region × List Nat) :=
  (readChain pages pages.length root).map fun chain =>
    let es := chainEntries decodeRegions chain
    ((es.filter (fun e => e.1)).map (·.2), (es.filter (fun e => !e.1)).map (·.2), chain.map (·.1))

/-- writeWAL; `mapping` lists the Go map in iteration order -/
def writeWal (pageSize : Nat) (ids : List Nat) (mapping : List (Nat × Nat)) : Option (List (Nat × Bytes)) :=
  writePages pageSize ids (mapping.map fun kv => encodeWalEntry kv.1 kv.2)

/-- readWAL: the entries in the order read (the Go code inserts them into a map) and the page ids visited -/
def readWal (pages : List (Nat × Bytes)) (root : Nat) : Option (List (Nat × Nat) × List Nat) :=
  (readChain pages pages.length root).map fun chain =>
    (chainEntries decodeWalEntries chain, chain.map (·.1))

end TxVerif
