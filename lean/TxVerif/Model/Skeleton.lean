/-
  Lock / cleanup skeletons of Go functions, regenerated from /repo by the
  extractor (harness/cmd/extract), and their semantics: all paths through the
  function body (every `if` taken or not), Go `defer` order, conditional
  cleanups (`cleanup.IfNot(&flag, f)`).
-/
namespace TxVerif

inductive Ev
  | lock (k : String)                    -- X.Lock()
  | unlock (k : String)                  -- X.Unlock()
  | deferLock (k : String)               -- defer X.Lock()
  | deferUnlock (k : String)             -- defer X.Unlock()
  | deferCall (f : String)               -- defer f()
  | deferIfNot (flag : String) (f : String)  -- defer cleanup.IfNot(&flag, f)
  | call (f : String)                    -- f() (only calls relevant to locking are extracted)
  | setFlag (flag : String) (v : String) -- flag = true | false | cond (= err == nil)
  | ifOpen | ifClose | elseOpen | elseClose
  | ret
  deriving Repr, DecidableEq, Inhabited

/-- skip to the matching close marker; returns the rest after it -/
def skipBlock : List Ev → Nat → List Ev
  | [], _ => []
  | .ifOpen :: r, d => skipBlock r (d + 1)
  | .elseOpen :: r, d => skipBlock r (d + 1)
  | .ifClose :: r, 0 => r
  | .elseClose :: r, 0 => r
  | .ifClose :: r, d + 1 => skipBlock r d
  | .elseClose :: r, d + 1 => skipBlock r d
  | _ :: r, d => skipBlock r d

/-- all linear paths (fuel bounds the recursion; the extractor's skeletons are tiny) -/
def pathsAux : Nat → List Ev → List Ev → List (List Ev)
  | 0, _, acc => [acc.reverse]
  | _, [], acc => [acc.reverse]
  | _ + 1, .ret :: _, acc => [(Ev.ret :: acc).reverse]
  | n + 1, .ifOpen :: r, acc =>
    -- take the branch (then skip a following else), or skip it (then take a following else)
    let after := skipBlock r 0
    let takeThen := pathsAux n (match after with
        | .elseOpen :: r2 => -- body continues, else is skipped at its position
          r
        | _ => r) acc
    let skipThen := match after with
      | .elseOpen :: r2 => pathsAux n r2 acc
      | _ => pathsAux n after acc
    takeThen ++ skipThen
  | n + 1, .ifClose :: r, acc =>
    -- end of a taken `then` branch: skip an attached else block
    match r with
    | .elseOpen :: r2 => pathsAux n (skipBlock r2 0) acc
    | _ => pathsAux n r acc
  | n + 1, .elseClose :: r, acc => pathsAux n r acc
  | n + 1, .elseOpen :: r, acc => pathsAux n r acc
  | n + 1, e :: r, acc => pathsAux n r (e :: acc)

def paths (sk : List Ev) : List (List Ev) := pathsAux (4 * sk.length + 4) sk []

/-- a primitive effect: +1 / -1 on a named lock, or a named call -/
inductive Eff | acq (k : String) | rel (k : String) | did (f : String)
  deriving Repr, DecidableEq, Inhabited

/-- execute one linear path: immediate effects in order, then the deferred ones in reverse order.
    `flags` tracks the Boolean cleanup flags; `cond` assignments are resolved by `assume`. -/
structure RunSt where
  effs : List Eff := []
  defers : List Ev := []
  flags : List (String × Bool) := []

def flagVal (fl : List (String × Bool)) (f : String) : Bool := ((fl.find? (·.1 == f)).map (·.2)).getD false

def runDefer (st : RunSt) : Ev → RunSt
  | .deferLock k => { st with effs := st.effs ++ [.acq k] }
  | .deferUnlock k => { st with effs := st.effs ++ [.rel k] }
  | .deferCall f => { st with effs := st.effs ++ [.did f] }
  | .deferIfNot flag f => if flagVal st.flags flag then st else { st with effs := st.effs ++ [.did f] }
  | _ => st

/-- `assume` gives the value of every `cond` assignment on this path -/
def runPath (assume : Bool) (p : List Ev) : List Eff :=
  let st := p.foldl (fun (st : RunSt) e =>
    match e with
    | .lock k => { st with effs := st.effs ++ [.acq k] }
    | .unlock k => { st with effs := st.effs ++ [.rel k] }
    | .call f => { st with effs := st.effs ++ [.did f] }
    | .setFlag f v => { st with flags := (f, if v == "true" then true else if v == "false" then false else assume) :: st.flags }
    | .deferLock _ | .deferUnlock _ | .deferCall _ | .deferIfNot _ _ => { st with defers := e :: st.defers }
    | _ => st) {}
  (st.defers.foldl runDefer st).effs

/-- all effect sequences of a skeleton (both resolutions of conditional flags) -/
def behaviours (sk : List Ev) : List (List Eff) :=
  (paths sk).flatMap fun p => [runPath true p, runPath false p]

/-- net count of acquisitions of lock `k` -/
def net (k : String) (es : List Eff) : Int :=
  es.foldl (fun n e => match e with
    | .acq k' => if k' == k then n + 1 else n
    | .rel k' => if k' == k then n - 1 else n
    | _ => n) 0

def didCount (f : String) (es : List Eff) : Nat := es.countP (fun e => e == .did f)

/-- the lock operations (acq/rel) of an effect sequence, in order -/
def lockOps (es : List Eff) : List Eff := es.filter (fun e => match e with | .did _ => false | _ => true)

end TxVerif
