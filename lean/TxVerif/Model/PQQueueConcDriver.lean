/-
  Replay of the implementation's controlled producer/consumer schedules (harness `vh pqconc`: pqrun.RunConcurrent
  under sched.Sys) on the two-thread queue model (Model/PQQueueConc.lean).

  Trace of one program (between `program <i> seed=<s>` and `end`): `step <tid> <event> => <lock>` where `<lock>`
  is the lock state of the real file after the step (`shared=<n> pending=<b> reserved=<b>`) and `<event>` is
  * `ret <call> => <result>`: thread `<tid>` (0 = producer, 1 = consumer) completed a queue call; same notation
    as the sequential traces (Model/PQQueueDriver.lean);
  * `<from>-><to>`: the thread ran from one park point of the lock protocol to the next
    (`op`, `begin-wait`, `commit-pending`, `commit-wait-exclusive`, `commit-exclusive`, `done`);
  * `blocked@<point>`: the thread was released at `<point>` and (correctly) did not get through;
    `unblocked-><to>`: it got through later.
  The calls of a thread are the `ret` lines of that thread in order; the lock events of the thread between two
  of its `ret` lines belong to the later call.

  Replay: the programs of the two threads are read off the `ret` lines; then every line is mapped to the model
  steps it stands for, each of which must be enabled (`CState.step … ≠ none`), every `blocked@` line requires
  the thread's next step to be disabled in the model, every `ret` line must give the recorded result (and the
  result the specification gives at that linearization point), and after every line the model's lock state
  must be the recorded one:
    `X->commit-pending`          Begin (reserved lock) + Pending of the thread's write transaction
    `X->begin-wait` (consumer, in `ack`, not planned yet, X ≠ op)   the planning read transaction `cPlan`
    `X->commit-exclusive`        the commit step must be enabled (no reader); it is taken at the `ret` line
    `op->begin-wait` (producer)  the model agrees that the call starts a transaction (`needsTx`)
    `ret …`                      the atomic step of a call without transaction / the commit step
  The queue configuration is not in the trace: it is re-derived from the program seed (`RandomConfig` of
  harness/pqrun/gen.go with the harness's SplitMix64 generator).
  Calls that fail with `err:oom` (bounded files) start a transaction that is rolled back: they are replayed
  with the failing-flush semantics of Model/PQWriterFail.lean (as in `pqmodel`), outside the proven step
  relation (`producerFault`, `consumerFault`).  The transaction can fail before `pending.Lock` (no lock event but
  `begin-wait->op`; the reserved lock must have been free) or AT THE COMMIT, after `begin-wait->commit-pending`
  (out of space when the commit allocates its meta pages; next lock event `commit-pending->op`): then pending
  and reserved are released by the rollback; buffer and file are as before (`failFlush`), a failed `Next` has
  finished its event.
  Racy windows of the harness (a thread woken by the END of the other thread's transaction - commit or
  rollback - runs concurrently with it until both are parked): its `ret` line can precede the other thread's
  `ret` line, lock snapshots taken meanwhile are unreliable, and its first park point may go unrecorded.
  The driver is tolerant exactly there: (a) `finishOther`: if a thread's completing step is disabled (or a failed
  producer call finds the reserved lock held) and the other thread is at the commit stage - for a successful
  call only after its `…->commit-exclusive` line was seen - the other thread's commit (or, if its recorded call
  failed, its rollback) is taken first and compared at its own `ret` line; (b) lock snapshots are not compared
  while a thread is `woken` or such a result is outstanding; (c) `catchUp`: unrecorded lock steps of a woken thread.
-/
import TxVerif.Model.PQQueueConc
import TxVerif.Model.PQQueueDriver
namespace TxVerif

/-- `engine.RNG.Next` (SplitMix64) -/
def smNext (s : UInt64) : UInt64 × UInt64 :=
  let s := s + 0x9E3779B97F4A7C15
  let z := s
  let z := (z ^^^ (z >>> 30)) * 0xBF58476D1CE4E5B9
  let z := (z ^^^ (z >>> 27)) * 0x94D049BB133111EB
  (s, z ^^^ (z >>> 31))

def smIntn (s : UInt64) (n : Nat) : UInt64 × Nat :=
  let r := smNext s
  (r.1, if n = 0 then 0 else r.2.toNat % n)

/-- `pqrun.RandomConfig`: (page size, max pages, write buffer) -/
def pqRandomConfig (seed : Nat) : Nat × Nat × Nat :=
  let s := UInt64.ofNat seed
  let (s, c) := smIntn s 100
  let ps := if c < 25 then 4096 else 1024
  let mn := 65536 / ps
  let (s, k) := smIntn s 3
  let (s, mx) := match k with
    | 0 => (s, 0)
    | 1 => let r := smIntn s 16; (r.1, mn + r.2)
    | _ => (s, 2 * mn)
  let (s, k) := smIntn s 3
  let wb := match k with
    | 0 => 0
    | 1 => ps * (1 + (smIntn s 8).2)
    | _ => (smIntn s 20000).2
  (ps, mx, wb)

/-- one recorded call -/
structure ConcCall where
  op : QOp
  res : String
  /-- the call failed with `err:oom` / an injected fault -/
  fault : Bool
  deriving Repr

structure ConcLine where
  tid : Bool
  /-- the event: `ret …`, `a->b`, `blocked@a` -/
  ev : String
  /-- result of a `ret` line -/
  res : String
  lock : String
  deriving Repr

def parseConcLine (l : String) : Option ConcLine :=
  match l.splitOn " => " with
  | [a, lock] =>
    match a.splitOn " " with
    | "step" :: t :: rest => some ⟨t == "1", " ".intercalate rest, "", lock⟩
    | _ => none
  | [a, res, lock] =>
    match a.splitOn " " with
    | "step" :: t :: rest => some ⟨t == "1", " ".intercalate rest, res, lock⟩
    | _ => none
  | _ => none

/-- the calls of both threads, from the `ret` lines (event bytes as in the sequential traces) -/
def concPrograms (ls : List ConcLine) : List ConcCall × List ConcCall :=
  let rec go (ls : List ConcLine) (idx off : Nat) (p c : List ConcCall) : List ConcCall × List ConcCall :=
    match ls with
    | [] => (p.reverse, c.reverse)
    | l :: rest =>
      match l.ev.splitOn " " with
      | ["ret", "write", n] =>
        let n := n.toNat?.getD 0
        let okk := l.res == "ok"
        go rest idx (if okk then off + n else off) (⟨.write (pqEventBytes idx off n), l.res, !okk⟩ :: p) c
      | ["ret", "next"] => go rest (idx + 1) 0 (⟨.next, l.res, l.res != "ok"⟩ :: p) c
      | ["ret", "flush"] => go rest idx off (⟨.flush, l.res, l.res != "ok"⟩ :: p) c
      | ["ret", "rbegin"] => go rest idx off p (⟨.rbegin, l.res, false⟩ :: c)
      | ["ret", "rdone"] => go rest idx off p (⟨.rdone, l.res, false⟩ :: c)
      | ["ret", "rnext"] => go rest idx off p (⟨.rnext, l.res, false⟩ :: c)
      | ["ret", "available"] => go rest idx off p (⟨.available, l.res, false⟩ :: c)
      | ["ret", "counters"] => go rest idx off p (⟨.counters, l.res, false⟩ :: c)
      | ["ret", "rread", n] => go rest idx off p (⟨.rread (n.toNat?.getD 0), l.res, false⟩ :: c)
      | ["ret", "ack", n] => go rest idx off p (⟨.ack (n.toNat?.getD 0), l.res, l.res.startsWith "err:other" || l.res == "err:oom"⟩ :: c)
      | _ => go rest idx off p c
  go ls 0 0 [] []

def lockStr' (l : LockSt) : String := s!"shared={l.shared} pending={l.pending} reserved={l.reserved}"

structure ConcSim where
  cfg : QCfg
  s : CState
  /-- remaining recorded calls (parallel to `s.progP` / `s.progC`) -/
  callsP : List ConcCall
  callsC : List ConcCall
  checked : Nat := 0
  /-- the thread was recorded `blocked@…` and the scheduler has not recorded its next transition yet: once its
      blocking condition clears it runs CONCURRENTLY with the other thread (the harness lets a thread woken
      by a finishing commit run until both are parked), so the order of the two threads' `ret` lines and the
      lock snapshots are not reliable in this window -/
  wokenP : Bool := false
  wokenC : Bool := false
  /-- the thread's commit step was already taken because a `ret` of the other (woken) thread that depends on
      it was recorded first; the result, to be compared at the thread's own `ret` line -/
  preP : Option QOut := none
  preC : Option QOut := none
  /-- the same for a transaction of the thread that FAILED (rolled back): its effect was already applied -/
  preFaultP : Bool := false
  preFaultC : Bool := false
  /-- the thread's `…->commit-exclusive` transition was recorded: it holds the exclusive lock and will commit as
      soon as it runs (cleared at its `ret` line) -/
  exclP : Bool := false
  exclC : Bool := false

inductive ConcRes where
  | ok (s : ConcSim)
  | skip (why : String)
  | mismatch (msg : String)

/-- take model steps of thread `t`, each must be enabled -/
def concSteps (sim : ConcSim) (t : Bool) : Nat → String → Except String ConcSim
  | 0, _ => .ok sim
  | k + 1, what =>
    match sim.s.step sim.cfg t with
    | none => .error s!"{what}: the step is not enabled in the model (lock {lockStr' sim.s.lock})"
    | some s' =>
      if s'.bad then .error s!"{what}: outside the contract of the specification" else
      concSteps { sim with s := s' } t k what

/-- one lock-protocol step (not the step that completes a call) of thread `t`, if it is at one and enabled -/
def advanceLock (sim : ConcSim) (t : Bool) : Option ConcSim :=
  let atLockStep : Bool :=
    if t then
      match sim.s.cp, sim.s.progC.head? with
      | .idle, some (.ack n) => n != 0 && (match sim.s.q.ackPlanI sim.cfg n with | .ok _ => true | .error _ => false)
      | .planned _, _ => true
      | .active _, _ => true
      | _, _ => false
    else
      match sim.s.pp, sim.s.progP.head?, sim.callsP.head? with
      | .idle, some op, some _ => sim.s.q.needsTx sim.cfg op
      | .active, _, _ => true
      | _, _, _ => false
  if !atLockStep then none else
  match sim.s.step sim.cfg t with
  | some s' => if s'.bad then none else some { sim with s := s' }
  | none => none

/-- a woken thread runs on unrecorded until it parks again: take its lock steps (at most 3) -/
def catchUp (sim : ConcSim) (t : Bool) : ConcSim :=
  if !(if t then sim.wokenC else sim.wokenP) then sim else
  match advanceLock sim t with
  | none => sim
  | some s1 =>
    match advanceLock s1 t with
    | none => s1
    | some s2 =>
      match advanceLock s2 t with
      | none => s2
      | some s3 => s3

/-- The effect of a producer call whose flush transaction FAILED (`err:oom`): outside the proven step relation.
    The transaction failed before `pending.Lock` (`pp = idle`; the reserved lock must have been free: checked by
    the caller) or AT THE COMMIT (`pp = active/pending`: out of space when the commit allocates its meta pages,
    after `pending.Lock`): it is rolled back, pending and reserved are released, the writer state is `failFlush`
    (Model/PQWriterFail.lean: buffer and file as they were); a failed `Next` has finished its event. -/
def producerFault (sim : ConcSim) (call : ConcCall) : ConcSim :=
  let S := sim.cfg.S
  let lock' : LockSt := if sim.s.pp == .idle then sim.s.lock else { sim.s.lock with pending := false, reserved := false }
  let o := pqOutcome call.res
  match call.op with
  | .next =>
    let s1 := sim.s.q.w.nextCore S
    { sim with s := { sim.s with q := { sim.s.q with w := failFlush o s1 }, lock := lock', pp := .idle,
                                 a := { sim.s.a with events := sim.s.a.events ++ [sim.s.a.cur], cur := [] },
                                 progP := sim.s.progP.tail } }
  | _ => { sim with s := { sim.s with q := { sim.s.q with w := failFlush o sim.s.q.w }, lock := lock', pp := .idle,
                                      progP := sim.s.progP.tail } }

/-- a failed ACK (its cleanup transaction was rolled back): nothing changed, its locks are released -/
def consumerFault (sim : ConcSim) : ConcSim :=
  let holds := match sim.s.cp with | .active _ | .pending _ => true | _ => false
  let lock' : LockSt := if holds then { sim.s.lock with pending := false, reserved := false } else sim.s.lock
  { sim with s := { sim.s with progC := sim.s.progC.tail, cp := .idle, lock := lock' } }

/-- Racy window: a thread woken by the END of the other thread's transaction runs concurrently with it, so its
    call can be recorded before the other thread's `ret` line.  If thread `t` cannot take its step (or needs the
    reserved lock) and the other thread is at the commit stage of its transaction, that transaction ends first:
    its commit step is taken - or, if the recorded call of the other thread FAILED, its rollback - and remembered
    (`preP`/`preC`, `preFaultP`/`preFaultC`) for the other thread's own `ret` line. -/
def finishOther (sim : ConcSim) (t : Bool) : ConcSim :=
  if t then
    -- the other thread is the producer
    if sim.s.pp != .pending || sim.preP.isSome || sim.preFaultP then sim else
    match sim.callsP.head? with
    | none => sim
    | some call =>
      if call.fault then { producerFault sim call with preFaultP := true }
      else if !sim.exclP then sim
      else
        match sim.s.step sim.cfg false with
        | some s' => if s'.bad then sim else { sim with s := s', preP := some (s'.outP.getLastD .ok) }
        | none => sim
  else
    if !(match sim.s.cp with | .pending _ => true | _ => false) || sim.preC.isSome || sim.preFaultC then sim else
    match sim.callsC.head? with
    | none => sim
    | some call =>
      if call.fault then { consumerFault sim with preFaultC := true }
      else if !sim.exclC then sim
      else
        match sim.s.step sim.cfg true with
        | some s' => if s'.bad then sim else { sim with s := s', preC := some (s'.outC.getLastD .ok) }
        | none => sim

/-- a `ret` line: the step that completes the call -/
def concRet (sim : ConcSim) (l : ConcLine) : ConcRes :=
  let calls := if l.tid then sim.callsC else sim.callsP
  match calls with
  | [] => .mismatch "no call left for this thread"
  | call :: restCalls =>
    if call.fault then
      -- a transaction that was rolled back (out of space): outside the step relation
      if l.tid then
        if sim.preFaultC then .ok { sim with callsC := restCalls, preFaultC := false } else
        .ok { consumerFault sim with callsC := restCalls }
      else
        if sim.preFaultP then .ok { sim with callsP := restCalls, preFaultP := false } else
        -- the producer was blocked at `BeginWrite` by the ACK's write transaction and, woken by its end, failed
        -- before the `ret ack` line was recorded
        let sim := if sim.s.pp == .idle && sim.s.lock.reserved && sim.wokenP then finishOther sim false else sim
        if sim.s.pp == .idle && sim.s.lock.reserved then
          .mismatch "a producer transaction started although the reserved lock is held" else
        .ok { producerFault sim call with callsP := restCalls }
    else
      -- the commit of this call was already taken (see `finishOther`)
      match (if l.tid then sim.preC else sim.preP) with
      | some o =>
        if qoutStr o != call.res then .mismatch s!"expected={call.res} got={qoutStr o}"
        else .ok { sim with callsP := if l.tid then sim.callsP else restCalls,
                            callsC := if l.tid then restCalls else sim.callsC,
                            preP := if l.tid then sim.preP else none, preC := if l.tid then none else sim.preC }
      | none =>
      let sim : ConcSim :=
        match sim.s.step sim.cfg l.tid with
        | some _ => sim
        | none => finishOther sim l.tid
      let before := if l.tid then sim.s.outC.length else sim.s.outP.length
      match sim.s.step sim.cfg l.tid with
      | none => .mismatch s!"the completing step is not enabled in the model (lock {lockStr' sim.s.lock})"
      | some s' =>
        if s'.bad then .mismatch "the specification does not accept the call (out of contract)" else
        let outs := if l.tid then s'.outC else s'.outP
        if outs.length != before + 1 then
          .mismatch "the model is not at the completing step of this call" else
        let o := outs.getLastD .ok
        let specOut := (s'.lin.getLast?.map (·.out)).getD .ok
        if qoutStr o != call.res then .mismatch s!"expected={call.res} got={qoutStr o}"
        else if specOut != o then .mismatch s!"model and specification disagree: model {qoutStr o} spec {qoutStr specOut}"
        else .ok { sim with s := s', callsP := if l.tid then sim.callsP else restCalls,
                            callsC := if l.tid then restCalls else sim.callsC }

/-- the `hdr` line at the end -/
def concHdr (sim : ConcSim) (toks : List String) : ConcRes :=
  match pqSimHdr { cfg := sim.cfg, bounded := false, q := sim.s.q, a := sim.s.a } toks with
  | .ok _ => .ok sim
  | .skip w => .skip w
  | .mismatch m => .mismatch m

def concLine (sim : ConcSim) (l : ConcLine) : ConcRes :=
  let toks := l.ev.splitOn " "
  match toks with
  | "ret" :: "hdr" :: rest => concHdr sim rest
  | ["ret", "close"] => .ok sim
  | "ret" :: _ =>
    match concRet sim l with
    | .ok s => .ok (if l.tid then { s with exclC := false } else { s with exclP := false })
    | r => r
  | [e] =>
    if e.startsWith "blocked@" then
      match sim.s.step sim.cfg l.tid with
      | none => .ok (if l.tid then { sim with wokenC := true } else { sim with wokenP := true })
      | some _ =>
        -- the other thread, woken, may have taken the lock unrecorded
        let sim2 := catchUp sim (!l.tid)
        match sim2.s.step sim2.cfg l.tid with
        | none => .ok (if l.tid then { sim2 with wokenC := true } else { sim2 with wokenP := true })
        | some _ => .mismatch s!"the thread is blocked in the implementation, its step is enabled in the model (lock {lockStr' sim.s.lock})"
    else
      match e.splitOn "->" with
      | [from_, to] =>
        let sim := if from_ == "commit-pending" || from_ == "commit-wait-exclusive" then catchUp sim l.tid else sim
        let sim := if l.tid then { sim with wokenC := false } else { sim with wokenP := false }
        let inTx := if l.tid then sim.s.cp != .idle else sim.s.pp != .idle
        if to == "commit-pending" then
          -- a failed transaction never gets here; Begin + Pending
          -- (a consumer that was blocked at the planning read transaction passes the second `begin-wait`
          -- unrecorded: plan first)
          let k := if l.tid && sim.s.cp == .idle then 3 else 2
          match concSteps sim l.tid k e with
          | .ok s => .ok s
          | .error m => .mismatch m
        else if to == "begin-wait" then
          if l.tid then
            -- the consumer arrives at BeginWrite of `cleanup` after the planning read transaction
            match sim.s.progC.head?, from_ != "op" && from_ != "commit-exclusive" && !inTx with
            | some (.ack _), true =>
              (match concSteps sim true 1 e with
               | .ok s => .ok s
               | .error m => .mismatch m)
            | _, _ => .ok sim
          else
            -- the producer starts a transaction: the model must agree that this call flushes
            match sim.s.progP.head?, sim.callsP.head? with
            | some op, some call =>
              if call.fault || sim.s.q.needsTx sim.cfg op then .ok sim
              else .mismatch "the producer begins a transaction, in the model this call does not flush"
            | _, _ => .ok sim
        else if to == "commit-exclusive" then
          if !inTx then .mismatch "commit without a transaction in the model" else
          if sim.s.lock.shared != 0 then .mismatch "exclusive lock acquired while the model has a reader" else
          .ok (if l.tid then { sim with exclC := true } else { sim with exclP := true })
        else .ok sim
      | _ => .skip s!"unknown event {e}"
  | _ => .skip s!"unknown event {l.ev}"

/-- the configuration line of a program: `cfg ps=<page size> max=<max pages> wb=<write buffer>` -/
def parseCfgLine (l : String) : Option (Nat × Nat × Nat) :=
  if !l.startsWith "cfg " then none else
  let field (k : String) : Option Nat :=
    (l.splitOn " ").findSome? fun t => if t.startsWith (k ++ "=") then (t.drop (k.length + 1)).toNat? else none
  match field "ps", field "max", field "wb" with
  | some a, some b, some c => some (a, b, c)
  | _, _, _ => none

/-- replay one program; result: lines checked, first disagreement -/
def concProgram (seed : Nat) (lines : List String) : Nat × Option String × Option String :=
  -- the harness states the configuration (`cfg` line); older traces: re-derived from the program seed
  let (ps, _, wb) := (lines.findSome? parseCfgLine).getD (pqRandomConfig seed)
  let cfg := QCfg.ofSettings ps wb
  let ls := lines.filterMap parseConcLine
  let (cp, cc) := concPrograms ls
  let sim0 : ConcSim := { cfg := cfg, s := CState.init cfg (cp.map (·.op)) (cc.map (·.op)), callsP := cp, callsC := cc }
  let rec go (sim : ConcSim) (ls : List ConcLine) (n : Nat) : Nat × Option String × Option String :=
    match ls with
    | [] => (n, none, none)
    | l :: rest =>
      match concLine sim l with
      | .skip w => (n, none, some s!"line {n + 1} `{l.ev}`: {w}")
      | .mismatch m => (n + 1, some s!"line {n + 1} `step {if l.tid then 1 else 0} {l.ev}`: {m}", none)
      | .ok sim' =>
        if l.lock.startsWith "shared=" && !(sim'.wokenP || sim'.wokenC || sim'.preP.isSome || sim'.preC.isSome || sim'.preFaultP || sim'.preFaultC) &&
            lockStr' sim'.s.lock != l.lock then
          (n + 1, some s!"line {n + 1} `step {if l.tid then 1 else 0} {l.ev}`: lock expected={l.lock} got={lockStr' sim'.s.lock}", none)
        else go sim' rest (n + 1)
  go sim0 ls 0

end TxVerif
