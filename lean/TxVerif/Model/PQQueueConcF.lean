/-
  C13 with FAILING transactions: the two-thread step relation of Model/PQQueueConc.lean extended by
  * `pFail o`  the write transaction of the producer call in progress fails (`o : FlushOutcome`: at `BeginWrite`,
               at the allocation - `err:oom` on a bounded file -, or at its commit) and is rolled back;
  * `cFail`    the cleanup (write) transaction of the ACK in progress fails and is rolled back.
  Every other step is a step of the existing relation (`CState.step`), re-used unchanged: `CStepF.reg t`.

  `pFail o` is possible when the head call of the producer needs a transaction (`PQState.needsTx`) and the producer
  holds the reserved lock (`pp = active/pending`) or could take it (`pp = idle`, reserved lock free: `BeginWrite`
  does not block).  It releases every lock the producer holds (pending, reserved), leaves page chain and root
  header untouched, sets the write buffer to `failFlush o q.w` (`Write`, `Flush`) resp.
  `failFlush o (q.w.nextCore c.S)` (`Next`: the event is finished BEFORE the flush check), and the call returns
  the error (`FOut.txFailed`).  Specification effect (Proofs/PQQueueConcFail.lean): none for `Write`/`Flush`;
  for `Next` the event is finished and nothing is flushed = the specification's `next` WITHOUT flush.

  `cFail` is possible when the consumer is inside the cleanup of an ACK (`cp = active/pending`; or `planned` with
  the reserved lock free: its `BeginWrite` fails).  Locks released, plan dropped, state unchanged, the call returns
  the error, no specification effect.

  Bookkeeping.  `CStateF.base` is a state of the existing relation.  Its ghost fields (`a`, `lin`, `outP`) follow
  the specification: a failed `Write`/`Flush`/`ACK` leaves no trace in them (the call is only removed from the
  program), a failed `Next` is recorded as the non-flushing `next` the specification makes of it.  So `base` is at
  every moment a state of the existing relation for the program WITHOUT the failed `Write`/`Flush`/`ACK` calls -
  which is what lets every existing invariant lemma be re-used.  What the threads really saw (errors included)
  and the full linearization (failed calls included, at the step where they fail) are `outPF`, `outCF`, `linF`.
-/
import TxVerif.Model.PQQueueConc
namespace TxVerif

/-- the result a thread sees: a result of the queue, or the error of a failed (rolled back) transaction -/
inductive FOut where
  | ret (o : QOut)
  | txFailed
  deriving Repr, DecidableEq

/-- a linearized call, failed ones included (`out = .txFailed`) -/
structure LinEvF where
  tid : Bool
  op : QOp
  fl : Bool
  out : FOut
  deriving Repr, DecidableEq

def LinEv.toF (e : LinEv) : LinEvF := ⟨e.tid, e.op, e.fl, .ret e.out⟩

structure CStateF where
  base : CState
  linF : List LinEvF := []
  outPF : List FOut := []
  outCF : List FOut := []

inductive CStepF where
  | reg (t : Bool)
  | pFail (o : FlushOutcome)
  | cFail
  deriving Repr, DecidableEq

def CStateF.init (c : QCfg) (progP progC : List QOp) : CStateF := { base := CState.init c progP progC }

/-- the locks after the rollback of a write transaction: pending and reserved released -/
def LockSt.rollback (l : LockSt) : LockSt := { l with pending := false, reserved := false }

/-- a step of the existing relation; the F bookkeeping takes over what the step appended -/
def CStateF.reg (c : QCfg) (sF : CStateF) (t : Bool) : Option CStateF :=
  match sF.base.step c t with
  | none => none
  | some s' =>
    some { base := s',
           linF := sF.linF ++ (s'.lin.drop sF.base.lin.length).map LinEv.toF,
           outPF := sF.outPF ++ (s'.outP.drop sF.base.outP.length).map FOut.ret,
           outCF := sF.outCF ++ (s'.outC.drop sF.base.outC.length).map FOut.ret }

/-- the producer's transaction fails -/
def CStateF.pFail (c : QCfg) (sF : CStateF) (o : FlushOutcome) : Option CStateF :=
  let s := sF.base
  if s.bad then none else
  match s.progP with
  | [] => none
  | op :: rest =>
    if !op.isProducer then none else
    -- `BeginWrite` is reached only by a call that flushes, and does not fail while it is blocked
    if s.pp = .idle ∧ (s.q.needsTx c op = false ∨ s.lock.reserved = true) then none else
    let lock' := if s.pp = .idle then s.lock else s.lock.rollback
    let linF' := sF.linF ++ [⟨false, op, false, .txFailed⟩]
    let outPF' := sF.outPF ++ [.txFailed]
    match op with
    | .next =>
      match s.a.stepL false .next false with
      | none => some { sF with base := { s with bad := true } }
      | some (a', o') =>
        some { sF with
          base := { s with q := { s.q with w := failFlush o (s.q.w.nextCore c.S) }, lock := lock', pp := .idle,
                           a := a', lin := s.lin ++ [⟨false, .next, false, o'⟩], progP := rest,
                           outP := s.outP ++ [o'] },
          linF := linF', outPF := outPF' }
    | _ =>
      some { sF with
        base := { s with q := { s.q with w := failFlush o s.q.w }, lock := lock', pp := .idle, progP := rest },
        linF := linF', outPF := outPF' }

/-- the cleanup transaction of the ACK fails -/
def CStateF.cFail (sF : CStateF) : Option CStateF :=
  let s := sF.base
  if s.bad then none else
  match s.progC with
  | [] => none
  | op :: rest =>
    let fin (lock' : LockSt) : Option CStateF :=
      some { sF with base := { s with lock := lock', cp := .idle, progC := rest },
                     linF := sF.linF ++ [⟨true, op, false, .txFailed⟩], outCF := sF.outCF ++ [.txFailed] }
    match s.cp with
    | .idle => none
    | .planned _ => if s.lock.reserved then none else fin s.lock
    | .active _ => fin s.lock.rollback
    | .pending _ => fin s.lock.rollback

def CStateF.step (c : QCfg) (sF : CStateF) : CStepF → Option CStateF
  | .reg t => sF.reg c t
  | .pFail o => sF.pFail c o
  | .cFail => sF.cFail

/-- run a schedule; a step that is not enabled is skipped -/
def CStateF.run (c : QCfg) : CStateF → List CStepF → CStateF
  | s, [] => s
  | s, t :: ts =>
    match s.step c t with
    | some s' => CStateF.run c s' ts
    | none => CStateF.run c s ts

/-! ## the specification with failed calls -/

/-- the specification effect of a FAILED call -/
def ASpec.failL (a : ASpec) (tid : Bool) (op : QOp) : Option ASpec :=
  if tid then
    match op with
    | .ack n => if n = 0 then none else some a
    | _ => none
  else
    match op with
    | .write _ | .flush => some a
    | .next => (a.stepL false .next false).map (·.1)
    | _ => none

/-- the specification accepts the linearization (failed calls included) and gives these results -/
def ASpec.runLinF : ASpec → List LinEvF → Option ASpec
  | a, [] => some a
  | a, e :: es =>
    match e.out with
    | .txFailed =>
      match a.failL e.tid e.op with
      | none => none
      | some a1 => ASpec.runLinF a1 es
    | .ret o' =>
      match a.stepL e.tid e.op e.fl with
      | none => none
      | some (a1, o) => if o = o' then ASpec.runLinF a1 es else none

end TxVerif
