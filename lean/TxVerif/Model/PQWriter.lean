/-
  Executable model of the queue writer's buffer (go-txfile/pq: buffer.go, writer.go).

  What is mirrored
  * `buffer`: the linked list `head … tail` of in-memory pages, the current page (`b.page`, always the
    tail), `eventHdrPage`/`eventHdrOffset`, `avail`, the `Dirty` flag of every page and whether a
    page has an on-disk id (`Assigned`).
  * `buffer.Append` (= `appendData` of Model/PQLayout.lean, the same loop), `advancePage`,
    `ReserveHdr(4)`, `CommitEvent`, `Pages`, `Reset`.
  * `Writer.Write` / `Next` / `Flush` with the automatic flushes (`Avail() <= len(p)` before the
    append in `Write`, `Avail() <= szEventHeader` at the end of `Next`), `flushBuffer`, `doFlush`,
    `updateRootHdr` (tail position `(last page, endOff, eventID)`; `endOff = eventHdrOffset` if the
    last flushed page is `eventHdrPage`).

  Representation
  * `eventHdrPage` is never nil between two writer calls (`newWriter` and `Next` end with
    `ReserveHdr`).  The list + pointer is stored split at the pointer: `pre` = pages before
    `eventHdrPage`, `ev` = `eventHdrPage` and the pages behind it (the event in progress);
    head = first page of `pre ++ ev`, tail = current page = last page of `ev`.
  * a page is `QPage` with `payload` = `Data[28 : EndOff]` (bytes written so far).  What `flushPage`
    writes is the whole page: `render` fills the rest of the page with zeros (fresh pool pages are
    zero; on reused pool pages the real bytes there are arbitrary, as is the 4 byte header
    reservation, modelled as zeros until `Next` stores the size).
  * the file is the list `persisted` of pages in chain order.  Transactions, allocation and errors
    are not modelled: every flush succeeds.  A flushed page that is already on disk (`assigned`;
    only the head of the buffer can be, `Reset` releases everything before the last flushed page)
    replaces its old version = the last page of `persisted`.
-/
import TxVerif.Model.PQLayout
namespace TxVerif

/-- in-memory page of the write buffer (`page`): contents + `Meta.Flags.Dirty` + `Meta.ID != 0` -/
structure BPage where
  q : QPage
  dirty : Bool
  assigned : Bool
  deriving Repr, DecidableEq, Inhabited

/-- `buffer.newPage` -/
def BPage.new : BPage := ⟨QPage.fresh, false, false⟩

structure WState where
  /-- buffer pages before `eventHdrPage` (head first) -/
  pre : List BPage
  /-- `eventHdrPage` and the pages behind it; the last one is the current page `b.page` -/
  ev : List BPage
  /-- `eventHdrOffset` -/
  hdrOff : Nat
  /-- `buffer.avail` -/
  avail : Int
  eventID : Nat
  eventBytes : Nat
  activeEventCount : Nat
  /-- the queue's pages on disk, chain order, each as written by `flushPage` -/
  persisted : List QPage
  /-- root header `tail.off` (offset inside the last persisted page), 0 = nothing persisted -/
  tailOff : Nat
  /-- root header `tail.id` -/
  tailId : Nat
  deriving Repr, DecidableEq

/-- what `flushPage` puts on disk for a page: the header fields and the whole payload area -/
def render (S : Nat) (p : QPage) : QPage :=
  { p with payload := p.payload ++ List.replicate (S - p.payload.length) 0 }

/-- pages and current page as one chain -/
def chain (r : List QPage × QPage) : List QPage := r.1 ++ [r.2]

/-- `buffer.Append(data)` on the page list whose last page is the current page: the current page
    is filled, further pages are new ones -/
def bufAppend (S : Nat) (ev : List BPage) (data : List UInt8) : List BPage :=
  match ev.getLast? with
  | none => ev
  | some cur =>
    match chain (appendData S cur.q data) with
    | [] => ev
    | c :: rest => ev.dropLast ++ { cur with q := c } :: rest.map fun q => { BPage.new with q := q }

/-- `hdr.sz.Set(sz)` on the reserved header at page offset `off` -/
def setHdr (p : QPage) (off sz : Nat) : QPage :=
  { p with payload := p.payload.take (off - 28) ++ le32 sz ++ p.payload.drop (off - 28 + 4) }

/-- `CommitEvent(id)`, page fields of `eventHdrPage` -/
def commitMeta (p : QPage) (off id : Nat) : QPage :=
  { p with first := if p.off = 0 then id else p.first,
           last := id,
           off := if p.off = 0 then off else p.off }

def BPage.markDirty (p : BPage) : BPage := { p with dirty := true }

/-- `hdr.sz.Set(eventBytes)` + `CommitEvent(id)`: fields of `eventHdrPage`, `eventHdrPage … tail`
    dirty, head dirty if it is the page just before `eventHdrPage` (its link changes).
    Returns the buffer's page list (`eventHdrPage = nil` now) as `(pre, ev)`. -/
def commitEvent (s : WState) : List BPage × List BPage :=
  let ev1 := (s.ev.modifyHead fun hp =>
    { hp with q := commitMeta (setHdr hp.q s.hdrOff s.eventBytes) s.hdrOff s.eventID }).map BPage.markDirty
  let pre1 := match s.pre with
    | [x] => [x.markDirty]      -- b.head != b.eventHdrPage && b.head.Next == b.eventHdrPage
    | pre => pre
  (pre1, ev1)

/-- `ReserveHdr(4)` on the page list `pre ++ ev` (current page = last of `ev`): new split
    `(pre, eventHdrPage, eventHdrOffset)` -/
def reserveHdrBuf (S : Nat) (pre ev : List BPage) : List BPage × BPage × Nat :=
  match ev.getLast? with
  | none => (pre, BPage.new, 28)   -- not reachable
  | some cur =>
    let adv := S - cur.q.payload.length < 4     -- len(b.payload) < n: advancePage
    let hp := if adv then BPage.new else cur
    let pre2 := if adv then pre ++ ev else pre ++ ev.dropLast
    (pre2, { hp with q := { hp.q with payload := hp.q.payload ++ [0, 0, 0, 0] } },
      28 + hp.q.payload.length)

/-- `flushBuffer`: `buffer.Pages`, `flushPages`, `updateRootHdr`, `UnmarkDirty`, `buffer.Reset` -/
def flushBuffer (S : Nat) (s : WState) : WState :=
  let s0 := { s with activeEventCount := 0 }
  match s.ev with
  | [] => s0     -- not reachable
  | hp :: post =>
    let head := match s.pre with
      | [] => hp
      | x :: _ => x
    if !head.dirty then s0     -- Pages: "buffer empty"
    else
      -- end = eventHdrPage, or its successor if eventHdrPage is dirty
      let flushed := if hp.dirty then s.pre ++ [hp] else s.pre
      match flushed.getLast? with
      | none => s0             -- start == end
      | some last =>
        let endOff := if hp.dirty then s.hdrOff else 28 + last.q.payload.length
        let keep := if head.assigned then s.persisted.dropLast else s.persisted
        let clean := fun (p : BPage) => { p with dirty := false, assigned := true }
        { s0 with
          persisted := keep ++ flushed.map fun p => render S p.q
          tailOff := endOff
          tailId := s.eventID
          -- Reset(last): everything before `last` is released
          pre := if hp.dirty then [] else [clean last]
          ev := if hp.dirty then clean hp :: post else hp :: post
          avail := s.avail + ((flushed.dropLast.map fun p => (p.q.payload.length : Int)).sum) }

/-- `Writer.Write(p)` -/
def WState.write (S : Nat) (s : WState) (p : List UInt8) : WState :=
  let s1 := if s.avail ≤ p.length then flushBuffer S s else s
  { s1 with ev := bufAppend S s1.ev p, avail := s1.avail - p.length,
            eventBytes := s1.eventBytes + p.length }

/-- `Writer.Next()` without the flush check at its end -/
def WState.nextCore (S : Nat) (s : WState) : WState :=
  let c := commitEvent s
  let r := reserveHdrBuf S c.1 c.2
  { s with pre := r.1, ev := [r.2.1], hdrOff := r.2.2, avail := s.avail - 4,
           eventBytes := 0, eventID := s.eventID + 1,
           activeEventCount := s.activeEventCount + 1 }

/-- `Writer.Next()` -/
def WState.next (S : Nat) (s : WState) : WState :=
  let s1 := s.nextCore S
  if s1.avail ≤ 4 then flushBuffer S s1 else s1

/-- `Writer.Flush()` -/
def WState.flush (S : Nat) (s : WState) : WState := flushBuffer S s

/-- `newWriter` on an empty queue (`end.page = 0`) whose next event id is `id0` (0 for a new queue);
    `pages` = buffer size in pages (`max(writeBuffer / pageSize, 5)`).  Ends with `ReserveHdr`. -/
def WState.init (S pages id0 : Nat) : WState :=
  { pre := [], ev := [{ BPage.new with q := { QPage.fresh with payload := [0, 0, 0, 0] } }],
    hdrOff := 28, avail := (S * pages : Nat) - 4, eventID := id0, eventBytes := 0,
    activeEventCount := 0, persisted := [], tailOff := 0, tailId := id0 }

inductive WOp where
  | write (chunk : List UInt8)
  | next
  | flush
  deriving Repr, DecidableEq

def WState.step (S : Nat) (s : WState) : WOp → WState
  | .write c => s.write S c
  | .next => s.next S
  | .flush => s.flush S

def WState.run (S : Nat) (s : WState) (ops : List WOp) : WState := ops.foldl (WState.step S) s

/-- the writer on a new queue with page size `P` after the calls `ops` -/
def runWriter (P pages id0 : Nat) (ops : List WOp) : WState :=
  (WState.init (P - 28) pages id0).run (P - 28) ops

/-! ## observable output -/

/-- the chain as a reader that stops at the tail position sees it: the last page ends at `off` -/
def cutAt : List QPage → Nat → List QPage
  | [], _ => []
  | [p], off => [{ p with payload := p.payload.take (off - 28) }]
  | p :: q :: ps, off => p :: cutAt (q :: ps) off

/-- persisted pages up to the persisted tail position -/
def WState.visible (s : WState) : List QPage := cutAt s.persisted s.tailOff

/-- root header `tail`: (index of the tail page in the chain, offset in it, id of the next event) -/
def WState.tailPos (s : WState) : Nat × Nat × Nat := (s.persisted.length - 1, s.tailOff, s.tailId)

/-- one line per persisted page `first:last:off:payloadLen` (last page: up to the tail), then the
    tail position; the format of `layoutsizes` in Model/PQDriver.lean -/
def WState.dump (s : WState) : List String :=
  (s.visible.map fun p => s!"{p.first}:{p.last}:{p.off}:{p.payload.length}") ++
    [s!"tail {s.tailPos.1}:{s.tailPos.2.1}:{s.tailPos.2.2}"]

/-! ## specification side: the events of an operation list -/

/-- (finished events, bytes of the event in progress) -/
def gstep (g : List (List UInt8) × List UInt8) : WOp → List (List UInt8) × List UInt8
  | .write c => (g.1, g.2 ++ c)
  | .next => (g.1 ++ [g.2], [])
  | .flush => g

def ghost (ops : List WOp) : List (List UInt8) × List UInt8 := ops.foldl gstep ([], [])

/-- the events finished (`Next`) by `ops`: bytes = concatenation of the chunks -/
def finished (ops : List WOp) : List (List UInt8) := (ghost ops).1

end TxVerif
