/-
  On-disk event framing of the persistent queue (go-txfile/pq).

  A queue is a singly linked chain of pages of `P` bytes.  Every page starts with
  the 28 byte `eventPage` header (layout.go: next u64, first u64, last u64,
  off u32), followed by `P - 28` payload bytes.  The payload bytes of the chain
  carry the events, each framed as a 4 byte little-endian size (`eventHeader`)
  followed by the event bytes.  Event bytes are split freely over pages, an
  event header is never split: if fewer than 4 payload bytes are left in the
  current page the writer starts a new page (buffer.ReserveHdr) and the rest of
  the old page is padding.

  `layout` mirrors the writer (buffer.Append / advancePage / ReserveHdr /
  CommitEvent as driven by Writer.Write / Writer.Next), `parseChain` mirrors
  the reader (Reader.Next, Reader.Read/readInto, txCursor.readInto/AdvancePage).

  Modelling decisions
  * The `next` link is represented by the order of the page list.
  * The real writer reserves the header of the *next* event eagerly (at the end
    of `Writer.Next`).  A page that only holds such a reservation is not dirty,
    `buffer.Pages` does not hand it to the flush, and the persisted tail offset
    excludes the reservation (`updateRootHdr` uses `eventHdrOffset`).  So what
    reaches the disk is the same as with the lazy reservation used here: the
    header of an event is reserved when the event is laid out.
  * The real writer fills in the header (size) and the page fields
    (`FirstOff/FirstID/LastID`, CommitEvent) after the event data has been
    appended; the functional model knows the size up front and writes both
    when the header is reserved.  The final page contents are the same.
  * Padding bytes and the unwritten rest of the last page are arbitrary on
    disk.  Padding is modelled as zero bytes; the last page carries only the
    bytes written so far (its payload may be shorter than `P - 28`).
-/
import TxVerif.Model.Bytes
namespace TxVerif

/-- one queue page in memory: header fields + payload bytes (page offsets `28 …`) -/
structure QPage where
  /-- id of the first event whose header starts in this page (0 if none) -/
  first : Nat
  /-- id of the last event whose header starts in this page (0 if none) -/
  last : Nat
  /-- page offset (header included, so ≥ 28) of the first event header in this page, 0 if none -/
  off : Nat
  /-- exactly `P - 28` bytes once the page is complete; the last page of a chain holds only the bytes written so far -/
  payload : List UInt8
  deriving Repr, DecidableEq, Inhabited

/-- `szEventPageHeader` -/
def pqHdr : Nat := 28
/-- `szEventHeader` -/
def evHdr : Nat := 4

theorem pqHdr_eq : pqHdr = 28 := rfl
theorem evHdr_eq : evHdr = 4 := rfl

/-! ## writer -/

/-- `buffer.advancePage`: a fresh page, nothing written, no event header yet -/
def QPage.fresh : QPage := ⟨0, 0, 0, []⟩

/-- `buffer.Append(data)` with payload capacity `S = P - 28`, current page `cur`.
    Returns the pages completed (in chain order) and the new current page.
    One loop iteration of the Go code is split into two steps:
    `len(b.payload) == 0 → advancePage` and `copy`. `fuel` bounds the number of steps. -/
def appendFuel (S : Nat) : Nat → QPage → List UInt8 → List QPage × QPage
  | 0, cur, _ => ([], cur)
  | fuel + 1, cur, data =>
    if data.isEmpty then ([], cur)
    else if S - cur.payload.length = 0 then
      -- page exhausted: advancePage, the old page is complete
      let r := appendFuel S fuel QPage.fresh data
      (cur :: r.1, r.2)
    else
      -- n := copy(b.payload, data)
      let n := S - cur.payload.length
      appendFuel S fuel { cur with payload := cur.payload ++ data.take n } (data.drop n)

/-- `buffer.Append` -/
def appendData (S : Nat) (cur : QPage) (data : List UInt8) : List QPage × QPage :=
  appendFuel S (2 * data.length + 1) cur data

/-- `buffer.ReserveHdr(4)`, first half: if the header does not fit into the rest of the
    page start a new one; the rest of the old page is padding (modelled as zeros). -/
def reserveHdr (S : Nat) (cur : QPage) : List QPage × QPage :=
  if S - cur.payload.length < 4 then
    ([{ cur with payload := cur.payload ++ List.replicate (S - cur.payload.length) 0 }], QPage.fresh)
  else ([], cur)

/-- `buffer.ReserveHdr(4)` second half + header contents (`hdr.sz.Set`) + `buffer.CommitEvent(id)`
    on the page holding the header: FirstOff/FirstID are set by the first event whose header
    starts in the page, LastID by every such event. -/
def commitHdr (cur : QPage) (id sz : Nat) : QPage :=
  { first := if cur.off = 0 then id else cur.first,
    last := id,
    off := if cur.off = 0 then 28 + cur.payload.length else cur.off,
    payload := cur.payload ++ le32 sz }

/-- one event: ReserveHdr, header, Append(data), CommitEvent -/
def writeEvent (S : Nat) (cur : QPage) (id : Nat) (e : List UInt8) : List QPage × QPage :=
  let r1 := reserveHdr S cur
  let r2 := appendData S (commitHdr r1.2 id e.length) e
  (r1.1 ++ r2.1, r2.2)

/-- lay out events `id, id+1, …` continuing on the (incomplete) current page `cur`;
    returns the chain from `cur` on -/
def layoutFrom (S : Nat) (cur : QPage) (id : Nat) : List (List UInt8) → List QPage
  | [] => [cur]
  | e :: es =>
    let r := writeEvent S cur id e
    r.1 ++ layoutFrom S r.2 (id + 1) es

/-- writer state after the events `id, id+1, …`: the completed pages and the current page
    (`layoutFrom S cur id evs = (writeEvents S cur id evs).1 ++ [(writeEvents S cur id evs).2]`) -/
def writeEvents (S : Nat) (cur : QPage) (id : Nat) : List (List UInt8) → List QPage × QPage
  | [] => ([], cur)
  | e :: es =>
    let r := writeEvent S cur id e
    let r' := writeEvents S r.2 (id + 1) es
    (r.1 ++ r'.1, r'.2)

/-- the writer: append the events (each as 4 byte little-endian size header + data) starting
    with event id `id0` on a fresh page; returns the pages in chain order. Without events no
    page is written. -/
def layout (P : Nat) (id0 : Nat) (evs : List (List UInt8)) : List QPage :=
  if evs.isEmpty then [] else layoutFrom (P - pqHdr) QPage.fresh id0 evs

/-! ## reader -/

/-- `txCursor.readInto` (cursor.go), one byte per step: if the page is exhausted
    (`PageBytes() == 0`) follow the link and continue at offset 28; then copy.
    Reading `n` bytes from the cursor `(pages, off)` (`pages.head` is the current page) returns
    the bytes and the new cursor. `none`: chain ends early / page shorter than expected. -/
def readData (P : Nat) : List QPage → Nat → Nat → Option (List UInt8 × List QPage × Nat)
  | pages, off, 0 => some ([], pages, off)
  | pages, off, n + 1 =>
    let st : List QPage × Nat := if P - off = 0 then (pages.tail, 28) else (pages, off)
    match st.1 with
    | [] => none
    | q :: qs =>
      match q.payload[st.2 - 28]? with
      | none => none
      | some b => (readData P (q :: qs) (st.2 + 1) n).map fun r => (b :: r.1, r.2)

/-- `Reader.Next`, cursor part: if the event header does not fit into the rest of the page
    (`PageBytes() < szEventHeader`) advance to the next page and continue at the offset stored
    in its header. `none` models the two invariant checks ("page list linkage broken",
    "page event offset missing"). -/
def nextHdrPos (P : Nat) (pages : List QPage) (off : Nat) : Option (List QPage × Nat) :=
  if P - off < 4 then
    match pages.tail with
    | [] => none
    | q :: qs => if q.off = 0 then none else some (q :: qs, q.off)
  else some (pages, off)

/-- `txCursor.ReadEventHeader` (the 4 size bytes at the cursor, never crosses a page) followed by
    `Reader.Read` of the complete event -/
def readEventAt (P : Nat) (pages : List QPage) (o : Nat) : Option (List UInt8 × List QPage × Nat) :=
  match pages with
  | [] => none
  | q :: qs =>
    let hdr := (q.payload.drop (o - 28)).take 4
    if hdr.length = 4 then readData P (q :: qs) (o + 4) (leDec hdr) else none

/-- `Reader.Next` + `Reader.Read`: position on the next event header, decode the size, read the
    event bytes. Returns the event and the cursor behind it. -/
def readEvent (P : Nat) (pages : List QPage) (off : Nat) : Option (List UInt8 × List QPage × Nat) :=
  (nextHdrPos P pages off).bind fun st => readEventAt P st.1 st.2

/-- deliver `n` events starting at cursor `(pages, off)` -/
def parseFrom (P : Nat) : List QPage → Nat → Nat → Option (List (List UInt8))
  | _, _, 0 => some []
  | pages, off, n + 1 =>
    match readEvent P pages off with
    | none => none
    | some (e, pgs, o) => (parseFrom P pgs o n).map (e :: ·)

/-- the reader: starting at page 0 at the position of the first event (`(pages[0]).off`),
    deliver `n` events. `none` if the chain ends early. -/
def parseChain (P : Nat) (pages : List QPage) (n : Nat) : Option (List (List UInt8)) :=
  match pages with
  | [] => if n = 0 then some [] else none
  | p :: _ => parseFrom P pages p.off n

/-! ## reader, consumer dependent variant

  How the cursor moves behind an event depends on what the consumer does.  If the consumer
  `Read`s the event to its end, `Reader.readInto` immediately tries to leave a page in which no
  further event header fits and continues at offset 28 of the next page (it does not look at the
  `off` field, and a missing next page is ignored).  If the consumer calls `Next` without having
  read the event to its end, the rest is skipped (`txCursor.Skip`, same cursor movement as
  reading) and only the `Next` of the following event advances, using the `off` field
  (`nextHdrPos`).  `parseChain` is the second behaviour for every event; `parseChainVia` takes the
  behaviour per event (`true` = read to the end). -/

/-- `Reader.readInto`, end of event: leave the page if fewer than 4 bytes are left in it -/
def settle (P : Nat) (pages : List QPage) (off : Nat) : List QPage × Nat :=
  if P - off < 4 then
    match pages.tail with
    | [] => (pages, off)
    | q :: qs => (q :: qs, 28)
  else (pages, off)

/-- one event; `full`: the consumer reads the event to its end (only events with at least one
    byte ever reach the end-of-event code in `readInto`) -/
def readEventVia (P : Nat) (full : Bool) (pages : List QPage) (off : Nat) :
    Option (List UInt8 × List QPage × Nat) :=
  (readEvent P pages off).map fun r =>
    if full && decide (0 < r.1.length) then (r.1, settle P r.2.1 r.2.2) else r

def parseFromVia (P : Nat) : List QPage → Nat → List Bool → Option (List (List UInt8))
  | _, _, [] => some []
  | pages, off, m :: ms =>
    match readEventVia P m pages off with
    | none => none
    | some (e, pgs, o) => (parseFromVia P pgs o ms).map (e :: ·)

/-- deliver `modes.length` events, the `i`-th one read to its end iff `modes[i]` -/
def parseChainVia (P : Nat) (pages : List QPage) (modes : List Bool) : Option (List (List UInt8)) :=
  match pages with
  | [] => if modes.isEmpty then some [] else none
  | p :: _ => parseFromVia P pages p.off modes

/-- every event is read to its end (`Next`, `Read` until 0, `Next`, …) -/
def parseChainRead (P : Nat) (pages : List QPage) (n : Nat) : Option (List (List UInt8)) :=
  parseChainVia P pages (List.replicate n true)

/-! ## reader with event id bookkeeping

  The reader keeps the id of the next event (`readState.id`).  It is used to detect the end of the
  queue (`id == endID`, here: the number of events to deliver) and it is checked against the
  `first` field whenever `Reader.Next` advances to the next page
  (`invariant.Check(r.state.id == id, "page start event id mismatch")`, a panic).
  The id is incremented where the reader notices the end of an event: in `readInto` when the last
  byte of the event has been read, or in the following `Next` when unread bytes are left
  (`eventBytes > 0`).  Neither happens for an event without bytes (`Read` returns early, `Next`
  sees `eventBytes == 0`), so the id is NOT incremented behind an empty event.  The model keeps
  this behaviour; `parseChainIds` therefore fails on chains with empty events where the real
  reader panics. -/

/-- `Reader.Next`, cursor part, with the two invariant checks of the page advance -/
def nextHdrPosId (P : Nat) (pages : List QPage) (off id : Nat) : Option (List QPage × Nat) :=
  if P - off < 4 then
    match pages.tail with
    | [] => none
    | q :: qs => if q.first ≠ id ∨ q.off = 0 then none else some (q :: qs, q.off)
  else some (pages, off)

/-- one event; returns the event, the cursor behind it and the reader's next id -/
def readEventIds (P : Nat) (full : Bool) (pages : List QPage) (off id : Nat) :
    Option (List UInt8 × List QPage × Nat × Nat) :=
  (nextHdrPosId P pages off id).bind fun st =>
    (readEventAt P st.1 st.2).map fun r =>
      let id' := if 0 < r.1.length then id + 1 else id
      let c := if full && decide (0 < r.1.length) then settle P r.2.1 r.2.2 else r.2
      (r.1, c.1, c.2, id')

def parseFromIds (P : Nat) : List QPage → Nat → Nat → List Bool → Option (List (List UInt8))
  | _, _, _, [] => some []
  | pages, off, id, m :: ms =>
    match readEventIds P m pages off id with
    | none => none
    | some (e, pgs, o, id') => (parseFromIds P pgs o id' ms).map (e :: ·)

/-- the reader with id bookkeeping, started at the first event of page 0 (`off`, `first` as
    recorded in the queue header's head position) -/
def parseChainIds (P : Nat) (pages : List QPage) (modes : List Bool) : Option (List (List UInt8)) :=
  match pages with
  | [] => if modes.isEmpty then some [] else none
  | p :: _ => parseFromIds P pages p.off p.first modes

/-- page summary `(first, last, off, payload length)` of a chain -/
def pageSummary (pages : List QPage) : List (Nat × Nat × Nat × Nat) :=
  pages.map fun p => (p.first, p.last, p.off, p.payload.length)

end TxVerif
