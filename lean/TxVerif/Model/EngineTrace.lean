/-
  The vfs-level operation trace of the ENGINE MODEL (Model/Engine.lean), in the vocabulary of the crash
  model (Model/Crash.lean): which page writes, syncs and header writes the implementation issues for the
  steps of a write transaction, in the order it issues them.

    page.go  doFlush             one write of the page's bytes to `ondisk` (the page itself if new, a fresh
                                 overwrite page, or - if the page was mapped - the original page)
    tx.go    doCheckpointWAL     one write per copied entry (k, w): the content of `w` goes to page `k`
    tx.go    tryCommitChanges    flush, (checkpoint,) allocation of the new mapping / free-list pages,
             tryCommitChangesToFile   then: writes of the mapping pages (wal.fileCommitSerialize), writes of
             syncNewMeta         the free-list pages (allocator.fileCommitSerialize), sync, header into
                                 the inactive slot with txid+1, sync.  A commit that fails (no space for
                                 the internal pages) fails BEFORE anything of this is written.
    write.go                     writes are asynchronous: everything may be pending until the first sync

  Content hashes: data pages carry an injective encoding of the model's `Content` (`Content.hash`),
  mapping pages a hash of the mapping they encode, free-list pages a hash of the two free lists (the hashes
  of internal pages are abstract: collisions only weaken what "intact" says about those pages).

  This file holds the parts that only need Model/Engine.lean; the traces of operation lists (`EOp`),
  transactions (`TxnO`) and histories are defined in Proofs/EngineTrace.lean (the types live there).
-/
import TxVerif.Model.Engine
import TxVerif.Model.Crash
namespace TxVerif

/-- Cantor pairing (injective: `natPair_inj`) -/
def natPair (a b : Nat) : Nat := (a + b) * (a + b + 1) / 2 + b

/-- content hash of a data page: injective (`contentHash_inj`), multiple of 3 -/
def Content.hash (c : Content) : Hash := 3 * natPair (natPair c.lo.1 c.lo.2) (natPair c.hi.1 c.hi.2)

/-- abstract hash of a list of numbers -/
def hashNats (l : List Nat) : Nat := l.foldl (fun h x => (h * 1000003 + x + 1) % 1000000007) 7

/-- content hash of a mapping page: the mapping it belongs to (≡ 1 mod 3) -/
def mapHash (m : Assoc Nat) : Hash := 3 * hashNats (m.map fun e => natPair e.1 e.2) + 1

/-- content hash of a free-list page: the two free lists it belongs to (≡ 2 mod 3) -/
def flHash (dataFree metaFree : List Nat) : Hash := 3 * natPair (hashNats dataFree) (hashNats metaFree) + 2

/-- effect of one operation on the page contents of an image (`applyOp` without the slots) -/
def applyPg (pg : Nat → Option Hash) : TOp → (Nat → Option Hash)
  | .write p h => fun q => if q = p then some h else pg q
  | .trunc n => fun q => if n ≤ q then none else pg q
  | _ => pg

/-- page contents after all operations of a trace reached the file -/
def tracePages (tr : List TOp) (pg : Nat → Option Hash) : Nat → Option Hash := tr.foldl applyPg pg

/-! ### flush -/

/-- the write of one `doFlush` (which returns the page written, if any; `f'` is the state after it) -/
def writeOpt (f' : FileSt) : Option Nat → List TOp
  | some w => [TOp.write w (f'.diskAt w).hash]
  | none => []

/-- the writes `flushList` issues, in order, each with the bytes written; on an error (no overwrite page
    available) the writes issued before the failing page stay in the trace -/
def flushListT (f : FileSt) (tx : TxSt) : List Nat → List TOp
  | [] => []
  | id :: ids =>
    match tx.pages.get? id with
    | none => []
    | some p =>
      match doFlush f tx p with
      | .error _ => []
      | .ok (f', tx', w) =>
        writeOpt f' w ++ flushListT f' tx' ids

/-! ### checkpoint -/

/-- the copy-back writes of a checkpoint over the entries `(k, w)`: page `k` receives the content of `w` -/
def ckptListT (s : FileSt × TxSt) : List (Nat × Nat) → List TOp
  | [] => []
  | e :: es => TOp.write e.1 (s.1.diskAt e.2).hash :: ckptListT (ckptOne s e) es

/-- the writes of `doCheckpoint` -/
def doCheckpointT (f : FileSt) (tx : TxSt) : List TOp :=
  if tx.checkpoint then [] else ckptListT (f, tx) (ckptTodo f tx)

/-! ### commit -/

/-- does `commitAfterFlush` run a checkpoint (`wal.fileCommitPrepare`: the new mapping reached the limit) -/
def commitCkpt (f : FileSt) (tx : TxSt) : Bool :=
  tx.walLimit > 0 && (mappingUpdate f.walMap tx).length ≥ tx.walLimit

/-- which internal pages a commit serialises: (the mapping pages are written, the free-list pages are
    written); the computation of `commitAfterFlush` up to the allocation of the mapping pages -/
def commitFlags (f : FileSt) (tx : TxSt) : Bool × Bool :=
  let newWal := mappingUpdate f.walMap tx
  let ckpt := tx.walLimit > 0 && newWal.length ≥ tx.walLimit
  let walUpd := ckpt || tx.walUpdated
  let newWal := if ckpt then tx.walNew else newWal
  let (f, tx, _) := if ckpt then doCheckpoint f tx else (f, tx, [])
  let newWal := if ckpt then tx.walNew else newWal
  let tx := if walUpd then { tx with ta := metaFreeIds tx.ta f.walPages } else tx
  let allocUpd := tx.ta.updated
  let tx := if allocUpd then { tx with ta := metaFreeIds tx.ta f.alloc.freelistPages } else tx
  let nwal := if walUpd then predictWalPages newWal.length f.alloc.pageSize else 0
  let walRes : Option (Alloc × TxAlloc × List Nat) :=
    if nwal > 0 then metaAllocRegions f.alloc tx.ta nwal else some (f.alloc, tx.ta, [])
  match walRes with
  | none => (walUpd, allocUpd)
  | some (_, _, walRegs) => (walUpd, allocUpd || !walRegs.isEmpty)

/-- hash written into the free-list pages of the committed state `f` -/
def FileSt.flHash (f : FileSt) : Hash := TxVerif.flHash f.alloc.data.free f.alloc.mta.free

/-- the end of a successful commit that produces the committed state `F'` (`fl` = which internal pages are
    serialised): mapping pages, free-list pages, sync, header into the inactive slot (state id =
    transaction id), sync -/
def commitTailF (slot : Nat) (fl : Bool × Bool) (F' : FileSt) : List TOp :=
  (if fl.1 then F'.walPages.map (fun p => TOp.write p (mapHash F'.walMap)) else []) ++
  (if fl.2 then F'.alloc.freelistPages.map (fun p => TOp.write p F'.flHash) else []) ++
  [TOp.sync, TOp.hdr (1 - slot) F'.txid F'.txid, TOp.sync]

/-- the trace of `Tx.Commit` after the final flush, with `slot` the active header slot:
    copy-backs of the commit's checkpoint; if the commit succeeds the mapping pages, the free-list pages,
    sync, header, sync (a failing commit fails before it writes any of these) -/
def commitT (slot : Nat) (f : FileSt) (tx : TxSt) : List TOp :=
  (if commitCkpt f tx then doCheckpointT f tx else []) ++
  (if (commitAfterFlush f tx).2.1 = .ok then commitTailF slot (commitFlags f tx) (commitAfterFlush f tx).1 else [])

/-! ### committed states with the ghost data the crash model needs -/

/-- a committed state of the engine model as the crash model sees it -/
structure EngCS where
  f : FileSt
  live : List Nat                -- pages the client owns
  slot : Nat := 0                -- active header slot
  dfn : List Nat := []           -- owned pages whose content is defined (written at some time) and on file
  flh : Hash := 0                -- the hash the current free-list pages were written with
  pages : Nat → Option Hash      -- page contents of the file once every operation issued so far is applied

/-- the reach set of a committed state: physical pages (through the mapping, so overwrite pages for mapped
    pages) of the owned pages with defined content, mapping pages, free-list pages -/
def engReach (e : EngCS) : List (Nat × Hash) :=
  e.dfn.map (fun id => (e.f.physOf id, (e.f.readPage id).hash)) ++
  e.f.walPages.map (fun p => (p, mapHash e.f.walMap)) ++
  e.f.alloc.freelistPages.map (fun p => (p, e.flh))

/-- the image of a committed state of the model: internal pages carry their hashes, every other page the
    model's disk content -/
def engImg (f : FileSt) (flh : Hash) : Nat → Option Hash := fun p =>
  if p ∈ f.walPages then some (mapHash f.walMap)
  else if p ∈ f.alloc.freelistPages then some flh
  else some (f.diskAt p).hash

/-- a committed state of the model seen as a file: every owned page counts as defined -/
def EngCS.ofFile (f : FileSt) (live : List Nat) (slot : Nat) : EngCS :=
  { f, live, slot, dfn := live, flh := f.flHash, pages := engImg f f.flHash }

/-- the configuration of the crash model that represents a committed state: everything durable, the active
    slot holds (txid, state id = txid), the other slot is invalid -/
def EngCS.cfg (e : EngCS) : Cfg :=
  { durable := { pages := e.pages, slots := fun k => if k = e.slot then some (e.f.txid, e.f.txid) else none },
    pending := [], aSlot := e.slot, aTx := e.f.txid, aSt := e.f.txid, inflight := none }

end TxVerif
