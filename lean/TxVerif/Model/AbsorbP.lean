/-
  The PRECISE rule for absorbing the overflow area (go-txfile alloc.go `allocator.absorbOverflowArea`
  with the in-use meta pages handed in by `File.absorbOverflowArea`, file.go; called at the end of
  `File.init` and in `doGrowFile`).

  The first version of the rule (`Alloc.absorbOverflow`, Model/Alloc.lean: "data end below meta end and
  below the limit ⇒ data end := meta end") was wrong for an overflow area that lies completely beyond
  the limit while the data end marker has dropped below the limit again (frees at the end of the data
  area inside the overflow transaction): the instance that is never closed keeps handing out the
  pages between the data end and the limit, the reopened instance had lost them
  (`c10_gap_reachable`, Props/C10History.lean; replayed on the implementation, DESIGN.md 14.4).

  Precise rule: the data end marker is raised to the meta end marker iff some meta page (free or in
  use: free-list pages, mapping pages, overwrite pages) lies at or behind the data end marker AND in
  front of the limit (no limit: any such page) - exactly the pages a growing data area would run into.
-/
import TxVerif.Model.Engine
namespace TxVerif

/-- the meta pages the allocator / the file know of: free meta pages, free-list pages, mapping pages,
    overwrite pages (`a.meta.freelist.regions`, `a.freelistPages`, `wal.metaPages`, values of
    `wal.mapping`) -/
def FileSt.metaPages (f : FileSt) : List Nat :=
  f.alloc.mta.free ++ f.alloc.freelistPages ++ f.walPages ++ f.walMap.map (·.2)

/-- `absorbOverflowArea` raises the data end marker -/
def FileSt.needAbsorb (f : FileSt) : Bool :=
  decide (f.alloc.data.endMarker < f.alloc.mta.endMarker) &&
  f.metaPages.any fun p =>
    decide (f.alloc.data.endMarker ≤ p) && decide (p < f.alloc.mta.endMarker) &&
      (f.alloc.maxPages == 0 || decide (p < f.alloc.maxPages))

/-- `File.absorbOverflowArea` -/
def FileSt.absorbP (f : FileSt) : FileSt :=
  if f.needAbsorb then { f with alloc := { f.alloc with data := { f.alloc.data with endMarker := f.alloc.mta.endMarker } } }
  else f

/-- close + open (`File.init` + `reportOpen`) with the precise rule; replaces `FileSt.reopen` -/
def FileSt.reopenP (f : FileSt) : FileSt :=
  let fileEnd := max f.alloc.data.endMarker f.alloc.mta.endMarker
  { f.absorbP with statData := fileEnd - 2 - f.alloc.metaTotal - f.alloc.data.free.length }

end TxVerif
