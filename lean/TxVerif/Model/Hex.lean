import TxVerif.Model.Bytes
namespace TxVerif

def hexVal (c : Char) : Option Nat :=
  if '0' ≤ c ∧ c ≤ '9' then some (c.toNat - '0'.toNat)
  else if 'a' ≤ c ∧ c ≤ 'f' then some (c.toNat - 'a'.toNat + 10)
  else none

def parseHexAux : List Char → Bytes → Option Bytes
  | [], acc => some acc.reverse
  | [_], _ => none
  | a :: b :: rest, acc =>
    match hexVal a, hexVal b with
    | some x, some y => parseHexAux rest (UInt8.ofNat (x * 16 + y) :: acc)
    | _, _ => none

def parseHex (s : String) : Option Bytes :=
  if s == "-" then some [] else parseHexAux s.toList []

def hexDigit (n : Nat) : Char :=
  if n < 10 then Char.ofNat ('0'.toNat + n) else Char.ofNat ('a'.toNat + n - 10)

def toHex (b : Bytes) : String :=
  if b.isEmpty then "-" else
  String.ofList (b.flatMap fun x => [hexDigit (x.toNat / 16), hexDigit (x.toNat % 16)])

end TxVerif
