/-
  Text requests against the queue layout model, for the differential harness.

  `layoutsizes <P> <sizes> [<id0>]`
      `<sizes>`: comma separated event sizes (`-` for no event), `<id0>`: id of the first event
      (default 0, the id a fresh queue starts with).
      Result: the pages the model writer lays out for events of those sizes (contents zero bytes),
      one `first:last:off:payloadLen` per page in chain order, joined by single spaces; `-` if no
      page is written. `payloadLen` of the last page counts the bytes written so far (tail offset
      - 28), every other page is full (`P - 28`).
  `roundtripsizes <P> <sizes> [<id0>]`
      `ok` if the model reader parses the laid out chain back into the same events, else `fail`.
      (the model reader works byte by byte with list indexing: keep the total size small)
  `ackplan <P> <sizes> <endID>`
      the ACK plan (`collectFreePages` + head of `findNewStartPositions`) on the chain
      `layout P 0 sizes` (zero-filled events, first id 0) for `endID` = id of the first event that
      stays = number of acknowledged events.
      Result: `<freed> <cleanAll true|false> <newHeadFirst>`; `newHeadFirst` is the `first` field of
      the first kept page (the id of the new queue head), `-` if cleanAll or no page is left.
-/
import TxVerif.Model.PQLayout
import TxVerif.Model.PQAck
import TxVerif.Model.PQWriter
import TxVerif.Model.PQWriterFail
namespace TxVerif

def parseSizes (s : String) : Option (List Nat) :=
  if s == "-" || s.isEmpty then some [] else (s.splitOn ",").mapM String.toNat?

def fmtQPages (pages : List QPage) : String :=
  if pages.isEmpty then "-" else
  " ".intercalate (pages.map fun p => s!"{p.first}:{p.last}:{p.off}:{p.payload.length}")

/-- events of the given sizes, contents zero -/
def zeroEvents (sizes : List Nat) : List (List UInt8) := sizes.map fun n => List.replicate n 0

def pqArgs (args : List String) : Option (Nat × List Nat × Nat) :=
  match args with
  | [p, sizes] => do
      let P ← p.toNat?; let sz ← parseSizes sizes
      if P < 32 then none else pure (P, sz, 0)
  | [p, sizes, id0] => do
      let P ← p.toNat?; let sz ← parseSizes sizes; let i ← id0.toNat?
      if P < 32 then none else pure (P, sz, i)
  | _ => none

/-- `w<n>` = Write of n (zero) bytes, `n` = Next, `f` = Flush -/
def parseWOps (s : String) : Option (List WOp) :=
  (s.splitOn ",").mapM fun t =>
    if t == "n" then some WOp.next
    else if t == "f" then some WOp.flush
    else if t.startsWith "w" then (t.drop 1).toString.toNat?.map fun k => WOp.write (List.replicate k 0)
    else none

def parseFWOps (s : String) : Option (List FWOp) :=
  (s.splitOn ",").mapM fun t0 =>
    let bad := t0.endsWith "!"
    let o := if bad then FlushOutcome.commitFail else FlushOutcome.ok
    let t := if bad then t0.dropRight 1 else t0
    if t == "n" then some (FWOp.next o)
    else if t == "f" then some (FWOp.flush o)
    else if t.startsWith "w" then (t.drop 1).toString.toNat?.map fun k => FWOp.write (List.replicate k 0) o
    else none

/-- evaluate one queue-layout request; `none` = malformed request -/
def evalPQ (cmd : String) (args : List String) : Option String :=
  match cmd with
  | "layoutsizes" => do
      let (P, sz, id0) ← pqArgs args
      pure (fmtQPages (layout P id0 (zeroEvents sz)))
  | "roundtripsizes" => do
      let (P, sz, id0) ← pqArgs args
      let evs := zeroEvents sz
      pure (if parseChain P (layout P id0 evs) evs.length == some evs then "ok" else "fail")
  | "writerops" =>
      -- `writerops <P> <bufferPages> <ops>`: the calls on the writer model (Model/PQWriter.lean) of a fresh
      -- queue; result = what a reader that stops at the persisted tail sees + the tail position
      match args with
      | [p, pg, ops] => do
          let P ← p.toNat?; let pages ← pg.toNat?; let ws ← parseWOps ops
          if P < 64 then none else
          pure (" ".intercalate (runWriter P pages 0 ws).dump)
      | _ => none
  | "writeropsf" =>
      -- `writeropsf <P> <bufferPages> <ops>`: calls with failing flushes ("!": every I/O of a flush transaction
      -- started by this call fails = `commitFail`) on Model/PQWriterFail.lean; result = which calls return an
      -- error + what a reader sees at the end
      match args with
      | [p, pg, ops] => do
          let P ← p.toNat?; let pages ← pg.toNat?; let ws ← parseFWOps ops
          if P < 64 then none else
          let r := runWriterF P pages 0 ws
          let errs := String.join (r.2.1.map fun b => if b then "1" else "0")
          pure (s!"errs {errs} " ++ " ".intercalate r.1.dump)
      | _ => none
  | "ackplan" =>
      match args with
      | [p, sizes, e] => do
          let P ← p.toNat?; let sz ← parseSizes sizes; let endID ← e.toNat?
          if P < 32 then none else
          let pages := layout P 0 (zeroEvents sz)
          let plan := ackPlan pages endID
          let hd := if plan.2 then "-" else
            match pages.drop plan.1 with
            | [] => "-"
            | k :: _ => toString k.first
          pure s!"{plan.1} {plan.2} {hd}"
      | _ => none
  | _ => none

end TxVerif
