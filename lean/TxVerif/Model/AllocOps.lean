/-
  Transaction level operations on the allocator as one datatype, the run of an
  operation list, and the (decidable) well-formedness predicate of a quiescent
  allocator state. Used to state C04 / C07 / C11.
-/
import TxVerif.Model.Alloc
namespace TxVerif

/-- what a write transaction can ask the allocator for (tx.go / page.go call sites) -/
inductive AOp
  | allocData (n : Nat)        -- Tx.Alloc / AllocN
  | freeData (id : Nat)        -- Page.Free
  | walAlloc                   -- first flush of an overwritten page: overwrite page from the meta area
  | metaAlloc (n : Nat)        -- commit: pages for the serialised free list / mapping
  | metaFree (id : Nat)        -- release of an overwrite page or of an old meta page
  deriving Repr, DecidableEq, Inhabited

/-- failing operations leave the state unchanged (the code returns an error) -/
def AOp.apply (s : Alloc × TxAlloc) : AOp → Alloc × TxAlloc
  | .allocData n => match dataAllocRegions s.1 s.2 n with | some (a, st, _) => (a, st) | none => s
  | .freeData id =>
    -- callers only free pages they own (a live page of the committed state or a page
    -- allocated by this transaction): never a page of the meta area
    if 2 ≤ id ∧ id < s.1.data.endMarker ∧ !s.2.moveToMeta.contains id ∧ !s.1.mta.free.contains id ∧
       !s.2.mta.allocated.contains id ∧ !s.2.fromOverflow.contains id
    then dataFree s.1 s.2 id else s
  | .walAlloc => match TxVerif.walAlloc s.1 s.2 with | some (a, st, _) => (a, st) | none => s
  | .metaAlloc n => match metaAllocRegions s.1 s.2 n with | some (a, st, _) => (a, st) | none => s
  | .metaFree id => (s.1, metaFreeId s.2 id)

def runAOps (s : Alloc × TxAlloc) (ops : List AOp) : Alloc × TxAlloc := ops.foldl AOp.apply s

def ascB : List Nat → Bool
  | [] => true
  | [_] => true
  | x :: y :: r => x < y && ascB (y :: r)

/-- well-formedness of the allocator between transactions (no shrink in progress):
    free lists ascending, data free pages inside the data area, meta free pages
    either inside the data area or in the overflow area past the page limit,
    the two free lists disjoint, the end marker within the limit -/
def allocWF (a : Alloc) : Bool :=
  ascB a.data.free && ascB a.mta.free &&
  a.data.free.all (fun x => 2 ≤ x && x < a.data.endMarker) &&
  a.mta.free.all (fun x => 2 ≤ x && x < a.mta.endMarker && (x < a.data.endMarker || (0 < a.maxPages && a.maxPages ≤ x))) &&
  a.data.free.all (fun x => !a.mta.free.contains x) &&
  2 ≤ a.data.endMarker &&
  (a.maxPages == 0 || a.data.endMarker ≤ a.maxPages) &&
  a.mta.free.length ≤ a.metaTotal

end TxVerif
