/-
  The background writer of go-txfile (write.go): scheduled page writes are
  executed in batches; a batch never crosses a sync; each batch is sorted by
  page id before it is written. The model applies writes to a disk (page id ↦
  content) and is parametric in how the queue is cut into batches.
-/
namespace TxVerif

abbrev WDisk (γ : Type) := Nat → Option γ

def applyWrite {γ} (d : WDisk γ) (w : Nat × γ) : WDisk γ := fun p => if p = w.1 then some w.2 else d p

def applyWrites {γ} (d : WDisk γ) (ws : List (Nat × γ)) : WDisk γ := ws.foldl applyWrite d

/-- insertion sort by page id; `≤` keeps equal ids in queue order (stable, `sort.SliceStable`) -/
def insertById {γ} (w : Nat × γ) : List (Nat × γ) → List (Nat × γ)
  | [] => [w]
  | x :: xs => if w.1 < x.1 then w :: x :: xs else x :: insertById w xs

def stableSortById {γ} (ws : List (Nat × γ)) : List (Nat × γ) := ws.foldl (fun acc w => insertById w acc) []

/-- the writer executes the queue batch by batch, each batch stably sorted by id -/
def runBatches {γ} (d : WDisk γ) (batches : List (List (Nat × γ))) : WDisk γ :=
  batches.foldl (fun d b => applyWrites d (stableSortById b)) d

/-- the last write to page `p` in a list, if any -/
def lastWrite {γ} (ws : List (Nat × γ)) (p : Nat) : Option γ := (ws.reverse.find? (·.1 == p)).map (·.2)

end TxVerif
