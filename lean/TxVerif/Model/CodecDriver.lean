/-
  Text requests against the codec model, so that the Go harness can compare
  the model with the real code (region.go, freelist.go, wal.go, util.go).

    encregion <0|1> <id> <count>       → lowercase hex of encodeRegion
    decregion <hex>                    → <0|1> <id> <count> <consumed>
    predictfl <pageSize> <counts>      → pages predicted by freelistEncPagePrediction for
                                         regions with these counts (in this order) plus the
                                         two dummy max-size regions added when the
                                         prediction is > 0 (alloc.go fileCommitAlloc);
                                         <counts> = `-` (none) or numbers separated by `,` (or `-`)
    writefl <pageSize> <ids> <meta> <data>
                                       → `id=hex;id=hex;…` pages in write order, or `error`;
                                         <ids> = `3,4,9` or `-`; <meta>/<data> = `id:count,…` or `-`
    writewal <pageSize> <ids> <mapping>→ same for writeWAL; <mapping> = `key:value,…` (iteration order) or `-`
-/
import TxVerif.Model.Codec
import TxVerif.Model.Alloc
import TxVerif.Model.Hex
namespace TxVerif

/-- numbers separated by `,` or `-`; a lone `-` is the empty list -/
def parseNatList (s : String) : Option (List Nat) :=
  if s == "-" then some [] else
  ((s.split (fun c => c == ',' || c == '-')).toList.map (·.toString) |>.filter (fun t => !t.isEmpty)).mapM String.toNat?

/-- `a:b,c:d` or `-` -/
def parseNatPairs (s : String) : Option (List (Nat × Nat)) :=
  if s == "-" then some [] else
  (s.splitOn ",").mapM fun part =>
    match part.splitOn ":" with
    | [a, b] => do let x ← a.toNat?; let y ← b.toNat?; pure (x, y)
    | _ => none

/-- `freelistEncPagePrediction` over regions with the given counts, including
    the two dummy max-size regions added when the prediction is > 0 -/
def predictPagesForCounts (pageSize : Nat) (counts : List Nat) : Nat :=
  let payload := pageSize - listHdrSize
  let st := counts.foldl (predictStep payload) (0, 0)
  if st.1 > 0 then (predictStep payload (predictStep payload st 4294967295) 4294967295).1 else 0

def fmtPages : Option (List (Nat × Bytes)) → String
  | none => "error"
  | some ps => if ps.isEmpty then "-" else ";".intercalate (ps.map fun p => s!"{p.1}={toHex p.2}")

def evalCodec (cmd : String) (args : List String) : Option String :=
  match cmd, args with
  | "encregion", [m, id, count] => do
      let isMeta ← (if m == "1" then some true else if m == "0" then some false else none)
      let id ← id.toNat?; let count ← count.toNat?
      pure (toHex (encodeRegion isMeta ⟨id, count⟩))
  | "decregion", [h] => do
      let b ← parseHex h
      -- the Go code panics on a buffer that is too short
      if b.length < 8 then none else
      let (isMeta, r, n) := decodeRegion b
      if b.length < n then none else
      pure s!"{if isMeta then 1 else 0} {r.id} {r.count} {n}"
  | "predictfl", [ps, counts] => do
      let ps ← ps.toNat?; let counts ← parseNatList counts
      pure (toString (predictPagesForCounts ps counts))
  | "writefl", [ps, ids, ml, dl] => do
      let ps ← ps.toNat?; let ids ← parseNatList ids
      let ml ← parseNatPairs ml; let dl ← parseNatPairs dl
      pure (fmtPages (writeFreeLists ps ids (ml.map fun p => ⟨p.1, p.2⟩) (dl.map fun p => ⟨p.1, p.2⟩)))
  | "writewal", [ps, ids, mapping] => do
      let ps ← ps.toNat?; let ids ← parseNatList ids; let mapping ← parseNatPairs mapping
      pure (fmtPages (writeWal ps ids mapping))
  | _, _ => none

end TxVerif
