/-
  The queue root header at the level of event ids (pq/layout.go queuePage, pq/pq.go Pending,
  pq/ack.go Active, pq/writer.go updateRootHdr, pq/ack.go cleanup, pq/reader.go Available).
  Event ids start at 0; `F` events have been flushed, `A` acknowledged.
-/
namespace TxVerif

structure QHdr where
  headId : Nat := 0
  readId : Nat := 0
  tailId : Nat := 0
  headSet : Bool := false    -- head.offset ≠ 0
  readSet : Bool := false    -- read.offset ≠ 0
  tailSet : Bool := false    -- tail.offset ≠ 0
  deriving Repr, DecidableEq, Inhabited

/-- id of the first event that is not acknowledged: `read` if set, else `head` -/
def QHdr.startId (h : QHdr) : Nat := if h.readSet then h.readId else h.headId

/-- `Queue.Pending` -/
def QHdr.pending (h : QHdr) : Nat := h.tailId - h.startId
/-- `acker.Active` -/
def QHdr.active (h : QHdr) : Nat := if !h.tailSet then 0 else h.tailId - h.startId

/-- `Writer.updateRootHdr` after a flush that made `k > 0` further events durable; `firstId` is the
    id of the first event in the first flushed page -/
def QHdr.flush (h : QHdr) (firstId k : Nat) : QHdr :=
  if k = 0 then h else
  { h with headId := if h.headSet then h.headId else firstId, headSet := true, tailId := h.tailId + k, tailSet := true }

/-- `acker.cleanup` for `n > 0` events; `newHead` = first id of the page that is kept;
    `cleanAll`: every flushed event was acknowledged and head = read = tail -/
def QHdr.ack (h : QHdr) (n newHead : Nat) (cleanAll : Bool) : QHdr :=
  if n = 0 then h else
  if cleanAll then { h with headId := h.tailId, readId := h.tailId, headSet := true, readSet := true }
  else { h with headId := newHead, readId := h.startId + n, headSet := true, readSet := true }

/-- the header describes `F` flushed and `A` acknowledged events -/
def HdrInv (h : QHdr) (F A : Nat) : Prop :=
  h.tailId = F ∧ h.startId = A ∧ A ≤ F ∧ (h.tailSet = false → F = 0) ∧ (h.headSet = true → h.headId ≤ A) ∧
  (h.headSet = false → h.readSet = false ∧ h.headId = 0)

instance (h : QHdr) (F A : Nat) : Decidable (HdrInv h F A) := by unfold HdrInv; infer_instance

/-- reader bookkeeping: `id` = next event to deliver, `endId` = tail id seen -/
structure RdSt where
  id : Nat
  endId : Nat
  deriving Repr, DecidableEq, Inhabited

def RdSt.available (r : RdSt) : Nat := r.endId - r.id

end TxVerif
