/-
  Producer and consumer on one queue: what the producer can do to the page chain between the
  read transaction in which an ACK is planned (`acker.initACK`) and the write transaction in
  which the plan is applied (`acker.cleanup`, which applies the plan WITHOUT re-checking it).

  A flush (`Writer.doFlush`) writes the pages `buffer.Pages()` hands out: the buffer's head page,
  which is the on-disk last page of the chain (kept by `buffer.Reset` "for linking"), and the
  pages behind it.  The pages before the on-disk last page are not in the buffer any more and
  are never written again.  For the last page the flush can change
    * the `next` link (`linkPages`; 0 before, the first appended page afterwards),
    * the payload: bytes are only appended (`buffer.Append`, `ReserveHdr`; `EndOff` grows),
    * `last` (`CommitEvent`: `LastID = id`, ids increase),
    * `first`/`off` only if no event header started in the page so far (`CommitEvent`:
      `if meta.FirstOff == 0 { FirstOff = …; FirstID = id }`).
  `updateRootHdr` sets `tail` and sets `head` only if `head.offset == 0` (queue never written);
  otherwise the head position is changed by `acker.cleanup` only (one consumer).
-/
import TxVerif.Model.PQAck
namespace TxVerif

/-- the on-disk last page `l` and the page `l'` a later flush writes in its place -/
def Grows (l l' : QPage) : Prop :=
  l.payload <+: l'.payload ∧
  (l.off ≠ 0 → l'.off = l.off ∧ l'.first = l.first ∧ l.last ≤ l'.last)

/-- one flush: all pages but the last are kept, the last page is rewritten (`Grows`), pages are
    appended behind it.  (A flush of an empty queue creates the chain; `initACK` rejects an empty
    queue with `ACKEmptyQueue`, so there is no plan that could become stale.) -/
def Flush (old new : List QPage) : Prop :=
  ∃ (done : List QPage) (l l' : QPage) (app : List QPage),
    old = done ++ [l] ∧ new = done ++ l' :: app ∧ Grows l l'

/-- zero or more flushes -/
inductive Extends : List QPage → List QPage → Prop
  | refl (c : List QPage) : Extends c c
  | flush (a b c : List QPage) : Extends a b → Flush b c → Extends a c

/-- `Flush`, page by page (the form used in the proofs; `chainExt_iff_flush`) -/
inductive ChainExt : List QPage → List QPage → Prop
  | last (l l' : QPage) (app : List QPage) : Grows l l' → ChainExt [l] (l' :: app)
  | cons (p : QPage) (ps qs : List QPage) : ChainExt ps qs → ChainExt (p :: ps) (p :: qs)

/-- `acker.cleanup`: the chain after the first `k` pages have been freed and the head moved -/
def applyAck (pages : List QPage) (k : Nat) : List QPage := pages.drop k

/-- A position `(page, off)` of the plan, as page index + offset.  The stale state `st` (computed
    on `old`) and the state `st'` (computed on `new`) denote the same positions: same number of
    freed pages, same head page index/offset/id, same read page index/offset. -/
def SamePositions (old new : List QPage) (st st' : AckState) : Prop :=
  st'.freed = st.freed ∧ st'.headOff = st.headOff ∧ st'.headId = st.headId ∧ st'.readOff = st.readOff ∧
  st.headPages = old.drop st.freed ∧ st'.headPages = new.drop st.freed ∧
  ∃ j, st.freed ≤ j ∧ j < old.length ∧ st.readPages = old.drop j ∧ st'.readPages = new.drop j

end TxVerif
