/-
  Crash model of the commit protocol WITH FAILING SYNCS (property C08, I/O failures;
  tx.go tryCommitChanges / syncNewMeta / restoreMeta of the repaired implementation).
  Builds on Model/Crash.lean (`Img`, `TOp`, `applyOp`, `tearOp`, `CrashImg`, `recover`,
  `Cfg`, `Cfg.step`), which is left untouched.

  New in the trace language (`FOp`):
    * `syncFail`  a sync that reports an error. Nothing is known about what became durable:
                  the new durable image is ANY crash image of the pending operations (any subset,
                  in order, header writes possibly torn) and the pending list is emptied - the
                  operations are NOT retried by a later sync (pessimistic fsync semantics).
    * `restore s t st`  `restoreMeta`: before a commit writes its header into the inactive slot
                  `s' = 1 - s` the engine saves the contents of that slot (the header before the
                  active one); when the final sync fails it writes exactly the saved contents
                  back into `s'` and syncs. As a file operation this is `hdr s' t_prev st_prev`.

  Two layers:
    * `FCfg` / `FCfg.step` / `FCfg.run`: the EXECUTABLE discipline ("acceptor"). It does not
      know what a failed sync made durable, so it works on knowledge: `base.durable` is the
      image as far as known, `unk` marks the pages whose durable content is not known (touched
      by an operation that was pending at a failed sync and not yet rewritten by a completed
      sync), `phase` tracks the failure path of the final sync.
    * `DurStep` / `Exec`: the real file. The durable image evolves nondeterministically at a
      failing sync. Proofs/CrashFail.lean relates the two (`FSafe`), Props/C08Crash.lean states
      crash safety for every execution of every accepted trace.

  THE DISCIPLINE FOR THE FAILURE PATH (what `FCfg.step` accepts):
    F1  data sync fails (no header in flight): allowed, the committed state is unchanged; every
        page touched by a pending operation becomes `unk`; a header may only be written for a
        state none of whose pages is `unk` (so the failed transaction cannot simply go on to
        its header: it has to be rolled back, or its pages rewritten and synced).
    F2  final sync fails (header in flight): phase `failed st'`. From here until a restore has
        been synced SUCCESSFULLY nothing is accepted except
           restore (1 - aSlot) t_prev st_prev      -- exactly the saved contents of that slot
           sync | syncFail                           -- directly after the restore
        in particular NO page write, NO truncate, NO new header. If the restore's sync fails
        too, the phase is `failed st'` again: the restore must be repeated, or the file is
        closed (the trace ends). See Props/C08Crash.lean for the counterexample showing that
        carrying on after a failed restore is not crash safe.
    F3  restore + successful sync: back to `normal`, committed (aSlot, aTx, aSt) unchanged,
        nothing in flight, the failed attempt is abandoned; the next commit uses the same
        slot `1 - aSlot` and the same transaction id `aTx + 1` again and may overwrite or
        truncate the pages of the failed attempt.
-/
import TxVerif.Model.Crash
namespace TxVerif

inductive FOp
  | op (o : TOp)                          -- an operation of Model/Crash.lean; `.op .sync` is a sync that succeeds
  | syncFail                              -- a sync that fails
  | restore (slot txid st : Nat)          -- restoreMeta: the saved old contents of the slot are written back
  deriving Repr, DecidableEq, Inhabited

/-- executable version of `touches`: the operation changes page `q` -/
def touchesB : TOp → Nat → Bool
  | .write p _, q => p == q
  | .trunc n, q => decide (n ≤ q)
  | _, _ => false

inductive Phase
  | normal                        -- as in Model/Crash.lean (`base.inflight` tells whether a header is in flight)
  | failed (st' : Nat)            -- the final sync of the commit to `st'` failed; its header may be durable; restore is due
  | restoring (st' : Nat)         -- the restore header is written and not synced yet
  deriving Repr, DecidableEq, Inhabited

structure FCfg where
  base : Cfg
  unk : Nat → Bool := fun _ => false
  phase : Phase := .normal

/-- the state a crash may recover to besides the committed one -/
def FCfg.pendingSt (c : FCfg) : Option Nat :=
  match c.phase with
  | .normal => c.base.inflight
  | .failed s => some s
  | .restoring s => some s

/-- the state named by a header that may be DURABLE although its commit failed -/
def FCfg.ghost (c : FCfg) : Option Nat :=
  match c.phase with
  | .normal => none
  | .failed s => some s
  | .restoring s => some s

/-- pages still unknown after a completed sync: a pending write / truncate fixes the content -/
def FCfg.syncedUnk (c : FCfg) : Nat → Bool := fun q => c.unk q && !c.base.pending.any (touchesB · q)

/-- pages unknown after a failed sync: everything a pending operation touched -/
def FCfg.failedUnk (c : FCfg) : Nat → Bool := fun q => c.unk q || c.base.pending.any (touchesB · q)

/-- F2: the restore writes exactly what the inactive slot held before the failed commit
    (the known image is not changed by failing syncs, so that is `base.durable.slots`) -/
def FCfg.restoreStep (c : FCfg) (s t st : Nat) : Option FCfg :=
  match c.phase with
  | .failed st' =>
    if s == 1 - c.base.aSlot && c.base.durable.slots (1 - c.base.aSlot) == some (t, st) then
      some { c with base := { c.base with pending := [.hdr s t st] }, phase := .restoring st' }
    else none
  | _ => none

/-- the extended discipline: `none` = the trace violates it -/
def FCfg.step (reachOf : Nat → List (Nat × Hash)) (c : FCfg) : FOp → Option FCfg
  | .op (.write p h) =>
    match c.phase with
    | .normal => (c.base.step reachOf (.write p h)).map fun b => { c with base := b }
    | _ => none
  | .op (.trunc n) =>
    match c.phase with
    | .normal => (c.base.step reachOf (.trunc n)).map fun b => { c with base := b }
    | _ => none
  | .op (.hdr s t st) =>
    match c.phase with
    | .normal =>
      -- F1: additionally none of the pages of the new state may be of unknown durable content
      if (reachPages (reachOf st)).all (fun p => !c.unk p) then
        (c.base.step reachOf (.hdr s t st)).map fun b => { c with base := b }
      else none
    | .failed _ => c.restoreStep s t st     -- a log that does not mark restores: the header write is the restore
    | .restoring _ => none
  | .op .sync =>
    match c.phase with
    | .normal => (c.base.step reachOf .sync).map fun b => { c with base := b, unk := c.syncedUnk }
    | .failed _ => none
    | .restoring _ =>
      -- F3
      some { base := { c.base with durable := c.base.pending.foldl applyOp c.base.durable, pending := [], inflight := none },
             unk := c.syncedUnk, phase := .normal }
  | .syncFail =>
    match c.phase with
    | .normal =>
      match c.base.inflight with
      | none => some { c with base := { c.base with pending := [] }, unk := c.failedUnk }
      | some st' => some { base := { c.base with pending := [], inflight := none }, unk := c.failedUnk, phase := .failed st' }
    | .failed _ => none
    | .restoring st' => some { c with base := { c.base with pending := [] }, unk := c.failedUnk, phase := .failed st' }
  | .restore s t st => c.restoreStep s t st

def FCfg.run (reachOf : Nat → List (Nat × Hash)) (c : FCfg) : List FOp → Option FCfg
  | [] => some c
  | op :: ops => match c.step reachOf op with | none => none | some c' => c'.run reachOf ops

/-- what one operation does to the REAL durable image `d` (pending operations are `c.base.pending`) -/
def DurStep (c : FCfg) (d : Img) : FOp → Img → Prop
  | .op .sync, d' => d' = c.base.pending.foldl applyOp d
  | .syncFail, d' => CrashImg d c.base.pending d'
  | _, d' => d' = d

/-- `Exec stp c d ops c' d'`: the acceptor `stp` walks `ops` from `c` to `c'` while the real durable
    image goes from `d` to `d'` (one of the possible outcomes of the failing syncs) -/
inductive Exec (stp : FCfg → FOp → Option FCfg) : FCfg → Img → List FOp → FCfg → Img → Prop
  | nil (c : FCfg) (d : Img) : Exec stp c d [] c d
  | cons {c d op c1 d1 ops c2 d2} : stp c op = some c1 → DurStep c d op d1 → Exec stp c1 d1 ops c2 d2 →
      Exec stp c d (op :: ops) c2 d2

/-- the operation is not a header write (neither a commit's nor a restore) -/
def FOp.noHdr : FOp → Bool
  | .op (.hdr _ _ _) => false
  | .restore _ _ _ => false
  | _ => true

/-- a configuration of Model/Crash.lean as a configuration of the extended discipline -/
def FCfg.ofCfg (c : Cfg) : FCfg := { base := c }

/-- NOT CRASH SAFE variant, used for the counterexample only: when no restore has been synced the engine
    gives up (or never tries) and carries on as if the failed commit were simply gone -/
def FCfg.stepLax (reachOf : Nat → List (Nat × Hash)) (c : FCfg) (op : FOp) : Option FCfg :=
  match c.step reachOf op with
  | some c' => some c'
  | none =>
    match c.phase with
    | .failed _ => ({ c with phase := .normal } : FCfg).step reachOf op
    | _ => none

def FCfg.runLax (reachOf : Nat → List (Nat × Hash)) (c : FCfg) : List FOp → Option FCfg
  | [] => some c
  | op :: ops => match c.stepLax reachOf op with | none => none | some c' => c'.runLax reachOf ops

end TxVerif
