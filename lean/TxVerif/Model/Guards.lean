/-
  The guards at the top of the API methods of Tx and Page (tx.go canRead/canWrite/finishWith,
  page.go canRead/canWrite): which error an operation on a given lifecycle state returns
  before it touches any state.
-/
import TxVerif.Model.Engine
namespace TxVerif

structure TxFlags where
  active : Bool
  readonly : Bool
  deriving Repr, DecidableEq, Inhabited

/-- `Tx.canRead` -/
def txCanRead (fl : TxFlags) : Option Err := if !fl.active then some .finished else none

/-- `Tx.canWrite`: the read-only check overrides the finished check -/
def txCanWrite (fl : TxFlags) : Option Err :=
  if fl.readonly then some .readonly else if !fl.active then some .finished else none

inductive TxMethod | commit | rollback | close | checkpoint | flush | alloc | allocN | page | rootPage
  deriving Repr, DecidableEq, Inhabited

/-- the error returned by the guard of a Tx method (`none`: the guard lets the call through;
    `close` on a finished transaction is a documented no-op) -/
def txGuard : TxMethod → TxFlags → Option Err
  | .commit, fl | .rollback, fl => if !fl.active then some .finished else none      -- finishWith
  | .close, _ => none
  | .checkpoint, fl | .flush, fl | .alloc, fl | .allocN, fl => txCanWrite fl
  | .page, fl | .rootPage, fl => txCanRead fl                                        -- getPage

structure PageFlags where
  new_ : Bool
  freed : Bool
  flushed : Bool
  dirty : Bool
  hasBytes : Bool
  deriving Repr, DecidableEq, Inhabited

inductive PageMethod | markDirty | load | setBytes | setBytesOversize | flush | free | bytes
  deriving Repr, DecidableEq, Inhabited

/-- `Page.canWrite` -/
def pageCanWriteG (fl : TxFlags) (p : PageFlags) : Option Err :=
  match txCanWrite fl with
  | some e => some e
  | none => if p.freed || p.flushed then some .invalidop else none

def pageGuard : PageMethod → TxFlags → PageFlags → Option Err
  | .markDirty, fl, p | .load, fl, p | .setBytes, fl, p | .flush, fl, p => pageCanWriteG fl p
  | .setBytesOversize, fl, p => match pageCanWriteG fl p with | some e => some e | none => some .param
  | .free, fl, p => match pageCanWriteG fl p with | some e => some e | none => if p.dirty then some .invalidop else none
  | .bytes, fl, p => match txCanRead fl with | some e => some e | none => if !p.hasBytes && p.new_ then some .invalidop else none

end TxVerif
