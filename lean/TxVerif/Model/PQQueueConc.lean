/-
  One producer thread and one consumer thread on one queue: small-step semantics over `PQState`
  (Model/PQQueue.lean) with the transaction lock of txfile (`LockSt`, Model/Lock.lean).  C13.

  Threads.  The producer (thread `false`) runs a program of `write | next | flush` calls, the consumer (thread
  `true`) a program of `rbegin | available | rnext | rread | rdone | ack | counters` calls.  One thread takes one
  atomic step at a time; a schedule is a list of thread ids.

  Atomic steps, as in the implementation (pq/writer.go, reader.go, ack.go; file.go `beginTx`, tx.go
  `tryCommitChanges`, lock.go):
  * a producer call that starts no transaction is ONE step: `Write`/`Next` that do not flush, and any call whose
    flush has nothing to write (`doFlush` returns before `BeginWrite`: `flushRange` empty).  The write buffer is
    private to the producer.
  * a producer call that flushes (`PQState.needsTx`): `pBegin` = `BeginWrite`, takes the reserved lock, blocks
    while it is held (by an ACK) - the writer lock serialises flush and ACK; `pPending` = `pending.Lock` (from
    now on no new read transaction starts); `pCommit` = `exclusive.Lock` - blocks while a read transaction is
    active - then the meta switch, unlock, and the rest of the call.  The effect of the call on the shared
    state (page chain, root header) happens at `pCommit`; everything before works on the private buffer and on
    the transaction's private pages (root header read under the reserved lock: no ACK can commit in between).
  * `rbegin` = `BeginReadonly`: `shared.Lock`, blocks while a commit is pending.  `rdone` releases it.  The
    calls inside a session (`available`, `rnext`, `rread`) are one step each and read the current state:
    because a commit needs the exclusive lock, NO transaction commits while the session is open, so the
    session's snapshot (txfile readers see the state of their begin, Props/C02) IS the current state; the
    reader refreshes its `endID` from the root header of that state (`updateQueueState`), so events flushed
    after `rdone` are seen by the next session (and a flush cannot commit during a session).
  * `ack n` (`n > 0`): `cPlan` = `initACK`: a read transaction (blocks while a commit is pending) in which the
    range check (`ACKEmptyQueue`, `ACKTooMany`) is made and the plan - pages to free, new head and read
    positions as page id + offset - is computed; the read transaction spans no other step of this thread and
    nothing can commit during it: one step.  Then `cleanup`: `cBegin` (reserved lock), `cPending`, `cCommit`
    (exclusive lock) applies the plan - WITHOUT re-checking it - to the root header as it is then
    (`inuse` is read in the write transaction).  A flush may commit between `cPlan` and `cBegin`: the plan is
    stale (Props/C13Stale.lean); `PQState.ackApply` applies exactly the recorded positions.
  * `counters` (`Pending`, `Active`): short read transactions, one step, blocks while a commit is pending.
  * Contract of the consumer beyond `ASpec`: no `counters` and no `ack n` (`n > 0`) INSIDE its read session: these
    calls begin a transaction of their own, which waits while a commit is pending, while that commit waits for
    the session to end - the implementation deadlocks there (nested read transaction against a pending
    writer).  The model marks such a call `bad`.

  Ghost state: `a : ASpec` is the specification state along the linearization `lin` (every call with the
  flush oracle and the result the specification gives, in linearization order): a call without transaction
  linearizes at its step, a flushing call at `pCommit`, an accepted ACK at `cCommit`, a rejected ACK at `cPlan`.
  `bad` is set when a thread leaves its contract (the specification rejects its call, or the call does not
  belong to the thread's role); a `bad` system does not step.

  The specification for two threads (`ASpec.stepL`): consumer calls as in `ASpec.step`; producer calls as in
  `ASpec.step` but WITHOUT the sequential restriction "no producer call inside a read session" (that
  restriction only says that a single thread would block; here the flushing call simply waits for `rdone`).
-/
import TxVerif.Model.PQQueue
import TxVerif.Model.PQWriterFail
import TxVerif.Model.Lock
namespace TxVerif

/-! ## ACK in two phases -/

/-- the plan of `initACK` with positions as page index + offset, as recorded at plan time -/
structure AckPlanI where
  freed : Nat
  headIdx : Nat
  headOff : Nat
  headId : Nat
  readIdx : Nat
  readOff : Nat
  readId : Nat
  deriving Repr, DecidableEq, Inhabited

/-- `initACK(n)` for `n > 0`: the error of the range check, or the plan -/
def PQState.ackPlanI (c : QCfg) (q : PQState) (n : Nat) : Except QErr AckPlanI :=
  if !q.hdr.headSet && !q.hdr.readSet then .error .ackEmpty else
  if n > q.hdr.tailId - q.hdr.startId then .error .ackTooMany else
  let endID := q.hdr.startId + n
  let chain := q.from q.headPos.1
  let plan := ackPlan chain endID
  if plan.2 then
    .ok ⟨plan.1, q.w.persisted.length - 1, q.w.tailOff, q.hdr.tailId, q.w.persisted.length - 1, q.w.tailOff, q.hdr.tailId⟩
  else
    match ackInit c.P chain endID with
    | none => .error .readFail
    | some st =>
      .ok ⟨st.freed, q.headPos.1 + st.freed, st.headOff, st.headId, q.idxOf st.readPages, st.readOff, q.hdr.startId + n⟩

/-- `cleanup`: the write transaction applies the plan -/
def PQState.ackApply (q : PQState) (n : Nat) (p : AckPlanI) : PQState :=
  { q with hdr := { q.hdr with headId := p.headId, readId := p.readId, headSet := true, readSet := true },
           headPos := (p.headIdx, p.headOff), readPos := (p.readIdx, p.readOff),
           inuse := q.inuse - p.freed, totAcked := q.totAcked + n, totFreed := q.totFreed + p.freed }

/-! ## the two-thread system -/

inductive PPc where
  | idle | active | pending
  deriving Repr, DecidableEq, Inhabited

inductive CPc where
  | idle
  | planned (p : AckPlanI)
  | active (p : AckPlanI)
  | pending (p : AckPlanI)
  deriving Repr, DecidableEq, Inhabited

/-- a linearized call: thread, call, flush oracle, result -/
structure LinEv where
  tid : Bool
  op : QOp
  fl : Bool
  out : QOut
  deriving Repr, DecidableEq

structure CState where
  q : PQState
  lock : LockSt := {}
  pp : PPc := .idle
  cp : CPc := .idle
  /-- the calls still to be made (the head is the call in progress, if any) -/
  progP : List QOp
  progC : List QOp
  /-- the results the threads have seen -/
  outP : List QOut := []
  outC : List QOut := []
  a : ASpec := {}
  lin : List LinEv := []
  bad : Bool := false

def QOp.isProducer : QOp → Bool
  | .write _ | .next | .flush => true
  | _ => false

def QOp.isConsumer : QOp → Bool
  | .rbegin | .available | .rnext | .rread _ | .rdone | .ack _ | .counters => true
  | _ => false

/-- producer calls: the specification step without the sequential "not inside a read session" restriction -/
def ASpec.pstep (a : ASpec) (op : QOp) (fl : Bool) : Option (ASpec × QOut) :=
  (({ a with inRead := false } : ASpec).step op fl).map fun r => ({ r.1 with inRead := a.inRead }, r.2)

/-- the specification for two threads -/
def ASpec.stepL (a : ASpec) (tid : Bool) (op : QOp) (fl : Bool) : Option (ASpec × QOut) :=
  if tid then (if op.isConsumer then a.step op fl else none)
  else (if op.isProducer then a.pstep op fl else none)

/-- the specification accepts the linearization and gives these results -/
def ASpec.runLin : ASpec → List LinEv → Option ASpec
  | a, [] => some a
  | a, e :: es =>
    match a.stepL e.tid e.op e.fl with
    | none => none
    | some (a1, o) => if o = e.out then ASpec.runLin a1 es else none

/-- does the call start a write transaction (a flush that has pages to write)? -/
def PQState.needsTx (c : QCfg) (q : PQState) : QOp → Bool
  | .write p => decide (q.w.avail ≤ p.length) && !(flushRange q.w).isEmpty
  | .next => decide ((q.w.nextCore c.S).avail ≤ 4) && !(flushRange (q.w.nextCore c.S)).isEmpty
  | .flush => !(flushRange q.w).isEmpty
  | _ => false

def CState.init (c : QCfg) (progP progC : List QOp) : CState :=
  { q := PQState.init c, progP := progP, progC := progC }

/-- the call `op` of thread `tid` takes effect now: model step, result, linearization -/
def CState.linearize (c : QCfg) (s : CState) (tid : Bool) (op : QOp) (q' : PQState) (o : QOut) : CState :=
  let fl := s.q.autoFlush c op
  match s.a.stepL tid op fl with
  | none => { s with bad := true }
  | some (a', _) =>
    if tid then
      { s with q := q', a := a', lin := s.lin ++ [⟨tid, op, fl, o⟩], progC := s.progC.tail, outC := s.outC ++ [o] }
    else
      { s with q := q', a := a', lin := s.lin ++ [⟨tid, op, fl, o⟩], progP := s.progP.tail, outP := s.outP ++ [o] }

/-- one step of the producer, `none` if it is blocked or finished -/
def CState.stepP (c : QCfg) (s : CState) : Option CState :=
  match s.progP with
  | [] => none
  | op :: _ =>
    if !op.isProducer then some { s with bad := true } else
    match s.pp with
    | .idle =>
      if s.q.needsTx c op then
        -- pBegin: BeginWrite
        if s.lock.reserved then none else some { s with lock := { s.lock with reserved := true }, pp := .active }
      else some (s.linearize c false op (s.q.step c op).1 (s.q.step c op).2)
    | .active => some { s with lock := { s.lock with pending := true }, pp := .pending }
    | .pending =>
      -- pCommit: exclusive lock, switch, unlock
      if s.lock.shared ≠ 0 then none else
      some (({ s with lock := { s.lock with pending := false, reserved := false }, pp := .idle } : CState).linearize c
        false op (s.q.step c op).1 (s.q.step c op).2)

/-- one step of the consumer -/
def CState.stepC (c : QCfg) (s : CState) : Option CState :=
  match s.progC with
  | [] => none
  | op :: _ =>
    if !op.isConsumer then some { s with bad := true } else
    match s.cp with
    | .idle =>
      match op with
      | .rbegin =>
        if s.q.r.inTx then some (s.linearize c true op (s.q.step c op).1 (s.q.step c op).2)
        else if s.lock.pending then none
        else some (({ s with lock := { s.lock with shared := s.lock.shared + 1 } } : CState).linearize c true op
          (s.q.step c op).1 (s.q.step c op).2)
      | .rdone =>
        some (({ s with lock := { s.lock with shared := if s.q.r.inTx then s.lock.shared - 1 else s.lock.shared } } : CState).linearize
          c true op (s.q.step c op).1 (s.q.step c op).2)
      | .counters =>
        -- `Pending()`/`Active()` start read transactions of their own: inside a read session they would wait
        -- for a pending commit that waits for this session (deadlock): out of contract
        if s.q.r.inTx then some { s with bad := true } else
        if s.lock.pending then none else some (s.linearize c true op (s.q.step c op).1 (s.q.step c op).2)
      | .ack n =>
        if n = 0 then some (s.linearize c true op (s.q.step c op).1 (s.q.step c op).2) else
        -- the same for the transactions of an ACK inside the session (also rejected by the specification)
        if s.q.r.inTx then some { s with bad := true } else
        if s.lock.pending then none else
        -- cPlan: initACK in a read transaction
        match s.q.ackPlanI c n with
        | .error e => some (s.linearize c true op s.q (.err e))
        | .ok p =>
          -- the contract is checked where the call starts
          if (s.a.stepL true op false).isNone then some { s with bad := true } else some { s with cp := .planned p }
      | _ => some (s.linearize c true op (s.q.step c op).1 (s.q.step c op).2)
    | .planned p =>
      if s.lock.reserved then none else some { s with lock := { s.lock with reserved := true }, cp := .active p }
    | .active p => some { s with lock := { s.lock with pending := true }, cp := .pending p }
    | .pending p =>
      if s.lock.shared ≠ 0 then none else
      match op with
      | .ack n =>
        some (({ s with lock := { s.lock with pending := false, reserved := false }, cp := .idle } : CState).linearize c
          true op (s.q.ackApply n p) .ok)
      | _ => some { s with bad := true }

/-- a step of thread `t`; a `bad` system does not step -/
def CState.step (c : QCfg) (s : CState) (t : Bool) : Option CState :=
  if s.bad then none else if t then s.stepC c else s.stepP c

/-- run a schedule; a scheduled thread that cannot step is skipped -/
def CState.run (c : QCfg) : CState → List Bool → CState
  | s, [] => s
  | s, t :: ts =>
    match s.step c t with
    | some s' => CState.run c s' ts
    | none => CState.run c s ts

/-- both programs are finished -/
def CState.finished (s : CState) : Bool := s.progP.isEmpty && s.progC.isEmpty

end TxVerif
