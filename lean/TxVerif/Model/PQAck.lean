/-
  ACK planning of the persistent queue (go-txfile/pq/ack.go).

  `acker.initACK(n)` runs in a read transaction: starting at the queue's head page it collects the
  pages that can be freed (`collectFreePages`) and computes the new head and read positions
  (`findNewStartPositions`).  The plan is applied in a later write transaction (`cleanup`).

  The page chain is a `List QPage` in link order (`pages.head` = head page, the last element is
  the page with `next == 0`, the writer's page).  `endID` = id of the first event that stays
  (`startID + n`); the caller has checked `endID ≤ tail id` (`ACKTooMany`).
-/
import TxVerif.Model.PQLayout
namespace TxVerif

/-- result of `collectFreePages` -/
structure AckWalk where
  /-- number of pages collected for freeing (a prefix of the chain) -/
  freed : Nat
  /-- `cleanAll`: the walk ran into a data-only write page -/
  cleanAll : Bool
  /-- value of the condition of `invariant.Checkf(lastID+1 == endID, …)` where the walk evaluated
      it (only together with `cleanAll`), `true` otherwise. `false` = the implementation panics. -/
  assertOk : Bool
  deriving Repr, DecidableEq, Inhabited

/-- `acker.collectFreePages`, one loop iteration per page.  `lastID` is the local variable of the
    Go function (initially 0; `hdr.last + 1` of the most recent page with event headers).

    ```
    isWritePage := next == 0
    dataOnlyPage := hdr.off == 0
    if !dataOnlyPage { lastID = hdr.last; lastID++
                       keepPage := isWritePage || idLessEq(endID, lastID); if keepPage { break } }
    if isWritePage { cleanAll = true; invariant.Checkf(lastID+1 == endID, …); break }
    ids = append(ids, page); AdvancePage
    ```
    An empty chain cannot occur (the cursor is on the head page); it yields an empty plan. -/
def ackWalk : List QPage → Nat → Nat → AckWalk
  | [], _, _ => ⟨0, false, true⟩
  | p :: ps, endID, lastID =>
    let isWritePage := ps.isEmpty
    let dataOnlyPage := p.off = 0
    let lastID' := if dataOnlyPage then lastID else p.last + 1
    if ¬ dataOnlyPage ∧ (isWritePage = true ∨ endID ≤ lastID') then ⟨0, false, true⟩
    else if isWritePage then ⟨0, true, decide (lastID' + 1 = endID)⟩
    else
      let r := ackWalk ps endID lastID'
      { r with freed := r.freed + 1 }

/-- collectFreePages over the page chain starting at the head page: `endID` = id of the first
    event that stays (start id + n). Walk the pages in chain order; a page that contains event
    headers (off ≠ 0) is KEPT (stop) if it is the last page of the chain (write page) or if
    `endID ≤ last + 1`; a data-only page (off = 0) that is the last page stops with cleanAll (and
    is not freed); otherwise the page is freed and the walk continues.
    Returns (number of freed pages, cleanAll). -/
def ackPlan (pages : List QPage) (endID : Nat) : Nat × Bool :=
  let r := ackWalk pages endID 0
  (r.freed, r.cleanAll)

/-- `txCursor.ReadEventHeader` + `txCursor.Skip(sz)` repeated `n` times, as in the loop of
    `findNewStartPositions`.  Unlike `Reader.Next` the loop does not leave a page in which no
    header fits; `Skip` moves the cursor like reading does (`readData`). -/
def skipEvents (P : Nat) : Nat → List QPage → Nat → Option (List QPage × Nat)
  | 0, pages, off => some (pages, off)
  | n + 1, pages, off => (readEventAt P pages off).bind fun r => skipEvents P n r.2.1 r.2.2

/-- the plan `initACK` computes (without `cleanAll`): number of freed pages, the new head
    (the first kept page; position `(page, off, first)` from its header) and the new read position
    (cursor behind the acknowledged events of the kept page, id `endID`) -/
structure AckState where
  freed : Nat
  /-- chain from the new head page on -/
  headPages : List QPage
  headOff : Nat
  headId : Nat
  readPages : List QPage
  readOff : Nat
  deriving Repr, DecidableEq, Inhabited

/-- `initACK` for `cleanAll = false`: `collectFreePages` then `findNewStartPositions`.
    `none`: `cleanAll`, or the cursor runs off the chain. -/
def ackInit (P : Nat) (pages : List QPage) (endID : Nat) : Option AckState :=
  let plan := ackPlan pages endID
  if plan.2 then none else
  match pages.drop plan.1 with
  | [] => none
  | k :: ks =>
    if endID = k.first then some ⟨plan.1, k :: ks, k.off, k.first, k :: ks, k.off⟩
    else (skipEvents P (endID - k.first) (k :: ks) k.off).map fun r =>
      ⟨plan.1, k :: ks, k.off, k.first, r.1, r.2⟩

end TxVerif
