/-
  The transactional engine of go-txfile above the allocator: pages of a write
  transaction (page.go), the overwrite mapping (wal.go), flush / checkpoint /
  commit / rollback (tx.go), with abstract page contents (two stamped halves
  per page) on a volatile disk. Crash behaviour is modelled separately
  (Model/Crash.lean); this model is the sequential, fault free engine.
-/
import TxVerif.Model.Alloc
namespace TxVerif

/-- abstract page content: (id, stamp) of the lower and of the upper half;
    `(0,0)` is a zeroed half -/
structure Content where
  lo : Nat × Nat := (0, 0)
  hi : Nat × Nat := (0, 0)
  deriving Repr, DecidableEq, Inhabited

def Content.full (id s : Nat) : Content := { lo := (id, s), hi := (id, s) }

/-- rendering used by the harness: `id/s1/s2` -/
def Content.show (c : Content) : String :=
  let id := if c.lo.2 ≠ 0 then c.lo.1 else c.hi.1
  s!"{id}/{c.lo.2}/{c.hi.2}"

abbrev Assoc (β : Type) := List (Nat × β)

def Assoc.get? {β} (m : Assoc β) (k : Nat) : Option β := (m.find? (·.1 == k)).map (·.2)
def Assoc.erase {β} (m : Assoc β) (k : Nat) : Assoc β := m.filter (·.1 != k)
/-- insert keeping keys ascending -/
def Assoc.set {β} : Assoc β → Nat → β → Assoc β
  | [], k, v => [(k, v)]
  | (k', v') :: m, k, v =>
    if k < k' then (k, v) :: (k', v') :: m else if k = k' then (k, v) :: m else (k', v') :: Assoc.set m k v

structure PageSt where
  id : Nat
  ondisk : Nat
  bytes : Option Content := none   -- none: contents are read through the mapping (live view)
  new_ : Bool := false
  freed : Bool := false
  flushed : Bool := false
  cached : Bool := false
  dirty : Bool := false
  deriving Repr, DecidableEq, Inhabited

structure TxSt where
  ta : TxAlloc := {}
  pages : Assoc PageSt := []
  walNew : Assoc Nat := []       -- tx.wal.new
  walFree : List Nat := []       -- tx.wal.free
  walLimit : Nat := 1000
  checkpoint : Bool := false
  root : Nat := 0
  deriving Repr, DecidableEq, Inhabited

structure FileSt where
  alloc : Alloc := {}
  walMap : Assoc Nat := []       -- page id ↦ overwrite page id
  walPages : List Nat := []      -- pages holding the serialised mapping
  root : Nat := 0
  txid : Nat := 0
  disk : Assoc Content := []     -- physical page ↦ content (volatile view)
  statData : Nat := 0            -- FileStats.DataAllocated
  deriving Repr, DecidableEq, Inhabited

inductive Err | oom | invalidop | pageid | param | finished | readonly
  deriving Repr, DecidableEq, Inhabited

def Err.show : Err → String
  | .oom => "err:oom" | .invalidop => "err:invalidop" | .pageid => "err:pageid" | .param => "err:param"
  | .finished => "err:finished" | .readonly => "err:readonly"

def FileSt.diskAt (f : FileSt) (p : Nat) : Content := (f.disk.get? p).getD {}
def FileSt.physOf (f : FileSt) (id : Nat) : Nat := (f.walMap.get? id).getD id
/-- what a reader of the committed state sees for a page -/
def FileSt.readPage (f : FileSt) (id : Nat) : Content := f.diskAt (f.physOf id)

/-- creating a file: `initNewFile` -/
def FileSt.create (pageSize maxPages initMeta : Nat) : FileSt :=
  if initMeta = 0 then
    { alloc := { maxPages, pageSize, data := { endMarker := 2 }, mta := { endMarker := 0 } }, txid := 1 }
  else
    { alloc := { maxPages, pageSize, data := { endMarker := 2 + initMeta },
                 mta := { endMarker := 2 + initMeta, free := idRange 3 (initMeta - 1) },
                 metaTotal := initMeta, freelistPages := [2] }, txid := 1 }

def FileSt.beginTx (f : FileSt) (overflow : Bool) (growPct walLimit : Nat) : TxSt :=
  { ta := f.alloc.beginTx overflow growPct, walLimit := if walLimit = 0 then 1000 else walLimit, root := f.root }

/-- `Tx.getPage` for a write transaction -/
def getPage (f : FileSt) (tx : TxSt) (id : Nat) : Except Err (TxSt × PageSt) :=
  if !(2 ≤ id ∧ id < f.alloc.data.endMarker) then .error .pageid
  else if tx.ta.data.freed.contains id || tx.ta.mta.freed.contains id then .error .invalidop
  else match tx.pages.get? id with
    | some p => if p.freed then .error .invalidop else .ok (tx, p)
    | none =>
      let p : PageSt := { id, ondisk := f.physOf id }
      .ok ({ tx with pages := tx.pages.set id p }, p)

def TxSt.setPage (tx : TxSt) (p : PageSt) : TxSt := { tx with pages := tx.pages.set p.id p }

/-- `Page.canWrite` on an active writable transaction -/
def pageCanWrite (p : PageSt) : Except Err Unit :=
  if p.freed || p.flushed then .error .invalidop else .ok ()

/-- `Tx.Alloc/AllocN` -/
def txAlloc (f : FileSt) (tx : TxSt) (n : Nat) : Except Err (FileSt × TxSt × List Nat) :=
  match dataAllocRegions f.alloc tx.ta n with
  | none => .error .oom
  | some (a, ta, ids) =>
    let pages := ids.foldl (fun m id => m.set id ({ id, ondisk := id, new_ := true } : PageSt)) tx.pages
    .ok ({ f with alloc := a }, { tx with ta := ta, pages := pages }, ids)

/-- `Page.loadBytes` -/
def loadBytes (f : FileSt) (p : PageSt) : PageSt :=
  if p.cached then p
  else if p.new_ then { p with cached := true, bytes := some (p.bytes.getD {}) }
  else if p.dirty then { p with cached := true }
  else { p with cached := true, bytes := some (match p.bytes with | some b => b | none => f.diskAt p.ondisk) }

def setDirty (p : PageSt) : PageSt := { p with dirty := true }

/-- the three ways the harness writes a page -/
inductive WMode | full | lo | hi
  deriving Repr, DecidableEq, Inhabited

def txWrite (f : FileSt) (tx : TxSt) (id : Nat) (mode : WMode) (s : Nat) : Except Err TxSt := do
  let (tx, p) ← getPage f tx id
  pageCanWrite p
  match mode with
  | .full => pure (tx.setPage (setDirty { p with bytes := some (Content.full id s) }))
  | .lo =>
    let p := loadBytes f p
    let b := p.bytes.getD {}
    pure (tx.setPage (setDirty { p with bytes := some { b with lo := (id, s) } }))
  | .hi =>
    let p := loadBytes f p
    let b := p.bytes.getD {}
    pure (tx.setPage (setDirty { p with bytes := some { b with hi := (id, s) } }))

def txLoad (f : FileSt) (tx : TxSt) (id : Nat) : Except Err TxSt := do
  let (tx, p) ← getPage f tx id
  pageCanWrite p
  pure (tx.setPage (loadBytes f p))

/-- `Page.Bytes` -/
def txRead (f : FileSt) (tx : TxSt) (id : Nat) : Except Err (TxSt × Content) := do
  let (tx, p) ← getPage f tx id
  match p.bytes with
  | some b => pure (tx, b)
  | none => if p.new_ then .error .invalidop else pure (tx, f.diskAt p.ondisk)

def freeWalId (tx : TxSt) (id walId : Nat) : TxSt :=
  { tx with ta := metaFreeId tx.ta walId, walFree := insertId id tx.walFree, walNew := tx.walNew.erase id }

/-- `Page.Free` -/
def txFree (f : FileSt) (tx : TxSt) (id : Nat) : Except Err (FileSt × TxSt) := do
  let (tx, p) ← getPage f tx id
  pageCanWrite p
  if p.dirty then .error .invalidop
  let (a, ta) := dataFree f.alloc tx.ta id
  let tx := { tx with ta := ta }
  let tx := if p.id ≠ p.ondisk then freeWalId tx p.id p.ondisk else tx
  pure ({ f with alloc := a }, tx.setPage { p with freed := true })

/-- `Page.doFlush`; returns the physical page written (if any) -/
def doFlush (f : FileSt) (tx : TxSt) (p : PageSt) : Except Err (FileSt × TxSt × Option Nat) :=
  if !p.dirty || p.flushed then .ok (f, tx, none) else
  let step : Except Err (FileSt × TxSt × PageSt) :=
    if p.new_ then .ok (f, tx, p)
    else if p.id = p.ondisk then
      match walAlloc f.alloc tx.ta with
      | none => .error .oom
      | some (a, ta, w) =>
        .ok ({ f with alloc := a }, { tx with ta := ta, walNew := tx.walNew.set p.id w }, { p with ondisk := w })
    else .ok (f, freeWalId tx p.id p.ondisk, { p with ondisk := p.id })
  match step with
  | .error e => .error e
  | .ok (f, tx, p) =>
    let p := { p with flushed := true }
    .ok ({ f with disk := f.disk.set p.ondisk (p.bytes.getD {}) }, tx.setPage p, some p.ondisk)

/-- flush the given pages in the given (recorded) order -/
def flushList (f : FileSt) (tx : TxSt) : List Nat → Except Err (FileSt × TxSt × List (Nat × Nat))
  | [] => .ok (f, tx, [])
  | id :: ids =>
    match tx.pages.get? id with
    | none => .error .invalidop
    | some p =>
      match doFlush f tx p with
      | .error e => .error e
      | .ok (f, tx, w) =>
        match flushList f tx ids with
        | .error e => .error e
        | .ok (f, tx, ws) => .ok (f, tx, (match w with | some w => [(id, w)] | none => []) ++ ws)

/-- pages `flushPages` still has to write -/
def TxSt.unflushed (tx : TxSt) : List Nat := (tx.pages.filter (fun (_, p) => p.dirty && !p.flushed)).map (·.1)

/-- would flushing one more of the given pages need an overwrite page that is not available? -/
def flushWouldFail (f : FileSt) (tx : TxSt) : Bool :=
  tx.unflushed.any (fun id =>
    match tx.pages.get? id with
    | some p => !p.new_ && p.id == p.ondisk && (walAlloc f.alloc tx.ta).isNone
    | none => false)

/-- copy one overwrite page back to its original page and release it -/
def ckptOne (s : FileSt × TxSt) (e : Nat × Nat) : FileSt × TxSt :=
  ({ s.1 with disk := s.1.disk.set e.1 (s.1.diskAt e.2) }, freeWalId s.2 e.1 e.2)

/-- the entries of the committed mapping a checkpoint copies back: all but pages that are dirty
    in this transaction (their overwrite page is released when they are flushed) -/
def ckptTodo (f : FileSt) (tx : TxSt) : Assoc Nat :=
  f.walMap.filter (fun e => match tx.pages.get? e.1 with | some p => !p.dirty | none => true)

/-- `Tx.doCheckpointWAL`: copy overwrite pages back, release them -/
def doCheckpoint (f : FileSt) (tx : TxSt) : FileSt × TxSt × List (Nat × Nat) :=
  if tx.checkpoint then (f, tx, []) else
  if (ckptTodo f tx).isEmpty then (f, tx, []) else
  let r := (ckptTodo f tx).foldl ckptOne (f, tx)
  (r.1, { r.2 with checkpoint := true }, ckptTodo f tx)

def TxSt.walUpdated (tx : TxSt) : Bool := !tx.walFree.isEmpty || !tx.walNew.isEmpty

/-- `createMappingUpdate` -/
def mappingUpdate (old : Assoc Nat) (tx : TxSt) : Assoc Nat :=
  if !tx.walUpdated then [] else
  let kept := old.filter (fun (id, _) => !tx.walFree.contains id && (tx.walNew.get? id).isNone)
  tx.walNew.foldl (fun m (id, w) => m.set id w) kept

def walEntriesPerPage (pageSize : Nat) : Nat := (pageSize - 12) / 14
def predictWalPages (n pageSize : Nat) : Nat := (n + walEntriesPerPage pageSize - 1) / walEntriesPerPage pageSize

inductive CommitRes | ok | flushFailed | walOom | allocOom
  deriving Repr, DecidableEq, Inhabited

/-- the end of every write transaction that does not commit -/
def txAbort (f : FileSt) (tx : TxSt) : FileSt := { f with alloc := f.alloc.rollback tx.ta }

/-- `Tx.Commit` after the dirty pages were flushed (in recorded order) -/
def commitAfterFlush (f : FileSt) (tx : TxSt) : FileSt × CommitRes × List (Nat × Nat) :=
  -- commitPrepareWAL
  let newWal := mappingUpdate f.walMap tx
  let ckpt := tx.walLimit > 0 && newWal.length ≥ tx.walLimit
  let walUpd := ckpt || tx.walUpdated
  let newWal := if ckpt then tx.walNew else newWal
  let (f, tx, copied) := if ckpt then doCheckpoint f tx else (f, tx, [])
  -- the new mapping shares the transaction's map: entries released by the checkpoint disappear
  let newWal := if ckpt then tx.walNew else newWal
  let tx := if walUpd then { tx with ta := metaFreeIds tx.ta f.walPages } else tx
  -- commitPrepareAlloc
  let allocUpd := tx.ta.updated
  let tx := if allocUpd then { tx with ta := metaFreeIds tx.ta f.alloc.freelistPages } else tx
  -- wal.fileCommitAlloc
  let nwal := if walUpd then predictWalPages newWal.length f.alloc.pageSize else 0
  let walRes : Option (Alloc × TxAlloc × List Nat) :=
    if nwal > 0 then metaAllocRegions f.alloc tx.ta nwal else some (f.alloc, tx.ta, [])
  match walRes with
  | none => (txAbort f tx, .walOom, copied)
  | some (a, ta, walRegs) =>
    let allocUpd := allocUpd || !walRegs.isEmpty
    match fileCommitAlloc a ta allocUpd with
    | none => (txAbort { f with alloc := a } { tx with ta := ta }, .allocOom, copied)
    | some (a, ta, cs) =>
      -- serialise, sync, write header, sync: contents of internal pages are not modelled
      let a := a.commit cs
      let stat := f.statData + ta.sAlloc - (ta.sFreed + ta.sToMeta)
      ({ f with alloc := a,
                walMap := if walUpd then newWal else f.walMap,
                walPages := if walUpd then walRegs else f.walPages,
                root := tx.root, txid := f.txid + 1, statData := stat }, .ok, copied)

/-- `reportOpen`: the statistic recomputed from the header when opening -/
def FileSt.reopen (f : FileSt) : FileSt :=
  let fileEnd := max f.alloc.data.endMarker f.alloc.mta.endMarker
  { f with alloc := f.alloc.absorbOverflow, statData := fileEnd - 2 - f.alloc.metaTotal - f.alloc.data.free.length }

end TxVerif
