/-
  Crash model with failing syncs, OPTIMISTIC sync semantics, and the discipline the repaired
  implementation is observed to follow on its failure paths (second, more permissive acceptor;
  Model/CrashFail.lean and everything proved about it stay as they are).

  ASSUMPTION ON THE FILE SYSTEM (optimistic, `DurStepOpt`): a failing sync makes an UNKNOWN subset
  of the pending operations durable (any `CrashImg`, header writes possibly torn) but the
  operations STAY pending (dirty pages stay dirty); a later sync that succeeds makes ALL pending
  operations durable, in issue order. An operation can thereby hit the disk twice (once through
  the failed sync's unknown subset, once through the later sync); Proofs/CrashFailOpt.lean
  (`reapply_crash`) shows that this yields the same image as applying the list once.
  (Model/CrashFail.lean is the PESSIMISTIC reading: a failed sync forgets the operations.)

  Consequence used by the acceptor: after every COMPLETED sync the durable image is known exactly
  (`base.durable`), whatever failed before; between completed syncs the real image differs from
  `base.durable` only where a pending operation writes. No `unk` bookkeeping is needed.

  THE DISCIPLINE (`OCfg.step`):
    normal phase      as `Cfg.step` of Model/Crash.lean (every trace accepted there is accepted
                      here), plus
    F1'  a data sync may fail: everything stays pending, the committed state is unchanged, the
         transaction may write more pages and sync again; a commit header is accepted exactly as
         in `Cfg.step`: the pages of the named state are durable (as of the last COMPLETED sync)
         and no pending operation touches them - normally nothing is pending at all;
    P1   idempotent restore: with no header in flight, a header write into the inactive slot
         carrying exactly what that slot durably holds (`base.durable.slots (1 - aSlot)`) is
         accepted (marked `restore` or unmarked `hdr`); it joins the pending operations (the
         data writes of a failed transaction may be pending too). It may be torn by a crash:
         harmless, the active slot is valid. This is `restoreMeta` running after a commit that
         failed before its header write was issued;
    F2'  the final sync fails (`failed st' prev`, `prev` = the saved old contents of the in-flight
         slot): accepted are `restore (1 - aSlot) prev`, `sync`, `syncFail` and nothing else; once
         the restore is written (`restoring`): `sync`, `syncFail` and nothing else, until a sync
         SUCCEEDS - that sync makes the restore durable and ends the failure path (normal phase,
         committed (slot, txid, state) unchanged, nothing in flight). Page writes, truncates and a
         new commit header are accepted only after it.
-/
import TxVerif.Model.CrashFail
namespace TxVerif

inductive OPhase
  | normal
  | failed (st' : Nat) (prev : Option (Nat × Nat))   -- final sync failed, restore not written yet
  | restoring (st' : Nat) (prev : Nat × Nat)          -- restore written, no sync has succeeded since
  deriving Repr, DecidableEq, Inhabited

structure OCfg where
  base : Cfg            -- durable: the image as of the last COMPLETED sync; pending: everything issued since
  phase : OPhase := .normal

/-- the state a crash may recover to besides the committed one -/
def OCfg.pendingSt (c : OCfg) : Option Nat :=
  match c.phase with
  | .normal => c.base.inflight
  | .failed s _ => some s
  | .restoring s _ => some s

/-- the state named by a header that may be durable although its commit failed -/
def OCfg.ghost (c : OCfg) : Option Nat :=
  match c.phase with
  | .normal => none
  | .failed s _ => some s
  | .restoring s _ => some s

/-- P1 -/
def OCfg.idemRestore (c : OCfg) (s t st : Nat) : Option OCfg :=
  match c.phase with
  | .normal =>
    if c.base.inflight.isNone && s == 1 - c.base.aSlot &&
       c.base.durable.slots (1 - c.base.aSlot) == some (t, st) then
      some { c with base := { c.base with pending := c.base.pending ++ [.hdr s t st] } }
    else none
  | _ => none

/-- F2': the restore proper -/
def OCfg.restoreStep (c : OCfg) (s t st : Nat) : Option OCfg :=
  match c.phase with
  | .failed st' prev =>
    if s == 1 - c.base.aSlot && prev == some (t, st) then
      some { base := { c.base with pending := c.base.pending ++ [.hdr s t st] }, phase := .restoring st' (t, st) }
    else none
  | _ => none

def OCfg.step (reachOf : Nat → List (Nat × Hash)) (c : OCfg) : FOp → Option OCfg
  | .op (.write p h) =>
    match c.phase with
    | .normal => (c.base.step reachOf (.write p h)).map fun b => { c with base := b }
    | _ => none
  | .op (.trunc n) =>
    match c.phase with
    | .normal => (c.base.step reachOf (.trunc n)).map fun b => { c with base := b }
    | _ => none
  | .op (.hdr s t st) =>
    match c.phase with
    | .normal =>
      match c.base.step reachOf (.hdr s t st) with
      | some b => some { c with base := b }         -- the header of a commit
      | none => c.idemRestore s t st                -- P1
    | .failed _ _ => c.restoreStep s t st
    | .restoring _ _ => none
  | .op .sync =>
    match c.phase with
    | .normal => (c.base.step reachOf .sync).map fun b => { c with base := b }
    | .failed _ _ =>
      some { c with base := { c.base with durable := c.base.pending.foldl applyOp c.base.durable, pending := [] } }
    | .restoring _ _ =>
      some { base := { c.base with durable := c.base.pending.foldl applyOp c.base.durable, pending := [], inflight := none },
             phase := .normal }
  | .syncFail =>
    match c.phase with
    | .normal =>
      match c.base.inflight with
      | none => some c                                                       -- F1'
      | some st' => some { base := { c.base with inflight := none },
                           phase := .failed st' (c.base.durable.slots (1 - c.base.aSlot)) }
    | .failed _ _ => some c
    | .restoring _ _ => some c
  | .restore s t st =>
    match c.phase with
    | .normal => c.idemRestore s t st
    | .failed _ _ => c.restoreStep s t st
    | .restoring _ _ => none

def OCfg.run (reachOf : Nat → List (Nat × Hash)) (c : OCfg) : List FOp → Option OCfg
  | [] => some c
  | op :: ops => match c.step reachOf op with | none => none | some c' => c'.run reachOf ops

/-- the real durable image under the optimistic semantics (the pending list is kept by `OCfg.step`
    at a failing sync and emptied at a succeeding one) -/
def DurStepOpt (c : OCfg) (d : Img) : FOp → Img → Prop
  | .op .sync, d' => d' = c.base.pending.foldl applyOp d
  | .syncFail, d' => CrashImg d c.base.pending d'
  | _, d' => d' = d

inductive ExecOpt (stp : OCfg → FOp → Option OCfg) : OCfg → Img → List FOp → OCfg → Img → Prop
  | nil (c : OCfg) (d : Img) : ExecOpt stp c d [] c d
  | cons {c d op c1 d1 ops c2 d2} : stp c op = some c1 → DurStepOpt c d op d1 → ExecOpt stp c1 d1 ops c2 d2 →
      ExecOpt stp c d (op :: ops) c2 d2

def OCfg.ofCfg (c : Cfg) : OCfg := { base := c }

/-- NOT CRASH SAFE variant, for the counterexample only: the engine goes on although no sync has
    succeeded since the restore was written -/
def OCfg.stepLax (reachOf : Nat → List (Nat × Hash)) (c : OCfg) (op : FOp) : Option OCfg :=
  match c.step reachOf op with
  | some c' => some c'
  | none =>
    match c.phase with
    | .restoring _ _ => ({ c with phase := .normal } : OCfg).step reachOf op
    | _ => none

def OCfg.runLax (reachOf : Nat → List (Nat × Hash)) (c : OCfg) : List FOp → Option OCfg
  | [] => some c
  | op :: ops => match c.stepLax reachOf op with | none => none | some c' => c'.runLax reachOf ops

end TxVerif
