/-
  Error handling of the background writer (write.go Run): the first failing write or sync
  makes the error sticky; while it is set, writes and syncs are skipped but every message
  still reports back to the transaction that scheduled it (so `Wait` returns); a sync message
  carrying `syncResetErr` clears the error after reporting it.
-/
namespace TxVerif

inductive WMsg
  | write (fails : Bool)                   -- a page write; `fails`: the I/O call would fail
  | sync (fails : Bool) (reset : Bool)     -- a sync request; `reset`: carries syncResetErr
  deriving Repr, DecidableEq, Inhabited

structure WSt where
  err : Bool := false        -- sticky error
  released : Nat := 0        -- messages that reported back (txWriteSync.Release)
  ioCalls : Nat := 0         -- I/O calls actually issued
  lastReported : Bool := false  -- the error value the last message reported
  deriving Repr, DecidableEq, Inhabited

def WSt.step (s : WSt) : WMsg → WSt
  | .write fails =>
    let err' := if s.err then true else fails
    { err := err', released := s.released + 1, ioCalls := if s.err then s.ioCalls else s.ioCalls + 1, lastReported := err' }
  | .sync fails reset =>
    let err' := if s.err then true else fails
    { err := if reset then false else err', released := s.released + 1,
      ioCalls := if s.err then s.ioCalls else s.ioCalls + 1, lastReported := err' }

def WSt.run (s : WSt) (ms : List WMsg) : WSt := ms.foldl WSt.step s

end TxVerif
