/-
  The persistent queue (go-txfile/pq) as ONE executable state machine.

  `PQState` composes
  * the writer's buffer state machine `WState` (Model/PQWriter.lean: buffer.go, writer.go) including the
    page chain on disk (`WState.persisted`) and the persisted tail position,
  * the queue root header: event ids and "position is set" flags as `QHdr` (Model/PQCounters.lean), the
    page/offset parts of the `head` and `read` positions, the `inuse` page counter,
  * the reader (reader.go, cursor.go): cursor, `id`, `endID`, `eventBytes`, "read transaction open",
  * the totals reported through the `Flushed` / `ACKed` callbacks (pq.Settings).

  Operations (`QOp`): `write chunk | next | flush | rbegin | available | rnext | rread n | rdone | ack n |
  reopen | counters`; `PQState.step` returns the new state and the observable result (`QOut`).

  Modelling decisions
  * Unbounded file, no I/O faults: every transaction succeeds (`OutOfMemory`, injected faults: out of scope).
  * The page chain is `w.persisted : List QPage` in link order, and it is the chain of ALL pages ever
    written: an ACK does not remove the freed pages from the list, it moves the head position
    (`headPos.1` = number of pages freed so far = index of the head page).  Page ids are list indices.
    The queue's pages are `persisted.drop headPos.1`; `inuse` counts them.
  * The reader, the ACK planning and the writer run on the same chain: sequential use.  A call that needs a
    write transaction (a flush that has something to write, `ack n` with `n > 0`, `reopen`) while the read
    transaction of the reader is open would block forever in a single thread (txfile: `Commit` waits for the
    readers).  The model does not represent blocking; the specification (`ASpec.step`) treats producer
    calls, ACKs and `reopen` inside a read session as out of contract.
  * `Reader.Next` skips the unread rest of an event with `txCursor.Skip`, which moves the cursor like reading
    does; as in Model/PQAck.lean (`skipEvents`) it is modelled by `readData`.
  * `eventBytes`: the Go field is `-1` (no event) or the number of unread bytes; `-1` and `0` behave alike
    in every code path (`Read`: `<= 0`, `Next`: `> 0`), the model uses `0` for both.
  * `reopen` = `Queue.Close` (flushes the write buffer: writer.close → flushBuffer), then `pq.New` +
    `Queue.Writer()` (newWriter: the buffer starts with the tail page read from disk, cut at the tail offset)
    + `Queue.Reader()` (new reader: nil cursor; the first `Next`/`Available` positions it on the root
    header's `read` position, or `head` if `read` is not set).  The bytes of an unfinished event are lost.
  * Checks of the implementation that panic (`invariant.Check`) or fail (`ReadFail`, `SeekFail`) give
    `QOut.err .panic` / `.readFail`; the refinement theorem shows they do not occur.
-/
import TxVerif.Model.PQWriter
import TxVerif.Model.PQAck
import TxVerif.Model.PQCounters
namespace TxVerif

/-! ## `readData` without list indexing (compiled code only)

  `readData` (Model/PQLayout.lean) fetches every byte with `payload[i]?`, which is linear in `i`.
  `readDataFast` carries the unread rest of the current page's payload instead; the `csimp` lemma makes
  the compiler use it wherever `readData` is called (reader, `skipEvents`). -/

/-- `rest` = `payload.drop (off - 28)` of the current page (`pages.head`) -/
def readDataAux (P : Nat) : List QPage → List UInt8 → Nat → Nat → Option (List UInt8 × List QPage × Nat)
  | pages, _, off, 0 => some ([], pages, off)
  | pages, rest, off, n + 1 =>
    if P - off = 0 then
      match pages.tail with
      | [] => none
      | q :: qs =>
        match q.payload with
        | [] => none
        | b :: bs => (readDataAux P (q :: qs) bs 29 n).map fun r => (b :: r.1, r.2)
    else
      match pages with
      | [] => none
      | q :: qs =>
        match rest with
        | [] => none
        | b :: bs =>
          (readDataAux P (q :: qs) (if 28 ≤ off then bs else rest) (off + 1) n).map fun r => (b :: r.1, r.2)

def headRest (pages : List QPage) (off : Nat) : List UInt8 :=
  match pages with
  | [] => []
  | q :: _ => q.payload.drop (off - 28)

def readDataFast (P : Nat) (pages : List QPage) (off n : Nat) : Option (List UInt8 × List QPage × Nat) :=
  readDataAux P pages (headRest pages off) off n

theorem readDataAux_eq (P : Nat) : ∀ (n : Nat) (pages : List QPage) (off : Nat),
    readDataAux P pages (headRest pages off) off n = readData P pages off n := by
  intro n
  induction n with
  | zero => intro pages off; simp [readDataAux, readData]
  | succ n ih =>
    intro pages off
    rw [readData]
    conv => lhs; unfold readDataAux
    by_cases h0 : P - off = 0
    · simp only [h0, if_true]
      cases hpt : pages.tail with
      | nil => rfl
      | cons q qs =>
        simp only
        have e0 : (28 : Nat) - 28 = 0 := rfl
        rw [e0]
        cases hp : q.payload with
        | nil => simp
        | cons b bs =>
          have := ih (q :: qs) 29
          simp only [headRest, hp] at this
          have e1 : (29 : Nat) - 28 = 1 := rfl
          rw [e1] at this
          simp only [List.drop_succ_cons, List.drop_zero] at this
          simp only [List.getElem?_cons_zero]
          rw [this]
    · simp only [h0, if_false]
      cases pages with
      | nil => rfl
      | cons q qs =>
        simp only [headRest]
        cases hr : q.payload.drop (off - 28) with
        | nil =>
          have : q.payload[off - 28]? = none := by
            rw [List.getElem?_eq_none]
            have := congrArg List.length hr
            simp only [List.length_drop, List.length_nil] at this
            omega
          simp [this]
        | cons b bs =>
          have hlt : off - 28 < q.payload.length := by
            have := congrArg List.length hr
            simp only [List.length_drop, List.length_cons] at this
            omega
          have hb : q.payload[off - 28]? = some b := by
            rw [List.getElem?_eq_getElem hlt]
            have := List.drop_eq_getElem_cons hlt
            rw [hr] at this
            simp only [List.cons.injEq] at this
            rw [this.1]
          simp only [hb]
          have hrest : (if 28 ≤ off then bs else b :: bs) = headRest (q :: qs) (off + 1) := by
            simp only [headRest]
            by_cases h28 : 28 ≤ off
            · simp only [h28, if_true]
              have e : off + 1 - 28 = off - 28 + 1 := by omega
              rw [e, ← List.drop_drop, hr]
              rfl
            · simp only [h28, if_false]
              have e : off + 1 - 28 = 0 := by omega
              have e2 : off - 28 = 0 := by omega
              rw [e]
              rw [e2] at hr
              simpa using hr.symm
          rw [hrest, ih (q :: qs) (off + 1)]

@[csimp] theorem readData_eq_fast : @readData = @readDataFast := by
  funext P pages off n
  exact (readDataAux_eq P n pages off).symm

/-! ## the state -/

/-- queue configuration: page size and write buffer size in pages (`max(writeBuffer / pageSize, 5)`) -/
structure QCfg where
  P : Nat
  pages : Nat
  deriving Repr, DecidableEq

/-- payload bytes per page -/
def QCfg.S (c : QCfg) : Nat := c.P - 28

/-- `newWriter`: `pages := writeBuffer / pageSize; if pages <= defaultMinPages { pages = defaultMinPages }` -/
def QCfg.ofSettings (pageSize writeBuffer : Nat) : QCfg :=
  ⟨pageSize, if writeBuffer / pageSize ≤ 5 then 5 else writeBuffer / pageSize⟩

/-- the `Reader` object -/
structure RState where
  /-- `state.cursor`: page (index in the chain) and page offset; `none` = nil cursor (`page == 0`) -/
  cur : Option (Nat × Nat) := none
  /-- `state.id` -/
  id : Nat := 0
  /-- `state.endID` -/
  endId : Nat := 0
  /-- `state.eventBytes`, with 0 for -1 -/
  eventBytes : Nat := 0
  /-- `tx != nil` -/
  inTx : Bool := false
  deriving Repr, DecidableEq, Inhabited

structure PQState where
  /-- the writer with the page chain (all pages ever written), tail offset and tail id -/
  w : WState
  /-- root header: ids and which positions are set -/
  hdr : QHdr
  /-- root header `head`: page index and offset (meaningful if `hdr.headSet`) -/
  headPos : Nat × Nat
  /-- root header `read`: page index and offset (meaningful if `hdr.readSet`) -/
  readPos : Nat × Nat
  /-- root header `inuse` -/
  inuse : Nat
  r : RState
  /-- sum of the `Flushed` callback arguments -/
  totFlushed : Nat
  /-- sums of the `ACKed` callback arguments (events, pages) -/
  totAcked : Nat
  totFreed : Nat
  deriving Repr, DecidableEq

/-- a new queue in a new file -/
def PQState.init (c : QCfg) : PQState :=
  { w := WState.init c.S c.pages 0, hdr := {}, headPos := (0, 0), readPos := (0, 0), inuse := 0, r := {},
    totFlushed := 0, totAcked := 0, totFreed := 0 }

inductive QOp where
  | write (chunk : List UInt8)
  | next
  | flush
  | rbegin
  | available
  | rnext
  | rread (n : Nat)
  | rdone
  | ack (n : Nat)
  | reopen
  | counters
  deriving Repr, DecidableEq

/-- error kinds (pq/error.go), as far as the model can produce them -/
inductive QErr where
  | ackEmpty      -- ACKEmptyQueue
  | ackTooMany    -- ACKTooMany
  | inactiveTx    -- InactiveTx: reader call without Begin
  | activeTx      -- UnexpectedActiveTx: Begin inside a read session
  | readFail      -- ReadFail / SeekFail: the cursor runs off the chain or the written bytes
  | panic         -- an `invariant.Check` of the implementation fails
  deriving Repr, DecidableEq

/-- observable results -/
inductive QOut where
  /-- rbegin, rdone, ack, reopen -/
  | ok
  /-- write, next, flush: `cb = some k` if the call ran `flushBuffer`, which reports `k` events through the
      `Flushed` callback (also `k = 0`), `none` if it did not flush -/
  | wrote (cb : Option Nat)
  /-- rnext: size of the next event, 0 = no event available -/
  | size (n : Nat)
  /-- rread: the bytes read -/
  | bytes (b : List UInt8)
  /-- available -/
  | count (n : Nat)
  /-- counters: `Pending()`, `Active()`, total of the `Flushed` callbacks, total of the `ACKed` callbacks -/
  | counters (pending active flushed acked : Nat)
  | err (e : QErr)
  deriving Repr, DecidableEq

/-! ## producer -/

/-- The root header after a writer call that turned the writer state `q.w` into `w'`: what the flush
    transaction(s) inside the call did to the root (`updateRootHdr`): head (only when the queue had no page),
    tail, `inuse += allocated`; `cb` = what was reported through the `Flushed` callback. -/
def PQState.afterWriter (q : PQState) (w' : WState) (cb : Option Nat) : PQState :=
  let first : QPage := w'.persisted.headD QPage.fresh
  { q with
    w := w'
    hdr := q.hdr.flush first.first (w'.tailId - q.w.tailId)
    headPos := if q.hdr.headSet || decide (w'.tailId - q.w.tailId = 0) then q.headPos else (0, first.off)
    inuse := q.inuse + (w'.persisted.length - q.w.persisted.length)
    totFlushed := q.totFlushed + cb.getD 0 }

/-- `Writer.Write` -/
def PQState.write (c : QCfg) (q : PQState) (p : List UInt8) : PQState × QOut :=
  let cb := if q.w.avail ≤ p.length then some q.w.activeEventCount else none
  (q.afterWriter (q.w.write c.S p) cb, .wrote cb)

/-- `Writer.Next` -/
def PQState.next (c : QCfg) (q : PQState) : PQState × QOut :=
  let s1 := q.w.nextCore c.S
  let cb := if s1.avail ≤ 4 then some s1.activeEventCount else none
  (q.afterWriter (q.w.next c.S) cb, .wrote cb)

/-- `Writer.Flush` -/
def PQState.flush (c : QCfg) (q : PQState) : PQState × QOut :=
  let cb := some q.w.activeEventCount
  (q.afterWriter (q.w.flush c.S) cb, .wrote cb)

/-! ## reader -/

/-- the page chain as the reader's cursor sees it from page `i` on -/
def PQState.from (q : PQState) (i : Nat) : List QPage := q.w.persisted.drop i

/-- cursor for a chain suffix `pgs` of the chain -/
def PQState.idxOf (q : PQState) (pgs : List QPage) : Nat := q.w.persisted.length - pgs.length

/-- `Reader.updateQueueState` -/
def PQState.updateQueueState (q : PQState) (r : RState) : RState :=
  match r.cur with
  | none =>
    -- findReadStart: `read` if set, else `head` (a nil position if the queue never had a page)
    { r with cur := if q.hdr.readSet then some q.readPos else if q.hdr.headSet then some q.headPos else none,
             id := q.hdr.startId, endId := q.hdr.tailId }
  | some _ => { r with endId := q.hdr.tailId }

/-- the 4 bytes at the cursor as event size (`ReadEventHeader`) -/
def readHdr (pages : List QPage) (o : Nat) : Option Nat :=
  match pages with
  | [] => none
  | q :: _ =>
    let hdr := (q.payload.drop (o - 28)).take 4
    if hdr.length = 4 then some (leDec hdr) else none

/-- `Reader.Available` -/
def PQState.available (q : PQState) : PQState × QOut :=
  if !q.r.inTx then (q, .err .inactiveTx) else
  let r := q.updateQueueState q.r
  ({ q with r := r }, .count (match r.cur with | none => 0 | some _ => r.endId - r.id))

/-- `Reader.Begin` -/
def PQState.rbegin (q : PQState) : PQState × QOut :=
  if q.r.inTx then (q, .err .activeTx) else ({ q with r := { q.r with inTx := true } }, .ok)

/-- `Reader.Done` -/
def PQState.rdone (q : PQState) : PQState × QOut := ({ q with r := { q.r with inTx := false } }, .ok)

/-- `Reader.Next` -/
def PQState.rnext (c : QCfg) (q : PQState) : PQState × QOut :=
  if !q.r.inTx then (q, .err .inactiveTx) else
  -- in event? Skip contents
  let skipped : Option RState :=
    if q.r.eventBytes = 0 then some q.r else
    match q.r.cur with
    | none => none
    | some (i, o) =>
      (readData c.P (q.from i) o q.r.eventBytes).map fun x =>
        { q.r with cur := some (q.idxOf x.2.1, x.2.2), eventBytes := 0, id := q.r.id + 1 }
  match skipped with
  | none => (q, .err .readFail)
  | some r1 =>
    let atEnd (r : RState) : Bool := r.cur.isNone || !decide (r.id < r.endId)
    let r2 := if atEnd r1 then q.updateQueueState r1 else r1
    if atEnd r2 then ({ q with r := r2 }, .size 0) else
    match r2.cur with
    | none => ({ q with r := r2 }, .size 0)
    | some (i, o) =>
      -- advance to the next page if no header fits (checks: linkage, `first == id`, `off != 0`)
      match nextHdrPosId c.P (q.from i) o r2.id with
      | none => ({ q with r := r2 }, .err .panic)
      | some (pgs, o') =>
        match readHdr pgs o' with
        | none => ({ q with r := r2 }, .err .readFail)
        | some L => ({ q with r := { r2 with cur := some (q.idxOf pgs, o' + 4), eventBytes := L } }, .size L)

/-- `Reader.Read` with a buffer of `n` bytes -/
def PQState.rread (c : QCfg) (q : PQState) (n : Nat) : PQState × QOut :=
  if !q.r.inTx then (q, .err .inactiveTx) else
  if q.r.eventBytes = 0 then (q, .bytes []) else
  match q.r.cur with
  | none => (q, .bytes [])
  | some (i, o) =>
    let k := min n q.r.eventBytes
    match readData c.P (q.from i) o k with
    | none => (q, .err .readFail)
    | some (bs, pgs, o') =>
      if q.r.eventBytes - k = 0 then
        -- end of event: `id++`, leave the page if no further header fits into it
        let st := settle c.P pgs o'
        ({ q with r := { q.r with cur := some (q.idxOf st.1, st.2), eventBytes := 0, id := q.r.id + 1 } }, .bytes bs)
      else
        ({ q with r := { q.r with cur := some (q.idxOf pgs, o'), eventBytes := q.r.eventBytes - k } }, .bytes bs)

/-! ## ACK -/

/-- `Queue.ACK(n)` : `acker.handle` → `cleanup` → `initACK` + the cleanup transaction -/
def PQState.ack (c : QCfg) (q : PQState) (n : Nat) : PQState × QOut :=
  if n = 0 then (q, .ok) else
  -- queueRange: start = read if set, else head
  if !q.hdr.headSet && !q.hdr.readSet then (q, .err .ackEmpty) else
  if n > q.hdr.tailId - q.hdr.startId then (q, .err .ackTooMany) else
  let endID := q.hdr.startId + n
  let chain := q.from q.headPos.1
  let plan := ackPlan chain endID
  if plan.2 then
    -- cleanAll: head = read = tail position
    let tl := (q.w.persisted.length - 1, q.w.tailOff)
    ({ q with hdr := q.hdr.ack n 0 true, headPos := tl, readPos := tl, inuse := q.inuse - plan.1,
              totAcked := q.totAcked + n, totFreed := q.totFreed + plan.1 }, .ok)
  else
    match ackInit c.P chain endID with
    | none => (q, .err .readFail)
    | some st =>
      ({ q with hdr := q.hdr.ack n st.headId false,
                headPos := (q.headPos.1 + st.freed, st.headOff),
                readPos := (q.idxOf st.readPages, st.readOff),
                inuse := q.inuse - st.freed,
                totAcked := q.totAcked + n, totFreed := q.totFreed + st.freed }, .ok)

/-! ## close + open -/

/-- `newWriter` for the tail position of a closed queue: the buffer starts with the tail page as read from
    disk (clean, assigned, `EndOff` = tail offset), then `ReserveHdr` -/
def WState.reopen (S pages : Nat) (s : WState) : WState :=
  match (cutAt s.persisted s.tailOff).getLast? with
  | none => { WState.init S pages s.tailId with persisted := s.persisted, tailOff := s.tailOff }
  | some t =>
    let r := reserveHdrBuf S [] [⟨t, false, true⟩]
    { pre := r.1, ev := [r.2.1], hdrOff := r.2.2,
      avail := ((S * pages : Nat) : Int) - t.payload.length - 4,
      eventID := s.tailId, eventBytes := 0, activeEventCount := 0,
      persisted := s.persisted, tailOff := s.tailOff, tailId := s.tailId }

/-- `Queue.Close` followed by `pq.New`, `Queue.Writer()`, `Queue.Reader()` on the same file -/
def PQState.reopen (c : QCfg) (q : PQState) : PQState × QOut :=
  let q1 := (q.flush c).1
  ({ q1 with w := q1.w.reopen c.S c.pages, r := {} }, .ok)

/-! ## counters -/

/-- `Queue.Pending`, `Queue.Active` and the callback totals -/
def PQState.counters (q : PQState) : PQState × QOut :=
  (q, .counters q.hdr.pending q.hdr.active q.totFlushed q.totAcked)

def PQState.step (c : QCfg) (q : PQState) : QOp → PQState × QOut
  | .write p => q.write c p
  | .next => q.next c
  | .flush => q.flush c
  | .rbegin => q.rbegin
  | .available => q.available
  | .rnext => q.rnext c
  | .rread n => q.rread c n
  | .rdone => q.rdone
  | .ack n => q.ack c n
  | .reopen => q.reopen c
  | .counters => q.counters

/-- run an operation list, collecting the results -/
def PQState.run (c : QCfg) : PQState → List QOp → PQState × List QOut
  | q, [] => (q, [])
  | q, op :: ops =>
    let r := q.step c op
    let rest := PQState.run c r.1 ops
    (rest.1, r.2 :: rest.2)

/-- did this call run `flushBuffer` implicitly (`Write` on a full buffer, `Next` filling it)? The oracle the
    specification takes for `write` and `next`. -/
def PQState.autoFlush (c : QCfg) (q : PQState) : QOp → Bool
  | .write p => decide (q.w.avail ≤ p.length)
  | .next => decide ((q.w.nextCore c.S).avail ≤ 4)
  | _ => false

/-- the pages the queue holds (root header `inuse`): the chain from the head page on -/
def PQState.livePages (q : PQState) : List QPage := q.w.persisted.drop q.headPos.1

/-! ## the specification: an abstract FIFO queue

  `ASpec` knows nothing about pages, buffers or positions: the list of finished events, how many of them are
  flushed (durable and visible to the reader), acknowledged, consumed by the reader, and how many bytes of
  the event being read are left.

  `ASpec.step a op fl = none` : the call is outside the contract of sequential use in state `a`:
  * a producer call, an ACK (`n > 0`, accepted) or `reopen` while the read session is open (it would need a
    write transaction while the read transaction is open: txfile blocks);
  * `next` for an event without bytes or with `2^32` or more bytes (the size field has 32 bits; the reader of
    the implementation does not count events of size 0: `Reader.Next` cannot tell them from "no event");
  * `ack n` (accepted: `0 < n ≤ flushed - acked`) of events the reader has not been given yet (after `reopen`
    the new reader starts behind the ACKed events: read, then ACK).  The implementation does not check this;
    it frees the pages of the acknowledged events, which the reader's cursor may still point into.
  `fl` (only looked at for `write` and `next`) says whether the call flushed the buffer implicitly: when
  that happens depends on the buffer size and the page layout (`PQState.autoFlush`), the specification takes
  it as given.  A flush makes all finished events durable. -/

structure ASpec where
  /-- the finished events since the queue was created; the index is the event id -/
  events : List (List UInt8) := []
  /-- bytes of the event being written -/
  cur : List UInt8 := []
  flushed : Nat := 0
  acked : Nat := 0
  /-- events the reader has read to the end or skipped (since the queue was created) -/
  consumed : Nat := 0
  /-- unread bytes of event `consumed`; 0 = no event is being read -/
  left : Nat := 0
  inRead : Bool := false
  deriving Repr, DecidableEq, Inhabited

/-- a flush: every finished event is durable; the `Flushed` callback reports the new ones -/
def ASpec.doFlush (a : ASpec) : ASpec × Nat := ({ a with flushed := a.events.length }, a.events.length - a.flushed)

def ASpec.step (a : ASpec) (op : QOp) (fl : Bool) : Option (ASpec × QOut) :=
  match op with
  | .write p =>
    if a.inRead then none else
    if fl then
      let r := a.doFlush
      some ({ r.1 with cur := r.1.cur ++ p }, .wrote (some r.2))
    else some ({ a with cur := a.cur ++ p }, .wrote none)
  | .next =>
    if a.inRead || a.cur.isEmpty || decide (2 ^ 32 ≤ a.cur.length) then none else
    let a1 := { a with events := a.events ++ [a.cur], cur := [] }
    if fl then
      let r := a1.doFlush
      some (r.1, .wrote (some r.2))
    else some (a1, .wrote none)
  | .flush =>
    if a.inRead then none else
    let r := a.doFlush
    some (r.1, .wrote (some r.2))
  | .rbegin =>
    if a.inRead then some (a, .err .activeTx) else some ({ a with inRead := true }, .ok)
  | .rdone => some ({ a with inRead := false }, .ok)
  | .available =>
    if !a.inRead then some (a, .err .inactiveTx) else some (a, .count (a.flushed - a.consumed))
  | .rnext =>
    if !a.inRead then some (a, .err .inactiveTx) else
    -- the unread rest of the current event is skipped
    let c := if a.left = 0 then a.consumed else a.consumed + 1
    if c < a.flushed then
      let L := (a.events.getD c []).length
      some ({ a with consumed := c, left := L }, .size L)
    else some ({ a with consumed := c, left := 0 }, .size 0)
  | .rread n =>
    if !a.inRead then some (a, .err .inactiveTx) else
    if a.left = 0 then some (a, .bytes []) else
    let e := a.events.getD a.consumed []
    let k := min n a.left
    let out := (e.drop (e.length - a.left)).take k
    if a.left - k = 0 then some ({ a with left := 0, consumed := a.consumed + 1 }, .bytes out)
    else some ({ a with left := a.left - k }, .bytes out)
  | .ack n =>
    if n = 0 then some (a, .ok) else
    if a.flushed = 0 then some (a, .err .ackEmpty) else
    if n > a.flushed - a.acked then some (a, .err .ackTooMany) else
    if a.inRead then none else
    -- only events the reader has been given (completely, or the one it is reading) may be acknowledged
    if a.acked + n > a.consumed + (if a.left = 0 then 0 else 1) then none else
    some ({ a with acked := a.acked + n }, .ok)
  | .reopen =>
    if a.inRead then none else
    -- Close flushes the buffer, the unfinished event is dropped, the new reader starts behind the ACKed events
    some ({ a with cur := [], flushed := a.events.length, consumed := a.acked, left := 0 }, .ok)
  | .counters =>
    some (a, .counters (a.flushed - a.acked) (a.flushed - a.acked) a.flushed a.acked)

/-- run the specification with the flush oracle `fls` (one entry per operation); `none` = out of contract -/
def ASpec.run : ASpec → List QOp → List Bool → Option (ASpec × List QOut)
  | a, [], _ => some (a, [])
  | a, op :: ops, fls =>
    match a.step op (fls.headD false) with
    | none => none
    | some (a1, o) =>
      match ASpec.run a1 ops fls.tail with
      | none => none
      | some (a2, os) => some (a2, o :: os)

/-- the flush oracle of the concrete machine: for every operation whether it flushed implicitly -/
def PQState.flushTrace (c : QCfg) : PQState → List QOp → List Bool
  | _, [] => []
  | q, op :: ops => q.autoFlush c op :: PQState.flushTrace c (q.step c op).1 ops

/-! ## crashes (C06)

  A crash stops the process: the write buffer, the reader and the ACK bookkeeping are lost; the file keeps the
  last committed transaction state (engine level: Props/C01, Props/C06 `queue_crash`), i.e. the persisted
  page chain, the root header and the tail position.  Then the queue is opened again: `newWriter` on the
  persisted tail page (`WState.reopen`, as for `reopen` but WITHOUT the flush of `Close`), a new reader with a
  nil cursor (positions itself on the root header's `read`/`head` position at its first call).

  Every flush and every ACK is ONE engine transaction (Tie: `pq_flush_is_one_tx`, `pq_ack_is_one_tx`), so a
  crash while an operation's transaction is in progress recovers either the state before the transaction or
  the state after it: `crashDuring op committed`.  For `write`/`next` with an automatic flush the transaction
  is that flush; what the call did to the buffer is lost either way.  Operations without a transaction
  (reader calls, `write`/`next` that do not flush, rejected ACKs, `counters`) change nothing on disk: both
  outcomes coincide with `crash`.

  The callback totals `totFlushed`/`totAcked` are kept as ghost counters over the life of the queue (a new
  process starts its own callbacks at 0); they equal the specification's `flushed`/`acked`.
  A `Close` whose final flush fails (out of space, I/O fault) followed by opening the queue again has exactly
  the effect of `crash`: this is how the driver replays such lines of the implementation's traces. -/

/-- queue operations with crash points -/
inductive QCOp where
  | op (o : QOp)
  /-- the process stops between two queue operations, the queue is opened again -/
  | crash
  /-- the process stops inside `o`; `committed`: the transaction of `o` had committed (its after-state is
      recovered), otherwise its before-state -/
  | crashDuring (o : QOp) (committed : Bool)
  deriving Repr, DecidableEq

/-- crash + open: buffer and reader are lost, chain, root header and tail position stay -/
def PQState.crash (c : QCfg) (q : PQState) : PQState :=
  { q with w := q.w.reopen c.S c.pages, r := {} }

def PQState.cstep (c : QCfg) (q : PQState) : QCOp → PQState × QOut
  | .op o => q.step c o
  | .crash => (q.crash c, .ok)
  | .crashDuring o committed => ((if committed then (q.step c o).1 else q).crash c, .ok)

def PQState.crun (c : QCfg) : PQState → List QCOp → PQState × List QOut
  | q, [] => (q, [])
  | q, op :: ops =>
    let r := q.cstep c op
    let rest := PQState.crun c r.1 ops
    (rest.1, r.2 :: rest.2)

/-- specification of a crash: the events that were not flushed are gone (the ids of later events continue
    from the flushed count), the event being written is gone, a new reader starts behind the ACKed events -/
def ASpec.crash (a : ASpec) : ASpec :=
  { a with events := a.events.take a.flushed, cur := [], consumed := a.acked, left := 0, inRead := false }

/-- `fl`: the flush oracle for the operation (`PQState.autoFlush`), only looked at for `.op o` and
    `.crashDuring o true`.  A crash is always possible; `crashDuring o true` needs `o` inside the contract. -/
def ASpec.cstep (a : ASpec) (op : QCOp) (fl : Bool) : Option (ASpec × QOut) :=
  match op with
  | .op o => a.step o fl
  | .crash => some (a.crash, .ok)
  | .crashDuring o true => (a.step o fl).map fun r => (r.1.crash, .ok)
  | .crashDuring _ false => some (a.crash, .ok)

def QCOp.inner : QCOp → Option QOp
  | .op o => some o
  | .crash => none
  | .crashDuring o _ => some o

/-- the flush oracle of the concrete machine for an operation with crash points -/
def PQState.cautoFlush (c : QCfg) (q : PQState) (op : QCOp) : Bool :=
  match op.inner with
  | some o => q.autoFlush c o
  | none => false

def ASpec.crun : ASpec → List QCOp → List Bool → Option (ASpec × List QOut)
  | a, [], _ => some (a, [])
  | a, op :: ops, fls =>
    match a.cstep op (fls.headD false) with
    | none => none
    | some (a1, o) =>
      match ASpec.crun a1 ops fls.tail with
      | none => none
      | some (a2, os) => some (a2, o :: os)

def PQState.cflushTrace (c : QCfg) : PQState → List QCOp → List Bool
  | _, [] => []
  | q, op :: ops => q.cautoFlush c op :: PQState.cflushTrace c (q.cstep c op).1 ops

end TxVerif
