/-
  ONE writer thread and any number of reader threads on one file: small-step semantics over the engine model
  (`FileSt`, `EOp`, `flushList`, `commitAfterFlush`, `txAbort`) with the transaction lock of txfile (`LockSt`,
  Model/Lock.lean).  C02.

  (This file imports `TxnO` / `ERunSt.start` from Props/C03History.lean and `EOp` from Proofs/Refine.lean, where the
  sequential engine runs are defined; everything here is executable.)

  Shared state
    `com`    the committed in-memory state: what a transaction that begins now sees — root, overwrite mapping, mapping
             pages, allocator.  (Its `disk` field is the disk as it was when the running write transaction began; while
             no writer is active it is the disk.)
    the DISK the page contents.  While a write transaction is active the disk is the `disk` field of the writer's
             private file state (`EState.curFile`): the writer's flushes, checkpoint copy-backs and the commit's own
             writes go to the disk WHILE READERS RUN.  Shadow paging must make them invisible.
    `lock`   shared count / pending / reserved.
  Writer thread (thread 0), program: a list of write transactions `WTxn` (options and operations of a `TxnO`, and
  whether the client ends it with Commit or with Rollback/Close).  Steps, as in file.go / tx.go (`tryCommitChanges`:
  pending.Lock, flushPages, commit to file, exclusive.Lock, in-memory switch — `Tie.switch_after_exclusive`):
    wBegin     reserved.Lock (blocks while held); the private `ERunSt` starts from `com`
    wOp        one engine operation `EOp` (alloc / write / load / read / free / flush of a page / flush of all pages /
               checkpoint) on the private state and the disk
    wRollback  after the last operation of a transaction that ends with Rollback: allocator rolled back, reserved.Unlock
    wPending   Commit: pending.Lock (never blocks; from now on no read transaction begins)
    wWork      the final flush and `commitAfterFlush` (optional checkpoint, mapping and free lists written, header
               written): everything the commit writes is on the disk now.  If the flush fails, leaves pages unflushed,
               or the commit fails (out of space): rollback, pending.Unlock, reserved.Unlock.  Otherwise the new
               committed state `F` waits for the switch.
    wSwitch    exclusive.Lock — ENABLED ONLY WHILE NO READER HOLDS THE SHARED LOCK — then the in-memory switch
               `com := F` (the version counter goes up), exclusive/pending/reserved.Unlock
  Reader thread `i` (thread `i + 1`), program: `begin | read id | close`:
    begin      shared.Lock — BLOCKS WHILE PENDING IS SET —; the reader captures its snapshot: the committed state
               `com` (root, mapping, data end) and — ghost — the pages the client owns, the version counter
    read id    the content of page `id`: through the SNAPSHOT's mapping, from the CURRENT disk
               (`(curFile s).diskAt (snap.physOf id)`); logged with the content the page had in the snapshot's
               committed state (`snap.readPage id`) and with what the abstract store of the last commit holds for it
    close      shared.Unlock (a program that ends inside a transaction closes it: deferred `Tx.Close`)
  A schedule is a list of thread ids; a scheduled thread that cannot step (blocked or finished) is skipped.
-/
import TxVerif.Props.C03History
import TxVerif.Model.Lock
namespace TxVerif

/-- a write transaction of the writer's program -/
structure WTxn where
  t : TxnO
  /-- the client ends it with Rollback / Close instead of Commit -/
  rollback : Bool := false

/-- a call of a reader thread -/
inductive ROp
  | begin
  | read (id : Nat)
  | close
  deriving Repr, DecidableEq, Inhabited

/-- one read, as logged (ghost) -/
structure RdEv where
  id : Nat
  /-- what the reader got -/
  got : Content
  /-- the content of the page in the committed state the reader's snapshot was taken from -/
  exp : Content
  /-- the client owned the page in that committed state -/
  owned : Bool
  /-- what the abstract store of the last completed commit holds for the page (`none`: allocated and never written) -/
  sigma : Option Content
  /-- number of commits completed when the read was made -/
  ver : Nat
  /-- the number of the reader's transaction the read was made in -/
  tx : Nat
  deriving Repr, DecidableEq, Inhabited

/-- the snapshot of an open read transaction: the committed state at its begin (mapping, root, data end; the `disk`
    field and the two other components are ghost: the pages the client owned, the number of commits completed) -/
structure Snap where
  f : FileSt
  live : List Nat
  ver : Nat

structure RTh where
  prog : List ROp
  snap : Option Snap := none
  /-- ghost: number of read transactions begun so far -/
  ntx : Nat := 0
  log : List RdEv := []

/-- where the writer thread is -/
inductive WPc
  | idle
  /-- inside a write transaction: private state, operations still to run -/
  | active (r : ERunSt) (ops : List EOp)
  /-- Commit called, pending lock taken, nothing written yet -/
  | pending (r : ERunSt)
  /-- everything is written; `F` is the new committed state, `cur` the pages the client owns then, `σ` the abstract
      store of the transaction; waiting for the exclusive lock -/
  | waitExcl (F : FileSt) (cur : List Nat) (σ : Nat → Option Content)

/-- how a write transaction ended (ghost) -/
inductive WOut | committed | failed | rolledBack
  deriving Repr, DecidableEq, Inhabited

structure EState where
  com : FileSt
  /-- ghost: the pages the client owns in the committed state -/
  live : List Nat
  lock : LockSt := {}
  wpc : WPc := .idle
  /-- the write transactions still to run (the head is the one in progress, if any) -/
  wprog : List WTxn
  rds : List RTh
  /-- ghost: number of commits completed -/
  ver : Nat := 0
  /-- ghost: the abstract store of the last completed commit (initially: the committed contents) -/
  lastσ : Nat → Option Content
  /-- ghost: outcomes of the finished write transactions -/
  wlog : List WOut := []

def EState.init (com : FileSt) (live : List Nat) (wprog : List WTxn) (rprogs : List (List ROp)) : EState :=
  { com, live, wprog, rds := rprogs.map fun p => { prog := p }, lastσ := fun id => some (com.readPage id) }

/-- the file state whose `disk` field is the disk right now -/
def EState.curFile (s : EState) : FileSt :=
  match s.wpc with
  | .idle => s.com
  | .active r _ => r.f
  | .pending r => r.f
  | .waitExcl F _ _ => F

/-- the write transaction ends without commit: `com'` is the restored state -/
def EState.endTx (s : EState) (com' : FileSt) (o : WOut) : EState :=
  { s with com := com', lock := { s.lock with pending := false, reserved := false }, wpc := .idle,
           wprog := s.wprog.tail, wlog := s.wlog ++ [o] }

/-- one step of the writer thread; `none`: blocked or finished -/
def EState.stepW (s : EState) : Option EState :=
  match s.wprog with
  | [] => none
  | w :: _ =>
    match s.wpc with
    | .idle =>
      -- wBegin
      if s.lock.reserved then none
      else some { s with lock := { s.lock with reserved := true },
                         wpc := .active (ERunSt.start s.com s.live w.t.overflow w.t.growPct w.t.walLimit) w.t.ops }
    | .active r (op :: ops) => some { s with wpc := .active (op.step r) ops }
    | .active r [] =>
      if w.rollback then some (s.endTx (txAbort r.f r.tx) .rolledBack)
      else some { s with lock := { s.lock with pending := true }, wpc := .pending r }
    | .pending r =>
      -- wWork
      match flushList r.f r.tx w.t.order with
      | .error _ => some (s.endTx (txAbort r.f r.tx) .failed)
      | .ok (f2, tx2, _) =>
        if tx2.unflushed = [] then
          if (commitAfterFlush f2 tx2).2.1 = .ok then
            some { s with wpc := .waitExcl (commitAfterFlush f2 tx2).1 r.cur r.σ }
          else some (s.endTx (commitAfterFlush f2 tx2).1 .failed)
        else some (s.endTx (txAbort f2 tx2) .failed)
    | .waitExcl F cur σ =>
      -- wSwitch
      if s.lock.shared ≠ 0 then none
      else some { s with com := F, live := cur, ver := s.ver + 1, lastσ := σ,
                         lock := { s.lock with pending := false, reserved := false }, wpc := .idle,
                         wprog := s.wprog.tail, wlog := s.wlog ++ [.committed] }

/-- one step of a reader thread on the shared state; returns the new thread state and the new lock -/
def RTh.step (s : EState) (r : RTh) : Option (RTh × LockSt) :=
  match r.prog, r.snap with
  | [], none => none
  | [], some _ => some ({ r with snap := none }, { s.lock with shared := s.lock.shared - 1 })
  | .begin :: p, none =>
    if s.lock.pending then none
    else some ({ r with prog := p, snap := some ⟨s.com, s.live, s.ver⟩, ntx := r.ntx + 1 },
               { s.lock with shared := s.lock.shared + 1 })
  | .begin :: p, some _ => some ({ r with prog := p }, s.lock)        -- already inside a transaction: ignored
  | .read id :: p, some sn =>
    some ({ r with prog := p,
                   log := r.log ++ [{ id, got := s.curFile.diskAt (sn.f.physOf id), exp := sn.f.readPage id,
                                      owned := sn.live.contains id, sigma := s.lastσ id, ver := s.ver, tx := r.ntx }] }, s.lock)
  | .read _ :: p, none => some ({ r with prog := p }, s.lock)         -- no transaction: an error, nothing is read
  | .close :: p, some _ => some ({ r with prog := p, snap := none }, { s.lock with shared := s.lock.shared - 1 })
  | .close :: p, none => some ({ r with prog := p }, s.lock)

/-- a step of thread `t`: 0 is the writer, `i + 1` reader `i` -/
def EState.step (s : EState) : Nat → Option EState
  | 0 => s.stepW
  | i + 1 =>
    match s.rds[i]? with
    | none => none
    | some r =>
      match r.step s with
      | none => none
      | some (r', l') => some { s with rds := s.rds.set i r', lock := l' }

/-- run a schedule; a scheduled thread that cannot step is skipped -/
def EState.run : EState → List Nat → EState
  | s, [] => s
  | s, t :: ts =>
    match s.step t with
    | some s' => EState.run s' ts
    | none => EState.run s ts

/-- all programs are finished and every transaction is closed -/
def EState.finished (s : EState) : Bool :=
  s.wprog.isEmpty && s.rds.all fun r => r.prog.isEmpty && r.snap.isNone

end TxVerif
