/-
  The page allocator of go-txfile (alloc.go, freelist.go) on id sets.
  Mirrors what the code does: data area / meta area free lists and end markers,
  the transaction local undo/redo state, meta-area growth (`Ensure`/`tryGrow`),
  the three allocation strategies, `Free` with immediate recycling of new
  pages, `Rollback`, and the allocator part of the commit.
-/
import TxVerif.Model.IdSet
namespace TxVerif

structure Area where
  endMarker : Nat := 0
  free : List Nat := []          -- ascending ids
  deriving Repr, DecidableEq, Inhabited

structure TxArea where
  end0 : Nat := 0                -- end marker when the transaction began
  allocated : List Nat := []     -- allocated from the free list
  new_ : List Nat := []          -- allocated from the end of the file / continuous regions
  freed : List Nat := []         -- freed within the transaction
  deriving Repr, DecidableEq, Inhabited

structure TxAlloc where
  data : TxArea := {}
  mta : TxArea := {}
  moveToMeta : List Nat := []    -- pages moved from the data area into the meta area
  fromOverflow : List Nat := []  -- pages added to the meta area from the overflow area
  overflow : Bool := false
  growPct : Nat := 80
  sAlloc : Nat := 0              -- stats.data.alloc
  sFreed : Nat := 0              -- stats.data.freed
  sToMeta : Nat := 0             -- stats.toMeta
  deriving Repr, DecidableEq, Inhabited

structure Alloc where
  maxPages : Nat := 0
  pageSize : Nat := 4096
  data : Area := {}
  mta : Area := {}
  metaTotal : Nat := 0
  freelistPages : List Nat := []
  deriving Repr, DecidableEq, Inhabited

def noLimit : Nat := 18446744073709551615

def Alloc.beginTx (a : Alloc) (overflow : Bool) (growPct : Nat) : TxAlloc :=
  { data := { end0 := a.data.endMarker }, mta := { end0 := a.mta.endMarker },
    overflow := overflow, growPct := if growPct = 0 then 80 else growPct }

/-- `dataAllocator.Avail` -/
def Alloc.dataAvail (a : Alloc) : Nat :=
  if a.maxPages = 0 then noLimit
  else a.data.free.length + (if a.data.endMarker < a.maxPages then a.maxPages - a.data.endMarker else 0)

def bumpMetaEnd (a : Alloc) : Alloc :=
  if a.mta.endMarker < a.data.endMarker then { a with mta := { a.mta with endMarker := a.data.endMarker } } else a

/-- `dataAllocator.AllocRegionsWith`: n pages, lowest free ids first, the rest
    from the end of the file. `none` = not enough space (nothing changes). -/
def dataAllocRegions (a : Alloc) (st : TxAlloc) (n : Nat) : Option (Alloc × TxAlloc × List Nat) :=
  if a.dataAvail < n then none else
  let k := min n a.data.free.length
  let fromFree := a.data.free.take k
  let rest := n - k
  let fromEnd := idRange a.data.endMarker rest
  let a1 : Alloc := { a with data := { endMarker := a.data.endMarker + rest, free := a.data.free.drop k } }
  let a2 := if rest > 0 then bumpMetaEnd a1 else a1
  let st1 : TxAlloc := { st with
    data := { st.data with allocated := unionIds fromFree st.data.allocated, new_ := unionIds fromEnd st.data.new_ },
    sAlloc := st.sAlloc + n }
  some (a2, st1, fromFree ++ fromEnd)

/-- `dataAllocator.AllocContinuousRegion` -/
def dataAllocContinuous (a : Alloc) (st : TxAlloc) (n : Nat) : Option (Alloc × TxAlloc × List Nat) :=
  if a.dataAvail < n then none else
  match allocContinuous a.data.free n with
  | some (taken, rest) =>
    some ({ a with data := { a.data with free := rest } },
          { st with data := { st.data with new_ := unionIds taken st.data.new_ }, sAlloc := st.sAlloc + n }, taken)
  | none =>
    let room := if a.data.endMarker < a.maxPages then a.maxPages - a.data.endMarker else 0
    if a.maxPages > 0 ∧ room < n then none else
    let ids := idRange a.data.endMarker n
    let a1 := bumpMetaEnd { a with data := { a.data with endMarker := a.data.endMarker + n } }
    some (a1, { st with data := { st.data with new_ := unionIds ids st.data.new_ }, sAlloc := st.sAlloc + n }, ids)

def lastRun (l : List Nat) : Option (Nat × Nat) := (runs l).getLast?

/-- `dataAllocator.Free` (ids out of bounds panic in the code; callers check) -/
def dataFree (a : Alloc) (st : TxAlloc) (id : Nat) : Alloc × TxAlloc :=
  let st := { st with sFreed := st.sFreed + 1 }
  if !st.data.new_.contains id then
    (a, { st with data := { st.data with freed := insertId id st.data.freed } })
  else
    let free := insertId id a.data.free
    let a := { a with data := { a.data with free := free } }
    if st.data.end0 ≥ id then (a, st) else
    match lastRun free with
    | none => (a, st)
    | some (s, c) =>
      let e := s + c
      if e < a.data.endMarker then (a, st) else
      let start := if st.data.end0 > s then st.data.end0 else s
      let free' := removeRange free start e
      let metaEnd := if a.mta.endMarker = a.data.endMarker then max start st.mta.end0 else a.mta.endMarker
      ({ a with data := { endMarker := start, free := free' }, mta := { a.mta with endMarker := metaEnd } }, st)

def nextPow2 (u : Nat) : Nat := if u = 0 then 1 else 2 ^ (Nat.log2 u + 1)

/-- `metaAreaTargetQuota`; the float comparison `100*used/max > pct` is the
    integer comparison `100*used > pct*max` (exact below 2^45 pages). -/
def metaQuota (total used growPct : Nat) : Nat × Nat :=
  let mx := max (nextPow2 used) total
  let needsGrow := 100 * used > growPct * mx
  let mn := max used total
  (mn, if needsGrow then mx * 2 else mx)

def transferToMeta (a : Alloc) (st : TxAlloc) (ids : List Nat) : Alloc × TxAlloc :=
  ({ a with metaTotal := a.metaTotal + ids.length, mta := { a.mta with free := unionIds ids a.mta.free } },
   { st with moveToMeta := unionIds ids st.moveToMeta, sToMeta := st.sToMeta + ids.length })

/-- `metaManager.tryGrow` -/
def tryGrow (a : Alloc) (st : TxAlloc) (count : Nat) (withOverflow : Bool) : Option (Alloc × TxAlloc) :=
  let avail := a.dataAvail
  if count = 0 then some (a, st) else
  if avail < count then
    if !withOverflow then none else
    match dataAllocRegions a st avail with
    | none => none   -- unreachable: avail pages are available
    | some (a1, st1, ids) =>
      let (a2, st2) := if ids.isEmpty then (a1, st1) else transferToMeta a1 st1 ids
      let required := count - avail
      let ov := idRange a2.mta.endMarker required
      let a3 : Alloc := { a2 with
        mta := { endMarker := a2.mta.endMarker + required, free := unionIds ov a2.mta.free },
        metaTotal := a2.metaTotal + required }
      let st3 : TxAlloc := { st2 with
        mta := { st2.mta with new_ := unionIds ov st2.mta.new_ },
        fromOverflow := unionIds ov st2.fromOverflow, sToMeta := st2.sToMeta + required }
      let a4 := if a3.maxPages = 0 ∧ a3.data.endMarker < a3.mta.endMarker
                then { a3 with data := { a3.data with endMarker := a3.mta.endMarker } } else a3
      some (a4, st3)
  else
    match dataAllocContinuous a st count with
    | some (a1, st1, ids) => some (transferToMeta a1 st1 ids)
    | none =>
      match dataAllocRegions a st count with
      | some (a1, st1, ids) => some (transferToMeta a1 st1 ids)
      | none => none

/-- `metaManager.Ensure` -/
def ensureMeta (a : Alloc) (st : TxAlloc) (n : Nat) : Option (Alloc × TxAlloc) :=
  let total := a.metaTotal
  let used := total - a.mta.free.length
  let (szMin, szMax) := metaQuota total (used + n) st.growPct
  if szMax = total then some (a, st) else
  match tryGrow a st (szMax - total) false with
  | some r => some r
  | none => tryGrow a st (szMin - total) st.overflow

/-- `walAllocator.Alloc`: one overwrite page from the meta area -/
def walAlloc (a : Alloc) (st : TxAlloc) : Option (Alloc × TxAlloc × Nat) :=
  match ensureMeta a st 1 with
  | none => none
  | some (a1, st1) =>
    match allocContinuous a1.mta.free 1 with
    | some ([id], rest) =>
      some ({ a1 with mta := { a1.mta with free := rest } },
            { st1 with mta := { st1.mta with allocated := insertId id st1.mta.allocated } }, id)
    | _ => none

/-- `metaAllocator.AllocRegions`: n pages from the end of the meta free list -/
def metaAllocRegions (a : Alloc) (st : TxAlloc) (n : Nat) : Option (Alloc × TxAlloc × List Nat) :=
  match ensureMeta a st n with
  | none => none
  | some (a1, st1) =>
    let k := min n a1.mta.free.length
    if k = 0 then none else
    let keep := a1.mta.free.length - k
    let ids := a1.mta.free.drop keep
    some ({ a1 with mta := { a1.mta with free := a1.mta.free.take keep } },
          { st1 with mta := { st1.mta with allocated := unionIds ids st1.mta.allocated } }, ids)

def metaFreeId (st : TxAlloc) (id : Nat) : TxAlloc :=
  { st with mta := { st.mta with freed := insertId id st.mta.freed } }

def metaFreeIds (st : TxAlloc) (ids : List Nat) : TxAlloc := ids.foldl metaFreeId st

def TxArea.updated (t : TxArea) : Bool := !t.allocated.isEmpty || !t.new_.isEmpty || !t.freed.isEmpty
def TxAlloc.updated (st : TxAlloc) : Bool := st.mta.updated || st.data.updated

/-- `allocArea.rollback` (with the removal of ids past the old end marker) -/
def areaRollback (ar : Area) (t : TxArea) : Area :=
  let back := t.allocated.filter (· < t.end0)
  { endMarker := t.end0, free := removeRange (unionIds back ar.free) t.end0 ar.endMarker }

/-- `allocator.Rollback` -/
def Alloc.rollback (a : Alloc) (st : TxAlloc) : Alloc :=
  let meta1 := areaRollback a.mta st.mta
  let meta2 : Area := { meta1 with free := removeIds (removeIds meta1.free st.moveToMeta) st.fromOverflow }
  let total := a.metaTotal - st.moveToMeta.length - st.fromOverflow.length
  let dataTx : TxArea := { st.data with allocated := unionIds st.moveToMeta st.data.allocated }
  { a with mta := meta2, metaTotal := total, data := areaRollback a.data dataTx }

/-- number of pages predicted for serialising the free lists (freelist.go:473-494) -/
def predictStep (payload : Nat) (st : Nat × Nat) (count : Nat) : Nat × Nat :=
  let sz := regionEncSize count
  let (pages, avail) := st
  if avail < sz then (pages + 1, payload - sz) else (pages, avail - sz)

def predictFreelistPages (pageSize : Nat) (lists : List (List Nat)) : Nat :=
  let payload := pageSize - 12
  let st := lists.foldl (fun st l => (runs l).foldl (fun st r => predictStep payload st r.2) st) (0, 0)
  if st.1 > 0 then (predictStep payload (predictStep payload st 4294967295) 4294967295).1 else 0

/-- number of ids `e-1, e-2, …` that are ≥ `lo` and contained in the descending list -/
def topRunLen : List Nat → Nat → Nat → Nat
  | [], _, _ => 0
  | x :: xs, lo, e => if x + 1 = e ∧ lo ≤ x then 1 + topRunLen xs lo x else 0

/-- `releaseOverflowPages` on an id set -/
def releaseOverflow (l : List Nat) (maxPages endMarker : Nat) : List Nat × Nat :=
  if maxPages = 0 ∨ maxPages ≥ endMarker then (l, 0) else
  let k := topRunLen l.reverse maxPages endMarker
  (l.take (l.length - k), k)

structure AllocCommit where
  updated : Bool := false
  allocRegions : List Nat := []
  dataEnd : Nat := 0
  metaEnd : Nat := 0
  metaList : List Nat := []
  dataList : List Nat := []
  overflowFreed : Nat := 0
  deriving Repr, DecidableEq, Inhabited

/-- `allocator.fileCommitAlloc`; `none` = out of memory -/
def fileCommitAlloc (a : Alloc) (st : TxAlloc) (updated : Bool) : Option (Alloc × TxAlloc × AllocCommit) :=
  if !updated then some (a, st, {}) else
  let n := predictFreelistPages a.pageSize [st.data.freed, st.mta.freed, a.data.free, a.mta.free]
  let r := if n > 0 then (metaAllocRegions a st n).map (fun (a1, st1, ids) => (a1, st1, ids)) else some (a, st, [])
  match r with
  | none => none
  | some (a1, st1, regs) =>
    let newData := unionIds st1.data.freed a1.data.free
    let newMeta := unionIds st1.mta.freed a1.mta.free
    let dataEnd := a1.data.endMarker
    let metaEnd := a1.mta.endMarker
    let (metaList, ovf) := releaseOverflow newMeta a1.maxPages metaEnd
    let (dataEnd1, metaEnd1) :=
      if ovf > 0 then ((if metaEnd > dataEnd then metaEnd - ovf else dataEnd), metaEnd - ovf) else (dataEnd, metaEnd)
    let (dataList, dfreed) := releaseOverflow newData a1.maxPages dataEnd1
    let dataEnd2 := dataEnd1 - dfreed
    let metaEnd2 := if dfreed > 0 ∧ metaEnd1 ≤ dataEnd1 ∧ metaEnd1 ≥ dataEnd2 then dataEnd2 else metaEnd1
    some (a1, st1, { updated := true, allocRegions := regs, dataEnd := dataEnd2, metaEnd := metaEnd2,
                     metaList := metaList, dataList := dataList, overflowFreed := ovf })

/-- `allocator.absorbOverflowArea` (run when the allocator state is read at open and after the limit
    was raised or removed): if the data area may grow, it has to grow behind the meta pages of the
    overflow area, so the data end marker is raised to the meta end marker -/
def Alloc.absorbOverflow (a : Alloc) : Alloc :=
  if a.data.endMarker < a.mta.endMarker ∧ (a.maxPages = 0 ∨ a.data.endMarker < a.maxPages)
  then { a with data := { a.data with endMarker := a.mta.endMarker } } else a

/-- `allocator.Commit` -/
def Alloc.commit (a : Alloc) (c : AllocCommit) : Alloc :=
  if !c.updated then a else
  { a with freelistPages := c.allocRegions,
           data := { endMarker := c.dataEnd, free := c.dataList },
           mta := { endMarker := c.metaEnd, free := c.metaList },
           metaTotal := a.metaTotal - c.overflowFreed }

end TxVerif
