/-
  C14 — releasing pages above a lowered limit (`releaseOverflowPages`, alloc.go) and what the
  commit does with the end markers (`fileCommitAlloc`).
  `releaseOverflow l maxPages e` removes from the free id list `l` the maximal run of free pages
  `e-1, e-2, …` that are `≥ maxPages` and end exactly at the end marker `e`, and returns how many.
  Proofs: `TxVerif/Proofs/Account.lean`.
-/
import TxVerif.Proofs.Account
namespace TxVerif

/-- (a) what is kept is a prefix of the list (nothing else is removed); what is removed was free,
    is `≥ maxPages` and below the end marker -/
theorem releaseOverflow_subset (l : List Nat) (maxPages endMarker : Nat) :
    let r := releaseOverflow l maxPages endMarker
    r.1 = l.take (l.length - r.2) ∧ r.2 ≤ l.length ∧
    ∀ x ∈ l.drop (l.length - r.2), maxPages ≤ x ∧ x < endMarker ∧ x ∈ l := by
  dsimp only
  refine ⟨releaseOverflow_take l maxPages endMarker, ?_, ?_⟩
  · have := releaseOverflow_length l maxPages endMarker; omega
  · intro x hx
    refine ⟨?_, ?_, List.mem_of_mem_drop hx⟩ <;>
    · rw [releaseOverflow_drop, mem_idRange] at hx
      have := releaseOverflow_first l maxPages endMarker (by omega)
      omega

/-- (b) the removed ids are exactly `[endMarker - k, endMarker)`; lowering the end marker by `k`
    never drops a page that is not free -/
theorem releaseOverflow_contiguous (l : List Nat) (maxPages endMarker : Nat) :
    let r := releaseOverflow l maxPages endMarker
    l = r.1 ++ idRange (endMarker - r.2) r.2 ∧ r.2 ≤ endMarker ∧
    ∀ id, id < endMarker → id ∉ l → id < endMarker - r.2 :=
  ⟨(releaseOverflow_decomp l maxPages endMarker).1, (releaseOverflow_decomp l maxPages endMarker).2.1,
   fun id h1 h2 => releaseOverflow_keeps_used l maxPages endMarker id h1 h2⟩

/-- (c) nothing more could be released: the page below the released run is not free or lies
    within the limit (list ascending, ids below the end marker) -/
theorem releaseOverflow_maximal (l : List Nat) (maxPages endMarker : Nat) (hasc : Asc l)
    (hlt : ∀ x ∈ l, x < endMarker) :
    let k := (releaseOverflow l maxPages endMarker).2
    (k = 0 ∧ (maxPages = 0 ∨ maxPages ≥ endMarker ∨ endMarker - 1 ∉ l ∨ endMarker - 1 < maxPages)) ∨
    (0 < k ∧ (endMarker - k - 1 ∉ l ∨ endMarker - k - 1 < maxPages)) := by
  intro k
  by_cases hm : maxPages = 0 ∨ maxPages ≥ endMarker
  · left
    refine ⟨?_, by omega⟩
    show (releaseOverflow l maxPages endMarker).2 = 0
    unfold releaseOverflow; rw [if_pos hm]
  · have := releaseOverflow_max l maxPages endMarker hasc hlt hm
    by_cases hk : k = 0
    · left
      refine ⟨hk, ?_⟩
      have hk' : (releaseOverflow l maxPages endMarker).2 = 0 := hk
      rw [hk', Nat.sub_zero] at this
      rcases this with h | h
      · exact Or.inr (Or.inr (Or.inl h))
      · exact Or.inr (Or.inr (Or.inr h))
    · right; exact ⟨by omega, this⟩

/-- the hypotheses of (c) are satisfiable, (c) needs the ids to lie below the end marker -/
example : Asc [2, 3, 7, 8, 9] ∧ (∀ x ∈ [2, 3, 7, 8, 9], x < 10) ∧ releaseOverflow [2, 3, 7, 8, 9] 5 10 = ([2, 3], 3) := by
  refine ⟨?_, by decide, by decide⟩
  unfold Asc; decide
example : releaseOverflow [2, 3, 7, 8, 9] 8 10 = ([2, 3, 7], 2) ∧ releaseOverflow [2, 3, 7, 9] 5 10 = ([2, 3, 7], 1) := by decide
example : (releaseOverflow [5, 9] 3 6).2 = 0 ∧ 6 - 1 ∈ [5, 9] ∧ ¬ 6 - 1 < 3 := by decide

/-- (d) the commit never cuts off a page in use: a page below the data end marker that is in
    neither of the new free lists stays below the new data end marker. No hypothesis needed. -/
theorem commit_keeps_live_data (a : Alloc) (st : TxAlloc) (a1 : Alloc) (st1 : TxAlloc) (cs : AllocCommit)
    (h : fileCommitAlloc a st true = some (a1, st1, cs)) (id : Nat) (hid : id < a1.data.endMarker)
    (hnd : id ∉ unionIds st1.data.freed a1.data.free) (hnm : id ∉ unionIds st1.mta.freed a1.mta.free) :
    id < cs.dataEnd := by
  rw [(fileCommitAlloc_some a st a1 st1 cs h).1]
  exact commitState_keeps_data a1 st1 _ id hid hnd hnm

/-- (d), as a statement about the data free list alone: if the meta pages beyond the limit lie
    beyond the data area (the overflow area), every page below the data end marker that is not in
    the new data free list stays below the new data end marker -/
theorem commit_keeps_data_pages (a : Alloc) (st : TxAlloc) (a1 : Alloc) (st1 : TxAlloc) (cs : AllocCommit)
    (h : fileCommitAlloc a st true = some (a1, st1, cs))
    (hsep : ∀ x ∈ unionIds st1.mta.freed a1.mta.free, a1.maxPages ≤ x → a1.data.endMarker ≤ x)
    (id : Nat) (hid : id < a1.data.endMarker) (hnd : id ∉ unionIds st1.data.freed a1.data.free) :
    id < cs.dataEnd := by
  rw [(fileCommitAlloc_some a st a1 st1 cs h).1]
  exact commitState_keeps_data' a1 st1 _ id hsep hid hnd

/-- without `hsep` the statement about the data free list alone fails: free meta pages 8, 9 inside
    the data area are released together with the overflow pages 10, 11 (they are free, not in use) -/
example :
    let a : Alloc := { maxPages := 5, data := { endMarker := 10 }, mta := { endMarker := 12, free := [3] }, metaTotal := 6 }
    let st : TxAlloc := { a.beginTx false 80 with mta := { end0 := 12, freed := [8, 9, 10, 11] } }
    (fileCommitAlloc a st true).map (fun r => (r.1.data.endMarker, unionIds r.2.1.data.freed r.1.data.free, r.2.2.dataEnd))
      = some (10, [], 8) := by decide

/-- the new free lists are prefixes of the merged lists -/
theorem commit_lists_prefix (a : Alloc) (st : TxAlloc) (a1 : Alloc) (st1 : TxAlloc) (cs : AllocCommit)
    (h : fileCommitAlloc a st true = some (a1, st1, cs)) :
    cs.dataList <+: unionIds st1.data.freed a1.data.free ∧ cs.metaList <+: unionIds st1.mta.freed a1.mta.free := by
  rw [(fileCommitAlloc_some a st a1 st1 cs h).1, commitState_eq]
  dsimp only
  unfold dataRel ovfRel
  rw [releaseOverflow_take, releaseOverflow_take (unionIds st1.mta.freed a1.mta.free)]
  exact ⟨List.take_prefix _ _, List.take_prefix _ _⟩

/-- (d) for the meta end marker — FULL, no hypothesis needed (after the repair of alloc.go: the meta
    end marker only follows the data end marker if it does not lie beyond the old end of the data
    area): a page below the meta end marker that is in neither of the new free lists stays below
    the new meta end marker -/
theorem commit_keeps_live_meta (a : Alloc) (st : TxAlloc) (a1 : Alloc) (st1 : TxAlloc) (cs : AllocCommit)
    (h : fileCommitAlloc a st true = some (a1, st1, cs))
    (id : Nat) (hid : id < a1.mta.endMarker)
    (hnd : id ∉ unionIds st1.data.freed a1.data.free) (hnm : id ∉ unionIds st1.mta.freed a1.mta.free) :
    id < cs.metaEnd := by
  rw [(fileCommitAlloc_some a st a1 st1 cs h).1]
  exact commitState_keeps_meta a1 st1 _ id hid hnd hnm

/-- the end markers never grow beyond the larger of the old ones -/
theorem commit_ends_bounded (a : Alloc) (st : TxAlloc) (a1 : Alloc) (st1 : TxAlloc) (cs : AllocCommit)
    (h : fileCommitAlloc a st true = some (a1, st1, cs)) :
    cs.metaEnd ≤ a1.mta.endMarker ∧ cs.dataEnd ≤ max a1.data.endMarker a1.mta.endMarker := by
  rw [(fileCommitAlloc_some a st a1 st1 cs h).1]
  exact commitState_ends a1 st1 _

/-- the state that was a COUNTEREXAMPLE on the pinned tree (then the missing piece of the partial
    version of `commit_keeps_live_meta`): limit lowered to 5, data area ends at 10 with page 9 free,
    overflow area `[10, 12)` in use (pages 10, 11 are in neither free list). The pinned code released
    page 9 and set BOTH end markers to 9, below the in-use meta pages 10 and 11 (found first as this
    `decide`-checked witness, then reproduced on the implementation: reopen failed / live pages read
    other pages' contents). After the repair in /repo (alloc.go: the meta end marker only follows the
    data end marker if it does not lie beyond the old end of the data area) the meta end marker stays 12. -/
example :
    let a : Alloc := { maxPages := 5, data := { endMarker := 10, free := [9] }, mta := { endMarker := 12, free := [3] }, metaTotal := 5 }
    (fileCommitAlloc a (a.beginTx false 80) true).map
      (fun r => (r.1.mta.endMarker, unionIds r.2.1.data.freed r.1.data.free, unionIds r.2.1.mta.freed r.1.mta.free,
                 r.2.2.dataEnd, r.2.2.metaEnd)) = some (12, [9], [], 9, 12) := by decide

/-- the hypotheses are satisfiable with a real shrink: limit 5, data area `[2, 10)`, pages 8, 9 free -/
example :
    let a : Alloc := { maxPages := 5, data := { endMarker := 10, free := [8, 9] },
                       mta := { endMarker := 10, free := [3, 4, 5] }, metaTotal := 4 }
    (fileCommitAlloc a (a.beginTx false 80) true).map
      (fun r => (r.1.data.endMarker, r.1.mta.endMarker, r.2.2))
      = some (10, 10, { updated := true, allocRegions := [5], dataEnd := 8, metaEnd := 8, metaList := [3, 4],
                        dataList := [], overflowFreed := 0 }) := by decide

/-- the meta end marker still follows a real shrink of the data area when the meta area ends inside it,
    and overflow pages and data pages can be released by the same commit (limit 5, overflow pages
    10, 11 freed by the transaction, data page 9 free): pages 7, 8 in use stay below both markers -/
example :
    let a : Alloc := { maxPages := 5, data := { endMarker := 10, free := [9] }, mta := { endMarker := 12, free := [3] }, metaTotal := 5 }
    let st : TxAlloc := { a.beginTx false 80 with mta := { end0 := 12, freed := [10, 11] } }
    (fileCommitAlloc a st true).map (fun r => (r.2.2.dataEnd, r.2.2.metaEnd, r.2.2.overflowFreed, r.2.2.dataList))
      = some (9, 9, 2, []) := by decide

/-! ### `absorbOverflow` (open / raised limit): pages handed out from the end of the file are fresh

  `M`: the meta pages in use. On a file WITH an overflow area meta pages (free or in use) may lie in
  `[data.endMarker, mta.endMarker)`; the only assumption is that they lie below the meta end marker. -/

/-- if the data area may grow, after `absorbOverflow` every meta page (free or in use) lies below
    the data end marker -/
theorem absorb_meta_below_end (a : Alloc) (M : List Nat) (hm : ∀ x ∈ a.mta.free ++ M, x < a.mta.endMarker)
    (hg : a.maxPages = 0 ∨ a.data.endMarker < a.maxPages) :
    ∀ x ∈ a.mta.free ++ M, x < a.absorbOverflow.data.endMarker := absorb_meta_below a M hm hg

/-- the same with the growth condition on the state after `absorbOverflow` -/
theorem absorb_meta_below_end_grown (a : Alloc) (M : List Nat) (hm : ∀ x ∈ a.mta.free ++ M, x < a.mta.endMarker)
    (hg : a.absorbOverflow.maxPages = 0 ∨ a.absorbOverflow.data.endMarker < a.absorbOverflow.maxPages) :
    ∀ x ∈ a.mta.free ++ M, x < a.absorbOverflow.data.endMarker := absorb_meta_below a M hm (absorb_growth a hg)

/-- hence every id at or beyond the data end marker is in no free list and not a meta page in use -/
theorem absorb_end_fresh (a : Alloc) (M : List Nat) (hm : ∀ x ∈ a.mta.free ++ M, x < a.mta.endMarker)
    (hd : ∀ x ∈ a.data.free, x < a.data.endMarker) (hg : a.maxPages = 0 ∨ a.data.endMarker < a.maxPages)
    (id : Nat) (hid : a.absorbOverflow.data.endMarker ≤ id) :
    id ∉ a.absorbOverflow.data.free ∧ id ∉ a.absorbOverflow.mta.free ∧ id ∉ M := by
  obtain ⟨e1, e2, -, e4⟩ := absorb_data a
  have hb := absorb_meta_below a M hm hg id
  rw [e1, e2]
  refine ⟨fun hf => ?_, fun hf => ?_, fun hf => ?_⟩
  · have := hd id hf; omega
  · have := hb (List.mem_append_left _ hf); omega
  · have := hb (List.mem_append_right _ hf); omega

/-- C04 after open / a raised limit: every page `Tx.Alloc` hands out comes from the data free list
    or is fresh — beyond the end marker, in neither free list, not a meta page in use. No growth
    hypothesis: a successful allocation from the end of the file implies that growth was possible. -/
theorem absorb_alloc_fresh (a : Alloc) (M : List Nat) (st : TxAlloc) (n : Nat) (a' : Alloc) (st' : TxAlloc) (ids : List Nat)
    (hm : ∀ x ∈ a.mta.free ++ M, x < a.mta.endMarker) (hd : ∀ x ∈ a.data.free, x < a.data.endMarker)
    (h : dataAllocRegions a.absorbOverflow st n = some (a', st', ids)) :
    ∀ x ∈ ids, x ∈ a.data.free ∨
      (a.absorbOverflow.data.endMarker ≤ x ∧ x ∉ a.data.free ∧ x ∉ a.mta.free ++ M) :=
  absorb_alloc a M st n a' st' ids hm hd h

/-- the hypotheses are satisfiable and `absorbOverflow` is needed: overflow area `[10, 12)` (page 10
    in use, page 11 free), limit raised from 10 to 20. Without `absorbOverflow` the allocator hands
    out the meta pages 10 and 11; with it the pages 12 and 13. -/
example :
    let a : Alloc := { maxPages := 20, data := { endMarker := 10, free := [4] }, mta := { endMarker := 12, free := [3, 11] }, metaTotal := 4 }
    (∀ x ∈ a.mta.free ++ [2, 10], x < a.mta.endMarker) ∧ (∀ x ∈ a.data.free, x < a.data.endMarker) ∧
    a.absorbOverflow.data.endMarker = 12 ∧
    (dataAllocRegions a (a.beginTx false 80) 3).map (·.2.2) = some [4, 10, 11] ∧
    (dataAllocRegions a.absorbOverflow (a.absorbOverflow.beginTx false 80) 3).map (·.2.2) = some [4, 12, 13] := by decide

/-- a file at its limit keeps its overflow area (nothing can be handed out from the end of the file) -/
example :
    let a : Alloc := { maxPages := 10, data := { endMarker := 10, free := [4] }, mta := { endMarker := 12, free := [3, 11] }, metaTotal := 4 }
    a.absorbOverflow = a ∧ (dataAllocRegions a (a.beginTx false 80) 2).isNone = true := by decide

end TxVerif
