/-
  C04 — exclusive page ownership: allocation never hands out a page that is in use.
-/
import TxVerif.Proofs.AllocFresh
import TxVerif.Proofs.Rollback
namespace TxVerif

/-- **alloc_fresh**: pages handed out by Alloc/AllocN are pairwise distinct, are not header pages,
    come from the data free list or from beyond the end marker, and are afterwards neither free
    nor beyond the end marker; the meta free list is untouched -/
theorem alloc_fresh_c04 (a : Alloc) (st : TxAlloc) (n : Nat) (a' : Alloc) (st' : TxAlloc) (ids : List Nat)
    (hasc : Asc a.data.free) (hfree : ∀ x ∈ a.data.free, 2 ≤ x ∧ x < a.data.endMarker) (hend : 2 ≤ a.data.endMarker)
    (h : dataAllocRegions a st n = some (a', st', ids)) :
    ids.length = n ∧ ids.Nodup ∧ (∀ x ∈ ids, 2 ≤ x ∧ (x ∈ a.data.free ∨ a.data.endMarker ≤ x)) ∧
    (∀ x ∈ ids, x ∉ a'.data.free) ∧ (∀ x ∈ ids, x < a'.data.endMarker) ∧
    (∀ x, x ∈ a'.data.free → x ∈ a.data.free) ∧ a'.mta.free = a.mta.free :=
  alloc_fresh a st n a' st' ids hasc hfree hend h

/-- **alloc_not_in_use**: let `used` be any set of pages that are in use — live in the committed
    state, live in the running transaction, freed by it, or used internally: such pages lie below
    the end marker and are not in the data free list. Then no allocated page is in use. -/
theorem alloc_not_in_use (a : Alloc) (st : TxAlloc) (n : Nat) (a' : Alloc) (st' : TxAlloc) (ids : List Nat)
    (hasc : Asc a.data.free) (hfree : ∀ x ∈ a.data.free, 2 ≤ x ∧ x < a.data.endMarker) (hend : 2 ≤ a.data.endMarker)
    (used : Nat → Prop) (hused : ∀ x, used x → x < a.data.endMarker ∧ x ∉ a.data.free)
    (h : dataAllocRegions a st n = some (a', st', ids)) : ∀ x ∈ ids, ¬ used x := by
  intro x hx hu
  have hf := (alloc_fresh a st n a' st' ids hasc hfree hend h).2.2.1 x hx
  have := hused x hu
  rcases hf.2 with h1 | h1
  · exact this.2 h1
  · omega

/-- a second allocation in the same transaction never returns a page of the first one -/
theorem allocs_disjoint (a : Alloc) (st : TxAlloc) (n m : Nat) (a1 a2 : Alloc) (st1 st2 : TxAlloc) (ids1 ids2 : List Nat)
    (hasc : Asc a.data.free) (hfree : ∀ x ∈ a.data.free, 2 ≤ x ∧ x < a.data.endMarker) (hend : 2 ≤ a.data.endMarker)
    (h1 : dataAllocRegions a st n = some (a1, st1, ids1))
    (hasc1 : Asc a1.data.free) (hfree1 : ∀ x ∈ a1.data.free, 2 ≤ x ∧ x < a1.data.endMarker)
    (h2 : dataAllocRegions a1 st1 m = some (a2, st2, ids2)) : ∀ x ∈ ids2, x ∉ ids1 := by
  intro x hx2 hx1
  have f1 := alloc_fresh a st n a1 st1 ids1 hasc hfree hend h1
  have hend1 : 2 ≤ a1.data.endMarker := by
    obtain ⟨k, rest, _, _, _, _, _, _, _, he, _⟩ := dataAllocRegions_spec a st n a1 st1 ids1 h1
    omega
  have f2 := alloc_fresh a1 st1 m a2 st2 ids2 hasc1 hfree1 hend1 h2
  rcases (f2.2.2.1 x hx2).2 with hh | hh
  · exact f1.2.2.2.1 x hx1 hh
  · have := f1.2.2.2.2.1 x hx1; omega

/-- a bounded file never hands out a page beyond its limit -/
theorem alloc_within_limit_c04 (a : Alloc) (st : TxAlloc) (n : Nat) (a' : Alloc) (st' : TxAlloc) (ids : List Nat)
    (hmax : 0 < a.maxPages) (hfree : ∀ x ∈ a.data.free, x < a.maxPages) (hend : a.data.endMarker ≤ a.maxPages)
    (h : dataAllocRegions a st n = some (a', st', ids)) : (∀ x ∈ ids, x < a.maxPages) ∧ a'.data.endMarker ≤ a.maxPages :=
  alloc_within_limit a st n a' st' ids hmax hfree hend h

/-- the allocator invariant used above holds in every state reachable inside a transaction that
    started from a well-formed state (from the rollback invariant): the free list stays ascending
    and inside the data area -/
theorem free_list_wellformed_in_tx (a0 : Alloc) (hwf : allocWF a0 = true) (ov : Bool) (pct : Nat) (ops : List AOp) :
    let s := runAOps (a0, a0.beginTx ov pct) ops
    Asc s.1.data.free ∧ ∀ x ∈ s.1.data.free, x < s.1.data.endMarker := by
  have hw := allocWF_spec a0 hwf
  have hinv := inv_run a0 hw ops (a0, a0.beginTx ov pct) (inv_init a0 hw ov pct)
  exact ⟨hinv.ascD, hinv.dFreeLt⟩

end TxVerif
