/-
  C15 — misuse is reported as an error, never a panic, and changes nothing.
  The guard model returns the error before any state is touched (the guards are the first
  statement of the methods — tie `Tie.guards_present` on facts regenerated from the sources),
  so a rejected call cannot change the committed state or the running transaction.
  The engine model covers the state-dependent rejections (out-of-range / freed page access,
  freeing a dirty page, writing a flushed or freed page, reading a fresh page without contents)
  and is replayed against the implementation; the whole method x state matrix is enumerated on
  the real code by the harness.
-/
import TxVerif.Model.Guards
import TxVerif.Gen.Facts
namespace TxVerif

/-- every Tx method except Close returns TxFinished (or TxReadOnly for a write method on a
    finished read-only transaction) on a finished transaction -/
theorem finished_tx_rejects (m : TxMethod) (ro : Bool) (hm : m ≠ .close) :
    txGuard m { active := false, readonly := ro } = some .finished ∨
    txGuard m { active := false, readonly := ro } = some .readonly := by
  cases m <;> cases ro <;> simp_all [txGuard, txCanWrite, txCanRead]

/-- Close on a finished transaction is the documented no-op -/
theorem close_idempotent (fl : TxFlags) : txGuard .close fl = none := rfl

/-- write methods on a read-only transaction return TxReadOnly -/
theorem readonly_rejects_writes (m : TxMethod) (act : Bool)
    (hm : m = .checkpoint ∨ m = .flush ∨ m = .alloc ∨ m = .allocN) :
    txGuard m { active := act, readonly := true } = some .readonly := by
  rcases hm with rfl | rfl | rfl | rfl <;> simp [txGuard, txCanWrite]

/-- page methods on a page of a finished transaction -/
theorem finished_page_rejects (m : PageMethod) (ro : Bool) (p : PageFlags) :
    pageGuard m { active := false, readonly := ro } p = some .finished ∨
    pageGuard m { active := false, readonly := ro } p = some .readonly := by
  cases m <;> cases ro <;> simp [pageGuard, pageCanWriteG, txCanWrite, txCanRead]

/-- writes to a page of a read-only transaction -/
theorem readonly_page_rejects (m : PageMethod) (act : Bool) (p : PageFlags) (hm : m ≠ .bytes) :
    pageGuard m { active := act, readonly := true } p = some .readonly := by
  cases m <;> simp_all [pageGuard, pageCanWriteG, txCanWrite]

/-- writing, loading, flushing or freeing a freed or flushed page: InvalidOp -/
theorem freed_or_flushed_rejects (m : PageMethod) (p : PageFlags) (hm : m ≠ .bytes)
    (hp : p.freed = true ∨ p.flushed = true) :
    pageGuard m { active := true, readonly := false } p = some .invalidop := by
  cases m <;> rcases hp with h | h <;> simp_all [pageGuard, pageCanWriteG, txCanWrite]

/-- freeing a dirty page: InvalidOp; oversize contents: InvalidParam; reading a fresh page
    without contents: InvalidOp -/
theorem free_dirty_rejects (p : PageFlags) (h1 : p.freed = false) (h2 : p.flushed = false) (h3 : p.dirty = true) :
    pageGuard .free { active := true, readonly := false } p = some .invalidop := by
  simp [pageGuard, pageCanWriteG, txCanWrite, h1, h2, h3]

theorem oversize_rejects (p : PageFlags) (h1 : p.freed = false) (h2 : p.flushed = false) :
    pageGuard .setBytesOversize { active := true, readonly := false } p = some .param := by
  simp [pageGuard, pageCanWriteG, txCanWrite, h1, h2]

theorem read_fresh_rejects (p : PageFlags) (h1 : p.new_ = true) (h2 : p.hasBytes = false) :
    pageGuard .bytes { active := true, readonly := false } p = some .invalidop := by
  simp [pageGuard, txCanRead, h1, h2]

/-- engine level: access to an out-of-range page id, to a page freed by the running transaction
    (also one it had allocated itself) is an error and returns no new state -/
theorem page_out_of_range (f : FileSt) (tx : TxSt) (id : Nat) (h : id < 2 ∨ f.alloc.data.endMarker ≤ id) :
    getPage f tx id = .error .pageid := by
  unfold getPage
  have : ¬ (2 ≤ id ∧ id < f.alloc.data.endMarker) := by omega
  simp [this]

theorem page_freed_rejected (f : FileSt) (tx : TxSt) (id : Nat) (hb : 2 ≤ id ∧ id < f.alloc.data.endMarker)
    (h : tx.ta.data.freed.contains id = true ∨ tx.ta.mta.freed.contains id = true ∨
      ∃ p, tx.pages.get? id = some p ∧ p.freed = true) : getPage f tx id = .error .invalidop := by
  unfold getPage
  rcases h with h | h | ⟨p, hp, hf⟩
  · have h' : id ∈ tx.ta.data.freed := by simpa using h
    simp [hb.1, hb.2, h']
  · have h' : id ∈ tx.ta.mta.freed := by simpa using h
    simp [hb.1, hb.2, h']
  · by_cases c : id ∈ tx.ta.data.freed ∨ id ∈ tx.ta.mta.freed
    · simp [hb.1, hb.2, c]
    · simp [hb.1, hb.2, c, hp, hf]

namespace Tie
/-- tie: the guards are present in the sources as the first statement of each method -/
theorem guards_present : Facts.guards =
    [("Tx.Rollback", "finishWith"), ("Tx.Commit", "finishWith"), ("Tx.Close", "flags.active"),
     ("Tx.CheckpointWAL", "canWrite"), ("Tx.Page", "getPage"), ("Tx.getPage", "canRead"), ("Tx.RootPage", "none"),
     ("Tx.Alloc", "canWrite"), ("Tx.AllocN", "canWrite"), ("Tx.Flush", "none"), ("Tx.flushPages", "canWrite"),
     ("Page.MarkDirty", "canWrite"), ("Page.Free", "canWrite"), ("Page.Bytes", "canRead"), ("Page.Load", "canWrite"),
     ("Page.SetBytes", "canWrite"), ("Page.Flush", "canWrite")] := by decide

/-- tie: closing a transaction does not clear the file reference the error paths dereference -/
theorem close_keeps_file : Facts.txCloseClears.contains "tx.file" = false := by decide

theorem pq_guards_present : Facts.pq_guards =
    [("Writer.Write", "canWrite"), ("Writer.Next", "canWrite"), ("Writer.Flush", "canWrite"),
     ("Reader.Available", "canRead"), ("Reader.Begin", "none"), ("Reader.Read", "canRead"), ("Reader.Next", "canRead"),
     ("acker.handle", "n == 0")] := by decide
end Tie

end TxVerif
