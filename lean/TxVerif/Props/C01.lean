/-
  C01 — crash atomicity and durability of committed transactions.
  Theorems over the crash model (Model/Crash.lean): for every trace that follows
  the commit discipline `Cfg.step`, every crash point and every subset of the
  un-synced operations (header writes possibly torn), recovery selects the last
  committed state or the state of the commit in progress, that state is
  complete, and the recovered file is again a safe starting point.
  The correspondence check runs `Cfg.step` on the operation logs of the real
  implementation (with the reach sets of its committed states).
-/
import TxVerif.Proofs.Crash
namespace TxVerif

/-- every prefix of an accepted trace is accepted -/
theorem run_prefix (reachOf : Nat → List (Nat × Hash)) (ops : List TOp) : ∀ (c c' : Cfg) (k : Nat),
    c.run reachOf ops = some c' → ∃ ck, c.run reachOf (ops.take k) = some ck := by
  induction ops with
  | nil => intro c c' k _; exact ⟨c, by simp [Cfg.run]⟩
  | cons op ops ih =>
    intro c c' k h
    cases k with
    | zero => exact ⟨c, by simp [Cfg.run]⟩
    | succ k =>
      simp only [Cfg.run] at h
      cases hst : c.step reachOf op with
      | none => simp [hst] at h
      | some c1 =>
        simp only [hst] at h
        obtain ⟨ck, hk⟩ := ih c1 c' k h
        exact ⟨ck, by simp [Cfg.run, hst, hk]⟩

/-- **crash_recovers**: stop an accepted execution after any number `k` of its operations and
    keep any subset of the operations issued since the last completed sync (a header write
    possibly torn): recovery yields the state of the last completed commit or — only while a
    commit's header is in flight — the state of that commit, and every page that state depends
    on has exactly the content the commit wrote. Never a mixture, never an older state. -/
theorem crash_recovers (reachOf : Nat → List (Nat × Hash)) (c0 : Cfg) (h0 : Safe reachOf c0)
    (trace : List TOp) (cEnd : Cfg) (hacc : c0.run reachOf trace = some cEnd) (k : Nat) :
    ∃ ck, c0.run reachOf (trace.take k) = some ck ∧
      ∀ img, CrashImg ck.durable ck.pending img →
        ∃ st, recover img = some st ∧ (st = ck.aSt ∨ ck.inflight = some st) ∧
          ∀ p h, (p, h) ∈ reachOf st → img.pages p = some h := by
  obtain ⟨ck, hk⟩ := run_prefix reachOf trace c0 cEnd k hacc
  exact ⟨ck, hk, fun img hc => safe_crash reachOf ck (safe_run reachOf _ c0 ck h0 hk) img hc⟩

/-- **recovered_operational**: the recovered file is a safe configuration again (with the
    recovered state as the committed one), so everything above applies to every continuation:
    later transactions that follow the discipline never alter a page of the recovered state. -/
theorem recovered_operational (reachOf : Nat → List (Nat × Hash)) (c : Cfg) (hs : Safe reachOf c) (img : Img)
    (hc : CrashImg c.durable c.pending img) :
    ∃ a tx st, recover img = some st ∧
      Safe reachOf { durable := img, pending := [], aSlot := a, aTx := tx, aSt := st, inflight := none } := by
  obtain ⟨a, tx, st, hr, _, hsafe⟩ := imgOk_restart hs.slotLe (hs.crashOk hc)
  exact ⟨a, tx, st, hr, hsafe⟩

/-- a freshly created file: slot 0 carries txid 1, slot 1 txid 0, both naming state 0 -/
def initCfg (pages : Nat → Option Hash) : Cfg :=
  { durable := { pages := pages, slots := fun k => if k = 0 then some (1, 0) else if k = 1 then some (0, 0) else none },
    pending := [], aSlot := 0, aTx := 1, aSt := 0, inflight := none }

theorem safe_init (reachOf : Nat → List (Nat × Hash)) (pages : Nat → Option Hash)
    (h : ∀ p hh, (p, hh) ∈ reachOf 0 → pages p = some hh) : Safe reachOf (initCfg pages) := by
  refine ⟨by simp [initCfg], by simp [initCfg], ?_, h, ?_, ?_⟩
  · intro t s; simp [initCfg]; intro e _; omega
  · intro _ o ho; simp [initCfg] at ho
  · intro st hst; simp [initCfg] at hst

/-- a trace may also start at any committed header (slot `s0`, txid `t0 > 0`, state `st0`) whose
    state is complete on disk and whose other slot holds the previous header -/
def startCfg (s0 t0 st0 : Nat) (pages : Nat → Option Hash) : Cfg :=
  { durable := { pages := pages,
                 slots := fun k => if k = s0 then some (t0, st0) else if k = 1 - s0 then some (t0 - 1, st0) else none },
    pending := [], aSlot := s0, aTx := t0, aSt := st0, inflight := none }

theorem safe_start (reachOf : Nat → List (Nat × Hash)) (s0 t0 st0 : Nat) (pages : Nat → Option Hash)
    (hs : s0 ≤ 1) (ht : 0 < t0) (h : ∀ p hh, (p, hh) ∈ reachOf st0 → pages p = some hh) :
    Safe reachOf (startCfg s0 t0 st0 pages) := by
  refine ⟨hs, by simp [startCfg], ?_, h, ?_, ?_⟩
  · intro t s
    have hne : ¬ (1 - s0 = s0) := by omega
    simp only [startCfg, hne, if_false, if_true, Option.some.injEq, Prod.mk.injEq]
    intro ⟨e, _⟩; omega
  · intro _ o ho; simp [startCfg] at ho
  · intro st hst; simp [startCfg] at hst

/-- non-vacuity: a commit (two page writes, sync, header, sync) is accepted, and an
    image that lost one of the two data writes but kept nothing else still recovers state 0 -/
def exReach : Nat → List (Nat × Hash) := fun st => if st = 1 then [(5, 77), (6, 88)] else []
def exTrace : List TOp := [.write 5 77, .write 6 88, .sync, .hdr 1 2 1, .sync, .write 7 99]

example : ((initCfg (fun _ => none)).run exReach exTrace).isSome = true := by decide
example : ((initCfg (fun _ => none)).run exReach [.write 5 77, .hdr 1 2 1]).isSome = false := by decide

/-- the header rule without a preceding sync (open-time max-size update, file.go initTxMaxSize: a copy
    of the ACTIVE header with the next txid goes to the inactive slot): accepted although the
    truncate of an earlier rollback is still pending, because that truncate stays clear of the pages
    of the named state -/
def mxReach : Nat → List (Nat × Hash) := fun st => if st = 0 then [(2, 7), (3, 9)] else if st = 1 then [(5, 1)] else []
def mxInit : Cfg := startCfg 0 1 0 (fun p => if p = 2 then some 7 else if p = 3 then some 9 else none)

theorem mxInit_safe : Safe mxReach mxInit :=
  safe_start mxReach 0 1 0 _ (by omega) (by omega) (by
    intro p hh h
    simp only [mxReach, if_true, List.mem_cons, Prod.mk.injEq, List.not_mem_nil, or_false] at h
    rcases h with ⟨rfl, rfl⟩ | ⟨rfl, rfl⟩ <;> rfl)

example : (mxInit.run mxReach [.trunc 6, .hdr 1 2 0, .sync]).isSome = true := by decide
example : (mxInit.run mxReach [.trunc 6, .hdr 1 2 0, .sync]).map (fun c => (c.aSlot, c.aTx, c.aSt, c.inflight)) =
    some (1, 2, 0, none) := by decide
/-- rejected: the pending write touches a page of the named state -/
example : (mxInit.run mxReach [.write 3 99, .hdr 1 2 0]).isSome = false := by decide
/-- rejected: a pending truncate that would cut a page of the named state (it is rejected already as a truncate) -/
example : (mxInit.run mxReach [.trunc 3, .hdr 1 2 0]).isSome = false := by decide
/-- still rejected: page 5 of the new state is written but not durable yet -/
example : (mxInit.run mxReach [.write 5 1, .hdr 1 2 1]).isSome = false := by decide
/-- ... and accepted after the sync, as ever -/
example : (mxInit.run mxReach [.write 5 1, .sync, .hdr 1 2 1, .sync]).isSome = true := by decide
/-- a pending write to ANOTHER page does not block the header of a state whose pages are durable -/
example : (mxInit.run mxReach [.write 8 4, .hdr 1 2 0, .sync]).isSome = true := by decide

end TxVerif
