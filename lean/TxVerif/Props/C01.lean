/-
  C01 — crash atomicity and durability of committed transactions.
  Theorems over the crash model (Model/Crash.lean): for every trace that follows
  the commit discipline `Cfg.step`, every crash point and every subset of the
  un-synced operations (header writes possibly torn), recovery selects the last
  committed state or the state of the commit in progress, that state is
  complete, and the recovered file is again a safe starting point.
  The correspondence check runs `Cfg.step` on the operation logs of the real
  implementation (with the reach sets of its committed states).
-/
import TxVerif.Proofs.Crash
namespace TxVerif

/-- every prefix of an accepted trace is accepted -/
theorem run_prefix (reachOf : Nat → List (Nat × Hash)) (ops : List TOp) : ∀ (c c' : Cfg) (k : Nat),
    c.run reachOf ops = some c' → ∃ ck, c.run reachOf (ops.take k) = some ck := by
  induction ops with
  | nil => intro c c' k _; exact ⟨c, by simp [Cfg.run]⟩
  | cons op ops ih =>
    intro c c' k h
    cases k with
    | zero => exact ⟨c, by simp [Cfg.run]⟩
    | succ k =>
      simp only [Cfg.run] at h
      cases hst : c.step reachOf op with
      | none => simp [hst] at h
      | some c1 =>
        simp only [hst] at h
        obtain ⟨ck, hk⟩ := ih c1 c' k h
        exact ⟨ck, by simp [Cfg.run, hst, hk]⟩

/-- **crash_recovers**: stop an accepted execution after any number `k` of its operations and
    keep any subset of the operations issued since the last completed sync (a header write
    possibly torn): recovery yields the state of the last completed commit or — only while a
    commit's header is in flight — the state of that commit, and every page that state depends
    on has exactly the content the commit wrote. Never a mixture, never an older state. -/
theorem crash_recovers (reachOf : Nat → List (Nat × Hash)) (c0 : Cfg) (h0 : Safe reachOf c0)
    (trace : List TOp) (cEnd : Cfg) (hacc : c0.run reachOf trace = some cEnd) (k : Nat) :
    ∃ ck, c0.run reachOf (trace.take k) = some ck ∧
      ∀ img, CrashImg ck.durable ck.pending img →
        ∃ st, recover img = some st ∧ (st = ck.aSt ∨ ck.inflight = some st) ∧
          ∀ p h, (p, h) ∈ reachOf st → img.pages p = some h := by
  obtain ⟨ck, hk⟩ := run_prefix reachOf trace c0 cEnd k hacc
  exact ⟨ck, hk, fun img hc => safe_crash reachOf ck (safe_run reachOf _ c0 ck h0 hk) img hc⟩

/-- **recovered_operational**: the recovered file is a safe configuration again (with the
    recovered state as the committed one), so everything above applies to every continuation:
    later transactions that follow the discipline never alter a page of the recovered state. -/
theorem recovered_operational (reachOf : Nat → List (Nat × Hash)) (c : Cfg) (hs : Safe reachOf c) (img : Img)
    (hc : CrashImg c.durable c.pending img) :
    ∃ a tx st, recover img = some st ∧
      Safe reachOf { durable := img, pending := [], aSlot := a, aTx := tx, aSt := st, inflight := none } := by
  obtain ⟨h1, h2, h3, h4, h5, h6⟩ := hs
  cases hi : c.inflight with
  | none =>
    have hq := h5 hi
    have hsl : ∀ k, img.slots k = c.durable.slots k := fun k =>
      crashImg_slots hc k (fun o ho => clearOf_not_hdr _ o (hq o ho) k)
    have hpg : ∀ p hh, (p, hh) ∈ reachOf c.aSt → img.pages p = some hh := fun p hh hm => by
      rw [crashImg_pages hc p (fun o ho => clearOf_not_touches _ o (hq o ho) p hh hm)]; exact h4 p hh hm
    refine ⟨c.aSlot, c.aTx, c.aSt, ?_, ⟨h1, by rw [hsl]; exact h2, by intro t s; rw [hsl]; exact h3 t s, hpg, ?_, ?_⟩⟩
    · exact recover_active img c.aSlot h1 c.aTx c.aSt (by rw [hsl]; exact h2) (by intro t s; rw [hsl]; exact h3 t s)
    · intro _ o ho; simp at ho
    · intro st hst; simp at hst
  | some st =>
    obtain ⟨hp, hint⟩ := h6 st hi
    rw [hp] at hc
    have hne : ¬ (c.aSlot = 1 - c.aSlot) := by omega
    have hsl2 : 1 - (1 - c.aSlot) = c.aSlot := by omega
    have hpages : ∀ q, img.pages q = c.durable.pages q := fun q =>
      crashImg_pages hc q (by intro o ho; simp at ho; subst ho; simp [touches])
    cases hc with
    | keep hc' =>
      cases hc'
      refine ⟨1 - c.aSlot, c.aTx + 1, st, ?_, ⟨by show 1 - c.aSlot ≤ 1; omega, by simp [applyOp], ?_, fun p hh hm => by rw [hpages]; exact hint p hh hm, ?_, ?_⟩⟩
      · apply recover_active _ (1 - c.aSlot) (by omega) (c.aTx + 1) st
        · simp [applyOp]
        · intro t s; rw [hsl2]; simp only [applyOp, hne, if_false, h2, Option.some.injEq, Prod.mk.injEq]
          intro ⟨e, _⟩; omega
      · intro t s; dsimp only
        rw [hsl2]; simp only [applyOp, hne, if_false, h2, Option.some.injEq, Prod.mk.injEq]
        intro ⟨e, _⟩; omega
      · intro _ o ho; simp at ho
      · intro st' hst'; simp at hst'
    | drop hc' =>
      cases hc'
      exact ⟨c.aSlot, c.aTx, c.aSt, recover_active _ c.aSlot h1 c.aTx c.aSt h2 h3,
        ⟨h1, h2, h3, h4, by intro _ o ho; simp at ho, by intro st' hst'; simp at hst'⟩⟩
    | tear hc' =>
      cases hc'
      refine ⟨c.aSlot, c.aTx, c.aSt, ?_, ⟨h1, ?_, ?_, fun p hh hm => by simp only [tearOp]; exact h4 p hh hm, ?_, ?_⟩⟩
      · apply recover_active _ c.aSlot h1 c.aTx c.aSt
        · simp only [tearOp, hne, if_false]; exact h2
        · intro t s; simp [tearOp]
      · dsimp only
        simp only [tearOp, hne, if_false]; exact h2
      · intro t s; simp [tearOp]
      · intro _ o ho; simp at ho
      · intro st' hst'; simp at hst'

/-- a freshly created file: slot 0 carries txid 1, slot 1 txid 0, both naming state 0 -/
def initCfg (pages : Nat → Option Hash) : Cfg :=
  { durable := { pages := pages, slots := fun k => if k = 0 then some (1, 0) else if k = 1 then some (0, 0) else none },
    pending := [], aSlot := 0, aTx := 1, aSt := 0, inflight := none }

theorem safe_init (reachOf : Nat → List (Nat × Hash)) (pages : Nat → Option Hash)
    (h : ∀ p hh, (p, hh) ∈ reachOf 0 → pages p = some hh) : Safe reachOf (initCfg pages) := by
  refine ⟨by simp [initCfg], by simp [initCfg], ?_, h, ?_, ?_⟩
  · intro t s; simp [initCfg]; intro e _; omega
  · intro _ o ho; simp [initCfg] at ho
  · intro st hst; simp [initCfg] at hst

/-- a trace may also start at any committed header (slot `s0`, txid `t0 > 0`, state `st0`) whose
    state is complete on disk and whose other slot holds the previous header -/
def startCfg (s0 t0 st0 : Nat) (pages : Nat → Option Hash) : Cfg :=
  { durable := { pages := pages,
                 slots := fun k => if k = s0 then some (t0, st0) else if k = 1 - s0 then some (t0 - 1, st0) else none },
    pending := [], aSlot := s0, aTx := t0, aSt := st0, inflight := none }

theorem safe_start (reachOf : Nat → List (Nat × Hash)) (s0 t0 st0 : Nat) (pages : Nat → Option Hash)
    (hs : s0 ≤ 1) (ht : 0 < t0) (h : ∀ p hh, (p, hh) ∈ reachOf st0 → pages p = some hh) :
    Safe reachOf (startCfg s0 t0 st0 pages) := by
  refine ⟨hs, by simp [startCfg], ?_, h, ?_, ?_⟩
  · intro t s
    have hne : ¬ (1 - s0 = s0) := by omega
    simp only [startCfg, hne, if_false, if_true, Option.some.injEq, Prod.mk.injEq]
    intro ⟨e, _⟩; omega
  · intro _ o ho; simp [startCfg] at ho
  · intro st hst; simp [startCfg] at hst

/-- non-vacuity: a commit (two page writes, sync, header, sync) is accepted, and an
    image that lost one of the two data writes but kept nothing else still recovers state 0 -/
def exReach : Nat → List (Nat × Hash) := fun st => if st = 1 then [(5, 77), (6, 88)] else []
def exTrace : List TOp := [.write 5 77, .write 6 88, .sync, .hdr 1 2 1, .sync, .write 7 99]

example : ((initCfg (fun _ => none)).run exReach exTrace).isSome = true := by decide
example : ((initCfg (fun _ => none)).run exReach [.write 5 77, .hdr 1 2 1]).isSome = false := by decide

end TxVerif
