/-
  C10 (close + reopen yields the same logical file) over histories of write transactions with ANY overflow
  flags (`TxnO` / `runHistoryO` / `EngInvO` of Props/C03History.lean).

  Props/C10C02Engine.lean proves: under `NoGap f.alloc` reopening is the identity up to the statistic
  (`c10_reopen_state`, `c10_reopen_run`, … — these need no invariant and hold for every overflow flag), and
  `NoGap` is kept along histories of `overflow = false` transactions (`c10_history_nogap_partial`).

  RESULT FOR OVERFLOW HISTORIES
  (1) `NoGap` is NOT an invariant of `runHistoryO` histories from a created file: `c10_gap_reachable` —
      on `FileSt.create 4096 24 1` the two transactions `exGA` (fill 10 pages), `exGB` (overflow flag:
      allocate the rest of the file, overwrite and flush 7 committed pages — the meta area overflows past the
      limit —, free the last 3 allocated pages again — `dataFree` lowers the data end marker below the
      limit —, commit) reach  maxPages = 24, data.endMarker = 23, mta.endMarker = 28.
      There `reopen` (`absorbOverflow`) raises the data end marker to 28 and the reopened instance BEHAVES
      DIFFERENTLY: the page 23 below the limit is lost — `Alloc 1` returns page 23 on the instance that was
      never closed and fails with out-of-memory on the reopened one (`c10_gap_reopen_differs`).
      No data is lost and nothing unsafe happens: `EngInvO` holds on both instances and every page reads the
      same (`c10o_reopen_safe`); what is lost is capacity (and id determinism).
  (2) from `EngInvO`: reopening keeps the invariant unconditionally (`c10o_reopen_keeps_invariant`), is the
      identity up to the statistic under `NoGap`, lockstep / observational equality for every operation
      list and every overflow flag (`c10_reopen_run` … as they are, `c10o_reopen_observational`).
  (3) histories: `c10o_history_reopen`, `c10o_history_insert_reopen` (hypothesis: `NoGap` where the file is
      closed; any transactions before and after). `NoGap` is kept by every transaction without the overflow
      flag and by every transaction (any flag) on a bounded file whose data area reaches the limit
      (`runTxnO_noGap`); hence `c10_history_nogap_ov_partial`, `c10_history_reopen_anywhere_ov_partial`,
      `c10_history_reopen_created_ov_partial` under `OvOnFull` = "every overflow transaction BEFORE the
      reopen begins on a full bounded file" (no condition on the transactions after the reopen), with the
      special cases `c10_history_nogap_full` (a full bounded file stays full, all flags allowed) and
      `ovOnFull_of_noOverflow`. The unrestricted statements are false by (1): `c10_history_reopen_anywhere_false`.
      Not covered although presumably true: overflow transactions on UNBOUNDED files (`maxPages = 0`), where the
      overflow branch of `tryGrow` is only reachable for a meta-area request of more than 2^64-1 pages.
-/
import TxVerif.Proofs.RefineReopenOv
import TxVerif.Props.C10C02Engine
namespace TxVerif

/-! ## reopening, from `EngInvO` -/

/-- **C10, the invariant survives reopening**, from `EngInvO`, without any extra hypothesis — also in states
    with overflow pages, end markers above the limit, and with a gap (the data end marker is then raised
    to the meta end marker, possibly above the limit) -/
theorem c10o_reopen_keeps_invariant (f : FileSt) (live : List Nat) (he : EngInvO f live) :
    EngInvO f.reopen live :=
  Ov.engInv_reopen he

/-- **C10, reopening is always safe**: on every state satisfying `EngInvO` (gap or not) the reopened
    instance satisfies the invariant — so all of C03/C04/C07 (`c03o_*`, `c04o_*`, `c07o_*`) apply to it, in
    particular allocations stay fresh — and it is the same logical file: root, transaction id, mapping,
    mapping pages, every page content, both free lists, the meta area; the data end marker does not decrease -/
theorem c10o_reopen_safe (f : FileSt) (live : List Nat) (he : EngInvO f live) :
    EngInvO f.reopen live ∧ (∀ id, f.reopen.readPage id = f.readPage id) ∧
    f.reopen.root = f.root ∧ f.reopen.txid = f.txid ∧ f.reopen.walMap = f.walMap ∧
    f.reopen.walPages = f.walPages ∧ f.reopen.alloc.data.free = f.alloc.data.free ∧
    f.reopen.alloc.mta = f.alloc.mta ∧ f.reopen.alloc.metaTotal = f.alloc.metaTotal ∧
    f.reopen.alloc.freelistPages = f.alloc.freelistPages ∧
    f.alloc.data.endMarker ≤ f.reopen.alloc.data.endMarker := by
  obtain ⟨l1, l2, l3, l4, -, l6, l7, l8, l9, -, l11, l12⟩ := c10_reopen_logical f
  exact ⟨Ov.engInv_reopen he, l6, l1, l2, l3, l4, l7, l8, l9, l11, l12⟩

/-- **C10, observational equality** (the statistic excluded) from `EngInvO`: without a gap, for every option
    set (any overflow flag) and EVERY operation list the transaction on the reopened instance shows the same
    observation as on the instance that was never closed. (`c10_reopen_run`, `c10_reopen_reads`,
    `c10_reopen_allocs`, `c10_reopen_commit`, `c10_reopen_state`, `c10_reopen_exact`,
    `c10_allocatable_same` need `NoGap` only and are used as they are.) -/
theorem c10o_reopen_observational (f : FileSt) (live : List Nat) (_he : EngInvO f live) (hg : NoGap f.alloc)
    (ov : Bool) (g wl : Nat) (ops : List EOp) :
    (runEOps (ERunSt.start f.reopen live ov g wl) ops).obsNS = (runEOps (ERunSt.start f live ov g wl) ops).obsNS := by
  rw [c10_reopen_run f hg, obsNS_ws]

/-- **C10, observational equality** including the statistic, when it was truthful before closing -/
theorem c10o_reopen_observational_truthful (f : FileSt) (live : List Nat) (_he : EngInvO f live)
    (hg : NoGap f.alloc) (hs : f.statData = f.openStat) (ov : Bool) (g wl : Nat) (ops : List EOp) :
    (runEOps (ERunSt.start f.reopen live ov g wl) ops).obs = (runEOps (ERunSt.start f live ov g wl) ops).obs := by
  rw [c10_reopen_exact f hg hs]

/-! ## histories -/

/-- **C10, histories with any overflow flags**: running any `runHistoryO` history on the reopened instance of a
    state without gap gives the same owned pages and the same committed file state up to the statistic -/
theorem c10o_history_reopen (s : FileSt × List Nat) (hg : NoGap s.1.alloc) (ts : List TxnO) :
    ∃ m, runHistoryO (reopenSt s) ts = ((runHistoryO s ts).1.ws m, (runHistoryO s ts).2) := by
  unfold reopenSt
  rw [reopen_ws s.1 hg]
  exact runHistoryO_ws ts s _

/-- **C10, a reopen between any two transactions** of a `runHistoryO` history does not change the final state
    (up to the statistic) nor what any page reads, provided there is no gap where the file is closed -/
theorem c10o_history_insert_reopen (s : FileSt × List Nat) (pre post : List TxnO)
    (hg : NoGap (runHistoryO s pre).1.alloc) :
    ∃ m, runHistoryO (reopenSt (runHistoryO s pre)) post =
        ((runHistoryO s (pre ++ post)).1.ws m, (runHistoryO s (pre ++ post)).2) ∧
      ∀ id, (runHistoryO (reopenSt (runHistoryO s pre)) post).1.readPage id =
        (runHistoryO s (pre ++ post)).1.readPage id := by
  obtain ⟨m, e⟩ := c10o_history_reopen (runHistoryO s pre) hg post
  rw [runHistoryO_append]
  exact ⟨m, e, fun id => by rw [e]; rfl⟩

/-! ### when `NoGap` is kept -/

/-- histories without overflow transactions satisfy `OvOnFull` -/
theorem ovOnFull_of_noOverflow (ts : List TxnO) : ∀ (s : FileSt × List Nat), (∀ t ∈ ts, t.overflow = false) →
    OvOnFull s ts := by
  induction ts with
  | nil => intro s _; trivial
  | cons t ts ih =>
    intro s h
    exact ⟨Or.inl (h t List.mem_cons_self), ih _ (fun u hu => h u (List.mem_cons_of_mem _ hu))⟩

/-- on a bounded file whose data area reaches the limit every history satisfies `OvOnFull`: the file stays full -/
theorem ovOnFull_of_full (ts : List TxnO) : ∀ (s : FileSt × List Nat), EngInvO s.1 s.2 → FullData s.1.alloc →
    OvOnFull s ts := by
  induction ts with
  | nil => intro s _ _; trivial
  | cons t ts ih =>
    intro s he hf
    exact ⟨Or.inr hf, ih _ (runTxnO_inv s he t) (runTxnO_full s he hf t)⟩

/-- **C10, `NoGap` along histories with overflow transactions** — partial.
    Full statement (FALSE, see `c10_gap_reachable`): `NoGap (runHistoryO s0 pre).1.alloc` for every history.
    Proved: for histories in which every transaction with the overflow flag begins on a bounded file whose
    data area reaches the page limit (`OvOnFull`); transactions without the flag are unrestricted.
    Missing and false: an overflow transaction on a bounded file that is not full. Missing, presumably true:
    overflow transactions on unbounded files. -/
theorem c10_history_nogap_ov_partial (s0 : FileSt × List Nat) (he : EngInvO s0.1 s0.2) (hg : NoGap s0.1.alloc)
    (pre : List TxnO) (ho : OvOnFull s0 pre) : NoGap (runHistoryO s0 pre).1.alloc :=
  runHistoryO_noGap pre s0 he hg ho

/-- on a full bounded file, every history — any overflow flags — keeps the file full, hence without gap -/
theorem c10_history_nogap_full (s0 : FileSt × List Nat) (he : EngInvO s0.1 s0.2) (hf : FullData s0.1.alloc)
    (pre : List TxnO) : NoGap (runHistoryO s0 pre).1.alloc :=
  runHistoryO_noGap pre s0 he (fullData_noGap hf) (ovOnFull_of_full pre s0 he hf)

/-- **C10, a reopen at any point of a history with overflow transactions** — partial in the sense of
    `c10_history_nogap_ov_partial`: the transactions `pre` BEFORE the reopen satisfy `OvOnFull`; the
    transactions `post` after it are arbitrary (any flags). Closing and reopening the file between `pre` and
    `post` changes neither the owned pages nor the final committed state (up to the statistic) nor what any page
    reads, and the invariant holds on both final states.
    Full statement (FALSE, `c10_history_reopen_anywhere_false`): the same without `ho`. -/
theorem c10_history_reopen_anywhere_ov_partial (s0 : FileSt × List Nat) (he : EngInvO s0.1 s0.2)
    (hg : NoGap s0.1.alloc) (pre post : List TxnO) (ho : OvOnFull s0 pre) :
    (∃ m, runHistoryO (reopenSt (runHistoryO s0 pre)) post =
        ((runHistoryO s0 (pre ++ post)).1.ws m, (runHistoryO s0 (pre ++ post)).2)) ∧
    (∀ id, (runHistoryO (reopenSt (runHistoryO s0 pre)) post).1.readPage id =
        (runHistoryO s0 (pre ++ post)).1.readPage id) ∧
    EngInvO (runHistoryO (reopenSt (runHistoryO s0 pre)) post).1 (runHistoryO (reopenSt (runHistoryO s0 pre)) post).2 ∧
    EngInvO (runHistoryO s0 (pre ++ post)).1 (runHistoryO s0 (pre ++ post)).2 := by
  obtain ⟨m, e, hrd⟩ := c10o_history_insert_reopen s0 pre post (c10_history_nogap_ov_partial s0 he hg pre ho)
  have he2 := c03_history s0 he (pre ++ post)
  refine ⟨⟨m, e⟩, hrd, ?_, he2⟩
  rw [e]
  exact Ov.engInv_ws he2 m

/-- the same for every file `FileSt.create` produces -/
theorem c10_history_reopen_created_ov_partial (ps mp im : Nat) (hmp : mp = 0 ∨ 2 + im ≤ mp) (pre post : List TxnO)
    (ho : OvOnFull (FileSt.create ps mp im, []) pre) :
    ∃ m, runHistoryO (reopenSt (runHistoryO (FileSt.create ps mp im, []) pre)) post =
      ((runHistoryO (FileSt.create ps mp im, []) (pre ++ post)).1.ws m,
       (runHistoryO (FileSt.create ps mp im, []) (pre ++ post)).2) :=
  (c10_history_reopen_anywhere_ov_partial (FileSt.create ps mp im, []) (engInvO_create_any ps mp im hmp)
    (noGap_create ps mp im) pre post ho).1

/-- whatever the history and wherever the reopen: the invariant holds on the reopened run as well (no `NoGap`,
    no `OvOnFull` needed) — a reopen never leads out of the safe states -/
theorem c10_history_reopen_anywhere_safe (s0 : FileSt × List Nat) (he : EngInvO s0.1 s0.2) (pre post : List TxnO) :
    EngInvO (runHistoryO (reopenSt (runHistoryO s0 pre)) post).1 (runHistoryO (reopenSt (runHistoryO s0 pre)) post).2 ∧
    ∀ id, (reopenSt (runHistoryO s0 pre)).1.readPage id = (runHistoryO s0 pre).1.readPage id :=
  ⟨c03_history (reopenSt (runHistoryO s0 pre)) (Ov.engInv_reopen (c03_history s0 he pre)) post, fun _ => rfl⟩

/-! ## `NoGap` is not an invariant of histories with overflow transactions: a reachable gap -/

/-- a new bounded file of 24 pages with a meta area of one page -/
def exG0 : FileSt × List Nat := (FileSt.create 4096 24 1, [])

/-- allocates and writes 10 pages (3 … 12) -/
def exGA : TxnO :=
  { ops := [.alloc 10] ++ (List.range 10).map (fun i => .write (3 + i) .full 1), order := (List.range 10).map (· + 3) }

/-- WITH the overflow flag: allocates the rest of the file (pages 16 … 23; the data area reaches the limit),
    writes page 16, overwrites the committed pages 3 … 9 and flushes each of them (7 overwrite pages: 3 from
    the meta free list, 4 from the overflow area, pages 24 … 27), then frees the new pages 23, 22, 21 again
    (`dataFree` returns them to the end of the file: data end marker 21), commits (the commit takes pages 21
    and 22 for the mapping and the free list from the end of the data area: data end marker 23 < 24) -/
def exGB : TxnO :=
  { overflow := true,
    ops := [.alloc 8, .write 16 .full 1] ++ [3, 4, 5, 6, 7, 8, 9].map (fun i => .write i .full 2) ++
      [3, 4, 5, 6, 7, 8, 9].map (fun i => .flushPage i) ++ [.free 23, .free 22, .free 21],
    order := [16] }

/-- the next transaction: one allocation -/
def exGC : TxnO := { ops := [.alloc 1] }

/-- the committed state (and owned pages) after `exGA`, `exGB` -/
def exGapSt : FileSt × List Nat := runHistoryO exG0 [exGA, exGB]

/-- **a gap is reachable** from a created file by a `runHistoryO` history: after `[exGA, exGB]` (both commit)
    the data end marker 23 lies below the limit 24 and below the meta end marker 28. The invariant `EngInvO`
    holds, `NoGap` does not (and `OvOnFull` fails: `exGB` has the overflow flag but begins on a file that is
    not full). -/
theorem c10_gap_reachable :
    let c := exGapSt
    exGA.commits exG0 ∧ exGB.commits (runHistoryO exG0 [exGA]) ∧
    c.1.alloc.maxPages = 24 ∧ c.1.alloc.data.endMarker = 23 ∧ c.1.alloc.mta.endMarker = 28 ∧
    c.1.alloc.data.free = [] ∧ c.1.alloc.mta.free = [15] ∧
    c.1.walMap = [(3, 2), (4, 13), (5, 14), (6, 24), (7, 25), (8, 26), (9, 27)] ∧
    c.2 = [3, 4, 5, 6, 7, 8, 9, 10, 11, 12, 16, 17, 18, 19, 20] ∧
    ¬ NoGap c.1.alloc ∧ ¬ OvOnFull exG0 [exGA, exGB] ∧ NoGap exG0.1.alloc ∧ EngInvO c.1 c.2 :=
  ⟨by decide, by decide, by decide, by decide, by decide, by decide, by decide, by decide, by decide, by decide,
    by decide, by decide, Ov.engInvB_spec _ _ (by decide)⟩

set_option maxRecDepth 8192 in
/-- **in that reachable state close + reopen changes the observable behaviour**: `reopen` raises the data end
    marker from 23 to 28 (above the limit 24); the page 23 is lost: the data allocator can hand out one page
    before, none after; the next transaction `exGC` (`Alloc 1`) gets page 23 on the instance that was never
    closed and out-of-memory on the reopened instance — the client owns different pages afterwards. -/
theorem c10_gap_reopen_differs :
    (reopenSt exGapSt).1.alloc.data.endMarker = 28 ∧ (reopenSt exGapSt).1.alloc ≠ exGapSt.1.alloc ∧
    exGapSt.1.alloc.dataAvail = 1 ∧ (reopenSt exGapSt).1.alloc.dataAvail = 0 ∧
    (match txAlloc (ERunSt.start exGapSt.1 exGapSt.2 false 0 0).f (ERunSt.start exGapSt.1 exGapSt.2 false 0 0).tx 1 with
     | .ok (_, _, ids) => decide (ids = [23]) | .error _ => false) = true ∧
    (match txAlloc (ERunSt.start (reopenSt exGapSt).1 exGapSt.2 false 0 0).f (ERunSt.start (reopenSt exGapSt).1 exGapSt.2 false 0 0).tx 1 with
     | .ok _ => false | .error e => decide (e = Err.oom)) = true ∧
    (runHistoryO exGapSt [exGC]).2 = exGapSt.2 ++ [23] ∧ (runHistoryO (reopenSt exGapSt) [exGC]).2 = exGapSt.2 ∧
    (∀ id ∈ exGapSt.2, (reopenSt exGapSt).1.readPage id = exGapSt.1.readPage id) ∧
    EngInvO (reopenSt exGapSt).1 (reopenSt exGapSt).2 := by
  refine ⟨by decide, by decide, by decide, by decide, by decide, by decide, by decide, by decide,
    fun id _ => (c10_reopen_logical exGapSt.1).2.2.2.2.2.1 id, ?_⟩
  exact Ov.engInv_reopen c10_gap_reachable.2.2.2.2.2.2.2.2.2.2.2.2

set_option maxRecDepth 8192 in
/-- the unrestricted history statement is false: there are a created file, a history `pre` and a history
    `post` such that a reopen between them changes the pages the client owns at the end -/
theorem c10_history_reopen_anywhere_false :
    ¬ (∀ (ps mp im : Nat), (mp = 0 ∨ 2 + im ≤ mp) → ∀ (pre post : List TxnO),
        ∃ m, runHistoryO (reopenSt (runHistoryO (FileSt.create ps mp im, []) pre)) post =
          ((runHistoryO (FileSt.create ps mp im, []) (pre ++ post)).1.ws m,
           (runHistoryO (FileSt.create ps mp im, []) (pre ++ post)).2)) := by
  intro h
  obtain ⟨m, e⟩ := h 4096 24 1 (by decide) [exGA, exGB] [exGC]
  have e2 : (runHistoryO (reopenSt (runHistoryO (FileSt.create 4096 24 1, []) [exGA, exGB])) [exGC]).2 =
      (runHistoryO (FileSt.create 4096 24 1, []) ([exGA, exGB] ++ [exGC])).2 := by rw [e]
  exact absurd e2 (by decide)

/-! ### the hypotheses of the positive theorems are satisfiable -/

/-- the history of Props/C03History.lean (fill the file, three overflow transactions, a checkpoint) satisfies
    `OvOnFull`: the overflow transactions run on the full file. A reopen at the state with
    `data.endMarker = 11 > 8 = maxPages` and `mta.endMarker = 9` changes nothing. -/
example : OvOnFull exO0 [exFill, exOv, exOv2, exOv3, exCkpt] := by decide

example :
    let c := runHistoryO exO0 [exFill, exOv, exOv2, exOv3, exCkpt]
    NoGap c.1.alloc ∧ FullData c.1.alloc ∧ c.1.alloc.data.endMarker = 11 ∧ c.1.alloc.mta.endMarker = 9 ∧
    (reopenSt c).1.alloc = c.1.alloc := by decide

example (post : List TxnO) :
    ∃ m, runHistoryO (reopenSt (runHistoryO exO0 [exFill, exOv, exOv2])) post =
      ((runHistoryO exO0 ([exFill, exOv, exOv2] ++ post)).1.ws m, (runHistoryO exO0 ([exFill, exOv, exOv2] ++ post)).2) :=
  c10_history_reopen_created_ov_partial 4096 8 2 (by decide) [exFill, exOv, exOv2] post (by decide)

end TxVerif
