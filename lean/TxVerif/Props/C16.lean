/-
  C16 — a damaged header never wins.
  Statements only; helper lemmas live in Proofs/.
-/
import TxVerif.Proofs.Fnv
namespace TxVerif

/-- `b'` differs from `b` in exactly one byte position (all other bytes equal,
    same length). Covers every single-bit flip in any field, incl. the checksum. -/
def SingleByteChange (b b' : Bytes) : Prop :=
  ∃ pre x y suf, x ≠ y ∧ b = pre ++ x :: suf ∧ b' = pre ++ y :: suf

/-- Any change confined to one byte of a valid header is rejected by `Validate`. -/
theorem single_byte_damage_detected (b b' : Bytes)
    (hv : hdrValid b = true) (hc : SingleByteChange b b') : hdrValid b' = false := by
  obtain ⟨pre, x, y, suf, hxy, rfl, rfl⟩ := hc
  simp only [hdrValid, Bool.and_eq_true, beq_iff_eq, metaSize] at hv
  obtain ⟨⟨⟨hlen, _⟩, _⟩, hcs⟩ := hv
  simp only [List.length_append, List.length_cons] at hlen
  by_cases hp : pre.length < 80
  · -- the damaged byte is covered by the checksum
    have hsum : sliceDec (pre ++ y :: suf) 80 4 = sliceDec (pre ++ x :: suf) 80 4 := by
      unfold sliceDec
      have e : ∀ z : UInt8, List.drop 80 (pre ++ z :: suf) = List.drop (79 - pre.length) suf := by
        intro z
        rw [List.drop_append]
        have : List.drop 80 pre = [] := List.drop_eq_nil_of_le (by omega)
        have h80 : 80 - pre.length = (79 - pre.length) + 1 := by omega
        rw [this, h80]; simp
      rw [e, e]
    have htake : ∀ z : UInt8, List.take 80 (pre ++ z :: suf) = pre ++ z :: List.take (79 - pre.length) suf := by
      intro z
      rw [List.take_append]
      have : List.take 80 pre = pre := List.take_of_length_le (by omega)
      have h80 : 80 - pre.length = (79 - pre.length) + 1 := by omega
      rw [this, h80]; simp
    have hne := fnv1a_single_change pre (List.take (79 - pre.length) suf) x y hxy
    simp only [hdrValid, Bool.and_eq_false_iff, beq_eq_false_iff_ne, ne_eq]
    right
    rw [hsum, hcs, metaChecksumOff, htake, htake]
    intro h
    exact hne (BitVec.eq_of_toNat_eq h)
  · -- the damaged byte is part of the stored checksum
    have htake : ∀ z : UInt8, List.take 80 (pre ++ z :: suf) = List.take 80 pre := by
      intro z
      rw [List.take_append]
      have : 80 - pre.length = 0 := by omega
      rw [this]; simp
    have hdrop : ∀ z : UInt8, List.take 4 (List.drop 80 (pre ++ z :: suf)) = List.drop 80 pre ++ z :: suf := by
      intro z
      rw [List.drop_append]
      have h0 : 80 - pre.length = 0 := by omega
      rw [h0, List.drop_zero]
      apply List.take_of_length_le
      simp only [List.length_append, List.length_drop, List.length_cons]; omega
    simp only [hdrValid, Bool.and_eq_false_iff, beq_eq_false_iff_ne, ne_eq]
    right
    unfold sliceDec at hcs ⊢
    rw [metaChecksumOff, htake] at hcs ⊢
    rw [hdrop] at hcs ⊢
    rw [← hcs]
    intro h
    have := leDec_inj _ _ (by simp) h
    have := List.append_cancel_left this
    simp at this
    exact hxy this.symm

/-- exactly one valid header: that one is chosen -/
theorem choose_only_slot0 (b0 b1 : Bytes) (h0 : hdrValid b0 = true) (h1 : hdrValid b1 = false) :
    chooseMeta b0 b1 = .slot0 := by simp [chooseMeta, h0, h1]

theorem choose_only_slot1 (b0 b1 : Bytes) (h0 : hdrValid b0 = false) (h1 : hdrValid b1 = true) :
    chooseMeta b0 b1 = .slot1 := by simp [chooseMeta, h0, h1]

/-- no valid header: Open fails (no state is assembled from a damaged header) -/
theorem choose_none (b0 b1 : Bytes) (h0 : hdrValid b0 = false) (h1 : hdrValid b1 = false) :
    chooseMeta b0 b1 = .invalid := by simp [chooseMeta, h0, h1]

/-- a header is only ever chosen if it validates -/
theorem chosen_is_valid (b0 b1 : Bytes) :
    (chooseMeta b0 b1 = .slot0 → hdrValid b0 = true) ∧ (chooseMeta b0 b1 = .slot1 → hdrValid b1 = true) := by
  unfold chooseMeta
  cases h0 : hdrValid b0 <;> cases h1 : hdrValid b1 <;> simp

/-- the successor transaction id is the newer one, on 64 bit words
    (also across the wrap-around 2^64-1 → 0) -/
theorem txNewer_succ (t : BitVec 64) : txNewer (t + 1) t = true ∧ txNewer t (t + 1) = false := by
  unfold txNewer
  constructor
  · have : t + 1 - t = 1#64 := by bv_omega
    rw [this]; decide
  · have : t - (t + 1) = -1#64 := by bv_omega
    rw [this]; decide

/-- both headers valid: the one written by the successor commit wins -/
theorem newest_wins_slot1 (b0 b1 : Bytes) (h0 : hdrValid b0 = true) (h1 : hdrValid b1 = true)
    (ht : BitVec.ofNat 64 (sliceDec b1 32 8) = BitVec.ofNat 64 (sliceDec b0 32 8) + 1) :
    chooseMeta b0 b1 = .slot1 := by
  have hne : (BitVec.ofNat 64 (sliceDec b0 32 8) == BitVec.ofNat 64 (sliceDec b1 32 8)) = false := by
    rw [ht]; simp only [beq_eq_false_iff_ne, ne_eq]; intro h; bv_omega
  simp only [chooseMeta, h0, h1, hne]
  rw [ht, (txNewer_succ _).2]; simp

theorem newest_wins_slot0 (b0 b1 : Bytes) (h0 : hdrValid b0 = true) (h1 : hdrValid b1 = true)
    (ht : BitVec.ofNat 64 (sliceDec b0 32 8) = BitVec.ofNat 64 (sliceDec b1 32 8) + 1) :
    chooseMeta b0 b1 = .slot0 := by
  have hne : (BitVec.ofNat 64 (sliceDec b0 32 8) == BitVec.ofNat 64 (sliceDec b1 32 8)) = false := by
    rw [ht]; simp only [beq_eq_false_iff_ne, ne_eq]; intro h; bv_omega
  simp only [chooseMeta, h0, h1, hne]
  rw [ht, (txNewer_succ _).1]; simp

end TxVerif

namespace TxVerif
/-- a concrete header as written by `initNewFile` (page size 4096, unbounded) -/
def exampleMeta : Meta :=
  Meta.finalize { magic := metaMagic, version := metaVersion, pageSize := 4096, maxSize := 0, flags := 0,
                  root := 0, txid := 1, freelist := 0, wal := 0, dataEnd := 2, metaEnd := 0, metaTotal := 0,
                  checksum := 0 }

set_option maxRecDepth 100000 in
/-- non-vacuity: the hypotheses of the theorems above are met by a concrete header -/
example : hdrValid exampleMeta.encode = true := by decide +kernel
set_option maxRecDepth 100000 in
example : SingleByteChange exampleMeta.encode (exampleMeta.encode.set 40 7) :=
  ⟨exampleMeta.encode.take 40, 0, 7, exampleMeta.encode.drop 41, by decide, by decide +kernel, by decide +kernel⟩

set_option maxRecDepth 100000 in
/-- The unconditional claim "every damaged header is rejected" is false for a
    32 bit checksum: distinct byte strings that both validate exist, so
    multi-byte damage is covered only under the hypothesis that `Validate`
    rejects the damaged bytes. -/
theorem exists_valid_garbage : ∃ b b' : Bytes, b ≠ b' ∧ hdrValid b = true ∧ hdrValid b' = true :=
  ⟨exampleMeta.encode, (Meta.finalize { exampleMeta with root := 5 }).encode,
   by decide +kernel, by decide +kernel, by decide +kernel⟩
end TxVerif
