/-
  C18 — a file is open at most once: the path lock is exclusive and always released.
  Model: the advisory lock on `<path>.lock` (flock: exclusive per path, released by
  Unlock) and the sequences of Open / failing Open / Close on one path. Each
  attempt behaves according to the skeleton of `Open`/`File.Close` regenerated
  from the sources (Tie/Skeleton.lean: `open_pathlock`, `fileClose_ops`).
-/
import TxVerif.Model.Skeleton
namespace TxVerif

/-- what can be requested on a path -/
inductive PathOp
  | openOk        -- Open whose initialisation succeeds
  | openFail      -- Open failing after the lock attempt (invalid file, failure in openWith, failing resize)
  | openInvalid   -- Open failing before touching the lock (invalid options, file cannot be opened)
  | close         -- Close of the open File
  deriving Repr, DecidableEq, Inhabited

structure PathSt where
  locked : Bool := false   -- the advisory lock is held
  isOpen : Bool := false   -- a File object is open on the path
  deriving Repr, DecidableEq, Inhabited

inductive PathRes | ok | lockErr | initErr | invalid | noFile
  deriving Repr, DecidableEq, Inhabited

/-- one attempt, following the skeleton: lock (fails if held), then initialisation;
    a failing initialisation runs the deferred Unlock + Close; Close unlocks -/
def PathSt.step (s : PathSt) : PathOp → PathSt × PathRes
  | .openInvalid => (s, .invalid)
  | .openOk => if s.locked then (s, .lockErr) else ({ locked := true, isOpen := true }, .ok)
  | .openFail => if s.locked then (s, .lockErr) else
      -- lock acquired, initialisation fails, cleanup releases the lock again
      ({ s with locked := false }, .initErr)
  | .close => if s.isOpen then ({ locked := false, isOpen := false }, .ok) else (s, .noFile)

def PathSt.run (s : PathSt) : List PathOp → PathSt
  | [] => s
  | op :: ops => (s.step op).1.run ops

/-- after any sequence of open / failing open / close the lock is held iff a File is open -/
theorem lock_iff_open (ops : List PathOp) : ∀ s : PathSt, s.locked = s.isOpen → (s.run ops).locked = (s.run ops).isOpen := by
  induction ops with
  | nil => intro s h; exact h
  | cons op ops ih =>
    intro s h
    apply ih
    obtain ⟨l, o⟩ := s
    cases op <;> cases l <;> cases o <;> simp_all [PathSt.step]

/-- while a File is open a second Open fails with a lock error -/
theorem second_open_fails (ops : List PathOp) (s : PathSt) (h : s.locked = s.isOpen)
    (ho : (s.run ops).isOpen = true) :
    ((s.run ops).step .openOk).2 = .lockErr ∧ ((s.run ops).step .openFail).2 = .lockErr := by
  have := lock_iff_open ops s h
  simp_all [PathSt.step]

/-- after Close, and after any Open that failed, the path can be opened again immediately -/
theorem reopen_after_close_or_failure (ops : List PathOp) (s : PathSt) (h : s.locked = s.isOpen)
    (hc : (s.run ops).isOpen = false) : ((s.run ops).step .openOk).2 = .ok := by
  have := lock_iff_open ops s h
  simp_all [PathSt.step]

theorem failed_open_changes_nothing (s : PathSt) (h : s.locked = s.isOpen) :
    (s.step .openFail).1 = s ∧ (s.step .openInvalid).1 = s := by
  obtain ⟨l, o⟩ := s
  cases l <;> cases o <;> simp_all [PathSt.step]

example : (({} : PathSt).run [.openOk, .openFail, .close, .openFail, .openOk]).isOpen = true := by decide

end TxVerif
