/-
  C02 — snapshot isolation: a read transaction observes exactly the state of the
  last commit completed before it began, until it is closed, whatever the writer does.
-/
import TxVerif.Model.Iso
import TxVerif.Props.C09
import TxVerif.Proofs.Crash
namespace TxVerif

structure IsoInv (reachOf : Nat → List (Nat × Hash)) (s : IsoSys) : Prop where
  lockInv : LockInv s.sys
  len : s.snap.length = s.sys.pcs.length
  /-- every open reader began at the current committed version -/
  readers : ∀ i : Nat, s.sys.pcs[i]? = some Pc.rActive → s.snap[i]? = some (some s.version)
  /-- the committed version is complete on disk -/
  intact : ∀ p h, (p, h) ∈ reachOf s.version → s.disk p = some h

theorem isoInv_step (reachOf : Nat → List (Nat × Hash)) (s t : IsoSys) (hi : IsoInv reachOf s) (i : Nat) (a : IsoAct)
    (h : s.step reachOf i a = some t) : IsoInv reachOf t := by
  obtain ⟨hl, hlen, hr, hint⟩ := hi
  cases a with
  | lock a =>
    simp only [IsoSys.step] at h
    cases hs : s.sys.step i a with
    | none => simp [hs] at h
    | some sys' =>
      simp only [hs] at h
      have hl' := lockInv_step s.sys sys' hl i a hs
      -- the pcs only change at index i
      have hpcs : ∃ pc pc', s.sys.pcs[i]? = some pc ∧ sys'.pcs = s.sys.pcs.set i pc' ∧ pc = a.source ∧ pc' = a.target := by
        unfold Sys.step at hs
        cases hpc : s.sys.pcs[i]? with
        | none => simp [hpc] at hs
        | some pc =>
          simp only [hpc] at hs
          cases hf : a.fire s.sys.lock pc with
          | none => simp [hf] at hs
          | some r =>
            obtain ⟨pc', l'⟩ := r
            simp only [hf, Option.some.injEq] at hs
            subst hs
            have := fire_src_tgt _ _ _ _ _ hf
            exact ⟨pc, pc', rfl, rfl, this.1, this.2⟩
      obtain ⟨pc, pc', hpc, hset, hsrc, htgt⟩ := hpcs
      have hilt : i < s.sys.pcs.length := by
        have := List.getElem?_eq_some_iff.mp hpc; exact this.1
      have other : ∀ j, j ≠ i → sys'.pcs[j]? = s.sys.pcs[j]? := by
        intro j hj; rw [hset, List.getElem?_set_ne (Ne.symm hj)]
      have self : sys'.pcs[i]? = some pc' := by rw [hset, List.getElem?_set_self hilt]
      have hsl : i < s.snap.length := by omega
      cases a <;> simp only [Option.some.injEq] at h <;> subst h <;>
        simp only [Act.source, Act.target] at hsrc htgt <;> subst hsrc htgt <;>
        (refine ⟨hl', by simp [hlen, hset], ?_, hint⟩
         intro j hj
         by_cases hji : j = i
         · subst hji
           first
             | (simp [List.getElem?_set_self hsl]; done)
             | (rw [self] at hj; simp at hj; done)
         · first
             | (show (s.snap.set i _)[j]? = _
                rw [List.getElem?_set_ne (Ne.symm hji)]; exact hr j (by rw [← other j hji]; exact hj))
             | (exact hr j (by rw [← other j hji]; exact hj)))
  | write p hh =>
    simp only [IsoSys.step] at h
    cases hpc : s.sys.pcs[i]? with
    | none => simp [hpc] at h
    | some pc =>
      simp only [hpc] at h
      split at h
      · rename_i hc
        simp only [Option.some.injEq] at h; subst h
        simp only [Bool.and_eq_true, Bool.not_eq_true', List.contains_eq_mem, decide_eq_false_iff_not] at hc
        refine ⟨hl, hlen, hr, ?_⟩
        intro q hq hm
        have hmem : q ∈ reachPages (reachOf s.version) := List.mem_map.mpr ⟨(q, hq), hm, rfl⟩
        have : q ≠ p := fun e => hc.2 (e ▸ hmem)
        simp only [this, if_false]; exact hint q hq hm
      · simp at h
  | publish =>
    simp only [IsoSys.step] at h
    cases hs : s.sys.step i .wFinish with
    | none => simp [hs] at h
    | some sys' =>
      simp only [hs] at h
      split at h
      · rename_i hc
        simp only [Option.some.injEq] at h; subst h
        have hl' := lockInv_step s.sys sys' hl i .wFinish hs
        -- the publishing thread is in wExcl: no reader is open
        unfold Sys.step at hs
        cases hpc : s.sys.pcs[i]? with
        | none => simp [hpc] at hs
        | some pc =>
          simp only [hpc] at hs
          cases hf : Act.fire s.sys.lock .wFinish pc with
          | none => simp [hf] at hs
          | some r =>
            obtain ⟨pc', l'⟩ := r
            simp only [hf, Option.some.injEq] at hs
            subst hs
            have hF := fire_sound _ _ _ _ _ hf
            cases hF
            have hmem : Pc.wExcl ∈ s.sys.pcs := List.mem_of_getElem? hpc
            have hpos : 0 < s.sys.pcs.countP Pc.isExcl := List.countP_pos_iff.mpr ⟨_, hmem, rfl⟩
            have hsh := hl.excl hpos
            have hnoreader : ∀ j : Nat, s.sys.pcs[j]? ≠ some Pc.rActive := by
              intro j hj
              have hm : Pc.rActive ∈ s.sys.pcs := List.mem_of_getElem? hj
              have : 0 < s.sys.pcs.countP Pc.isReader := List.countP_pos_iff.mpr ⟨_, hm, rfl⟩
              have := hl.shared; omega
            have hilt : i < s.sys.pcs.length := (List.getElem?_eq_some_iff.mp hpc).1
            refine ⟨hl', by simp [hlen], ?_, intactB_spec reachOf _ _ hc⟩
            intro j hj
            by_cases hji : j = i
            · subst hji; simp [List.getElem?_set_self hilt] at hj
            · exfalso; apply hnoreader j
              simpa [List.getElem?_set_ne (Ne.symm hji)] using hj
      · simp at h

inductive IsoSys.Reach (reachOf : Nat → List (Nat × Hash)) : IsoSys → Prop
  | init (pcs : List Pc) (h : ∀ pc ∈ pcs, pc = .rIdle ∨ pc = .wIdle ∨ pc = .cIdle) (disk : Nat → Option Hash) (v : Nat)
      (hint : ∀ p hh, (p, hh) ∈ reachOf v → disk p = some hh) :
      IsoSys.Reach reachOf { sys := { lock := {}, pcs := pcs }, version := v, disk := disk, snap := pcs.map (fun _ => none) }
  | step {s t : IsoSys} (i : Nat) (a : IsoAct) : IsoSys.Reach reachOf s → s.step reachOf i a = some t → IsoSys.Reach reachOf t

theorem isoInv_reach (reachOf : Nat → List (Nat × Hash)) (s : IsoSys) (h : s.Reach reachOf) : IsoInv reachOf s := by
  induction h with
  | init pcs h disk v hint =>
    refine ⟨lockInv_init pcs h, by simp, ?_, hint⟩
    intro i hi
    have hm : Pc.rActive ∈ pcs := List.mem_of_getElem? hi
    rcases h _ hm with e | e | e <;> simp at e
  | step i a _ hs ih => exact isoInv_step reachOf _ _ ih i a hs

/-- **reader_view_stable**: in every reachable state, every open read transaction reads,
    for every page its snapshot depends on, exactly the content of the commit it began at —
    whatever the writer has done since (writes, flushes, checkpoints, a commit waiting for it) -/
theorem reader_view_stable (reachOf : Nat → List (Nat × Hash)) (s : IsoSys) (h : s.Reach reachOf) (i : Nat)
    (hi : s.sys.pcs[i]? = some Pc.rActive) :
    ∃ v, s.snap[i]? = some (some v) ∧ v = s.version ∧ ∀ p hh, (p, hh) ∈ reachOf v → s.readerSees p = some hh := by
  have inv := isoInv_reach reachOf s h
  exact ⟨s.version, inv.readers i hi, rfl, inv.intact⟩

/-- **uncommitted_invisible**: the committed version changes only by the publish step of a
    commit that holds the exclusive lock; every other step — including all writes of a
    transaction that is later rolled back or fails — leaves the version unchanged -/
theorem version_changes_only_by_publish (reachOf : Nat → List (Nat × Hash)) (s t : IsoSys) (i : Nat) (a : IsoAct)
    (h : s.step reachOf i a = some t) : t.version = s.version ∨ (a = .publish ∧ t.version = s.version + 1 ∧
      s.sys.pcs[i]? = some Pc.wExcl) := by
  cases a with
  | lock a =>
    simp only [IsoSys.step] at h
    cases hs : s.sys.step i a with
    | none => simp [hs] at h
    | some sys' => simp only [hs] at h; cases a <;> simp only [Option.some.injEq] at h <;> subst h <;> exact Or.inl rfl
  | write p hh =>
    simp only [IsoSys.step] at h
    cases hpc : s.sys.pcs[i]? with
    | none => simp [hpc] at h
    | some pc => simp only [hpc] at h; split at h <;> simp at h; subst h; exact Or.inl rfl
  | publish =>
    simp only [IsoSys.step] at h
    cases hs : s.sys.step i .wFinish with
    | none => simp [hs] at h
    | some sys' =>
      simp only [hs] at h
      split at h
      · simp only [Option.some.injEq] at h; subst h
        refine Or.inr ⟨rfl, rfl, ?_⟩
        unfold Sys.step at hs
        cases hpc : s.sys.pcs[i]? with
        | none => simp [hpc] at hs
        | some pc =>
          simp only [hpc] at hs
          cases hf : Act.fire s.sys.lock .wFinish pc with
          | none => simp [hf] at hs
          | some r =>
            obtain ⟨pc', l'⟩ := r
            cases (fire_sound _ _ _ _ _ hf); rfl
      · simp at h

end TxVerif
